// C13.e: OSGB::GridReference(string) on arbitrary bytes.
#include <GeographicLib/OSGB.hpp>
#include "fuzz/c13_common.hpp"
using namespace GeographicLib;
extern "C" int LLVMFuzzerTestOneInput(const uint8_t* data, size_t size) {
  if (size < 1) return 0;
  bool centerp = data[0] & 1;
  std::string s((const char*)data + 1, size - 1), repr = vf::fz_show(s);
  double x = c13::SENT_D, y = c13::SENT_D; int prec = c13::SENT_I;
  int rc = c13::guarded([&] { OSGB::GridReference(s, x, y, prec, centerp); }, "OSGB::GridReference", repr);
  if (!rc && !std::isnan(x)) c13::must(s.find('\0') == std::string::npos, "a string with an embedded NUL was accepted with a value", repr);   // "INV..." is the documented invalid marker
  if (rc) c13::must(c13::same(x, c13::SENT_D) && c13::same(y, c13::SENT_D) && prec == c13::SENT_I, "OSGB::GridReference threw but modified an output", repr);
  else if (!std::isnan(x)) {
    c13::must(std::isfinite(x) && std::isfinite(y) && prec >= 0 && prec <= 11, "OSGB::GridReference accepted out-of-range results", repr);
    std::string t; int r2 = c13::guarded([&] { OSGB::GridReference(x, y, prec, t); }, "OSGB::GridReference(x,y) of accepted", repr);
    c13::must(r2 == 0, "OSGB::GridReference(x,y,prec) rejected the result of the string form", repr);
    double lat, lon; c13::guarded([&] { OSGB::Reverse(x, y, lat, lon); }, "OSGB::Reverse", repr);
  }
  vf::fz_case(data, size, size >= 2, rc ? "rejected" : "accepted", repr);
  return 0;
}
