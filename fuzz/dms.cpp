// fuzz/dms: DMS::Decode on arbitrary bytes.  Oracle: returns a value or throws GeographicErr only;
// an accepted string re-encodes (Encode at max precision) to a string that decodes to the same value/flag.
#include <cmath>
#include <string>
#include <GeographicLib/DMS.hpp>
#include "fw/fuzz.hpp"
using namespace GeographicLib;

extern "C" int LLVMFuzzerTestOneInput(const uint8_t* data, size_t size) {
  std::string s((const char*)data, size);
  DMS::flag ind = DMS::NONE; double v = 0; bool ok = false; std::string cls = "rejected";
  try { v = DMS::Decode(s, ind); ok = true; cls = "accepted"; }
  catch (const GeographicErr&) {}
  catch (const std::exception& e) { vf::fz_fail(std::string("exception of another type: ") + e.what(), vf::fz_show(s)); }
  vf::fz_case(data, size, size >= 3, cls, vf::fz_show(s));
  if (ok && std::isfinite(v) && std::fabs(v) < 1e9) {
    try {
      std::string t = DMS::Encode(v, DMS::SECOND, 12, ind);
      DMS::flag ind2; double w = DMS::Decode(t, ind2);
      double tolv = std::max(4e-16 * std::fabs(v), 0.5e-12 / 3600) * 1.01 + 4 * 2.3e-16 * std::fabs(v);
      if (!(std::fabs(w - v) <= tolv) || (ind != DMS::NONE && ind2 != ind))
        vf::fz_fail("Decode(Encode(Decode(s))) differs: " + std::to_string(v) + " vs " + std::to_string(w) + " via " + t, vf::fz_show(s));
    } catch (const GeographicErr& e) {
      vf::fz_fail(std::string("Encode/Decode of an accepted value threw: ") + e.what(), vf::fz_show(s));
    }
  }
  return 0;
}
