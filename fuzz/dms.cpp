// fuzz/dms: DMS::Decode / DecodeAngle / DecodeAzimuth / DecodeLatLon on arbitrary bytes.
// Oracles: (1) returns a value or throws GeographicErr only, the flag is untouched when it throws;
// (2) differential against the reference acceptor written from DMS.hpp (ref/dms_ref.hpp): INVALID => must throw,
//     VALID => must return the reference value and flag, UNSPEC (documentation silent) => either;
// (3) an accepted value re-encodes (Encode at 12 digits of seconds) to a string that decodes to the same value/flag;
// (4) DecodeAngle / DecodeAzimuth / DecodeLatLon (input split at the first '|') agree with Decode and the documented rules,
//     lat/lon untouched when DecodeLatLon throws.
#include <cmath>
#include <string>
#include <GeographicLib/DMS.hpp>
#include "fw/fuzz.hpp"
#include "ref/dms_ref.hpp"
using namespace GeographicLib;
typedef long double L;

namespace {
struct Dec { bool ok = false; double v = 0; DMS::flag f = DMS::NONE; };
Dec dec(const std::string& s, const std::string& show) {
  Dec d; DMS::flag ind = DMS::flag(7);
  try { d.v = DMS::Decode(s, ind); d.ok = true; d.f = ind; }
  catch (const GeographicErr&) { if (ind != DMS::flag(7)) vf::fz_fail("Decode changed the flag although it threw", show); }
  catch (const std::exception& e) { vf::fz_fail(std::string("exception of another type: ") + e.what(), show); }
  return d;
}
bool same(double a, double b) { return std::isnan(a) ? std::isnan(b) : a == b; }
}  // namespace

extern "C" int LLVMFuzzerTestOneInput(const uint8_t* data, size_t size) {
  std::string all((const char*)data, size), show = vf::fz_show(all);
  size_t bar = all.find('|');
  std::string s = all.substr(0, bar), s2 = bar == std::string::npos ? std::string() : all.substr(bar + 1);
  Dec d = dec(s, show);
  dmsref::Res R = dmsref::decode(s);
  static const char* cn[] = {"ref-valid", "ref-invalid", "ref-unspec"};
  vf::fz_case(data, size, size >= 3, std::string(d.ok ? "accepted " : "rejected ") + cn[R.cls], show);
  const double eps = 2.220446049250313e-16;
  if (R.cls == dmsref::INVALID && d.ok)
    vf::fz_fail("malformed string accepted (" + R.why + "): value " + std::to_string(d.v), show);
  if (R.cls == dmsref::VALID) {
    if (!d.ok) vf::fz_fail("legal string rejected", show);
    bool okv = std::isnan((double)R.value) ? std::isnan(d.v) : std::isinf((double)R.value) ? d.v == (double)R.value
               : fabsl((L)d.v - R.value) <= 10 * eps * R.sumabs + 1e-320L;
    if (!okv || (int)d.f != R.flag)
      vf::fz_fail("value/flag differ from the reference: " + std::to_string(d.v) + "/" + std::to_string((int)d.f) + " vs " + std::to_string((double)R.value) + "/" + std::to_string(R.flag), show);
  }
  // (3) re-encode
  if (d.ok && std::isfinite(d.v) && std::fabs(d.v) < 1e9) {
    try {
      std::string t = DMS::Encode(d.v, DMS::SECOND, 12, d.f);
      DMS::flag ind2; double w = DMS::Decode(t, ind2);
      // Encode limits seconds to 11 decimals (15 - 2*SECOND): half a unit of the last printed digit is 0.5e-11"
      double tolv = std::max(4e-16 * std::fabs(d.v), 0.5e-11 / 3600) * 1.01 + 4 * 2.3e-16 * std::fabs(d.v);
      if (!(std::fabs(w - d.v) <= tolv) || ind2 != d.f)
        vf::fz_fail("Decode(Encode(Decode(s))) differs: " + std::to_string(d.v) + " vs " + std::to_string(w) + " via " + t, show);
    } catch (const GeographicErr& e) {
      vf::fz_fail(std::string("Encode/Decode of an accepted value threw: ") + e.what(), show);
    }
  }
  // (4) DecodeAngle, DecodeAzimuth
  try {
    double a = DMS::DecodeAngle(s);
    if (!d.ok || d.f != DMS::NONE || !same(a, d.v)) vf::fz_fail("DecodeAngle inconsistent with Decode", show);
  } catch (const GeographicErr&) { if (d.ok && d.f == DMS::NONE) vf::fz_fail("DecodeAngle rejected what Decode accepts without hemisphere", show); }
  catch (const std::exception& e) { vf::fz_fail(std::string("DecodeAngle: exception of another type: ") + e.what(), show); }
  try {
    double a = DMS::DecodeAzimuth(s);
    if (!d.ok || d.f == DMS::LATITUDE) vf::fz_fail("DecodeAzimuth accepted a malformed string or a N/S designator", show);
    if (std::isfinite(d.v)) {
      if (!(std::fabs(a) <= 180) || std::fabs(std::remainder(a - std::remainder(d.v, 360.0), 360.0)) > 4 * eps * 360)
        vf::fz_fail("DecodeAzimuth not the reduction of Decode to [-180,180]: " + std::to_string(a), show);
    } else if (!std::isnan(a)) vf::fz_fail("DecodeAzimuth of a non-finite value is not NaN", show);
  } catch (const GeographicErr&) { if (d.ok && d.f != DMS::LATITUDE) vf::fz_fail("DecodeAzimuth rejected a legal azimuth", show); }
  catch (const std::exception& e) { vf::fz_fail(std::string("DecodeAzimuth: exception of another type: ") + e.what(), show); }
  // DecodeLatLon on the two halves
  if (bar != std::string::npos) {
    Dec e = dec(s2, show);
    for (int lf = 0; lf < 2; ++lf) {
      double lat = 1234.5, lon = -6789.25; bool thr = false;
      try { DMS::DecodeLatLon(s, s2, lat, lon, lf != 0); }
      catch (const GeographicErr&) { thr = true; }
      catch (const std::exception& x) { vf::fz_fail(std::string("DecodeLatLon: exception of another type: ") + x.what(), show); }
      int fa = d.f, fb = e.f;
      if (fa == 0 && fb == 0) { fa = lf ? 2 : 1; fb = lf ? 1 : 2; } else if (fa == 0) fa = 3 - fb; else if (fb == 0) fb = 3 - fa;
      bool legal = d.ok && e.ok && fa != fb;
      double elat = fa == 1 ? d.v : e.v, elon = fa == 1 ? e.v : d.v;
      if (legal && std::fabs(elat) > 90) legal = false;
      if (thr) {
        if (legal) vf::fz_fail("DecodeLatLon rejected a legal pair", show);
        if (lat != 1234.5 || lon != -6789.25) vf::fz_fail("DecodeLatLon changed lat/lon although it threw", show);
      } else {
        if (!legal) vf::fz_fail("DecodeLatLon accepted an illegal pair", show);
        if (!same(lat, elat) || !same(lon, elon)) vf::fz_fail("DecodeLatLon ordering: got " + std::to_string(lat) + "," + std::to_string(lon), show);
      }
    }
  }
  return 0;
}
