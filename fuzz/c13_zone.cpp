// C13.e: UTMUPS::DecodeZone on arbitrary bytes (+ EncodeZone of what was accepted).
#include <GeographicLib/UTMUPS.hpp>
#include "fuzz/c13_common.hpp"
using namespace GeographicLib;
extern "C" int LLVMFuzzerTestOneInput(const uint8_t* data, size_t size) {
  std::string s((const char*)data, size), repr = vf::fz_show(s);
  int zone = c13::SENT_I; bool northp = (size & 1) != 0; const bool n0 = northp;
  int rc = c13::guarded([&] { UTMUPS::DecodeZone(s, zone, northp); }, "UTMUPS::DecodeZone", repr);
  if (!rc && zone != UTMUPS::INVALID) c13::must(s.find('\0') == std::string::npos, "a string with an embedded NUL was accepted with a value", repr);   // "INV..." is the documented invalid marker
  if (rc) c13::must(zone == c13::SENT_I && northp == n0, "DecodeZone threw but modified zone/northp", repr);
  else {
    c13::must(zone == UTMUPS::INVALID || (zone >= UTMUPS::MINZONE && zone <= UTMUPS::MAXZONE), "DecodeZone accepted a zone outside [0,60]: " + std::to_string(zone), repr);
    if (zone != UTMUPS::INVALID) {
      std::string t; int z2 = c13::SENT_I; bool n2 = false;
      int r2 = c13::guarded([&] { t = UTMUPS::EncodeZone(zone, northp); UTMUPS::DecodeZone(t, z2, n2); }, "EncodeZone/DecodeZone", repr);
      c13::must(r2 == 0 && z2 == zone && n2 == northp, "EncodeZone(DecodeZone(s)) does not decode to the same zone: " + t, repr);
    }
  }
  vf::fz_case(data, size, size >= 1, rc ? "rejected" : "accepted", repr);
  return 0;
}
