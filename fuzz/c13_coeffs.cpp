// C13.f: SphericalEngine::coeff::readcoeffs on a byte stream (first bytes: truncate flag and requested N, M).
#define VF_FUZZ_LIMIT_NEW
#define VF_FUZZ_NEW_LIMIT_BYTES (64ull << 20)   // a 64 MiB request is already "huge" for these inputs
#include <sstream>
#include <fuzzer/FuzzedDataProvider.h>
#include <GeographicLib/SphericalEngine.hpp>
#include <GeographicLib/SphericalHarmonic.hpp>
#include "api/synth.hpp"
#include "fuzz/c13_common.hpp"
using namespace GeographicLib;
extern "C" int LLVMFuzzerTestOneInput(const uint8_t* data, size_t size) {
  if (size < 4) return 0;
  FuzzedDataProvider fp(data, size);
  static const int degs[] = {-1, 0, 1, 2, 3, 5, 8, 12, -2, 1 << 30, 2147483647, -2147483647 - 1, 46340, 46341, 65535, 65536, 1 << 20};
  bool truncate = fp.ConsumeBool();
  int N = degs[fp.ConsumeIntegralInRange<size_t>(0, 16)], M = degs[fp.ConsumeIntegralInRange<size_t>(0, 16)];
  std::string bytes;
  if (fp.ConsumeBool()) {   // structured: header from the table, data length exact / truncated / extended
    int N0 = degs[fp.ConsumeIntegralInRange<size_t>(0, 16)], M0 = fp.ConsumeBool() ? std::min(N0, degs[fp.ConsumeIntegralInRange<size_t>(0, 7)]) : degs[fp.ConsumeIntegralInRange<size_t>(0, 16)];
    if (N0 >= M0 && M0 >= -1 && N0 <= 12) { bytes = synth::coeff_block(N0, M0 < 0 ? 0 : M0, 5, 0.0, 1.0); if (M0 < 0) { bytes.resize(8); std::memcpy(&bytes[4], &M0, 4); } }
    else { synth::add_i32(bytes, N0); synth::add_i32(bytes, M0); bytes += std::string(64, 'x'); }
    switch (fp.ConsumeIntegralInRange(0, 4)) { case 0: bytes.resize(bytes.size() / 2); break; case 1: if (!bytes.empty()) bytes.pop_back(); break; case 2: bytes += "extra"; break; default: break; }
  } else bytes = fp.ConsumeRemainingBytesAsString();
  std::string repr = "truncate=" + std::to_string(truncate) + " N=" + std::to_string(N) + " M=" + std::to_string(M) + " " + vf::fz_show(bytes.substr(0, 40));
  std::vector<double> C, S; int n = N, m = M;
  std::istringstream is(bytes, std::ios::binary);
  int rc = c13::guarded([&] {
    SphericalEngine::coeff::readcoeffs(is, n, m, C, S, truncate);
    c13::must(n >= m && m >= -1, "readcoeffs returned N < M", repr);
    c13::must((long long)C.size() == SphericalEngine::coeff::Csize(n, m) && (long long)S.size() == SphericalEngine::coeff::Ssize(n, m), "readcoeffs: vector sizes do not match the returned degree/order", repr);
    if (n >= 0 && n <= 64) { SphericalHarmonic h(C, S, n, n, m, 6.4e6, SphericalHarmonic::FULL); double v = h(7e6, 1e6, 2e6); (void)v; }
  }, "readcoeffs", repr);
  vf::fz_case(data, size, bytes.size() >= 8, rc == 0 ? "accepted" : rc == 2 ? "bad_alloc" : "rejected", repr);
  return 0;
}
