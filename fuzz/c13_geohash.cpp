// C13.e: Geohash::Reverse on arbitrary bytes.
#include <GeographicLib/Geohash.hpp>
#include "fuzz/c13_common.hpp"
using namespace GeographicLib;
extern "C" int LLVMFuzzerTestOneInput(const uint8_t* data, size_t size) {
  if (size < 1) return 0;
  bool centerp = data[0] & 1;
  std::string s((const char*)data + 1, size - 1), repr = vf::fz_show(s);
  double lat = c13::SENT_D, lon = c13::SENT_D; int len = c13::SENT_I;
  int rc = c13::guarded([&] { Geohash::Reverse(s, lat, lon, len, centerp); }, "Geohash::Reverse", repr);
  if (!rc && !std::isnan(lat)) c13::must(s.substr(0, 18).find('\0') == std::string::npos,   /* only the first 18 characters are considered (Geohash.hpp) */ "a string with an embedded NUL was accepted with a value", repr);   // "INV..." is the documented invalid marker
  if (rc) c13::must(c13::same(lat, c13::SENT_D) && c13::same(lon, c13::SENT_D) && len == c13::SENT_I, "Geohash::Reverse threw but modified an output", repr);
  else if (!std::isnan(lat)) {
    c13::must(std::fabs(lat) <= 90 && std::fabs(lon) <= 180 && len >= 0 && len <= 18, "Geohash::Reverse accepted out-of-range results", repr);
    std::string t; int r2 = c13::guarded([&] { Geohash::Forward(lat, lon, len, t); }, "Geohash::Forward of accepted", repr);
    c13::must(r2 == 0, "Geohash::Forward rejected the result of Reverse", repr);
  }
  vf::fz_case(data, size, size >= 2, rc ? "rejected" : "accepted", repr);
  return 0;
}
