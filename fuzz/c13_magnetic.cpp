// C13.f: MagneticModel on generated metadata (.wmm) and coefficient (.wmm.cof) files, then a field evaluation.
#define VF_FUZZ_LIMIT_NEW
#define VF_FUZZ_NEW_LIMIT_BYTES (64ull << 20)   // a 64 MiB request is already "huge" for these inputs
#include <sstream>
#include <fuzzer/FuzzedDataProvider.h>
#include <GeographicLib/MagneticModel.hpp>
#include <GeographicLib/Utility.hpp>
#include <GeographicLib/MagneticCircle.hpp>
#include "api/synth.hpp"
#include "fuzz/c13_common.hpp"
using namespace GeographicLib;

static const int degs[] = {-1, 0, 1, 2, 3, 6, 12, -2, 1 << 30, 2147483647, -2147483647 - 1, 46341, 65536};
static std::string meta(FuzzedDataProvider& fp, int& nmodels, int& nconst) {
  static const char* vals[] = {"6371200", "2025", "5", "2", "1", "0", "-1", "2147483647", "2147483646", "1e300", "nan", "inf", "", "x", "2020", "2040", "-1000", "850000", "Linear", "Schmidt", "Little", "SYNTHMAG", "1000000", "99999999999"};
  static const char* keys[] = {"Name", "Description", "ReleaseDate", "Radius", "Type", "Epoch", "DeltaEpoch", "NumModels", "NumConstants", "MinTime", "MaxTime", "MinHeight", "MaxHeight", "Normalization", "ByteOrder", "ID", "Bogus"};
  std::string s = fp.PickValueInArray({"WMMF-2\n", "WMMF-1\n", "WMMF-2\n", "WMMF-3\n", "WMMF-\n", "EGMF-1\n", "WMMF-2 extra\n", "\n"});
  nmodels = 2; nconst = 0;
  bool base = fp.ConsumeIntegralInRange(0, 3) != 3;   // exhausted input => valid base
  if (base) s = synth::magnetic_meta("m");            // valid base, then overrides appended (later keys win)
  int n = fp.ConsumeIntegralInRange(0, base ? 3 : 10);
  for (int k = 0; k < n; ++k) {
    std::string key = keys[fp.ConsumeIntegralInRange<size_t>(0, 16)], val = vals[fp.ConsumeIntegralInRange<size_t>(0, 23)];
    s += key + (fp.ConsumeBool() ? " " : "\t ") + val + (fp.ConsumeBool() ? "\n" : " # c\n");
    if (key == "NumModels") nmodels = std::atoi(val.c_str());
    if (key == "NumConstants") nconst = std::atoi(val.c_str());
  }
  return s;
}
// Regression probes for the fixed finding F16 (findings/C13-int-overflow.md, fixed by b72f40b): NumModels near
// INT_MAX overflowed _nNmodels + 1 + _nNconstants.  Run once per process (also on replay).
static void probes() {
  static const char* pr[][2] = {{"2147483647", "0"}, {"2147483646", "1"}, {"2147483647", "1"}};
  std::string dir = c13::scratch("c13magp"); ::mkdir(dir.c_str(), 0755);
  for (auto& q : pr) {
    std::string m = synth::magnetic_meta("m") + "NumModels " + q[0] + "\nNumConstants " + q[1] + "\n";
    c13::put(dir + "/m.wmm", m); c13::put(dir + "/m.wmm.cof", synth::magnetic_cof());
    c13::guarded([&] { MagneticModel mm("m", dir); }, "MagneticModel(probe NumModels)", "probe NumModels=" + std::string(q[0]) + " NumConstants=" + q[1]);
  }
  ::unlink((dir + "/m.wmm").c_str()); ::unlink((dir + "/m.wmm.cof").c_str()); ::rmdir(dir.c_str());
}
extern "C" int LLVMFuzzerTestOneInput(const uint8_t* data, size_t size) {
  static bool probed = false;
  if (!probed) { probed = true; probes(); }
  if (size < 4) return 0;
  FuzzedDataProvider fp(data, size);
  int nmodels, nconst;
  std::string m, cof;
  bool raw = fp.ConsumeIntegralInRange(0, 7) == 7;
  int Nmax = fp.ConsumeIntegralInRange(-1, 8), Mmax = fp.ConsumeIntegralInRange(-1, 8);   // exhausted => -1 (no truncation)
  if (raw) { size_t n = fp.ConsumeIntegralInRange<size_t>(0, 200); m = "WMMF-2\n" + fp.ConsumeBytesAsString(n); cof = fp.ConsumeRemainingBytesAsString(); }
  else {
    m = meta(fp, nmodels, nconst);
    cof = fp.PickValueInArray({"SYNTHMAG", "SYNTHMAG", "SYNTHMAG", "SYNTHMAG", "SYNTHMAG", "SYNTHMAX", "SYNTH", ""});
    long long blocks = (long long)nmodels + 1 + nconst; if (blocks < 0 || blocks > 5) blocks = fp.ConsumeIntegralInRange(0, 5);
    for (long long b = 0; b < blocks; ++b) {
      bool ok = fp.ConsumeIntegralInRange(0, 5) != 5;
      int N = degs[fp.ConsumeIntegralInRange<size_t>(ok ? 1 : 0, ok ? 6 : 12)], M = (ok || fp.ConsumeBool()) ? N : degs[fp.ConsumeIntegralInRange<size_t>(0, 12)];
      if (N >= M && M >= 0 && N <= 12) cof += synth::coeff_block(N, M, 100 + (unsigned)b, (ok || !fp.ConsumeBool()) ? 0.0 : 1.0, 30000.0);
      else { synth::add_i32(cof, N); synth::add_i32(cof, M); if (fp.ConsumeBool()) cof += std::string(40, '\1'); }
    }
    switch (fp.ConsumeIntegralInRange(0, 9)) { case 0: cof.resize(cof.size() / 2); break; case 1: if (!cof.empty()) cof.pop_back(); break; case 2: cof += "x"; break; default: break; }
  }
  std::string dir = c13::scratch("c13mag"); ::mkdir(dir.c_str(), 0755);
  c13::put(dir + "/m.wmm", m); c13::put(dir + "/m.wmm.cof", cof);
  std::string repr = std::string(raw ? "raw " : "gen ") + "Nmax=" + std::to_string(Nmax) + " Mmax=" + std::to_string(Mmax) + " meta=" + vf::fz_show(m.substr(0, 300)) + " cof=" + vf::fz_show(cof.substr(0, 48)) + " coflen=" + std::to_string(cof.size());
  // The listed finding F9-MagneticModel-FieldGeocentric/Circle (int(floor((t - Epoch) / DeltaEpoch)) without a
  // range check) is also reachable from the file: Epoch / DeltaEpoch are parsed here the way ReadMetadata does.
  double t0 = std::nan(""), dt0 = 1;
  { std::istringstream ms(m); std::string line, key, val;
    while (std::getline(ms, line)) { try { if (!Utility::ParseLine(line, key, val)) continue;
        if (key == "Epoch") t0 = Utility::val<double>(val); else if (key == "DeltaEpoch") dt0 = Utility::val<double>(val); } catch (const std::exception&) {} } }
  if (!(dt0 > 0)) dt0 = 1;
  bool constructed = false, known_time = false;
  int rc = c13::guarded([&] {
    MagneticModel mm("m", dir, Geocentric::WGS84(), Nmax, Mmax); constructed = true;
    double t = mm.MinTime() + 0.3 * (mm.MaxTime() - mm.MinTime()); if (!std::isfinite(t) || std::fabs(t) > 1e6) t = 2025;
    double q = std::floor((t - t0) / dt0);
    if (!(std::fabs(q) < 2147483000.0)) {
      known_time = true;
      if (vf::fz_known_on("F9-MagneticModel-FieldGeocentric")) { vf::fz_known("F9-MagneticModel-FieldGeocentric"); return; }
    }
    double Bx, By, Bz, Bxt, Byt, Bzt, H, F, D, I;
    {
      mm(t, 33.5, -71.25, 1200.0, Bx, By, Bz, Bxt, Byt, Bzt);
      MagneticModel::FieldComponents(Bx, By, Bz, H, F, D, I);
      MagneticCircle c = mm.Circle(t, 33.5, 1200.0); double cx, cy, cz; c(-71.25, cx, cy, cz);
      if (std::isfinite(Bx) && std::isfinite(cx)) c13::must(std::fabs(cx - Bx) <= 1e-9 * (std::fabs(Bx) + std::fabs(By) + std::fabs(Bz) + 1), "MagneticCircle disagrees with MagneticModel", repr);
    }
  }, "MagneticModel", repr);
  ::unlink((dir + "/m.wmm").c_str()); ::unlink((dir + "/m.wmm.cof").c_str()); ::rmdir(dir.c_str());
  vf::fz_case(data, size, true, !constructed ? (rc == 2 ? "bad_alloc" : "rejected") : rc ? "constructed:threw-later" : known_time ? "constructed:known-time-cast" : "constructed:evaluated", repr);
  return 0;
}
