// fuzz/georef: bytes -> georef Reverse; oracle in ref/grid_fuzz.hpp (GeographicErr or a value inside the reference
// cell whose Forward reproduces the canonical code; acceptance agrees with the reference acceptor)
#include "ref/grid_fuzz.hpp"
extern "C" int LLVMFuzzerTestOneInput(const uint8_t* data, size_t size) { return gridfz::one(grid::GEOREF, data, size); }
