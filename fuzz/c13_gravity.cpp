// C13.f: GravityModel on generated metadata (.egm) and coefficient (.egm.cof) files, then evaluations.
#define VF_FUZZ_LIMIT_NEW
#define VF_FUZZ_NEW_LIMIT_BYTES (64ull << 20)   // a 64 MiB request is already "huge" for these inputs
#include <fuzzer/FuzzedDataProvider.h>
#include <GeographicLib/GravityModel.hpp>
#include <GeographicLib/GravityCircle.hpp>
#include "api/synth.hpp"
#include "fuzz/c13_common.hpp"
using namespace GeographicLib;

static const int degs[] = {-1, 0, 1, 2, 3, 8, 12, -2, 1 << 30, 2147483647, -2147483647 - 1, 46341, 65536};
static std::string meta(FuzzedDataProvider& fp) {
  static const char* vals[] = {"6378136.3", "3986004.415e8", "7292115e-11", "6378137", "1/298.257223563", "-0.41", "1", "0", "-1", "1e300", "nan", "inf", "", "x", "1/0", "0/0", "1.082e-3", "Full", "Schmidt", "Little", "Big", "SYNTHGRV", "2", "1/"};
  static const char* keys[] = {"Name", "Description", "ReleaseDate", "ModelRadius", "ModelMass", "AngularVelocity", "ReferenceRadius", "ReferenceMass", "Flattening", "DynamicalFormFactor", "HeightOffset", "CorrectionMultiplier", "Normalization", "ByteOrder", "ID", "Bogus"};
  std::string s = fp.PickValueInArray({"EGMF-1\n", "EGMF-1\n", "EGMF-1\n", "EGMF-2\n", "EGMF-\n", "WMMF-1\n", "EGMF-1 x\n", ""});
  if (!fp.ConsumeBool()) s = synth::gravity_meta("g");   // exhausted input => valid base
  int n = fp.ConsumeIntegralInRange(0, 10);
  for (int k = 0; k < n; ++k)
    s += std::string(keys[fp.ConsumeIntegralInRange<size_t>(0, 15)]) + " " + vals[fp.ConsumeIntegralInRange<size_t>(0, 23)] + (fp.ConsumeBool() ? "\n" : " # c\n");
  return s;
}
extern "C" int LLVMFuzzerTestOneInput(const uint8_t* data, size_t size) {
  if (size < 4) return 0;
  FuzzedDataProvider fp(data, size);
  std::string m, cof;
  bool raw = fp.ConsumeIntegralInRange(0, 7) == 7;
  int Nmax = fp.ConsumeIntegralInRange(-1, 10), Mmax = fp.ConsumeIntegralInRange(-1, 10);
  if (raw) { size_t n = fp.ConsumeIntegralInRange<size_t>(0, 200); m = "EGMF-1\n" + fp.ConsumeBytesAsString(n); cof = fp.ConsumeRemainingBytesAsString(); }
  else {
    m = meta(fp);
    cof = fp.PickValueInArray({"SYNTHGRV", "SYNTHGRV", "SYNTHGRV", "SYNTHGRX", "SYN", ""});
    int blocks = fp.ConsumeIntegralInRange(0, 3);
    if (!fp.ConsumeBool()) { cof = synth::gravity_cof(2 + fp.ConsumeIntegralInRange(0, 8), fp.ConsumeIntegralInRange(-1, 4)); blocks = 0; }
    for (int b = 0; b < blocks; ++b) {
      int N = degs[fp.ConsumeIntegralInRange<size_t>(0, 12)], M = fp.ConsumeBool() ? N : degs[fp.ConsumeIntegralInRange<size_t>(0, 12)];
      if (N >= M && M >= 0 && N <= 12) cof += synth::coeff_block(N, M, 7 + (unsigned)b, !fp.ConsumeBool() ? 0.0 : 1.0, 1e-6);
      else { synth::add_i32(cof, N); synth::add_i32(cof, M); if (fp.ConsumeBool()) cof += std::string(40, '\1'); }
    }
    switch (fp.ConsumeIntegralInRange(0, 5)) { case 0: cof.resize(cof.size() / 2); break; case 1: if (!cof.empty()) cof.pop_back(); break; case 2: cof += "x"; break; default: break; }
  }
  std::string dir = c13::scratch("c13grav"); ::mkdir(dir.c_str(), 0755);
  c13::put(dir + "/g.egm", m); c13::put(dir + "/g.egm.cof", cof);
  std::string repr = std::string(raw ? "raw " : "gen ") + "Nmax=" + std::to_string(Nmax) + " Mmax=" + std::to_string(Mmax) + " meta=" + vf::fz_show(m.substr(0, 300)) + " cof=" + vf::fz_show(cof.substr(0, 48)) + " coflen=" + std::to_string(cof.size());
  bool constructed = false;
  int rc = c13::guarded([&] {
    GravityModel g("g", dir, Nmax, Mmax); constructed = true;
    double gx, gy, gz;
    (void)g.Gravity(33.5, -71.25, 1200.0, gx, gy, gz); (void)g.Disturbance(-10.0, 100.0, 0.0, gx, gy, gz); (void)g.GeoidHeight(33.5, -71.25);
    g.SphericalAnomaly(33.5, -71.25, 0.0, gx, gy, gz); (void)g.T(6.4e6, 1e5, 2e5);
    GravityCircle c = g.Circle(33.5, 1200.0); (void)c.Gravity(-71.25, gx, gy, gz); (void)c.GeoidHeight(10.0);
  }, "GravityModel", repr);
  ::unlink((dir + "/g.egm").c_str()); ::unlink((dir + "/g.egm.cof").c_str()); ::rmdir(dir.c_str());
  vf::fz_case(data, size, true, !constructed ? (rc == 2 ? "bad_alloc" : "rejected") : rc ? "constructed:threw-later" : "constructed:evaluated", repr);
  return 0;
}
