// fuzz/tool_geoconvert: GeoConvert run in-process on arbitrary input text.  Byte 0 selects the options, the rest is the
// input file.  Oracle: no crash / sanitizer report, one output line per input line, bad lines answered by a line starting
// "ERROR", exit status != 0 iff there is such a line.
#include <string>
#include "fw/fuzz.hpp"
#include "gen/tool_run.hpp"
#include "gen/c10_known.hpp"
int tool_GeoConvert_main(int argc, const char* const argv[]);

extern "C" int LLVMFuzzerTestOneInput(const uint8_t* data, size_t size) {
  if (size < 1) return 0;
  unsigned o = data[0];
  std::string in((const char*)data + 1, size - 1);
  static const char* modes[] = {"-g", "-d", "-:", "-u", "-m", "-c"};
  static const char* precs[] = {"0", "-5", "9", "3"};
  std::vector<std::string> args = {modes[o % 6], "-p", precs[(o / 6) % 4]};
  if ((o / 24) % 2) args.push_back("-w");
  if ((o / 48) % 2) args.push_back("-n");
  if ((o / 96) % 2) args.push_back("-s");
  if (c10known::mgrs_zone_overflow_text(in) && vf::fz_known_on("C10-mgrs-zone-overflow")) { vf::fz_known("C10-mgrs-zone-overflow"); return 0; }
  toolrun::Out r = toolrun::run("GeoConvert", tool_GeoConvert_main, args, in);
  if (!r.io) return 0;
  std::string why = toolrun::line_contract(in, r);
  bool anyerr = r.rc != 0;
  vf::fz_case(data, size, size >= 4, std::string(modes[o % 6]) + (anyerr ? " some-bad" : " all-good"), vf::fz_show(in));
  if (!why.empty()) vf::fz_fail("GeoConvert " + std::string(modes[o % 6]) + ": " + why, vf::fz_show(in) + " -> " + vf::fz_show(r.text));
  return 0;
}
