// fuzz/geocoords: GeoCoords::Reset on arbitrary bytes (byte 0: centerp / longfirst), then every representation of an
// accepted position is re-read.  Oracles: only GeographicErr may escape; an accepted position has |lat| <= 90 (or NaN)
// and a longitude in [-180,180] (documented; known finding C10-geocoords-lon is counted and skipped); Geo/DMS/UTMUPS/MGRS
// representations at several precisions are accepted by Reset again and give the same position within the printed
// resolution, the same zone and (away from the equator) hemisphere.
#include <cmath>
#include <string>
#include <GeographicLib/GeoCoords.hpp>
#include "fw/fuzz.hpp"
#include "gen/c10_known.hpp"
using namespace GeographicLib;

namespace {
bool reset(GeoCoords& q, const std::string& s, bool cp, bool lf, const std::string& show, bool must) {
  try { q.Reset(s, cp, lf); return true; }
  catch (const GeographicErr& e) { if (must) vf::fz_fail("Reset rejects the library's own representation '" + s + "': " + e.what(), show); }
  catch (const std::exception& e) { vf::fz_fail(std::string("exception of another type: ") + e.what(), show); }
  return false;
}
}  // namespace

extern "C" int LLVMFuzzerTestOneInput(const uint8_t* data, size_t size) {
  if (size < 1) return 0;
  bool cp = data[0] & 1, lf = data[0] & 2;
  std::string s((const char*)data + 1, size - 1), show = vf::fz_show(s);
  if (c10known::mgrs_zone_overflow(s) && vf::fz_known_on("C10-mgrs-zone-overflow")) { vf::fz_known("C10-mgrs-zone-overflow"); return 0; }
  GeoCoords p;
  bool ok = reset(p, s, cp, lf, show, false);
  int ntok = 0; { bool in = false; for (char c : s) { bool sp = c == ' ' || c == ',' || (c >= 9 && c <= 13); if (!sp && !in) ++ntok; in = !sp; } }
  vf::fz_case(data, size, size >= 4, std::string(ok ? "accepted-" : "rejected-") + (ntok > 3 ? "4+" : std::to_string(ntok)) + "tok", show);
  if (!ok) return 0;
  double lat = p.Latitude(), lon = p.Longitude();
  if (std::isnan(lat) || std::isnan(lon) || p.Zone() < 0) return 0;     // "nan nan", INVALID: nothing to compare
  if (!(std::fabs(lat) <= 90)) vf::fz_fail("accepted latitude " + std::to_string(lat), show);
  if (!(std::fabs(lon) <= 180)) {
    if (vf::fz_known_on("C10-geocoords-lon")) { vf::fz_known("C10-geocoords-lon"); return 0; }
    vf::fz_fail("accepted position has longitude " + std::to_string(lon) + " outside [-180,180] (GeoCoords.hpp: reduced internally)", show);
  }
  GeoCoords q;
  static const int precs[] = {-5, -2, 0, 3, 9};
  for (int prec : precs) {
    // decimal degrees and DMS
    for (int dms = 0; dms < 2; ++dms) {
      std::string r;
      try { r = dms ? p.DMSRepresentation(prec, lf, (data[0] & 4) ? ':' : '\0') : p.GeoRepresentation(prec, lf); }
      catch (const std::exception& e) { vf::fz_fail(std::string("representation threw: ") + e.what(), show); }
      reset(q, r, true, lf, show, true);
      int pc = std::min(dms ? 10 : 9, prec) + 5;
      double res = dms ? (pc < 2 ? std::pow(10.0, -pc) : pc < 4 ? std::pow(10.0, -(pc - 2)) / 60 : std::pow(10.0, -(pc - 4)) / 3600) : std::pow(10.0, -pc);
      if (!(std::fabs(q.Latitude() - lat) <= std::max(0.5 * res + 1.5e-14, 6e-14)) || !(std::fabs(std::remainder(q.Longitude() - lon, 360.0)) <= std::max(0.5 * res + 3e-14, 1.2e-13)))   // max(half unit + 1 ulp, 4 ulp)
        vf::fz_fail("position re-read from '" + r + "' is off by more than half a unit", show);
    }
    // UTM/UPS (the stored coordinates may be outside the standard zone: all legal inputs must be re-readable)
    if (prec >= 0) {
      std::string r;
      try { r = p.UTMUPSRepresentation(prec); } catch (const std::exception& e) { vf::fz_fail(std::string("UTMUPSRepresentation threw: ") + e.what(), show); }
      reset(q, r, true, false, show, true);
      double res = std::pow(10.0, -prec);
      bool eq = std::fabs(lat) * 110000 <= 1.1 * res + 1e-3;
      if (q.Zone() != p.Zone() || !(std::fabs(q.Easting() - p.Easting()) <= 0.5 * res + 4e-9) ||
          (!eq && (q.Northp() != p.Northp() || !(std::fabs(q.Northing() - p.Northing()) <= 0.5 * res + 4e-9))))
        vf::fz_fail("UTM/UPS position re-read from '" + r + "' differs", show);
    }
    // MGRS (documented narrower range: GeographicErr allowed when formatting)
    {
      std::string r; bool have = true;
      try { r = p.MGRSRepresentation(prec); } catch (const GeographicErr&) { have = false; }
      catch (const std::exception& e) { vf::fz_fail(std::string("MGRSRepresentation: exception of another type: ") + e.what(), show); }
      if (have) {
        reset(q, r, true, false, show, true);
        int pc = std::max(-6, std::min(6, prec));
        double unit = std::pow(10.0, -pc);
        if (q.Zone() != p.Zone() || q.Northp() != p.Northp() ||
            !(std::fabs(q.Easting() - p.Easting()) <= 0.5 * unit + 2e-8) || !(std::fabs(q.Northing() - p.Northing()) <= 0.5 * unit + 2e-8))
          vf::fz_fail("MGRS position re-read from '" + r + "' differs", show);
      }
    }
  }
  return 0;
}
