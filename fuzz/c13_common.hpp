// Shared by the C13 fuzz targets (fuzz/c13_*.cpp).  Oracle of C13.e/f: a call on arbitrary input either
// returns or throws GeographicErr / std::bad_alloc; any other exception type is a violation (sanitizer
// reports, crashes and timeouts are caught by libFuzzer itself).  When a parser throws, the reference
// arguments it uses for results must still hold their sentinels.
#pragma once
#include <cmath>
#include <cstring>
#include <new>
#include <string>
#include <sys/stat.h>
#include <unistd.h>
#include <GeographicLib/Constants.hpp>
#include "fw/fuzz.hpp"

// fw/fuzz.hpp (VF_FUZZ_LIMIT_NEW) replaces operator new/delete by malloc/free but not the nothrow and
// aligned forms; libFuzzer's own libc++ uses new(nothrow) (stable_sort buffers) and frees through the
// replaced delete, which ASan reports as alloc-dealloc-mismatch.  Complete the set here.
#ifdef VF_FUZZ_LIMIT_NEW
void* operator new(std::size_t n, const std::nothrow_t&) noexcept { return n > VF_FUZZ_NEW_LIMIT_BYTES ? nullptr : std::malloc(n ? n : 1); }
void* operator new[](std::size_t n, const std::nothrow_t&) noexcept { return n > VF_FUZZ_NEW_LIMIT_BYTES ? nullptr : std::malloc(n ? n : 1); }
void operator delete(void* p, const std::nothrow_t&) noexcept { std::free(p); }
void operator delete[](void* p, const std::nothrow_t&) noexcept { std::free(p); }
void* operator new(std::size_t n, std::align_val_t a) {
  if (n > VF_FUZZ_NEW_LIMIT_BYTES) throw std::bad_alloc();
  void* p = nullptr; if (posix_memalign(&p, (std::size_t)a < sizeof(void*) ? sizeof(void*) : (std::size_t)a, n ? n : 1) != 0) throw std::bad_alloc(); return p;
}
void* operator new[](std::size_t n, std::align_val_t a) { return operator new(n, a); }
void operator delete(void* p, std::align_val_t) noexcept { std::free(p); }
void operator delete[](void* p, std::align_val_t) noexcept { std::free(p); }
void operator delete(void* p, std::size_t, std::align_val_t) noexcept { std::free(p); }
void operator delete[](void* p, std::size_t, std::align_val_t) noexcept { std::free(p); }
#endif

namespace c13 {
const double SENT_D = 0x1.a5a5a5a5a5a5ap+321;
const int SENT_I = -7777;
inline bool same(double x, double y) { return std::memcmp(&x, &y, 8) == 0; }

// 0 returned, 1 GeographicErr, 2 bad_alloc; other exception types fail the oracle
template <class F> int guarded(F f, const std::string& what, const std::string& repr) {
  try { f(); return 0; }
  catch (const GeographicLib::GeographicErr&) { return 1; }
  catch (const std::bad_alloc&) { return 2; }
  catch (const std::exception& e) { vf::fz_fail("exception of another type from " + what + ": " + e.what(), repr); }
  catch (...) { vf::fz_fail("non-standard exception from " + what, repr); }
}
inline void must(bool cond, const std::string& what, const std::string& repr) { if (!cond) vf::fz_fail(what, repr); }

inline std::string scratch(const char* stem) { return vf::fz_tmpdir() + "/" + stem + "-" + std::to_string((long)getpid()); }
inline void put(const std::string& path, const std::string& data) {
  FILE* f = std::fopen(path.c_str(), "wb"); if (!f) return; std::fwrite(data.data(), 1, data.size(), f); std::fclose(f);
}
}  // namespace c13
