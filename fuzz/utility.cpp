// fuzz/utility: Utility::val<int|double|bool|string>, fract, nummatch, date, fractionalyear, trim, ParseLine, lookup on
// arbitrary bytes.  Oracles: only GeographicErr may escape; differential against the reference acceptors / models of
// ref/c10_ref.hpp (written from Utility.hpp): accepted syntax and value of numbers, word list of val<bool>, trim and
// ParseLine models; outputs of date() untouched when it throws.
#include <cmath>
#include <string>
#include <GeographicLib/Utility.hpp>
#include "fw/fuzz.hpp"
#include "ref/c10_ref.hpp"
#include "gen/c10_known.hpp"
using namespace GeographicLib;

namespace {
template <class T, class F> int call(F f, T& out, const std::string& show, const char* what) {   // 0 value, 1 GeographicErr
  try { out = f(); return 0; }
  catch (const GeographicErr&) { return 1; }
  catch (const std::exception& e) { vf::fz_fail(std::string(what) + ": exception of another type: " + e.what(), show); }
}
bool same(double a, double b) { return std::isnan(a) ? std::isnan(b) : a == b && std::signbit(a) == std::signbit(b); }
}  // namespace

extern "C" int LLVMFuzzerTestOneInput(const uint8_t* data, size_t size) {
  std::string s((const char*)data, size), show = vf::fz_show(s);
  std::string t = c10ref::trim(s), lo = c10ref::lower(t), core = lo;
  if (!core.empty() && (core[0] == '+' || core[0] == '-')) core = core.substr(1);
  // spellings the header only calls "variants thereof" (1.#INF, trailing zeros after nan/inf): not decided
  bool variant = core.rfind("nan", 0) == 0 || core.rfind("inf", 0) == 0 || core.rfind("1.#", 0) == 0;
  bool plain = core == "nan" || core == "inf" || core == "infinity";
  // val<double>
  double want = 0, got = 0; c10ref::Acc a = c10ref::accept_float(s, want);
  int rc = call([&] { return Utility::val<double>(s); }, got, show, "val<double>");
  std::string cls = rc ? "double-rejected" : "double-accepted";
  if (!variant || plain) {
    if (a == c10ref::ACC && (rc || !same(got, want))) vf::fz_fail("val<double> " + std::string(rc ? "rejected a number" : "returned " + std::to_string(got)), show);
    if (a == c10ref::REJ && !rc) vf::fz_fail("val<double> accepted a malformed number as " + std::to_string(got), show);
  }
  vf::fz_case(data, size, size >= 3, cls, show);
  // nummatch: a special value or 0, never anything else
  { double nm = Utility::nummatch<double>(t); if (!(nm == 0 || std::isinf(nm) || std::isnan(nm))) vf::fz_fail("nummatch returned a finite non-zero value", show);
    if (!variant && nm != 0) vf::fz_fail("nummatch matched a string without nan/inf", show);
    if (plain && !(std::isnan(want) ? std::isnan(nm) : nm == want)) vf::fz_fail("nummatch missed a plain nan/inf", show); }
  // val<int>
  { int iw = 0, ig = 0; c10ref::Acc ai = c10ref::accept_int(s, iw); int ri = call([&] { return Utility::val<int>(s); }, ig, show, "val<int>");
    if (ai == c10ref::ACC ? (ri || ig != iw) : !ri) vf::fz_fail("val<int> differs from the reference acceptor: " + std::to_string(ig), show); }
  // val<bool>: documented word list; other spellings of the numbers 0 and 1 (+1, 00) are not decided
  { bool b = false; int rb = call([&] { return Utility::val<bool>(s); }, b, show, "val<bool>");
    bool isf = lo == "false" || lo == "f" || lo == "nil" || lo == "no" || lo == "n" || lo == "off" || lo == "" || lo == "0";
    bool ist = lo == "true" || lo == "t" || lo == "yes" || lo == "y" || lo == "on" || lo == "1";
    int iw = 0; bool numeric = c10ref::accept_int(s, iw) == c10ref::ACC || (!lo.empty() && lo.find_first_not_of("+-0123456789") == std::string::npos);
    if (isf || ist) { if (rb || b != ist) vf::fz_fail("val<bool> wrong on a documented word", show); }
    else if (!numeric && !rb) vf::fz_fail("val<bool> accepted an undocumented word", show); }
  // val<string>, trim
  if (Utility::val<std::string>(s) != t || Utility::trim(s) != t) vf::fz_fail("trim differs from the model", show);
  // fract
  { double f = 0; int rf = call([&] { return Utility::fract<double>(s); }, f, show, "fract");
    size_t d = s.find('/');
    if (d != std::string::npos && d >= 1 && d + 2 <= s.size()) {
      double x = 0, y = 0; std::string sa = s.substr(0, d), sb = s.substr(d + 1);
      c10ref::Acc ra = c10ref::accept_float(sa, x), rb = c10ref::accept_float(sb, y);
      auto var = [](const std::string& q) { std::string c = c10ref::lower(c10ref::trim(q)); if (!c.empty() && (c[0] == '+' || c[0] == '-')) c = c.substr(1);
                                           return (c.rfind("nan", 0) == 0 || c.rfind("inf", 0) == 0 || c.rfind("1.#", 0) == 0) && !(c == "nan" || c == "inf" || c == "infinity"); };
      if (!var(sa) && !var(sb) && ra != c10ref::UNS && rb != c10ref::UNS) {
        bool ok = ra == c10ref::ACC && rb == c10ref::ACC;
        if (ok ? (rf || !same(f, x / y)) : !rf) vf::fz_fail("fract differs from the reference: " + std::to_string(f), show);
      }
    } else if ((!variant || plain) && a != c10ref::UNS) { if (a == c10ref::ACC ? (rf || !same(f, want)) : !rf) vf::fz_fail("fract without '/' differs from val", show); }
  }
  // date / fractionalyear
  if (t != "now" && s != "now") {
    int y = -7, m = -7, d = -7; bool thr = false;
    try { Utility::date(s, y, m, d); } catch (const GeographicErr&) { thr = true; }
    catch (const std::exception& e) { vf::fz_fail(std::string("date: exception of another type: ") + e.what(), show); }
    if (thr && !(y == -7 && m == -7 && d == -7)) vf::fz_fail("date changed its outputs although it threw", show);
    if (c10known::date_field_overflow(s) && a != c10ref::ACC && vf::fz_known_on("C10-date-int-overflow")) { vf::fz_known("C10-date-int-overflow"); return 0; }
    double fy = 0; int ry = call([&] { return Utility::fractionalyear<double>(s); }, fy, show, "fractionalyear");
    if (a == c10ref::ACC && (!variant || plain) && (ry || !same(fy, want))) vf::fz_fail("fractionalyear of a plain number", show);
    if (!ry && a == c10ref::REJ && !variant && thr) vf::fz_fail("fractionalyear accepted what neither val nor date accepts", show);
  }
  // ParseLine with the first two bytes as equals / comment characters
  if (size >= 2) {
    char eq = (char)(data[0] & 0x7f), cm = (char)(data[1] & 0x7f);
    std::string line = s.substr(2), k1 = "junk", v1 = "junk", k2, v2;
    bool b1 = Utility::ParseLine(line, k1, v1, eq, cm), b2 = c10ref::parseline(line, k2, v2, eq, cm);
    if (b1 != b2 || k1 != k2 || v1 != v2) vf::fz_fail("ParseLine differs from the model: (" + k1 + "|" + v1 + ") vs (" + k2 + "|" + v2 + ")", show);
    // lookup
    std::string hay = "SNWE-+0123456789D'\":";
    char c = (char)data[0], up = (c >= 'a' && c <= 'z') ? char(c - 'a' + 'A') : c; int wantp = -1;
    if (c) for (size_t i = 0; i < hay.size(); ++i) if (hay[i] == up) { wantp = (int)i; break; }
    if (Utility::lookup(hay.c_str(), c) != wantp || Utility::lookup(hay, c) != wantp) vf::fz_fail("lookup differs from the model", show);
  }
  return 0;
}
