// C13.e: Utility::val<int/double/bool/long double>, fract, date, fractionalyear, ParseLine, trim, lookup.
#include <GeographicLib/Utility.hpp>
#include "fuzz/c13_common.hpp"
using namespace GeographicLib;
extern "C" int LLVMFuzzerTestOneInput(const uint8_t* data, size_t size) {
  if (size < 1) return 0;
  int which = data[0] % 9;
  std::string s((const char*)data + 1, size - 1), repr = std::to_string(which) + ":" + vf::fz_show(s);
  if (s.find("now") != std::string::npos) return 0;   // "now" reads the clock
  int rc = 0; const char* cls = "";
  switch (which) {
    case 0: { cls = "val<int>"; rc = c13::guarded([&] { (void)Utility::val<int>(s); }, cls, repr); break; }
    case 1: { cls = "val<double>"; double v = 0; rc = c13::guarded([&] { v = Utility::val<double>(s); }, cls, repr);
              if (!rc) { std::string t = Utility::str(v, 17); int r2 = c13::guarded([&] { (void)Utility::val<double>(t); }, "val(str(val))", repr); c13::must(r2 == 0, "val<double> rejects str() of an accepted value: " + t, repr); } break; }
    case 2: { cls = "val<bool>"; rc = c13::guarded([&] { (void)Utility::val<bool>(s); }, cls, repr); break; }
    case 3: { cls = "fract<double>"; rc = c13::guarded([&] { (void)Utility::fract<double>(s); }, cls, repr); break; }
    case 4: { cls = "date"; int y = c13::SENT_I, m = c13::SENT_I, d = c13::SENT_I; rc = c13::guarded([&] { Utility::date(s, y, m, d); }, cls, repr);
              if (rc) c13::must(y == c13::SENT_I && m == c13::SENT_I && d == c13::SENT_I, "Utility::date threw but modified an output", repr); break; }
    case 5: { cls = "fractionalyear"; rc = c13::guarded([&] { (void)Utility::fractionalyear<double>(s); }, cls, repr); break; }
    case 6: { cls = "ParseLine"; std::string k, v; bool eq = size > 1 && (data[1] & 1);
              rc = c13::guarded([&] { bool r = Utility::ParseLine(s, k, v, eq ? '=' : '\0', '#'); if (r) c13::must(!k.empty(), "ParseLine returned true with an empty key", repr); }, cls, repr);
              c13::must(rc == 0, "ParseLine threw", repr); break; }
    case 7: { cls = "val<long double>"; rc = c13::guarded([&] { (void)Utility::val<long double>(s); (void)Utility::val<unsigned>(s); (void)Utility::val<float>(s); }, cls, repr); break; }
    default: { cls = "trim/lookup"; rc = c13::guarded([&] { std::string t = Utility::trim(s); c13::must(t.size() <= s.size(), "trim grew the string", repr);
                 int p = Utility::lookup(std::string("0123456789ABCDEF"), s.empty() ? '\0' : s[0]); c13::must(p >= -1 && p < 16, "lookup out of range", repr);
                 c13::must(Utility::lookup("0123456789", '\0') == -1 && Utility::lookup(std::string("0123456789"), '\0') == -1, "lookup reports a match for the NUL character", repr);
                 int q = Utility::lookup("abcdefghjklmnpqrstuvwxyz", s.empty() ? '\0' : s[0]); c13::must(q >= -1 && q < 24, "lookup out of range", repr); }, cls, repr);
               c13::must(rc == 0, "trim/lookup threw", repr); }
  }
  vf::fz_case(data, size, size >= 2, std::string(cls) + (rc ? ":rejected" : ":accepted"), repr);
  return 0;
}
