// C13.e: MGRS::Reverse and MGRS::Decode on arbitrary bytes.
#include <GeographicLib/MGRS.hpp>
#include <GeographicLib/UTMUPS.hpp>
#include "fuzz/c13_common.hpp"
using namespace GeographicLib;
extern "C" int LLVMFuzzerTestOneInput(const uint8_t* data, size_t size) {
  if (size < 1) return 0;
  bool centerp = data[0] & 1;
  std::string s((const char*)data + 1, size - 1), repr = vf::fz_show(s);
  int zone = c13::SENT_I, prec = c13::SENT_I; bool northp = (data[0] & 2) != 0; const bool n0 = northp; double x = c13::SENT_D, y = c13::SENT_D;
  int rc = c13::guarded([&] { MGRS::Reverse(s, zone, northp, x, y, prec, centerp); }, "MGRS::Reverse", repr);
  if (!rc && zone != UTMUPS::INVALID) c13::must(s.find('\0') == std::string::npos, "a string with an embedded NUL was accepted with a value", repr);   // "INV..." is the documented invalid marker
  if (rc) c13::must(zone == c13::SENT_I && prec == c13::SENT_I && northp == n0 && c13::same(x, c13::SENT_D) && c13::same(y, c13::SENT_D), "MGRS::Reverse threw but modified an output", repr);
  else if (zone == UTMUPS::INVALID) c13::must(std::isnan(x) && std::isnan(y) && prec == -2, "INVALID mgrs must give NaN, NaN, prec -2", repr);
  else {
    c13::must(zone >= 0 && zone <= 60 && prec >= -1 && prec <= 11 && std::isfinite(x) && std::isfinite(y), "MGRS::Reverse accepted out-of-range results", repr);
    if (prec >= 0) {   // an accepted string re-encodes without error
      std::string t; int r2 = c13::guarded([&] { MGRS::Forward(zone, northp, x, y, prec, t); }, "MGRS::Forward of accepted", repr);
      c13::must(r2 == 0, "MGRS::Forward rejected the result of MGRS::Reverse", repr);
    }
  }
  std::string gz = "~0", bl = "~1", ea = "~2", no = "~3";
  int rd = c13::guarded([&] { MGRS::Decode(s, gz, bl, ea, no); }, "MGRS::Decode", repr);
  if (rd) c13::must(gz == "~0" && bl == "~1" && ea == "~2" && no == "~3", "MGRS::Decode threw but modified an output", repr);
  vf::fz_case(data, size, size >= 3, rc ? "rejected" : (zone == UTMUPS::INVALID ? "invalid" : "accepted"), repr);
  return 0;
}
