// fuzz/mgrs: bytes -> MGRS::Reverse.  Oracle: only GeographicErr may escape and it leaves zone, northp, x, y, prec
// untouched; the string is accepted iff the reference decoder (ref/mgrs.hpp: own letter tables, block legality
// decided geometrically) accepts it (lower-case input and blocks within 10 nm of a band edge: acceptance not
// judged); an accepted coordinate has the reference zone/hemisphere/precision and lies in the reference square;
// Forward of the returned centre reproduces the upper-cased string apart from the band letter (and a dropped
// leading zero); INVALID markers give zone INVALID, NaN, prec -2.
#include <cmath>
#include <string>
#include <GeographicLib/MGRS.hpp>
#include <GeographicLib/UTMUPS.hpp>
#include "fw/fuzz.hpp"
#include "ref/mgrs.hpp"
using namespace GeographicLib;

extern "C" int LLVMFuzzerTestOneInput(const uint8_t* data, size_t size) {
  std::string s((const char*)data, size);
  std::string repr = vf::fz_show(s);
  const int SZ = -9; const double SX = -7.25, SY = -3.5; const int SP = -77;
  int zone = SZ; bool northp = true; double x = SX, y = SY; int prec = SP; bool thrown = false;
  bool centerp = !(size > 0 && (data[size - 1] & 1));      // last byte's low bit: digits 1,3,5,7,9 -> SW corner
  try { MGRS::Reverse(s, zone, northp, x, y, prec, centerp); }
  catch (const GeographicErr&) { thrown = true; }
  catch (const std::exception& e) { vf::fz_fail(std::string("exception of another type: ") + e.what(), repr); }
  mref::Dec d; mref::DSt st = mref::decode(s, d);
  const char* cls = st == mref::D_VALID ? (d.gridzone ? "legal-gridzone" : "legal") : st == mref::D_MARKER ? "marker" : st == mref::D_INVALID ? "illegal" : "unjudged";
  vf::fz_case(data, size, size >= 2, cls, repr);
  if (thrown) {
    if (!(zone == SZ && northp == true && x == SX && y == SY && prec == SP)) vf::fz_fail("outputs modified by a failing Reverse", repr);
    if (st == mref::D_MARKER || (st == mref::D_VALID && !d.lower)) vf::fz_fail("legal MGRS coordinate rejected", repr);
    return 0;
  }
  if (st == mref::D_INVALID) vf::fz_fail("string is not a legal MGRS coordinate but was accepted: zone " + std::to_string(zone) + " prec " + std::to_string(prec), repr);
  if (st == mref::D_MARKER) {
    if (!(zone == UTMUPS::INVALID && northp == false && std::isnan(x) && std::isnan(y) && prec == -2)) vf::fz_fail("INVALID marker decoded wrongly", repr);
    return 0;
  }
  if (st == mref::D_VALID) {
    if (!(zone == d.zone && northp == d.northp && prec == d.prec)) vf::fz_fail("zone/hemisphere/precision differ from the reference", repr);
    if (!d.gridzone) {
      grid::Q ex = grid::exact(x), ey = grid::exact(y), tol = d.prec <= 5 ? grid::Q(0) : grid::Q(grid::exact(5 * grid::ulp(3.2e6)));
      grid::Q wx = centerp ? grid::Q(d.x0 + d.size / 2) : d.x0, wy = centerp ? grid::Q(d.y0 + d.size / 2) : d.y0;
      grid::Q dx = ex - wx, dy = ey - wy; if (dx < 0) dx = -dx; if (dy < 0) dy = -dy;
      if (dx > tol || dy > tol * 8) vf::fz_fail("returned point differs from the centre/corner of the reference square", repr);
    }
  }
  if (prec >= 0 && centerp && std::isfinite(x) && std::isfinite(y)) {
    std::string back;
    try { MGRS::Forward(zone, northp, x, y, prec, back); }
    catch (const GeographicErr& e) { vf::fz_fail(std::string("Forward(Reverse(s)) threw: ") + e.what(), repr); }
    std::string want = grid::upper(s);
    if (zone > 0 && want.size() >= 1 && want.size() + 1 == back.size()) want = "0" + want;     // dropped leading zero
    size_t bpos = zone > 0 ? 2 : 0;
    if (back.size() != want.size()) vf::fz_fail("Forward(Reverse(s)) = " + vf::fz_show(back), repr);
    if (zone > 0) { back[bpos] = '?'; want[bpos] = '?'; }
    if (back != want) vf::fz_fail("Forward(Reverse(s)) = " + vf::fz_show(back) + " differs from the input beyond the band letter", repr);
  }
  return 0;
}
