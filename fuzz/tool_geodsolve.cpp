// fuzz/tool_geodsolve: GeodSolve / RhumbSolve run in-process on arbitrary input text.  Byte 0 selects tool and options,
// the rest is the input file.  Oracle: no crash / sanitizer report, one output line per input line, bad lines answered by
// a line starting "ERROR", exit status != 0 iff there is such a line.
#include <string>
#include "fw/fuzz.hpp"
#include "gen/tool_run.hpp"
int tool_GeodSolve_main(int argc, const char* const argv[]);
int tool_RhumbSolve_main(int argc, const char* const argv[]);

extern "C" int LLVMFuzzerTestOneInput(const uint8_t* data, size_t size) {
  if (size < 1) return 0;
  unsigned o = data[0];
  std::string in((const char*)data + 1, size - 1);
  bool rhumb = (o & 1) != 0;
  std::vector<std::string> args; std::string cls = rhumb ? "RhumbSolve" : "GeodSolve";
  switch ((o >> 1) % 3) { case 1: args.push_back("-i"); cls += " -i"; break; case 2: args = {"-L", "40:30N", "73W", "53.5"}; cls += " -L"; break; default: break; }
  if ((o >> 3) & 1) { args.push_back(((o >> 4) & 1) ? "-:" : "-d"); }
  if ((o >> 5) & 1) args.push_back("-w");
  if (!rhumb && ((o >> 6) & 1)) { args.push_back("-a"); cls += " -a"; }
  if (!rhumb && ((o >> 7) & 1)) args.push_back("-f");
  toolrun::Out r = rhumb ? toolrun::run("RhumbSolve", tool_RhumbSolve_main, args, in) : toolrun::run("GeodSolve", tool_GeodSolve_main, args, in);
  if (!r.io) return 0;
  std::string why = toolrun::line_contract(in, r);
  vf::fz_case(data, size, size >= 4, cls + (r.rc ? " some-bad" : " all-good"), vf::fz_show(in));
  if (!why.empty()) vf::fz_fail(cls + ": " + why, vf::fz_show(in) + " -> " + vf::fz_show(r.text));
  return 0;
}
