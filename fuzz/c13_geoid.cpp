// C13.f: Geoid on a generated PGM file.  Byte 0 selects raw mode (the rest *is* the file) or structured
// mode (header fields, comments, raster size, data length drawn from the bytes).  Then height queries,
// CacheArea/CacheAll/CacheClear.  Oracle: GeographicErr / bad_alloc or a return; nothing else.
#define VF_FUZZ_LIMIT_NEW
#define VF_FUZZ_NEW_LIMIT_BYTES (64ull << 20)   // a 64 MiB request is already "huge" for these inputs
#include <fuzzer/FuzzedDataProvider.h>
#include <GeographicLib/Geoid.hpp>
#include "api/synth.hpp"
#include "fuzz/c13_common.hpp"
using namespace GeographicLib;

static std::string build(FuzzedDataProvider& fp, std::string& desc) {
  static const char* nums[] = {"-108", "0.003", "0", "-0.003", "1e300", "nan", "inf", "-inf", "", "x", "1e-320", "65535", "-1", "0x10", "1.5.2"};
  static const int dims[] = {2, 3, 4, 5, 6, 7, 8, 9, 16, 17, 36, 37, 72, 0, 1, -1, -4, 65535, 65536, 2147483647, -2147483647 - 1, 1000000};
  // every field is valid unless dev() says otherwise (1 in 6), so most files get past most checks
  auto dev = [&fp]() { return fp.ConsumeIntegralInRange(0, 5) == 5; };   // exhausted input => valid field
  std::string h = dev() ? fp.PickValueInArray({"P2\n", "P5", "P5 \n", "\n", "P5\r\n", "p5\n"}) : "P5\n";
  int nc = fp.ConsumeIntegralInRange(0, 4);
  for (int k = 0; k < nc; ++k) {
    switch (fp.ConsumeIntegralInRange(0, 5)) {
      case 0: h += "# Description " + fp.ConsumeRandomLengthString(20) + "\n"; break;
      case 1: h += "# DateTime\n"; break;
      case 2: h += std::string("# MaxCubicError ") + nums[fp.ConsumeIntegralInRange<size_t>(0, 14)] + "\n# RMSBilinearError " + nums[fp.ConsumeIntegralInRange<size_t>(0, 14)] + "\n"; break;
      case 3: h += "#" + fp.ConsumeRandomLengthString(12) + "\n"; break;
      case 4: h += "\n"; break;
      default: h += "# Bogus 1 2 3\n";
    }
  }
  if (dev()) { if (fp.ConsumeBool()) h += std::string("# Offset ") + nums[fp.ConsumeIntegralInRange<size_t>(0, 14)] + "\n"; else if (fp.ConsumeBool()) h += "# Offset\n"; } else h += "# Offset -108\n";
  if (dev()) { if (fp.ConsumeBool()) h += std::string("# Scale ") + nums[fp.ConsumeIntegralInRange<size_t>(0, 14)] + "\n"; else if (fp.ConsumeBool()) h += "# Scale\n"; } else h += "# Scale 0.003\n";
  int w = 2 * fp.ConsumeIntegralInRange(1, 20), ht = 2 * fp.ConsumeIntegralInRange(1, 10) + 1;
  if (dev()) w = dims[fp.ConsumeIntegralInRange<size_t>(0, 21)];
  if (dev()) ht = dims[fp.ConsumeIntegralInRange<size_t>(0, 21)];
  h += std::to_string(w) + (fp.ConsumeBool() ? " " : "\t") + std::to_string(ht) + (dev() ? fp.PickValueInArray({" 7\n", "\n\n", "", " \n"}) : "\n");
  h += dev() ? fp.PickValueInArray({"255\n", "65535", "65536\n", "-1\n", "\n", "65535 ", "65535\n\n"}) : "65535\n";
  long long want = (w > 0 && ht > 0 && w <= 4096 && ht <= 4096) ? 2LL * w * ht : 0;
  if (want > 40000) want = 40000;
  long long len = want;
  if (dev()) switch (fp.ConsumeIntegralInRange(0, 3)) { case 0: len = want - 1; break; case 1: len = want + 1; break; case 2: len = want / 2; break; default: len = 0; }
  if (len < 0) len = 0;
  desc = "w=" + std::to_string(w) + " h=" + std::to_string(ht) + " len=" + std::to_string(len) + "/" + std::to_string(want);
  std::string body = fp.ConsumeBytesAsString((size_t)std::min<long long>(len, 64));
  for (long long k = (long long)body.size(); k < len; ++k) body += char((k * 37 + (k >> 3)) & 0xff);
  return h + body;
}

extern "C" int LLVMFuzzerTestOneInput(const uint8_t* data, size_t size) {
  if (size < 4) return 0;
  FuzzedDataProvider fp(data, size);
  unsigned mode = fp.ConsumeIntegral<uint8_t>();
  bool cubic = mode & 2, threadsafe = mode & 4;
  std::string desc, file;
  if (mode & 1) {                                                               // raw: the bytes are the file
    file = fp.ConsumeRemainingBytesAsString(); desc = "raw";
    std::string dir = c13::scratch("c13geoid"); ::mkdir(dir.c_str(), 0755);
    c13::put(dir + "/g.pgm", file);
    std::string repr = desc + " " + vf::fz_show(file.substr(0, 80));
    int rc = c13::guarded([&] { Geoid g("g", dir, cubic, threadsafe); (void)g(10.0, 20.0); (void)g(-90.0, 359.0); (void)g(90.0, -0.5); if (!threadsafe) { g.CacheArea(-10, 350, 20, 10); (void)g(5.0, 1.0); g.CacheAll(); (void)g(33.0, -44.0); } }, "Geoid(raw)", repr);
    ::unlink((dir + "/g.pgm").c_str()); ::rmdir(dir.c_str());
    vf::fz_case(data, size, file.size() > 10, rc ? "raw:rejected" : "raw:accepted", repr);
    return 0;
  }
  file = build(fp, desc);
  std::string dir = c13::scratch("c13geoid"); ::mkdir(dir.c_str(), 0755);
  c13::put(dir + "/g.pgm", file);
  std::string repr = desc + " cubic=" + std::to_string(cubic) + " ts=" + std::to_string(threadsafe) + " " + vf::fz_show(file.substr(0, 160));
  bool constructed = false; int nq = 0;
  static const double lats[] = {0, 90, -90, 89.999, -89.999, 45, -33.3, 1e-9, 91, -100};
  static const double lons[] = {0, 180, -180, 360, 359.999, -0.001, 720.5, 12.25, -179.99, 1e6};
  int rc = c13::guarded([&] {
    Geoid g("g", dir, cubic, threadsafe); constructed = true;
    int ops = fp.ConsumeIntegralInRange(1, 8);
    for (int k = 0; k < ops; ++k) {
      double la = fp.ConsumeBool() ? lats[fp.ConsumeIntegralInRange<size_t>(0, 9)] : fp.ConsumeFloatingPointInRange(-90.0, 90.0);
      double lo = fp.ConsumeBool() ? lons[fp.ConsumeIntegralInRange<size_t>(0, 9)] : fp.ConsumeFloatingPointInRange(-540.0, 540.0);
      switch (fp.ConsumeIntegralInRange(0, 5)) {
        case 0: {   // cache areas from a table: across lon 0/360, across the poles, degenerate, whole globe
          static const double ss[] = {-90, -45, -10, 0, 10, 60, 89}, nn[] = {-5, 0, 20, 60, 90, 90, -80}, ww[] = {-10, 350, 0, 170, -180, 355.5, 120, 359.9}, de[] = {20, 5, 180, 359.9, 360, 0.01, 90, 270};
          double s = ss[fp.ConsumeIntegralInRange<size_t>(0, 6)], n = nn[fp.ConsumeIntegralInRange<size_t>(0, 6)], w = ww[fp.ConsumeIntegralInRange<size_t>(0, 7)];
          g.CacheArea(s, w, n, w + de[fp.ConsumeIntegralInRange<size_t>(0, 7)]);
          (void)g(0.5 * (s + n), w + 1.0); ++nq; break; }
        case 1: g.CacheAll(); break;
        case 2: g.CacheClear(); break;
        default: {
          double h = g(la, lo); ++nq;
          if (std::fabs(la) <= 90) c13::must(std::isfinite(h) || !std::isfinite(g.Offset()) || !std::isfinite(g.Scale()), "non-finite height from a finite raster", repr);
          else c13::must(std::isnan(h), "latitude outside [-90,90] must give NaN", repr);
          (void)g.ConvertHeight(la, lo, 10.0, Geoid::GEOIDTOELLIPSOID);
        }
      }
    }
  }, "Geoid", repr);
  ::unlink((dir + "/g.pgm").c_str()); ::rmdir(dir.c_str());
  vf::fz_case(data, size, true, !constructed ? "rejected" : rc ? "constructed:threw-later" : (nq ? "constructed:queried" : "constructed"), repr);
  return 0;
}
