// C13.e: GARS::Reverse on arbitrary bytes.
#include <GeographicLib/GARS.hpp>
#include "fuzz/c13_common.hpp"
using namespace GeographicLib;
extern "C" int LLVMFuzzerTestOneInput(const uint8_t* data, size_t size) {
  if (size < 1) return 0;
  bool centerp = data[0] & 1;
  std::string s((const char*)data + 1, size - 1), repr = vf::fz_show(s);
  double lat = c13::SENT_D, lon = c13::SENT_D; int prec = c13::SENT_I;
  int rc = c13::guarded([&] { GARS::Reverse(s, lat, lon, prec, centerp); }, "GARS::Reverse", repr);
  if (!rc && !std::isnan(lat)) c13::must(s.find('\0') == std::string::npos, "a string with an embedded NUL was accepted with a value", repr);   // "INV..." is the documented invalid marker
  if (rc) c13::must(c13::same(lat, c13::SENT_D) && c13::same(lon, c13::SENT_D) && prec == c13::SENT_I, "GARS::Reverse threw but modified an output", repr);
  else if (!std::isnan(lat)) {
    c13::must(std::fabs(lat) <= 90 && std::fabs(lon) <= 180 && prec >= 0 && prec <= 2, "GARS::Reverse accepted out-of-range results", repr);
    std::string t; int r2 = c13::guarded([&] { GARS::Forward(lat, lon, prec, t); }, "GARS::Forward of accepted", repr);
    c13::must(r2 == 0, "GARS::Forward rejected the result of Reverse", repr);
  }
  vf::fz_case(data, size, size >= 2, rc ? "rejected" : "accepted", repr);
  return 0;
}
