// C13.f: NearestNeighbor::Load (text and binary) on arbitrary bytes, then Search on the loaded tree.
#define VF_FUZZ_LIMIT_NEW
#define VF_FUZZ_NEW_LIMIT_BYTES (64ull << 20)   // a 64 MiB request is already "huge" for these inputs
#include <sstream>
#include <vector>
#include <GeographicLib/NearestNeighbor.hpp>
#include "fuzz/c13_common.hpp"
using namespace GeographicLib;
struct Dist { double operator()(double a, double b) const { return std::fabs(a - b); } };
typedef NearestNeighbor<double, double, Dist> NN;
extern "C" int LLVMFuzzerTestOneInput(const uint8_t* data, size_t size) {
  if (size < 2) return 0;
  bool bin = data[0] & 1; int npts = data[1] % 40; int k = 1 + (data[0] >> 1) % 4;
  std::string s((const char*)data + 2, size - 2), repr = std::string(bin ? "bin " : "txt ") + "npts=" + std::to_string(npts) + " " + vf::fz_show(s.substr(0, 120));
  std::vector<double> pts; for (int i = 0; i < npts; ++i) pts.push_back(std::fmod(i * 37.0, 101.0));
  NN nn; bool loaded = false; std::vector<int> ind;
  int rc = c13::guarded([&] {
    std::istringstream is(s, bin ? std::ios::binary : std::ios::in);
    nn.Load(is, bin); loaded = true;
    nn.Search(pts, Dist(), 50.5, ind, k);
    for (int i : ind) c13::must(i >= 0 && i < npts, "Search returned an index outside the point set", repr);
    std::ostringstream os(bin ? std::ios::binary : std::ios::out); nn.Save(os, bin);
    NN nn2; std::istringstream is2(os.str(), bin ? std::ios::binary : std::ios::in); nn2.Load(is2, bin);
    c13::must(nn2.NumPoints() == nn.NumPoints(), "Save/Load changed the number of points", repr);
  }, "NearestNeighbor::Load/Search", repr);
  vf::fz_case(data, size, size >= 8, !loaded ? "rejected" : rc ? "loaded:threw-later" : "loaded:searched", repr);
  return 0;
}
