// C13.e: GeoCoords(string) on arbitrary bytes, then every representation of an accepted position.
#include <GeographicLib/GeoCoords.hpp>
#include "fuzz/c13_common.hpp"
using namespace GeographicLib;
extern "C" int LLVMFuzzerTestOneInput(const uint8_t* data, size_t size) {
  if (size < 1) return 0;
  bool centerp = data[0] & 1, longfirst = data[0] & 2; int prec = int(data[0] >> 2) % 16 - 4;
  std::string s((const char*)data + 1, size - 1), repr = vf::fz_show(s);
  bool ok = false;
  int rc = c13::guarded([&] {
    GeoCoords g(s, centerp, longfirst); ok = true;
    if (std::isnan(g.Latitude()) || std::isnan(g.Longitude())) return;   // "INVALID" / nan input
    c13::must(std::fabs(g.Latitude()) <= 90 && std::fabs(g.Longitude()) <= 180 && g.Zone() >= 0 && g.Zone() <= 60, "GeoCoords accepted an out-of-range position", repr);
    std::string a = g.GeoRepresentation(prec, longfirst), b = g.DMSRepresentation(prec, longfirst, ':'), c = g.UTMUPSRepresentation(prec), d = g.MGRSRepresentation(prec);
    g.SetAltZone(UTMUPS::STANDARD); std::string e = g.AltUTMUPSRepresentation(prec) + g.AltMGRSRepresentation(prec);
    c13::must(!a.empty() && !b.empty() && !c.empty() && !d.empty() && !e.empty(), "empty representation", repr);
  }, "GeoCoords", repr);
  vf::fz_case(data, size, size >= 4, rc ? (ok ? "repr-threw" : "rejected") : "accepted", repr);
  return 0;
}
