#!/usr/bin/env python3
"""calibration helper: VF_CALIBRATE=1 run, then print the worst ratios per sub-check"""
import json, os, subprocess, sys
prop = sys.argv[1]; tier = sys.argv[2] if len(sys.argv) > 2 else "quick"
extra = sys.argv[3:]
env = dict(os.environ); env["VF_CALIBRATE"] = "1"
r = subprocess.run([sys.executable, os.path.join(os.path.dirname(os.path.abspath(__file__)), "check.py"), prop, "--tier", tier] + extra, env=env, stderr=subprocess.PIPE, text=True)
print(r.stderr[-3000:])
ev = json.load(open(os.path.join(os.path.dirname(os.path.abspath(__file__)), "evidence", prop + ".json")))
def short(v):
    if isinstance(v, str) and "(" in v: return v.split("(")[-1][:-1]
    return v
for s in ev["coverage"]["subchecks"]:
    print(s["sub"], "evals", s.get("evaluations"), "passed", s.get("passed"), "skipped", s.get("skipped"), s.get("skip_reasons"))
    print("  classes", s.get("classes"))
    for t in s.get("top", [])[:int(os.environ.get("VF_TOP", "10"))] + s.get("skipsamples", [])[:12]:
        r = t["rec"]
        print("  %.3g %s | %s" % (t["ratio"] if isinstance(t.get("ratio"), (int, float)) else float("inf"), t["rel"][:48], " ".join("%s=%s" % (k, short(v)) for k, v in r.items()) if isinstance(r, dict) else r))
