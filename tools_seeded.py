#!/usr/bin/env python3
"""Confirm and evaluate a seeded change produced by an independent sub-agent.

  tools_seeded.py import <src_dir> <id> <property>   copy patch.diff/demo.cpp/meta.json/run.txt to seeded/<id>/
  tools_seeded.py confirm <id>     scratch worktree of /repo HEAD (+ pristine build): patch applies, builds with
                                   -Werror, 194/194 ctest pass, demo PASSes on pristine and FAILs on the change
  tools_seeded.py run <id> [Cxx ...]   run the quick checks (default: the property in meta.json) against the change via
                                   VERIF_REPO=<scratch copy>; records which sub-check caught it in meta.json
Scratch trees live under /tmp/sw and are removed afterwards.
"""
import json, os, shutil, subprocess, sys, time
VERIF = os.path.dirname(os.path.abspath(__file__))
SW = "/tmp/sw"


def sh(cmd, **kw):
    return subprocess.run(cmd, shell=True, stdout=subprocess.PIPE, stderr=subprocess.STDOUT, text=True, **kw)


def meta_path(i):
    return os.path.join(VERIF, "seeded", i, "meta.json")


def load(i):
    with open(meta_path(i)) as f:
        return json.load(f)


def save(i, m):
    with open(meta_path(i), "w") as f:
        json.dump(m, f, indent=1)


def pristine_build():
    d = os.path.join(SW, "pristine")
    head = sh("git -C /repo rev-parse HEAD").stdout.strip()
    stamp = os.path.join(d, ".head")
    if os.path.exists(stamp) and open(stamp).read() == head:
        return d
    shutil.rmtree(d, ignore_errors=True)
    os.makedirs(SW, exist_ok=True)
    sh("git -C /repo worktree prune")
    r = sh("git -C /repo worktree add -f --detach %s HEAD" % d)
    r = sh("cd %s && cmake -S . -B _b -G Ninja -DCMAKE_BUILD_TYPE=Release >/dev/null && cmake --build _b -j8 >/dev/null" % d)
    if r.returncode:
        sys.exit("pristine build failed: " + r.stdout[-2000:])
    open(stamp, "w").write(head)
    return d


def cmd_import(src, i, prop):
    d = os.path.join(VERIF, "seeded", i)
    os.makedirs(d, exist_ok=True)
    for n in ("patch.diff", "demo.cpp", "run.txt"):
        if os.path.exists(os.path.join(src, n)):
            shutil.copy(os.path.join(src, n), os.path.join(d, n))
    m = {}
    if os.path.exists(os.path.join(src, "meta.json")):
        try:
            m = json.load(open(os.path.join(src, "meta.json")))
        except Exception:
            m = {}
    out = dict(id=i, breaks_property=prop, origin="independent sub-agent given only the property text and its own worktree",
               files=m.get("files"), what_breaks=m.get("what_breaks"), needs_to_manifest=m.get("needs_to_manifest"),
               why_existing_tests_miss_it=m.get("why_existing_tests_miss_it"))
    save(i, out)
    print("imported", i)


def cmd_confirm(i):
    m = load(i)
    d = os.path.join(VERIF, "seeded", i)
    pr = pristine_build()
    wt = os.path.join(SW, "c-" + i)
    shutil.rmtree(wt, ignore_errors=True)
    sh("git -C /repo worktree prune")
    sh("git -C /repo worktree add -f --detach %s HEAD" % wt)
    res = dict(repo_head=sh("git -C /repo rev-parse --short HEAD").stdout.strip())
    r = sh("git -C %s apply %s" % (wt, os.path.join(d, "patch.diff")))
    res["patch_applies"] = r.returncode == 0
    if r.returncode == 0:
        r = sh("cd %s && cmake -S . -B _b -G Ninja -DCMAKE_BUILD_TYPE=Release >/dev/null && cmake --build _b -j8 2>&1 | tail -5 && cmake --build _b --target testprograms -j8 >/dev/null 2>&1; ctest --test-dir _b -j8 --timeout 900 2>&1 | tail -4" % wt)
        res["ctest_tail"] = r.stdout.strip().splitlines()[-3:]
        res["builds_and_passes_194"] = "100% tests passed, 0 tests failed out of 194" in r.stdout
        outs = {}
        for name, root in (("pristine", pr), ("changed", wt)):
            exe = os.path.join(SW, "demo-%s-%s" % (i, name))
            c = sh("g++ -std=c++17 -O1 -I%s/include -I%s/_b/include %s -o %s -L%s/_b/src -lGeographicLib -Wl,-rpath,%s/_b/src" % (
                root, root, os.path.join(d, "demo.cpp"), exe, root, root))
            if c.returncode:
                outs[name] = dict(compile_error=c.stdout[-800:])
                continue
            try:
                e = subprocess.run([exe], stdout=subprocess.PIPE, stderr=subprocess.STDOUT, text=True, timeout=900)
                outs[name] = dict(rc=e.returncode, tail=e.stdout.strip().splitlines()[-3:])
            except subprocess.TimeoutExpired:
                outs[name] = dict(rc="timeout")
            os.remove(exe)
        res["demo"] = outs
        res["demo_discriminates"] = outs.get("pristine", {}).get("rc") == 0 and outs.get("changed", {}).get("rc") not in (0, None)
    sh("git -C /repo worktree remove --force %s" % wt)
    shutil.rmtree(wt, ignore_errors=True)
    m["confirmed"] = res
    m["confirmed_ok"] = bool(res.get("patch_applies") and res.get("builds_and_passes_194") and res.get("demo_discriminates"))
    save(i, m)
    print(i, "confirmed_ok =", m["confirmed_ok"], json.dumps(res)[:600])


def cmd_run(i, props):
    m = load(i)
    d = os.path.join(VERIF, "seeded", i)
    props = props or [m["breaks_property"]]
    sc = os.path.join(SW, "r-" + i)
    shutil.rmtree(sc, ignore_errors=True)
    os.makedirs(sc)
    for sub in ("src", "include", "tools"):
        shutil.copytree(os.path.join("/repo", sub), os.path.join(sc, sub))
    r = sh("cd %s && patch -p1 -s < %s" % (sc, os.path.join(d, "patch.diff")))
    if r.returncode:
        print("patch failed", r.stdout)
        return
    runs = m.setdefault("check_runs", {})
    for p in props:
        t0 = time.time()
        import fcntl
        os.makedirs(os.path.join(VERIF, "build"), exist_ok=True)
        lk = open(os.path.join(VERIF, "build", "lock-" + p), "w"); fcntl.flock(lk, fcntl.LOCK_EX)
        evf = os.path.join(VERIF, "evidence", p + ".json")
        evb = open(evf).read() if os.path.exists(evf) else None
        rdir = os.path.join(VERIF, "replays", p); keep = rdir + ".keep-%d" % os.getpid()
        if os.path.isdir(rdir):      # replay files of a run against /repo itself are not ours to delete
            os.rename(rdir, keep)
        env = dict(os.environ, VERIF_REPO=sc, VERIF_JOBS=os.environ.get("VERIF_JOBS", "12"), VF_LOCK_HELD="1")
        e = subprocess.run([sys.executable, os.path.join(VERIF, "check.py"), p, "--tier", os.environ.get("SEEDED_TIER", "quick")], env=env,
                           stdout=subprocess.PIPE, stderr=subprocess.PIPE, text=True)
        viol = [l for l in e.stdout.splitlines() if l.startswith("VIOLATION")]
        subs = sorted({l.split("violation ")[1].split(":")[0] for l in e.stderr.splitlines() if l.strip().startswith("violation ")})
        first = [l.strip()[:300] for l in e.stderr.splitlines() if l.strip().startswith("violation ")][:2]
        runs[p] = dict(tier=os.environ.get("SEEDED_TIER", "quick"), exit=e.returncode, caught=e.returncode == 1 and bool(viol), by=subs,
                       example=first, wall_s=round(time.time() - t0, 1), seed=os.environ.get("VERIF_SEED", "1"))
        print(i, p, "caught" if runs[p]["caught"] else "NOT caught (exit %d)" % e.returncode, subs, "%.0fs" % (time.time() - t0))
        if evb is not None:      # evidence must describe /repo itself, not the changed copy
            open(evf, "w").write(evb)
        # replays produced against the changed tree are not kept
        shutil.rmtree(os.path.join(VERIF, "replays", p), ignore_errors=True)
        if os.path.isdir(keep):
            os.rename(keep, rdir)
        lk.close()
    shutil.rmtree(sc, ignore_errors=True)
    save(i, m)


if __name__ == "__main__":
    a = sys.argv[1:]
    if a[0] == "import":
        cmd_import(a[1], a[2], a[3])
    elif a[0] == "confirm":
        cmd_confirm(a[1])
    elif a[0] == "run":
        cmd_run(a[1], a[2:])
    elif a[0] == "wave":      # wave <out-suffix> Cxx ... : import /tmp/wt/Cxx<suffix>-out/m1,m2 (skipping duplicates), confirm, run
        import glob, re
        suf = a[1]; new_ids = []
        def core(path):
            return [l for l in open(path).read().splitlines() if re.match(r"^[-+][^-+]", l)]
        for p in a[2:]:
            for m in ("m1", "m2"):
                src = "/tmp/wt/%s%s-out/%s" % (p, suf, m)
                if not os.path.exists(os.path.join(src, "patch.diff")):
                    print(p, m, "no patch"); continue
                dup = None
                for old in sorted(glob.glob(os.path.join(VERIF, "seeded", "S-%s-m*" % p))):
                    if core(os.path.join(old, "patch.diff")) == core(os.path.join(src, "patch.diff")):
                        dup = old
                if dup:
                    print(p, m, "duplicate of", os.path.basename(dup), "- skipped"); continue
                k = 1
                while os.path.exists(os.path.join(VERIF, "seeded", "S-%s-m%d" % (p, k))):
                    k += 1
                i = "S-%s-m%d" % (p, k)
                cmd_import(src, i, p); new_ids.append(i)
            sh("git -C /repo worktree remove --force /tmp/wt/%s-wt" % p)
        sh("git -C /repo worktree prune")
        for i in new_ids:
            cmd_confirm(i)
        for i in new_ids:
            if load(i).get("confirmed_ok"):
                cmd_run(i, [])
    elif a[0] == "table":     # markdown table for DESIGN.md section 8.7
        import glob
        print("| id | breaks | site | what is broken (needs) | own check | other checks |")
        print("|---|---|---|---|---|---|")
        for d in sorted(glob.glob(os.path.join(VERIF, "seeded", "S-*"))):
            m = json.load(open(os.path.join(d, "meta.json")))
            fs = m.get("files"); site = (fs[0] if isinstance(fs, list) and fs else str(fs)).replace("include/GeographicLib/", "")
            wb = (m.get("what_breaks") or "").replace("\n", " ").replace("|", "/")
            wb = wb[:160] + ("..." if len(wb) > 160 else "")
            own = m["breaks_property"]; runs = m.get("check_runs", {})
            def cell(p):
                v = runs.get(p)
                return "not run" if v is None else ("caught by " + ", ".join(v["by"]) if v["caught"] else "**missed**")
            others = "; ".join("%s: %s" % (p, cell(p)) for p in runs if p != own) or "-"
            print("| %s | %s | %s | %s | %s | %s |" % (m["id"], own, site, wb, cell(own), others))
    elif a[0] == "cleanup":
        sh("git -C /repo worktree remove --force %s/pristine" % SW)
        shutil.rmtree(SW, ignore_errors=True)
        sh("git -C /repo worktree prune")
