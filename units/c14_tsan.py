#!/usr/bin/env python3
"""C14 custom unit: generated concurrent workloads under ThreadSanitizer (DESIGN 3/C14).

run(ctx) is called by check.py (kind "custom").  Stand-alone:
    python3 units/c14_tsan.py --replay replays/C14/<file>.json     (exit 1 + VIOLATION line if it still fails)

Oracles: C14.a no ThreadSanitizer report in the concurrent run; C14.b every call's output hash in the
concurrent run equals the hash of the same call executed alone (mode "solo", fresh process, same binary).
"""
# MUTATION TABLE (scratch copy, VERIF_REPO=/tmp/mutC13, quick tier, 600 workloads)
#   F7 revert (AuxLatitude lazily filled mutable _c)                  C14.a  caught: data race fillcoeff vs Clenshaw/Convert/DConvert (via Rhumb rows), 39 s
#   Geodesic::A3f: mutable one-entry cache (eps -> value)            C14.a  caught: data race Geodesic::A3f
#   Geodesic::C3f: function-local static scratch buffer              C14.b  caught: concurrent result differs from solo (and C14.a race); a first version of the
#                                                                           break (store + immediate reload) was optimised away by the compiler and changed nothing
#   Geoid::height: _threadsafe guards removed                        C14.a  caught: data race Geoid::height on the thread-safe geoid
# CALIBRATION: unchanged tree, VERIF_SEED 1, 2, 3, 7, 11, 42: 0 reports, 0 differing calls.
import concurrent.futures as cf
import hashlib
import json
import os
import re
import subprocess
import sys
import time

VERIF = os.path.dirname(os.path.dirname(os.path.abspath(__file__)))
import threading
_LOCK = threading.Lock()
_SEQ = 0
TSAN_OPTS = "halt_on_error=0:exitcode=66:report_signal_unsafe=0:history_size=4:second_deadlock_stack=1"


def _sha(paths, extra=""):
    h = hashlib.sha256(extra.encode())
    for p in sorted(paths):
        h.update(p.encode())
        with open(p, "rb") as f:
            h.update(f.read())
    return h.hexdigest()[:16]


def build(ctx):
    """workload binary for the current tree (cached by source + tree hash)"""
    lib = ctx["build_lib"]("tsan")
    fl = ctx["flavours"]["tsan"]
    srcs = [os.path.join(VERIF, "conc", "workload.cpp")]
    deps = list(srcs)
    for n in os.listdir(os.path.join(VERIF, "api")):
        deps.append(os.path.join(VERIF, "api", n))
    key = _sha(deps, extra=os.path.dirname(lib) + " ".join(fl["flags"]))
    exe = os.path.join(ctx["build"], "bin", "c14_workload-%s" % key)
    if os.path.exists(exe):
        os.utime(exe)
        return exe
    os.makedirs(os.path.dirname(exe), exist_ok=True)
    t0 = time.time()
    cmd = [fl["cxx"]] + fl["flags"] + ctx["inc_flags"]() + ["-I" + VERIF, "-I" + os.path.join(VERIF, "fw")] + srcs + [lib] + fl["link"] + \
          ["-lpthread", "-o", exe + ".tmp"]
    r = subprocess.run(cmd, stdout=subprocess.PIPE, stderr=subprocess.PIPE, text=True)
    if r.returncode != 0:
        ctx["log"]("COMPILE FAILED conc/workload.cpp\n" + r.stderr[-6000:])
        raise SystemExit(3)
    os.rename(exe + ".tmp", exe)
    ctx["log"]("built conc/workload.cpp (tsan) in %.1fs" % (time.time() - t0))
    return exe


def parse_tsan(err):
    """list of reports: dict(kind, funcs=[top frames of the racing accesses])"""
    reps = []
    for block in err.split("==================")[1:]:
        m = re.search(r"WARNING: ThreadSanitizer: ([^\(\n]+)", block)
        if not m:
            continue
        funcs = []
        for fm in re.finditer(r"^\s+#0 (.+?) (?:/|<null>|\()", block, re.M):
            f = fm.group(1)
            f = re.sub(r"\(.*$", "", f).strip()
            if f and f not in funcs:
                funcs.append(f)
        # first library frame of each stack is more telling than an interceptor (memcpy, operator new ...)
        lib = []
        for fm in re.finditer(r"^\s+#\d+ (GeographicLib::[^\s\(]+)", block, re.M):
            if fm.group(1) not in lib:
                lib.append(fm.group(1))
        reps.append(dict(kind=m.group(1).strip(), funcs=funcs[:4], libfuncs=lib[:6], text=block[:3000]))
    return reps


def run_one(exe, seed, yield_, tmp, timeout=300):
    """returns dict(seed, ok, reports, mismatches, calls, T, focus, err)"""
    env = dict(os.environ)
    env["TSAN_OPTIONS"] = TSAN_OPTS
    global _SEQ
    with _LOCK:
        _SEQ += 1
        seq = _SEQ
    d = os.path.join(tmp, "w%d%s-%d" % (seed, "y" if yield_ else "", seq))
    os.makedirs(d, exist_ok=True)
    env["VF_TMP"] = d
    out = dict(seed=seed, yield_=yield_, reports=[], mismatches=[], calls=0, T=0, focus="", err="")
    res = {}
    for mode in ("conc", "solo", "solorev"):
        try:
            r = subprocess.run([exe, str(seed), mode] + (["yield"] if yield_ else []), stdout=subprocess.PIPE, stderr=subprocess.PIPE,
                               env=env, cwd=d, timeout=timeout)
        except subprocess.TimeoutExpired:
            out["err"] = "%s run did not finish within %ds" % (mode, timeout)
            return out
        so = r.stdout.decode("latin-1")
        se = r.stderr.decode("latin-1")
        if mode == "conc":
            out["reports"] = parse_tsan(se)
        if r.returncode not in (0, 66) or not so.startswith("workload "):
            out["err"] = "%s run exited rc=%s: %s" % (mode, r.returncode, se[-1500:])
            return out
        lines = so.splitlines()
        res[mode] = lines[1:]
        m = re.match(r"workload seed=\d+ T=(\d+) focus=(.*)", lines[0])
        if m:
            out["T"] = int(m.group(1))
            out["focus"] = m.group(2)
    out["calls"] = len(res["conc"])
    if len(res["conc"]) != len(res["solo"]):
        out["mismatches"].append("different number of calls: %d vs %d" % (len(res["conc"]), len(res["solo"])))
    else:
        for a, b in zip(res["conc"], res["solo"]):
            if a != b:
                out["mismatches"].append("concurrent '%s' vs alone '%s'" % (a, b))
        # history independence: the same calls alone in the opposite order
        if len(res["solorev"]) == len(res["solo"]):
            for a, b in zip(res["solo"], res["solorev"]):
                if a != b:
                    out["mismatches"].append("alone '%s' vs alone in reverse order '%s'" % (a, b))
        else:
            out["mismatches"].append("different number of calls in the reversed sequential run")
    try:
        for root, dirs, files in os.walk(d, topdown=False):
            for n in files:
                os.remove(os.path.join(root, n))
            for n in dirs:
                os.rmdir(os.path.join(root, n))
        os.rmdir(d)
    except OSError:
        pass
    return out


def known_race(rep, known_ids):
    """a listed TSan finding is matched by the racing function (id 'T-<function>')"""
    for f in rep["libfuncs"] + rep["funcs"]:
        if ("T-" + f.replace("GeographicLib::", "").replace("::", "-")) in known_ids:
            return "T-" + f.replace("GeographicLib::", "").replace("::", "-")
    return None


def run(ctx):
    tier, seed0, prop = ctx["tier"], int(ctx["seed"]), ctx["prop"]
    unit = ctx["unit"]
    exe = build(ctx)
    n = int(unit.get(tier + "_workloads", 200 if tier == "quick" else 5000))
    ny = int(unit.get(tier + "_yield_workloads", 0 if tier == "quick" else 1000))
    tmp = os.path.join(ctx["build"], "tmp", "C14-%d" % os.getpid())
    os.makedirs(tmp, exist_ok=True)
    jobs = [(seed0 * 1000003 + k, False) for k in range(n)] + [(seed0 * 1000003 + 500000 + k, True) for k in range(ny)]
    t0 = time.time()
    with cf.ThreadPoolExecutor(int(unit.get("parallel", ctx["ncpu"]))) as ex:
        results = list(ex.map(lambda j: run_one(exe, j[0], j[1], tmp), jobs))
    known_ids = set(ctx.get("known") or [])
    subs = {
        "C14.a": dict(sub="C14.a", rule="seed-generated workload of T in [2,16] threads x 4-30 const calls on shared singletons/objects/static functions "
                      "(focus rows shared by all threads), one fresh TSan process per workload; oracle: no ThreadSanitizer report; "
                      "non-trivial: >= 2 threads executed calls on a common row; distinct by seed",
                      evaluations=0, distinct_nontrivial=0, classes={}, samples=[], known={}),
        "C14.b": dict(sub="C14.b", rule="every call of the concurrent run hashed over all output bits vs the same call executed alone (solo mode, fresh process, same binary); "
                      "non-trivial: every compared call; distinct by (seed, thread, index)",
                      evaluations=0, distinct_nontrivial=0, classes={}, samples=[], known={}),
    }
    violations, notes, discarded = [], [], []
    rdir = os.path.join(VERIF, "replays", prop)
    cand = []          # (key, sub, result, msg, detail): confirmed below, one per distinct key
    for r in results:
        a, b = subs["C14.a"], subs["C14.b"]
        if r["err"]:
            notes.append("workload %d: %s" % (r["seed"], r["err"][:400]))
            cand.append(("C14.a|incomplete", "C14.a", r, "workload did not complete: " + r["err"][:600], ""))
            continue
        a["evaluations"] += 1
        a["distinct_nontrivial"] += 1
        a["classes"]["T=%d" % r["T"]] = a["classes"].get("T=%d" % r["T"], 0) + 1
        if r["yield_"]:
            a["classes"]["yield-storm"] = a["classes"].get("yield-storm", 0) + 1
        for f in re.findall(r"\[([^\]]+)\]", r["focus"]):
            cls = "focus:" + f.split("::")[0].split("(")[0]
            a["classes"][cls] = a["classes"].get(cls, 0) + 1
        if len(a["samples"]) < 6:
            a["samples"].append(dict(seed=r["seed"], T=r["T"], focus=r["focus"], calls=r["calls"]))
        b["evaluations"] += r["calls"]
        b["distinct_nontrivial"] += r["calls"]
        if len(b["samples"]) < 6:
            b["samples"].append(dict(seed=r["seed"], calls=r["calls"]))
        for rep in r["reports"]:
            kid = known_race(rep, known_ids)
            if kid:
                a["known"][kid] = a["known"].get(kid, 0) + 1
                continue
            fs = rep["libfuncs"] or rep["funcs"]
            msg = "ThreadSanitizer: %s; racing functions: %s" % (rep["kind"], ", ".join(fs))
            cand.append(("C14.a|%s|%s" % (rep["kind"], min(fs) if fs else "?"), "C14.a", r, msg, rep["text"]))
        if r["mismatches"]:
            row = r["mismatches"][0].split("'")[1].split(" ", 3)[-1] if "'" in r["mismatches"][0] else "?"
            cand.append(("C14.b|" + row, "C14.b", r, "%d calls differ; first: %s" % (len(r["mismatches"]), r["mismatches"][0]), ""))
    # one confirmation (3 replays) per distinct racing site / differing row, at most 8, in parallel
    first, extra = {}, {}
    for c in cand:
        if c[0] in first:
            extra[c[0]] = extra.get(c[0], 0) + 1
        elif len(first) < 8:
            first[c[0]] = c
        else:
            extra["(beyond the first 8 distinct sites)"] = extra.get("(beyond the first 8 distinct sites)", 0) + 1
    with cf.ThreadPoolExecutor(8) as ex:
        violations = list(ex.map(lambda c: _violation(rdir, prop, c[1], c[2], c[3], exe, tmp, confirm=True, detail=c[4]), first.values()))
    for k, nmore in extra.items():
        notes.append("%d more failing workloads with the same signature %s" % (nmore, k))
    real = []
    for v in violations:
        if v.get("confirmed"):
            real.append(dict(sub=v["sub"], replay=v["replay"], msg=v["msg"]))
        else:
            discarded.append(dict(sub=v["sub"], why="did not reproduce 3x on replay", replay=v["replay"], msg=v["msg"][:300]))
            try:
                os.remove(v["replay"])
            except OSError:
                pass
    # de-duplicate by message (one replay file per distinct racing site is enough)
    seen, uniq = set(), []
    for v in real:
        k = (v["sub"], re.sub(r"\d+", "#", v["msg"])[:200])
        if k in seen:
            try:
                os.remove(v["replay"])
            except OSError:
                pass
            continue
        seen.add(k)
        uniq.append(v)
    notes.append("C14: %d workloads (%d with yield storms) in %.1fs" % (len(jobs), ny, time.time() - t0))
    try:
        os.rmdir(tmp)
    except OSError:
        pass
    return dict(subs=list(subs.values()), violations=uniq, discarded=discarded, notes=notes, failures=[], exe=exe)


def _violation(rdir, prop, sub, r, msg, exe, tmp, confirm, detail=""):
    os.makedirs(rdir, exist_ok=True)
    path = os.path.join(rdir, "%s-seed%d%s.json" % (sub, r["seed"], "y" if r["yield_"] else ""))
    with open(path, "w") as f:
        json.dump(dict(property=prop, sub=sub, seed=r["seed"], yield_storm=r["yield_"], msg=msg, detail=detail[:4000],
                       replay_cmd="python3 units/c14_tsan.py --replay " + os.path.relpath(path, VERIF)), f, indent=1)
    v = dict(sub=sub, replay=path, msg=msg, confirmed=True)
    if confirm:
        v["confirmed"] = all(_fails(exe, r["seed"], r["yield_"], sub, tmp) for _ in range(3))
    return v


def _fails(exe, seed, yield_, sub, tmp):
    r = run_one(exe, seed, yield_, tmp)
    if r["err"]:
        return True
    return bool(r["reports"]) if sub == "C14.a" else bool(r["mismatches"])


def main():
    if len(sys.argv) >= 3 and sys.argv[1] == "--replay":
        sys.path.insert(0, VERIF)
        import check
        with open(sys.argv[2]) as f:
            rec = json.load(f)
        ctx = dict(build_lib=check.build_lib, flavours=check.FLAVOURS, inc_flags=check.inc_flags, build=check.BUILD, log=check.log)
        exe = build(ctx)
        tmp = os.path.join(check.BUILD, "tmp", "C14-replay-%d" % os.getpid())
        os.makedirs(tmp, exist_ok=True)
        bad = 0
        for k in range(3):
            r = run_one(exe, int(rec["seed"]), bool(rec.get("yield_storm")), tmp)
            fails = bool(r["err"]) or (bool(r["reports"]) if rec["sub"] == "C14.a" else bool(r["mismatches"]))
            print("REPLAY %s seed=%s run %d: %s" % (rec["sub"], rec["seed"], k + 1, "FAIL" if fails else "PASS"))
            if fails:
                bad += 1
                if r["reports"]:
                    print("  ThreadSanitizer: %s; %s" % (r["reports"][0]["kind"], ", ".join(r["reports"][0]["libfuncs"] or r["reports"][0]["funcs"])))
                if r["mismatches"]:
                    print("  " + r["mismatches"][0])
                if r["err"]:
                    print("  " + r["err"][:500])
        try:
            os.rmdir(tmp)
        except OSError:
            pass
        if bad == 3:
            print("VIOLATION property=%s replay=%s" % (rec.get("property", "C14"), os.path.abspath(sys.argv[2])))
            return 1
        return 0
    print(__doc__)
    return 2


if __name__ == "__main__":
    sys.exit(main())
