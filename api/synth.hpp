// Synthetic data files for the classes that read files (Geoid, MagneticModel, GravityModel).
// Used by api/registry.hpp (C13, C14) and by the C13.f fuzz targets.  Pure functions of their
// arguments; files go to the directory given by the caller (always under $VF_TMP).
#pragma once
#include <cmath>
#include <cstdint>
#include <cstdio>
#include <cstring>
#include <string>
#include <vector>

namespace synth {

inline void put(const std::string& path, const std::string& data) {
  FILE* f = std::fopen(path.c_str(), "wb");
  if (!f) return;
  std::fwrite(data.data(), 1, data.size(), f);
  std::fclose(f);
}
inline void add_i32(std::string& s, int32_t v) { s.append((const char*)&v, 4); }
inline void add_f64(std::string& s, double v) { s.append((const char*)&v, 8); }

// ---- geoid raster: width even >= 2, height odd >= 3, big-endian 16-bit pixels; the height at
// pixel (ix, iy) is offset + scale * pix
inline unsigned geoid_pix(int ix, int iy, int w, int h) {
  double lon = 2 * M_PI * ix / w, lat = M_PI / 2 - M_PI * iy / (h - 1);
  double v = 30000 + 9000 * std::sin(lat) * std::cos(2 * lon) + 7000 * std::cos(lat) * std::sin(3 * lon + 1) + 3000 * std::sin(5 * lat);
  if (iy == 0 || iy == h - 1) v = 30000 + 3000 * std::sin(5 * lat);   // single-valued at the poles
  return (unsigned)std::lround(v) & 0xffffu;
}
inline std::string geoid_header(int w, int h, double offset = -108, double scale = 0.003) {
  char b[512];
  std::snprintf(b, sizeof b,
                "P5\n# Geoid file in PGM format for the GeographicLib::Geoid class\n# Description synthetic raster\n"
                "# DateTime 2026-10-01 00:00:00\n# MaxBilinearError 0.1\n# RMSBilinearError 0.01\n# MaxCubicError 0.05\n"
                "# RMSCubicError 0.005\n# Offset %.17g\n# Scale %.17g\n# Origin 90N 0E\n# AREA_OR_POINT Point\n%d %d\n65535\n",
                offset, scale, w, h);
  return b;
}
inline std::string geoid_file(int w, int h) {
  std::string s = geoid_header(w, h);
  for (int iy = 0; iy < h; ++iy)
    for (int ix = 0; ix < w; ++ix) { unsigned p = geoid_pix(ix, iy, w, h); s += char(p >> 8); s += char(p & 0xff); }
  return s;
}
// writes <dir>/<name>.pgm
inline void write_geoid(const std::string& dir, const std::string& name, int w = 72, int h = 37) {
  put(dir + "/" + name + ".pgm", geoid_file(w, h));
}

// ---- harmonic coefficient block as read by SphericalEngine::coeff::readcoeffs: N M (int32 LE),
// C (Csize doubles, column-major by order m), S (Ssize doubles)
inline int csize(int N, int M) { return (M + 1) * (2 * N - M + 2) / 2; }
inline std::string coeff_block(int N, int M, unsigned salt, double c00, double scale) {
  std::string s; add_i32(s, N); add_i32(s, M);
  if (N < 0) return s;
  uint64_t x = 0x9e3779b97f4a7c15ull ^ (uint64_t(salt) * 0xbf58476d1ce4e5b9ull);
  auto rnd = [&x]() { x ^= x << 13; x ^= x >> 7; x ^= x << 17; return double(int64_t(x >> 11) - (1ll << 52)) / double(1ll << 52); };
  int k = 0;
  for (int m = 0; m <= M; ++m)
    for (int n = m; n <= N; ++n, ++k) add_f64(s, k == 0 ? c00 : scale * rnd() / ((n + 1.0) * (n + 1.0)));
  for (int m = 1; m <= M; ++m)
    for (int n = m; n <= N; ++n) add_f64(s, scale * rnd() / ((n + 1.0) * (n + 1.0)));
  return s;
}

// ---- magnetic model: <dir>/<name>.wmm (text) and <dir>/<name>.wmm.cof
inline std::string magnetic_meta(const std::string& name, int nmodels = 2, int nconst = 0, const char* id = "SYNTHMAG") {
  char b[1024];
  std::snprintf(b, sizeof b,
                "WMMF-2\n# synthetic magnetic model\nName            %s\nDescription     synthetic model\nReleaseDate     2026-10-01\n"
                "Radius          6371200\nType            Linear\nEpoch           2025\nDeltaEpoch      5\nNumModels       %d\n"
                "NumConstants    %d\nMinTime         2020\nMaxTime         2040\nMinHeight       -1000\nMaxHeight       850000\n"
                "Normalization   Schmidt\nByteOrder       Little\nID              %s\n",
                name.c_str(), nmodels, nconst, id);
  return b;
}
inline std::string magnetic_cof(int N = 6, int nmodels = 2, int nconst = 0, const char* id = "SYNTHMAG") {
  std::string s(id, 8);
  for (int i = 0; i < nmodels + 1 + nconst; ++i) s += coeff_block(N, N, 100 + i, 0.0, i == nmodels ? 50.0 : 30000.0);
  return s;
}
inline void write_magnetic(const std::string& dir, const std::string& name, int N = 6, int nmodels = 2, int nconst = 0) {
  put(dir + "/" + name + ".wmm", magnetic_meta(name, nmodels, nconst));
  put(dir + "/" + name + ".wmm.cof", magnetic_cof(N, nmodels, nconst));
}

// ---- gravity model: <dir>/<name>.egm and <dir>/<name>.egm.cof
inline std::string gravity_meta(const std::string& name, const char* id = "SYNTHGRV") {
  char b[1024];
  std::snprintf(b, sizeof b,
                "EGMF-1\n# synthetic gravity model\nName                  %s\nDescription           synthetic model\n"
                "ReleaseDate           2026-10-01\nModelRadius           6378136.3\nModelMass             3986004.415e8\n"
                "AngularVelocity       7292115e-11\nReferenceRadius       6378137\nReferenceMass         3986004.418e8\n"
                "Flattening            1/298.257223563\nHeightOffset          -0.41\nCorrectionMultiplier  1\n"
                "Normalization         Full\nByteOrder             Little\nID                    %s\n",
                name.c_str(), id);
  return b;
}
inline std::string gravity_cof(int N = 8, int Ncorr = 3, const char* id = "SYNTHGRV") {
  std::string s(id, 8);
  // realistic magnitudes: C20 = -4.84e-4, higher terms ~1e-6/n^2; C10, C11, S11 = 0
  std::string g = coeff_block(N, N, 7, 0.0, 1e-6);
  auto setc = [&g](int k, double v) { std::memcpy(&g[8 + 8 * k], &v, 8); };
  if (N >= 2) { setc(1, 0.0); setc(2, -4.8416e-4); setc(N + 1, 0.0); setc(csize(N, N), 0.0); }
  s += g;
  s += coeff_block(Ncorr, Ncorr, 9, -0.2, 0.3);
  return s;
}
inline void write_gravity(const std::string& dir, const std::string& name, int N = 8, int Ncorr = 3) {
  put(dir + "/" + name + ".egm", gravity_meta(name));
  put(dir + "/" + name + ".egm.cof", gravity_cof(N, Ncorr));
}

}  // namespace synth
