// Table of public entry points of GeographicLib: one row per entry point (or per constructor +
// accessor bundle) with the kinds of its real and integer arguments, the number of outputs of each
// type, and an invoker.  Used by C13 (error contract, sweeps) and C14 (concurrent workloads).
//
//  * Inputs  : c.a[k] (doubles, kinds in Row::args), c.n[k] (ints/bools/enums, ranges in Row::iargs)
//  * Outputs : c.d[k] (doubles), c.i[k] (ints), c.b[k] (bools), c.so[k] (strings).  The caller pre-fills
//              them with sentinels; the invoker passes them *directly* as the reference arguments of the
//              library function (so "outputs untouched on throw" is observable) and assigns return values
//              after the call returned.
//  * Objects : member functions are invoked on the library's singletons (first touched inside the
//              invoker) or on the objects of api::objs() (constructed once; models/geoids from synthetic
//              files written under $VF_TMP).  Rows flagged SHARED only make const calls on those objects
//              or call static functions, and are documented thread-safe; rows flagged MUT work on a
//              private copy.
#pragma once
#include <cmath>
#include <cstdlib>
#include <functional>
#include <limits>
#include <memory>
#include <sstream>
#include <string>
#include <vector>

#include <sys/stat.h>
#include <unistd.h>

#include <GeographicLib/Accumulator.hpp>
#include <GeographicLib/AlbersEqualArea.hpp>
#include <GeographicLib/AuxAngle.hpp>
#include <GeographicLib/AuxLatitude.hpp>
#include <GeographicLib/AzimuthalEquidistant.hpp>
#include <GeographicLib/CassiniSoldner.hpp>
#include <GeographicLib/CircularEngine.hpp>
#include <GeographicLib/DAuxLatitude.hpp>
#include <GeographicLib/DMS.hpp>
#include <GeographicLib/DST.hpp>
#include <GeographicLib/Ellipsoid.hpp>
#include <GeographicLib/EllipticFunction.hpp>
#include <GeographicLib/GARS.hpp>
#include <GeographicLib/GeoCoords.hpp>
#include <GeographicLib/Geocentric.hpp>
#include <GeographicLib/Geodesic.hpp>
#include <GeographicLib/GeodesicExact.hpp>
#include <GeographicLib/GeodesicLine.hpp>
#include <GeographicLib/GeodesicLineExact.hpp>
#include <GeographicLib/Geohash.hpp>
#include <GeographicLib/Geoid.hpp>
#include <GeographicLib/Georef.hpp>
#include <GeographicLib/Gnomonic.hpp>
#include <GeographicLib/GravityCircle.hpp>
#include <GeographicLib/GravityModel.hpp>
#include <GeographicLib/Intersect.hpp>
#include <GeographicLib/LambertConformalConic.hpp>
#include <GeographicLib/LocalCartesian.hpp>
#include <GeographicLib/MGRS.hpp>
#include <GeographicLib/MagneticCircle.hpp>
#include <GeographicLib/MagneticModel.hpp>
#include <GeographicLib/Math.hpp>
#include <GeographicLib/NormalGravity.hpp>
#include <GeographicLib/OSGB.hpp>
#include <GeographicLib/PolarStereographic.hpp>
#include <GeographicLib/PolygonArea.hpp>
#include <GeographicLib/Rhumb.hpp>
#include <GeographicLib/SphericalHarmonic.hpp>
#include <GeographicLib/SphericalHarmonic1.hpp>
#include <GeographicLib/SphericalHarmonic2.hpp>
#include <GeographicLib/TransverseMercator.hpp>
#include <GeographicLib/TransverseMercatorExact.hpp>
#include <GeographicLib/UTMUPS.hpp>
#include <GeographicLib/Utility.hpp>

#include "api/synth.hpp"

namespace api {
using namespace GeographicLib;

// ------------------------------------------------------------------------------ argument kinds
enum Kind { LAT, LON, AZI, ANG, DIST, ARC, HGT, XY, ECEF, POS, REAL };
// [lo,hi] is the range from which "valid values in general position" are drawn (inside the documented
// domain, away from singular points); the documented domain itself is given by the kind.
struct Arg { const char* name; Kind kind; double lo, hi; };
struct IArg { const char* name; long long lo, hi; };   // valid integer range (bool: 0..1)

inline Arg lat(const char* n, double lo = -88, double hi = 88) { return {n, LAT, lo, hi}; }
inline Arg lon(const char* n, double lo = -179, double hi = 179) { return {n, LON, lo, hi}; }
inline Arg azi(const char* n, double lo = -179, double hi = 179) { return {n, AZI, lo, hi}; }
inline Arg ang(const char* n, double lo = -179, double hi = 179) { return {n, ANG, lo, hi}; }
inline Arg dist(const char* n, double lo = -1.9e7, double hi = 1.9e7) { return {n, DIST, lo, hi}; }
inline Arg arc(const char* n, double lo = -170, double hi = 170) { return {n, ARC, lo, hi}; }
inline Arg hgt(const char* n, double lo = -5000, double hi = 400000) { return {n, HGT, lo, hi}; }
inline Arg xy(const char* n, double lo, double hi) { return {n, XY, lo, hi}; }
inline Arg ecef(const char* n, double lo = -9e6, double hi = 9e6) { return {n, ECEF, lo, hi}; }
inline Arg pos(const char* n, double lo, double hi) { return {n, POS, lo, hi}; }
inline Arg num(const char* n, double lo, double hi) { return {n, REAL, lo, hi}; }

enum Flags : unsigned {
  THROWS = 1,    // documented to validate: GeographicErr is an allowed outcome for bad arguments
  SHARED = 2,    // const call on a shared object or static function, documented thread-safe (C14)
  NANC = 4,      // ordinary function subject to the NaN contract (C13.b): no throw on NaN
  MARK = 8,      // int/string outputs carry the documented INVALID markers for NaN input
  CTOR = 16,     // constructs an object from its arguments; outputs are accessors (C13.a)
  HEAVY = 32,    // more than ~50 us per call
  MUT = 64,      // mutates a private copy / builds a private object
  FILEIO = 128,  // may read a data file during the call
  STR = 256,     // takes the input string c.s (parsers)
  ATOMIC = 512,  // exactly one library call whose reference arguments are the outputs (C13.c sentinels)
};

struct Call {
  double a[12]; long long n[6]; std::string s;                 // inputs
  double d[20]; int i[6]; bool b[4]; std::string so[4];         // outputs
};
struct Row {
  const char* name; unsigned flags;
  std::vector<Arg> args; std::vector<IArg> iargs;
  int nd, ni, nb, ns;
  void (*fn)(Call&);
};

// 8 output-mask bits -> Geodesic mask
inline unsigned gmask(long long n) {
  unsigned m = 0;
  if (n & 1) m |= Geodesic::LATITUDE; if (n & 2) m |= Geodesic::LONGITUDE; if (n & 4) m |= Geodesic::AZIMUTH;
  if (n & 8) m |= Geodesic::DISTANCE; if (n & 16) m |= Geodesic::REDUCEDLENGTH; if (n & 32) m |= Geodesic::GEODESICSCALE;
  if (n & 64) m |= Geodesic::AREA; if (n & 128) m |= Geodesic::LONG_UNROLL;
  return m;
}

// ------------------------------------------------------------------------------ shared objects
inline std::string tmpdir() {
  const char* p = std::getenv("VF_TMP");
  std::string d = std::string(p ? p : ".") + "/api-" + std::to_string((long)getpid());
  ::mkdir(d.c_str(), 0755);
  return d;
}

static const double A1 = 6378388.0, F1 = 1 / 297.0;        // International 1924 (constructed objects)
static const double A2 = 6.4e6, F2 = -1 / 150.0;           // prolate
static const double A3 = 6.4e6;
// Objects whose ellipsoid depends on a variant number (C14 sets it from the workload seed before objs() is first used;
// everywhere else it stays 0): the flattening decides internal table sizes (GeodesicExact's DST length, hence the FFT
// factorisation) and per-ellipsoid constants, so a fixed set of objects would leave most of those paths untouched.
inline unsigned long long& variant() { static unsigned long long v = 0; return v; }
inline double F3() { static const double t[] = {0.5, 0.1, -0.1, 0.7, 0.95, 0.3, -0.5, 0.02, 1 / 3.0, -0.47, 0.2, -0.9}; return t[variant() % 12]; }   // GeodesicExact(f = 0.5 ...)
inline double F4() { static const double t[] = {1 / 40.0, 0.05, 0.02, 0.08}; return t[(variant() / 12) % 4]; }                                  // second TransverseMercatorExact

struct Harm {   // synthetic coefficient sets (owned here: SphericalHarmonic keeps iterators into them)
  std::vector<double> C, S, C1, S1, C2, S2;
  int N = 8, N1 = 4, N2 = 2;
  static void fill(std::vector<double>& C, std::vector<double>& S, int N, unsigned salt, double sc) {
    std::string b = synth::coeff_block(N, N, salt, 1.0, sc);
    int nc = synth::csize(N, N), ns = nc - (N + 1);
    C.resize(nc); S.resize(ns);
    std::memcpy(C.data(), b.data() + 8, 8 * (size_t)nc); std::memcpy(S.data(), b.data() + 8 + 8 * (size_t)nc, 8 * (size_t)ns);
  }
  Harm() { fill(C, S, N, 1, 1e-3); fill(C1, S1, N1, 2, 1e-4); fill(C2, S2, N2, 3, 1e-5); }
};

// Nothing in here touches a library singleton (Geodesic::WGS84() ...): C14 needs the singletons to be
// touched for the first time by the worker threads.
struct Objs {
  std::string dir;
  Geodesic gw; Rhumb rw; Geocentric gcw;   // own WGS84 objects (not the singletons)
  Geodesic g1, g1x;            // series, exact=true
  GeodesicExact ge1, ge2, ge3; // oblate, prolate, very eccentric (f = 0.5)
  GeodesicLine l1, lw; GeodesicLineExact le1;
  Rhumb r1, r1x; RhumbLine rl1, rlw;
  TransverseMercator tm1; TransverseMercatorExact tme1, tme1x, tme2;
  PolarStereographic ps1;
  LambertConformalConic lcc1, lcc2;
  AlbersEqualArea alb1, alb2;
  Gnomonic gn; AzimuthalEquidistant aeq; CassiniSoldner cs;
  Geocentric gc1, gc2; LocalCartesian lc1;      // gc2: prolate
  Ellipsoid el1; AuxLatitude aux1; DAuxLatitude daux1;
  EllipticFunction ef1, ef2;
  NormalGravity ng1;
  Harm hc;
  SphericalHarmonic sh; SphericalHarmonic1 sh1; SphericalHarmonic2 sh2;
  CircularEngine circ, circ1;
  std::unique_ptr<MagneticModel> mag; std::unique_ptr<GravityModel> grav;
  MagneticCircle mcirc; GravityCircle gcirc;
  std::unique_ptr<Geoid> geoid_ts, geoid_lin_ts, geoid_nc;
  double dstF[16];
  Objs()
      : dir(tmpdir()), gw(Constants::WGS84_a(), Constants::WGS84_f()), rw(Constants::WGS84_a(), Constants::WGS84_f()), gcw(Constants::WGS84_a(), Constants::WGS84_f()),
        g1(A1, F1), g1x(A1, F1, true), ge1(A1, F1), ge2(A2, F2), ge3(A3, F3()),
        l1(g1, 33.5, -71.25, 41.75), lw(gw, -12.25, 100.5, -130.0), le1(ge1, 33.5, -71.25, 41.75),
        r1(A1, F1, false), r1x(A1, F1, true), rl1(r1.Line(33.5, -71.25, 41.75)), rlw(rw.Line(-12.25, 100.5, -130.0)),
        tm1(A1, F1, 0.9996), tme1(A1, F1, 0.9996, false), tme1x(A1, F1, 0.9996, true), tme2(A3, F4(), 1.0, false), ps1(A1, F1, 0.994),
        lcc1(A1, F1, 40.0, 60.0, 1.0), lcc2(A1, F1, -35.0, 0.9999), alb1(A1, F1, 40.0, 60.0, 1.0), alb2(A1, F1, -40.0, -60.0, 1.0),
        gn(g1), aeq(g1), cs(33.5, -71.25, g1), gc1(A1, F1), gc2(A2, -1 / 50.0), lc1(33.5, -71.25, 120.0, gc1), el1(A1, F1), aux1(A1, F1),
        daux1(A1, F1), ef1(0.3, 0.2), ef2(-2.5, 0.7), ng1(A1, 3.986004418e14, 7.292115e-5, F1, true),
        sh(hc.C, hc.S, hc.N, A1, SphericalHarmonic::FULL),
        sh1(hc.C, hc.S, hc.N, hc.C1, hc.S1, hc.N1, A1, SphericalHarmonic1::SCHMIDT),
        sh2(hc.C, hc.S, hc.N, hc.C1, hc.S1, hc.N1, hc.C2, hc.S2, hc.N2, A1, SphericalHarmonic2::FULL) {
    circ = sh.Circle(5.1e6, 4.2e6, true);
    circ1 = sh1.Circle(0.3, 5.1e6, 4.2e6, false);
    synth::write_magnetic(dir, "synmag");
    synth::write_gravity(dir, "syngrav");
    synth::write_geoid(dir, "syngeoid");
    mag.reset(new MagneticModel("synmag", dir, gcw));
    grav.reset(new GravityModel("syngrav", dir));
    mcirc = mag->Circle(2027.5, 33.5, 1200.0);
    gcirc = grav->Circle(33.5, 1200.0, GravityModel::ALL);
    geoid_ts.reset(new Geoid("syngeoid", dir, true, true));
    geoid_lin_ts.reset(new Geoid("syngeoid", dir, false, true));
    geoid_nc.reset(new Geoid("syngeoid", dir, true, false));
    for (int k = 0; k < 16; ++k) dstF[k] = 1.0 / ((k + 1.0) * (k + 2.0)) * (k % 3 == 1 ? -1 : 1);
  }
};
inline Objs& objs() { static Objs* o = new Objs(); return *o; }   // leaked on purpose (no destructor order issues)

inline void build_geod(std::vector<Row>& R);
inline void build_proj(std::vector<Row>& R);
inline void build_math(std::vector<Row>& R);
inline void build_grid(std::vector<Row>& R);
inline void build_model(std::vector<Row>& R);
inline void build_ctor(std::vector<Row>& R);

inline const std::vector<Row>& rows() {
  static const std::vector<Row>* r = [] {
    auto* v = new std::vector<Row>();
    build_geod(*v); build_proj(*v); build_math(*v); build_grid(*v); build_model(*v); build_ctor(*v);
    return v;
  }();
  return *r;
}
inline const Row* find(const std::string& name) {
  for (auto& r : rows()) if (name == r.name) return &r;
  return nullptr;
}

}  // namespace api

#define aA(k) c.a[k]
#define aN(k) c.n[k]
#define oD(k) c.d[k]
#define oI(k) c.i[k]
#define oB(k) c.b[k]
#define FN [](api::Call & c)
#include "api/rows_geod.inc"
#include "api/rows_proj.inc"
#include "api/rows_math.inc"
#include "api/rows_grid.inc"
#include "api/rows_model.inc"
#include "api/rows_ctor.inc"
#undef aA
#undef aN
#undef oD
#undef oI
#undef oB
#undef FN
