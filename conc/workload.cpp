// C14 workload (DESIGN 3/C14): a pure function of the seed.
//   workload <seed> conc|solo [yield]      -> one line per call on stdout: "<thread> <k> <row> <hash>"
// T in [2,16] threads each execute a generated list of const calls (rows flagged SHARED in
// api/registry.hpp) on shared objects: the library singletons, which nothing touches before the start
// barrier, the objects of api::objs() built by the main thread just before, a thread-safe Geoid, and
// the static grid/text functions.  A "focus" subset of rows is given to every thread so that several
// threads use the same object (and race for the first touch of a singleton).  `solo` executes the same
// lists sequentially in one thread; `yield` inserts generated sched_yield storms before calls.
// The hash covers every output bit (doubles as bit patterns, ints, bools, strings, exception text).
#include <pthread.h>
#include <sched.h>
#include <atomic>
#include <cstdio>
#include <cstring>
#include <map>
#include <thread>
#include <vector>
#include "api/registry.hpp"

namespace {
struct Rng {   // splitmix64: tiny, deterministic, recorded by the seed alone
  uint64_t s; explicit Rng(uint64_t x) : s(x) {}
  uint64_t next() { uint64_t z = (s += 0x9e3779b97f4a7c15ull); z = (z ^ (z >> 30)) * 0xbf58476d1ce4e5b9ull; z = (z ^ (z >> 27)) * 0x94d049bb133111ebull; return z ^ (z >> 31); }
  long long range(long long lo, long long hi) { return lo + (long long)(next() % (uint64_t)(hi - lo + 1)); }
  double u01() { return double(next() >> 11) / double(1ull << 53); }
};

const char* str_seed(const std::string& row, Rng& r) {
  static const std::map<std::string, std::vector<const char*>> m = {
      {"UTMUPS::DecodeZone", {"31n", "1S", "60north", "ups", "38south", "inv"}},
      {"MGRS::Reverse", {"38SMB4484", "38SMB", "YYF1800018000", "ZAB12", "31NAA6602100000", "INVALID", "33TWN1234567890"}},
      {"MGRS::Decode", {"38SMB4484", "YYF1800018000", "INVALID", "33TWN1234567890"}},
      {"DMS::Decode", {"40d26'47\"N", "-74:0:21.5", "1d2'3\"", "40:26:47S", "070:00:45W", "30.5E", "x"}},
      {"DMS::DecodeAngle", {"12d30'", "-5.5", "1:2:3"}},
      {"DMS::DecodeAzimuth", {"35E", "-10", "22d30'W"}},
      {"DMS::DecodeLatLon", {"40N 74W", "74W 40N", "-33.3 18.4"}},
      {"Geohash::Reverse", {"ezs42", "u4pruydqqvj", "0", "zzzzzzzzzzzzzzzzzz", "invalid"}},
      {"GARS::Reverse", {"006AG39", "361HN", "001AA", "INVALID", "180QZ48"}},
      {"Georef::Reverse", {"GJPJ3217", "MKPG1200", "AAAA", "INVALID", "GJPJ34241716"}},
      {"OSGB::GridReference(string)", {"TQ3080", "SU387148", "NN166712", "INVALID", "HP", "TI12"}},
      {"Utility::date(string)", {"2012-10-23", "2012-10", "2012", "2012-13-01"}},
      {"Utility::fractionalyear<double>", {"2012-10-23", "2020.5"}},
      {"Utility::val<double>", {"1.5", "-3e10", "nan", "inf", " 12 ", "1x"}},
      {"Utility::val<int>", {"12", "-5", "1.5"}},
      {"Utility::val<bool>", {"true", "0", "false", "2"}},
      {"Utility::fract<double>", {"1/298.257", "-3/4", "5"}},
      {"Utility::ParseLine", {"key value # c", "a = b", "   ", "#x"}},
      {"Utility::trim+lookup", {"  x  ", "A", "7"}},
  };
  auto it = m.find(row);
  if (it == m.end()) return "1";
  return it->second[(size_t)r.range(0, (long long)it->second.size() - 1)];
}

struct Item { int row; api::Call in; int yields; uint64_t hash; };

uint64_t fnv(const void* p, size_t n, uint64_t h) { const unsigned char* q = (const unsigned char*)p; for (size_t k = 0; k < n; ++k) { h ^= q[k]; h *= 1099511628211ull; } return h; }

void execute(Item& it) {
  const api::Row& r = api::rows()[(size_t)it.row];
  api::Call c = it.in;
  for (int k = 0; k < 20; ++k) c.d[k] = -7.25e77; for (int k = 0; k < 6; ++k) c.i[k] = -7777; for (int k = 0; k < 4; ++k) { c.b[k] = false; c.so[k] = "~"; }
  std::string exc;
  try { r.fn(c); }
  catch (const GeographicLib::GeographicErr& e) { exc = std::string("GeographicErr:") + e.what(); }
  catch (const std::exception& e) { exc = std::string("std::exception:") + e.what(); }
  uint64_t h = 1469598103934665603ull;
  h = fnv(c.d, sizeof(double) * (size_t)r.nd, h); h = fnv(c.i, sizeof(int) * (size_t)r.ni, h);
  for (int k = 0; k < r.nb; ++k) { unsigned char b = c.b[k]; h = fnv(&b, 1, h); }
  for (int k = 0; k < r.ns; ++k) h = fnv(c.so[k].data(), c.so[k].size(), fnv("|", 1, h));
  h = fnv(exc.data(), exc.size(), fnv("#", 1, h));
  it.hash = h;
}
}  // namespace

int main(int argc, char** argv) {
  if (argc < 3) { std::fprintf(stderr, "usage: workload <seed> conc|solo|solorev [yield] | workload list\n"); return 64; }
  uint64_t seed = std::strtoull(argv[1], nullptr, 10);
  // solorev: the same calls alone, in the opposite order (a value that depends on which calls were made before it -
  // hidden static state, a cache keyed on the first caller - differs between the two sequential orders)
  bool solorev = std::string(argv[2]) == "solorev";
  bool solo = std::string(argv[2]) == "solo" || solorev, yield = argc > 3 && std::string(argv[3]) == "yield";
  api::variant() = seed;     // ellipsoids of the variant objects (api/registry.hpp)
  const auto& R = api::rows();           // building the table touches no library object
  std::vector<int> shared;
  for (size_t k = 0; k < R.size(); ++k) if (R[k].flags & api::SHARED) shared.push_back((int)k);

  // ---- generate the workload
  Rng rng(seed * 0x2545f4914f6cdd1dull + 12345);
  int T = (int)rng.range(2, 16);
  int nfocus = (int)rng.range(1, 4);
  std::vector<int> focus; for (int k = 0; k < nfocus; ++k) focus.push_back(shared[(size_t)rng.range(0, (long long)shared.size() - 1)]);
  std::vector<std::vector<Item>> lists((size_t)T);
  for (int t = 0; t < T; ++t) {
    int L = (int)rng.range(4, 30);
    for (int k = 0; k < L; ++k) {
      Item it; it.hash = 0;
      // the first calls of every thread go to the focus rows (first touch of singletons is contended)
      it.row = (k < nfocus || rng.range(0, 2) == 0) ? focus[(size_t)(k % nfocus)] : shared[(size_t)rng.range(0, (long long)shared.size() - 1)];
      const api::Row& r = R[(size_t)it.row];
      std::memset(it.in.a, 0, sizeof it.in.a); std::memset(it.in.n, 0, sizeof it.in.n);
      for (size_t j = 0; j < r.args.size(); ++j) {
        const api::Arg& g = r.args[j];
        double v = g.lo + (g.hi - g.lo) * rng.u01();
        switch (rng.range(0, 15)) { case 0: v = g.lo; break; case 1: v = g.hi; break; case 2: v = 0.5 * (g.lo + g.hi); break; default: break; }
        it.in.a[j] = v;
      }
      for (size_t j = 0; j < r.iargs.size(); ++j) it.in.n[j] = rng.range(r.iargs[j].lo, r.iargs[j].hi);
      if (r.flags & api::STR) it.in.s = str_seed(r.name, rng);
      it.yields = yield ? (rng.range(0, 3) == 0 ? (int)rng.range(1, 40) : 0) : 0;
      lists[(size_t)t].push_back(it);
    }
  }

  // ---- fresh shared objects (main thread), then the threads start together
  api::objs();
  if (solorev) {
    for (size_t t = lists.size(); t-- > 0;) for (size_t k = lists[t].size(); k-- > 0;) execute(lists[t][k]);
  } else if (solo) {
    for (auto& l : lists) for (auto& it : l) execute(it);
  } else {
    pthread_barrier_t bar; pthread_barrier_init(&bar, nullptr, (unsigned)T);
    std::vector<std::thread> th;
    for (int t = 0; t < T; ++t)
      th.emplace_back([&lists, &bar, t] {
        pthread_barrier_wait(&bar);
        for (auto& it : lists[(size_t)t]) { for (int y = 0; y < it.yields; ++y) sched_yield(); execute(it); }
      });
    for (auto& x : th) x.join();
    pthread_barrier_destroy(&bar);
  }
  std::printf("workload seed=%llu T=%d focus=", (unsigned long long)seed, T);
  for (int f : focus) std::printf("[%s]", R[(size_t)f].name);
  std::printf("\n");
  for (int t = 0; t < T; ++t) for (size_t k = 0; k < lists[(size_t)t].size(); ++k)
    std::printf("%d %zu %016llx %s\n", t, k, (unsigned long long)lists[(size_t)t][k].hash, R[(size_t)lists[(size_t)t][k].row].name);
  return 0;
}
