#!/usr/bin/env python3
"""Driver for the property checks.

  check.py Cxx --tier quick|thorough      run the property's units, write evidence/Cxx.json
  check.py Cxx --replay FILE              re-run one saved case (no rapidcheck, no RNG)
  check.py --build-only [flavours]        build the library flavours for the current tree

Exit 0: property held on everything explored (KNOWN-FINDING lines for listed findings).
Exit 1: "VIOLATION property=<id> replay=<path>" printed for every confirmed violation.
Everything is rebuilt from /repo's working tree (cache keyed by a hash of the sources).
"""
import concurrent.futures as cf
import glob
import hashlib
import json
import mmap
import os
import shutil
import struct
import subprocess
import sys
import time

VERIF = os.path.dirname(os.path.abspath(__file__))
REPO = os.environ.get("VERIF_REPO", "/repo")
BUILD = os.path.join(VERIF, "build")
NCPU = int(os.environ.get("VERIF_JOBS", str(os.cpu_count() or 8)))
GUARD = "GEOGRAPHICLIB_VERIF"

FLAVOURS = {
    # numeric PBT: same FP semantics users get; asserts on
    "num": dict(cxx="g++", flags=["-std=gnu++17", "-O2", "-g1", "-fno-fast-math"], link=[]),
    # sanitized: ASan+UBSan (float-cast-overflow is in clang-14's 'undefined' group)
    "san": dict(cxx="clang++", flags=["-std=gnu++17", "-O1", "-g", "-fsanitize=address,undefined",
                                      "-fno-sanitize-recover=undefined", "-fno-omit-frame-pointer"],
                link=["-fsanitize=address,undefined"]),
    # as san, plus coverage instrumentation for libFuzzer targets
    "fuzz": dict(cxx="clang++", flags=["-std=gnu++17", "-O1", "-g", "-fsanitize=fuzzer-no-link,address,undefined",
                                       "-fno-sanitize-recover=undefined", "-fno-omit-frame-pointer"],
                 link=["-fsanitize=fuzzer,address,undefined"]),
    "tsan": dict(cxx="clang++", flags=["-std=gnu++17", "-O1", "-g", "-fsanitize=thread"],
                 link=["-fsanitize=thread"]),
}


def log(*a):
    print(*a, file=sys.stderr, flush=True)


def sha(paths, extra=""):
    h = hashlib.sha256(extra.encode())
    for p in sorted(paths):
        h.update(p.encode())
        with open(p, "rb") as f:
            h.update(f.read())
    return h.hexdigest()[:16]


def repo_files():
    fs = []
    for sub, pats in (("src", ("*.cpp", "*.hh", "*.hpp", "*.h")), ("include/GeographicLib", ("*.hpp", "*.h")),
                      ("tools", ("*.cpp",))):
        for pat in pats:
            fs += glob.glob(os.path.join(REPO, sub, pat))
    return fs


def tree_hash():
    return sha(repo_files())


def header_hash():
    return sha([f for f in repo_files() if "/include/" in f or f.endswith(".hh")])


def run(cmd, **kw):
    return subprocess.run(cmd, stdout=subprocess.PIPE, stderr=subprocess.PIPE, text=True, **kw)


def prune_cache(keep):
    """keep at most `keep` library trees (most recently used)"""
    d = os.path.join(BUILD, "lib")
    if not os.path.isdir(d):
        return
    ents = sorted((os.path.getmtime(os.path.join(d, e)), e) for e in os.listdir(d))
    for _, e in ents[:-keep]:
        shutil.rmtree(os.path.join(d, e), ignore_errors=True)
    d = os.path.join(BUILD, "bin")
    if os.path.isdir(d):
        ents = sorted((os.path.getmtime(os.path.join(d, e)), e) for e in os.listdir(d))
        for _, e in ents[:-400]:
            p = os.path.join(d, e)
            shutil.rmtree(p, ignore_errors=True) if os.path.isdir(p) else os.remove(p)


def config_dir():
    d = os.path.join(BUILD, "config", "GeographicLib")
    p = os.path.join(d, "Config.h")
    txt = ('#define GEOGRAPHICLIB_VERSION_STRING "2.5"\n#define GEOGRAPHICLIB_VERSION_MAJOR 2\n'
           '#define GEOGRAPHICLIB_VERSION_MINOR 5\n#define GEOGRAPHICLIB_VERSION_PATCH 0\n'
           '#define GEOGRAPHICLIB_DATA "/nonexistent/GeographicLib"\n'
           '#define GEOGRAPHICLIB_HAVE_LONG_DOUBLE 1\n#define GEOGRAPHICLIB_WORDS_BIGENDIAN 0\n'
           '#define GEOGRAPHICLIB_PRECISION 2\n#if !defined(GEOGRAPHICLIB_SHARED_LIB)\n'
           '#define GEOGRAPHICLIB_SHARED_LIB 0\n#endif\n')
    if not os.path.exists(p) or open(p).read() != txt:
        os.makedirs(d, exist_ok=True)
        with open(p, "w") as f:
            f.write(txt)
    return os.path.dirname(d)


def inc_flags():
    return ["-I" + config_dir(), "-I" + os.path.join(REPO, "include"), "-D" + GUARD + "=1"]


def build_lib(flavour, with_tools=False):
    """static library of /repo/src for this flavour; returns path of libgeo.a (cached by tree hash)"""
    fl = FLAVOURS[flavour]
    th = tree_hash()
    d = os.path.join(BUILD, "lib", th + "-" + flavour)
    lib = os.path.join(d, "libgeo.a")
    toolslib = os.path.join(d, "libtools.a")
    need_tools = with_tools and not os.path.exists(toolslib)
    if os.path.exists(lib) and not need_tools:
        os.utime(d)
        return lib
    os.makedirs(d, exist_ok=True)
    t0 = time.time()
    jobs = []
    if not os.path.exists(lib):
        for src in sorted(glob.glob(os.path.join(REPO, "src", "*.cpp"))):
            obj = os.path.join(d, os.path.basename(src)[:-4] + ".o")
            jobs.append((src, obj, []))
    if need_tools:
        for src in sorted(glob.glob(os.path.join(REPO, "tools", "*.cpp"))):
            name = os.path.basename(src)[:-4]
            obj = os.path.join(d, "tool_" + name + ".o")
            jobs.append((src, obj, ["-Dmain=tool_%s_main" % name, "-I" + os.path.join(VERIF, "fw", "man")]))

    def cc(job):
        src, obj, extra = job
        r = run([fl["cxx"]] + fl["flags"] + inc_flags() + extra + ["-c", src, "-o", obj])
        return (src, r.returncode, r.stderr)

    with cf.ThreadPoolExecutor(NCPU) as ex:
        res = list(ex.map(cc, jobs))
    bad = [(s, e) for s, rc, e in res if rc != 0]
    if bad:
        for s, e in bad:
            log("BUILD FAILED", s, "\n", e[-3000:])
        shutil.rmtree(d, ignore_errors=True)
        raise SystemExit(3)
    if not os.path.exists(lib):
        objs = [o for s, o, _ in jobs if not os.path.basename(o).startswith("tool_")]
        run(["ar", "rcs", lib + ".tmp"] + objs, check=True)
        os.rename(lib + ".tmp", lib)
    if need_tools:
        objs = [o for s, o, _ in jobs if os.path.basename(o).startswith("tool_")]
        run(["ar", "rcs", toolslib + ".tmp"] + objs, check=True)
        os.rename(toolslib + ".tmp", toolslib)
    log("built %s library for tree %s in %.1fs" % (flavour, th, time.time() - t0))
    prune_cache(48)
    return lib


def verif_deps(src):
    """files of /verif a unit's source depends on (fw/, ref/, gen/ and the file itself)"""
    fs = [src]
    for sub in ("fw", "ref", "gen", "api"):
        for root, _, names in os.walk(os.path.join(VERIF, sub)):
            for n in names:
                if n.endswith((".hpp", ".h", ".cpp", ".txt", ".inc")):
                    fs.append(os.path.join(root, n))
    for d in ("props", "fuzz", "conc"):       # shared headers next to the unit sources (geod_common.hpp, c13_common.hpp, ...)
        dd = os.path.join(VERIF, d)
        if os.path.isdir(dd):
            fs += [os.path.join(dd, n) for n in sorted(os.listdir(dd)) if n.endswith((".hpp", ".h", ".inc"))]
    return fs


def build_unit(unit, flavour):
    """compile one property/fuzz source against the current tree's library; returns binary path"""
    fl = FLAVOURS[flavour]
    src = os.path.join(VERIF, unit["src"])
    with_tools = bool(unit.get("tools"))
    lib = build_lib(flavour, with_tools=with_tools)
    extra_src = [os.path.join(VERIF, s) for s in unit.get("extra_src", [])]
    key = sha(verif_deps(src) + extra_src, extra=header_hash() + flavour + json.dumps(unit, sort_keys=True))
    os.makedirs(os.path.join(BUILD, "bin"), exist_ok=True)
    obj = os.path.join(BUILD, "bin", "%s-%s.o" % (os.path.basename(src)[:-4], key))
    exe = os.path.join(BUILD, "bin", "%s-%s-%s" % (os.path.basename(src)[:-4], key, tree_hash()))
    if os.path.exists(exe):
        os.utime(exe)
        return exe
    t0 = time.time()
    cflags = fl["flags"] + inc_flags() + ["-I" + VERIF, "-I" + os.path.join(VERIF, "fw")] + unit.get("cflags", [])
    objs = []
    todo = []
    if not os.path.exists(obj):
        todo.append((src, obj))
    objs.append(obj)
    for i, es in enumerate(extra_src):
        eo = os.path.join(BUILD, "bin", "%s-%s-x%d.o" % (os.path.basename(src)[:-4], key, i))
        if not os.path.exists(eo):
            todo.append((es, eo))
        objs.append(eo)

    def cc(job):
        s, o = job
        r = run([fl["cxx"]] + cflags + ["-c", s, "-o", o + ".tmp.o"])
        if r.returncode == 0:
            os.rename(o + ".tmp.o", o)
        return (s, r.returncode, r.stderr)

    with cf.ThreadPoolExecutor(NCPU) as ex:
        res = list(ex.map(cc, todo))
    for s, rc, e in res:
        if rc != 0:
            log("COMPILE FAILED", s, "\n", e[-6000:])
            raise SystemExit(3)
    libs = [lib]
    if with_tools:
        libs = [os.path.join(os.path.dirname(lib), "libtools.a"), lib]
    link = [fl["cxx"]] + fl["link"] + objs + libs + unit.get("ldflags", []) + ["-lpthread", "-o", exe + ".tmp"]
    r = run(link)
    if r.returncode != 0:
        log("LINK FAILED", src, "\n", r.stderr[-6000:])
        raise SystemExit(3)
    os.rename(exe + ".tmp", exe)
    log("built %s (%s) in %.1fs" % (unit["src"], flavour, time.time() - t0))
    return exe


# ----------------------------------------------------------------------------- known findings
def load_known(prop):
    p = os.path.join(VERIF, "known_findings.json")
    if not os.path.exists(p):
        return []
    with open(p) as f:
        k = json.load(f)
    return [x for x in k.get("findings", []) if x.get("property") == prop]


# ----------------------------------------------------------------------------- pbt units
CUR_SIZE = 1 << 18


def read_cur(path):
    """(counter, record-json-or-None) from a shard's progress file"""
    try:
        with open(path, "rb") as f:
            data = f.read(CUR_SIZE)
        cnt, ln = struct.unpack("<QQ", data[:16])
        if 0 < ln <= len(data) - 16:
            return cnt, data[16:16 + ln].decode("latin-1")
        return cnt, None
    except Exception:
        return 0, None


def run_pbt(prop, unit, tier, seed, known_ids, only=None):
    flavour = unit.get("flavour", "num")
    exe = build_unit(unit, flavour)
    # the number of shards fixes which cases are generated, so it must not depend on the machine or on VERIF_JOBS
    # (VERIF_JOBS / the core count only limit how many shards run at the same time)
    nshards = int(unit.get("shards", 16))
    cases = int(unit.get(tier + "_cases", unit.get("quick_cases", 1000)))
    per = max(1, cases // nshards)
    stall = float(unit.get("stall_s", 60 if tier == "quick" else 300))
    budget = float(unit.get(tier + "_timeout_s", 900 if tier == "quick" else 4 * 3600))
    tmp = os.path.join(BUILD, "tmp", "%s-%s-%d" % (prop, os.path.basename(unit["src"]), os.getpid()))
    shutil.rmtree(tmp, ignore_errors=True)
    os.makedirs(tmp)
    env = dict(os.environ)
    # malloc_context_size=0: ASan's stack depot keeps every distinct allocation stack for ever; rapidcheck's nested
    # generators produce millions of them (a thorough C10 shard reached 9 GB and was OOM-killed).  Errors are still
    # detected; the replay of a failing case (replay_pbt) runs with full allocation stacks for the report.
    env["ASAN_OPTIONS"] = "detect_leaks=0:abort_on_error=1:allocator_may_return_null=1:malloc_context_size=0:quarantine_size_mb=64"
    env["UBSAN_OPTIONS"] = "print_stacktrace=1:halt_on_error=1"
    env["VF_TMP"] = tmp
    procs = []
    pending = []
    for k in range(nshards):
        out = os.path.join(tmp, "shard%d.json" % k)
        cur = os.path.join(tmp, "shard%d.cur" % k)
        cmd = [exe, "run", "--seed", str(seed), "--shard", str(k), "--nshards", str(nshards), "--cases", str(per),
               "--tier", tier, "--out", out, "--cur", cur]
        if only:
            cmd += ["--only", only]
        if os.environ.get("VF_CALIBRATE"):
            cmd += ["--calibrate", "1"]
        if known_ids:
            cmd += ["--known", ",".join(known_ids)]
        pending.append(dict(cmd=cmd, out=out, cur=cur, k=k))
    t0 = time.time()
    while pending or any(s["state"] == "run" for s in procs):
        while pending and sum(1 for s in procs if s["state"] == "run") < max(1, NCPU):
            d = pending.pop(0)
            errf = open(os.path.join(tmp, "shard%d.err" % d["k"]), "wb")
            p = subprocess.Popen(d["cmd"], stdout=errf, stderr=errf, env=env, cwd=tmp)
            procs.append(dict(p=p, out=d["out"], cur=d["cur"], k=d["k"], last=(0, time.time()), state="run", errf=errf))
        time.sleep(0.2)
        now = time.time()
        for s in procs:
            if s["state"] != "run":
                continue
            rc = s["p"].poll()
            if rc is not None:
                s["state"] = "done" if rc == 0 else "crash"
                s["rc"] = rc
                continue
            cnt, _ = read_cur(s["cur"])
            if cnt != s["last"][0]:
                s["last"] = (cnt, now)
            elif now - s["last"][1] > stall:
                s["p"].kill()
                s["p"].wait()
                s["state"] = "hang"
            if now - t0 > budget:
                s["p"].kill()
                s["p"].wait()
                s["state"] = "timeout"
    for s in procs:
        s["errf"].close()
    subs = {}
    failures = []
    notes = []
    for s in procs:
        if s["state"] == "done":
            with open(s["out"]) as f:
                res = json.load(f)
            for sr in res["subs"]:
                agg = subs.setdefault(sr["sub"], dict(sub=sr["sub"], rule=sr["rule"], evaluations=0, passed=0,
                                                      nontrivial=0, skipped=0, classes={}, known={}, skip_reasons={},
                                                      max_ratio=0.0, samples=[], hashes=set(), enum_distinct=0,
                                                      exhaustive=None))
                for key in ("evaluations", "passed", "nontrivial", "skipped"):
                    agg[key] += sr.get(key, 0)
                for key in ("classes", "known", "skip_reasons"):
                    for c, n in sr.get(key, {}).items():
                        agg[key][c] = agg[key].get(c, 0) + n
                if sr.get("max_ratio", 0) > agg["max_ratio"]:
                    agg["max_ratio"] = sr["max_ratio"]
                    agg["max_ratio_rel"] = sr.get("max_ratio_rel")
                    agg["max_ratio_rec"] = sr.get("max_ratio_rec")
                if len(agg["samples"]) < 6:
                    agg["samples"] += sr.get("samples", [])[:2]
                if "enum_distinct" in sr:
                    agg["enum_distinct"] += sr["enum_distinct"]
                    ex = bool(sr.get("exhaustive"))
                    agg["exhaustive"] = ex if agg["exhaustive"] is None else (agg["exhaustive"] and ex)
                hp = s["out"] + "." + sr["sub"] + ".h64"
                if os.path.exists(hp):
                    with open(hp, "rb") as f:
                        b = f.read()
                    agg["hashes"].update(struct.unpack("<%dQ" % (len(b) // 8), b))
                if sr.get("skipsamples"):
                    agg.setdefault("skipsamples", [])
                    if len(agg["skipsamples"]) < 12:
                        agg["skipsamples"] += sr["skipsamples"]
                if sr.get("top"):
                    agg.setdefault("top", [])
                    agg["top"] = sorted(agg["top"] + sr["top"], key=lambda t: -(t.get("ratio") if isinstance(t.get("ratio"), (int, float)) else 1e300))[:int(os.environ.get("VF_TOP", "12"))]
                if "failure" in sr:
                    failures.append(dict(kind="fail", sub=sr["sub"], failure=sr["failure"]))
        else:
            cnt, rec = read_cur(s["cur"])
            err = ""
            try:
                with open(os.path.join(tmp, "shard%d.err" % s["k"]), "rb") as f:
                    err = f.read()[-4000:].decode("latin-1")
            except Exception:
                pass
            if s["state"] == "timeout":
                notes.append("shard %d: time budget reached after %d cases (inconclusive)" % (s["k"], cnt))
                continue
            if rec is None:
                notes.append("shard %d: %s with no current record; stderr tail: %s" % (s["k"], s["state"], err[-500:]))
                failures.append(dict(kind="harness", sub="?", msg="shard %d %s rc=%s without record: %s" %
                                     (s["k"], s["state"], s.get("rc"), err[-1500:])))
                continue
            try:
                recj = json.loads(rec)
            except Exception:
                notes.append("shard %d: unreadable current record" % s["k"])
                continue
            failures.append(dict(kind=s["state"], sub=recj.get("sub", "?"),
                                 failure=dict(sub=recj.get("sub", "?"), rec=recj.get("rec"),
                                              msg=("process %s (rc=%s): " % (s["state"], s.get("rc"))) + err[-1500:])))
    for agg in subs.values():
        h = agg.pop("hashes")
        agg["distinct_nontrivial"] = len(h) + agg.pop("enum_distinct")
        if agg["exhaustive"] is None:
            agg.pop("exhaustive")
    shutil.rmtree(tmp, ignore_errors=True)
    return dict(exe=exe, subs=list(subs.values()), failures=failures, notes=notes, kind="pbt", src=unit["src"])


def replay_pbt(exe, path, known_ids, timeout=600):
    cmd = [exe, "replay", path]
    if known_ids:
        cmd += ["--known", ",".join(known_ids)]
    env = dict(os.environ)
    env["ASAN_OPTIONS"] = "detect_leaks=0:abort_on_error=1:allocator_may_return_null=1"
    env["UBSAN_OPTIONS"] = "print_stacktrace=1:halt_on_error=1"
    tmp = os.path.join(BUILD, "tmp", "replay-%d" % os.getpid())
    os.makedirs(tmp, exist_ok=True)
    env["VF_TMP"] = tmp
    try:
        r = subprocess.run(cmd, stdout=subprocess.PIPE, stderr=subprocess.PIPE, text=True, timeout=timeout, env=env,
                           cwd=tmp, errors="replace")
        out = (r.stdout + r.stderr)[-3000:]
        rc = r.returncode
    except subprocess.TimeoutExpired:
        rc, out = "hang", "no result within %ds" % timeout
    finally:
        shutil.rmtree(tmp, ignore_errors=True)
    # 0 pass, 1 fail, 2 skip, 3 known; anything else = crash
    return rc, out


# ----------------------------------------------------------------------------- fuzz units
def run_fuzz(prop, unit, tier, seed, known_ids):
    exe = build_unit(unit, "fuzz")
    name = os.path.basename(unit["src"])[:-4]
    jobs = int(unit.get("jobs", 16))      # fixed: the per-job seeds and run counts define the campaign (see run_pbt)
    runs = int(unit.get(tier + "_runs", unit.get("quick_runs", 20000)))
    per = max(1, runs // jobs)
    max_len = int(unit.get("max_len", 256))
    tmp = os.path.join(BUILD, "tmp", "%s-fuzz-%s-%d" % (prop, name, os.getpid()))
    shutil.rmtree(tmp, ignore_errors=True)
    os.makedirs(tmp)
    seedcorp = os.path.join(VERIF, "fuzz", "corpus", name)
    dic = os.path.join(VERIF, "fuzz", "dict", name + ".dict")
    env = dict(os.environ)
    env["ASAN_OPTIONS"] = "detect_leaks=0:abort_on_error=1:allocator_may_return_null=1:handle_abort=1"
    env["UBSAN_OPTIONS"] = "print_stacktrace=1:halt_on_error=1"
    budget = float(unit.get(tier + "_timeout_s", 600 if tier == "quick" else 3 * 3600))
    procs = []
    for j in range(jobs):
        jd = os.path.join(tmp, "job%d" % j)
        corp = os.path.join(jd, "corpus")
        art = os.path.join(jd, "art")
        work = os.path.join(jd, "work")
        for d in (corp, art, work):
            os.makedirs(d)
        # even jobs start from the committed seed corpus, odd jobs from an empty one
        use_seed = os.path.isdir(seedcorp) and (j % 2 == 0 or unit.get("always_seed"))
        cmd = [exe, corp] + ([seedcorp] if use_seed else []) + [
            "-runs=%d" % per, "-seed=%d" % (seed * 1000 + j + 1), "-max_len=%d" % max_len,
            "-timeout=%d" % int(unit.get("unit_timeout_s", 20)), "-rss_limit_mb=3072", "-print_final_stats=1",
            "-artifact_prefix=" + art + "/", "-verbosity=0"]
        if os.path.exists(dic):
            cmd.append("-dict=" + dic)
        e = dict(env)
        e["VF_STATS"] = os.path.join(jd, "stats.json")
        e["VF_TMP"] = work
        if known_ids:
            e["VF_KNOWN"] = ",".join(known_ids)
        procs.append(dict(p=None, cmd=cmd, env=e, work=work, jd=jd, errf=None, j=j))
    t0 = time.time()
    timed_out = False
    waiting = list(procs)
    running = []
    while waiting or running:
        while waiting and len(running) < max(1, NCPU):
            s = waiting.pop(0)
            s["errf"] = open(os.path.join(s["jd"], "log"), "wb")
            s["p"] = subprocess.Popen(s["cmd"], stdout=s["errf"], stderr=s["errf"], env=s["env"], cwd=s["work"])
            running.append(s)
        time.sleep(0.1)
        over = time.time() - t0 > budget
        for s in list(running):
            if s["p"].poll() is None:
                if not over:
                    continue
                s["p"].kill()
                s["p"].wait()
                timed_out = True
            s["errf"].close()
            running.remove(s)
        if over and waiting:      # budget exhausted before every job could start: inconclusive, never a violation
            timed_out = True
            for s in waiting:
                s["skipped_start"] = True
            waiting = []
    agg = dict(sub="%s.fuzz.%s" % (prop, name), rule=unit.get("rule", "libFuzzer target " + name), evaluations=0,
               nontrivial=0, distinct_nontrivial=0, classes={}, samples=[], cov=0, ft=0, known={})
    failures = []
    notes = []
    hashes = set()
    for s in procs:
        jd = s["jd"]
        try:
            with open(os.path.join(jd, "log"), "rb") as f:
                lg = f.read().decode("latin-1")
        except Exception:
            lg = ""
        st = None
        sp = os.path.join(jd, "stats.json")
        if os.path.exists(sp):
            try:
                with open(sp) as f:
                    st = json.load(f)
            except Exception:
                st = None
        if st:
            agg["evaluations"] += st.get("evaluations", 0)
            agg["nontrivial"] += st.get("nontrivial", 0)
            hashes.update(st.get("hashes", []))
            for c, n in st.get("classes", {}).items():
                agg["classes"][c] = agg["classes"].get(c, 0) + n
            for c, n in st.get("known", {}).items():
                agg["known"][c] = agg["known"].get(c, 0) + n
            if len(agg["samples"]) < 6:
                agg["samples"] += st.get("samples", [])[:2]
        else:
            for line in lg.splitlines():
                if line.startswith("stat::number_of_executed_units:"):
                    agg["evaluations"] += int(line.split()[-1])
        for line in lg.splitlines():
            if " cov: " in line and " ft: " in line:
                try:
                    toks = line.split()
                    agg["cov"] = max(agg["cov"], int(toks[toks.index("cov:") + 1]))
                    agg["ft"] = max(agg["ft"], int(toks[toks.index("ft:") + 1]))
                except Exception:
                    pass
        arts = sorted(glob.glob(os.path.join(jd, "art", "*")))
        for a in arts:
            base = os.path.basename(a)
            if base.startswith(("crash-", "leak-")):
                failures.append(dict(kind="crash", sub=agg["sub"], artifact=a, log=lg[-3000:]))
            elif base.startswith("timeout-") and unit.get("timeout_is_hang", True):
                failures.append(dict(kind="hang", sub=agg["sub"], artifact=a, log=lg[-1500:]))
            else:
                notes.append("job %d: ignored artifact %s (load noise)" % (s["j"], base))
        rc = s["p"].returncode if s["p"] is not None else None
        if rc not in (0, None) and not arts:
            notes.append("job %d exited rc=%s without artifact: %s" % (s["j"], rc, lg[-400:]))
            if "ERROR: " in lg or "runtime error" in lg:
                failures.append(dict(kind="harness", sub=agg["sub"], msg=lg[-2000:]))
    if timed_out:
        notes.append("fuzz time budget reached (inconclusive for the remaining runs)")
    agg["distinct_nontrivial"] = len(hashes)
    # keep artifacts outside tmp before cleaning
    keep = []
    for f in failures:
        if "artifact" in f:
            dst_dir = os.path.join(VERIF, "replays", prop)
            os.makedirs(dst_dir, exist_ok=True)
            dst = os.path.join(dst_dir, "%s-%s" % (name, os.path.basename(f["artifact"])))
            shutil.copy(f["artifact"], dst)
            f["artifact"] = dst
        keep.append(f)
    shutil.rmtree(tmp, ignore_errors=True)
    return dict(exe=exe, subs=[agg], failures=keep, notes=notes, kind="fuzz", src=unit["src"], name=name)


def replay_fuzz(exe, path, known_ids, timeout=300):
    env = dict(os.environ)
    env["ASAN_OPTIONS"] = "detect_leaks=0:abort_on_error=1:allocator_may_return_null=1:handle_abort=1"
    env["UBSAN_OPTIONS"] = "print_stacktrace=1:halt_on_error=1"
    tmp = os.path.join(BUILD, "tmp", "replayf-%d" % os.getpid())
    os.makedirs(tmp, exist_ok=True)
    env["VF_TMP"] = tmp
    if known_ids:
        env["VF_KNOWN"] = ",".join(known_ids)
    try:
        r = subprocess.run([exe, path, "-timeout=%d" % timeout], stdout=subprocess.PIPE, stderr=subprocess.PIPE,
                           timeout=timeout + 30, env=env, cwd=tmp)
        rc = r.returncode
        out = (r.stdout + r.stderr)[-3000:].decode("latin-1")
    except subprocess.TimeoutExpired:
        rc, out = "hang", "no result within %ds" % timeout
    finally:
        shutil.rmtree(tmp, ignore_errors=True)
    return (0 if rc == 0 else (rc if rc == "hang" else 1)), out


# ----------------------------------------------------------------------------- custom units
def run_custom(prop, unit, tier, seed, known_ids):
    """unit['cmd'] is a python module in /verif/units exposing run(ctx) -> result dict (same shape as run_pbt)"""
    import importlib
    sys.path.insert(0, os.path.join(VERIF, "units"))
    mod = importlib.import_module(unit["module"])
    ctx = dict(prop=prop, unit=unit, tier=tier, seed=seed, known=known_ids, verif=VERIF, repo=REPO, build=BUILD,
               ncpu=NCPU, build_lib=build_lib, build_unit=build_unit, flavours=FLAVOURS, inc_flags=inc_flags, log=log)
    res = mod.run(ctx)
    res.setdefault("kind", "custom")
    res.setdefault("src", unit.get("module"))
    res.setdefault("notes", [])
    res.setdefault("failures", [])
    return res


# ----------------------------------------------------------------------------- main
def load_spec(prop):
    with open(os.path.join(VERIF, "props", prop + ".spec.json")) as f:
        return json.load(f)


def confirm_and_report(prop, res, known, known_ids):
    """replay every failure 3x through the plain replay path; returns (violations, known_hits, discarded)"""
    violations, discarded = [], []
    rdir = os.path.join(VERIF, "replays", prop)
    seen_fail = set()
    uniq = []
    for f in res["failures"]:
        key = json.dumps([f.get("kind"), f.get("sub"), (f.get("failure") or {}).get("rec"), f.get("artifact")], sort_keys=True, default=str)
        if key in seen_fail:
            continue
        seen_fail.add(key)
        uniq.append(f)
    # at most a handful of hangs are confirmed (each costs 3 x the hang budget); the rest are recorded as notes
    nh = 0
    kept = []
    for f in uniq:
        if f.get("kind") == "hang":
            nh += 1
            if nh > 3:
                discarded.append(dict(sub=f.get("sub"), why="further hang candidates not replayed (3 already confirmed or discarded)"))
                continue
        kept.append(f)
    for f in kept:
        if f["kind"] == "harness":
            # a shard that died without leaving a case: cannot be replayed; report as broken harness, exit 2
            discarded.append(dict(sub=f["sub"], why="harness failure: " + f.get("msg", "")[:800]))
            continue
        if res["kind"] == "fuzz":
            path = f["artifact"]
            outs = [replay_fuzz(res["exe"], path, known_ids) for _ in range(3)]
            if all(rc != 0 for rc, _ in outs):
                violations.append(dict(sub=f["sub"], replay=path, msg=outs[0][1][-1200:]))
            else:
                discarded.append(dict(sub=f["sub"], why="artifact did not reproduce 3x", replay=path))
                try:
                    os.remove(path)
                except OSError:
                    pass
            continue
        os.makedirs(rdir, exist_ok=True)
        fj = f["failure"]
        body = json.dumps(dict(property=prop, sub=fj["sub"], rec=fj["rec"], msg=fj.get("msg", ""),
                               unshrunk_rec=fj.get("unshrunk_rec")), indent=1, sort_keys=True)
        hid = hashlib.sha1(json.dumps(fj["rec"], sort_keys=True).encode()).hexdigest()[:10]
        path = os.path.join(rdir, "%s-%s.json" % (fj["sub"], hid))
        with open(path, "w") as fh:
            fh.write(body)
        tmo = 120 if f["kind"] == "hang" else 600
        outs = [replay_pbt(res["exe"], path, known_ids, timeout=tmo) for _ in range(3)]
        bad = [rc for rc, _ in outs if rc not in (0, 2, 3)]
        if len(bad) == 3:
            violations.append(dict(sub=fj["sub"], replay=path, msg=(fj.get("msg", "") + " | " + outs[0][1])[:1500]))
        else:
            discarded.append(dict(sub=fj["sub"], why="did not reproduce 3x on replay: %s" % [rc for rc, _ in outs],
                                  replay=path, kind=f["kind"]))
            os.remove(path)
    return violations, discarded


def main():
    args = sys.argv[1:]
    if not args:
        print(__doc__)
        return 2
    if args[0] == "--build-only":
        for fl in (args[1:] or ["num"]):
            build_lib(fl)
        return 0
    prop = args[0]
    tier = os.environ.get("VERIF_TIER", "quick")
    replay = None
    only = None
    i = 1
    while i < len(args):
        if args[i] == "--tier":
            tier = args[i + 1]; i += 2
        elif args[i] == "--replay":
            replay = args[i + 1]; i += 2
        elif args[i] == "--only":
            only = args[i + 1]; i += 2
        else:
            i += 1
    if tier not in ("quick", "thorough"):
        tier = "quick"
    try:
        seed = int(os.environ.get("VERIF_SEED", "1"))
    except ValueError:
        seed = 1
    if seed == 0:
        seed = 1
    seed = abs(seed) % (1 << 31) or 1
    # one run per property at a time (evidence/<prop>.json and replays/<prop>/ are per property); helper tools that
    # restore evidence after a run against a changed tree hold the lock themselves and set VF_LOCK_HELD
    if not os.environ.get("VF_LOCK_HELD") and not replay:
        import fcntl
        os.makedirs(BUILD, exist_ok=True)
        _lock = open(os.path.join(BUILD, "lock-" + prop), "w")
        fcntl.flock(_lock, fcntl.LOCK_EX)
        globals()["_prop_lock"] = _lock
    spec = load_spec(prop)
    known = load_known(prop)
    known_ids = [k["id"] for k in known]
    # development aid: exercise guards of findings that are not (yet) listed; never set by MANIFEST commands
    known_ids += [x for x in os.environ.get("VF_KNOWN_EXTRA", "").split(",") if x]

    if replay:
        replay = os.path.abspath(replay)
        # find the unit owning the file: fuzz artifacts are raw, pbt replays are json with "sub"
        sub = None
        try:
            with open(replay) as f:
                sub = json.load(f).get("sub")
        except Exception:
            pass
        for unit in spec["units"]:
            if sub is not None and unit["kind"] == "pbt":
                exe = build_unit(unit, unit.get("flavour", "num"))
                lst = json.loads(run([exe, "list"]).stdout)
                if any(s["sub"] == sub for s in lst):
                    rc, out = replay_pbt(exe, replay, known_ids)
                    print(out.strip())
                    if rc not in (0, 2, 3):
                        print("VIOLATION property=%s replay=%s" % (prop, replay))
                        return 1
                    return 0
            if sub is None and unit["kind"] == "fuzz" and os.path.basename(replay).startswith(
                    os.path.basename(unit["src"])[:-4] + "-"):
                exe = build_unit(unit, "fuzz")
                rc, out = replay_fuzz(exe, replay, known_ids)
                print(out.strip()[-2000:])
                if rc != 0:
                    print("VIOLATION property=%s replay=%s" % (prop, replay))
                    return 1
                return 0
        # custom units replay through their own module: python3 units/<module>.py --replay <file>
        for unit in spec["units"]:
            if unit["kind"] == "custom":
                r = subprocess.run([sys.executable, os.path.join(VERIF, "units", unit["module"] + ".py"), "--replay", replay])
                return r.returncode
        log("no unit of %s owns %s" % (prop, replay))
        return 2

    t0 = time.time()
    os.makedirs(os.path.join(BUILD, "tmp"), exist_ok=True)
    all_subs, violations, discarded, notes, units_info = [], [], [], [], []
    for unit in spec["units"]:
        if only and unit["kind"] != "pbt":
            continue
        if tier == "quick" and unit.get("thorough_only"):
            continue
        tu = time.time()
        if unit["kind"] == "pbt":
            res = run_pbt(prop, unit, tier, seed, known_ids, only)
        elif unit["kind"] == "fuzz":
            res = run_fuzz(prop, unit, tier, seed, known_ids)
        else:
            res = run_custom(prop, unit, tier, seed, known_ids)
        v, d = confirm_and_report(prop, res, known, known_ids) if res["kind"] != "custom" else (
            res.get("violations", []), res.get("discarded", []))
        violations += v
        discarded += d
        notes += res["notes"]
        all_subs += res["subs"]
        units_info.append(dict(src=res["src"], kind=res["kind"], wall_s=round(time.time() - tu, 1)))

    # regression tier: committed records under regress/<prop>/ (inputs that exposed a defect which has been repaired, or a
    # false alarm of the machinery that has been corrected) are replayed on every run, before the verdict
    regress = dict(replayed=0, passed=0, known=0, skipped=0)
    rgdir = os.path.join(VERIF, "regress", prop)
    if os.path.isdir(rgdir) and not only:
        pbt_units = []
        for unit in spec["units"]:
            if unit["kind"] == "pbt":
                exe = build_unit(unit, unit.get("flavour", "num"))
                pbt_units.append((exe, {x["sub"] for x in json.loads(run([exe, "list"]).stdout)}))
        for name in sorted(os.listdir(rgdir)):
            path = os.path.join(rgdir, name)
            if name.endswith(".json"):
                try:
                    with open(path) as fh:
                        sub = json.load(fh).get("sub")
                except Exception:
                    sub = None
                exe = next((e for e, subs in pbt_units if sub in subs), None)
                if exe is None:
                    cu = next((u for u in spec["units"] if u["kind"] == "custom"), None)
                    if cu is None:
                        notes.append("regress/%s/%s: no unit owns sub-check %s" % (prop, name, sub))
                        continue
                    # custom units replay through their own module (exit 0 = passes now)
                    r = subprocess.run([sys.executable, os.path.join(VERIF, "units", cu["module"] + ".py"), "--replay", path],
                                       stdout=subprocess.PIPE, stderr=subprocess.STDOUT, text=True)
                    regress["replayed"] += 1
                    if r.returncode == 0:
                        regress["passed"] += 1
                    else:
                        violations.append(dict(sub=sub or "?", replay=path, msg="regression record fails again: " + r.stdout[-800:]))
                    continue
                rc, out = replay_pbt(exe, path, known_ids)
                ok = (0, 2, 3)
                if rc not in ok and any(replay_pbt(exe, path, known_ids)[0] in ok for _ in range(2)):
                    rc = 0
            else:
                unit = next((u for u in spec["units"] if u["kind"] == "fuzz" and name.startswith(os.path.basename(u["src"])[:-4] + "-")), None)
                if unit is None or (tier == "quick" and unit.get("thorough_only")):
                    continue
                exe = build_unit(unit, "fuzz")
                rc, out = replay_fuzz(exe, path, known_ids)
                ok = (0,)
                if rc not in ok and any(replay_fuzz(exe, path, known_ids)[0] in ok for _ in range(2)):
                    rc = 0
                sub = prop + ".fuzz." + os.path.basename(unit["src"])[:-4]
            regress["replayed"] += 1
            if rc == 0:
                regress["passed"] += 1
            elif rc == 3 and name.endswith(".json"):
                regress["known"] += 1
            elif rc == 2 and name.endswith(".json"):
                regress["skipped"] += 1
            else:
                violations.append(dict(sub=sub or "?", replay=path, msg="regression record fails again: " + str(out)[-800:]))

    # known findings: the fixed probe input of each listed finding is replayed; while it still fails the
    # KNOWN-FINDING line is printed.  Generated cases inside a finding's region are counted in `met`.
    met = {}
    for s in all_subs:
        for kid, n in s.get("known", {}).items():
            met[kid] = met.get(kid, 0) + n
    probe_state = {}
    for k in known:
        state = "no-probe"
        if k.get("probe") and not only:
            for unit in spec["units"]:
                if unit["kind"] != "pbt":
                    continue
                exe = build_unit(unit, unit.get("flavour", "num"))
                lst = json.loads(run([exe, "list"]).stdout)
                if not any(x["sub"] == k["probe"]["sub"] for x in lst):
                    continue
                pdir = os.path.join(BUILD, "tmp")
                os.makedirs(pdir, exist_ok=True)
                pf = os.path.join(pdir, "probe-%s-%d.json" % (k["id"], os.getpid()))
                with open(pf, "w") as fh:
                    json.dump(dict(sub=k["probe"]["sub"], rec=k["probe"]["rec"]), fh)
                rc, out = replay_pbt(exe, pf, known_ids, timeout=int(k["probe"].get("timeout_s", 120)))
                os.remove(pf)
                state = "still-fails" if rc == 3 else ("passes-now" if rc == 0 else "unexpected rc=%s: %s" % (rc, out[-300:]))
                break
        probe_state[k["id"]] = state
        if state == "still-fails" or met.get(k["id"], 0) > 0:
            print("KNOWN-FINDING: property=%s %s [%s; probe %s; %d generated cases inside its region]" % (
                prop, k["what"], k["id"], state, met.get(k["id"], 0)))
        elif state == "passes-now" and met.get(k["id"], 0) == 0:
            notes.append("known finding %s: probe input no longer fails (entry can be moved to 'fixed')" % k["id"])
        elif state.startswith("unexpected"):
            notes.append("known finding %s: probe %s" % (k["id"], state))

    evals = sum(s.get("evaluations", 0) for s in all_subs)
    distinct = sum(s.get("distinct_nontrivial", 0) for s in all_subs)
    samples = []
    for s in all_subs:
        for smp in s.get("samples", [])[:3]:
            samples.append(dict(sub=s["sub"], case=smp))
    rule = " ;; ".join("%s: %s" % (s["sub"], s.get("rule", "")) for s in all_subs)
    harness_broken = [d for d in discarded if d["why"].startswith("harness failure")]
    ev = dict(property_id=prop, tier=tier, seed=seed, level="exploration",
              coverage=dict(evaluations=evals, distinct_nontrivial=distinct, rule=rule, samples=samples[:40],
                            subchecks=[{k: v for k, v in s.items() if k != "samples"} for s in all_subs],
                            units=units_info, inconclusive_notes=notes, flaky_discarded=discarded,
                            known_findings_met=met, known_probe_state=probe_state, regression_replays=regress,
                            exhaustive=bool(all_subs) and all(s.get("exhaustive") is True for s in all_subs)),
              assumptions=spec.get("assumptions", []), wall_s=round(time.time() - t0, 2), violations=len(violations),
              tree=tree_hash())
    os.makedirs(os.path.join(VERIF, "evidence"), exist_ok=True)
    with open(os.path.join(VERIF, "evidence", prop + ".json"), "w") as f:
        json.dump(ev, f, indent=1)
    for s in all_subs:
        log("  %-28s evals=%-9d nontrivial-distinct=%-9d skipped=%-7d max_ratio=%.3g (%s)" % (
            s["sub"], s.get("evaluations", 0), s.get("distinct_nontrivial", 0), s.get("skipped", 0),
            s.get("max_ratio", 0), s.get("max_ratio_rel", "")))
    for n in notes:
        log("  note:", n)
    for d in discarded:
        log("  discarded:", json.dumps(d)[:600])
    log("%s %s: %d evaluations, %d distinct non-trivial, %d violations, %.1fs" % (
        prop, tier, evals, distinct, len(violations), time.time() - t0))
    for v in violations:
        log("  violation %s: %s" % (v["sub"], v["msg"][:600]))
        print("VIOLATION property=%s replay=%s" % (prop, v["replay"]))
    if violations:
        return 1
    if harness_broken:
        log("harness failure (not a verdict on the property)")
        return 2
    return 0


if __name__ == "__main__":
    sys.exit(main())
