#!/usr/bin/env python3
"""Regenerates MANIFEST.json from the table below (keeps it schema-valid at all times)."""
import json, os
HERE = os.path.dirname(os.path.abspath(__file__))
BASELINE = ("cmake -S /repo -B /tmp/vf_baseline_build -G Ninja -DCMAKE_BUILD_TYPE=Release >/dev/null && "
            "cmake --build /tmp/vf_baseline_build -j16 >/dev/null && cmake --build /tmp/vf_baseline_build --target testprograms -j16 >/dev/null && "
            "ctest --test-dir /tmp/vf_baseline_build -j8 --timeout 900; rc=$?; rm -rf /tmp/vf_baseline_build; exit $rc")
# property -> (engine, technique, level text, level note, design ref)
CHECKS = {
 "C02": ("rapidcheck", "property-based testing: the returned azimuth/distance is followed by an independent geodesic-ODE reference and must land on point 2; shortest-path criteria on the reference track; metamorphic symmetries; differential series/exact; triangle inequality",
         "Generated-input exploration with singular sets over-weighted (astroid region, meridional, equatorial, polar, near-coincident, lat1=-lat2 +- ulps). Every inverse solution is validated against the definition (it joins the points, arc <= 180, longitude extent <= 180) by a reference sharing no code with the solvers.",
         "Trusts the ODE reference (self-checked per case), tolerances = 2x documented accuracy (4x beyond |f| = 0.5), azimuth relations conditioned by 1/|m12|. Known finding G1 (nearly equatorial, near-conjugate pairs on |f| >= 0.19 ellipsoids) is excluded by region and reported as KNOWN-FINDING.",
         "DESIGN.md section 3/C02"),
 "C03": ("rapidcheck", "property-based testing against Jacobi-equation and area-integral solutions of the geodesic-ODE reference; metamorphic reversal and addition rules; differential series/exact; Gauss-Bonnet on the sphere; closed-form ellipsoid area",
         "Generated-input exploration: m12, M12, M21, S12 from direct, arc-direct, line and inverse interfaces of all three solver configurations are compared with the quantities' definitions (variational equation, area between the segment and the equator) integrated independently.",
         "Trusts the ODE reference (area integrand regularised analytically at the poles), tolerance law of DESIGN section 2 incl. the end-point conditioning term c2*tan(phi)/nu*position tolerance; lines passing within 1 m of the axis are compared modulo pi*c2.",
         "DESIGN.md section 3/C03"),
 "C12": ("rapidcheck + enumeration", "property-based testing with exhaustive enumeration of the output-mask and capability dimensions per generated geodesic; differential against the ALL-mask call; sentinel bit patterns for untouched outputs",
         "For each generated geodesic/rhumb line all 2^7 (2^5 for rhumb) output-bit subsets x LONG_UNROLL and all 2^8 capability subsets are executed; requested outputs must equal the ALL-mask values to round-off and everything else must keep its sentinel bit pattern. Line self-consistency (arc vs distance addressing, third point) uses the documented accuracy.",
         "The values themselves are tied to the definitions by C01-C03/C09; here the oracle is the library's own ALL-mask result, which is what the property states. Geodesics are sampled, masks are exhaustive.",
         "DESIGN.md section 3/C12"),
 "C08": ("rapidcheck (stateful / model-based)", "model-based property testing over generated edit histories: in-harness vertex-list model with an independent area assembly (per-edge area and unrolled longitude from the geodesic-ODE reference, winding number instead of crossing parity); bit-identical state checks for tentative queries and Clear; metamorphic relations on vertex lists",
         "Histories of Clear/AddPoint/AddEdge/TestPoint/TestEdge/Compute/CurrentPoint are generated as values (so the whole history shrinks), run against PolygonArea, PolygonAreaExact and PolygonAreaRhumb (polygon and polyline), and compared with the model after every step; separate metamorphic sub-check for start vertex, orientation, flags, longitude shifts and diagonal cuts.",
         "Precondition of the property (unique shortest edges) is enforced by the model, which refuses nearly antipodal / pole-crossing edges (counted, not judged). Rhumb edges use the library's per-edge Rhumb results (validated by C09); only the assembly is independent there. Negative edge lengths are not generated (undocumented input).",
         "DESIGN.md section 3/C08"),
 "C18": ("rapidcheck + enumeration + libFuzzer", "property-based testing against independent cell decoders in exact rational arithmetic; complete enumeration of all low-precision codes; coverage-guided fuzzing of the decoders with a reference acceptor and Forward(Reverse) oracle inside the target",
         "Containment of the position in the decoded cell is decided exactly (2-ulp band only around non-representable cell edges), alphabets, prefix property, centre/SW-corner decoding, case-insensitivity and rejection of malformed strings are checked for Geohash, GARS, Georef and OSGB; all Geohash codes up to length 3, all Georef 2/4-letter tiles, all OSGB pairs and the GARS tiles x suffixes are enumerated.",
         "Reference cell models (ref/grid.hpp) written from the headers' descriptions; 'outputs untouched on throw' is asserted from the property text. Fuzz campaigns are seeded (approximately reproducible); artifacts are the reproducible unit.",
         "DESIGN.md section 3/C18"),
 "C05": ("rapidcheck + enumeration + libFuzzer", "property-based testing against an independent MGRS model (own letter tables, exact digit truncation from the exact value of the double, geometric block legality); exhaustive enumeration of every zone/band/column/row combination; fuzzing of MGRS::Reverse",
         "Forward strings must be among the reference candidates (exact floor(1e6 x) digits, prefix property exact), letters and band per the certified latitude, round trips exact for prec <= 5; all 1 353 352 zone x letter combinations are judged for acceptance against geometry.",
         "Latitudes used for band classification are certified by an independent forward map (order-30 Krueger series / closed-form polar stereographic) with a 10 nm guard band. Lower-case input acceptance is not judged (header silent).",
         "DESIGN.md section 3/C05"),
 "C16": ("rapidcheck + exhaustive enumeration", "property-based testing against exact rational arithmetic (boost cpp_rational) and 50-digit references after exact argument reduction; complete enumeration of all 2^32 floats for the one-argument functions (thorough tier; stratified in quick); stateful op sequences for Accumulator vs the exact rational sum",
         "AngNormalize, AngDiff (exact identity d+e == y-x mod 360), sind/cosd/tand/sincosd/sincosde, atan2d/atand, LatFix/AngRound, eatanhe/taupf/tauf, Math::sum and Accumulator are compared with exact or 50-digit values; errors are measured in ulps of the result type including subnormal spacing.",
         "Known finding C16-tauf-noconv (es > 0.99 or es < -3) is excluded by region for the tauf relations only. The float enumeration uses a long double reference cross-checked against the 50-digit one on 1 pattern in 257.",
         "DESIGN.md section 3/C16"),
 "C04": ("rapidcheck + exhaustive enumeration", "property-based testing against an independent zone table and an independent Gauss-Krueger / polar-stereographic reference; exhaustive enumeration of all zone strings up to length 4 and all EPSG codes in [32000,33000]; sentinel checks on throw",
         "StandardZone, Forward, Reverse, acceptance rectangles (on, +-1 ulp, +-5 nm, +-1 km of every edge), Transfer, EncodeZone/DecodeZone, EPSG and the error contract are checked; 556 097 string/code cases are enumerated completely.",
         "Inputs within 5 nm of a rectangle edge are classed 'edge' (no-crash only). Reference projection ref/tm.hpp (definitional continuation + order-30 Krueger series, mutually validated to 0.022 nm).",
         "DESIGN.md section 3/C04"),
 "C06": ("rapidcheck", "property-based testing against an independent reference Gauss-Krueger mapping: (a) analytic continuation of the meridian distance by complex quadrature and (b) the order-30 Krueger series from a frozen table, compared with each other on every case; analytic derivative for convergence and scale; bit-exact parities and wraps",
         "Forward vs reference, Reverse/Forward round trips, series vs exact vs exact=true delegation, central meridian, gamma/k vs the analytic derivative, parities, longitude wrap, poles, far side, extendp, UTM singletons; tolerance = 2 x (documented 5 nm / 8 nm + computed truncation tail of the 6th-order series).",
         "Known finding C06-exact-reverse-large-f (TransverseMercatorExact::Reverse for f > 0.05) is excluded for Reverse relations only. Where the 6th-order series has diverged (tail >= 1 m) nothing but no-crash is asserted.",
         "DESIGN.md section 3/C06"),
 "C17": ("rapidcheck (incl. model-based brute force)", "property-based testing: projections against the geodesic-ODE reference (position, arrival azimuth, Jacobi fields m12/M12); intersections validated by following both lines with the ODE, minimality against the lattice of conjugate intersections, structural checks of Next/Segment/All; nearest-neighbour search against a brute-force scan incl. Save/Load round trips",
         "AzimuthalEquidistant, Gnomonic and CassiniSoldner are tied to their defining geodesic constructions by an independent integrator; Intersect results must be genuine intersections with the documented indicators; NearestNeighbor must reproduce the multiset of the k smallest distances of a linear scan for four metrics with many ties.",
         "Intersect minimality is not decided by a brute-force scan of all intersections (cost) but against the lattice of the other intersections of two nearly-closed geodesics, with a margin for the ellipsoidal deformation; tangential intersections are only checked for validity.",
         "DESIGN.md section 3/C17"),
 "C10": ("rapidcheck + libFuzzer", "property-based testing with a grammar generator of valid DMS strings that computes the expected value while generating, a three-valued reference acceptor for mutated strings, round trips through every formatter/parser pair (DMS, Utility, GeoCoords), tools run in-process on generated line sequences; coverage-guided fuzzing of DMS::Decode, GeoCoords, Utility and the GeoConvert/GeodSolve/RhumbSolve line loops with semantic oracles inside the targets",
         "Decode(Encode(v)) within half a unit of the last digit, normal form of Encode output, all documented input forms (98 grammar production classes) with their meaning, rejection of malformed strings with untouched outputs, GeoCoords representations re-read to the same position/zone, tools: one output line per input line, ERROR marking and exit status.",
         "The reference acceptor marks forms the header leaves unspecified as UNSPEC (not judged). Fuzz campaigns are approximately reproducible; artifacts are the reproducible unit.",
         "DESIGN.md section 3/C10"),
 "C13": ("rapidcheck + libFuzzer (ASan/UBSan)", "registry-driven property testing of ~490 public entry points under ASan+UBSan in a persistent worker process: constructor validation, executable NaN-dependence contract, throw safety with sentinels, complete single-argument special-value sweep plus random pairs/triples with hang detection; coverage-guided fuzzing of all parsers and of geoid/magnetic/gravity/coefficient/nearest-neighbour data files (structure-aware and raw)",
         "Every registry row is called with NaN, infinities, signed zeros, denormals, huge values and angle edge values in every argument position; outputs that move when an argument is varied must be NaN when it is NaN; validating functions may only throw GeographicErr/bad_alloc and must leave outputs untouched; data-file loaders must reject or load corrupt files without UB.",
         "UB that no sanitizer instruments (e.g. toupper of a negative char) and hangs shorter than the stall limit are out of reach. An output that no probe moved may become NaN (0 x NaN) without failing; it fails only if it changes to a different number.",
         "DESIGN.md section 3/C13"),
 "C14": ("generated concurrent workloads under ThreadSanitizer", "seed-determined multi-threaded workloads (2-16 threads, const calls on shared singletons first touched after a start barrier, fresh shared solver/projection/model objects, thread-safe Geoid) run under ThreadSanitizer; every call's outputs are hashed and compared bit for bit with the same workload executed sequentially",
         "Data races are detected by TSan's happens-before analysis (largely schedule independent); value corruption shows as a hash difference against the solo run. 1500 workloads (quick), 6000 incl. sched_yield storms (thorough), one fresh process each.",
         "Interleavings are not enumerated: a corruption that needs one precise schedule and involves no detectable race is not decided. Objects documented as not thread-safe are not shared.",
         "DESIGN.md section 3/C14"),
 "C07": ("rapidcheck", "property-based testing against 50-digit closed forms (boost cpp_bin_float_50): forward conversion, completeness of Reverse over 40 orders of magnitude with every regime of the solver populated, least-|h| by a 50-digit scan of the normal-foot equation, rotation matrices vs the east/north/up frame, LocalCartesian vs the rigid motion R0^T (G - G0)",
         "Every finite (X,Y,Z) class (centre, axis, equatorial plane, singular disc, evolute, far field, denormals, overflowing hypot) is generated; the reverse result must re-project to the input within 2 x (7 nm a/a0 + 4 eps |r|); documented err_h/err_out/err_in for geophysical heights.",
         "Beyond |f| = 0.02 the re-projection tolerance carries a calibrated factor ((a/b)^0.75 oblate, (b/a)^1.5 prolate). Reference ref/mp.cpp self-tested.",
         "DESIGN.md section 3/C07"),
 "C11": ("rapidcheck", "property-based testing against Snyder's closed forms evaluated with 50/100-digit arithmetic: forward values, round trips, scale on the standard parallels, origin latitude / central scale, Jacobian by 4th-order finite differences (conformality, equal area incl. a rectangle-area shoelace test), constructor equivalence, limits, hemisphere symmetry",
         "Polar stereographic, Lambert conformal conic and Albers equal area over single, nearly equal, symmetric, polar and southern parallel pairs, the sin/cos constructors down to cos = 1e-300, prolate/sphere/oblate ellipsoids; position tolerance 2 x 10 nm scaled by the local stretch.",
         "Three open known findings (C11-lcc-reverse-k-nearpolar, C11-albers-origin-nearpole, C11-albers-reverse-overflow) are excluded by region. Albers has no documented accuracy: calibrated round-off law. LCC pairs outside the domain stated in its header are skipped.",
         "DESIGN.md section 3/C11"),
 "C01": ("rapidcheck", "property-based testing against an independent long-double geodesic-ODE reference; differential across 8 solver/line configurations; metamorphic reversal",
         "Generated-input exploration: every generated direct problem is compared with a reference that integrates the geodesic equation itself (no series, no auxiliary sphere), to 2x the documented accuracy for the flattening. Exploration is the right level: the property quantifies over a continuum of inputs and an executable oracle exists.",
         "Trusts: the reference ODE integrator (self-checked per case by step halving, constraint projection), x87 long double, the tolerance formulas of DESIGN section 2 (2x documented accuracy, scaled by length in quarter circuits). Errors below the documented accuracy are not violations.",
         "DESIGN.md section 3/C01"),
 "C19": ("rapidcheck", "property-based testing against independent 50-digit (spherical harmonics: un-normalised Ferrers recurrences + Cunningham gradient) and 100-digit (normal gravity: Heiskanen-Moritz closed forms) references; synthetic coefficient sets and synthetic WMM/EGM-format model files generated per case; metamorphic truncation (higher terms zeroed), Circle == direct evaluation, gradient vs difference quotient, Laplace / Somigliana identities",
         "SphericalHarmonic/1/2 value and gradient (both normalisations, axis and near-axis points, N up to 60 in quick and 360 in thorough), CircularEngine incl. polar circles, degree/order limits, MagneticModel/MagneticCircle and GravityModel/GravityCircle built from generated files (V, W, U, T, delta, Gravity, Disturbance, SphericalAnomaly, GeoidHeight, field components and rates), NormalGravity (U0, gradients, J_n, J2 <-> f) are compared with the references under a conditioning law tol = k eps G(n) Sum|terms|.",
         "Reference self-tests (orthonormality, Euler identity, Laplace residual) in ref/*_selftest.cpp; per-case Euler identity guards the reference. Terms below the library's 2^-614 scaling floor are covered by an absolute floor (not judged). Real model data sets are not available offline: synthetic files exercise the same code paths.",
         "DESIGN.md section 3/C19"),
 "C20": ("rapidcheck (stateful / model-based)", "property-based testing on generated PGM rasters against an independent long-double bilinear / 12-point least-squares cubic reference; structural relations (node values bit-exact, affine along edges, continuity across cells, longitude periodicity, cubic reproduction, pole independence of longitude, NaN propagation); model-based histories of cache operations and queries compared bit-for-bit with a fresh uncached object, a CacheAll object and a threadsafe object; single-field header/body corruptions must be rejected",
         "Rasters of many widths/heights/offsets/scales incl. every header variant are written per case; histories of up to 60 operations (CacheArea incl. date-line wraps, CacheAll, CacheClear, height queries, ConvertHeight) check every query against the reference and against three differently cached objects, plus the cache inspectors after every step.",
         "The cubic stencil weights are re-derived per query from the normal equations (no library table copied). Real geoid data sets are not available offline; synthetic rasters in the documented format exercise the same reader.",
         "DESIGN.md section 3/C20"),
 "C09": ("rapidcheck", "property-based testing against an independent 50-digit rhumb reference (defining expressions: meridian-arc difference, isometric-latitude difference, parallel-circle length, area integral by quadrature); round trips Direct(Inverse) / Inverse(Direct); shortest-course and tie rules; pole crossings; differential series vs exact for |f| <= 0.01; RhumbLine == Direct; LONG_UNROLL",
         "Inverse, Direct and RhumbLine::Position of both variants over b/a in [0.01, 100], nearly east-west and nearly meridional courses, nearby points (divided-difference regime, down to 1-ulp latitude differences), distances beyond the poles, with every quantity conditioned by its sensitivity to the rounding of the inputs.",
         "Known finding C09-pole-endpoint-nonfinite (pole end points documented as finite) excluded in C09.e only. Two defects found by this check were repaired (DParametric 0/0, DE near the equator for f < 0).",
         "DESIGN.md section 3/C09"),
 "C15": ("rapidcheck + enumeration", "property-based testing against 50-digit references: closed forms and defining integrals of the six auxiliary latitudes (all 36 pairs x series/exact), ellipsoid measures by quadrature, elliptic integrals vs Boost.Math and vs the defining integrals, Jacobi functions vs the inverse of the quadrature F; round trips, oddness (bit exact), monotonicity, fixed points; series vs exact for |f| <= 1/150; Carlson symmetry/homogeneity; reference self-validation enumerated on a grid in every run",
         "Tangents from denormal to overflow, +-90, all b/a in [0.01, 100]; k2 in (-1e6, 1] incl. the complementary-parameter constructor, alpha2 in (-1e4, 1], arguments over many periods, (sn,cn,dn) triples incl. cardinal ones; all non-negative Carlson arguments incl. equal/zero ones.",
         "Five open known findings (C15-isometric-pole-inf, C15-RJ-cancellation, C15-carlson-range, C15-am-near-k1, C15-G-alpha2-k2-rounded) are excluded by parameter region; six defects found by this check were repaired. n^6 series coefficients changed by < ~10 % of the top-order term are below 1 ulp on the admitted ellipsoids and cannot be seen.",
         "DESIGN.md section 3/C15"),
}
NOT_YET = {}
props = [json.loads(l) for l in open(os.path.join(HERE, "properties.jsonl"))]
checks, na = [], []
for p in props:
    pid = p["id"]
    if pid in CHECKS and os.path.exists(os.path.join(HERE, "props", pid + ".spec.json")):
        eng, tech, text, note, ref = CHECKS[pid]
        checks.append(dict(property_id=pid, quick_cmd="python3 check.py %s --tier quick" % pid,
                           thorough_cmd="python3 check.py %s --tier thorough" % pid,
                           evidence_file="evidence/%s.json" % pid,
                           replay_cmd_template=("python3 units/c14_tsan.py --replay {path}" if pid == "C14" else "python3 check.py %s --replay {path}" % pid),
                           engine=eng, technique=tech,
                           level_claimed=dict(category="exploration", text=text, design_ref=ref), level_note=note))
    else:
        na.append(dict(property_id=pid, reason=NOT_YET.get(pid, "check not built yet in this round (planned in DESIGN.md section 3/%s); not claimed until its machinery exists and is calibrated" % pid)))
m = dict(version=1, setup_cmd="python3 setup.py",
         hooks=dict(guard="GEOGRAPHICLIB_VERIF", enable="checks compile /repo/src directly with -DGEOGRAPHICLIB_VERIF=1 (no hook code exists; the define is reserved)",
                    baseline_off_cmd=BASELINE, source_commits=[], add_only=True),
         engines=[dict(name="check.py", path="check.py", serves_properties=[c["property_id"] for c in checks],
                       kind_free_text="driver: builds /repo/src per flavour (g++ -O2 / clang ASan+UBSan / libFuzzer / TSan), runs rapidcheck property binaries in 16 shards and libFuzzer targets, replays failures 3x, writes evidence"),
                  dict(name="fw/harness.hpp", path="fw/harness.hpp", serves_properties=[c["property_id"] for c in checks],
                       kind_free_text="rapidcheck-based harness: generator + pure check(record) sub-checks, shrinking + numeric simplification, replay files, class histograms, distinct non-trivial counting")],
         checks=checks, not_applicable=na,
         notes="All checks rebuild the library from /repo's working tree (cache keyed by a hash of src/include/tools). VERIF_SEED selects the rapidcheck/libFuzzer seeds; runs are deterministic for rapidcheck units.")
json.dump(m, open(os.path.join(HERE, "MANIFEST.json"), "w"), indent=1)
print("MANIFEST.json: %d checks, %d not_applicable" % (len(checks), len(na)))
