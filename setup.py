#!/usr/bin/env python3
"""MANIFEST.setup_cmd: verify the offline toolchain and warm the caches (library flavours for the
current tree).  Everything a check needs is rebuilt on demand by check.py as well."""
import os, shutil, subprocess, sys
HERE = os.path.dirname(os.path.abspath(__file__))
need = ["g++", "clang++", "ar"]
for t in need:
    if not shutil.which(t):
        sys.exit("setup: missing tool " + t)
for hdr in ["/usr/include/rapidcheck.h", "/usr/include/boost/multiprecision/cpp_bin_float.hpp"]:
    if not os.path.exists(hdr):
        sys.exit("setup: missing header " + hdr + " (oracles do not fall back to weaker ones)")
os.makedirs(os.path.join(HERE, "build"), exist_ok=True)
os.makedirs(os.path.join(HERE, "evidence"), exist_ok=True)
r = subprocess.run([sys.executable, os.path.join(HERE, "check.py"), "--build-only", "num", "san", "fuzz", "tsan"])
sys.exit(r.returncode)
