// C04 — UTM/UPS: zone rules, ranges, closure, transfer, zone strings / EPSG, error contract (DESIGN 3/C04)
//
// Oracles: R-GRID zone table written from UTMUPS.hpp's text (below), R-TM (ref/tm.hpp) with the documented
// numbers a = 6378137, f = 1/298.257223563, k0 = 0.9996 for UTM, closed-form long-double polar stereographic with
// k0 = 0.994 for UPS, documented false origins (500 km; 0 / 10 000 km; UPS 2000 km) and the documented rectangles.
//
// Sub-checks: a StandardZone = table (exact)   b Forward zone/x/y/gamma/k vs reference (2 x 5 nm, + series tail beyond 35 deg)
//   c acceptance = documented closed rectangles (Forward: within 5 nm of an edge = class "edge", no-crash only)
//   d closure / round trips (2 x 5 nm each way)   e Transfer = Forward(Reverse) + 10 000 km shift   f zone strings / EPSG
//   (EXHAUSTIVE enumeration: 551 881 strings of length <= 4 over 27 characters, case variants of the documented words,
//   EPSG 32000..33000, zones -10..70)   g only GeographicErr, outputs untouched after a throw, NaN -> INVALID / NaN
//
// Defects found by these checks (both FIXED in /repo, no guards left):
//   C04-transfer-samezone-nocheck   findings/C04-transfer-samezone-nocheck.md   fixed by 75d8ba3
//   C04-forward-dlon60-asymmetric   findings/C04-forward-dlon60-asymmetric.md   fixed by 4c5dacb
//
// SENSITIVITY (scratch copy of /repo, VERIF_REPO=/tmp/mutC06, quick tier, seed 1; all caught; "subs" = reporting sub-checks)
//   U1  StandardZone (ilon+186)/6 -> (ilon+185)/6 (off by one at every zone edge)   a b c
//   U2  drop the `ilon == 180` fold                                                 a b c d
//   U7  Norway  ilon >= 3 -> ilon > 3                                               a b c
//   U8  Svalbard ilon < 42 -> ilon <= 42                                            a b c
//   U12 UTM/UPS edge lat < 84 -> lat <= 84                                          a b c
//   U3  false northing S 10 000 km -> 9 900 km                                      b c d e
//   U15 central meridian 6 zone - 183 -> 6 zone - 180                               b c d
//   U4  CheckCoords x < min -> x <= min                                             c d
//   U14 CheckCoords y > max -> y >= max                                             c d
//   U5  `zone = zone1` before CheckCoords in Forward                                b c d g
//   U13 `y = y1` before CheckCoords in Forward                                      b c d g
//   U6  StandardZone: isnan(lon) test removed                                       a (UBSan: NaN -> int, process abort)
//   U9  Transfer hemisphere shift sign                                              e
//   U10 DecodeZone accepts 3 digits ("001s")                                        f
//   U11 DecodeEPSG epsg <= 32660 -> <                                               f
//
#include "fw/harness.hpp"
#include "gen/geo.hpp"
#include "ref/tm.hpp"

#include <GeographicLib/UTMUPS.hpp>

#include <cstring>

using namespace GeographicLib;
using vf::J; using vf::Verdict;
typedef long double L;

namespace {

const L EPS = 2.220446049250313e-16L;
const L ARCSEC = 1 / 3600.0L;
const double WA = 6378137.0, WF = 1 / 298.257223563;
const rtm::TM& utm_ref() { static rtm::TM t(WA, WF, 0.9996L); return t; }

// ------------------------------------------------------------------------------------------ R-GRID: zone table
// UTMUPS.hpp: zones are 6 degrees wide, numbered 1..60 from 180W, "closed on the lower end, open on the upper"
// (zone 38: [42,48)); UPS (zone 0) for latitudes not in [-80,84); Norway: band V [56,64) x [3,6) -> 32;
// Svalbard: band X [72,84): [0,9) -> 31, [9,21) -> 33, [21,33) -> 35, [33,42) -> 37.
// zonespec: >= 0 and INVALID(-4) returned as is; STANDARD(-1); UTM(-2) = UTM rules at every latitude; MATCH(-3) = STANDARD
// when there is no zone information; NaN lat/lon -> INVALID; outside [-4,60] -> GeographicErr.
// Returns: -100 = must throw; otherwise the zone; alt = second acceptable answer (or same)
int ref_zone(double lat, double lon, int setzone, int* alt) {
  *alt = -100;
  if (!(setzone >= -4 && setzone <= 60)) return -100;
  if (setzone >= 0 || setzone == -4) return *alt = setzone;
  if (std::isnan(lat) || std::isnan(lon)) return *alt = -4;
  bool utm = setzone == -2 || (lat >= -80 && lat < 84);
  if (!utm) return *alt = 0;
  double l = std::remainder(lon, 360.0);      // exact; in [-180, 180]
  if (l == 180) l = -180;
  int z = 0;
  for (int k = 1; k <= 60; ++k) if (l >= -180 + 6 * (k - 1) && l < -180 + 6 * k) z = k;
  int plain = z;
  if (lat >= 56 && lat < 64 && l >= 3 && l < 6) z = 32;
  if (lat >= 72 && (lat < 84 || setzone == -2)) {
    if (l >= 0 && l < 9) z = 31; else if (l >= 9 && l < 21) z = 33; else if (l >= 21 && l < 33) z = 35; else if (l >= 33 && l < 42) z = 37;
  }
  // UTM(-2) "extending the UTM zone to each pole": whether the Svalbard widening extends beyond 84 is not stated
  *alt = (lat >= 84 && setzone == -2) ? plain : z;
  return z;
}

// documented rectangles [m]; ind: 0 UPS S, 1 UPS N, 2 UTM S, 3 UTM N
struct Rect { double x0, x1, y0, y1; };
Rect rect(bool utmp, bool northp, bool mgrs) {
  Rect r;
  if (utmp) { r.x0 = 0; r.x1 = 1000e3; if (northp) { r.y0 = -9100e3; r.y1 = 9600e3; } else { r.y0 = 900e3; r.y1 = 19600e3; } }
  else if (northp) { r.x0 = r.y0 = 1200e3; r.x1 = r.y1 = 2800e3; }
  else { r.x0 = r.y0 = 700e3; r.x1 = r.y1 = 3300e3; }
  if (mgrs) { r.x0 += 100e3; r.y0 += 100e3; r.x1 -= 100e3; r.y1 -= 100e3; }
  return r;
}
bool inside(const Rect& r, L x, L y, L margin) { return x >= r.x0 + margin && x <= r.x1 - margin && y >= r.y0 + margin && y <= r.y1 - margin; }
bool outside(const Rect& r, L x, L y, L margin) { return x < r.x0 - margin || x > r.x1 + margin || y < r.y0 - margin || y > r.y1 + margin; }
bool inside_closed(const Rect& r, double x, double y) { return x >= r.x0 && x <= r.x1 && y >= r.y0 && y <= r.y1; }

// ------------------------------------------------------------------------------------------ sentinels (C04.g)
const uint64_t SENT_BITS = 0x7ff8dead0000beefULL;
double sent() { double d; std::memcpy(&d, &SENT_BITS, 8); return d; }
bool is_sent(double d) { uint64_t b; std::memcpy(&b, &d, 8); return b == SENT_BITS; }
const int SENT_I = -1234567;

struct FwdOut { bool threw = false, foreign = false; int zone = SENT_I; bool northp = false; double x = 0, y = 0, g = 0, k = 0; bool untouched = true; std::string what; };
FwdOut lib_forward(double lat, double lon, int setzone, bool mgrs) {
  FwdOut o;
  for (int pass = 0; pass < 2; ++pass) {       // second pass (only after a throw) with the other bool sentinel
    int zone = SENT_I; bool northp = pass == 0; double x = sent(), y = sent(), g = sent(), k = sent();
    try { UTMUPS::Forward(lat, lon, zone, northp, x, y, g, k, setzone, mgrs); o.threw = false; }
    catch (const GeographicErr& e) { o.threw = true; o.what = e.what(); }
    catch (...) { o.threw = true; o.foreign = true; }
    if (!o.threw) { o.zone = zone; o.northp = northp; o.x = x; o.y = y; o.g = g; o.k = k; return o; }
    if (!(zone == SENT_I && northp == (pass == 0) && is_sent(x) && is_sent(y) && is_sent(g) && is_sent(k))) o.untouched = false;
  }
  return o;
}
struct RevOut { bool threw = false, foreign = false; double lat = 0, lon = 0, g = 0, k = 0; bool untouched = true; };
RevOut lib_reverse(int zone, bool northp, double x, double y, bool mgrs) {
  RevOut o; double lat = sent(), lon = sent(), g = sent(), k = sent();
  try { UTMUPS::Reverse(zone, northp, x, y, lat, lon, g, k, mgrs); }
  catch (const GeographicErr&) { o.threw = true; }
  catch (...) { o.threw = true; o.foreign = true; }
  if (o.threw) o.untouched = is_sent(lat) && is_sent(lon) && is_sent(g) && is_sent(k);
  else { o.lat = lat; o.lon = lon; o.g = g; o.k = k; }
  return o;
}
struct ZoneOut { bool threw = false, foreign = false; int zone = SENT_I; bool northp = false; bool untouched = true; };
ZoneOut lib_decode(const std::string& s) {
  ZoneOut o;
  for (int pass = 0; pass < 2; ++pass) {
    int zone = SENT_I; bool northp = pass == 0;
    try { UTMUPS::DecodeZone(s, zone, northp); o.threw = false; }
    catch (const GeographicErr&) { o.threw = true; }
    catch (...) { o.threw = true; o.foreign = true; }
    if (!o.threw) { o.zone = zone; o.northp = northp; return o; }
    if (!(zone == SENT_I && northp == (pass == 0))) o.untouched = false;
  }
  return o;
}

// ------------------------------------------------------------------------------------------ reference projection
struct RefP { bool ok; const char* why; L x, y, g, k; L tolxy, tolg, tolk; L dlon; bool south_zero; };
// zone > 0: UTM zone; 0: UPS.  northp = hemisphere used for the false northing / UPS pole.
RefP ref_project(int zone, bool northp, double lat, double lon) {
  RefP r; r.ok = false; r.why = ""; r.south_zero = false; r.dlon = 0;
  if (zone > 0) {
    const rtm::TM& T = utm_ref();
    L lon0 = 6.0L * zone - 183;
    L dlon = remainderl((L)lon - lon0, 360.0L); r.dlon = dlon;
    rtm::Out o = T.forward(lat, dlon);
    if (!o.ok) { r.why = o.why; return r; }
    rtm::SeriesOut s = T.forward_series(lat, dlon);
    if (s.ok && s.tail30 < 1e-12L && hypotl(o.x - s.x, o.y - s.y) > 1e-10L * (1 + o.k) + 4 * s.tail30 + 2 * o.err) { r.why = "oracle-disagree"; return r; }
    if (!(s.tail6 < 1.0L)) { r.why = "6th-order series diverged here (>1 m tail): nothing documented"; return r; }
    r.x = o.x + 500000.0L; r.y = o.y + (northp ? 0 : 10000000.0L); r.g = o.gamma; r.k = o.k;
    // "The accuracy of the conversion is about 5nm" (UTMUPS.hpp), K = 2; TransverseMercator.hpp restricts the 5 nm to
    // 35 degrees from the central meridian, beyond that the computed truncation tail of the 6th-order series is added
    // (setzone may put a point up to 60 degrees away).  + half an ulp of the results (y carries the 10 000 km shift)
    L ground = 2 * 5e-9L;
    r.tolxy = o.k * ground + 2 * s.tail6 + 2 * o.err + EPS * (fabsl(r.x) + fabsl(r.y));
    L th = (90 - (L)std::fabs(lat)) * rtm::DEG, ncos = std::max(T.Ncos(th), 1e-300L);
    // gamma/k "are those of the underlying projection": same law as C06 (documented 2e-15", 6e-12 %, plus round-off/conditioning)
    L g = 8 * EPS * (1 + o.cond) * (1 + fabsl(o.gamma) * rtm::DEG) + 2 * ground / ncos + 2 * s.dtail6 + 8 * EPS * s.amp;
    r.tolg = 2 * 2e-15L * ARCSEC + g / rtm::DEG;
    r.tolk = 2 * 6e-14L + EPS * (12 * (1 + o.cond) + 0.4L * o.cond * o.cond) + 2 * ground / T.a + 2 * s.dtail6 + 8 * EPS * s.amp;
    r.ok = true; return r;
  }
  rtm::PSOut p = rtm::polar_stereo(WA, WF, 0.994L, northp, lat, lon);
  r.x = p.x + 2000000.0L; r.y = p.y + 2000000.0L; r.g = p.gamma; r.k = p.k;
  L rho = hypotl(p.x, p.y);
  r.tolxy = 2 * 5e-9L * std::max<L>(1, p.k) + EPS * (fabsl(r.x) + fabsl(r.y));
  r.tolg = 4 * EPS * 360;
  // no scale accuracy is documented for PolarStereographic: round-off law, 64 eps + the position tolerance relative to rho
  r.tolk = 64 * EPS + 2 * 5e-9L / std::max<L>(rho, 1e-3L);
  r.ok = true; return r;
}

L ground_dist(double lat1, L lon1, double lat2, L lon2) {
  const rtm::TM& T = utm_ref();
  auto cart = [&](double lat, L lon, L* p) {
    L th = (90 - (L)std::fabs(lat)) * rtm::DEG, s = cosl(th), c = sinl(th); if (std::signbit(lat)) s = -s;
    L N = T.a / sqrtl(1 - T.e2 * s * s), lam = remainderl(lon, 360.0L) * rtm::DEG;
    p[0] = N * c * cosl(lam); p[1] = N * c * sinl(lam); p[2] = N * (1 - T.e2) * s;
  };
  L p[3], q[3]; cart(lat1, lon1, p); cart(lat2, lon2, q);
  return sqrtl((p[0] - q[0]) * (p[0] - q[0]) + (p[1] - q[1]) * (p[1] - q[1]) + (p[2] - q[2]) * (p[2] - q[2]));
}
L angdiff(L a, L b) { return fabsl(remainderl(a - b, 360.0L)); }
bool bits_equal(double a, double b) { return a == b || (std::isnan(a) && std::isnan(b)); }

// ------------------------------------------------------------------------------------------ generators
double gen_lat() {
  switch (vf::g::wpick({30, 25, 10, 10, 8, 7, 10})) {
    case 0: return vf::g::uni(-90, 90);
    case 1: { double c = vf::g::oneof<double>({-80, 84, 56, 64, 72, -72, 0, 8, -8, 80, 88, 70, -70, 83.5, -79.5}); return vf::g::ulps(c, (int)vf::g::irange(-3, 3)); }
    case 2: return vf::g::oneof<double>({90.0, -90.0, 0.0, -0.0, 84.0, -80.0});
    case 3: { double c = vf::g::oneof<double>({-80, 84, 90, -90, 0}); double v = c + vf::g::sgn() * vf::g::loguni(1e-13, 1.0); return std::max(-90.0, std::min(90.0, v)); }
    case 4: return (double)(8 * vf::g::irange(-10, 10)) + (vf::g::coin() ? 0 : vf::g::sgn() * vf::g::loguni(1e-13, 1e-3));
    case 5: return vf::g::sgn() * vf::g::loguni(1e-300, 1e-5);
    default: return vf::g::uni(-80.5, 84.5);
  }
}
double gen_lon() {
  switch (vf::g::wpick({30, 25, 15, 10, 10, 5, 5})) {
    case 0: return vf::g::uni(-180, 180);
    case 1: return vf::g::ulps((double)(6 * vf::g::irange(-30, 30)), (int)vf::g::irange(-3, 3));
    case 2: return vf::g::ulps(vf::g::oneof<double>({0, 3, 6, 9, 12, 21, 33, 42, 180, -180, -3}), (int)vf::g::irange(-3, 3));
    case 3: return vf::g::uni(-180, 180) + 360.0 * (double)vf::g::irange(-10, 10);
    case 4: return vf::g::ulps((double)(6 * vf::g::irange(-30, 30)) + 360.0 * (double)vf::g::irange(-10, 10), (int)vf::g::irange(-2, 2));
    case 5: return vf::g::sgn() * vf::g::loguni(1e-300, 1e-5);
    default: return vf::g::sgn() * vf::g::loguni(1e3, 1e15);
  }
}
int std_zone_of(double lat, double lon) { int alt; return ref_zone(lat, lon, -1, &alt); }
int gen_setzone(double lat, double lon) {
  switch (vf::g::wpick({45, 10, 10, 15, 10, 10})) {
    case 0: return -1;
    case 1: return -2;
    case 2: return -3;
    case 3: { int alt, z = ref_zone(lat, lon, -2, &alt); if (z < 1) z = 31; z += (int)vf::g::irange(-2, 2); return ((z - 1 + 60) % 60) + 1; }
    case 4: return 0;
    default: return (int)vf::g::irange(-4, 60);
  }
}
// a coordinate relative to a rectangle edge list: interior, on an edge, +-1 ulp, +-5 nm, +-1 km
double gen_coord(double lo, double hi) {
  double e = vf::g::coin() ? lo : hi;
  switch (vf::g::wpick({35, 15, 15, 15, 10, 10})) {
    case 0: return vf::g::uni(lo, hi);
    case 1: return e;
    case 2: return vf::g::ulps(e, (int)vf::g::irange(-2, 2));
    case 3: return e + vf::g::sgn() * vf::g::loguni(1e-9, 1e-6);
    case 4: return e + vf::g::sgn() * vf::g::loguni(1e-6, 1e3);
    default: return e + vf::g::uni(-150e3, 150e3);
  }
}
J gen_grid() {
  J r = J::obj();
  int zone = vf::g::coin(1, 4) ? 0 : (int)vf::g::irange(1, 60); bool northp = vf::g::coin(), mgrs = vf::g::coin(1, 3);
  Rect rc = rect(zone != 0, northp, vf::g::coin(1, 5) ? !mgrs : mgrs);     // edges of both rectangle families are visited
  r["zone"] = J::integer(zone); r["northp"] = J::integer(northp); r["mgrs"] = J::integer(mgrs);
  r["x"] = J::num(gen_coord(rc.x0, rc.x1)); r["y"] = J::num(gen_coord(rc.y0, rc.y1));
  return r;
}
J gen_geo() {
  J r = J::obj(); double lat = gen_lat(), lon = gen_lon();
  r["lat"] = J::num(lat); r["lon"] = J::num(lon); r["setzone"] = J::integer(gen_setzone(lat, lon)); r["mgrs"] = J::integer(vf::g::coin(1, 3));
  return r;
}

void tag_geo(Verdict& v, double lat, double lon, int setzone, int zone) {
  v.tag(setzone == -1 ? "setzone=STANDARD" : setzone == -2 ? "setzone=UTM" : setzone == -3 ? "setzone=MATCH" : setzone == -4 ? "setzone=INVALID" : setzone == 0 ? "setzone=UPS" : "setzone=explicit");
  if (zone == 0) v.tag("UPS"); else if (zone > 0) v.tag("UTM");
  double l = std::remainder(lon, 360.0);
  if (lat >= 56 && lat < 64 && l >= 0 && l < 12) v.tag("norway-window");
  if (lat >= 72 && lat < 84 && l >= 0 && l < 42) v.tag("svalbard-window");
  if (std::fabs(std::remainder(l, 6.0)) < 1e-9) v.tag("zone-edge+-1e-9");
  if (std::fabs(lat - 84) < 1e-9 || std::fabs(lat + 80) < 1e-9) v.tag("utm/ups-edge+-1e-9");
  if (std::fabs(lon) > 360) v.tag("lon-unnormalised");
}
bool near_zone_edge(double lat, double lon) {
  double l = std::remainder(lon, 360.0);
  return std::fabs(std::remainder(l, 3.0)) < 1 || std::fabs(lat - 84) < 1 || std::fabs(lat + 80) < 1 || std::fabs(lat - 56) < 1 || std::fabs(lat - 64) < 1 || std::fabs(lat - 72) < 1;
}

// ------------------------------------------------------------------------------------------ C04.a StandardZone
Verdict check_a(const J& r) {
  Verdict v; double lat = r.getd("lat"), lon = r.getd("lon"); int setzone = (int)r.geti("setzone");
  if (std::isinf(lat) || std::isinf(lon)) { v.skip("infinite input: not a real latitude/longitude"); return v; }
  if (!std::isnan(lat) && std::fabs(lat) > 90) { v.skip("|lat| > 90"); return v; }
  int alt, exp = ref_zone(lat, lon, setzone, &alt);
  int got = SENT_I; bool threw = false, foreign = false;
  try { got = UTMUPS::StandardZone(lat, lon, setzone); } catch (const GeographicErr&) { threw = true; } catch (...) { threw = foreign = true; }
  v.that(!foreign, "StandardZone threw something other than GeographicErr");
  tag_geo(v, lat, lon, setzone, exp);
  if (exp == -100) { v.tag("illegal-setzone"); v.that(threw, "StandardZone accepted a setzone outside [-4,60]"); return v; }
  v.that(!threw, "StandardZone threw for a legal setzone");
  if (alt != exp) v.tag("utm-beyond-84(either)");
  v.that(got == exp || got == alt, "StandardZone = " + std::to_string(got) + ", zone table = " + std::to_string(exp));
  if (exp > 0 && std::isfinite(lon)) { double l = std::remainder(lon, 360.0); if (l == 180) l = -180; if (exp != (int)std::floor(l / 6 + 31)) v.tag("exception-zone"); }
  v.nontrivial = setzone < 0 && setzone != -4 && near_zone_edge(lat, lon);
  return v;
}

// ------------------------------------------------------------------------------------------ C04.b Forward vs reference
Verdict check_b(const J& r) {
  Verdict v; double lat = r.getd("lat"), lon = r.getd("lon"); int setzone = (int)r.geti("setzone"); bool mgrs = r.geti("mgrs");
  if (!(std::fabs(lat) <= 90) || !std::isfinite(lon) || !(setzone >= -4 && setzone <= 60)) { v.skip("outside the accepted input domain (see C04.g)"); return v; }
  int alt, zexp = ref_zone(lat, lon, setzone, &alt);
  FwdOut o = lib_forward(lat, lon, setzone, mgrs);
  v.that(!o.foreign, "Forward threw something other than GeographicErr");
  tag_geo(v, lat, lon, setzone, zexp);
  if (zexp == -4) {
    v.tag("INVALID");
    v.that(!o.threw && o.zone == -4 && std::isnan(o.x) && std::isnan(o.y) && std::isnan(o.g) && std::isnan(o.k), "setzone = INVALID: zone INVALID and NaN outputs expected");
    return v;
  }
  if (o.threw) { v.tag("throws(acceptance is C04.c)"); v.that(o.untouched, "Forward threw but modified an output argument"); v.nontrivial = false; return v; }
  v.that(o.zone == zexp || o.zone == alt, "Forward zone = " + std::to_string(o.zone) + ", zone table = " + std::to_string(zexp));
  if (v.failed()) return v;
  bool lat0 = lat == 0;
  // hemisphere: north for lat >= 0; lat = -0 is on the equator, either label (compared through the 10 000 km shift)
  if (!lat0) v.that(o.northp == (lat > 0), "Forward hemisphere flag does not match the sign of the latitude");
  RefP p = ref_project(o.zone, o.northp, lat, lon);
  if (!p.ok) { v.skip(std::string("oracle refused: ") + p.why); return v; }
  v.nontrivial = near_zone_edge(lat, lon) || o.zone != std_zone_of(lat, lon);
  if (o.zone != std_zone_of(lat, lon)) v.tag("zone!=standard");
  v.tag(fabsl(p.dlon) <= 3 ? "dlon<=3" : fabsl(p.dlon) <= 12 ? "dlon<=12" : fabsl(p.dlon) <= 35 ? "dlon<=35" : "dlon<=60");
  v.le(hypotl((L)o.x - p.x, (L)o.y - p.y), p.tolxy, o.zone ? "UTM Forward (x,y) vs R-TM(k0 = 0.9996) + false origin [m]" : "UPS Forward (x,y) vs polar stereographic(k0 = 0.994) + false origin [m]");
  bool pole = std::fabs(lat) == 90;
  if (o.zone == 0 || !pole) { if (p.tolg < 90) v.le(angdiff(o.g, p.g), p.tolg, o.zone ? "UTM convergence vs reference map [deg]" : "UPS convergence vs +-lon [deg]"); }
  else v.le(angdiff(o.g, (lat > 0 ? 1 : -1) * p.dlon), 8 * EPS * 360, "UTM convergence at the pole vs +-(lon - lon0) [deg]");
  v.le(fabsl((L)o.k / p.k - 1), p.tolk, o.zone ? "UTM scale vs reference map [relative]" : "UPS scale vs reference map [relative]");
  // the result must lie inside the documented rectangle (closure, C04.d)
  v.that(inside_closed(rect(o.zone != 0, o.northp, mgrs), o.x, o.y), "Forward returned a point outside the documented range");
  return v;
}

// ------------------------------------------------------------------------------------------ C04.c acceptance
Verdict check_c(const J& r) {
  Verdict v;
  if (r.has("zone")) {          // Reverse: exactly the closed rectangles
    int zone = (int)r.geti("zone"); bool northp = r.geti("northp"), mgrs = r.geti("mgrs"); double x = r.getd("x"), y = r.getd("y");
    if (!std::isfinite(x) || !std::isfinite(y)) { v.skip("non-finite grid coordinate (see C04.g)"); return v; }
    RevOut o = lib_reverse(zone, northp, x, y, mgrs);
    v.that(!o.foreign, "Reverse threw something other than GeographicErr");
    v.tag(zone == 0 ? (northp ? "rev UPS-N" : "rev UPS-S") : (northp ? "rev UTM-N" : "rev UTM-S")); v.tag(mgrs ? "mgrslimits" : "utm-limits");
    bool zone_ok = zone >= 0 && zone <= 60;
    if (!zone_ok) { v.tag("illegal-zone"); v.that(o.threw || zone == -4, "Reverse accepted a zone outside [0,60]"); if (o.threw) v.that(o.untouched, "Reverse threw but modified an output argument"); return v; }
    Rect rc = rect(zone != 0, northp, mgrs);
    bool in = inside_closed(rc, x, y);
    double dmin = std::min(std::min(std::fabs(x - rc.x0), std::fabs(x - rc.x1)), std::min(std::fabs(y - rc.y0), std::fabs(y - rc.y1)));
    v.tag(dmin == 0 ? "on-edge" : dmin < 1e-6 ? "edge+-1um" : dmin < 1e3 ? "edge+-1km" : in ? "interior" : "far-outside");
    v.nontrivial = dmin < 1e3 || !in;
    if (in) v.that(!o.threw, "Reverse rejected a point of the documented closed range");
    else { v.that(o.threw, "Reverse accepted a point outside the documented range"); v.that(!o.threw || o.untouched, "Reverse threw but modified an output argument"); }
    return v;
  }
  // Forward: accepted iff the projected point lies in the rectangle (5 nm edge class)
  double lat = r.getd("lat"), lon = r.getd("lon"); int setzone = (int)r.geti("setzone"); bool mgrs = r.geti("mgrs");
  if (!(std::fabs(lat) <= 90) || !std::isfinite(lon) || !(setzone >= -4 && setzone <= 60)) { v.skip("outside the accepted input domain (see C04.g)"); return v; }
  int alt, zexp = ref_zone(lat, lon, setzone, &alt);
  if (zexp == -4) { v.skip("INVALID zone (see C04.b)"); return v; }
  FwdOut o = lib_forward(lat, lon, setzone, mgrs);
  v.that(!o.foreign, "Forward threw something other than GeographicErr");
  tag_geo(v, lat, lon, setzone, zexp); v.tag(mgrs ? "mgrslimits" : "utm-limits");
  if (o.threw) v.that(o.untouched, "Forward threw but modified an output argument");
  bool northp = !std::signbit(lat);          // the hemisphere the library documents: north for lat >= 0 (-0: equator, y = 0 or 10 000 km)
  int zone = (!o.threw) ? o.zone : zexp;
  if (!o.threw && !(o.zone == zexp || o.zone == alt)) { v.that(false, "Forward zone differs from the zone table"); return v; }
  RefP p = ref_project(zone, northp, lat, lon);
  if (!p.ok) {
    // far from the central meridian (explicit setzone): the projected point is far outside every rectangle
    L dl = zone > 0 ? remainderl((L)lon - (6.0L * zone - 183), 360.0L) : 0;
    if (zone > 0 && fabsl(dl) > 60 && std::fabs(lat) < 80) {
      v.tag("far-zone(throws)");
      // (findings/C04-forward-dlon60-asymmetric.md: the one-sided test let NaN coordinates through at lon - lon0 = -90 on
      //  the equator; fixed in /repo by 4c5dacb)
      v.that(o.threw, "Forward accepted a point more than 60 degrees from the central meridian at |lat| < 80"); return v;
    }
    v.skip(std::string("oracle refused: ") + p.why); return v;
  }
  Rect rc = rect(zone != 0, northp, mgrs);
  L margin = p.tolxy;
  bool in = inside(rc, p.x, p.y, margin), out = outside(rc, p.x, p.y, margin);
  // equator with lat = -0: the point may be labelled north (y = 0) or south (y = 10 000 km): both are inside the limits
  v.nontrivial = true;
  if (!in && !out) { v.tag("edge(within 5 nm: no-crash only)"); return v; }
  // (geometrically no point more than 60 degrees from the central meridian projects into a rectangle; the library
  //  also rejects |lon - lon0| > 60 explicitly, which is therefore not an extra restriction)
  if (in && zone > 0 && fabsl(p.dlon) > 60) { v.tag("|dlon|>60 inside the rectangle(no claim)"); return v; }
  v.tag(in ? "inside" : "outside");
  if (in) v.that(!o.threw, "Forward rejected a point whose projection is inside the documented range: " + o.what);
  else v.that(o.threw, "Forward accepted a point whose projection is outside the documented range");
  return v;
}

// ------------------------------------------------------------------------------------------ C04.d closure and round trip
Verdict check_d(const J& r) {
  Verdict v;
  if (r.has("zone")) {          // (zone, northp, x, y) -> geographic -> back into the same zone
    int zone = (int)r.geti("zone"); bool northp = r.geti("northp"), mgrs = r.geti("mgrs"); double x = r.getd("x"), y = r.getd("y");
    if (!(zone >= 0 && zone <= 60) || !std::isfinite(x) || !std::isfinite(y)) { v.skip("outside the accepted input domain"); return v; }
    Rect rc = rect(zone != 0, northp, mgrs);
    if (!inside_closed(rc, x, y)) { v.skip("outside the documented range (see C04.c)"); return v; }
    RevOut q = lib_reverse(zone, northp, x, y, mgrs);
    v.tag(zone == 0 ? (northp ? "UPS-N" : "UPS-S") : (northp ? "UTM-N" : "UTM-S")); v.tag(mgrs ? "mgrslimits" : "utm-limits");
    v.that(!q.threw, "Reverse rejected a point of the documented range");
    if (v.failed()) return v;
    v.that(std::fabs(q.lat) <= 90 && std::fabs(q.lon) <= 180, "Reverse returned lat/lon outside [-90,90] x [-180,180]");
    if (v.failed()) return v;
    // independent check of Reverse: the reference projection of the returned point is the input
    bool nh = zone == 0 ? northp : true;
    RefP p = ref_project(zone, nh, q.lat, q.lon);
    if (!p.ok) { v.skip(std::string("oracle refused: ") + p.why); return v; }
    L yin = (zone != 0 && !northp) ? (L)y - 10000000.0L : (L)y;      // northern-style northing
    L tol = p.tolxy + p.k * 2 * 5e-9L + EPS * (std::fabs(x) + std::fabs(y)) + p.k * EPS * WA * rtm::DEG * (std::fabs(q.lat) + std::fabs(q.lon) + 360);
    v.le(hypotl(p.x - (L)x, p.y - yin), tol, zone ? "R-TM(Reverse(x,y)) + false origin vs (x,y) [m]" : "polar stereographic(Reverse(x,y)) + false origin vs (x,y) [m]");
    if (zone == 0 || std::fabs(q.lat) < 90) { if (p.tolg < 90) v.le(angdiff(q.g, p.g), p.tolg + 4 * EPS * 360, "Reverse convergence vs reference map at the returned point [deg]"); }
    v.le(fabsl((L)q.k / p.k - 1), p.tolk, "Reverse scale vs reference map at the returned point [relative]");
    // closure: Forward into the same zone is accepted unless the point is within 5 nm of an edge (documented caveat)
    double dmin = std::min(std::min(std::fabs(x - rc.x0), std::fabs(x - rc.x1)), std::min(std::fabs(y - rc.y0), std::fabs(y - rc.y1)));
    // a northern-style point south of the equator comes back labelled south (and vice versa): compare through the shift
    FwdOut f = lib_forward(q.lat, q.lon, zone, mgrs);
    v.nontrivial = dmin < 1e3;
    if (dmin < 1e3) v.tag("edge+-1km");
    bool relabeled = zone != 0 && ((q.lat < 0) == northp || (q.lat == 0 && f.northp != northp && !f.threw));
    if (relabeled) {
      v.tag("hemisphere-relabelled");
      // the relabelled northing must itself be legal for the closure claim to apply
      Rect ro = rect(true, !northp, mgrs); double ys = y + (northp ? 1e7 : -1e7);
      if (!(ys >= ro.y0 + 1e-6 && ys <= ro.y1 - 1e-6)) { v.tag("relabelled-northing-outside(no closure claim)"); return v; }
    }
    if (f.threw) {
      if (dmin <= (double)(2 * tol)) { v.tag("edge(within 5 nm: may throw)"); v.that(f.untouched, "Forward threw but modified an output argument"); return v; }
      v.that(false, "closure: Forward rejected the geographic image of a legal grid point: " + f.what); return v;
    }
    v.that(f.zone == zone, "closure: Forward(setzone = zone) returned another zone");
    L yout = (zone != 0 && !f.northp) ? (L)f.y - 10000000.0L : (L)f.y;
    if (zone == 0) v.that(f.northp == northp || q.lat == 0, "closure: UPS hemisphere changed");
    v.le(hypotl((L)f.x - (L)x, yout - yin), 2 * tol, "Forward(Reverse(x,y)) vs (x,y) [m]");
    return v;
  }
  // geographic -> grid -> geographic
  double lat = r.getd("lat"), lon = r.getd("lon"); int setzone = (int)r.geti("setzone"); bool mgrs = r.geti("mgrs");
  if (!(std::fabs(lat) <= 90) || !std::isfinite(lon) || !(setzone >= -4 && setzone <= 60) || setzone == -4) { v.skip("outside the accepted input domain"); return v; }
  FwdOut f = lib_forward(lat, lon, setzone, mgrs);
  if (f.threw) { v.skip("Forward throws (see C04.c)"); return v; }
  if (f.zone == -4) { v.skip("INVALID"); return v; }
  tag_geo(v, lat, lon, setzone, f.zone);
  RevOut q = lib_reverse(f.zone, f.northp, f.x, f.y, mgrs);
  v.that(!q.threw, "closure: Reverse rejected the output of Forward");
  if (v.failed()) return v;
  RefP p = ref_project(f.zone, f.northp, lat, lon);
  L kk = p.ok ? p.k : 1, tail = p.ok ? p.tolxy - kk * 2 * 5e-9L : 0;
  if (!p.ok) { v.skip(std::string("oracle refused: ") + p.why); return v; }
  // ground distance: 5 nm each way (K = 2), series tails, representation of the grid point and of the returned angles
  L tol = 2 * (2 * 5e-9L) + 2 * tail / kk + EPS * (std::fabs(f.x) + std::fabs(f.y)) / kk + EPS * WA * rtm::DEG * (std::fabs(q.lat) + std::fabs(q.lon) + 360);
  v.nontrivial = near_zone_edge(lat, lon) || f.zone != std_zone_of(lat, lon);
  v.le(ground_dist(lat, lon, q.lat, q.lon), tol, "Reverse(Forward(lat,lon)) vs (lat,lon) [m, ground]");
  v.that(std::fabs(q.lon) <= 180, "Reverse longitude outside [-180,180]");
  return v;
}

// ------------------------------------------------------------------------------------------ C04.e Transfer
struct TrOut { bool threw = false, foreign = false; double x = 0, y = 0; int zone = SENT_I; bool untouched = true; };
TrOut lib_transfer(int zi, bool ni, double xi, double yi, int zo, bool no) {
  TrOut o; double x = sent(), y = sent(); int zone = SENT_I;
  try { UTMUPS::Transfer(zi, ni, xi, yi, zo, no, x, y, zone); } catch (const GeographicErr&) { o.threw = true; } catch (...) { o.threw = o.foreign = true; }
  if (o.threw) o.untouched = is_sent(x) && is_sent(y) && zone == SENT_I; else { o.x = x; o.y = y; o.zone = zone; }
  return o;
}
Verdict check_e(const J& r) {
  Verdict v;
  int zi = (int)r.geti("zone"), zo = (int)r.geti("zoneout"); bool ni = r.geti("northp"), no = r.geti("northpout"); double x = r.getd("x"), y = r.getd("y");
  if (!std::isfinite(x) || !std::isfinite(y)) { v.skip("non-finite grid coordinate"); return v; }
  TrOut t = lib_transfer(zi, ni, x, y, zo, no);
  v.that(!t.foreign, "Transfer threw something other than GeographicErr");
  if (t.threw) v.that(t.untouched, "Transfer threw but modified an output argument");
  if (v.failed()) return v;
  v.tag(zi == 0 ? "from UPS" : "from UTM"); v.tag(zo == 0 ? "to UPS" : zo > 0 ? "to UTM" : zo == -1 ? "to STANDARD" : zo == -2 ? "to UTM-rule" : zo == -3 ? "to MATCH" : "to INVALID");
  if (ni != no) v.tag("hemisphere-change");
  bool zi_ok = (zi >= 0 && zi <= 60) || zi == -4, zo_ok = zo >= -4 && zo <= 60;
  // expected result by converting through geographic coordinates with the (separately verified) Reverse and Forward
  bool exp_throw = false; std::string why; double ex = 0, ey = 0; int ez = SENT_I;
  if (!zi_ok) { exp_throw = true; why = "zonein outside [0,60]"; }
  else if (!zo_ok) { exp_throw = true; why = "zoneout outside [-4,60]"; }
  else {
    RevOut q = lib_reverse(zi, ni, x, y, false);
    if (q.threw) { exp_throw = true; why = "(xin,yin) outside the documented range"; }
    else {
      FwdOut f = lib_forward(q.lat, q.lon, zo == -3 ? zi : zo, false);
      if (f.threw) { exp_throw = true; why = "(xout,yout) outside the documented range: " + f.what; }
      else if (f.zone == 0 && f.northp != no) { exp_throw = true; why = "UPS hemisphere mismatch"; }
      else { ex = f.x; ey = f.y; ez = f.zone; if (f.zone > 0 && f.northp != no) ey += no ? -1e7 : 1e7; }
    }
  }
  bool same = zi == zo;
  if (same) v.tag("zonein==zoneout");
  v.nontrivial = true;
  if (exp_throw) {
    v.tag("expected-throw");
    if (!t.threw) {
      {
        // (findings/C04-transfer-samezone-nocheck.md: the zonein == zoneout shortcut used to validate nothing; fixed in /repo by 75d8ba3)
        // within 5 nm of an edge the geographic round trip may legitimately differ
        Rect rc = rect(zi != 0, ni, false);
        double dmin = std::min(std::min(std::fabs(x - rc.x0), std::fabs(x - rc.x1)), std::min(std::fabs(y - rc.y0), std::fabs(y - rc.y1)));
        if (dmin < 1e-6) { v.tag("edge(within 1 um)"); return v; }
        v.that(false, "Transfer did not throw although " + why);
      }
    }
    return v;
  }
  if (t.threw) {
    Rect rc = rect(zi != 0, ni, false);
    double dmin = std::min(std::min(std::fabs(x - rc.x0), std::fabs(x - rc.x1)), std::min(std::fabs(y - rc.y0), std::fabs(y - rc.y1)));
    if (dmin < 1e-6) { v.tag("edge(within 1 um)"); return v; }
    v.that(false, "Transfer threw although converting through geographic coordinates succeeds"); return v;
  }
  if (zi == -4) { v.tag("zonein=INVALID"); v.that(t.zone == -4 || zo >= 0, "Transfer from INVALID did not return INVALID"); return v; }
  if (ez == -4) { v.that(t.zone == -4, "Transfer zone"); return v; }
  v.that(t.zone == ez, "Transfer zone = " + std::to_string(t.zone) + ", through geographic = " + std::to_string(ez));
  if (zo >= 0) v.that(t.zone == zo, "Transfer zone differs from the requested zoneout >= 0");
  // same zone: the library returns the input unchanged (+ shift); through geographic coordinates costs 2 x 5 nm each way
  v.le(hypotl((L)t.x - (L)ex, (L)t.y - (L)ey), same ? 4 * 5e-9L * 2 + 4 * EPS * (std::fabs(x) + std::fabs(y) + 1e7) : 0.0L, "Transfer vs Forward(Reverse(.), zoneout) + hemisphere shift [m]");
  if (same && ni != no && zi > 0) v.that(t.x == x && t.y == y + (no ? -1e7 : 1e7), "Transfer within a zone across hemispheres is not exactly the 10 000 km shift");
  // aliasing: (xout, yout) may overlap (xin, yin)
  { double ax = x, ay = y; int az = SENT_I; bool th = false;
    try { UTMUPS::Transfer(zi, ni, ax, ay, zo, no, ax, ay, az); } catch (const GeographicErr&) { th = true; }
    v.that(!th && bits_equal(ax, t.x) && bits_equal(ay, t.y) && az == t.zone, "Transfer with overlapping in/out arguments differs"); }
  return v;
}

// ------------------------------------------------------------------------------------------ C04.f zone strings and EPSG
// Own decoder from the header text.  Returns 1 legal (zone, northp set), 0 illegal, 2 undetermined by the documentation
// (upper/mixed-case spelling of an otherwise legal string; the examples only show lower case and "INV")
int ref_decode(const std::string& s, int& zone, bool& northp) {
  if (s.empty() || s.size() > 7) return 0;
  size_t i = 0; int nd = 0, z = 0;
  while (i < s.size() && s[i] >= '0' && s[i] <= '9') { z = z * 10 + (s[i] - '0'); ++i; ++nd; if (nd > 7) return 0; }
  std::string h = s.substr(i), hl = h;
  bool lower = true;
  for (auto& c : hl) { if (c >= 'A' && c <= 'Z') { c = char(c - 'A' + 'a'); lower = false; } }
  if (nd == 0 && (hl == "inv" || hl == "invalid")) { zone = -4; northp = false; return (h == "INV" || h == "inv" || h == "invalid") ? 1 : 2; }
  bool n = hl == "n" || hl == "north", so = hl == "s" || hl == "south";
  if (!n && !so) return 0;
  if (nd == 0) z = 0;
  else { if (nd > 2 || z < 1 || z > 60) return 0; }
  zone = z; northp = n;
  return lower ? 1 : 2;
}
std::string ref_encode(int zone, bool northp, bool abbrev, bool& legal) {
  legal = true;
  if (zone == -4) return abbrev ? "inv" : "invalid";
  if (!(zone >= 0 && zone <= 60)) { legal = false; return ""; }
  std::string s;
  if (zone) { s += char('0' + zone / 10); s += char('0' + zone % 10); }
  s += abbrev ? (northp ? "n" : "s") : (northp ? "north" : "south");
  return s;
}
Verdict check_f(const J& r) {
  Verdict v;
  if (r.has("str")) {
    const std::string& s = r.gets("str");
    int ez = SENT_I; bool en = false; int cls = ref_decode(s, ez, en);
    ZoneOut o = lib_decode(s);
    v.that(!o.foreign, "DecodeZone threw something other than GeographicErr");
    v.tag(cls == 1 ? "str-legal" : cls == 0 ? "str-illegal" : "str-case-variant");
    v.nontrivial = true;
    if (o.threw) v.that(o.untouched, "DecodeZone threw but modified an output argument");
    if (cls == 1) { v.that(!o.threw, "DecodeZone rejected a documented legal string"); if (!o.threw) v.that(o.zone == ez && (ez == -4 || o.northp == en), "DecodeZone result differs from the documented meaning"); }
    else if (cls == 0) v.that(o.threw, "DecodeZone accepted a string the documentation makes illegal");
    else if (!o.threw) v.that(o.zone == ez && (ez == -4 || o.northp == en), "DecodeZone accepted a case variant with another meaning");
    if (!o.threw && o.zone != -4 && !v.failed()) {   // Encode reverses Decode
      bool lg; std::string a = UTMUPS::EncodeZone(o.zone, o.northp, true), b = UTMUPS::EncodeZone(o.zone, o.northp, false);
      v.that(a == ref_encode(o.zone, o.northp, true, lg) && b == ref_encode(o.zone, o.northp, false, lg), "EncodeZone(DecodeZone(s)) is not the canonical spelling");
    }
    return v;
  }
  if (r.has("epsg")) {
    long long e = r.geti("epsg"); if (e < -2147483647LL || e > 2147483647LL) { v.skip("not an int"); return v; }
    int zone = SENT_I; bool northp = true; UTMUPS::DecodeEPSG((int)e, zone, northp);
    int ez = -4; bool en = false;
    if (e >= 32601 && e <= 32660) { ez = (int)e - 32600; en = true; } else if (e == 32661) { ez = 0; en = true; }
    else if (e >= 32701 && e <= 32760) { ez = (int)e - 32700; en = false; } else if (e == 32761) { ez = 0; en = false; }
    v.tag(ez == -4 ? "epsg-other" : ez == 0 ? "epsg-ups" : "epsg-utm"); v.nontrivial = e >= 32000 && e <= 33000;
    v.that(zone == ez, "DecodeEPSG zone");
    if (ez != -4) { v.that(northp == en, "DecodeEPSG hemisphere"); v.that(UTMUPS::EncodeEPSG(zone, northp) == (int)e, "EncodeEPSG(DecodeEPSG(e)) != e"); }
    return v;
  }
  // encode side: zone, northp, abbrev
  int zone = (int)r.geti("zone"); bool northp = r.geti("northp"), abbrev = r.geti("abbrev");
  bool legal; std::string exp = ref_encode(zone, northp, abbrev, legal);
  std::string got; bool threw = false, foreign = false;
  try { got = UTMUPS::EncodeZone(zone, northp, abbrev); } catch (const GeographicErr&) { threw = true; } catch (const std::bad_alloc&) { v.skip("bad_alloc"); return v; } catch (...) { threw = foreign = true; }
  v.that(!foreign, "EncodeZone threw something other than GeographicErr");
  v.tag(legal ? "enc-legal" : "enc-illegal"); v.nontrivial = true;
  if (!legal) v.that(threw, "EncodeZone accepted a zone outside [0,60]");
  else {
    v.that(!threw && got == exp, "EncodeZone spelling differs from the documented form");
    if (!threw) { ZoneOut o = lib_decode(got); v.that(!o.threw && o.zone == zone && (zone == -4 || o.northp == northp), "DecodeZone(EncodeZone(zone, northp)) != (zone, northp)"); }
  }
  int ee = -1; if (zone == 0) ee = northp ? 32661 : 32761; else if (zone >= 1 && zone <= 60) ee = (northp ? 32600 : 32700) + zone;
  int ge = UTMUPS::EncodeEPSG(zone, northp);
  v.that(ge == ee, "EncodeEPSG differs from the EPSG table (-1 outside [0,60])");
  if (ee >= 0) { int z2 = SENT_I; bool n2 = !northp; UTMUPS::DecodeEPSG(ge, z2, n2); v.that(z2 == zone && n2 == northp, "DecodeEPSG(EncodeEPSG(zone, northp)) != (zone, northp)"); }
  return v;
}
const char ALPHA[] = "0123456789nsNSorthuivald+- ";      // 27 characters
void enum_f(vf::EnumCtx& c) {
  const int A = 27; long long idx = 0; bool go = true;
  auto emit = [&](const J& rec) { if ((idx++ % c.nshards) == c.shard && go) go = c.emit(rec); };
  // all strings of length 0..4 over the alphabet
  { J r = J::obj(); r["str"] = J::str(""); emit(r); }
  for (int len = 1; len <= 4 && go; ++len) {
    long long n = 1; for (int i = 0; i < len; ++i) n *= A;
    for (long long k = 0; k < n && go; ++k) {
      std::string s(len, ' '); long long t = k; for (int i = len - 1; i >= 0; --i) { s[i] = ALPHA[t % A]; t /= A; }
      J r = J::obj(); r["str"] = J::str(s); emit(r);
    }
  }
  // documented words with every case variant, with and without zone prefixes; documented examples
  const char* words[] = {"north", "south", "inv", "invalid", "n", "s"};
  const char* pre[] = {"", "1", "01", "60", "38", "3", "0", "00", "61", "001", "+3", "-3", " 3", "3 "};
  for (auto w : words) { size_t L = std::strlen(w);
    for (unsigned m = 0; m < (1u << L) && go; ++m) { std::string s = w; for (size_t i = 0; i < L; ++i) if (m >> i & 1) s[i] = char(s[i] - 'a' + 'A');
      for (auto p : pre) { J r = J::obj(); r["str"] = J::str(std::string(p) + s); emit(r); } } }
  for (auto s : {"n", "01s", "2n", "38s", "south", "3north", "0n", "001s", "+3n", "61n", "38P", "INV", "38N", "32north", "42south", "invalid", "northx", "nort", "38 n", "38n ", "1e1n"}) { J r = J::obj(); r["str"] = J::str(s); emit(r); }
  { J r = J::obj(); r["str"] = J::str(std::string("3\0n", 3)); emit(r); r["str"] = J::str(std::string("n\0", 2)); emit(r); r["str"] = J::str(std::string("\0n", 2)); emit(r); r["str"] = J::str("3\xf1n"); emit(r); }
  // all EPSG integers in [32000, 33000]
  for (int e = 32000; e <= 33000 && go; ++e) { J r = J::obj(); r["epsg"] = J::integer(e); emit(r); }
  for (int e : {-1, 0, 1, 4326, 32600, 32662, 32700, 32762, 2147483647, -2147483647}) { J r = J::obj(); r["epsg"] = J::integer(e); emit(r); }
  // all (zone, northp, abbrev) around the legal range
  for (int z = -10; z <= 70 && go; ++z) for (int n = 0; n < 2; ++n) for (int a = 0; a < 2; ++a) { J r = J::obj(); r["zone"] = J::integer(z); r["northp"] = J::integer(n); r["abbrev"] = J::integer(a); emit(r); }
  c.exhaustive = go;
}
J gen_f() {
  J r = J::obj();
  switch (vf::g::wpick({60, 20, 20})) {
    case 0: {   // longer strings: legal forms with single-point mutations, raw bytes
      std::string s;
      if (vf::g::coin(3, 4)) {
        int z = (int)vf::g::irange(0, 62); const char* hs[] = {"n", "s", "north", "south", "N", "S", "North", "SOUTH", "inv", "invalid"};
        if (z) { if (vf::g::coin()) s += char('0' + z / 10); s += char('0' + z % 10); }
        s += hs[vf::g::irange(0, 9)];
        int nm = (int)vf::g::irange(0, 2);
        for (int m = 0; m < nm && !s.empty(); ++m) {
          size_t p = (size_t)vf::g::irange(0, (long long)s.size() - 1); char ch = (char)vf::g::oneof<int>({0, ' ', '+', '-', '0', '9', 'n', 's', 'x', 0xf1, '\t', '.'});
          switch (vf::g::irange(0, 3)) { case 0: s.insert(p, 1, ch); break; case 1: s.erase(p, 1); break; case 2: s[p] = ch; break; default: if (p + 1 < s.size()) std::swap(s[p], s[p + 1]); }
        }
      } else { int n = (int)vf::g::irange(5, 9); for (int i = 0; i < n; ++i) s += ALPHA[vf::g::irange(0, 26)]; }
      r["str"] = J::str(s); break; }
    case 1: r["epsg"] = J::integer(vf::g::coin() ? vf::g::irange(-100000, 100000) : vf::g::irange(-2147483647LL, 2147483647LL)); break;
    default: r["zone"] = J::integer(vf::g::coin(3, 4) ? vf::g::irange(-10, 70) : vf::g::irange(-2147483647LL, 2147483647LL)); r["northp"] = J::integer(vf::g::coin()); r["abbrev"] = J::integer(vf::g::coin());
  }
  return r;
}

// ------------------------------------------------------------------------------------------ C04.g error contract / NaN
Verdict check_g(const J& r) {
  Verdict v; int kind = (int)r.geti("kind");
  v.nontrivial = true;
  if (kind == 0) {           // Forward with NaN / out-of-range latitude / illegal setzone
    double lat = r.getd("lat"), lon = r.getd("lon"); int setzone = (int)r.geti("setzone"); bool mgrs = r.geti("mgrs");
    if (std::isinf(lon) || (std::isinf(lat) && false)) { v.skip("infinite longitude: not a real number"); return v; }
    FwdOut o = lib_forward(lat, lon, setzone, mgrs);
    v.that(!o.foreign, "Forward threw something other than GeographicErr");
    if (o.threw) v.that(o.untouched, "Forward threw but modified an output argument");
    bool badzone = !(setzone >= -4 && setzone <= 60);
    if (std::fabs(lat) > 90) { v.tag("lat-out-of-range"); v.that(o.threw, "Forward accepted |lat| > 90"); return v; }
    if (badzone) { v.tag("illegal-setzone"); v.that(o.threw, "Forward accepted a setzone outside [-4,60]"); return v; }
    if (std::isnan(lat) || std::isnan(lon)) {
      v.tag("nan-input");
      if (setzone >= 0) { v.tag("nan-with-explicit-zone(no claim beyond no foreign exception)"); return v; }
      v.that(!o.threw && o.zone == -4, "NaN lat/lon: zone INVALID expected");
      if (!o.threw) v.that(std::isnan(o.x) && std::isnan(o.y) && std::isnan(o.g) && std::isnan(o.k), "NaN lat/lon: NaN x, y, gamma, k expected");
      return v;
    }
    v.tag("regular"); return v;
  }
  if (kind == 1) {           // Reverse with NaN / INVALID / illegal zone
    int zone = (int)r.geti("zone"); bool northp = r.geti("northp"), mgrs = r.geti("mgrs"); double x = r.getd("x"), y = r.getd("y");
    RevOut o = lib_reverse(zone, northp, x, y, mgrs);
    v.that(!o.foreign, "Reverse threw something other than GeographicErr");
    if (o.threw) v.that(o.untouched, "Reverse threw but modified an output argument");
    if (zone == -4) { v.tag("zone=INVALID"); v.that(!o.threw && std::isnan(o.lat) && std::isnan(o.lon) && std::isnan(o.g) && std::isnan(o.k), "Reverse(INVALID): NaN outputs expected"); return v; }
    if (!(zone >= 0 && zone <= 60)) { v.tag("illegal-zone"); if (!std::isnan(x) && !std::isnan(y)) v.that(o.threw, "Reverse accepted a zone outside [0,60]"); return v; }
    if (std::isnan(x) || std::isnan(y)) { v.tag("nan-grid"); if (!o.threw) v.that(std::isnan(o.lat) && std::isnan(o.lon), "Reverse(NaN): NaN lat/lon expected"); return v; }
    if (std::isinf(x) || std::isinf(y)) { v.tag("inf-grid"); v.that(o.threw, "Reverse accepted an infinite coordinate"); return v; }
    v.tag("regular"); return v;
  }
  // Transfer error paths
  int zi = (int)r.geti("zone"), zo = (int)r.geti("zoneout"); bool ni = r.geti("northp"), no = r.geti("northpout"); double x = r.getd("x"), y = r.getd("y");
  TrOut t = lib_transfer(zi, ni, x, y, zo, no);
  v.that(!t.foreign, "Transfer threw something other than GeographicErr");
  if (t.threw) { v.tag("transfer-throws"); v.that(t.untouched, "Transfer threw but modified an output argument"); }
  else v.tag("transfer-ok");
  if (zi == 0 && zo == 0 && ni != no && std::isfinite(x) && std::isfinite(y)) { v.tag("ups-hemisphere-mismatch"); v.that(t.threw, "Transfer between UPS hemispheres did not throw"); }
  return v;
}
J gen_g() {
  J r = J::obj(); int kind = vf::g::wpick({45, 30, 25}); r["kind"] = J::integer(kind);
  double nan = std::nan("");
  if (kind == 0) {
    double lat = gen_lat(), lon = gen_lon();
    switch (vf::g::wpick({30, 25, 25, 20})) {
      case 0: if (vf::g::coin()) lat = nan; else lon = nan; if (vf::g::coin(1, 4)) lat = lon = nan; break;
      case 1: lat = vf::g::sgn() * vf::g::ulps(90.0, (int)vf::g::irange(1, 3)); if (vf::g::coin()) lat = vf::g::sgn() * vf::g::loguni(90.0001, 1e300); if (vf::g::coin(1, 5)) lat = vf::g::sgn() * INFINITY; break;
      case 2: r["setzone"] = J::integer(vf::g::oneof<long long>({-5, 61, -6, 100, -2147483647LL, 2147483647LL, 62, -100})); break;
      default: break;
    }
    if (!r.has("setzone")) r["setzone"] = J::integer(vf::g::coin(1, 4) ? vf::g::irange(-4, 60) : -1);
    r["lat"] = J::num(lat); r["lon"] = J::num(lon); r["mgrs"] = J::integer(vf::g::coin(1, 3));
  } else {
    J g = gen_grid(); r["zone"] = g["zone"]; r["northp"] = g["northp"]; r["mgrs"] = g["mgrs"]; r["x"] = g["x"]; r["y"] = g["y"];
    switch (vf::g::wpick({25, 25, 25, 25})) {
      case 0: if (vf::g::coin()) r["x"] = J::num(nan); else r["y"] = J::num(nan); break;
      case 1: r["zone"] = J::integer(vf::g::oneof<long long>({-4, -4, -1, -2, -3, 61, -5, 100, 2147483647LL, -2147483647LL})); break;
      case 2: if (vf::g::coin()) r["x"] = J::num(vf::g::sgn() * INFINITY); else r["y"] = J::num(vf::g::sgn() * vf::g::loguni(1e8, 1e300)); break;
      default: break;
    }
    r["zoneout"] = J::integer(vf::g::coin() ? r.geti("zone") : vf::g::irange(-6, 62)); r["northpout"] = J::integer(vf::g::coin());
    if (kind == 2 && vf::g::coin(1, 3)) { r["zone"] = J::integer(0); r["zoneout"] = J::integer(0); r["northpout"] = J::integer(!r.geti("northp")); }
  }
  return r;
}
J gen_e() {
  J r = gen_grid();
  int zi = (int)r.geti("zone"); int zo;
  switch (vf::g::wpick({25, 25, 15, 10, 10, 10, 5})) {
    case 0: zo = zi; break;
    case 1: zo = zi == 0 ? (int)vf::g::irange(1, 60) : ((zi - 1 + (int)vf::g::irange(-2, 2) + 60) % 60) + 1; break;
    case 2: zo = -1; break;
    case 3: zo = -2; break;
    case 4: zo = -3; break;
    case 5: zo = 0; break;
    default: zo = (int)vf::g::irange(-6, 62);
  }
  if (vf::g::coin(1, 30)) r["zone"] = J::integer(vf::g::oneof<long long>({-4, -1, 61, 100}));
  r["zoneout"] = J::integer(zo); r["northpout"] = J::integer(vf::g::coin(2, 3) ? r.geti("northp") : !r.geti("northp"));
  r["mgrs"] = J::integer(0);
  return r;
}

// closure cases: grid points clamped into their rectangle (edges stay frequent), geographic points mostly with a
// zone request that can succeed
J gen_d() {
  if (vf::g::coin()) {
    J r = gen_grid();
    Rect rc = rect(r.geti("zone") != 0, r.geti("northp"), r.geti("mgrs"));
    r["x"] = J::num(std::min(rc.x1, std::max(rc.x0, r.getd("x")))); r["y"] = J::num(std::min(rc.y1, std::max(rc.y0, r.getd("y"))));
    return r;
  }
  J r = gen_geo();
  if (vf::g::coin(3, 4)) { int sz = (int)r.geti("setzone"); if (sz >= 0) r["setzone"] = J::integer(vf::g::oneof<long long>({-1, -1, -2, -3})); }
  return r;
}

const char* NT = " non-trivial: within 1 degree of a zone/band edge (or 1 km of a rectangle edge), or a throwing case, or zone != standard; distinct by record hash";
vf::Reg ra({"C04.a", std::string("StandardZone(lat, lon, setzone) vs the zone table written from UTMUPS.hpp (6-degree zones closed below, UPS outside [-80,84), Norway, Svalbard, pseudo-zones, NaN -> INVALID, illegal setzone throws); lat/lon on every edge +- ulps, unnormalised and huge longitudes;") + NT, 0.12,
            [] { return rc::gen::exec([] { J r = gen_geo(); if (vf::g::coin(1, 20)) r["setzone"] = J::integer(vf::g::oneof<long long>({-5, 61, 100, -100})); if (vf::g::coin(1, 30)) r["lat"] = J::num(std::nan("")); if (vf::g::coin(1, 30)) r["lon"] = J::num(std::nan("")); return r; }); }, check_a, nullptr});
vf::Reg rb({"C04.b", std::string("Forward zone, hemisphere, x, y, gamma, k vs R-TM(6378137, 1/298.257223563, 0.9996) with central meridian 6 zone - 183 + false origin 500 km / 0 / 10 000 km, resp. closed-form polar stereographic (k0 0.994) + 2000 km; 2 x 5 nm (+ computed series tail beyond 35 deg);") + NT, 0.2,
            [] { return rc::gen::exec([] { return gen_geo(); }); }, check_b, nullptr});
vf::Reg rcc({"C04.c", std::string("acceptance: Reverse accepts exactly the documented closed rectangles (both limit sets; edges exactly, +-1 ulp, +-5 nm, +-1 km); Forward accepts iff the reference projection lies inside (within 5 nm of an edge: no-crash only);") + NT, 0.2,
            [] { return rc::gen::exec([] { return vf::g::coin() ? gen_grid() : gen_geo(); }); }, check_c, nullptr});
vf::Reg rd({"C04.d", std::string("closure and round trip: Reverse of every legal grid point is certified by the reference projection and accepted again by Forward (setzone = zone) within 2 x 5 nm; Reverse accepts every Forward output, ground round trip <= 2 x (2 x 5 nm);") + NT, 0.2,
            [] { return rc::gen::exec([] { return gen_d(); }); }, check_d, nullptr});
vf::Reg re({"C04.e", "Transfer(zonein, northpin, x, y, zoneout, northpout) = Forward(Reverse(.), zoneout | zonein for MATCH) with the 10 000 km hemisphere shift, actual zone returned, UPS hemisphere mismatch and illegal zones/ranges throw, in/out aliasing; non-trivial: all", 0.13,
            [] { return rc::gen::exec([] { return gen_e(); }); }, check_e, nullptr});
vf::Reg rf({"C04.f", "EXHAUSTIVE enumeration (no random part): DecodeZone over all 551 881 strings of length 0..4 over {0-9,n,s,N,S,o,r,t,h,u,i,v,a,l,d,+,-,space}, all case variants of the documented words with zone prefixes, the documented legal/illegal examples, embedded NUL / high-bit bytes, vs own decoder written from the header; all EPSG integers in [32000,33000]; EncodeZone/EncodeEPSG for zone in [-10,70] x hemisphere x abbrev; non-trivial: all", 0.0,
            nullptr, check_f, enum_f});
vf::Reg rf2({"C04.f.gen", "generated: legal zone strings of any length with up to two point mutations (insert/delete/replace/transpose incl. NUL, high-bit, sign, blank), random strings of length 5..9 over the alphabet, random EPSG / zone integers over the whole int range; same oracle as C04.f; non-trivial: all", 0.05,
            [] { return rc::gen::exec([] { return gen_f(); }); }, check_f, nullptr});
vf::Reg rg({"C04.g", "error contract: only GeographicErr escapes; after a throw zone, northp, x, y, gamma, k / lat, lon keep their sentinel bit patterns (both bool sentinels); |lat| > 90, illegal zones, infinite grid coordinates throw; NaN lat/lon -> zone INVALID and NaN x, y, gamma, k; Reverse(INVALID) -> NaN; non-trivial: all", 0.1,
            [] { return rc::gen::exec([] { return gen_g(); }); }, check_g, nullptr});

}  // namespace

VF_MAIN
