// C07 — geocentric / local cartesian (DESIGN 3/C07)
//
// Oracle: ref/mp.{hpp,cpp} (R-MP): 50-digit closed form of the geodetic -> geocentric map, the
// east/north/up frame, the local-cartesian rigid motion, and the distance to the ellipsoid found
// by a scan of the normal-foot equation.  No formula of Geocentric::IntReverse is used.
//
// Sub-checks
//   C07.a  Forward = closed form, |dr| <= 4 ulp (N + |h|)
//   C07.b  COMPLETENESS of Reverse: for every finite (X,Y,Z) the 50-digit forward image of the returned
//          (lat,lon,h) is the input to K (7 nm a/a0 + eps |r|) (documented err_in methodology);
//          |lat| <= 90, lon in [-180,180]; documented tie-breaks (Z = 0 -> lat >= 0, X = Y = 0 -> lon = 0);
//          h = +inf only when |r| overflows, then the direction must still be right
//   C07.c  least |h|: |h| <= (distance to the ellipsoid by the 50-digit scan) + tol; sign of h = outside/inside;
//          documented lower bound h >= -a(1-e2)/sqrt(1-e2 sin^2 lat)
//   C07.d  Reverse(Forward(lat,lon,h)): err_h <= K 8 nm, err_out <= K 4 nm (h >= 0), err_in <= K 7 nm (h < 0)
//   C07.e  rotation matrix: orthonormal, det +1, columns = east, north, up at the RETURNED (Reverse) or
//          given (Forward) position; Forward and Reverse give the same M at corresponding points
//   C07.f  LocalCartesian = rigid motion R0^T (G - G0): origin -> 0, closed form, pairwise distances,
//          Reverse(Forward) = identity, Reverse complete for arbitrary local (x,y,z), M_local = R0^T M
//
// Sensitivity (scratch copy of /repo at 145c3aa, VERIF_REPO=<copy>, `check.py C07 --tier quick`, seed 1; sub-checks
// that produced a confirmed VIOLATION; every break below was caught unless marked):
//   Geocentric.cpp  k = uv/(sqrt(uv+w^2)+w) -> sqrt(uv+w^2)-w                  b,e    (only after the class "disc-rim" was added)
//                   uv = u<0 ? e4a*q/(v-u) : u+v -> u+v                         b,c,d,e,f
//                   cos(ang/3) -> cos((ang+2pi)/3)   (other cube root)          b,c,d,e,f
//                   prolate swap(p,q) removed                                   b,c,d,e,f
//                   _maxrad 2a/eps -> 2a/(1000 eps)                             b,c,d,e,f
//                   Rotation: M[1] <-> M[3] (transposed entry)                  e,f
//                   "if (Z < 0) sphi = -sphi" removed                           b,e,f
//                   sphere branch: hypot(h==0 ? 1 : Z, R) -> hypot(Z, R)        b,c,e      (NaN at the centre)
//                   far field: hypot(X/2, Y/2) -> hypot(X, Y)/2                 b,e        (overflow)
//                   degenerate limit: h factor (_f >= 0 ? _e2m : 1) -> _e2m     b,c,e,f
//                   Forward: _e2m -> (1-_e2)(1 + 64 eps)                        a,d,e,f
//   LocalCartesian  MatrixMultiply r' -> r                                      e,f
//                   Reset: _x0.. from h = 0 instead of _h0                      e,f
//                   IntReverse: _r[3],_r[5] -> _r[1],_r[7] in yc                e,f
//   fix reverts     F17 (subnormal e4a*q) b,c,e,f;  F18 (subnormal hypot(X,Y)) e;  F19 (sphere branch) e;  F24 (far field) e
//   NOT caught (both are equivalent mutants in double arithmetic, analysed):
//                   T3 += T3 < 0 ? -sqrt(disc) : sqrt(disc)  ->  T3 += sqrt(disc):  disc >= 0 means S >= 2|r|^3 (S >= 0),
//                     hence T3 = S + r^3 > 0 whenever disc > 0 and sqrt(disc) = 0 otherwise - the negative branch is dead code
//                   w = fmax(0, ...) -> w = ...: w is negative only by round-off O(eps) and then changes k by O(eps)
#include "fw/harness.hpp"
#include "gen/geo.hpp"
#include "ref/mp.hpp"

#include <GeographicLib/Geocentric.hpp>
#include <GeographicLib/LocalCartesian.hpp>

#include <cfloat>

using namespace GeographicLib;
using vf::J; using vf::Verdict;
namespace g = vf::g;
typedef long double L;

namespace {

const L EPS = 2.220446049250313e-16L;        // 2^-52
const L A0 = 6378137.0L;
const double DEG = M_PI / 180;

// Findings of this property (findings/C07-*.md).  ALL FOUR ARE FIXED in /repo (0ddacd7, 02ea9d3, 145c3aa, bdef780; "fixed:" entries
// of known_findings.json), so the guards below are inert: nothing enables the ids any more and a recurrence
// is a plain FAIL.  (They can still be enabled by VF_KNOWN=id[,id] to look behind a re-introduced defect;
// seeded/fix-reverts/F17, F18, F19, F24 re-introduce them and are caught by C07.b/c/d/f resp. C07.e.)
bool known_on(const char* id) {
  if (vf::known_on(id)) return true;
  const char* e = std::getenv("VF_KNOWN");
  if (!e) return false;
  std::string s = std::string(",") + e + ",";
  return s.find(std::string(",") + id + ",") != std::string::npos;
}
const char* F_DENQ = "C07-reverse-subnormal-q";   // Reverse loses all accuracy when e4a*q is subnormal inside the singular region
const char* F_DENR = "C07-rotation-subnormal-R";  // rotation matrix not orthonormal when hypot(X,Y) is subnormal
// found after 02ea9d3: same defect in the sphere branch, hypot(R, Z) subnormal; FIXED by 145c3aa (guard inert; F19 re-introduces it)
const char* F_DENH = "C07-rotation-subnormal-sphere";
// found on 145c3aa: the far-field branch recomputed slam/clam from a subnormal R; FIXED by bdef780 (guard inert; F24 re-introduces it)
const char* F_DENF = "C07-rotation-subnormal-farfield";

bool ell_ok(double a, double f) { return std::isfinite(a) && a > 0 && std::isfinite(f) && f < 1; }

// ---------------------------------------------------------------------------------- generators
struct EllG { double a, f; };
EllG gen_ell() {
  EllG e; e.a = gg::A_WGS84;
  switch (g::wpick({30, 10, 18, 14, 10, 12, 6})) {
    case 0: { gg::Ell n = gg::named_ellipsoid(); e.a = n.a; e.f = n.f; return e; }
    case 1: e.f = 0; break;
    case 2: e.f = g::loguni(1e-14, 0.99); break;
    case 3: e.f = -g::loguni(1e-14, 10.0); break;
    case 4: e.f = 1 - g::loguni(0.01, 11.0); break;
    case 5: e.f = g::oneof<double>({0.01, -0.01, 0.02, -0.02, 1 / 150.0, -1 / 150.0, 0.2, -0.2, 0.5, 0.99, -1.0, -10.0, 0.2928932188134524, 0.3}); break;
    default: e.f = g::uni(-1, 0.9);
  }
  if (!g::coin(3, 4)) e.a = g::loguni(1.0, 1e9);
  return e;
}

double tiny_coord() {
  return g::oneof<double>({0.0, -0.0, 4.9406564584124654e-324, -4.9406564584124654e-324, 1e-310, -1e-310, 1e-300, -1e-300, 2.2250738585072014e-308});
}

// (X, Y, Z) over ~40 orders of magnitude with the singular sets of the reverse problem over-weighted
void gen_point(double a, double f, double& X, double& Y, double& Z, std::string& cls) {
  double e2 = f * (2 - f), ae2 = a * std::fabs(e2), maxrad = 2 * a / DBL_EPSILON;
  double R = 0; bool polarform = true;
  X = Y = Z = 0;
  switch (g::wpick({14, 5, 8, 10, 12, 12, 9, 6, 5, 10, 9, 8, 7})) {
    case 12: {
      // the surface r = 0, (R/a)^2 + (1-f)^2 (Z/a)^2 = e^4, approached from both sides (r -> 0-: disc >= 0 with
      // S + r^3 ~ S, where the sign of the square root in T3 decides between cancellation and none)
      cls = "r=0-surface"; double t = g::coin(1, 4) ? g::loguni(1e-8, 1.0) : g::uni(0, M_PI / 2), d = 1 + g::sgn() * g::loguni(1e-14, 1e-1);
      R = ae2 * std::cos(t) * d; Z = g::sgn() * ae2 / (1 - f) * std::sin(t) * d; break;
    }
    case 11: {
      // rim of the singular disc = cusp of the evolute (u -> 0, v -> 0: where sqrt(uv + w^2) - w would cancel).
      // Approached along the scaling of the cusp, Z/Zc ~ (dR/Rc)^(3/2), and along generic directions.
      cls = "disc-rim"; double d = g::loguni(1e-16, 1e-2), sg = g::sgn();
      if (f >= 0) { R = ae2 * (1 + sg * d); Z = g::sgn() * ae2 / (1 - f) * (g::coin() ? std::pow(d, 1.5) * g::loguni(1e-3, 1e3) : g::loguni(1e-25, 1e-2)); }
      else { Z = g::sgn() * ae2 / (1 - f) * (1 + sg * d); R = ae2 * (g::coin() ? std::pow(d, 1.5) * g::loguni(1e-3, 1e3) : g::loguni(1e-25, 1e-2)); }
      break;
    }
    case 0: {
      cls = "generic"; double mag = a * g::loguni(1e-20, 1e20), lat = gg::latitude();
      R = mag * std::cos(lat * DEG); Z = mag * std::sin(lat * DEG); break;
    }
    case 1: cls = "centre"; polarform = false; X = tiny_coord(); Y = tiny_coord(); Z = tiny_coord(); break;
    case 2: {
      cls = "axis"; polarform = false;
      if (!g::coin(2, 3)) { X = tiny_coord(); Y = tiny_coord(); }
      switch (g::wpick({4, 3, 2, 1})) {
        case 0: Z = a * g::loguni(1e-20, 1e20); break;
        case 1: Z = ae2 / (1 - f) * g::uni(0, 1.5); break;
        case 2: Z = g::ulps(a * (1 - f), (int)g::irange(-3, 3)); break;
        default: Z = 0;
      }
      Z *= g::sgn(); break;
    }
    case 3: {
      cls = "equatorial-plane";
      Z = g::coin() ? g::oneof<double>({0.0, -0.0, 4.9406564584124654e-324, -4.9406564584124654e-324}) : g::sgn() * g::loguni(1e-320, 1e-200);
      switch (g::wpick({3, 3, 2, 3, 1})) {
        case 0: R = ae2 * g::uni(0, 1); break;
        case 1: R = g::ulps(ae2, (int)g::irange(-4, 4)); break;
        case 2: R = ae2 * (1 + g::loguni(1e-16, 1.0)); break;
        case 3: R = a * g::loguni(1e-20, 1e20); break;
        default: R = g::ulps(a, (int)g::irange(-3, 3));
      }
      break;
    }
    case 4: {
      cls = "singular-disc-nbhd";
      if (f >= 0) { R = ae2 * g::uni(0, 1.3); Z = g::sgn() * ae2 * g::loguni(1e-25, 1.0); }
      else { Z = g::sgn() * ae2 / (1 - f) * g::uni(0, 1.3); R = ae2 * g::loguni(1e-25, 1.0); }
      break;
    }
    case 5: {
      cls = "evolute"; double t = g::uni(0, M_PI / 2), c = std::cos(t), s = std::sin(t);
      R = ae2 * c * c * c; Z = g::sgn() * ae2 / (1 - f) * s * s * s;
      if (g::coin(3, 4)) { double d = 1 + g::sgn() * g::loguni(1e-16, 1e-2); R *= d; Z *= d; }
      break;
    }
    case 6: {
      cls = "beyond-maxrad";
      double mag = g::coin(2, 3) ? g::loguni(maxrad / 4, 1e300) : g::ulps(maxrad, (int)g::irange(-3, 3));
      if (g::coin()) { double lat = gg::latitude(); R = mag * std::cos(lat * DEG); Z = mag * std::sin(lat * DEG); }
      else if (g::coin()) { R = mag; Z = g::coin() ? 0.0 : g::sgn() * g::loguni(1e-300, 1e10); }
      else { Z = g::sgn() * mag; R = g::coin() ? 0.0 : g::loguni(1e-300, 1e10); }
      break;
    }
    case 7: {
      cls = "hypot-overflow"; polarform = false;
      double v[3];
      int nbig = (int)g::irange(1, 3);
      for (int i = 0; i < 3; ++i) v[i] = g::sgn() * (i < nbig ? DBL_MAX * g::uni(0.5, 1) : g::loguni(1e-300, 1e300));
      if (g::coin(1, 4)) v[0] = g::sgn() * DBL_MAX;
      int rot = (int)g::irange(0, 2);
      X = v[rot]; Y = v[(rot + 1) % 3]; Z = v[(rot + 2) % 3]; break;
    }
    case 8: {
      cls = "denormal"; polarform = false;
      X = g::coin(1, 4) ? 0.0 : g::sgn() * g::loguni(4.9406564584124654e-324, 1e-300);
      Y = g::coin(1, 4) ? 0.0 : g::sgn() * g::loguni(4.9406564584124654e-324, 1e-300);
      Z = g::coin(1, 4) ? 0.0 : g::sgn() * g::loguni(4.9406564584124654e-324, 1e-300); break;
    }
    case 9: {
      cls = "near-surface"; double lat = gg::latitude(), h = g::coin(1, 8) ? 0.0 : g::sgn() * g::loguni(1e-9, 5e6) * a / gg::A_WGS84;
      double s = std::sin(lat * DEG), c = std::cos(lat * DEG), n = a / std::sqrt(1 - e2 * s * s);
      R = (n + h) * c; Z = ((1 - e2) * n + h) * s; break;
    }
    default: {
      cls = "inside-evolute-box";
      R = ae2 * g::uni(0, 1); Z = g::sgn() * ae2 / (1 - f) * g::uni(0, 1);
      if (g::coin(1, 3)) { R *= g::loguni(1e-6, 1.0); Z *= g::loguni(1e-6, 1.0); }
    }
  }
  if (polarform) {
    if (g::coin(1, 3)) {
      switch (g::irange(0, 3)) { case 0: X = R; Y = 0; break; case 1: X = 0; Y = R; break; case 2: X = -R; Y = 0; break; default: X = 0; Y = -R; }
    } else {
      double lon = gg::angle180(); X = R * std::cos(lon * DEG); Y = R * std::sin(lon * DEG);
    }
  }
}

J gen_xyz() {
  EllG e = gen_ell(); J r = J::obj();
  double X, Y, Z; std::string cls; gen_point(e.a, e.f, X, Y, Z, cls);
  r["a"] = J::num(e.a); r["f"] = J::num(e.f); r["X"] = J::num(X); r["Y"] = J::num(Y); r["Z"] = J::num(Z); r["g"] = J::str(cls);
  return r;
}

double gen_height(double a, double f, double lat, std::string& cls) {
  double e2 = f * (2 - f), s = std::sin(lat * DEG), n = a / std::sqrt(1 - e2 * s * s);
  double hmin = f >= 0 ? -(1 - e2) * n : -n;       // principal inverse: above the medial set
  switch (g::wpick({10, 40, 20, 20, 10})) {
    case 0: cls = "h=0"; return g::coin() ? 0.0 : -0.0;
    case 1: cls = "h-geophysical"; return g::sgn() * g::loguni(1e-9, 5e6) * a / gg::A_WGS84;
    case 2: cls = "h-high"; return g::loguni(1e-9, 1e20);
    case 3: cls = "h-deep"; return hmin * g::uni(0, 1);
    default: cls = "h-below-medial"; return -a * g::uni(0, 1);
  }
}

J gen_geo() {
  EllG e = gen_ell(); J r = J::obj(); std::string cls;
  double lat = gg::latitude(), lon = gg::angle(), h = gen_height(e.a, e.f, lat, cls);
  r["a"] = J::num(e.a); r["f"] = J::num(e.f); r["lat"] = J::num(lat); r["lon"] = J::num(lon); r["h"] = J::num(h); r["g"] = J::str(cls);
  return r;
}

// ---------------------------------------------------------------------------------- helpers
// regime of Geocentric::IntReverse recomputed from the documented conditions (double arithmetic on
// purpose: two of the conditions are "this product underflows to zero")
std::string regime(double a, double f, double X, double Y, double Z) {
  double R = std::hypot(X, Y), h = std::hypot(R, Z), maxrad = 2 * a / DBL_EPSILON;
  if (h > maxrad) return "far-field";
  double e2 = f * (2 - f), e4 = e2 * e2, e2m = (1 - f) * (1 - f);
  if (e4 == 0) return "sphere";
  double p = (R / a) * (R / a), q = e2m * (Z / a) * (Z / a), r = (p + q - e4) / 6;
  if (f < 0) std::swap(p, q);
  if (e4 * q == 0 && r <= 0) return "degenerate-limit";
  double S = e4 * p * q / 4, disc = S * (2 * r * r * r + S);
  return disc >= 0 ? (r < 0 ? "disc>=0,r<0" : "disc>=0") : "disc<0";
}

// region of finding C07-reverse-subnormal-q, from the documented formulas in double arithmetic:
// inside the singular region (r <= 0) with 0 < e4a*q < DBL_MIN (q = the squared coordinate that tends to
// zero on the singular set: Z for oblate, R for prolate)
bool in_subnormal_q(double a, double f, double X, double Y, double Z) {
  double R = std::hypot(X, Y), h = std::hypot(R, Z);
  if (h > 2 * a / DBL_EPSILON) return false;
  double e2 = f * (2 - f), e4 = e2 * e2, e2m = (1 - f) * (1 - f);
  if (e4 == 0) return false;
  double p = (R / a) * (R / a), q = e2m * (Z / a) * (Z / a), r = (p + q - e4) / 6;
  if (f < 0) std::swap(p, q);
  return e4 * q > 0 && e4 * q < DBL_MIN && r <= 0;
}
// LocalCartesian recomputes the geocentric point, so the window is tested a factor 2 either side
bool near_subnormal_q(double a, double f, double X, double Y, double Z) {
  for (double k : {0.25, 0.5, 1.0, 2.0, 4.0})
    if (in_subnormal_q(a, f, f < 0 ? X * k : X, f < 0 ? Y * k : Y, f < 0 ? Z : Z * k)) return true;
  return false;
}
bool in_subnormal_sphere(double f, double X, double Y, double Z) {
  double e2 = f * (2 - f), h = std::hypot(std::hypot(X, Y), Z);
  return e2 * e2 == 0 && h > 0 && h < DBL_MIN / DBL_EPSILON;
}
bool in_subnormal_R(double X, double Y) { double R = std::hypot(X, Y); return R > 0 && R < 4 * DBL_MIN; }

// round-off of the textbook forward formula n = a / sqrt(1 - e2 sin^2 phi): the subtraction loses
// log2(1/(1 - e2 sin^2)) bits when f -> 1 near the poles (f = 0.99: ~13 bits).  Error of the surface point
// in units of eps.  Not treated as a defect (extreme flattening only); the tolerance follows the conditioning.
L fwd_cond(double a, double f, const mpr::Aux& A) {
  L e2 = (L)f * (2 - (L)f), s2 = A.sphi * A.sphi, w = 1 - e2 * s2;
  L rsurf = a * A.N * sqrtl(A.cphi * A.cphi + (1 - e2) * (1 - e2) * s2);
  return rsurf * std::max<L>(1, fabsl(e2) * s2) / (2 * w);
}

std::string fclass(double f) {
  double af = std::fabs(f);
  std::string s = f == 0 ? "f=0" : af < 1e-6 ? "|f|<1e-6" : af <= 1 / 150.0 ? "|f|<=1/150" : af <= 0.02 ? "|f|<=0.02" : af <= 0.2929 ? "|f|<=0.29" : "|f|>0.29";
  if (f < 0) s += ",prolate";
  return s;
}

// The documented figures (doc page "geocentric": err_h 8 nm, err_out 4 nm, err_in 7 nm) were established on
// WGS84 and are stated to hold for "all ellipsoids used in terrestrial geodesy"; they are used unchanged,
// scaled by a/a0, for |f| <= 0.02.  For larger |f| (e > 1/sqrt(2) is explicitly "not analyzed" in the
// documentation) a calibrated law replaces them: with the plain figures the unchanged tree reaches
// (5 seeds, quick tier) 8.3x at f = -10 and 5.7x at f = 0.99 and stays below 1x for |f| <= 0.29; the law
// (b/a)^1.5 (prolate: the size of the body is b) resp. (a/b)^0.75 (oblate) is >= 4x those maxima at the
// extremes and continuous (1.03) at |f| = 0.02.
L fscale(double f) {
  L b = 1 - (L)f;
  if (fabsl((L)f) <= 0.02L) return 1;
  if (std::getenv("VF_FSCALE1")) return 1;    // calibration aid
  return f < 0 ? powl(b, 1.5L) : powl(1 / b, 0.75L);
}

struct Rev { double lat, lon, h; std::vector<double> M; };
Rev lib_reverse(double a, double f, double X, double Y, double Z) {
  Geocentric gc(a, f); Rev r; r.M.assign(9, 0.0);
  gc.Reverse(X, Y, Z, r.lat, r.lon, r.h, r.M);
  return r;
}

// tolerance of the completeness relation (metres)
// (the far-field branch treats the ellipsoid as a point: error <= max(a, b), i.e. (1-f) eps/2 |r| for prolate)
// The eps |r| term is a round-off law: lat, lon (degrees) and h are returned as doubles, which alone costs up to
// ~1.5 eps |r|; observed maximum 1.98 eps |r| (5 seeds, quick), frozen at 8 eps |r|.
L tol_reproj(double a, double f, L rnorm) { return 2 * (7e-9L * a / A0 * fscale(f) + 4 * EPS * rnorm * std::max<L>(1, 1 - (L)f)); }

// ---------------------------------------------------------------------------------- C07.a
Verdict check_a(const J& r) {
  Verdict v; double a = r.getd("a"), f = r.getd("f"), lat = r.getd("lat"), lon = r.getd("lon"), h = r.getd("h");
  if (!ell_ok(a, f) || !(std::fabs(lat) <= 90) || !std::isfinite(lon) || !std::isfinite(h)) { v.skip("outside documented domain"); return v; }
  Geocentric gc(a, f); double X, Y, Z; gc.Forward(lat, lon, h, X, Y, Z);
  mpr::V3 G = mpr::geoc_forward(a, f, lat, lon, h);
  mpr::Aux A = mpr::aux(f, lat);
  v.tag(fclass(f)); if (r.has("g")) v.tag(r.gets("g"));
  if (std::fabs(lat) == 90) v.tag("pole");
  L err = sqrtl((X - G.x) * (X - G.x) + (Y - G.y) * (Y - G.y) + (Z - G.z) * (Z - G.z));
  // round-off law: a few ulp of the terms that are added, n + |h| and (1-e2) n + |h| (the latter is (1-f)^2 n,
  // larger than n for prolate), plus the conditioning of n = a/sqrt(1 - e2 sin^2) for f -> 1 (see fwd_cond).
  // Calibration (5 seeds, quick): max 1.2 x 4 eps x (...), reached at f = -7; frozen at 16 eps.
  L e2 = (L)f * (2 - (L)f), rsurf = a * A.N * sqrtl(A.cphi * A.cphi + (1 - e2) * (1 - e2) * A.sphi * A.sphi);
  v.le(err, 16 * EPS * (std::max<L>(A.N * a, rsurf) + fabsl((L)h) + fwd_cond(a, f, A)), "Forward vs 50-digit closed form [m]");
  // second overload agrees exactly
  std::vector<double> M(9); double X2, Y2, Z2; gc.Forward(lat, lon, h, X2, Y2, Z2, M);
  v.that(X2 == X && Y2 == Y && Z2 == Z, "Forward with and without M differ");
  return v;
}

// ---------------------------------------------------------------------------------- C07.b
Verdict check_b(const J& r) {
  Verdict v; double a = r.getd("a"), f = r.getd("f"), X = r.getd("X"), Y = r.getd("Y"), Z = r.getd("Z");
  if (!ell_ok(a, f) || !std::isfinite(X) || !std::isfinite(Y) || !std::isfinite(Z)) { v.skip("outside documented domain"); return v; }
  Rev o = lib_reverse(a, f, X, Y, Z);
  v.tag(regime(a, f, X, Y, Z)); v.tag(fclass(f)); if (r.has("g")) v.tag("g:" + r.gets("g"));
  v.that(std::fabs(o.lat) <= 90, "lat outside [-90,90] (or NaN)");
  v.that(std::fabs(o.lon) <= 180, "lon outside [-180,180] (or NaN)");
  v.that(!std::isnan(o.h), "h is NaN");
  if (v.failed()) return v;
  // three-argument overload agrees
  { Geocentric gc(a, f); double la, lo, hh; gc.Reverse(X, Y, Z, la, lo, hh);
    v.that(la == o.lat && lo == o.lon && (hh == o.h), "Reverse with and without M differ"); }
  if (X == 0 && Y == 0) v.that(o.lon == 0, "X = Y = 0 but lon != 0 (documented tie-break)");
  if (Z == 0 && f >= 0) v.that(o.lat >= 0, "Z = 0 but lat < 0 (documented tie-break)");
  L rn; L err = mpr::geoc_reproj(a, f, o.lat, o.lon, std::isfinite(o.h) ? o.h : 0.0, X, Y, Z, &rn);
  if (!std::isfinite(o.h)) {
    v.tag("h=inf");
    v.that(o.h > 0 && rn >= (L)DBL_MAX, "h infinite although |r| is representable");
    // direction of the returned (lat, lon) vs direction of the input
    L M[9]; mpr::enu(o.lat, o.lon, M);
    L ux = X / rn, uy = Y / rn, uz = Z / rn;
    v.le(sqrtl((M[2] - ux) * (M[2] - ux) + (M[5] - uy) * (M[5] - uy) + (M[8] - uz) * (M[8] - uz)), 4 * EPS, "direction of (lat,lon) vs input direction (h overflowed)");
    return v;
  }
  {
    std::string nm = "reference-Forward(Reverse(X,Y,Z)) vs (X,Y,Z) [m], ";
    nm += (EPS * rn > 7e-9L * a / A0) ? "eps|r| dominated" : ("7 nm dominated, " + fclass(f));
    v.le(err, tol_reproj(a, f, rn), nm.c_str());
  }
  if (v.failed() && known_on(F_DENQ) && in_subnormal_q(a, f, X, Y, Z)) v.known(F_DENQ, v.msg);
  return v;
}

// ---------------------------------------------------------------------------------- C07.c
Verdict check_c(const J& r) {
  Verdict v; double a = r.getd("a"), f = r.getd("f"), X = r.getd("X"), Y = r.getd("Y"), Z = r.getd("Z");
  if (!ell_ok(a, f) || !std::isfinite(X) || !std::isfinite(Y) || !std::isfinite(Z)) { v.skip("outside documented domain"); return v; }
  Rev o = lib_reverse(a, f, X, Y, Z);
  std::string reg = regime(a, f, X, Y, Z);
  v.tag(reg); v.tag(fclass(f)); if (r.has("g")) v.tag("g:" + r.gets("g"));
  if (!std::isfinite(o.h)) { v.skip("height overflowed (covered by C07.b)"); return v; }
  L rn = sqrtl((L)X * X + (L)Y * Y + (L)Z * Z);
  bool inside; L d = mpr::dist_to_ellipsoid(a, f, X, Y, Z, &inside);
  L tol = tol_reproj(a, f, rn) + 2 * EPS * a;
  // any point of the ellipsoid bounds the minimum from above, so this direction is sound even if the
  // scan missed a foot point; the other direction (|h| >= minimum) is implied by C07.b
  v.le(fabsl((L)o.h) - d, tol, "|h| minus the distance to the ellipsoid (least-|h| solution) [m]");
  v.le(d - fabsl((L)o.h), tol, "distance to the ellipsoid minus |h| (h is the distance along a normal) [m]");
  if (fabsl((L)o.h) > tol) v.that((o.h < 0) == inside, "sign of h does not match inside/outside");
  if (f >= 0) {
    mpr::Aux A = mpr::aux(f, o.lat);
    L e2 = (L)f * (2 - (L)f);
    L hmin = -(L)a * (1 - e2) * A.N;
    v.le(hmin - (L)o.h, tol + 4 * EPS * a, "documented lower bound h >= -a(1-e2)/sqrt(1-e2 sin^2 lat) violated by [m]");
  }
  v.nontrivial = reg != "far-field";
  if (v.failed() && known_on(F_DENQ) && in_subnormal_q(a, f, X, Y, Z)) v.known(F_DENQ, v.msg);
  return v;
}

// ---------------------------------------------------------------------------------- C07.d
Verdict check_d(const J& r) {
  Verdict v; double a = r.getd("a"), f = r.getd("f"), lat = r.getd("lat"), lon = r.getd("lon"), h = r.getd("h");
  if (!ell_ok(a, f) || !(std::fabs(lat) <= 90) || !std::isfinite(lon) || !std::isfinite(h)) { v.skip("outside documented domain"); return v; }
  mpr::Aux A = mpr::aux(f, lat);
  L e2 = (L)f * (2 - (L)f);
  L hmin = f >= 0 ? -(L)a * (1 - e2) * A.N : -(L)a * A.N;
  if (!((L)h >= hmin * (1 - 1e-9L))) { v.skip("below the medial set: (lat,lon,h) is not the principal inverse"); return v; }
  Geocentric gc(a, f); double X, Y, Z; gc.Forward(lat, lon, h, X, Y, Z);
  if (!std::isfinite(X) || !std::isfinite(Y) || !std::isfinite(Z)) { v.skip("forward overflowed"); return v; }
  Rev o = lib_reverse(a, f, X, Y, Z);
  v.tag(regime(a, f, X, Y, Z)); v.tag(fclass(f)); if (r.has("g")) v.tag(r.gets("g"));
  L s = a / A0 * fscale(f);
  L habs = fabsl((L)h);
  // Reverse is fed with the library's Forward: beyond |f| = 0.02 the round-off of the textbook forward
  // formula (fwd_cond, checked in C07.a) is no longer covered by the documented figures
  L fwd = std::fabs(f) <= 0.02 ? 0 : 4 * EPS * (fwd_cond(a, f, A) + A.N * a + habs);
  // one ulp of the returned latitude / longitude as a distance on the surface (matters for f -> 1 where the
  // meridional radius of curvature at the poles is a/(1-f))
  L ulat = (std::nextafter(std::fabs(o.lat), 1e9) - std::fabs(o.lat)) * (L)DEG * A.M * a;
  L ulon = (std::nextafter(std::fabs(o.lon), 1e9) - std::fabs(o.lon)) * (L)DEG * A.N * a * A.cphi;
  // err_h = |h1 - h0| / max(1, h0/a)
  L errh = fabsl((L)o.h - (L)h) / std::max<L>(1, (L)h / a);
  v.le(errh, 2 * 8e-9L * s + fwd, ("err_h = |h1-h0|/max(1,h0/a) [m], " + fclass(f)).c_str());
  // the latitude is only defined to (position error)/(distance from the medial set)
  L depth = (L)h - hmin;     // distance of the point from the medial set along the normal
  if (h >= 0) {
    L dphi = ((L)o.lat - (L)lat) * (L)DEG, dlam = remainderl((L)o.lon - (L)lon, 360.0L) * (L)DEG;
    L ds = hypotl(A.M * a * dphi, A.N * a * A.cphi * dlam);
    // one ulp of the returned angles, as a distance on the surface
    v.le(ds, 2 * 4e-9L * s + (std::fabs(f) <= 0.02 ? 0 : ulat + ulon) + fwd, ("err_out = surface distance between (lat1,lon1) and (lat0,lon0) [m], " + fclass(f)).c_str());
  } else {
    mpr::V3 G0 = mpr::geoc_forward(a, f, lat, lon, h), G1 = mpr::geoc_forward(a, f, o.lat, o.lon, o.h);
    L ein = sqrtl((G1.x - G0.x) * (G1.x - G0.x) + (G1.y - G0.y) * (G1.y - G0.y) + (G1.z - G0.z) * (G1.z - G0.z));
    v.le(ein, 2 * 7e-9L * s + fwd, ("err_in = |Forward(lat1,lon1,h1) - exact point| [m], " + fclass(f)).c_str());
  }
  (void)depth;
  v.nontrivial = true;
  if (v.failed() && known_on(F_DENQ) && in_subnormal_q(a, f, X, Y, Z)) v.known(F_DENQ, v.msg);
  return v;
}

// ---------------------------------------------------------------------------------- C07.e
void mat_checks(Verdict& v, const std::vector<double>& M, double lat, double lon, const char* where) {
  L ortho = 0;
  for (int i = 0; i < 3; ++i)
    for (int j = 0; j < 3; ++j) {
      L d = 0; for (int k = 0; k < 3; ++k) d += (L)M[3 * k + i] * M[3 * k + j];
      ortho = std::max(ortho, fabsl(d - (i == j)));
    }
  L det = (L)M[0] * ((L)M[4] * M[8] - (L)M[5] * M[7]) - (L)M[1] * ((L)M[3] * M[8] - (L)M[5] * M[6]) + (L)M[2] * ((L)M[3] * M[7] - (L)M[4] * M[6]);
  std::string w(where);
  // sines/cosines are quotients by a hypot: <= ~3.5 eps in the worst case (observed max 2.5 eps); frozen at 8 eps
  v.le(ortho, 8 * EPS, (w + ": M^T M - I").c_str());
  v.le(fabsl(det - 1), 8 * EPS, (w + ": det M - 1").c_str());
  L E[9]; mpr::enu(lat, lon, E); L worst = 0;
  for (int i = 0; i < 9; ++i) worst = std::max(worst, fabsl((L)M[i] - E[i]));
  v.le(worst, 4 * EPS, (w + ": columns of M vs east,north,up at the returned position").c_str());
}

Verdict check_e(const J& r) {
  Verdict v; double a = r.getd("a"), f = r.getd("f");
  if (!ell_ok(a, f)) { v.skip("outside documented domain"); return v; }
  Geocentric gc(a, f);
  if (r.has("X")) {
    double X = r.getd("X"), Y = r.getd("Y"), Z = r.getd("Z");
    if (!std::isfinite(X) || !std::isfinite(Y) || !std::isfinite(Z)) { v.skip("outside documented domain"); return v; }
    Rev o = lib_reverse(a, f, X, Y, Z);
    v.tag("reverse"); v.tag(regime(a, f, X, Y, Z)); if (r.has("g")) v.tag("g:" + r.gets("g"));
    if (!(std::fabs(o.lat) <= 90) || !(std::fabs(o.lon) <= 180)) { v.that(false, "lat/lon out of range"); return v; }
    mat_checks(v, o.M, o.lat, o.lon, "Reverse");
    // a vector of wrong size is left alone
    std::vector<double> M8(8, -7.0); double la, lo, hh; gc.Reverse(X, Y, Z, la, lo, hh, M8);
    bool untouched = true; for (double x : M8) untouched = untouched && x == -7.0;
    v.that(untouched && la == o.lat && lo == o.lon, "Reverse with a vector of size != 9");
    if (v.failed() && known_on(F_DENR) && in_subnormal_R(X, Y)) v.known(F_DENR, v.msg);
    if (v.failed() && known_on(F_DENH) && in_subnormal_sphere(f, X, Y, Z)) v.known(F_DENH, v.msg);
    if (v.failed() && known_on(F_DENF) && std::hypot(X, Y) > 0 && std::hypot(X, Y) < DBL_MIN / DBL_EPSILON && regime(a, f, X, Y, Z) == "far-field") v.known(F_DENF, v.msg);
    return v;
  }
  double lat = r.getd("lat"), lon = r.getd("lon"), h = r.getd("h");
  if (!(std::fabs(lat) <= 90) || !std::isfinite(lon) || !std::isfinite(h)) { v.skip("outside documented domain"); return v; }
  v.tag("forward"); if (r.has("g")) v.tag(r.gets("g"));
  std::vector<double> M(9); double X, Y, Z; gc.Forward(lat, lon, h, X, Y, Z, M);
  mat_checks(v, M, lat, lon, "Forward");
  // same M from Reverse at the corresponding point, where the inverse is well conditioned
  if (!std::isfinite(X) || !std::isfinite(Y) || !std::isfinite(Z)) return v;
  mpr::Aux A = mpr::aux(f, lat);
  L e2 = (L)f * (2 - (L)f), hmin = f >= 0 ? -(L)a * (1 - e2) * A.N : -(L)a * A.N;
  L depth = (L)h - hmin;
  if (depth > 0.05L * a * std::min<L>(1, (1 - (L)f) * (1 - (L)f))) {
    Rev o = lib_reverse(a, f, X, Y, Z);
    L rn = sqrtl((L)X * X + (L)Y * Y + (L)Z * Z);
    // angular error = position error / distance from the medial set; near the axis the east/north
    // pair is only defined to (position error)/(distance from the axis)
    L tolang = 4 * EPS + tol_reproj(a, f, rn) / depth;
    L up = 0; for (int i = 2; i < 9; i += 3) up = std::max(up, fabsl((L)M[i] - o.M[i]));
    v.le(up, tolang, "up vector: Forward M vs Reverse M at the corresponding point");
    L Rax = hypotl((L)X, (L)Y);
    if (Rax > 1e-3L * rn) {
      L w = 0; for (int i = 0; i < 9; ++i) w = std::max(w, fabsl((L)M[i] - o.M[i]));
      v.le(w, tolang + 4 * EPS * rn / Rax, "Forward M vs Reverse M at the corresponding point");
      v.tag("fwd-vs-rev");
    }
    if (v.failed() && known_on(F_DENQ) && in_subnormal_q(a, f, X, Y, Z)) v.known(F_DENQ, v.msg);
    if (v.failed() && known_on(F_DENR) && in_subnormal_R(X, Y)) v.known(F_DENR, v.msg);
  }
  return v;
}

// ---------------------------------------------------------------------------------- C07.f
J gen_local() {
  EllG e = gen_ell(); J r = J::obj();
  // the local system is meant for terrestrial use; keep most ellipsoids mild
  if (g::coin(1, 2)) { gg::Ell n = gg::named_ellipsoid(); e.a = n.a; e.f = n.f; }
  double lat0 = gg::latitude(), lon0 = gg::angle();
  double h0 = g::coin(1, 3) ? 0.0 : g::sgn() * g::loguni(1e-3, 1e7);
  r["a"] = J::num(e.a); r["f"] = J::num(e.f); r["lat0"] = J::num(lat0); r["lon0"] = J::num(lon0); r["h0"] = J::num(h0);
  J pts = J::arr();
  int n = (int)g::irange(2, 4);
  for (int i = 0; i < n; ++i) {
    J p = J::obj(); double lat, lon, h;
    switch (g::wpick({3, 2, 2, 2, 3})) {
      case 0: { std::string c; lat = gg::latitude(); lon = gg::angle(); h = gen_height(e.a, e.f, lat, c); break; }
      case 1: lat = lat0; lon = lon0; h = h0 + g::sgn() * g::loguni(1e-6, 1e7); break;                        // along the normal
      case 2: lat = std::max(-90.0, std::min(90.0, lat0 + g::sgn() * g::loguni(1e-12, 1.0))); lon = lon0; h = h0; break;   // north-south
      case 3: lat = lat0; lon = lon0 + g::sgn() * g::loguni(1e-12, 1.0); h = h0; break;                        // east-west
      default: lat = std::max(-90.0, std::min(90.0, lat0 + g::uni(-1, 1) * g::loguni(1e-9, 5.0))); lon = lon0 + g::uni(-1, 1) * g::loguni(1e-9, 5.0);
               h = h0 + g::uni(-1, 1) * g::loguni(1e-3, 1e5);
    }
    p["lat"] = J::num(lat); p["lon"] = J::num(lon); p["h"] = J::num(h); pts.push(p);
  }
  r["pts"] = pts;
  // an independent local point for the completeness of Reverse
  double mag = g::loguni(1e-6, 1e9);
  r["x"] = J::num(mag * g::uni(-1, 1)); r["y"] = J::num(mag * g::uni(-1, 1)); r["z"] = J::num(mag * g::uni(-1, 1));
  return r;
}

Verdict check_f(const J& r) {
  Verdict v; double a = r.getd("a"), f = r.getd("f"), lat0 = r.getd("lat0"), lon0 = r.getd("lon0"), h0 = r.getd("h0");
  if (!ell_ok(a, f) || !(std::fabs(lat0) <= 90) || !std::isfinite(lon0) || !std::isfinite(h0)) { v.skip("outside documented domain"); return v; }
  if (std::fabs(h0) > 1e12 || std::fabs(lon0) > 1e6) { v.skip("beyond generated range"); return v; }
  const J& pts = r.at("pts");
  if (pts.t != J::ARR) { v.skip("malformed record"); return v; }
  Geocentric gc(a, f); LocalCartesian lc(lat0, lon0, h0, gc);
  v.tag(fclass(f));
  mpr::V3 G0 = mpr::geoc_forward(a, f, lat0, lon0, h0);
  L r0 = sqrtl(G0.x * G0.x + G0.y * G0.y + G0.z * G0.z) + fwd_cond(a, f, mpr::aux(f, lat0));
  bool hit_denq = false, hit_denr = false;
  auto finish = [&]() -> Verdict& {
    if (v.failed() && known_on(F_DENQ) && hit_denq) v.known(F_DENQ, v.msg);
    if (v.failed() && known_on(F_DENR) && hit_denr) v.known(F_DENR, v.msg);
    return v;
  };
  // inspectors
  v.that(lc.LatitudeOrigin() == lat0 && lc.HeightOrigin() == h0 && std::fabs(lc.LongitudeOrigin()) <= 180, "origin inspectors");
  v.that(lc.EquatorialRadius() == a && lc.Flattening() == f, "ellipsoid inspectors");
  // origin -> 0
  { double x, y, z; lc.Forward(lat0, lon0, h0, x, y, z);
    v.le(sqrtl((L)x * x + (L)y * y + (L)z * z), 4 * EPS * r0, "origin -> (0,0,0) [m]"); }
  struct P { double lat, lon, h, x, y, z; mpr::V3 G; L rn; };
  std::vector<P> ps;
  for (const J& pj : pts.a) {
    P p; p.lat = pj.getd("lat"); p.lon = pj.getd("lon"); p.h = pj.getd("h");
    if (!(std::fabs(p.lat) <= 90) || !std::isfinite(p.lon) || !std::isfinite(p.h) || std::fabs(p.h) > 1e21 || std::fabs(p.lon) > 1e6) { v.skip("point outside documented domain"); return v; }
    std::vector<double> M(9);
    lc.Forward(p.lat, p.lon, p.h, p.x, p.y, p.z, M);
    p.G = mpr::geoc_forward(a, f, p.lat, p.lon, p.h);
    p.rn = sqrtl(p.G.x * p.G.x + p.G.y * p.G.y + p.G.z * p.G.z) + fwd_cond(a, f, mpr::aux(f, p.lat));
    { double Xc, Yc, Zc; gc.Forward(p.lat, p.lon, p.h, Xc, Yc, Zc);
      hit_denq = hit_denq || near_subnormal_q(a, f, Xc, Yc, Zc); hit_denr = hit_denr || in_subnormal_R(Xc, Yc); }
    mpr::V3 ref = mpr::local_forward(a, f, lat0, lon0, h0, p.lat, p.lon, p.h);
    L tolp = 6 * EPS * (p.rn + r0);
    v.le(sqrtl((p.x - ref.x) * (p.x - ref.x) + (p.y - ref.y) * (p.y - ref.y) + (p.z - ref.z) * (p.z - ref.z)), tolp, "local Forward vs R0^T (G - G0) in 50 digits [m]");
    { double x, y, z; lc.Forward(p.lat, p.lon, p.h, x, y, z); v.that(x == p.x && y == p.y && z == p.z, "local Forward with and without M differ"); }
    // M_local = R0^T M
    L Mr[9]; mpr::local_matrix(lat0, lon0, p.lat, p.lon, Mr); L w = 0;
    for (int i = 0; i < 9; ++i) w = std::max(w, fabsl((L)M[i] - Mr[i]));
    v.le(w, 8 * EPS, "M_local vs R0^T M (50 digits)");
    // Reverse(Forward) = identity: the reverse image re-projects (in local coordinates) onto (x,y,z)
    double la, lo, hh; std::vector<double> M2(9); lc.Reverse(p.x, p.y, p.z, la, lo, hh, M2);
    if (!(std::fabs(la) <= 90 && std::fabs(lo) <= 180)) { v.that(false, "local Reverse: lat/lon out of range"); return finish(); }
    if (std::isfinite(hh)) {
      mpr::V3 back = mpr::local_forward(a, f, lat0, lon0, h0, la, lo, hh);
      v.le(sqrtl((p.x - back.x) * (p.x - back.x) + (p.y - back.y) * (p.y - back.y) + (p.z - back.z) * (p.z - back.z)),
           tol_reproj(a, f, p.rn) + tolp, "local Reverse(Forward(p)) re-projected vs Forward(p) [m]");
      L Mb[9]; mpr::local_matrix(lat0, lon0, la, lo, Mb); L wb = 0;
      for (int i = 0; i < 9; ++i) wb = std::max(wb, fabsl((L)M2[i] - Mb[i]));
      v.le(wb, 8 * EPS, "M from local Reverse vs R0^T enu(returned position)");
    }
    ps.push_back(p);
  }
  // rigid motion: pairwise distances
  for (size_t i = 0; i < ps.size(); ++i)
    for (size_t j = i + 1; j < ps.size(); ++j) {
      L dl = sqrtl(((L)ps[i].x - ps[j].x) * ((L)ps[i].x - ps[j].x) + ((L)ps[i].y - ps[j].y) * ((L)ps[i].y - ps[j].y) + ((L)ps[i].z - ps[j].z) * ((L)ps[i].z - ps[j].z));
      L dg = sqrtl((ps[i].G.x - ps[j].G.x) * (ps[i].G.x - ps[j].G.x) + (ps[i].G.y - ps[j].G.y) * (ps[i].G.y - ps[j].G.y) + (ps[i].G.z - ps[j].G.z) * (ps[i].G.z - ps[j].G.z));
      v.le(fabsl(dl - dg), 6 * EPS * (ps[i].rn + ps[j].rn + 2 * r0), "pairwise distance local vs geocentric [m]");
    }
  // completeness of the local Reverse for an independent (x,y,z)
  {
    double x = r.getd("x"), y = r.getd("y"), z = r.getd("z");
    if (std::isfinite(x) && std::isfinite(y) && std::isfinite(z) && std::fabs(x) < 1e15 && std::fabs(y) < 1e15 && std::fabs(z) < 1e15) {
      double la, lo, hh; lc.Reverse(x, y, z, la, lo, hh);
      if (!(std::fabs(la) <= 90 && std::fabs(lo) <= 180 && std::isfinite(hh))) { v.that(false, "local Reverse of an arbitrary point: out of range"); return finish(); }
      mpr::V3 back = mpr::local_forward(a, f, lat0, lon0, h0, la, lo, hh);
      L rn = sqrtl((L)x * x + (L)y * y + (L)z * z) + r0;
      v.le(sqrtl((x - back.x) * (x - back.x) + (y - back.y) * (y - back.y) + (z - back.z) * (z - back.z)), tol_reproj(a, f, rn) + 6 * EPS * rn,
           "local Forward(Reverse(x,y,z)) vs (x,y,z) [m]");
    }
  }
  v.nontrivial = !ps.empty();
  return finish();
}

J gen_e() { return g::coin() ? gen_xyz() : gen_geo(); }

vf::Reg ra({"C07.a", "generated (ellipsoid incl. sphere/prolate/f to 0.99, latitude incl. poles, any longitude, h from -a to 1e20): Geocentric::Forward vs 50-digit closed form; non-trivial: every case, distinct by record hash", 0.10,
            [] { return rc::gen::exec([] { return gen_geo(); }); }, check_a, nullptr});
vf::Reg rb({"C07.b", "generated (X,Y,Z) over 40 orders of magnitude with the singular sets over-weighted (centre, axis, equatorial plane, singular disc, evolute, beyond _maxrad, denormals, overflowing hypot): 50-digit Forward of Reverse(X,Y,Z) reproduces the input; range of lat, lon; tie-breaks; regime classifier recomputed from the documented conditions; distinct by record hash", 0.35,
            [] { return rc::gen::exec([] { return gen_xyz(); }); }, check_b, nullptr});
vf::Reg rc_({"C07.c", "same generator as C07.b: |h| vs the distance to the ellipsoid from a 50-digit scan of the normal-foot equation; sign of h; documented lower bound of h; non-trivial: not far-field", 0.15,
             [] { return rc::gen::exec([] { return gen_xyz(); }); }, check_c, nullptr});
vf::Reg rd({"C07.d", "generated geodetic (lat,lon,h) above the medial set: Reverse(Forward) with the documented err_h / err_out / err_in figures (x2), scaled by a", 0.15,
            [] { return rc::gen::exec([] { return gen_geo(); }); }, check_d, nullptr});
vf::Reg re({"C07.e", "rotation matrix from Reverse (points of C07.b) and from Forward (points of C07.a): orthonormal, det +1, columns = east,north,up of the returned position (50 digits); Forward M vs Reverse M at corresponding points", 0.10,
            [] { return rc::gen::exec([] { return gen_e(); }); }, check_e, nullptr});
vf::Reg rf({"C07.f", "LocalCartesian: generated origin and 2-4 points (generic, along the normal, N-S, E-W, nearby) plus an independent local (x,y,z): closed form R0^T(G-G0), origin -> 0, pairwise distances, Reverse(Forward), completeness of Reverse, M_local = R0^T M", 0.15,
            [] { return rc::gen::exec([] { return gen_local(); }); }, check_f, nullptr});

}  // namespace

VF_MAIN
