// C06 — transverse Mercator, series and exact (DESIGN 3/C06)
//
// Oracle: ref/tm.hpp (R-TM): (a) analytic continuation of the meridian distance (complex Newton path following +
// complex Gauss-Legendre, long double; extended sheet by integrating W' across the equator), (b) Krueger series to
// order 30 from the frozen table ref/data/tmseries30.txt.  (a) vs (b) are compared on every case where (b)
// converges (skip reason "oracle-disagree" if they ever differ; never seen).  ref/tm_selftest.cpp: max |a-b| =
// 0.022 nm, gamma 3e-16 deg, k 4e-18 over 9 flattenings x 4 longitude bands x 3000 points.
//
// Sub-checks (tolerances in make_tol/ground_tol below):
//   a Forward (x,y) vs R-TM            series |f| <= 0.01: 2 (5 nm k a/a0 + computed 6th-order tail); exact: 2 x 8 nm k a/a0
//   b Reverse(Forward), Forward(Reverse), R-TM(Reverse(x,y))           c series vs exact vs exact-flag (bit-identical)
//   d central meridian                 e gamma, k vs -arg W', k0 |W'|/(N cos phi)       f parities (bit-exact)
//   g lon wrap, poles, far side, extendp                                h UTM() singletons
//
// Defects found by these checks:
//   C06-tauf-prolate           findings/C06-tauf-prolate.md            (series class, f < 0, Reverse)  FIXED in /repo 433cb7a
//   C06-exact-reverse-large-f  findings/C06-exact-reverse-large-f.md   (exact classes, f >~ 0.1, Reverse)  OPEN: reported as
//                              known finding when listed in known_findings.json (vf::known_on), else VIOLATION
//
// SENSITIVITY (scratch copy of /repo, VERIF_REPO=/tmp/mutC06, quick tier, seed 1; "subs" = sub-checks that reported it)
//   M1  alp[6] coefficient sign (high order; visible only at |f| ~ 0.01)   caught  a b c d e g h   (err 1.2e-7 m vs tol 1.4e-8)
//   M13 alp[5] n^6 coefficient sign (high order)                            caught  a b c d e g h
//   M2  alp[2] coefficient 524160 -> 524161 (low order)                     caught  a b c d e g h   (50 um)
//   M6  bet[6] coefficient sign (Reverse, high order)                       caught  b c e
//   M3  b1 n^4 coefficient 4 -> 5                                           caught  a b c d e g h   (0.4 um)
//   M4  Clenshaw derivative recurrence 2*n*alp -> n*alp (Forward)           caught  c d e g         (k off by 1e-6)
//   M5  series backside gamma 180 - g -> 180 + g                            caught  c e g
//   M12 series backside y: pi - xi -> xi                                    caught  a b c g h
//   M14 exact backside gamma 180 - g -> 180 + g                             caught  c e g
//   M7  exact Forward ignores extendp (latsign)                             caught  a b e g
//   M8  exact Reverse ignores extendp in `backside`                         NOT caught: equivalent inside the documented
//                                                                           extendp domain (y <= k0 a E there); replaced by M8b
//   M8b exact Reverse ignores extendp (xisign)                              caught  b
//   M15 exact zetainv0: branch-point regime test inverted (start guess)     caught  a b e
//   M16 exact sigma(): _mu -> _mv in the xi formula                         caught  a b c d e f g h
//   M9  series Forward: AngDiff(lon0, lon) -> lon - lon0                    caught  g (wrap)
//   M10 series pole scale k = _c -> 1                                       caught  d e g
//   M11 TransverseMercator::UTM() built with k0 = 1                         caught  h
//
#include "fw/harness.hpp"
#include "gen/geo.hpp"
#include "ref/tm.hpp"

#include <GeographicLib/Constants.hpp>
#include <GeographicLib/TransverseMercator.hpp>
#include <GeographicLib/TransverseMercatorExact.hpp>

using namespace GeographicLib;
using vf::J; using vf::Verdict;
typedef long double L;

namespace {

const L A0 = 6378137.0L;
const L EPS = 2.220446049250313e-16L;
const L ARCSEC = 1 / 3600.0L;

// ------------------------------------------------------------------------------------------ library access
// cls: 0 TransverseMercator (series), 1 TransverseMercatorExact, 2 TransverseMercator(exact = true)
struct P4 { double x, y, g, k; };
bool ctor_ok(int cls, double a, double f, double k0) {
  if (!(std::isfinite(a) && a > 0 && std::isfinite(k0) && k0 > 0 && std::isfinite(f) && f < 1)) return false;
  if (cls != 0 && !(f > 0)) return false;
  return true;
}
P4 lib_fwd(int cls, bool ext, double a, double f, double k0, double lon0, double lat, double lon) {
  P4 o; o.x = o.y = o.g = o.k = Math::NaN();
  switch (cls) {
    case 0: { TransverseMercator t(a, f, k0); t.Forward(lon0, lat, lon, o.x, o.y, o.g, o.k); break; }
    case 1: { TransverseMercatorExact t(a, f, k0, ext); t.Forward(lon0, lat, lon, o.x, o.y, o.g, o.k); break; }
    default: { TransverseMercator t(a, f, k0, true, ext); t.Forward(lon0, lat, lon, o.x, o.y, o.g, o.k); break; }
  }
  return o;
}
// Reverse: x -> lat, y -> lon in the returned struct
P4 lib_rev(int cls, bool ext, double a, double f, double k0, double lon0, double x, double y) {
  P4 o; o.x = o.y = o.g = o.k = Math::NaN();
  switch (cls) {
    case 0: { TransverseMercator t(a, f, k0); t.Reverse(lon0, x, y, o.x, o.y, o.g, o.k); break; }
    case 1: { TransverseMercatorExact t(a, f, k0, ext); t.Reverse(lon0, x, y, o.x, o.y, o.g, o.k); break; }
    default: { TransverseMercator t(a, f, k0, true, ext); t.Reverse(lon0, x, y, o.x, o.y, o.g, o.k); break; }
  }
  return o;
}

bool fin(const P4& p) { return std::isfinite(p.x) && std::isfinite(p.y) && std::isfinite(p.g) && std::isfinite(p.k); }

// ------------------------------------------------------------------------------------------ tolerances
// Position.  Documented: series 5 nm "ground distance" within 35 deg of the central meridian, exact 8 nm
// (TransverseMercator.hpp / TransverseMercatorExact.hpp).  K = 2 (DESIGN 2).  Ground distance -> grid units by
// the local scale k.  Outside 35 deg the series class is bounded by the *computed* truncation tail of a
// 6th-order series (difference to the 30th-order table, |sin| <= cosh), which reproduces 5 nm at 35 deg and
// grows to metres near the branch point, where the header only promises garbage-free degradation.
// Exact class, f < 1e-3 (no ellipsoid of terrestrial geodesy; the header's figure was obtained on WGS84): the
// Thompson intermediate is ill-conditioned near the branch point like |cos theta_c| ~ up to 1/e; calibrated
// round-off law  err <= 0.5 eps a cond  (max over f = 1e-10 .. 1e-4, 3000 pts/region), frozen at 4 x.
struct Tol { L ground, grid, gam, krel; bool vacuous; };
// Extended sheet south of the equator (extendp): the map grows like exp(|psi|/e) (k ~ 800 at lat -14 on WGS84) and
// the library's own Forward/Reverse agree with each other and with R-TM only to ~ eps a sqrt(k): measured
// max err/(eps a sqrt(k/k0)) = 2.3 for f in [1e-3, 0.1], 4.9 at f = 0.3 (4000 pts each), frozen at 4 x 2.5 resp. 4 x 5.
// The header's 8 nm is kept as the floor.  For f < 1e-3 nothing is asserted there (gross Reverse failures exist
// for nearly spherical ellipsoids in this sliver of 90 e degrees; no terrestrial ellipsoid is affected).
L ground_tol(int cls, const rtm::TM& T, L cond, L kext = 0) {
  if (cls == 0) return 2 * 5e-9L * T.a / A0;
  L t = 2 * 8e-9L * T.a / A0;
  if (T.f < 1e-3L) t += 2 * EPS * T.a * cond;
  if (kext > 0) t += (T.f > 0.1L ? 20 : 10) * EPS * T.a * sqrtl(kext / T.k0);
  return t;
}
// gamma [deg], k [relative].  Documented: convergence 2e-15 arcsec, scale 6e-12 % (series) / 7e-12 % (exact).
// The convergence figure is far below one ulp of gamma in degrees, so a representation/round-off law is added:
//   c1 eps (1 + cond)(1 + |gamma|)      cond = |cos theta_c| = |d ln W'/d zeta| (conditioning w.r.t. the inputs)
//   c2 ground_tol / (N cos phi)          an along-parallel position error turns the frame near the poles
//   series: K x derivative tail + c3 eps x (round-off amplification 1 + sum 2j |alpha_j| cosh 2j eta')
// exact, small f: k shows 0.1 eps cond^2 near the branch point (calibrated as above), frozen at 4 x.
Tol make_tol(int cls, const rtm::TM& T, const rtm::Out& o, const rtm::SeriesOut* s, double lat, bool ext_south = false) {
  Tol t; t.vacuous = false;
  t.ground = ground_tol(cls, T, o.cond, ext_south ? o.k : 0);
  t.grid = (o.k > 0 ? o.k : T.k0) * t.ground + 2 * o.err;
  L th = (90 - (L)std::fabs(lat)) * rtm::DEG;
  L ncos = std::max(T.Ncos(th), 1e-300L);
  L gam_rad = fabsl(o.gamma) * rtm::DEG;
  L g = 8 * EPS * (1 + o.cond) * (1 + gam_rad) + 2 * t.ground / ncos;
  // nearly spherical ellipsoids (f < 1e-6: e < 1.4e-3), exact class: near the branch point the error of gamma and k also
  // grows like 1/e (thorough tier, f = 1e-10, lat 0.005, dlon 90: dk = 2.3 eps cond^2): factor max(1, 1e-3/e), margin 12
  L small_e = (cls != 0 && T.f < 1e-3L) ? 0.4L * EPS * o.cond * o.cond * std::max<L>(1, 1e-3L / std::max<L>(T.es, 1e-12L)) : 0;
  g += small_e;
  if (ext_south) g += 1000 * EPS * (1 + o.cond);    // measured max 250 eps (1 + cond) over 6 seeds for f >= 1e-3 on the extended sheet, x 4
  L kr = 2 * (cls == 0 ? 6e-14L : 7e-14L) + EPS * (12 * (1 + o.cond) + 0.4L * o.cond * o.cond) + small_e + 2 * t.ground / T.a;
  if (ext_south) kr += 1000 * EPS * (1 + o.cond);
  if (cls == 0 && s) {
    t.grid += 2 * s->tail6;
    g += 2 * s->dtail6 + 8 * EPS * s->amp;
    kr += 2 * s->dtail6 + 8 * EPS * s->amp;
    if (!(s->tail6 < 1.0L * T.a / A0)) t.vacuous = true;    // the 6th-order series has lost a metre: "garbage" region
  }
  t.gam = 2 * 2e-15L * ARCSEC + g / rtm::DEG;
  t.krel = kr;
  return t;
}

// ------------------------------------------------------------------------------------------ helpers
// is the double sum a + b exact?  (Knuth two-sum residual)
bool sum_exact(double a, double b) { double s = a + b, bb = s - a, err = (a - (s - bb)) + (b - bb); return std::isfinite(s) && err == 0; }
L eff_dlon(double lon0, double lon) { return remainderl((L)lon - (L)lon0, 360.0L); }
L angdiff(L a, L b) { return fabsl(remainderl(a - b, 360.0L)); }

// distance on the ellipsoid between two nearby geographic points (3-D chord; long double)
L ground_dist(const rtm::TM& T, double lat1, L dl1, double lat2, L dl2) {
  auto cart = [&](double lat, L dl, L* p) {
    L th = (90 - (L)std::fabs(lat)) * rtm::DEG, s = cosl(th), c = sinl(th);   // sin(phi), cos(phi) from the colatitude
    if (std::signbit(lat)) s = -s;
    L N = T.a / sqrtl(1 - T.e2 * s * s), lam = remainderl(dl, 360.0L) * rtm::DEG;
    p[0] = N * c * cosl(lam); p[1] = N * c * sinl(lam); p[2] = N * (1 - T.e2) * s;
  };
  L p[3], q[3]; cart(lat1, dl1, p); cart(lat2, dl2, q);
  return sqrtl((p[0] - q[0]) * (p[0] - q[0]) + (p[1] - q[1]) * (p[1] - q[1]) + (p[2] - q[2]) * (p[2] - q[2]));
}

bool bits_eq(double a, double b) { return (a == b) || (std::isnan(a) && std::isnan(b)); }   // +0 == -0 accepted
bool neg_eq(double a, double b) { return (a == -b) || (std::isnan(a) && std::isnan(b)); }
bool ang_eq(double a, double b) { return (std::isnan(a) && std::isnan(b)) || std::fabs(std::remainder(a - b, 360.0)) == 0; }

void tag_common(Verdict& v, int cls, bool ext, double f, L dlon, double lat) {
  v.tag(cls == 0 ? "series" : cls == 1 ? "exact" : "tm-exact-flag");
  if (ext) v.tag("extendp");
  L ad = fabsl(dlon);
  v.tag(ad <= 1e-6L ? "dlon<=1e-6" : ad <= 35 ? "dlon<=35" : ad <= 75 ? "dlon<=75" : ad <= 90 ? "dlon<=90" : "farside");
  double af = std::fabs(f);
  v.tag(f == 0 ? "f=0" : f < 0 ? (af >= 0.005 ? "f<0 large" : "f<0") : af < 1e-5 ? "f>0 tiny" : af <= 0.0034 ? "f>0 <=wgs84" : af <= 0.0101 ? "f>0 <=0.01" : "f>0.01");
  if (std::fabs(lat) == 90) v.tag("pole");
  if (lat == 0) v.tag("equator");
}

// ------------------------------------------------------------------------------------------ generators
struct Ell { double a, f, k0; };
double gen_a() { return vf::g::coin(3, 4) ? 6378137.0 : vf::g::loguni(1.0, 1e9); }
double gen_k0() { switch (vf::g::wpick({50, 20, 30})) { case 0: return 0.9996; case 1: return 1.0; default: return vf::g::loguni(0.5, 2.0); } }
// series class: |f| <= fmax (0.01 = documented domain of the 6th-order series; callers may widen for round trip/parity)
Ell gen_ell_series(double fmax) {
  Ell e; e.a = gen_a(); e.k0 = gen_k0();
  switch (vf::g::wpick({25, 15, 25, 20, 7, 8})) {
    case 0: { gg::Ell n = gg::named_ellipsoid(); e.a = n.a; e.f = n.f; break; }
    case 1: e.f = vf::g::sgn() * vf::g::loguni(1e-12, fmax); break;
    case 2: e.f = vf::g::sgn() * vf::g::oneof<double>({0.01, 0.01, 1 / 150.0, 0.008}) * (fmax > 0.01 && vf::g::coin(1, 3) ? fmax / 0.01 : 1); break;   // high-order coefficients are only visible here
    case 3: e.f = vf::g::uni(-fmax, fmax); break;
    case 4: e.f = 0; break;
    default: e.f = vf::g::sgn() * vf::g::loguni(1e-3, fmax);
  }
  return e;
}
Ell gen_ell_exact() {
  Ell e; e.a = gen_a(); e.k0 = gen_k0();
  switch (vf::g::wpick({30, 25, 15, 20, 10})) {
    case 0: { gg::Ell n = gg::named_ellipsoid(); e.a = n.a; e.f = n.f; if (!(e.f > 0)) e.f = gg::F_WGS84; break; }
    case 1: e.f = vf::g::loguni(1e-10, 0.3); break;
    case 2: e.f = vf::g::oneof<double>({0.01, 1 / 150.0, 0.1, 0.2, 0.3, 1e-10, 1e-6}); break;
    case 3: e.f = vf::g::uni(1e-3, 0.3); break;
    default: e.f = vf::g::loguni(1e-3, 0.02);
  }
  return e;
}
// central meridian on a 2^-20 degree lattice (so that lon0 +- dlon and +360k are exact for lattice dlon)
double lattice(double x) { return std::round(x * 1048576.0) / 1048576.0; }
double gen_lon0() {
  switch (vf::g::wpick({40, 20, 20, 20})) {
    case 0: return lattice(vf::g::uni(-180, 180));
    case 1: return (double)(6 * vf::g::irange(-30, 30) - 3);
    case 2: return vf::g::oneof<double>({0.0, -0.0, 180.0, -180.0, 90.0, 177.0, -177.0});
    default: return gg::angle();
  }
}
// longitude offset from the central meridian, by band; e = first eccentricity (0 for f <= 0)
double gen_dlon(double e, int* band) {
  double lb = 90 * (1 - e);
  int c = vf::g::wpick({38, 8, 8, 12, 6, 10, 10, 8});
  if (band) *band = c;
  switch (c) {
    case 0: return vf::g::uni(-35, 35);
    case 1: return vf::g::sgn() * vf::g::loguni(1e-12, 1.0);
    case 2: return vf::g::sgn() * vf::g::ulps(vf::g::oneof<double>({35, 3, 6, 30}), (int)vf::g::irange(-2, 2));
    case 3: return vf::g::sgn() * vf::g::uni(35, 75);
    case 4: return vf::g::sgn() * vf::g::uni(75, 90);
    case 5: return vf::g::sgn() * vf::g::uni(90, 180);
    case 6: return vf::g::sgn() * (lb + vf::g::sgn() * vf::g::loguni(1e-9, 3.0));        // around the branch longitude
    default: return vf::g::sgn() * vf::g::ulps(vf::g::oneof<double>({0, 90, 180, 45, 89, 91, 179}), (int)vf::g::irange(-3, 3));
  }
}
double gen_lat(int band) {
  if (band == 6 && vf::g::coin(3, 4)) return vf::g::coin(1, 8) ? 0.0 : vf::g::sgn() * vf::g::loguni(1e-12, 3.0);   // near the branch point
  return gg::latitude();
}
double ecc(double f) { return f > 0 ? std::sqrt(f * (2 - f)) : 0; }

J put_ell(J r, int cls, const Ell& e) {
  r["cls"] = J::integer(cls); r["a"] = J::num(e.a); r["f"] = J::num(e.f); r["k0"] = J::num(e.k0); return r;
}
// a (class, ellipsoid, lon0, lat, lon, extendp) record; extendp cases are confined to the documented domain
J gen_point(double fmax_series, bool allow_ext) {
  int cls = vf::g::wpick({50, 35, 15});
  Ell e = cls == 0 ? gen_ell_series(fmax_series) : gen_ell_exact();
  J r = put_ell(J::obj(), cls, e);
  bool ext = allow_ext && cls != 0 && vf::g::coin(1, 4);
  r["ext"] = J::integer(ext);
  double lon0 = gen_lon0(); int band = 0;
  double lat, dlon;
  if (!ext) { dlon = gen_dlon(ecc(e.f), &band); lat = gen_lat(band); }
  else {
    double lb = 90 * (1 - ecc(e.f));
    if (vf::g::coin()) {                      // lat in [0,90], dlon in [0,90]
      dlon = std::fabs(gen_dlon(ecc(e.f), &band)); if (dlon > 90) dlon = 180 - dlon;
      lat = std::fabs(gen_lat(band));
    } else {                                  // lat in (-90,0], dlon in [90(1-e), 90]
      lon0 = lattice(lon0); if (std::fabs(lon0) > 1e4) lon0 = 0;
      dlon = vf::g::coin(1, 6) ? 90.0 : vf::g::coin(1, 5) ? std::min(90.0, lb + vf::g::loguni(1e-6, 1.0)) : vf::g::uni(std::min(lb + 1e-6, 90.0), 90.0);
      switch (vf::g::wpick({40, 30, 20, 10})) {
        case 0: lat = -vf::g::loguni(1e-10, 10.0); break;
        case 1: lat = -vf::g::uni(0, 30); break;
        case 2: lat = -vf::g::uni(0, 89.9); break;
        default: lat = -0.0;
      }
    }
  }
  r["lon0"] = J::num(lon0); r["lat"] = J::num(lat); r["lon"] = J::num(lon0 + dlon);
  return r;
}

struct Case { int cls; bool ext; double a, f, k0, lon0, lat, lon; L dlon; bool ok; };
Case read_case(const J& r, bool need_point = true) {
  Case c; c.cls = (int)r.geti("cls"); c.ext = r.has("ext") && r.geti("ext");
  c.a = r.getd("a"); c.f = r.getd("f"); c.k0 = r.getd("k0");
  c.lon0 = r.has("lon0") ? r.getd("lon0") : 0; c.lat = r.has("lat") ? r.getd("lat") : 0; c.lon = r.has("lon") ? r.getd("lon") : 0;
  c.ok = c.cls >= 0 && c.cls <= 2 && ctor_ok(c.cls, c.a, c.f, c.k0) && !(c.ext && c.cls == 0);
  // generated ranges (records may be altered by the shrinker / simplifier)
  c.ok = c.ok && c.a >= 1e-3 && c.a <= 1e12 && c.k0 >= 1e-3 && c.k0 <= 1e3 && std::fabs(c.f) <= 0.5 && (c.cls == 0 || c.f >= 1e-12);
  if (need_point) c.ok = c.ok && std::fabs(c.lat) <= 90 && std::isfinite(c.lon0) && std::isfinite(c.lon) && std::fabs(c.lon0) <= 1e6 && std::fabs(c.lon) <= 1e6;
  c.dlon = c.ok ? eff_dlon(c.lon0, c.lon) : 0;
  return c;
}
// extendp: is (lat, dlon) inside the documented domain?  (margin: one ulp-ish of the branch longitude)
bool ext_domain(const rtm::TM& T, double lat, L dlon) {
  if (!(dlon >= 0 && dlon <= 90)) return false;
  if (lat >= 0) return true;        // incl. -0: the library does not fold signs in this mode, -0 is the equator
  return lat > -90 && dlon * rtm::DEG >= T.lamb * (1 + 4 * EPS);
}
// reference for a case (standard or extended sheet)
rtm::Out ref_fwd(const rtm::TM& T, const Case& c) {
  if (c.ext && (c.lat < 0)) return T.forward_ext(c.lat, c.dlon);
  return T.forward(c.ext ? std::fabs(c.lat) : c.lat, c.dlon);      // extendp: lat = -0 is not folded
}
// self-check of the oracle: (a) against (b) where the 30th-order series converges.  true = consistent
bool oracle_consistent(const rtm::TM& T, const rtm::Out& o, const rtm::SeriesOut& s) {
  if (!s.ok || !(s.tail30 < 1e-12L * T.a / A0)) return true;
  return hypotl(o.x - s.x, o.y - s.y) <= 1e-10L * T.a / A0 * (1 + o.k / T.k0) + 4 * s.tail30 + 2 * o.err;
}

// Relations that involve Reverse are evaluated into a separate verdict and merged, so that the open defect
// findings/C06-exact-reverse-large-f.md can be reported as a known finding without hiding Forward.
void merge_rev(Verdict& v, const Verdict& vr, const Case& c) {
  if (vr.ratio > v.ratio || !(vr.ratio == vr.ratio)) { v.ratio = vr.ratio; v.worst = vr.worst; }
  if (!vr.failed()) return;
  const char* id = nullptr;
  // (C06-tauf-prolate, Math::tauf wrong Newton slope for es < 0, was fixed in /repo by 433cb7a: no guard any more)
  if (c.cls != 0 && c.f > 0.05) id = "C06-exact-reverse-large-f";       // sigmainv: Newton from sigmainv0 reaches a wrong point
  if (id && vf::known_on(id)) { if (!v.failed()) v.known(id, vr.msg); return; }
  if (v.st == Verdict::PASS) { v.st = Verdict::FAIL; v.msg = vr.msg; }
}

// ------------------------------------------------------------------------------------------ C06.a Forward vs R-TM
Verdict check_a(const J& r) {
  Verdict v; Case c = read_case(r);
  if (!c.ok) { v.skip("outside documented domain"); return v; }
  if (c.cls == 0 && std::fabs(c.f) > 0.01) { v.skip("series class beyond |f| <= 0.01: nothing documented"); return v; }
  rtm::TM T(c.a, c.f, c.k0);
  if (c.ext && !ext_domain(T, c.lat, c.dlon)) { v.skip("outside the documented extendp domain"); return v; }
  P4 p = lib_fwd(c.cls, c.ext, c.a, c.f, c.k0, c.lon0, c.lat, c.lon);
  tag_common(v, c.cls, c.ext, c.f, c.dlon, c.lat);
  rtm::Out o = ref_fwd(T, c);
  if (!o.ok) { v.skip(std::string("oracle refused: ") + o.why); return v; }
  rtm::SeriesOut s; bool sheet_std = !(c.ext && c.lat < 0);
  if (sheet_std) { s = T.forward_series(c.lat, c.dlon); if (!oracle_consistent(T, o, s)) { v.skip("oracle-disagree: R-TM(a) vs R-TM(b)"); return v; } }
  Tol t = make_tol(c.cls, T, o, (c.cls == 0 && sheet_std) ? &s : nullptr, c.lat, !sheet_std);
  if (!sheet_std) {
    v.tag("ext-south");
    if (c.f < 1e-3) { v.tag("ext-south small f(no relation)"); v.nontrivial = false; return v; }
    if (!(o.err <= 0.05L * t.grid)) { v.skip("oracle refused: extended-sheet quadrature not accurate enough here"); return v; }
  }
  if (o.rerouted) v.tag("oracle-rerouted");
  if (t.vacuous) { v.tag("series-diverged(>1m tail)"); v.nontrivial = false; v.that(!std::isnan(p.x) || true, "no crash"); return v; }
  v.nontrivial = fabsl(c.dlon) > 1e-6L && std::fabs(c.lat) < 90;
  L dy = o.ysign_free ? fabsl((L)p.y) - fabsl(o.y) : (L)p.y - o.y;
  if (o.ysign_free) v.tag("equator-farside(y sign free)");
  v.le(hypotl((L)p.x - o.x, dy), t.grid, "Forward (x,y) vs R-TM [m, grid]");
  return v;
}

// ------------------------------------------------------------------------------------------ C06.b round trips
// rec: point case + independent (x,y) (fractions of k0*a)
Verdict check_b(const J& r) {
  Verdict v; Case c = read_case(r);
  if (!c.ok) { v.skip("outside documented domain"); return v; }
  if (c.cls == 0 && std::fabs(c.f) > 0.1) { v.skip("series class beyond the generated |f| <= 0.1"); return v; }
  rtm::TM T(c.a, c.f, c.k0);
  if (c.ext && !ext_domain(T, c.lat, c.dlon)) { v.skip("outside the documented extendp domain"); return v; }
  tag_common(v, c.cls, c.ext, c.f, c.dlon, c.lat);
  int mode = (int)r.geti("mode");       // 0: Reverse(Forward(p)),  1: Forward(Reverse(x,y)) and Reverse vs oracle
  if (mode == 0) {
    v.tag("rev(fwd)");
    P4 p = lib_fwd(c.cls, c.ext, c.a, c.f, c.k0, c.lon0, c.lat, c.lon);
    // tolerance from the reference at the point (conditioning, tails); if the oracle refuses use the exact-class law
    rtm::Out o = ref_fwd(T, c);
    rtm::SeriesOut s; L tailf = 0, tailr = 0;
    if (c.cls == 0) {
      // the series class near / beyond its singular point (equator, 90(1-e) deg; the sphere maps it to infinity):
      // nothing is documented where the 6th-order series has lost a metre or where the image is not finite
      if (!fin(p) || !o.ok) { v.tag(!fin(p) ? "series-overflow(no relation)" : "series near singular point(no relation)"); v.nontrivial = false; lib_rev(0, false, c.a, c.f, c.k0, c.lon0, p.x, p.y); return v; }
      s = T.forward_series(c.lat, c.dlon); L t6, d6, t30; T.reverse_tail(p.x, p.y, t6, d6, t30);
      tailf = s.tail6 / std::max<L>(s.k, T.k0 * 1e-3L); tailr = t6 * T.a;
      if (!(tailf + tailr < 1.0L * T.a / A0)) { v.tag("series-diverged(>1m tail)"); v.nontrivial = false; return v; }
    }
    P4 q = lib_rev(c.cls, c.ext, c.a, c.f, c.k0, c.lon0, p.x, p.y);
    Verdict vr;
    vr.that(std::fabs(q.x) <= 90, "Reverse lat outside [-90,90] or NaN");
    vr.that(std::fabs(q.y) <= 180, "Reverse lon outside [-180,180] or NaN");
    if (vr.failed()) { merge_rev(v, vr, c); return v; }
    L cond = o.ok ? o.cond : 1 / std::max<L>(T.es, 1e-3L);
    if (!o.ok) v.tag("oracle-refused(tolerance from worst-case conditioning)");
    bool exts = c.ext && c.lat < 0;
    L tol = 2 * ground_tol(c.cls, T, cond, exts && o.ok ? o.k : 0) + 2 * (tailf + tailr);
    // the returned (lat, lon) are doubles in degrees, lon = AngNormalize(lon + lon0): ulps of each, as a distance
    tol += EPS * T.a * (std::fabs(q.x) + std::fabs(q.y) + 2 * std::fabs(c.lon0) + 1) * rtm::DEG;
    // the grid point handed to Reverse is a pair of doubles: half an ulp of |x|,|y| mapped to the ground by 1/k
    if (o.ok && o.k > 0) tol += EPS * (std::fabs(p.x) + std::fabs(p.y)) / o.k;
    bool yfree = std::fabs(c.lat) == 0 && fabsl(c.dlon) > 90;   // the equator on the far side is the cut: either sign of y/lat
    L d = ground_dist(T, yfree ? std::fabs(c.lat) : c.lat, c.dlon, yfree ? std::fabs(q.x) : q.x, eff_dlon(c.lon0, q.y));
    if (c.ext && c.lat < 0) {
      v.tag("ext-south");
      // far from the equator the extended sheet grows like exp(|psi|/e) (x ~ 1e22 m at lat -84 on WGS84); relations are
      // asserted where the reference can resolve the map (same gate as C06.a)
      if (c.f < 1e-3) { v.tag("ext-south small f(no relation)"); v.nontrivial = false; return v; }
      if (!o.ok || !(o.err <= 0.05L * (o.k * ground_tol(c.cls, T, o.cond, o.k) + 2 * o.err))) { v.tag("ext-south-unresolved(no relation)"); v.nontrivial = false; return v; }
    }
    v.nontrivial = fabsl(c.dlon) > 1e-6L && std::fabs(c.lat) < 90;
    vr.le(d, tol, "Reverse(Forward(lat,lon)) vs (lat,lon) [m, ground]");
    merge_rev(v, vr, c);
    return v;
  }
  // mode 1: independent grid point
  v.tag("fwd(rev)");
  double x = r.getd("xf") * c.k0 * c.a, y = r.getd("yf") * c.k0 * c.a;
  if (!std::isfinite(x) || !std::isfinite(y) || std::fabs(r.getd("xf")) > 6 || std::fabs(r.getd("yf")) > 6) { v.skip("beyond generated range"); return v; }
  if (c.ext) { v.skip("extendp grid domain is exercised through images (mode 0)"); return v; }
  if (!(fabsl((L)y) <= 2 * T.k0 * T.Mq)) { v.tag("beyond-antipode(no relation)"); v.nontrivial = false; lib_rev(c.cls, false, c.a, c.f, c.k0, c.lon0, x, y); return v; }
  P4 q = lib_rev(c.cls, false, c.a, c.f, c.k0, c.lon0, x, y);
  if (c.cls == 0) {
    L t6, d6, t30; T.reverse_tail(x, y, t6, d6, t30);
    if (!(t6 * T.a < 1.0L * T.a / A0)) { v.tag("series-diverged(>1m tail)"); v.nontrivial = false; return v; }
  }
  Verdict vr;
  vr.that(std::fabs(q.x) <= 90, "Reverse lat outside [-90,90] or NaN");
  vr.that(std::fabs(q.y) <= 180, "Reverse lon outside [-180,180] or NaN");
  if (vr.failed()) { merge_rev(v, vr, c); return v; }
  L dl = eff_dlon(c.lon0, q.y);
  rtm::Out o = T.forward(q.x, dl);
  if (!o.ok) { v.skip(std::string("oracle refused: ") + o.why); return v; }
  rtm::SeriesOut s = T.forward_series(q.x, dl);
  if (!oracle_consistent(T, o, s)) { v.skip("oracle-disagree: R-TM(a) vs R-TM(b)"); return v; }
  // exact class: Reverse continues analytically in x beyond the image of the ellipsoid (documented); such grid points
  // have no preimage on the principal sheet and are recognised by the oracle mapping the result elsewhere
  L tailr = 0;
  if (c.cls == 0) { L t6, d6, t30; T.reverse_tail(x, y, t6, d6, t30); tailr = t6 * T.a; }
  L tolg = ground_tol(c.cls, T, o.cond) + 2 * tailr + EPS * T.a * (std::fabs(q.x) + std::fabs(q.y) + 2 * std::fabs(c.lon0) + 1) * rtm::DEG;
  L tol = o.k * tolg + 2 * o.err + EPS * (std::fabs(x) + std::fabs(y));
  L dy = (q.x == 0 && fabsl(dl) > 90) ? fabsl(o.y) - fabsl((L)y) : o.y - (L)y;
  L d = hypotl(o.x - (L)x, dy);
  if (c.cls != 0 && d > tol) {
    // outside the image?  (only possible for |x| beyond the branch-point easting)
    rtm::Out ob = T.forward(1e-9, (double)(T.lamb / rtm::DEG) - 1e-4);
    if (!ob.ok || fabsl((L)x) >= 0.999L * ob.x) { v.tag("outside-image(no relation)"); v.nontrivial = false; return v; }
  }
  v.nontrivial = std::fabs(x) > 1e-3 * c.a;
  vr.le(d, tol, "R-TM(Reverse(x,y)) vs (x,y) [m, grid]");
  // and the library's own Forward of it
  P4 p = lib_fwd(c.cls, false, c.a, c.f, c.k0, c.lon0, q.x, q.y);
  L tolf = tol + o.k * ground_tol(c.cls, T, o.cond) + (c.cls == 0 ? 2 * s.tail6 : 0);
  if (!(c.cls == 0 && !(s.tail6 < 1.0L * T.a / A0))) {
    L dy2 = (q.x == 0 && fabsl(dl) > 90) ? fabsl((L)p.y) - fabsl((L)y) : (L)p.y - (L)y;
    vr.le(hypotl((L)p.x - (L)x, dy2), tolf, "Forward(Reverse(x,y)) vs (x,y) [m, grid]");
  }
  merge_rev(v, vr, c);
  return v;
}

// ------------------------------------------------------------------------------------------ C06.c series vs exact vs exact-flag
Verdict check_c(const J& r) {
  Verdict v; Case c = read_case(r);
  if (!c.ok || !(c.f >= 1e-10) || c.f > 0.01) { v.skip("outside the common domain (1e-10 <= f <= 0.01)"); return v; }
  rtm::TM T(c.a, c.f, c.k0);
  tag_common(v, 0, false, c.f, c.dlon, c.lat);
  P4 ps = lib_fwd(0, false, c.a, c.f, c.k0, c.lon0, c.lat, c.lon);
  P4 pe = lib_fwd(1, false, c.a, c.f, c.k0, c.lon0, c.lat, c.lon);
  P4 pf = lib_fwd(2, false, c.a, c.f, c.k0, c.lon0, c.lat, c.lon);
  // TransverseMercator(exact = true) "delegates the calculations to TransverseMercatorExact": identical results
  v.that(bits_eq(pe.x, pf.x) && bits_eq(pe.y, pf.y) && bits_eq(pe.g, pf.g) && bits_eq(pe.k, pf.k), "TransverseMercator(exact=true).Forward differs from TransverseMercatorExact.Forward");
  P4 qe = lib_rev(1, false, c.a, c.f, c.k0, c.lon0, pe.x, pe.y), qf = lib_rev(2, false, c.a, c.f, c.k0, c.lon0, pe.x, pe.y);
  v.that(bits_eq(qe.x, qf.x) && bits_eq(qe.y, qf.y) && bits_eq(qe.g, qf.g) && bits_eq(qe.k, qf.k), "TransverseMercator(exact=true).Reverse differs from TransverseMercatorExact.Reverse");
  if (v.failed()) return v;
  rtm::Out o = T.forward(c.lat, c.dlon);
  rtm::SeriesOut s = T.forward_series(c.lat, c.dlon);
  L cond = o.ok ? o.cond : 1 / std::max<L>(T.es, 1e-3L);
  if (!o.ok) {   // tolerances need k and the conditioning: take them from the 30th-order series if it converges
    if (!(s.ok && s.tail30 < 1e-6L)) { v.skip(std::string("oracle refused: ") + o.why); return v; }
    o.k = s.k; o.gamma = s.gamma; o.cond = cond; o.err = 0; o.ok = true; v.tag("oracle-refused(k from series30)");
  }
  Tol ts = make_tol(0, T, o, &s, c.lat), te = make_tol(1, T, o, nullptr, c.lat);
  if (ts.vacuous) { v.tag("series-diverged(>1m tail)"); v.nontrivial = false; return v; }
  v.nontrivial = fabsl(c.dlon) > 1e-6L && std::fabs(c.lat) < 90;
  bool yfree = c.lat == 0 && fabsl(c.dlon) > 90;
  L dy = yfree ? fabsl((L)ps.y) - fabsl((L)pe.y) : (L)ps.y - (L)pe.y;
  v.le(hypotl((L)ps.x - (L)pe.x, dy), ts.grid + te.grid, "series vs exact Forward (x,y) [m, grid]");
  if (std::fabs(c.lat) < 90) {
    L gt = ts.gam + te.gam;
    if (gt < 90) v.le(angdiff(ps.g, pe.g), gt, "series vs exact convergence [deg]");
    v.le(fabsl((L)ps.k / (L)pe.k - 1), ts.krel + te.krel, "series vs exact scale [relative]");
  }
  // Reverse at the exact image
  P4 qs = lib_rev(0, false, c.a, c.f, c.k0, c.lon0, pe.x, pe.y);
  L t6, d6, t30; T.reverse_tail(pe.x, pe.y, t6, d6, t30);
  if (t6 * T.a < 1.0L * T.a / A0 && !yfree) {
    L tol = ts.ground + te.ground + 2 * t6 * T.a + EPS * T.a * 4 * (std::fabs(qe.x) + std::fabs(qe.y) + std::fabs(c.lon0) + 1) * rtm::DEG + 2 * EPS * (std::fabs(pe.x) + std::fabs(pe.y)) / std::max<L>(o.k, 1e-3L);
    v.le(ground_dist(T, qs.x, eff_dlon(c.lon0, qs.y), qe.x, eff_dlon(c.lon0, qe.y)), tol, "series vs exact Reverse (lat,lon) [m, ground]");
  }
  return v;
}

// ------------------------------------------------------------------------------------------ C06.d central meridian
Verdict check_d(const J& r) {
  Verdict v; Case c = read_case(r);
  if (!c.ok) { v.skip("outside documented domain"); return v; }
  if (c.cls == 0 && std::fabs(c.f) > 0.01) { v.skip("series class beyond |f| <= 0.01"); return v; }
  if (c.dlon != 0) { v.skip("not on the central meridian"); return v; }
  if (c.ext && (c.lat < 0 || std::signbit(c.lat))) { v.skip("outside the documented extendp domain"); return v; }
  rtm::TM T(c.a, c.f, c.k0);
  tag_common(v, c.cls, c.ext, c.f, c.dlon, c.lat);
  if (c.lon != c.lon0) v.tag("lon=lon0+360k");
  P4 p = lib_fwd(c.cls, c.ext, c.a, c.f, c.k0, c.lon0, c.lat, c.lon);
  rtm::Out o; o.ok = true; o.k = c.k0; o.cond = fabsl(sinl((L)c.lat * rtm::DEG)); o.gamma = 0; o.err = 8 * rtm::EPSL * T.a * T.k0;
  rtm::SeriesOut s = T.forward_series(c.lat, 0);
  Tol t = make_tol(c.cls, T, o, c.cls == 0 ? &s : nullptr, c.lat);
  v.nontrivial = c.lat != 0;
  // x and gamma are odd in lon - lon0, hence 0 here; the series class returns exact zeros, the exact class a
  // round-off sized value (1e-10 m at f = 0.2), so only the tolerance is asserted
  v.le(fabsl((L)p.x), t.grid, "central meridian: x vs 0 [m]");
  if (std::fabs(c.lat) < 90) v.le(fabsl((L)p.g), t.gam, "central meridian: convergence vs 0 [deg]");
  v.le(fabsl((L)p.y - T.k0 * T.meridian(c.lat)), t.grid, "central meridian: y vs k0 * meridian distance (quadrature) [m]");
  v.le(fabsl((L)p.k / T.k0 - 1), t.krel, "central meridian: k vs k0 [relative]");
  // Reverse on the central meridian
  double y = (double)(T.k0 * T.meridian(c.lat));
  P4 q = lib_rev(c.cls, c.ext, c.a, c.f, c.k0, c.lon0, 0.0, y);
  L t6 = 0, d6 = 0, t30 = 0; if (c.cls == 0) T.reverse_tail(0, y, t6, d6, t30);
  Verdict vr;
  // (lat, lon) as a point: the longitude of a point next to the pole is ill-conditioned, its position is not
  vr.le(ground_dist(T, c.lat, 0, q.x, eff_dlon(c.lon0, q.y)), t.ground + 2 * t6 * T.a + EPS * T.a * 2 + EPS * std::fabs(y) + 4 * EPS * T.a * rtm::DEG * (std::fabs(c.lon0) + 360), "central meridian: Reverse(0, k0 M(lat)) vs (lat, lon0) [m, ground]");
  if (std::fabs(c.lat) < 90) vr.le(fabsl((L)q.g), t.gam + 2 * d6 / rtm::DEG, "central meridian: Reverse convergence vs 0 [deg]");
  vr.le(fabsl((L)q.k / T.k0 - 1), t.krel + 2 * d6, "central meridian: Reverse k vs k0 [relative]");
  merge_rev(v, vr, c);
  return v;
}

// ------------------------------------------------------------------------------------------ C06.e gamma, k
Verdict check_e(const J& r) {
  Verdict v; Case c = read_case(r);
  if (!c.ok) { v.skip("outside documented domain"); return v; }
  if (c.cls == 0 && std::fabs(c.f) > 0.01) { v.skip("series class beyond |f| <= 0.01"); return v; }
  rtm::TM T(c.a, c.f, c.k0);
  if (c.ext && !ext_domain(T, c.lat, c.dlon)) { v.skip("outside the documented extendp domain"); return v; }
  tag_common(v, c.cls, c.ext, c.f, c.dlon, c.lat);
  P4 p = lib_fwd(c.cls, c.ext, c.a, c.f, c.k0, c.lon0, c.lat, c.lon);
  rtm::Out o = ref_fwd(T, c);
  if (!o.ok) { v.skip(std::string("oracle refused: ") + o.why); return v; }
  bool sheet_std = !(c.ext && c.lat < 0);
  rtm::SeriesOut s; if (sheet_std) { s = T.forward_series(c.lat, c.dlon); if (!oracle_consistent(T, o, s)) { v.skip("oracle-disagree: R-TM(a) vs R-TM(b)"); return v; } }
  Tol t = make_tol(c.cls, T, o, (c.cls == 0 && sheet_std) ? &s : nullptr, c.lat, !sheet_std);
  if (!sheet_std) {
    v.tag("ext-south");
    if (c.f < 1e-3) { v.tag("ext-south small f(no relation)"); v.nontrivial = false; return v; }
    if (!(o.err <= 0.05L * t.grid)) { v.skip("oracle refused: extended-sheet quadrature not accurate enough here"); return v; }
  }
  if (t.vacuous) { v.tag("series-diverged(>1m tail)"); v.nontrivial = false; return v; }
  v.nontrivial = fabsl(c.dlon) > 1e-6L && std::fabs(c.lat) < 90;
  if (std::fabs(c.lat) == 90) {
    // pole: gamma = longitude offset (the limit of -arg W'), k = k0
    v.le(angdiff(p.g, o.gamma), 4 * EPS * 360, "pole: convergence vs longitude offset [deg]");
    v.le(fabsl((L)p.k / T.k0 - 1), t.krel, "pole: k vs k0 [relative]");
    return v;
  }
  if (o.ysign_free) {   // the cut: gamma follows the sign convention of y
    v.le(std::min(angdiff(p.g, o.gamma), angdiff(p.g, -o.gamma)), t.gam, "convergence vs -arg W' of the reference map (equator far side, either sheet) [deg]");
  } else if (t.gam < 90) v.le(angdiff(p.g, o.gamma), t.gam, "convergence vs -arg W' of the reference map [deg]");
  else v.tag("gamma-illconditioned");
  v.le(fabsl((L)p.k / o.k - 1), t.krel, "scale vs |W'| / (N cos phi) of the reference map [relative]");
  v.that(std::fabs(p.g) <= 180, "convergence outside [-180,180]");
  // Reverse returns gamma and k at the preimage: compare with the reference map at the returned point
  if (!c.ext) {
    P4 q = lib_rev(c.cls, false, c.a, c.f, c.k0, c.lon0, p.x, p.y);
    if (std::fabs(q.x) < 90 && std::isfinite(q.y)) {
      L dl = eff_dlon(c.lon0, q.y);
      rtm::Out o2 = T.forward(q.x, dl);
      if (o2.ok) {
        rtm::SeriesOut s2; L d6 = 0;
        if (c.cls == 0) { s2 = T.forward_series(q.x, dl); L t6, t30; T.reverse_tail(p.x, p.y, t6, d6, t30); }
        Tol t2 = make_tol(c.cls, T, o2, c.cls == 0 ? &s2 : nullptr, q.x);
        if (!t2.vacuous && !(c.cls == 0 && !(d6 < 1e-3L))) {
          L tg = t2.gam + 2 * d6 / rtm::DEG, tk = t2.krel + 2 * d6;
          // on the cut (equator beyond the branch longitude / on the far side) a returned latitude of +-(tiny) picks the
          // sheet: gamma of either side is the convergence at the returned point
          bool cut = std::fabs(q.x) < 1e-9 && fabsl(dl) * rtm::DEG > T.lamb - 1e-9L;
          Verdict vr;
          if (tg < 90) vr.le(cut ? std::min(angdiff(q.g, o2.gamma), angdiff(q.g, -o2.gamma)) : angdiff(q.g, o2.gamma), tg, "Reverse: convergence vs reference map at the returned point [deg]");
          vr.le(fabsl((L)q.k / o2.k - 1), tk, "Reverse: scale vs reference map at the returned point [relative]");
          merge_rev(v, vr, c);
        }
      }
    }
  }
  return v;
}

// ------------------------------------------------------------------------------------------ C06.f parities
// rec: class, ellipsoid, lon0 and dlon on the 2^-20 degree lattice, lat
Verdict check_f(const J& r) {
  Verdict v; Case c = read_case(r, false);
  double lon0 = r.getd("lon0"), lat = r.getd("lat"), dl = r.getd("dl");
  if (!c.ok || !(std::fabs(lat) <= 90) || !std::isfinite(lon0) || !std::isfinite(dl)) { v.skip("outside documented domain"); return v; }
  if (c.cls == 0 && std::fabs(c.f) > 0.1) { v.skip("series class beyond the generated |f| <= 0.1"); return v; }
  if (std::fabs(lon0) > 1e5 || std::fabs(dl) > 1e5) { v.skip("beyond generated range"); return v; }
  double lp = lon0 + dl, lm = lon0 - dl;
  bool exact_mirror = sum_exact(lon0, dl) && sum_exact(lon0, -dl);
  L d = remainderl((L)dl, 360.0L);
  tag_common(v, c.cls, false, c.f, d, lat);
  v.tag(exact_mirror ? "exact-mirror" : "rounded-mirror");
  P4 a = lib_fwd(c.cls, false, c.a, c.f, c.k0, lon0, lat, lp), b = lib_fwd(c.cls, false, c.a, c.f, c.k0, lon0, lat, lm);
  P4 s = lib_fwd(c.cls, false, c.a, c.f, c.k0, lon0, -lat, lp);
  v.nontrivial = d != 0 && lat != 0;
  if (!fin(a) || !fin(b) || !fin(s)) {   // the singular point (equator, 90(1-e) deg; infinity on the sphere) and the diverged series beyond it
    v.tag("non-finite image(no relation)"); v.nontrivial = false; return v;
  }
  bool half = fabsl(d) == 180;            // dlon = +-180: the two mirror images are the same meridian
  bool cut = lat == 0 && fabsl(d) > 90;   // the equator on the far side is the branch cut: the sign of y is a convention
  if (exact_mirror && d == 0) v.tag("dlon=0(mirror images coincide)");
  else if (exact_mirror) {
    // odd in dlon: x, gamma; even: y, k
    v.that(neg_eq(a.x, b.x), "x is not odd in lon - lon0 (bit-exact mirror)");
    v.that(bits_eq(a.y, b.y), "y is not even in lon - lon0 (bit-exact mirror)");
    v.that(bits_eq(a.k, b.k), "k is not even in lon - lon0 (bit-exact mirror)");
    if (half) v.that(ang_eq(a.g, -b.g), "gamma is not odd in lon - lon0 (mod 360, dlon = 180)");
    else v.that(neg_eq(a.g, b.g), "gamma is not odd in lon - lon0 (bit-exact mirror)");
  } else if (fin(a) && fin(b)) {
    L sc = 16 * EPS * (fabsl((L)a.x) + fabsl((L)a.y) + c.a) * (1 + fabsl((L)a.k) / c.k0) * (1 + fabsl((L)dl));
    if (std::fabs(a.k) < 1e3 * c.k0 && std::fabs(b.k) < 1e3 * c.k0) {
      v.le(fabsl((L)a.x + (L)b.x), sc, "x odd in lon - lon0 (rounded mirror) [m]");
      // on the equator the meridian 90 deg from lon0 is the cut: the rounded images may fall on either side
      if (!(lat == 0 && fabsl(d) > 90 - 1e-9L)) v.le(fabsl((L)a.y - (L)b.y), sc, "y even in lon - lon0 (rounded mirror) [m]");
    }
  }
  // odd in lat: y, gamma; even: x, k   (lat -> -lat is always exact)
  v.that(bits_eq(a.x, s.x), "x is not even in lat");
  v.that(bits_eq(a.k, s.k), "k is not even in lat");
  if (!cut) {
    v.that(neg_eq(a.y, s.y), "y is not odd in lat");
    if (std::fabs(lat) == 90 || half) v.that(ang_eq(a.g, -s.g), "gamma is not odd in lat (mod 360)");
    else v.that(neg_eq(a.g, s.g), "gamma is not odd in lat");
  } else {
    v.tag("equator-farside(y sign free)");
    v.that(bits_eq(std::fabs(a.y), std::fabs(s.y)), "|y| differs between lat = +0 and -0 on the far side");
  }
  // Reverse parities at the image (bit-exact: -x, -y are exact)
  if (std::isfinite(a.x) && std::isfinite(a.y)) {
    P4 q = lib_rev(c.cls, false, c.a, c.f, c.k0, 0.0, a.x, a.y), qx = lib_rev(c.cls, false, c.a, c.f, c.k0, 0.0, -a.x, a.y), qy = lib_rev(c.cls, false, c.a, c.f, c.k0, 0.0, a.x, -a.y);
    bool rx0 = a.x == 0, ry0 = a.y == 0;
    v.that(bits_eq(q.x, qx.x) && bits_eq(q.k, qx.k), "Reverse: lat, k not even in x");
    if (!rx0) v.that(ang_eq(q.y, -qx.y) && ang_eq(q.g, -qx.g), "Reverse: lon, gamma not odd in x");
    v.that(bits_eq(q.k, qy.k), "Reverse: k not even in y");
    if (!ry0) { v.that(neg_eq(q.x, qy.x), "Reverse: lat not odd in y"); v.that(ang_eq(q.y, qy.y), "Reverse: lon not even in y"); v.that(ang_eq(q.g, -qy.g), "Reverse: gamma not odd in y"); }
  }
  return v;
}

// ------------------------------------------------------------------------------------------ C06.g wrap, poles, far side, extendp
Verdict check_g(const J& r) {
  Verdict v; Case c = read_case(r);
  if (!c.ok) { v.skip("outside documented domain"); return v; }
  if (c.cls == 0 && std::fabs(c.f) > 0.01) { v.skip("series class beyond |f| <= 0.01"); return v; }
  int mode = (int)r.geti("mode");
  rtm::TM T(c.a, c.f, c.k0);
  tag_common(v, c.cls, c.ext && mode == 3, c.f, c.dlon, c.lat);
  if (mode == 0) {            // longitude wrap
    v.tag("wrap");
    long long m = r.geti("m"), n = r.geti("n");
    if (std::llabs(m) > 50 || std::llabs(n) > 50) { v.skip("beyond generated range"); return v; }
    double lon0b = c.lon0 + 360.0 * m, lonb = c.lon + 360.0 * n;
    bool exact = sum_exact(c.lon0, 360.0 * m) && sum_exact(c.lon, 360.0 * n);
    P4 a = lib_fwd(c.cls, false, c.a, c.f, c.k0, c.lon0, c.lat, c.lon), b = lib_fwd(c.cls, false, c.a, c.f, c.k0, lon0b, c.lat, lonb);
    v.nontrivial = (m != 0 || n != 0);
    bool half = fabsl(c.dlon) == 180 || c.dlon == 0;     // the sign of a zero / of 180 in lon - lon0 is not determined
    if (exact && !half) {
      v.tag("wrap-exact");
      v.that(bits_eq(a.x, b.x) && bits_eq(a.y, b.y) && bits_eq(a.k, b.k), "Forward differs after adding exact multiples of 360 to lon0 / lon (x, y, k)");
      v.that(bits_eq(a.g, b.g), "Forward convergence differs after adding exact multiples of 360 to lon0 / lon");
    } else if (exact) {
      v.tag("wrap-0/180");
      v.that(bits_eq(std::fabs(a.x), std::fabs(b.x)) && bits_eq(a.y, b.y) && bits_eq(a.k, b.k), "Forward differs after adding exact multiples of 360 to lon0 / lon (|x|, y, k; lon - lon0 = 0 or 180)");
    } else if (fin(a) && fin(b) && std::fabs(a.k) < 1e3 * c.k0 && std::fabs(b.k) < 1e3 * c.k0) {   // (k >= 1000: next to the singular point)
      v.tag("wrap-rounded");
      L ddl = fabsl(remainderl(eff_dlon(lon0b, lonb) - c.dlon, 360.0L)) * rtm::DEG;      // change of the effective offset by rounding
      L sc = (fabsl((L)a.k) + 1) * c.a * (ddl + 8 * EPS) * 4 + 8 * EPS * (fabsl((L)a.x) + fabsl((L)a.y));
      v.le(fabsl(fabsl((L)a.x) - fabsl((L)b.x)), sc, "|x| after wrap [m]");
      // on the equator the meridian 90 deg from lon0 is the cut (y jumps by 2 k0 Mq): not comparable across it
      if (!(c.lat == 0 && fabsl(c.dlon) > 90 - 1e-9L)) v.le(fabsl((L)a.y - (L)b.y), sc, "y after wrap [m]");
    }
    // Reverse: lon0 + 360 m gives the same point, lon in [-180,180]
    bool rev_defined = fin(a);
    if (c.cls == 0 && rev_defined) { L t6, d6, t30; T.reverse_tail(a.x, a.y, t6, d6, t30); rtm::SeriesOut s6 = T.forward_series(c.lat, c.dlon); rev_defined = (t6 * T.a < 1.0L) && s6.ok && (s6.tail6 < 1.0L); }
    if (rev_defined) {
      P4 q = lib_rev(c.cls, false, c.a, c.f, c.k0, c.lon0, a.x, a.y), q2 = lib_rev(c.cls, false, c.a, c.f, c.k0, lon0b, a.x, a.y);
      v.that(std::fabs(q.y) <= 180 && std::fabs(q2.y) <= 180, "Reverse: lon outside [-180,180]");
      v.that(bits_eq(q.x, q2.x) && bits_eq(q.k, q2.k) && bits_eq(q.g, q2.g), "Reverse: lat, gamma, k depend on lon0 + 360 m");
      if (sum_exact(c.lon0, 360.0 * m))
        v.le(angdiff(q.y, q2.y), 2 * EPS * (360 + std::fabs(c.lon0) + std::fabs(lon0b)), "Reverse: lon after lon0 + 360 m (mod 360) [deg]");
    }
    return v;
  }
  if (mode == 1) {            // poles
    v.tag("poles");
    double lat = std::signbit(c.lat) ? -90.0 : 90.0;
    P4 p = lib_fwd(c.cls, false, c.a, c.f, c.k0, c.lon0, lat, c.lon);
    rtm::Out o; o.ok = true; o.k = c.k0; o.cond = 1; o.gamma = 0; o.err = 8 * rtm::EPSL * T.a * T.k0;
    rtm::SeriesOut s = T.forward_series(lat, c.dlon);
    Tol t = make_tol(c.cls, T, o, c.cls == 0 ? &s : nullptr, 0.0);
    v.le(fabsl((L)p.x), t.grid, "pole: x vs 0 [m]");
    v.le(fabsl((L)p.y - (lat > 0 ? 1 : -1) * T.k0 * T.Mq), t.grid, "pole: y vs +-k0 * quarter meridian (quadrature) [m]");
    v.le(fabsl((L)p.k / T.k0 - 1), t.krel, "pole: k vs k0 [relative]");
    v.le(angdiff(p.g, (lat > 0 ? 1 : -1) * c.dlon), 8 * EPS * 360, "pole: convergence vs +-(lon - lon0) (mod 360) [deg]");
    // Reverse of the pole image
    P4 q = lib_rev(c.cls, false, c.a, c.f, c.k0, c.lon0, 0.0, (double)((lat > 0 ? 1 : -1) * T.k0 * T.Mq));
    L t6 = 0, d6 = 0, t30 = 0; if (c.cls == 0) T.reverse_tail(0, T.k0 * T.Mq, t6, d6, t30);
    v.le(ground_dist(T, lat, 0, q.x, 0), t.ground + 2 * t6 * T.a + 4 * EPS * T.a, "pole: Reverse(0, +-k0 Mq) latitude [m, ground]");
    return v;
  }
  if (mode == 2) {            // far side: the backside rule as a relation between two Forward calls
    v.tag("backside-rule");
    // use a lattice offset d in (0,90): lon0 + d and lon0 + (180 - d) are then exact
    double d = r.getd("d"); double lon0 = lattice(c.lon0); if (std::fabs(lon0) > 1e4) lon0 = 0;
    if (!(d > 0 && d < 90) || d != lattice(d) || std::fabs(c.lat) >= 90) { v.skip("not a lattice offset in (0,90) / pole"); return v; }
    if (c.lat == 0) { v.skip("equator: the far side is the branch cut"); return v; }
    if (c.f < 0) { rtm::Out chk = T.forward(c.lat, 180 - (L)d); if (!chk.ok) { v.skip(std::string("oracle refused: ") + chk.why); return v; } }
    P4 a = lib_fwd(c.cls, false, c.a, c.f, c.k0, lon0, c.lat, lon0 + d), b = lib_fwd(c.cls, false, c.a, c.f, c.k0, lon0, c.lat, lon0 + (180 - d));
    rtm::Out o = T.forward(c.lat, (L)d);
    if (!o.ok) { v.skip(std::string("oracle refused: ") + o.why); return v; }
    rtm::SeriesOut s = T.forward_series(c.lat, (L)d);
    Tol t = make_tol(c.cls, T, o, c.cls == 0 ? &s : nullptr, c.lat);
    if (t.vacuous) { v.tag("series-diverged(>1m tail)"); v.nontrivial = false; return v; }
    int sl = std::signbit(c.lat) ? -1 : 1;
    // the same folded computation is used for both: differences are round-off of the final assembly only
    v.that(bits_eq(a.x, b.x), "far side: x(180 - d) != x(d)");
    v.that(bits_eq(a.k, b.k), "far side: k(180 - d) != k(d)");
    v.le(fabsl((L)b.y - (sl * 2 * T.k0 * T.Mq - (L)a.y)), 2 * t.grid, "far side: y(180 - d) vs +-2 k0 Mq - y(d) [m]");
    v.le(angdiff((L)b.g, sl * 180.0L - (L)a.g), 8 * EPS * 360, "far side: gamma(180 - d) vs +-180 - gamma(d) [deg]");
    return v;
  }
  // mode 3: extendp
  if (c.cls == 0 || !c.ext) { v.skip("extendp applies to the exact classes"); return v; }
  if (!ext_domain(T, c.lat, c.dlon)) { v.skip("outside the documented extendp domain"); return v; }
  if (c.lat >= 0 && !std::signbit(c.lat)) {
    // north-east quadrant: both conventions are the same map
    v.tag("extendp-NE=standard");
    P4 a = lib_fwd(c.cls, true, c.a, c.f, c.k0, c.lon0, c.lat, c.lon), b = lib_fwd(c.cls, false, c.a, c.f, c.k0, c.lon0, c.lat, c.lon);
    v.that(bits_eq(a.x, b.x) && bits_eq(a.y, b.y) && bits_eq(a.g, b.g) && bits_eq(a.k, b.k), "extendp and standard Forward differ in lat >= 0, 0 <= lon - lon0 <= 90");
    // (the pole itself is excluded: its longitude is arbitrary and the two modes fold a northing that rounds above k0 Mq differently)
    if (std::isfinite(a.x) && std::isfinite(a.y) && a.x >= 0 && a.y >= 0 && (L)a.y <= T.k0 * T.Mq * (1 - 1e-12L)) {
      P4 q = lib_rev(c.cls, true, c.a, c.f, c.k0, c.lon0, a.x, a.y), q2 = lib_rev(c.cls, false, c.a, c.f, c.k0, c.lon0, a.x, a.y);
      v.that(bits_eq(q.x, q2.x) && bits_eq(q.y, q2.y) && bits_eq(q.g, q2.g) && bits_eq(q.k, q2.k), "extendp and standard Reverse differ in the common domain");
    }
    return v;
  }
  // south of the equator between the branch longitude and 90: continuity across the equator segment
  v.tag("extendp-continuity");
  double eps_lat = r.getd("tiny");
  if (!(eps_lat > 0 && eps_lat <= 1e-6)) { v.skip("beyond generated range"); return v; }
  rtm::Out o = T.forward(eps_lat, c.dlon);
  if (!o.ok) { v.skip(std::string("oracle refused: ") + o.why); return v; }
  P4 n = lib_fwd(c.cls, true, c.a, c.f, c.k0, c.lon0, eps_lat, c.lon), s = lib_fwd(c.cls, true, c.a, c.f, c.k0, c.lon0, -eps_lat, c.lon);
  Tol t = make_tol(c.cls, T, o, nullptr, eps_lat);
  // |W(zeta + d) - W(zeta - d)| <= |W'| 2|d| (1 + |d ln W'/d zeta| |d|): d psi = eps_lat (rad) * (1 - e^2)/(cos phi (1 - e^2 sin^2)) <= eps_lat rad * 1.0001
  L dz = 2 * eps_lat * rtm::DEG * 1.001L;
  L bound = o.k / T.k0 * T.k0 * T.Ncos((90 - (L)eps_lat) * rtm::DEG) * dz * (1 + o.cond * dz) * 1.25L + 2 * t.grid;
  v.le(hypotl((L)n.x - (L)s.x, (L)n.y - (L)s.y), bound, "extendp: |Forward(+tiny lat) - Forward(-tiny lat)| across the equator beyond the branch point [m]");
  v.le(angdiff(n.g, s.g), 2 * t.gam + o.cond * dz / rtm::DEG * 1.1L, "extendp: convergence continuous across the equator beyond the branch point [deg]");
  v.le(fabsl((L)n.k / (L)s.k - 1), 2 * t.krel + o.cond * dz * 1.1L, "extendp: scale continuous across the equator beyond the branch point [relative]");
  return v;
}

// ------------------------------------------------------------------------------------------ C06.h UTM() singletons
Verdict check_h(const J& r) {
  Verdict v;
  double lon0 = r.getd("lon0"), lat = r.getd("lat"), lon = r.getd("lon");
  if (!(std::fabs(lat) <= 90) || !std::isfinite(lon0) || !std::isfinite(lon) || std::fabs(lon0) > 1e6 || std::fabs(lon) > 1e6) { v.skip("outside documented domain"); return v; }
  const double a = 6378137.0, f = 1 / 298.257223563, k0 = 0.9996;     // documented numbers (Constants.hpp text)
  const TransverseMercator& u = TransverseMercator::UTM(); const TransverseMercatorExact& ue = TransverseMercatorExact::UTM();
  v.that(u.EquatorialRadius() == a && ue.EquatorialRadius() == a, "UTM(): equatorial radius is not 6378137");
  v.that(std::fabs(u.Flattening() - f) <= 2e-19 && std::fabs(ue.Flattening() - f) <= 2e-19, "UTM(): flattening is not 1/298.257223563");
  v.that(u.CentralScale() == k0 && ue.CentralScale() == k0, "UTM(): central scale is not 0.9996");
  v.that(!u.Exact(), "TransverseMercator::UTM() is not the series form");
  L dlon = eff_dlon(lon0, lon);
  tag_common(v, 0, false, f, dlon, lat);
  P4 p, pe, q, qe;
  u.Forward(lon0, lat, lon, p.x, p.y, p.g, p.k); ue.Forward(lon0, lat, lon, pe.x, pe.y, pe.g, pe.k);
  P4 r0 = lib_fwd(0, false, u.EquatorialRadius(), u.Flattening(), k0, lon0, lat, lon), r1 = lib_fwd(1, false, ue.EquatorialRadius(), ue.Flattening(), k0, lon0, lat, lon);
  v.that(bits_eq(p.x, r0.x) && bits_eq(p.y, r0.y) && bits_eq(p.g, r0.g) && bits_eq(p.k, r0.k), "TransverseMercator::UTM().Forward differs from TransverseMercator(WGS84, 0.9996)");
  v.that(bits_eq(pe.x, r1.x) && bits_eq(pe.y, r1.y) && bits_eq(pe.g, r1.g) && bits_eq(pe.k, r1.k), "TransverseMercatorExact::UTM().Forward differs from TransverseMercatorExact(WGS84, 0.9996)");
  if (std::isfinite(p.x) && std::isfinite(p.y)) {
    u.Reverse(lon0, p.x, p.y, q.x, q.y, q.g, q.k); P4 s0 = lib_rev(0, false, u.EquatorialRadius(), u.Flattening(), k0, lon0, p.x, p.y);
    v.that(bits_eq(q.x, s0.x) && bits_eq(q.y, s0.y) && bits_eq(q.g, s0.g) && bits_eq(q.k, s0.k), "TransverseMercator::UTM().Reverse differs from TransverseMercator(WGS84, 0.9996)");
    ue.Reverse(lon0, p.x, p.y, qe.x, qe.y, qe.g, qe.k); P4 s1 = lib_rev(1, false, ue.EquatorialRadius(), ue.Flattening(), k0, lon0, p.x, p.y);
    v.that(bits_eq(qe.x, s1.x) && bits_eq(qe.y, s1.y) && bits_eq(qe.g, s1.g) && bits_eq(qe.k, s1.k), "TransverseMercatorExact::UTM().Reverse differs from TransverseMercatorExact(WGS84, 0.9996)");
  }
  if (v.failed()) return v;
  // and against the reference map with the documented numbers
  rtm::TM T(a, f, k0);
  rtm::Out o = T.forward(lat, dlon);
  v.nontrivial = fabsl(dlon) > 1e-6L && std::fabs(lat) < 90;
  if (!o.ok) { v.tag("oracle-refused"); return v; }
  rtm::SeriesOut s = T.forward_series(lat, dlon);
  Tol t0 = make_tol(0, T, o, &s, lat), t1 = make_tol(1, T, o, nullptr, lat);
  L dy0 = o.ysign_free ? fabsl((L)p.y) - fabsl(o.y) : (L)p.y - o.y, dy1 = o.ysign_free ? fabsl((L)pe.y) - fabsl(o.y) : (L)pe.y - o.y;
  if (!t0.vacuous) v.le(hypotl((L)p.x - o.x, dy0), t0.grid, "TransverseMercator::UTM().Forward vs R-TM(6378137, 1/298.257223563, 0.9996) [m]");
  v.le(hypotl((L)pe.x - o.x, dy1), t1.grid, "TransverseMercatorExact::UTM().Forward vs R-TM(6378137, 1/298.257223563, 0.9996) [m]");
  return v;
}

// ------------------------------------------------------------------------------------------ registration
J gen_b() {
  J r = gen_point(0.1, true);
  int mode = vf::g::coin(2, 3) ? 0 : 1;
  r["mode"] = J::integer(mode);
  double xf = 0, yf = 0;
  switch (vf::g::wpick({50, 25, 15, 10})) {
    case 0: xf = vf::g::uni(-0.7, 0.7); yf = vf::g::uni(-1.6, 1.6); break;
    case 1: xf = vf::g::sgn() * vf::g::loguni(1e-12, 5.0); yf = vf::g::sgn() * vf::g::loguni(1e-12, 5.0); break;
    case 2: xf = vf::g::uni(-3, 3); yf = vf::g::uni(-3.2, 3.2); break;
    default: xf = vf::g::oneof<double>({0.0, -0.0, 1e-300}); yf = vf::g::uni(-3.2, 3.2);
  }
  r["xf"] = J::num(xf); r["yf"] = J::num(yf);
  return r;
}
J gen_c() {
  Ell e = gen_ell_series(0.01); e.f = std::fabs(e.f); if (e.f < 1e-10) e.f = gg::F_WGS84;
  J r = put_ell(J::obj(), 0, e); int band = 0;
  double lon0 = gen_lon0(), dlon = gen_dlon(ecc(e.f), &band), lat = gen_lat(band);
  r["lon0"] = J::num(lon0); r["lat"] = J::num(lat); r["lon"] = J::num(lon0 + dlon);
  return r;
}
J gen_d() {
  int cls = vf::g::wpick({50, 35, 15});
  Ell e = cls == 0 ? gen_ell_series(0.01) : gen_ell_exact();
  J r = put_ell(J::obj(), cls, e);
  bool ext = cls != 0 && vf::g::coin(1, 5);
  r["ext"] = J::integer(ext);
  double lon0 = vf::g::coin() ? (double)vf::g::irange(-180, 180) : lattice(vf::g::uni(-180, 180));
  double lat = gg::latitude(); if (ext) lat = std::fabs(lat);
  r["lon0"] = J::num(lon0); r["lat"] = J::num(lat); r["lon"] = J::num(lon0 + 360.0 * (double)vf::g::irange(-3, 3) * (vf::g::coin() ? 1 : 0));
  return r;
}
J gen_f() {
  int cls = vf::g::wpick({55, 30, 15});
  Ell e = cls == 0 ? gen_ell_series(0.1) : gen_ell_exact();
  J r = put_ell(J::obj(), cls, e);
  int band = 0;
  double lon0 = vf::g::coin(4, 5) ? lattice(vf::g::uni(-180, 180)) : gen_lon0();
  double dl = gen_dlon(ecc(e.f), &band); if (vf::g::coin(9, 10)) dl = lattice(dl);
  r["lon0"] = J::num(lon0); r["lat"] = J::num(gen_lat(band)); r["dl"] = J::num(dl);
  return r;
}
J gen_g() {
  int mode = vf::g::wpick({35, 20, 20, 25});
  J r;
  if (mode == 3) {
    Ell e = gen_ell_exact(); int cls = vf::g::coin(2, 3) ? 1 : 2;
    r = put_ell(J::obj(), cls, e); r["ext"] = J::integer(1);
    double lb = 90 * (1 - ecc(e.f)), lon0 = lattice(vf::g::uni(-180, 180)), lat, dlon;
    if (vf::g::coin()) { int band; dlon = std::fabs(gen_dlon(ecc(e.f), &band)); if (dlon > 90) dlon = 180 - dlon; lat = std::fabs(gen_lat(band)); }
    else { dlon = vf::g::coin(1, 6) ? 90.0 : vf::g::uni(std::min(lb + 1e-3, 90.0), 90.0); lat = -1.0; }
    r["lon0"] = J::num(lon0); r["lat"] = J::num(lat); r["lon"] = J::num(lon0 + dlon);
    r["tiny"] = J::num(vf::g::loguni(1e-14, 1e-6));
  } else {
    r = gen_point(0.01, false);
    if (mode == 0 && vf::g::coin(3, 4)) { double l0 = lattice(r.getd("lon0")); if (std::fabs(l0) > 1e4) l0 = 0; double dl = lattice(r.getd("lon") - r.getd("lon0")); r["lon0"] = J::num(l0); r["lon"] = J::num(l0 + dl); }
    r["tiny"] = J::num(1e-9);
  }
  r["mode"] = J::integer(mode);
  r["m"] = J::integer(vf::g::irange(-20, 20)); r["n"] = J::integer(vf::g::irange(-20, 20));
  r["d"] = J::num(lattice(vf::g::coin(1, 5) ? vf::g::loguni(1e-5, 89.0) : vf::g::uni(0.001, 89.999)));
  return r;
}
J gen_h() {
  J r = J::obj(); int band = 0;
  double lon0 = gen_lon0(), dlon = gen_dlon(0.0818191908426215, &band), lat = gen_lat(band);
  r["lon0"] = J::num(lon0); r["lat"] = J::num(lat); r["lon"] = J::num(lon0 + dlon);
  return r;
}

const char* NT = " non-trivial: |lon - lon0| > 1e-6 deg and |lat| < 90 (unless stated); classes by |lon-lon0| band, sign/size of f, extendp, far side; distinct by record hash";
vf::Reg ra({"C06.a", std::string("Forward (x,y) of the series class (|f|<=0.01), the exact class (f in [1e-10,0.3], standard and extendp sheets) and TransverseMercator(exact=true) vs the reference Gauss-Krueger map R-TM; tolerance 2*(5 nm*k*a/a0 + computed 6th-order tail) resp. 2*8 nm*k*a/a0;") + NT, 0.25,
            [] { return rc::gen::exec([] { return gen_point(0.01, true); }); }, check_a, nullptr});
vf::Reg rb({"C06.b", std::string("Reverse(Forward(p)) = p (ground distance) incl. far side and extendp; for independent grid points (x,y) up to 5 k0 a: R-TM(Reverse(x,y)) = (x,y) and Forward(Reverse(x,y)) = (x,y); series class up to |f| = 0.1 with computed tails;") + NT, 0.15,
            [] { return rc::gen::exec([] { return gen_b(); }); }, check_b, nullptr});
vf::Reg rc_({"C06.c", std::string("series vs exact Forward/Reverse (x,y,gamma,k) for 0 < f <= 0.01; TransverseMercator(exact=true) bit-identical to TransverseMercatorExact;") + NT, 0.1,
            [] { return rc::gen::exec([] { return gen_c(); }); }, check_c, nullptr});
vf::Reg rd({"C06.d", "central meridian (lon = lon0 + 360k exactly): x = 0 and gamma = 0 exactly, k = k0, y = k0 * meridian distance by quadrature; Reverse(0, k0 M) returns lat and lon0; non-trivial: lat != 0", 0.1,
            [] { return rc::gen::exec([] { return gen_d(); }); }, check_d, nullptr});
vf::Reg re({"C06.e", std::string("gamma and k of Forward and of Reverse vs the analytic complex derivative of the reference map (gamma = -arg W', k = k0|W'|/(N cos phi)); poles: gamma = lon - lon0, k = k0;") + NT, 0.15,
            [] { return rc::gen::exec([] { return gen_point(0.01, true); }); }, check_e, nullptr});
vf::Reg rf({"C06.f", "parities: x, gamma odd and y, k even in lon - lon0 (bit-exact when lon0 +- dlon are exact, lattice 2^-20 deg), y, gamma odd and x, k even in lat (bit-exact), same for Reverse in (x,y); series class up to |f| = 0.1; non-trivial: dlon != 0 and lat != 0", 0.1,
            [] { return rc::gen::exec([] { return gen_f(); }); }, check_f, nullptr});
vf::Reg rg({"C06.g", "lon/lon0 + 360k (bit-exact when exact); poles map to (0, +-k0 quarter meridian), k0, gamma = +-(lon-lon0); far side = documented reflection (x, 2 k0 Mq - y, 180 - gamma, k); extendp: NE quadrant identical to the standard sheet, continuity across the equator beyond the branch point; non-trivial: all", 0.1,
            [] { return rc::gen::exec([] { return gen_g(); }); }, check_g, nullptr});
vf::Reg rh({"C06.h", std::string("TransverseMercator::UTM() and TransverseMercatorExact::UTM() bit-identical to objects built from (6378137, 1/298.257223563, 0.9996), inspectors, and vs R-TM with these documented numbers;") + NT, 0.05,
            [] { return rc::gen::exec([] { return gen_h(); }); }, check_h, nullptr});

}  // namespace

VF_MAIN
