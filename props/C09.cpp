// C09 — rhumb lines (DESIGN 3/C09)
//
// Oracle: ref/rhumb_ref (R-MP): isometric latitude closed form, meridian distance and area integral by 50-digit
// quadrature, tan(azi12) = lam12/psi12, s12 = |m2-m1|/|cos azi12| (a cos(beta) |lam12| for lat1 == lat2),
// S12 = (lam12/psi12) Int A dpsi, direct problem by 50-digit Newton on the meridian distance.
// Sub-checks
//   C09.a  Inverse s12 / azi12 / S12 vs reference
//   C09.b  Direct lat2 / lon2 / S12 vs reference (with and without LONG_UNROLL); RhumbLine::Position == Direct
//   C09.c  Direct(Inverse) and Inverse(Direct) identities; constant azimuth along a line
//   C09.d  shortest course: |lon12| <= 180, never longer than the course the other way round; exact ties
//   C09.e  courses reaching or passing a pole (reflected latitude, NaN lon2 and S12); pole end points (finiteness + relaxed oracle)
//   C09.f  series vs exact for |f| <= 0.01
//   C09.g  EllipsoidArea; LONG_UNROLL: lon2 - lon1 = unreduced longitude change, lon2 in [-180, 180] otherwise
//
// MUTATION TABLE (scratch copy /tmp/mutC15, VERIF_REPO=..., quick tier)
//   (run with the finding ids of this file enabled, so that the listed findings do not mask the mutation)
//   id    mutation (file: change)                                                                      caught by
//   R1    Rhumb.cpp area table (order 6) row 1, n^2: 22/45 -> 23/45                                     C09.a (b d e f)
//   R1b   area table row 4, n^4: 5/252 -> 5/262                                                         C09.a b d e f
//   R1c   area table row 5, n^6: -101/17325 -> +101/17325                                               C09.a b d e f
//   R1d   area table row 1, n^6: 138734126/638512875 -> negative                                        C09.a
//   R1e   area table last entry, n^6: 11537/4054050 -> negative                                         NOT CAUGHT: the whole term is
//           0.0028 n^6 = 4e-17 at |f| = 0.01 (n = 0.005), i.e. below one ulp of S12 on every ellipsoid the series admits
//   R2    AreaCoeffs DST fit termination eps -> 2e4 eps                                                 C09.a b d e f
//   R2b   AreaCoeffs P_l = (c_l + c_l+1)/(-4(l+1)) -> /(-4(l+2))                                        C09.a b d e f
//   R3    Dasinh (Dlam): x hy + y hx -> x hx + y hy                                                     C09.a b c c2 d e f g
//   R3b   Datan: 1 + xy -> 1 - xy                                                                       C09.a b c c2 d e f g
//   R4    Dh (Dp0Dpsi): last term sx/scy -> sx/scx                                                      C09.a b c d e
//   R5    DClenshaw Xb sign                                                                             C09.a
//   R5b   DClenshaw: D2 factor dropped                                                                  C09.a
//   R6    pole wrap AngNormalize(180 - mu2) -> AngNormalize(mu2 - 180)                                  C09.e
//   R6b   pole test |mu2| <= 90 -> <= 180                                                               C09.e
//   R7    EllipsoidArea 2*360*_c2 -> 2*180*_c2                                                          C09.g
//   R7b   _c2 from AuthalicRadiusSquared(!exact)                                                        C09.a
//   R7c   _rm * (1 + 1e-14)                                                                             C09.a
//   R8    GenInverse AngDiff(lon1, lon2) -> AngNormalize(lon2 - lon1)                                   C09.d
//   R9    DRectifying x == y branch: (sec phi/sec mu)^2 inverted                                        C09.a
//   R10   MeanSinXi: + DpbetaDbeta*DbetaDpsi -> -                                                       C09.a
//   R11   LONG_UNROLL: _lon1 + lon2x -> AngNormalize(_lon1) + lon2x                                     C09.g
//   R12   GenInverse series Dlam(chi1, chi2) -> Dlam(chi2, chi2)                                        C09.a
//   R13   GenPosition mu12 * (1 + 1e-13)                                                                C09.b
//   R14   GenPosition lon2x * (1 + 1e-13)                                                               C09.c
//   R15   series area order Lmax_ -> Lmax_ - 1                                                          C09.f
//   24 of 25 caught within the quick tier (9 .. 800 s; the slow ones are full-property runs on a loaded machine).
#include "fw/harness.hpp"
#include "gen/geo.hpp"
#include "ref/aux_ref.hpp"
#include "ref/rhumb_ref.hpp"
#include "ref/tol.hpp"

#include <GeographicLib/Rhumb.hpp>

#include <cfloat>

using namespace GeographicLib;
using vf::J; using vf::Verdict;
typedef long double L;

namespace {

inline void vle(Verdict& v, long double err, long double tol, const char* what) {
  if (!(tol > 0)) tol = 1e-300L;
  if (!(err / tol < 1e30L)) err = 1e30L * tol;
  v.le(err, tol, what);
}
// known_on() of the harness; C09_ASSUME_KNOWN=1 switches this file's finding ids on (calibration aid only)
inline bool kn(const char* id) {
  static const bool all = std::getenv("C09_ASSUME_KNOWN") != nullptr;
  return all || vf::known_on(id);
}
const double EPS = DBL_EPSILON;
const L DEG = 3.14159265358979323846264338327950288L / 180;
const unsigned ALL = Rhumb::ALL;

L angdiff(L a, L b) { return remainderl(a - b, 360.0L); }

// ------------------------------------------------------------------------------------------------ ellipsoids
struct EllRec { double a, f; bool exact; };
void put_ell(J& r, const EllRec& e) { r["a"] = J::num(e.a); r["f"] = J::num(e.f); r["exact"] = J::integer(e.exact); }
bool get_ell(const J& r, EllRec& e) {
  e.a = r.getd("a"); e.f = r.getd("f"); e.exact = r.geti("exact") != 0;
  if (!(e.a > 0) || !std::isfinite(e.a) || !std::isfinite(e.f) || e.a < 1e-3 || e.a > 1e12) return false;
  double ba = 1 - e.f;
  if (e.exact) return ba >= 0.01 && ba <= 100;      // exact: any ellipsoid (AuxLatitude exact equations, b/a in [0.01, 100])
  return std::fabs(e.f) <= 0.01;                     // Rhumb.hpp: series accurate for |f| < 0.01
}
EllRec gen_ell(int force_exact = -1) {
  EllRec e; e.exact = force_exact < 0 ? vf::g::coin() : force_exact != 0;
  if (e.exact && vf::g::coin(1, 2)) {
    gg::Ell g = gg::ellipsoid(gg::EXACT_RANGE); e.a = g.a; e.f = g.f;
    if (1 - e.f < 0.01) e.f = 0.99;
    if (1 - e.f > 100) e.f = -99;
    return e;
  }
  switch (vf::g::wpick({25, 30, 25, 20})) {
    case 0: { gg::Ell g = gg::named_ellipsoid(); e.a = g.a; e.f = g.f; break; }
    case 1: e.a = gg::A_WGS84; e.f = vf::g::sgn() * 0.01; break;                 // documented limit of the series: area table visible
    case 2: e.a = vf::g::coin(3, 4) ? gg::A_WGS84 : vf::g::loguni(1.0, 1e9); e.f = vf::g::sgn() * vf::g::loguni(1e-12, 0.01); break;
    default: e.a = gg::A_WGS84; e.f = vf::g::uni(-0.01, 0.01); break;
  }
  return e;
}
void tag_ell(Verdict& v, const EllRec& e) {
  v.tag(e.exact ? "exact" : "series");
  double af = std::fabs(e.f);
  v.tag(e.f > 0 ? "f>0" : e.f < 0 ? "f<0" : "f=0");
  v.tag(af == 0 ? "|f|=0" : af < 1e-6 ? "|f|<1e-6" : af < 0.009 ? "|f|<0.009" : af <= 0.01 ? "|f|~0.01" : af <= 0.2 ? "|f|<=0.2" : "|f|>0.2");
}
// growth of round-off with eccentricity in the exact mode (same mechanisms as C15: e'^2 = e2/(1-e2) for a >> b; sinh(psi),
// q for b >> a), fitted to a scan over b/a in [0.01, 100] with margin >= 4 (seen, in ulp: s12 6e5, lon12 1.6e5, S12 5.8e5 at
// b/a = 0.01; 560, 420, 250 at b/a = 0.1; azi12 190, S12 1200 at b/a = 100); equal to 1 within 1e-3 for |f| <= 0.01
// Series mode ("accurate for |f| < 0.01"): truncation of the 6th-order series in n grows like f^7; seen 27 ulp in s12 and
// lon12 at |f| = 0.01 near latitude 60 (deterministic, so a margin of 2 is enough): + 3 (|f|/0.01)^7.
double ecc_factor(const EllRec& e) {
  double ba = 1 - e.f, go = 1 / (ba * ba);
  double g = ba < 1 ? 1 + 0.4 * (go - 1) * std::sqrt(go) + 0.02 * (go - 1) * go : 1 + 0.25 * (ba * ba - 1);
  if (!e.exact) g += 3 * std::pow(std::fabs(e.f) / 0.01, 7);
  return g;
}
double ecc_area(const EllRec& e) {
  double ba = 1 - e.f, go = 1 / (ba * ba);
  return ba < 1 ? 1 + 0.31 * (go - 1) + 7.5e-4 * (go - 1) * go : 1 + 0.25 * (ba * ba - 1);
}

// ------------------------------------------------------------------------------------------------ listed findings
// C09-dparametric-nan: DAuxLatitude::DParametric, branch tx ty > 1, inverts both tangents and divides atan2(fm1 (1/ty - 1/tx), .)
//   by atan2(1/ty - 1/tx, .): tangents a few ulps apart have equal reciprocals -> 0/0.  Exact mode, |lat| > 45 deg, latitudes
//   nearly equal: S12 (Inverse and Direct) and lon2 (Direct) are NaN, e.g. east-west courses.
// (direct: the library recomputes phi2 from mu2, so an end latitude equal to lat1 is "nearly equal" too)
bool dpar_regime(const EllRec& e, double lat1, double lat2, bool direct) {
  return e.exact && std::min(std::fabs(lat1), std::fabs(lat2)) > 44.9 && std::fabs(lat2 - lat1) < 1e-11 && (direct || lat1 != lat2);
}
// C09-de-prolate-equator: DAuxLatitude::DE swaps sine and cosine for f < 0 and then works at x = y = 90 deg when both
//   latitudes are within ~1e-13 deg of the equator, where its formula fails (source comment); DRectifying reaches it whenever
//   x*y < 0 is false (same sign, a zero, or an underflowing product): s12 wrong by orders of magnitude.
//   The loss is gradual: relative error of the meridian-arc divided difference ~ eps / max(|lat1|, |lat2|) [rad] (cos of the
//   mean of two angles near 90 deg).  Up to 1000 eps it is treated as round-off (de_factor); nearer the equator than 1e-3 rad
//   it is the finding.
bool de_regime(const EllRec& e, double lat1, double lat2, bool direct) {
  double x = lat1 * (M_PI / 180), y = lat2 * (M_PI / 180);
  return e.exact && e.f < 0 && std::max(std::fabs(x), std::fabs(y)) < 1e-3 && (direct || (lat1 != lat2 && !(x * y < 0)));
}
double de_factor(const EllRec& e, double lat1, double lat2) {
  if (!(e.exact && e.f < 0)) return 0;
  double b = std::max(std::fabs(lat1), std::fabs(lat2)) * (M_PI / 180);
  return 1 / std::max(b, 1e-3);
}

// comparisons inside the regime of a listed finding only record whether they failed (kept out of the statistics);
// finish() then reports the finding (if listed) or the failure
struct Cmp {
  Verdict& v; const char* id = nullptr; const char* why = nullptr; bool bad = false;
  explicit Cmp(Verdict& vv) : v(vv) {}
  void regime(bool on, const char* i, const char* w) { if (on && !id) { id = i; why = w; v.tag(std::string("regime-") + i); } }
  void le(L err, L tol, const char* what) { if (id) { if (!(err <= tol)) bad = true; } else vle(v, err, tol, what); }
  void that(bool c, const char* what) { if (id) { if (!c) bad = true; } else v.that(c, what); }
  void finish() {
    if (!id || !bad || v.failed()) return;
    if (kn(id)) v.known(id, why); else v.that(false, std::string("wrong result in the regime of ") + id + ": " + why);
  }
};
const char* ID_DPAR = "C09-dparametric-nan";
const char* WHY_DPAR = "exact mode: DParametric returns 0/0 = NaN for latitudes above 45 deg a few ulps apart -> NaN S12 / lon2";
const char* ID_DE = "C09-de-prolate-equator";
const char* WHY_DE = "exact mode, f < 0: DE works near x = y = 90 deg for latitudes near the equator: relative error eps/|lat| in s12, lon2 (garbage below 1e-13 deg)";
void set_regimes(Cmp& C, const EllRec& e, double lat1, double lat2, bool direct = false) {
  C.regime(dpar_regime(e, lat1, lat2, direct), ID_DPAR, WHY_DPAR);
  C.regime(de_regime(e, lat1, lat2, direct), ID_DE, WHY_DE);
}

// ------------------------------------------------------------------------------------------------ points
double lat_nopole() {
  double l = gg::latitude();
  if (std::fabs(l) == 90) l = std::copysign(vf::g::coin() ? 89.999999999999986 : 90 - vf::g::loguni(1e-13, 1.0), l);
  return l;
}
// a second point relative to (lat1, lon1): classes of C09 "NT"
void gen_second(double a, double lat1, double lon1, double& lat2, double& lon2, int& cls) {
  cls = vf::g::wpick({22, 14, 12, 14, 14, 8, 8, 8});
  double m = 1 / (a * M_PI / 180);       // degrees per metre (roughly)
  switch (cls) {
    case 0: lat2 = lat_nopole(); lon2 = gg::angle(); break;                                            // generic
    case 1: lat2 = lat1; lon2 = lon1 + (vf::g::coin() ? vf::g::uni(-180, 180) : vf::g::sgn() * vf::g::loguni(1e-9, 1e6) * m); break;   // east-west
    case 2: lat2 = lat_nopole(); lon2 = vf::g::coin(2, 3) ? lon1 : lon1 + vf::g::sgn() * vf::g::loguni(1e-16, 1e-6); break;           // (nearly) meridional
    case 3: {                                                                                           // nearby, 1e-9 m .. 1 km
      double d = vf::g::loguni(1e-9, 1e3) * m, az = vf::g::uni(0, 2 * M_PI);
      lat2 = lat1 + d * std::cos(az); lon2 = lon1 + d * std::sin(az) / std::max(1e-6, std::cos(lat1 * M_PI / 180));
      break;
    }
    case 4: lat2 = lat1 + vf::g::sgn() * vf::g::loguni(1e-16, 1e-8); lon2 = lon1 + vf::g::uni(-180, 180); break;                    // |lat2-lat1| < 1e-8: |azi|-90 tiny
    case 5: lat2 = vf::g::ulps(lat1, (int)vf::g::irange(-4, 4)); lon2 = lon1 + vf::g::sgn() * vf::g::loguni(1e-12, 180.0); break;    // latitudes ulps apart
    case 6: lat2 = lat_nopole(); lon2 = lon1 + 180.0 * (vf::g::coin() ? 1 : -1) + 360.0 * (double)vf::g::irange(-2, 2); break;        // opposite meridians (tie if exact)
    default: lat2 = -lat1 + (vf::g::coin() ? 0.0 : vf::g::sgn() * vf::g::loguni(1e-14, 1e-3)); lon2 = gg::angle(); break;             // nearly symmetric about the equator
  }
  if (!(std::fabs(lat2) < 90)) lat2 = std::copysign(89.999999999999986, lat2);
}
const char* CLS[8] = {"generic", "east-west", "meridional", "nearby", "dlat<1e-8", "lat-ulps-apart", "opposite-meridian", "equator-symmetric"};

J gen_pair(int force_exact = -1) {
  J r = J::obj();
  EllRec e = gen_ell(force_exact); put_ell(r, e);
  double lat1 = lat_nopole(), lon1 = vf::g::coin(3, 4) ? gg::angle180() : gg::angle(), lat2, lon2; int cls;
  gen_second(e.a, lat1, lon1, lat2, lon2, cls);
  r["lat1"] = J::num(lat1); r["lon1"] = J::num(lon1); r["lat2"] = J::num(lat2); r["lon2"] = J::num(lon2);
  r["cls"] = J::integer(cls);
  return r;
}
bool get_pair(const J& r, double& lat1, double& lon1, double& lat2, double& lon2) {
  lat1 = r.getd("lat1"); lon1 = r.getd("lon1"); lat2 = r.getd("lat2"); lon2 = r.getd("lon2");
  return std::fabs(lat1) <= 90 && std::fabs(lat2) <= 90 && std::isfinite(lon1) && std::isfinite(lon2) && std::fabs(lon1) <= 1e5 && std::fabs(lon2) <= 1e5;
}

// ------------------------------------------------------------------------------------------------ inverse tolerances
// Calibrated round-off laws (unchanged tree, 5 seeds quick + 1 thorough; constants >= 4x the maximum seen).  Conditioning:
//  * the library forms psi12 = psi2 - psi1 from two doubles: absolute error eps (1 + |psi1| + |psi2|); it enters the azimuth as
//    |lam12| / h^2 and the distance as (|psi12|/h) d s/d h, h = hypot(lam12, psi12) — nothing else loses accuracy for nearby
//    points (that is what the divided differences are for), so the tolerances are tight exactly there;
//  * extreme eccentricity: factor ecc_factor (see C15).
struct InvTol { L s12, azi, S12; };
InvTol inv_tol(const ref::rhumb::Inv& R, const EllRec& e, double a, double lat1 = 90, double lat2 = 90) {
  InvTol t; double g = ecc_factor(e) + de_factor(e, lat1, lat2) / 4;
  // latitudes whose tangents differ by a subnormal number: the divided differences work with that difference
  double dt = std::fabs(lat2 - lat1) * (M_PI / 180);
  if (dt > 0 && dt < 1e-290 && std::max(std::fabs(lat1), std::fabs(lat2)) < 1) g += std::min(1e30, DBL_TRUE_MIN / dt / EPS);
  L ps = 1 + fabsl(R.psi1) + fabsl(R.psi2);
  L mh = R.hyp > 0 ? fabsl(R.m12) / R.hyp : 0;             // metres per unit of h along the meridional direction
  // absolute floor: one ulp of a latitude of 90 degrees is 1.6 nm on the ground; the exact-mode divided difference of the
  // meridian arc (DE) loses relative accuracy like eps / (distance from the pole), which stays below this floor
  L floor_m = 4 * g * EPS * a * (M_PI / 2);
  t.s12 = 16 * g * EPS * (R.s12 + ps * mh) + floor_m;
  t.azi = R.hyp > 0 ? (L)(16 * g * EPS * (ps * fabsl(R.lam12) + fabsl(R.lam12 * R.psi12)) / (R.hyp * R.hyp) / DEG + 8 * EPS * fabsl(R.azi12)
                          + (R.s12 > 0 ? floor_m / R.s12 / DEG : 0) + 1e-290L) : (L)INFINITY;
  t.S12 = 32 * ecc_area(e) * EPS * R.c2 * fabsl(R.lam12) + 1e-300L * R.c2;
  return t;
}
void tag_inv(Verdict& v, const ref::rhumb::Inv& R, double lat1, double lat2, double a) {
  double dl = std::fabs(lat2 - lat1);
  if (dl < 1e-8) v.tag("|lat2-lat1|<1e-8");
  if (std::fabs(std::fabs((double)R.azi12) - 90) < 1e-8) v.tag("|azi|-90<1e-8");
  if (std::fabs((double)R.lon12) < 1e-8 || std::fabs(std::fabs((double)R.azi12) - 90) > 90 - 1e-8) v.tag("nearly-meridional");
  double s = (double)R.s12 / a * 6378137;
  v.tag(s == 0 ? "s12=0" : s < 1e-6 ? "s12<1um" : s < 1e-3 ? "s12<1mm" : s < 1 ? "s12<1m" : s < 1e3 ? "s12<1km" : s < 1e6 ? "s12<1000km" : "s12>=1000km");
  if (R.tie) v.tag("tie-180");
  if (std::max(std::fabs(lat1), std::fabs(lat2)) > 89.9) v.tag("near-pole");
}

// ------------------------------------------------------------------------------------------------ C09.a Inverse
Verdict check_a(const J& r) {
  Verdict v; EllRec e; double lat1, lon1, lat2, lon2;
  if (!get_ell(r, e) || !get_pair(r, lat1, lon1, lat2, lon2)) { v.skip("outside documented domain"); return v; }
  if (std::fabs(lat1) == 90 || std::fabs(lat2) == 90) { v.skip("pole end point (C09.e)"); return v; }
  Rhumb rh(e.a, e.f, e.exact);
  double s12, azi12, S12;
  rh.Inverse(lat1, lon1, lat2, lon2, s12, azi12, S12);
  tag_ell(v, e);
  long long cls = r.has("cls") ? r.geti("cls") : 0; if (cls >= 0 && cls < 8) v.tag(CLS[cls]);
  ref::aux::Ell E(e.a, e.f);
  ref::rhumb::Inv R;
  if (!E.ok() || !ref::rhumb::inverse(E, lat1, lon1, lat2, lon2, R)) { v.skip("reference not converged"); return v; }
  tag_inv(v, R, lat1, lat2, e.a);
  Cmp C(v); set_regimes(C, e, lat1, lat2);
  v.nontrivial = !(lat1 == lat2 && R.lam12 == 0);
  C.that(std::fabs(azi12) <= 180 || std::isnan(azi12), "azi12 outside [-180, 180]");
  C.that(s12 >= 0 || std::isnan(s12), "s12 negative");
  int tsign = 0; bool tie = ref::rhumb::is_tie(lon1, lon2, tsign);
  InvTol T = inv_tol(R, e, e.a, lat1, lat2);
  // the two-argument overload must agree with the three-argument one
  { double s2, a2; rh.Inverse(lat1, lon1, lat2, lon2, s2, a2); C.that((s2 == s12 || (std::isnan(s2) && std::isnan(s12))) && (a2 == azi12 || (std::isnan(a2) && std::isnan(azi12))), "Inverse without area differs from Inverse with area"); }
  C.le(fabsl((L)s12 - R.s12), T.s12, "Inverse s12 vs reference [m]");
  if (tie && tsign < 0) {
    // lon2 - lon1 = -180 (mod 360) as given: Rhumb.hpp says east-going, the 2.0 change log says sign of the difference;
    // only what both allow is asserted (DESIGN 4.1): the magnitudes
    v.tag("tie-negative-difference");
    if (R.hyp > 0) C.le(fabsl(fabsl((L)azi12) - fabsl(R.azi12)), T.azi, "Inverse |azi12| vs reference on a tie [deg]");
    C.le(fabsl(fabsl((L)S12) - fabsl(R.S12)), T.S12, "Inverse |S12| vs reference on a tie [m^2]");
  } else {
    if (R.hyp > 0) C.le(fabsl(angdiff((L)azi12, R.azi12)), T.azi, "Inverse azi12 vs reference [deg]");
    C.le(fabsl((L)S12 - R.S12), T.S12, "Inverse S12 vs reference [m^2]");
  }
  C.finish(); return v;
}

// ------------------------------------------------------------------------------------------------ direct generators
double gen_azi() {
  switch (vf::g::wpick({40, 25, 15, 10, 10})) {
    case 0: return gg::angle();
    case 1: return vf::g::sgn() * (90 + vf::g::sgn() * vf::g::loguni(1e-15, 1e-6)) + 360.0 * (double)vf::g::irange(-1, 1);    // nearly east-west
    case 2: return vf::g::ulps(vf::g::oneof<double>({0, 90, -90, 180, -180, 270, 45}), (int)vf::g::irange(-3, 3));
    case 3: return vf::g::oneof<double>({0.0, 180.0}) + vf::g::sgn() * vf::g::loguni(1e-15, 1e-6);                               // nearly meridional
    default: return vf::g::uni(-180, 180);
  }
}
double gen_s12(double a, bool allow_pole) {
  double q = a * M_PI / 2;
  switch (vf::g::wpick({30, 30, 15, 15, 10})) {
    case 0: return vf::g::sgn() * vf::g::loguni(1e-9, 1e7) * a / gg::A_WGS84;
    case 1: return vf::g::sgn() * vf::g::uni(0, allow_pole ? 4 * q : 1.9 * q);
    case 2: return vf::g::sgn() * vf::g::uni(0, 40 * q);                       // many wraps in longitude for oblique courses
    case 3: return vf::g::sgn() * vf::g::loguni(1e-300, 1e-9);
    default: return 0.0;
  }
}
J gen_dir(int force_exact = -1) {
  J r = J::obj();
  EllRec e = gen_ell(force_exact); put_ell(r, e);
  r["lat1"] = J::num(lat_nopole()); r["lon1"] = J::num(vf::g::coin(3, 4) ? gg::angle180() : gg::angle());
  r["azi12"] = J::num(gen_azi()); r["s12"] = J::num(gen_s12(e.a, true));
  r["unroll"] = J::integer(vf::g::coin());
  return r;
}
bool get_dir(const J& r, double& lat1, double& lon1, double& azi, double& s12, bool& unroll) {
  lat1 = r.getd("lat1"); lon1 = r.getd("lon1"); azi = r.getd("azi12"); s12 = r.getd("s12"); unroll = r.has("unroll") && r.geti("unroll") != 0;
  return std::fabs(lat1) <= 90 && std::isfinite(lon1) && std::fabs(lon1) <= 1e5 && std::isfinite(azi) && std::fabs(azi) <= 1e5 && std::isfinite(s12);
}
// Direct tolerances.  mu2 = mu1 + mu12 is formed in degrees in double: error c eps (|mu1| + |mu12|).  It propagates to
//   lat2 through d phi/d mu, to lon12 through cond_lon = |tan(azi) (G2 - Gmean)| (the part that does not cancel in
//   r12 sin(azi) / D(mu)/D(psi)), and to S12 through cond_S and the longitude.
struct DirTol { L mu2, lat2, lon12, S12; };
DirTol dir_tol(const ref::rhumb::Dir& D, const EllRec& e, double lon1, bool unroll, double lat1 = 90) {
  DirTol t; double g = ecc_factor(e) + de_factor(e, lat1, (double)D.lat2) / 4;
  // a start latitude so small that differences of tangents are subnormal (divided differences lose their relative accuracy)
  // (the difference of two tangents ~ eps tan(phi) is then below DBL_MIN: relative error TRUE_MIN / (eps tan(phi)))
  if (lat1 != 0 && std::fabs(lat1) < 1e-290) g += std::min(1e30, DBL_TRUE_MIN / std::max(DBL_TRUE_MIN, std::fabs(lat1) * (M_PI / 180) * EPS) / EPS);
  t.mu2 = 8 * g * EPS * (fabsl(D.mu1) + fabsl(D.mu12) + 1e-300L);
  t.lat2 = t.mu2 * D.dphi_dmu2 + 16 * g * EPS * fabsl(D.lat2) + 1e-290L;   // absolute floor: intermediates of results below DBL_MIN / eps are denormal
  L lon2abs = unroll ? fabsl((L)lon1 + D.lon12) : (L)180;
  t.lon12 = 16 * g * EPS * fabsl(D.lon12) + D.cond_lon * t.mu2 + 4 * EPS * (fabsl((L)lon1) + lon2abs) + 1e-290L;
  t.S12 = 128 * ecc_area(e) * EPS * D.c2 * fabsl(D.lon12) * DEG + D.cond_S * t.mu2 + D.c2 * (D.cond_lon * t.mu2) * DEG + 1e-300L * D.c2;
  return t;
}
// distance scale of the problem for the pole-margin ambiguity: the library decides |mu2| <= 90 in double
L margin_tol(const ref::rhumb::Dir& D, const EllRec& e) { return 32 * ecc_factor(e) * EPS * (fabsl(D.mu1) + fabsl(D.mu12) + 90); }


// ------------------------------------------------------------------------------------------------ C09.b Direct
Verdict check_b(const J& r) {
  Verdict v; EllRec e; double lat1, lon1, azi, s12; bool unroll;
  if (!get_ell(r, e) || !get_dir(r, lat1, lon1, azi, s12, unroll)) { v.skip("outside documented domain"); return v; }
  if (std::fabs(lat1) == 90) { v.skip("pole start (C09.e)"); return v; }
  if (std::fabs(s12) > 200 * e.a) { v.skip("beyond generated range"); return v; }
  Rhumb rh(e.a, e.f, e.exact);
  unsigned mask = ALL | (unroll ? Rhumb::LONG_UNROLL : 0u);
  double lat2 = NAN, lon2 = NAN, S12 = NAN;
  rh.GenDirect(lat1, lon1, azi, s12, mask, lat2, lon2, S12);
  tag_ell(v, e); v.tag(unroll ? "unroll" : "wrapped");
  // RhumbLine::Position == Direct
  {
    RhumbLine ln = rh.Line(lat1, lon1, azi);
    double la = NAN, lo = NAN, SS = NAN;
    ln.GenPosition(s12, mask, la, lo, SS);
    auto same = [](double p, double q) { return p == q || (std::isnan(p) && std::isnan(q)); };
    v.that(same(la, lat2) && same(lo, lon2) && same(SS, S12), "RhumbLine::GenPosition differs from Rhumb::GenDirect on the same input");
    if (!unroll) {
      double la2, lo2, S2; rh.Direct(lat1, lon1, azi, s12, la2, lo2, S2);
      v.that(same(la2, lat2) && same(lo2, lon2) && same(S2, S12), "Rhumb::Direct differs from GenDirect(LATITUDE|LONGITUDE|AREA)");
      double la3, lo3; ln.Position(s12, la3, lo3);
      v.that(same(la3, lat2) && same(lo3, lon2), "RhumbLine::Position without area differs from Direct");
    }
    v.that(ln.Latitude() == lat1 && ln.Longitude() == lon1 && same(ln.Azimuth(), Math::AngNormalize(azi)), "RhumbLine inspectors do not return the line's definition");
  }
  ref::aux::Ell E(e.a, e.f);
  ref::rhumb::Dir D;
  if (!E.ok() || !ref::rhumb::direct(E, lat1, azi, s12, D)) { v.skip("reference not converged"); return v; }
  v.nontrivial = s12 != 0;
  Cmp C(v); set_regimes(C, e, lat1, (double)D.lat2, true);
  bool amb = fabsl(D.pole_margin) <= margin_tol(D, e);        // within round-off of reaching the pole exactly: either branch
  if (D.crosses || amb) {
    v.tag(amb ? "pole-margin-ambiguous" : "crosses-pole");
    if (!amb) C.that(std::isnan(lon2) && std::isnan(S12), "course passes a pole but lon2 / S12 are not NaN");
    // reflected latitude (both branches are continuous there)
    DirTol T = dir_tol(D, e, lon1, unroll, lat1);
    if (!amb) C.le(fabsl((L)lat2 - D.lat2), T.lat2, "Direct lat2 beyond the pole vs reference [deg]");
    else C.that(std::fabs(lat2) <= 90, "lat2 outside [-90, 90]");
    C.finish(); return v;
  }
  DirTol T = dir_tol(D, e, lon1, unroll, lat1);
  double aa = std::fabs(std::remainder(azi, 180.0));
  if (std::fabs(aa - 90) < 1e-8) v.tag("|azi|-90<1e-8");
  if (aa < 1e-8) v.tag("nearly-meridional");
  if (std::fabs((double)D.lat2 - lat1) < 1e-8) v.tag("|lat2-lat1|<1e-8");
  double sm = std::fabs(s12) / e.a * 6378137;
  v.tag(sm == 0 ? "s12=0" : sm < 1e-6 ? "s12<1um" : sm < 1 ? "s12<1m" : sm < 1e6 ? "s12<1000km" : "s12>=1000km");
  if (std::fabs((double)D.lon12) > 360) v.tag("wraps>360");
  if (std::max(std::fabs(lat1), std::fabs((double)D.lat2)) > 89.9) v.tag("near-pole");
  C.le(fabsl((L)lat2 - D.lat2), T.lat2, "Direct lat2 vs reference [deg]");
  if (unroll) C.le(fabsl(((L)lon2 - (L)lon1) - D.lon12), T.lon12, "Direct LONG_UNROLL lon2 - lon1 vs reference [deg]");
  else {
    C.that(std::fabs(lon2) <= 180, "lon2 outside [-180, 180]");
    if (T.lon12 < 90) C.le(fabsl(angdiff((L)lon2, (L)lon1 + D.lon12)), T.lon12, "Direct lon2 vs reference (mod 360) [deg]");
    else v.tag("lon2-ill-conditioned");
  }
  C.le(fabsl((L)S12 - D.S12), T.S12, "Direct S12 vs reference [m^2]");
  C.finish(); return v;
}

// ------------------------------------------------------------------------------------------------ C09.c identities
Verdict check_c(const J& r) {
  Verdict v; EllRec e; double lat1, lon1, lat2, lon2;
  if (!get_ell(r, e) || !get_pair(r, lat1, lon1, lat2, lon2)) { v.skip("outside documented domain"); return v; }
  if (std::fabs(lat1) == 90 || std::fabs(lat2) == 90) { v.skip("pole end point (C09.e)"); return v; }
  Rhumb rh(e.a, e.f, e.exact);
  tag_ell(v, e);
  long long cls = r.has("cls") ? r.geti("cls") : 0; if (cls >= 0 && cls < 8) v.tag(CLS[cls]);
  double s12, azi12, S12;
  rh.Inverse(lat1, lon1, lat2, lon2, s12, azi12, S12);
  ref::aux::Ell E(e.a, e.f);
  ref::rhumb::Inv R;
  if (!E.ok() || !ref::rhumb::inverse(E, lat1, lon1, lat2, lon2, R)) { v.skip("reference not converged"); return v; }
  if (!(R.hyp > 0)) { v.skip("coincident points"); return v; }
  tag_inv(v, R, lat1, lat2, e.a);
  v.nontrivial = true;
  InvTol T = inv_tol(R, e, e.a, lat1, lat2);
  Cmp C(v); set_regimes(C, e, lat1, lat2, true);
  ref::aux::LatFuncs lf2;
  if (!E.lat_funcs(lat2, lf2)) { v.skip("reference not converged"); return v; }
  // ---- Direct(Inverse): the course found leads to point 2.  Position error allowed: the inverse's own tolerances in s12
  // and azimuth (s12 d azi across the course) plus the direct tolerances at the end point
  ref::rhumb::Dir D;
  if (!ref::rhumb::direct(E, lat1, azi12, s12, D) || D.crosses) { v.skip("reference direct not converged"); return v; }
  if (fabsl(D.pole_margin) <= margin_tol(D, e)) { v.skip("end point within round-off of a pole"); return v; }
  DirTol TD = dir_tol(D, e, lon1, true, lat1);
  double la, lo, SS;
  rh.GenDirect(lat1, lon1, azi12, s12, ALL | Rhumb::LONG_UNROLL, la, lo, SS);
  L cross = R.s12 * T.azi * DEG + T.s12;                                    // metres
  L tlat = TD.lat2 + 2 * cross / lf2.rho / DEG;
  L R2 = std::max<L>(lf2.circle_radius, 1e-30L);
  L tlon = TD.lon12 + 2 * cross / R2 / DEG + D.cond_lon * (2 * cross / lf2.rho / DEG) * 0;
  // the end point of the library's own course is compared with point 2 (longitudes modulo 360)
  C.le(fabsl((L)la - (L)lat2), tlat, "Direct(Inverse) lat2 [deg]");
  if (tlon < 90) C.le(fabsl(angdiff((L)lo, (L)lon2)), tlon + 4 * EPS * fabsl((L)lon2), "Direct(Inverse) lon2 (mod 360) [deg]");
  C.le(fabsl((L)SS - (L)S12), TD.S12 + T.S12 + R.c2 * (2 * cross / R2) , "Direct(Inverse) S12 [m^2]");
  // ---- constant azimuth: every intermediate point of the line has the same Inverse azimuth from point 1
  if (fabsl(R.lon12) < 179) {
    RhumbLine ln = rh.Line(lat1, lon1, azi12);
    for (int k = 1; k <= 3; ++k) {
      double t = k / 4.0, lak, lok;
      ln.Position(t * s12, lak, lok);
      if (!(std::fabs(lak) < 90)) continue;
      double sk, ak;
      rh.Inverse(lat1, lon1, lak, lok, sk, ak);
      ref::rhumb::Inv Rk;
      if (!ref::rhumb::inverse(E, lat1, lon1, lak, lok, Rk) || !(Rk.hyp > 0)) continue;
      InvTol Tk = inv_tol(Rk, e, e.a, lat1, lak);
      // point k is where the library put it; its Inverse azimuth must be azi12 up to the inverse law at that distance plus
      // the direct position tolerance seen from point 1 (position error / distance)
      ref::rhumb::Dir Dk;
      if (!ref::rhumb::direct(E, lat1, azi12, t * s12, Dk) || Dk.crosses) continue;
      DirTol TDk = dir_tol(Dk, e, lon1, false, lat1);
      L pos = hypotl(TDk.lat2 * DEG * (L)lf2.rho, TDk.lon12 * DEG * R2);     // metres (scale of point 2 is representative)
      L tol = 2 * Tk.azi + (Rk.s12 > 0 ? 4 * pos / Rk.s12 / DEG : 0) + T.azi;
      if (tol < 10) C.le(fabsl(angdiff((L)ak, (L)azi12)), tol, "azimuth from point 1 to an intermediate point of the line vs azi12 [deg]");
      C.le(fabsl((L)sk - t * (L)s12), 2 * Tk.s12 + 2 * pos + t * T.s12, "distance to an intermediate point vs t s12 [m]");
    }
    v.tag("constant-azimuth-checked");
  }
  C.finish(); return v;
}
// Inverse(Direct): start from a direct problem
Verdict check_c2(const J& r) {
  Verdict v; EllRec e; double lat1, lon1, azi, s12; bool unroll;
  if (!get_ell(r, e) || !get_dir(r, lat1, lon1, azi, s12, unroll)) { v.skip("outside documented domain"); return v; }
  if (std::fabs(lat1) == 90) { v.skip("pole start (C09.e)"); return v; }
  if (std::fabs(s12) > 200 * e.a) { v.skip("beyond generated range"); return v; }
  Rhumb rh(e.a, e.f, e.exact);
  tag_ell(v, e);
  double lat2, lon2u, S12;
  rh.GenDirect(lat1, lon1, azi, s12, ALL | Rhumb::LONG_UNROLL, lat2, lon2u, S12);
  if (std::isnan(lon2u) || !(std::fabs(lat2) < 90)) { v.skip("course reaches a pole (C09.e)"); return v; }
  if (std::fabs(lon2u - lon1) >= 179.999) { v.skip("longitude change >= 180: the inverse finds the shorter course (C09.d)"); return v; }
  double si, ai, Si;
  rh.Inverse(lat1, lon1, lat2, lon2u, si, ai, Si);
  ref::aux::Ell E(e.a, e.f);
  ref::rhumb::Inv R; ref::rhumb::Dir D;
  if (!E.ok() || !ref::rhumb::inverse(E, lat1, lon1, lat2, lon2u, R) || !ref::rhumb::direct(E, lat1, azi, s12, D) || D.crosses) { v.skip("reference not converged"); return v; }
  if (!(R.hyp > 0)) { v.skip("coincident points"); return v; }
  v.nontrivial = s12 != 0;
  tag_inv(v, R, lat1, lat2, e.a);
  InvTol T = inv_tol(R, e, e.a, lat1, lat2);
  Cmp C(v); set_regimes(C, e, lat1, lat2, true);
  DirTol TD = dir_tol(D, e, lon1, true, lat1);
  ref::aux::LatFuncs lf2;
  if (!E.lat_funcs(lat2, lf2)) { v.skip("reference not converged"); return v; }
  L R2 = std::max<L>(lf2.circle_radius, 1e-30L);
  L pos = hypotl(TD.lat2 * DEG * lf2.rho, TD.lon12 * DEG * R2);
  L azn = Math::AngNormalize(azi);
  L aexp = s12 >= 0 ? azn : (L)Math::AngNormalize((double)azn + 180);
  L tolaz = T.azi + (R.s12 > 0 ? 4 * pos / R.s12 / DEG : 0) + 8 * EPS * 180;
  if (tolaz < 10) C.le(fabsl(angdiff((L)ai, aexp)), tolaz, "Inverse(Direct) azimuth vs given azimuth [deg]");
  C.le(fabsl((L)si - fabsl((L)s12)), T.s12 + 2 * pos + 8 * EPS * fabsl((L)s12), "Inverse(Direct) distance vs |s12| [m]");
  C.le(fabsl((L)Si - (L)S12), T.S12 + TD.S12 + R.c2 * (2 * pos / R2), "Inverse(Direct) S12 vs Direct S12 [m^2]");
  C.finish(); return v;
}

// ------------------------------------------------------------------------------------------------ C09.d shortest
J gen_d() {
  J r = gen_pair();
  // over-weight exact ties and near ties
  if (vf::g::coin(1, 2)) {
    double lon1 = r.getd("lon1");
    double k = 180.0 * (vf::g::coin() ? 1 : -1) + 360.0 * (double)vf::g::irange(-2, 2);
    double lon2 = lon1 + k;
    if (vf::g::coin(1, 3)) lon2 = vf::g::ulps(lon2, (int)vf::g::irange(-2, 2));
    if (vf::g::coin(1, 3)) { lon1 = std::round(lon1 * 8) / 8; lon2 = lon1 + k; r["lon1"] = J::num(lon1); }     // exactly representable sums
    r["lon2"] = J::num(lon2);
  }
  return r;
}
Verdict check_d(const J& r) {
  Verdict v; EllRec e; double lat1, lon1, lat2, lon2;
  if (!get_ell(r, e) || !get_pair(r, lat1, lon1, lat2, lon2)) { v.skip("outside documented domain"); return v; }
  if (std::fabs(lat1) == 90 || std::fabs(lat2) == 90) { v.skip("pole end point (C09.e)"); return v; }
  Rhumb rh(e.a, e.f, e.exact);
  double s12, azi12, S12;
  rh.Inverse(lat1, lon1, lat2, lon2, s12, azi12, S12);
  tag_ell(v, e);
  ref::aux::Ell E(e.a, e.f);
  ref::rhumb::Inv R;
  if (!E.ok() || !ref::rhumb::inverse(E, lat1, lon1, lat2, lon2, R)) { v.skip("reference not converged"); return v; }
  v.nontrivial = !(lat1 == lat2 && R.lam12 == 0);
  int tsign = 0; bool tie = ref::rhumb::is_tie(lon1, lon2, tsign);
  v.tag(tie ? (tsign > 0 ? "tie-positive-difference" : "tie-negative-difference") : fabsl(R.lon12) > 179.999999 ? "near-tie" : "no-tie");
  InvTol T = inv_tol(R, e, e.a, lat1, lat2);
  Cmp C(v); set_regimes(C, e, lat1, lat2);
  // the course wraps no more than half way round: its longitude extent, recovered from the azimuth, is |lon12| <= 180:
  // tan(azi12) psi12 = lam12 must be the reduced difference, not the one +-360
  if (lat1 != lat2 && R.hyp > 0 && fabsl(R.psi12) > 0) {
    L lam_lib = tanl((L)azi12 * DEG) * R.psi12 / DEG;           // degrees
    L tol = T.azi * DEG * (R.hyp * R.hyp / fabsl(R.psi12)) / DEG + 1e-9L;
    if (std::fabs(std::fabs(azi12) - 90) > 1e-3 && tol < 1)
      C.that(fabsl(lam_lib) <= 180 + tol, "course found spans more than 180 degrees of longitude");
  }
  // never longer than the course the other way round (same end points, longitude difference -+360)
  {
    L other = 360 - fabsl(R.lon12);        // >= 180
    L h2 = hypotl(other * DEG, R.psi12);
    L s_other = lat1 == lat2 ? (R.lam12 != 0 ? R.s12 * other / fabsl(R.lon12) : (L)INFINITY) : fabsl(R.m12) * h2 / fabsl(R.psi12);
    C.that((L)s12 <= s_other * (1 + 64 * EPS) + T.s12, "Inverse distance exceeds that of the course the other way round");
  }
  C.le(fabsl((L)s12 - R.s12), T.s12, "Inverse s12 vs reference [m]");
  if (tie) {
    if (tsign > 0) {
      // both documents agree: east-going
      C.that(azi12 >= 0 && azi12 <= 180, "tie with lon2 - lon1 > 0: course not east-going");
      if (R.hyp > 0) C.le(fabsl(angdiff((L)azi12, R.azi12)), T.azi, "tie, east-going: azi12 vs reference [deg]");
      C.le(fabsl((L)S12 - R.S12), T.S12, "tie, east-going: S12 vs reference [m^2]");
    } else {
      if (R.hyp > 0) C.le(fabsl(fabsl((L)azi12) - fabsl(R.azi12)), T.azi, "tie: |azi12| vs reference [deg]");
      C.le(fabsl(fabsl((L)S12) - fabsl(R.S12)), T.S12, "tie: |S12| vs reference [m^2]");
    }
  } else {
    if (R.hyp > 0) C.le(fabsl(angdiff((L)azi12, R.azi12)), T.azi, "azi12 vs reference [deg]");
    C.le(fabsl((L)S12 - R.S12), T.S12, "S12 vs reference [m^2]");
  }
  C.finish(); return v;
}

// ------------------------------------------------------------------------------------------------ C09.e poles
J gen_e() {
  J r = J::obj();
  EllRec e = gen_ell(); put_ell(r, e);
  int kind = vf::g::wpick({35, 15, 20, 15, 15});   // 0 direct through a pole, 1 direct ending near the pole, 2 direct from a pole, 3 inverse one pole, 4 inverse two poles
  r["kind"] = J::integer(kind);
  double q = e.a * M_PI / 2;
  double lat1 = lat_nopole(), lon1 = gg::angle180(), azi = gen_azi(), s12 = 0, lat2 = lat_nopole(), lon2 = gg::angle();
  switch (kind) {
    case 0: s12 = vf::g::sgn() * vf::g::uni(0.5 * q, 6 * q); if (vf::g::coin()) azi = vf::g::sgn() * vf::g::uni(0, 60) + (vf::g::coin() ? 180 : 0); break;
    case 1: {    // aimed at the pole: distance = distance to the pole / cos(azi) +- small
      azi = vf::g::uni(-80, 80); if (lat1 < 0) azi += 180;
      double dist = (90 - std::fabs(lat1)) / 90 * q / std::max(0.1, std::cos(std::fabs(std::remainder(azi, 360.0) > 90 ? 180 - std::fabs(std::remainder(azi, 360.0)) : std::fabs(std::remainder(azi, 360.0))) * M_PI / 180));
      s12 = dist * (1 + vf::g::sgn() * vf::g::loguni(1e-16, 1e-2));
      break;
    }
    case 2: lat1 = vf::g::coin() ? 90 : -90; s12 = vf::g::sgn() * (vf::g::coin() ? vf::g::uni(0, 2 * q) : vf::g::loguni(1e-6, 1e7)); break;
    case 3: if (vf::g::coin()) lat1 = vf::g::coin() ? 90 : -90; else lat2 = vf::g::coin() ? 90 : -90; break;
    default: lat1 = vf::g::coin() ? 90 : -90; lat2 = vf::g::coin() ? 90 : -90; break;
  }
  r["lat1"] = J::num(lat1); r["lon1"] = J::num(lon1); r["azi12"] = J::num(azi); r["s12"] = J::num(s12);
  r["lat2"] = J::num(lat2); r["lon2"] = J::num(lon2);
  return r;
}
Verdict check_e(const J& r) {
  Verdict v; EllRec e;
  if (!get_ell(r, e)) { v.skip("outside documented domain"); return v; }
  long long kind = r.geti("kind");
  double lat1 = r.getd("lat1"), lon1 = r.getd("lon1"), azi = r.getd("azi12"), s12 = r.getd("s12"), lat2 = r.getd("lat2"), lon2 = r.getd("lon2");
  if (kind < 0 || kind > 4 || !(std::fabs(lat1) <= 90) || !(std::fabs(lat2) <= 90) || !std::isfinite(lon1) || !std::isfinite(lon2) || !std::isfinite(azi) || !std::isfinite(s12) ||
      std::fabs(lon1) > 1e5 || std::fabs(lon2) > 1e5 || std::fabs(azi) > 1e5 || std::fabs(s12) > 200 * e.a) { v.skip("outside documented domain / generated range"); return v; }
  Rhumb rh(e.a, e.f, e.exact);
  ref::aux::Ell E(e.a, e.f);
  if (!E.ok()) { v.skip("reference not converged"); return v; }
  tag_ell(v, e);
  v.nontrivial = true;
  const char* KID = "C09-pole-endpoint-nonfinite";
  if (kind <= 2) {
    double la = NAN, lo = NAN, SS = NAN;
    rh.Direct(lat1, lon1, azi, s12, la, lo, SS);
    ref::rhumb::Dir D;
    if (!ref::rhumb::direct(E, lat1, azi, s12, D)) { v.skip("reference not converged"); return v; }
    DirTol T = dir_tol(D, e, lon1, false, lat1);
    bool amb = fabsl(D.pole_margin) <= margin_tol(D, e);
    if (std::fabs(lat1) == 90) {
      // ---- start at a pole.  Rhumb.hpp: "If point 1 is a pole, the cosine of its latitude is taken to be epsilon^2 ... This
      // position, which is extremely close to the actual pole, allows the calculation to be carried out in finite terms."
      v.tag("pole-start");
      if (D.crosses && !amb) {
        // beyond the other pole, or away from the ellipsoid's other side: NaN longitude is the documented answer
        v.tag("pole-start-crossing");
        vle(v, fabsl((L)la - D.lat2), T.lat2 + 64 * EPS * 90, "pole start, course passing a pole: lat2 [deg]");
        return v;
      }
      if (amb) { v.that(std::fabs(la) <= 90, "lat2 outside [-90, 90]"); return v; }
      // relaxed oracle: the latitude reached along the meridian (the convention moves point 1 by < 1e-30 of the radius)
      vle(v, fabsl((L)la - D.lat2), T.lat2 + 64 * EPS * 90, "pole start: lat2 vs meridian distance [deg]");
      bool fin = std::isfinite(lo) && std::isfinite(SS);
      if (!fin) {
        if (kn(KID)) { v.known(KID, "Direct from a pole returns NaN/inf longitude and area (documented: carried out in finite terms)"); return v; }
        v.that(false, "Direct from a pole: lon2 or S12 not finite (Rhumb.hpp: carried out in finite terms)");
      }
      v.that(std::fabs(lo) <= 180, "lon2 outside [-180, 180]");
      return v;
    }
    if (D.crosses && !amb) {
      v.tag(kind == 1 ? "aimed-at-pole-beyond" : "crosses-pole");
      v.that(std::isnan(lo) && std::isnan(SS), "course passes a pole but lon2 / S12 are not NaN");
      vle(v, fabsl((L)la - D.lat2), T.lat2, "lat2 beyond the pole: reflected latitude vs reference [deg]");
      v.that(std::fabs(la) <= 90, "lat2 outside [-90, 90]");
      // the same through the line object and with LONG_UNROLL
      double la2 = NAN, lo2 = NAN, S2 = NAN;
      rh.Line(lat1, lon1, azi).GenPosition(s12, ALL | Rhumb::LONG_UNROLL, la2, lo2, S2);
      v.that(la2 == la && std::isnan(lo2) && std::isnan(S2), "RhumbLine::GenPosition(LONG_UNROLL) disagrees with Direct beyond the pole");
      return v;
    }
    if (amb) { v.tag("pole-margin-ambiguous"); v.that(std::fabs(la) <= 90, "lat2 outside [-90, 90]"); return v; }
    v.tag(kind == 1 ? "aimed-at-pole-short" : "no-crossing");
    Cmp C(v); set_regimes(C, e, lat1, (double)D.lat2, true);
    C.le(fabsl((L)la - D.lat2), T.lat2, "lat2 vs reference [deg]");
    C.that(std::isfinite(lo) && std::isfinite(SS) && std::fabs(lo) <= 180, "course stops short of the pole but lon2 / S12 are not finite");
    if (T.lon12 < 90) C.le(fabsl(angdiff((L)lo, (L)lon1 + D.lon12)), T.lon12, "lon2 vs reference (mod 360) [deg]");
    C.le(fabsl((L)SS - D.S12), T.S12, "S12 vs reference [m^2]");
    C.finish();
    return v;
  }
  // ---- Inverse with a pole as end point.  Rhumb.hpp: "If either point is a pole, the cosine of its latitude is taken to be
  // epsilon^2 ... allows the calculation to be carried out in finite terms."  Only finiteness and a relaxed oracle: the
  // distance lies between the meridian distance and that of the convention's oblique course (psi of the displaced pole
  // ~ 72, so cos(azi) >= 72/hypot(72, pi)); the area between the two conventions differs by < 2 %.
  bool p1 = std::fabs(lat1) == 90, p2 = std::fabs(lat2) == 90;
  if (!p1 && !p2) { v.skip("no pole end point"); return v; }
  v.tag(p1 && p2 ? (lat1 == lat2 ? "same-pole" : "pole-to-pole") : "one-pole");
  double si = NAN, ai = NAN, Si = NAN;
  rh.Inverse(lat1, lon1, lat2, lon2, si, ai, Si);
  ref::rhumb::Inv R;
  if (!ref::rhumb::inverse(E, lat1, lon1, lat2, lon2, R)) { v.skip("reference not converged"); return v; }
  L md = R.s12;           // |m2 - m1|
  v.that(std::isfinite(si), "Inverse with a pole end point: s12 not finite");
  if (v.failed()) return v;
  vle(v, std::max<L>(0, md - (L)si), 64 * ecc_factor(e) * EPS * (md + e.a), "pole end point: s12 shorter than the meridian distance [m]");
  vle(v, std::max<L>(0, (L)si - md * 1.002L), 64 * ecc_factor(e) * EPS * (md + e.a), "pole end point: s12 longer than 1.002 x meridian distance [m]");
  bool fin = std::isfinite(ai) && std::isfinite(Si);
  if (!fin) {
    if (kn(KID)) { v.known(KID, "Inverse between poles returns NaN azimuth (same pole) or NaN area (opposite poles); documented: finite terms"); return v; }
    v.that(false, "Inverse with pole end points: azi12 or S12 not finite (Rhumb.hpp: carried out in finite terms)");
    return v;
  }
  v.that(std::fabs(ai) <= 180, "azi12 outside [-180, 180]");
  if (lat1 != lat2) {
    // heading: towards the point with the larger latitude, within atan(pi/60) of the meridian
    L ca = cosl((L)ai * DEG);
    v.that(lat2 > lat1 ? ca > 0.998L : ca < -0.998L, "pole end point: azimuth not within 3.6 degrees of the meridional direction");
  }
  vle(v, std::max<L>(0, fabsl((L)Si) - R.c2 * fabsl(R.lam12)), 64 * ecc_factor(e) * EPS * R.c2 * fabsl(R.lam12) + 1e-300L * R.c2, "pole end point: |S12| exceeds the area of the hemispherical lune [m^2]");
  if (p1 != p2 && fabsl(fabsl(R.lon12) - 180) > 1e-9L) {      // (on opposite meridians the sense is a tie rule: C09.d)
    // exactly one end point is a pole: the whole longitude change happens at the pole, so the area between the course and
    // the equator is the lune of that pole's hemisphere, S12 = sign(pole) c2 lam12 (with the displaced pole of the header's
    // convention, psi ~ 72 instead of infinity, it is smaller by < 2 %): 3 % decides the sign and the order of magnitude
    // whichever convention is implemented
    L want = (p2 ? (lat2 > 0 ? 1 : -1) : (lat1 > 0 ? 1 : -1)) * R.c2 * R.lam12;
    vle(v, fabsl((L)Si - want), 0.03L * R.c2 * fabsl(R.lam12) + 1e-300L * R.c2, "one pole end point: S12 vs the lune of the pole's hemisphere sign(pole) c2 lam12 [m^2]");
    double s2, a2, S2; rh.Inverse(lat2, lon2, lat1, lon1, s2, a2, S2);
    vle(v, fabsl((L)S2 + (L)Si), 64 * ecc_factor(e) * EPS * R.c2 * fabsl(R.lam12) + 1e-300L * R.c2, "one pole end point: S12 of the reversed course is not -S12 [m^2]");
  }
  return v;
}

// ------------------------------------------------------------------------------------------------ C09.f series vs exact
Verdict check_f(const J& r) {
  Verdict v; EllRec e; double lat1, lon1, lat2, lon2;
  if (!get_ell(r, e) || !get_pair(r, lat1, lon1, lat2, lon2) || std::fabs(e.f) > 0.01) { v.skip("outside |f| <= 0.01"); return v; }
  if (std::fabs(lat1) == 90 || std::fabs(lat2) == 90) { v.skip("pole end point (C09.e)"); return v; }
  double azi = r.getd("azi12"), s12 = r.getd("s12");
  if (!std::isfinite(azi) || !std::isfinite(s12) || std::fabs(azi) > 1e5 || std::fabs(s12) > 200 * e.a) { v.skip("beyond generated range"); return v; }
  Rhumb rs(e.a, e.f, false), rx(e.a, e.f, true);
  EllRec es = e; es.exact = false; EllRec ex = e; ex.exact = true;
  tag_ell(v, es);
  long long cls = r.has("cls") ? r.geti("cls") : 0; if (cls >= 0 && cls < 8) v.tag(CLS[cls]);
  ref::aux::Ell E(e.a, e.f);
  if (!E.ok()) { v.skip("reference not converged"); return v; }
  v.nontrivial = true;
  // inverse
  {
    double s1, a1, S1, s2, a2, S2;
    rs.Inverse(lat1, lon1, lat2, lon2, s1, a1, S1); rx.Inverse(lat1, lon1, lat2, lon2, s2, a2, S2);
    ref::rhumb::Inv R;
    if (ref::rhumb::inverse(E, lat1, lon1, lat2, lon2, R)) {
      InvTol T = inv_tol(R, ex, e.a, lat1, lat2);
      tag_inv(v, R, lat1, lat2, e.a);
      Cmp C(v); set_regimes(C, ex, lat1, lat2);
      C.le(fabsl((L)s1 - (L)s2), 2 * T.s12, "series vs exact: Inverse s12 [m]");
      if (R.hyp > 0) C.le(fabsl(angdiff((L)a1, (L)a2)), 2 * T.azi, "series vs exact: Inverse azi12 [deg]");
      C.le(fabsl((L)S1 - (L)S2), 2 * T.S12, "series vs exact: Inverse S12 [m^2]");
      C.finish();
      if (v.st != Verdict::PASS) return v;
    }
  }
  // direct
  {
    double la1, lo1, SS1, la2, lo2, SS2;
    rs.GenDirect(lat1, lon1, azi, s12, ALL | Rhumb::LONG_UNROLL, la1, lo1, SS1); rx.GenDirect(lat1, lon1, azi, s12, ALL | Rhumb::LONG_UNROLL, la2, lo2, SS2);
    ref::rhumb::Dir D;
    if (ref::rhumb::direct(E, lat1, azi, s12, D)) {
      DirTol T = dir_tol(D, ex, lon1, true, lat1);
      bool amb = fabsl(D.pole_margin) <= margin_tol(D, es);
      if (!amb) {
        Cmp C(v); set_regimes(C, ex, lat1, (double)D.lat2, true);
        C.that(std::isnan(lo1) == std::isnan(lo2) && std::isnan(SS1) == std::isnan(SS2), "series and exact disagree on whether the course reaches a pole");
        C.le(fabsl((L)la1 - (L)la2), 2 * T.lat2, "series vs exact: Direct lat2 [deg]");
        if (!D.crosses) {
          C.le(fabsl((L)lo1 - (L)lo2), 2 * T.lon12, "series vs exact: Direct lon2 (unrolled) [deg]");
          C.le(fabsl((L)SS1 - (L)SS2), 2 * T.S12, "series vs exact: Direct S12 [m^2]");
        }
        C.finish();
      }
    }
  }
  return v;
}

// ------------------------------------------------------------------------------------------------ C09.g area, unroll
Verdict check_g(const J& r) {
  Verdict v; EllRec e; double lat1, lon1, azi, s12; bool unroll;
  if (!get_ell(r, e) || !get_dir(r, lat1, lon1, azi, s12, unroll)) { v.skip("outside documented domain"); return v; }
  if (std::fabs(lat1) == 90) { v.skip("pole start (C09.e)"); return v; }
  if (std::fabs(s12) > 200 * e.a) { v.skip("beyond generated range"); return v; }
  Rhumb rh(e.a, e.f, e.exact);
  ref::aux::Ell E(e.a, e.f);
  if (!E.ok()) { v.skip("reference not converged"); return v; }
  tag_ell(v, e);
  v.nontrivial = true;
  double ba = 1 - e.f, go = ba < 1 ? 1 / (ba * ba) : 0;
  vle(v, fabsl((L)rh.EllipsoidArea() / E.area() - 1) / EPS, 8 + 1.2 * go, "EllipsoidArea vs 4 pi (authalic radius)^2 [ulp]");
  v.that(rh.EquatorialRadius() == e.a && rh.Flattening() == e.f, "EquatorialRadius / Flattening inspectors");
  // LONG_UNROLL: lon2 - lon1 is the unreduced longitude change; without it lon2 is the same angle in [-180, 180]
  double la_u, lo_u, S_u, la_w, lo_w, S_w;
  rh.GenDirect(lat1, lon1, azi, s12, ALL | Rhumb::LONG_UNROLL, la_u, lo_u, S_u);
  rh.GenDirect(lat1, lon1, azi, s12, ALL, la_w, lo_w, S_w);
  v.that(la_u == la_w || (std::isnan(la_u) && std::isnan(la_w)), "lat2 depends on LONG_UNROLL");
  v.that(S_u == S_w || (std::isnan(S_u) && std::isnan(S_w)), "S12 depends on LONG_UNROLL");
  if (!std::isfinite(lo_u) || !std::isfinite(lo_w)) { v.that(!std::isfinite(lo_u) && !std::isfinite(lo_w), "lon2 not finite with one mask only"); v.tag("lon2-not-finite"); return v; }
  v.that(std::fabs(lo_w) <= 180, "lon2 outside [-180, 180] without LONG_UNROLL");
  L tolw = 4 * EPS * (fabsl((L)lo_u) + fabsl((L)lon1) + 180);
  vle(v, fabsl(angdiff((L)lo_u, (L)lo_w)), tolw, "lon2 with and without LONG_UNROLL differ modulo 360 [deg]");
  ref::rhumb::Dir D;
  if (ref::rhumb::direct(E, lat1, azi, s12, D) && !D.crosses && fabsl(D.pole_margin) > margin_tol(D, e)) {
    DirTol T = dir_tol(D, e, lon1, true, lat1);
    Cmp C(v); set_regimes(C, e, lat1, (double)D.lat2, true);
    C.le(fabsl(((L)lo_u - (L)lon1) - D.lon12), T.lon12, "LONG_UNROLL lon2 - lon1 vs unreduced longitude change [deg]");
    C.finish();
    if (C.id) return v;
    double turns = std::fabs((double)D.lon12) / 360;
    v.tag(turns < 0.5 ? "turns<0.5" : turns < 2 ? "turns<2" : turns < 20 ? "turns<20" : "turns>=20");
    // the sign of lon2 - lon1 is the sense of the course (east for 0 < azi < 180 and s12 > 0)
    if (T.lon12 < fabsl(D.lon12)) v.that(((L)lo_u - (L)lon1 > 0) == (D.lon12 > 0), "sense of the unrolled longitude change");
  }
  return v;
}

// ------------------------------------------------------------------------------------------------ registration
vf::Reg ra({"C09.a", "Rhumb::Inverse for a generated (ellipsoid exact b/a in [0.01,100] or series |f|<=0.01, point pair: generic, east-west, meridional, nearby 1e-9 m..1 km, |lat2-lat1|<1e-8, ulps apart, opposite meridians, equator-symmetric) vs 50-digit reference; non-trivial: points differ; distinct by record hash", 0.22,
            [] { return rc::gen::exec([] { return gen_pair(); }); }, check_a, nullptr});
vf::Reg rb({"C09.b", "Rhumb::GenDirect (with/without LONG_UNROLL) for generated (start, azimuth incl. 0/+-90/180 +- ulps and nearly east-west, distance 1e-300 m .. 40 quarter meridians of either sign) vs 50-digit reference; RhumbLine::Position == Direct; non-trivial: s12 != 0", 0.22,
            [] { return rc::gen::exec([] { return gen_dir(); }); }, check_b, nullptr});
vf::Reg rc1({"C09.c", "Direct(Inverse(p1,p2)) = p2; intermediate points of the line have Inverse azimuth azi12 and distance t s12; non-trivial: points differ", 0.10,
             [] { return rc::gen::exec([] { return gen_pair(); }); }, check_c, nullptr});
vf::Reg rc2({"C09.c2", "Inverse(Direct(p1, azi, s)) = (|s|, azi or azi+180) when the course spans < 180 degrees of longitude; non-trivial: s12 != 0", 0.08,
             [] { return rc::gen::exec([] { J r = gen_dir(); double a = r.getd("a");
                 r["s12"] = J::num(vf::g::sgn() * (vf::g::coin() ? vf::g::uni(0, 1.2 * a) : vf::g::loguni(1e-9, 1e7) * a / gg::A_WGS84));
                 if (vf::g::coin(2, 3)) r["lat1"] = J::num(vf::g::uni(-80, 80));      // keeps most courses away from the poles (< 180 deg of longitude)
                 return r; }); }, check_c2, nullptr});
vf::Reg rd({"C09.d", "shortest course: longitude extent <= 180, not longer than the course the other way round; exact ties lon2-lon1 = +-180 (mod 360): east-going when the difference as given is positive, magnitudes only otherwise", 0.12,
            [] { return rc::gen::exec([] { return gen_d(); }); }, check_d, nullptr});
vf::Reg re({"C09.e", "courses passing a pole (reflected latitude, NaN lon2 and S12), aimed at a pole +- 1e-16..1e-2 of the distance, starting at a pole, Inverse with one or two pole end points (finiteness + relaxed oracle)", 0.10,
            [] { return rc::gen::exec([] { return gen_e(); }); }, check_e, nullptr});
vf::Reg rf({"C09.f", "series vs exact (Inverse and Direct) for |f| <= 0.01, weighted to |f| = 0.01", 0.10,
            [] { return rc::gen::exec([] { J r = gen_pair(0); J d = gen_dir(0); r["azi12"] = d.at("azi12"); r["s12"] = d.at("s12"); return r; }); }, check_f, nullptr});
vf::Reg rg({"C09.g", "EllipsoidArea vs definition; LONG_UNROLL: lon2 - lon1 = unreduced longitude change (up to 20+ turns), same angle in [-180,180] without it", 0.06,
            [] { return rc::gen::exec([] { return gen_dir(); }); }, check_g, nullptr});

}  // namespace

VF_MAIN
