// C02 — inverse geodesic problem (DESIGN 3/C02)
//   C02.join  the returned (azi1, s12) followed by the ODE reference from point 1 lands on point 2 with
//             direction azi2; a12 = spherical arc integrated along the track, in [0,180]; longitudinal
//             extent <= 180 (shortest-path criteria of the property statement)
//   C02.sym   exchange of end points, equator/meridian reflection, lon + 360k: documented transformations
//   C02.cfg   series vs exact vs Geodesic(exact=true)
//   C02.tri   triangle inequality through generated third points, chord bound
//   C02.line  InverseLine reproduces point 2
#include "props/geod_common.hpp"

using namespace gc;

namespace {

bool valid_pair(const J& r, double& a, double& f, double& lat1, double& lon1, double& lat2, double& lon2) {
  a = r.getd("a"); f = r.getd("f"); lat1 = r.getd("lat1"); lon1 = r.getd("lon1"); lat2 = r.getd("lat2"); lon2 = r.getd("lon2");
  return std::fabs(lat1) <= 90 && std::fabs(lat2) <= 90 && std::isfinite(lon1) && std::isfinite(lon2) &&
         std::fabs(lon1) < 1e6 && std::fabs(lon2) < 1e6;
}

J gen_pair(int solver_or_any, bool extreme) {
  int solver = solver_or_any >= 0 ? solver_or_any : (int)vf::g::irange(0, 2);
  gg::Ell e = gg::ellipsoid(solver_exact(solver) ? (extreme && vf::g::coin(1, 4) ? gg::EXACT_RANGE : gg::SERIES_WIDE)
                                                 : (vf::g::coin(3, 4) ? gg::SERIES_FULL : gg::SERIES_WIDE));
  J r = J::obj();
  r["solver"] = J::integer(solver); r["a"] = J::num(e.a); r["f"] = J::num(e.f);
  put_pair(r, pointpair(e.a, e.f));
  return r;
}

// classification of the documented non-unique sets (Geodesic.hpp), with a margin: inside the margin the
// two equally short candidates differ in length by less than the documented accuracy, so either is allowed
struct Uniq { bool coincident, oppo_lat, oppo_mer, poles; };
Uniq classify(double lat1, double lat2, L lon12, double s12) {
  Uniq u;
  u.coincident = s12 == 0;
  u.oppo_lat = std::fabs(lat1 + lat2) <= 1e-7;                 // lat1 = -lat2 (two geodesics, azimuths exchanged)
  u.oppo_mer = fabsl(fabsl(lon12) - 180) <= 1e-7L;             // lon12 = +-180 (two geodesics, azimuths negated)
  u.poles = std::fabs(lat1) == 90 || std::fabs(lat2) == 90;
  return u;
}

// Known finding G1 (known_findings.json): on ellipsoids with third flattening |n| = |f/(2-f)| > 0.1 (f > 2/11 or
// f < -2/9) InverseStart skips its astroid starting guess ("fabs(_n) > 0.1" in Geodesic(Exact).cpp) and Newton's
// method then fails to converge to the geodesic joining the points when the pair lies in the (generalised)
// antipodal region: the returned geodesic misses point 2 by millimetres up to thousands of km.  Region, decided
// from the inputs only, in the astroid coordinates of the theory (lamscale = |f| pi cos(beta1), betscale =
// lamscale cos(beta1)):
//   oblate : |beta1 + beta2| <= 0.01 betscale (incl. lat1 = -lat2 exactly) and pi - |lam12| <= 3 lamscale
//   any f  : |lat1|, |lat2| <= 0.5 deg and |lon12| >= 180 min(1, 1-f) - 15 deg (nearly equatorial, near conjugate)
//   prolate: |lat1|, |lat2| <= 1e-14 deg (failures seen up to 6e-15), not both zero, |lon12| >= 20 deg (equator-hugging geodesics whose azimuth
//            must be resolved to ~1e-19 rad; the thorough tier found f = -1, lat = 3.5e-18, lon12 = 129: 987 km off)
bool in_G1(double f, double lat1, double lat2, L lon12) {
  if (!(fabsl((L)f / (2 - (L)f)) > 0.1L)) return false;
  L conj = 180 * std::min<L>(1, 1 - (L)f);
  if (std::fabs(lat1) <= 0.5 && std::fabs(lat2) <= 0.5 && fabsl(lon12) >= conj - 15) return true;
  if (f > 0) {
    L b1 = atanl((1 - (L)f) * tanl((L)lat1 * ref::DEG_L)), b2 = atanl((1 - (L)f) * tanl((L)lat2 * ref::DEG_L));
    L cb = std::max(cosl(b1), cosl(b2));
    L lamscale = (L)f * ref::PI_L * cb, betscale = lamscale * cb;
    if (fabsl(b1 + b2) <= 0.01L * betscale && ref::PI_L - fabsl(lon12) * ref::DEG_L <= 3 * lamscale) return true;
  } else {
    if (std::fabs(lat1) <= 1e-14 && std::fabs(lat2) <= 1e-14 && (lat1 != 0 || lat2 != 0) && fabsl(lon12) >= 20) return true;
  }
  return false;
}
// Known finding G3: slightly prolate ellipsoids (-3e-5 <= f <= -5e-7), lon12 = +-180 exactly and both latitudes within
// 2e-15 deg of the equator (not both zero): the starting guess is azi1 = 90 exactly, Newton's method then doubles
// cos(alp1) from ~1e-19 and is cut off after maxit1_ = 20 iterations one step short of convergence, and the
// bisection that follows cannot resolve the root; s12 comes out up to 11 m too long.
bool in_G3(double f, double lat1, double lat2, L lon12) {
  return f >= -3e-5 && f <= -5e-7 && fabsl(lon12) == 180 && std::fabs(lat1) <= 2e-15 && std::fabs(lat2) <= 2e-15 && (lat1 != 0 || lat2 != 0);
}
// a failure inside the region of a listed known finding is reported as KNOWN, not as a violation
void apply_known(Verdict& v, double f, double lat1, double lat2, L lon12) {
  if (!v.failed()) return;
  if (vf::known_on("G1") && in_G1(f, lat1, lat2, lon12)) v.known("G1", "inside region of known finding G1: " + v.msg);
  else if (vf::known_on("G3") && in_G3(f, lat1, lat2, lon12)) v.known("G3", "inside region of known finding G3: " + v.msg);
}

L az_diff(L x, L y) { return fabsl(remainderl(x - y, 360.0L)); }

// ---------------------------------------------------------------------------------------------
Verdict check_join(const J& r) {
  Verdict v; double a, f, lat1, lon1, lat2, lon2;
  int solver = (int)r.geti("solver");
  if (!valid_pair(r, a, f, lat1, lon1, lat2, lon2) || solver < 0 || solver > 2 || !in_domain(solver, a, f)) { v.skip("outside documented domain"); return v; }
  Inv o = lib_inverse(solver, a, f, lat1, lon1, lat2, lon2);
  v.tag(solver_exact(solver) ? "exact" : "series"); v.tag(fclass(f)); v.tag(r.has("kind") ? r.gets("kind") : "?");
  v.that(o.a12 >= 0 && o.a12 <= 180, "a12 outside [0,180]");
  // the exact solver can return s12 a few nm below zero for points ~1e-9 m apart (difference of elliptic
  // integrals); that is inside its documented accuracy, so only a clearly negative distance is an error
  v.that(o.s12 >= -(double)(2 * doc_tol(solver, a, f)), "s12 negative beyond the documented accuracy");
  v.that(std::fabs(o.azi1) <= 180 && std::fabs(o.azi2) <= 180, "azimuth outside [-180,180]");
  if (v.failed()) return v;
  ref::Ellipsoid E(a, f); ref::Ode ode(E);
  L Rmin = std::min(E.b * E.b / E.a, E.a * E.a / E.b);
  if ((L)o.s12 / (0.5L * Rmin) > 6000) { v.skip("reference too expensive for this eccentricity/length"); return v; }
  // K = 2 times the documented figure; the b/a table of GeodesicExact.hpp is labelled "approximate maximum
  // error" and the property only quotes the WGS84 figure for the exact solver, so K = 4 for |f| > 0.5
  L tolp = kdoc(solver, a, f) * (1 + (L)o.a12 / 90);
  ref::OdeResult R = ode.direct(lat1, lon1, o.azi1, o.s12, 0, 0.01L * tolp);
  if (!(R.err <= 0.02L * tolp)) { v.skip("reference not converged"); return v; }
  v.nontrivial = o.s12 > 0;
  L p2[3]; ref::to_cart(E, lat2, lon2, p2);
  // azi1 is a double in degrees: half an ulp of it displaces the end point by m12 * dazi
  L repr = 2.3e-16L * fabsl((L)o.azi1) * ref::DEG_L * fabsl(R.m12);
  // points closer together than 4x the documented accuracy: the azimuth is not determined at that accuracy,
  // and any heading lands within 2 s12 of point 2
  L shortline = (L)o.s12 < 4 * doc_tol(solver, a, f) ? 2 * fabsl((L)o.s12) : 0;
  v.le(ref::dist3(p2, R.r), tolp + repr + shortline, "ODE from point 1 with (azi1, s12) vs point 2 [m]");
  // arrival direction
  L d[3]; ref::dir_vec(lat2, lon2, o.azi2, d);
  L sphi2, cphi2; ref::Ode::sincosd(lat2, sphi2, cphi2);
  L w2 = 1 - E.e2 * sphi2 * sphi2;
  L Rloc = std::min(E.a * (1 - E.e2) / (w2 * sqrtl(w2)), E.a / sqrtl(w2));
  // direction of arrival depends on azi1 through dM: d(azi2) = M21 d(azi1)/... ; the end point error tolp
  // maps to a heading error tolp/Rloc, and the azi1 representation to |M21| * dazi
  {
    // conditioning: azimuths of an inverse solution are determined by the end points only up to
    // (position accuracy)/|m12|, and near a pole the frame in which azi2 is expressed turns by
    // (position accuracy)/(distance from the axis)
    L rho2 = hypotl(p2[0], p2[1]);
    L cond = E.a * 2 * tolp * (1 / std::max(fabsl(R.m12), 1e-300L) + 1 / std::max(rho2, 1e-300L));
    L told = (2 * tolp + repr) * std::max<L>(1, E.a / Rloc) + 2.3e-16L * 180 * ref::DEG_L * E.a * (1 + fabsl(R.M21)) + cond;
    if (told < 0.1L * E.a) v.le(ref::dist3(d, R.v) * E.a, told, "arrival direction vs azi2 [m-equivalent]");
    else v.tag("direction-illconditioned");
  }
  // a12 = arc length on the auxiliary sphere (definition, integrated along the track)
  v.le(fabsl((L)o.a12 - R.sig12), 2 * tolp / std::min(E.a, E.b) / ref::DEG_L + 4e-16L * (R.sig12 + 1), "a12 vs integrated spherical arc [deg]");
  // shortest-path criteria: arc <= 180 (checked above on a12 and here on the reference) and longitude extent <= 180
  L tola = 2 * tolp / std::min(E.a, E.b) / ref::DEG_L + 1e-13L;
  v.le(R.sig12 - 180, tola, "spherical arc of the returned geodesic exceeds 180 [deg]");
  if (!R.meridional) {
    L rho2 = hypotl(R.r[0], R.r[1]);
    L told = tolp / std::max(rho2, 1e-300L) / ref::DEG_L + 1e-13L;
    if (told < 1) v.le(fabsl(R.dlam) - 180, told, "longitudinal extent of the returned geodesic exceeds 180 [deg]");
  }
  apply_known(v, f, lat1, lat2, lon12_of(lon1, lon2));
  return v;
}

// ---------------------------------------------------------------------------------------------
// compare two inverse results under a documented transformation.  (e1,e2,eS) is the transformed
// solution; on the documented non-unique sets (Geodesic.hpp) the transformed problem has the further
// solutions [azi1,azi2] -> [azi2,azi1] (lat1 = -lat2) and [azi1,azi2] -> [-azi1,-azi2] (lon12 = +-180),
// both with S12 -> -S12 and the first with M12 <-> M21; any of them is accepted there.
void cmp_inv(Verdict& v, const char* what, const Inv& o, const Inv& t, L tolp, const ref::Ellipsoid& E,
             L e1, L e2, L eS, bool swapM, const Uniq& u) {
  std::string w(what);
  v.le(fabsl((L)o.s12 - (L)t.s12), tolp, (w + ": s12 [m]").c_str());
  v.le(fabsl((L)o.a12 - (L)t.a12), tolp / std::min(E.a, E.b) / ref::DEG_L * 2 + 1e-14L, (w + ": a12 [deg]").c_str());
  v.le(fabsl((L)o.m12 - (L)t.m12), 2 * tolp + 1e-15L * fabsl((L)o.m12), (w + ": m12 [m]").c_str());
  if (u.coincident || u.poles) return;      // azimuths arbitrary / tied to the longitude convention at a pole
  // azimuths are determined up to (position accuracy)/|m12|; skip where that is useless
  L m = std::max(fabsl((L)o.m12), 1e-300L);
  L tolaz = (2 * tolp / m) / ref::DEG_L + 1e-13L;
  if (!(tolaz < 1e-3L)) return;
  L Mo12 = swapM ? o.M21 : o.M12, Mo21 = swapM ? o.M12 : o.M21;
  struct Cand { L a1, a2, S, M12, M21; const char* nm; };
  Cand c[4]; int n = 0;
  c[n++] = {e1, e2, eS, Mo12, Mo21, "primary"};
  if (u.oppo_lat) c[n++] = {e2, e1, -eS, Mo21, Mo12, "alt:azimuths-exchanged"};
  if (u.oppo_mer) c[n++] = {-e1, -e2, -eS, Mo12, Mo21, "alt:azimuths-negated"};
  if (u.oppo_lat && u.oppo_mer) c[n++] = {-e2, -e1, eS, Mo21, Mo12, "alt:both"};
  int best = 0; L bestd = 1e30L;
  for (int i = 0; i < n; ++i) {
    L d = std::max(az_diff(t.azi1, c[i].a1), az_diff(t.azi2, c[i].a2));
    if (d < bestd) { bestd = d; best = i; }
  }
  v.le(bestd, tolaz, (w + ": azimuths (vs transformed solution or a documented alternative) [deg]").c_str());
  if (best != 0) v.tag("alternative-geodesic");
  // M12/M21 and S12 against every candidate whose azimuths match (meridional geodesics have azi = 0/180, for
  // which negation is invisible in the azimuths but still flips S12)
  L tolM = 8e-15L + 2 * tolp / E.a;
  L tS = 2 * (0.1L * (E.a / tol::A_WGS84) * (E.a / tol::A_WGS84)) + E.c2 * (tolaz * ref::DEG_L) * 2 + 1e-15L * fabsl((L)o.S12);
  L bestM = 1e30L, bestS = 1e30L;
  for (int i = 0; i < n; ++i) {
    L d = std::max(az_diff(t.azi1, c[i].a1), az_diff(t.azi2, c[i].a2));
    if (!(d <= tolaz)) continue;
    bestM = std::min(bestM, std::max(fabsl((L)t.M12 - c[i].M12), fabsl((L)t.M21 - c[i].M21)));
    bestS = std::min(bestS, fabsl((L)t.S12 - c[i].S));
  }
  if (bestM < 1e29L) {
    v.le(bestM, tolM * 4, (w + ": M12/M21").c_str());
    v.le(bestS, tS * 20, (w + ": S12 [m^2]").c_str());
  }
}

Verdict check_sym(const J& r) {
  Verdict v; double a, f, lat1, lon1, lat2, lon2;
  int solver = (int)r.geti("solver");
  if (!valid_pair(r, a, f, lat1, lon1, lat2, lon2) || solver < 0 || solver > 2 || !in_domain(solver, a, f)) { v.skip("outside documented domain"); return v; }
  // the series solver's S12 is only documented for |f| <= 0.02 at full accuracy; keep to that for S12 comparisons
  Inv o = lib_inverse(solver, a, f, lat1, lon1, lat2, lon2);
  ref::Ellipsoid E(a, f);
  L lon12 = lon12_of(lon1, lon2);
  Uniq u = classify(lat1, lat2, lon12, o.s12);
  L tolp = kdoc(solver, a, f) * (1 + (L)o.a12 / 90);
  v.tag(solver_exact(solver) ? "exact" : "series"); v.tag(r.has("kind") ? r.gets("kind") : "?");
  v.nontrivial = o.s12 > 0;
  if (u.oppo_lat) v.tag("set:lat1=-lat2"); if (u.oppo_mer) v.tag("set:lon12=180"); if (u.poles) v.tag("set:pole");
  // (1) exchange the end points
  {
    Inv t = lib_inverse(solver, a, f, lat2, lon2, lat1, lon1);
    cmp_inv(v, "exchange", o, t, tolp, E, (L)o.azi2 + 180, (L)o.azi1 + 180, -(L)o.S12, true, u);
  }
  // (2) reflect in the equator
  {
    Inv t = lib_inverse(solver, a, f, -lat1, lon1, -lat2, lon2);
    cmp_inv(v, "equator-reflection", o, t, tolp, E, 180 - (L)o.azi1, 180 - (L)o.azi2, -(L)o.S12, false, u);
  }
  // (3) reflect in a meridian (negate both longitudes: exact)
  {
    Inv t = lib_inverse(solver, a, f, lat1, -lon1, lat2, -lon2);
    cmp_inv(v, "meridian-reflection", o, t, tolp, E, -(L)o.azi1, -(L)o.azi2, -(L)o.S12, false, u);
  }
  // (4) add multiples of 360 to one longitude (only where the sum is exact, so the problem is identical)
  {
    int k = (int)r.geti("k360");
    double lon2s = lon2 + 360.0 * k;
    if (k != 0 && (L)lon2s - (L)lon2 == 360.0L * k) {
      Inv t = lib_inverse(solver, a, f, lat1, lon1, lat2, lon2s);
      cmp_inv(v, "lon2+360k", o, t, tolp, E, o.azi1, o.azi2, o.S12, false, u);
      v.tag("k360-exact");
    }
  }
  apply_known(v, f, lat1, lat2, lon12);
  return v;
}

// ---------------------------------------------------------------------------------------------
Verdict check_cfg(const J& r) {
  Verdict v; double a, f, lat1, lon1, lat2, lon2;
  if (!valid_pair(r, a, f, lat1, lon1, lat2, lon2) || !in_domain(0, a, f) || !in_domain(1, a, f)) { v.skip("outside documented domain"); return v; }
  ref::Ellipsoid E(a, f);
  Inv o[3]; for (int s = 0; s < 3; ++s) o[s] = lib_inverse(s, a, f, lat1, lon1, lat2, lon2);
  L lon12 = lon12_of(lon1, lon2);
  Uniq u = classify(lat1, lat2, lon12, o[0].s12);
  v.tag(r.has("kind") ? r.gets("kind") : "?"); v.tag(fclass(f));
  v.nontrivial = o[0].s12 > 0;
  for (int i = 0; i < 3; ++i) for (int j = i + 1; j < 3; ++j) {
    L tolp = (kdoc(i, a, f) + kdoc(j, a, f)) * (1 + (L)o[i].a12 / 90);
    char nm[64]; std::snprintf(nm, sizeof nm, "solver%d vs solver%d", i, j);
    if (i == 1 && j == 2) {   // same code path: GeodesicExact and Geodesic(exact=true) must agree to round-off
      tolp = std::min<L>(tolp, 64 * 2.3e-16L * E.a);
    }
    cmp_inv(v, nm, o[i], o[j], tolp, E, o[i].azi1, o[i].azi2, o[i].S12, false, u);
  }
  apply_known(v, f, lat1, lat2, lon12);
  return v;
}

// ---------------------------------------------------------------------------------------------
Verdict check_tri(const J& r) {
  Verdict v; double a, f, lat1, lon1, lat2, lon2;
  int solver = (int)r.geti("solver");
  if (!valid_pair(r, a, f, lat1, lon1, lat2, lon2) || solver < 0 || solver > 2 || !in_domain(solver, a, f)) { v.skip("outside documented domain"); return v; }
  double lat3 = r.getd("lat3"), lon3 = r.getd("lon3");
  if (!(std::fabs(lat3) <= 90) || !std::isfinite(lon3) || std::fabs(lon3) > 1e6) { v.skip("outside documented domain"); return v; }
  int mode = (int)r.geti("mode3");
  ref::Ellipsoid E(a, f);
  Inv o = lib_inverse(solver, a, f, lat1, lon1, lat2, lon2);
  if (mode == 1) {   // third point near the middle of the returned geodesic, displaced sideways
    Dir m = lib_direct(solver, a, f, lat1, lon1, o.azi1, false, o.s12 * r.getd("t"));
    Dir q = lib_direct(solver, a, f, m.lat2, m.lon2, m.azi2 + 90, false, r.getd("off") * std::max(o.s12, 1.0));
    lat3 = q.lat2; lon3 = q.lon2;
  }
  Inv o13 = lib_inverse(solver, a, f, lat1, lon1, lat3, lon3), o32 = lib_inverse(solver, a, f, lat3, lon3, lat2, lon2);
  L tolp = kdoc(solver, a, f) * 3 * 3;
  v.nontrivial = o.s12 > 0; v.tag(mode == 1 ? "third-near-geodesic" : "third-generated"); v.tag(r.has("kind") ? r.gets("kind") : "?");
  v.le((L)o.s12 - ((L)o13.s12 + (L)o32.s12), tolp, "triangle inequality s12 <= s13 + s32 [m]");
  L p1[3], p2[3]; ref::to_cart(E, lat1, lon1, p1); ref::to_cart(E, lat2, lon2, p2);
  v.le(ref::dist3(p1, p2) - (L)o.s12, tolp, "s12 >= 3-D chord [m]");
  if (v.failed()) {   // any of the three inverse problems may be the one inside a known region
    apply_known(v, f, lat1, lat2, lon12_of(lon1, lon2));
    if (v.failed()) apply_known(v, f, lat1, lat3, lon12_of(lon1, lon3));
    if (v.failed()) apply_known(v, f, lat3, lat2, lon12_of(lon3, lon2));
  }
  return v;
}

// ---------------------------------------------------------------------------------------------
Verdict check_line(const J& r) {
  Verdict v; double a, f, lat1, lon1, lat2, lon2;
  int solver = (int)r.geti("solver");
  if (!valid_pair(r, a, f, lat1, lon1, lat2, lon2) || solver < 0 || solver > 2 || !in_domain(solver, a, f)) { v.skip("outside documented domain"); return v; }
  ref::Ellipsoid E(a, f);
  Inv o = lib_inverse(solver, a, f, lat1, lon1, lat2, lon2);
  double la, lo, az, s, arc, dist, lazi, a12r;
  if (solver == 1) {
    GeodesicExact g(a, f); GeodesicLineExact l = g.InverseLine(lat1, lon1, lat2, lon2, GeodesicExact::ALL);
    arc = l.Arc(); dist = l.Distance(); lazi = l.Azimuth(); a12r = l.Position(dist, la, lo, az); (void)s;
  } else {
    Geodesic g(a, f, solver == 2); GeodesicLine l = g.InverseLine(lat1, lon1, lat2, lon2, Geodesic::ALL);
    arc = l.Arc(); dist = l.Distance(); lazi = l.Azimuth(); a12r = l.Position(dist, la, lo, az);
  }
  L tolp = kdoc(solver, a, f) * (1 + (L)o.a12 / 90);
  v.nontrivial = o.s12 > 0; v.tag(solver_exact(solver) ? "exact" : "series"); v.tag(r.has("kind") ? r.gets("kind") : "?");
  v.le(fabsl((L)dist - (L)o.s12), tolp, "InverseLine.Distance() vs Inverse s12 [m]");
  v.le(fabsl((L)arc - (L)o.a12), 2 * tolp / std::min(E.a, E.b) / ref::DEG_L + 1e-14L * o.a12, "InverseLine.Arc() vs Inverse a12 [deg]");
  L p[3], p2[3]; ref::to_cart(E, la, lo, p); ref::to_cart(E, lat2, lon2, p2);
  v.le(ref::dist3(p, p2), 2 * tolp, "InverseLine.Position(Distance()) vs point 2 [m]");
  v.le(fabsl((L)a12r - (L)o.a12), 2 * tolp / std::min(E.a, E.b) / ref::DEG_L + 1e-13L, "arc returned by Position(Distance()) vs a12 [deg]");
  if (o.s12 > 0 && std::fabs(lat1) != 90) v.le(az_diff(lazi, o.azi1), 1e-13L, "InverseLine.Azimuth() vs Inverse azi1 [deg]");
  apply_known(v, f, lat1, lat2, lon12_of(lon1, lon2));
  return v;
}

vf::Reg r1({"C02.join", "generated point pairs (40% in antipodal/astroid, meridional, equatorial, polar, near-coincident, lat1=-lat2 classes) x ellipsoid x solver; ODE reference follows the returned azimuth/distance; non-trivial: s12 > 0 and reference converged", 0.3,
            [] { return rc::gen::exec([] { return gen_pair(-1, true); }); }, check_join, nullptr});
vf::Reg r2({"C02.sym", "same generator; exchange, equator reflection, meridian reflection, lon2+360k (exact sums only); on the documented non-unique sets the documented alternative is accepted; non-trivial: s12 > 0", 0.25,
            [] { return rc::gen::exec([] { J r = gen_pair(-1, false); r["k360"] = J::integer(vf::g::irange(-3, 3)); return r; }); }, check_sym, nullptr});
vf::Reg r3({"C02.cfg", "same generator, |f| <= 0.2; series vs exact vs Geodesic(exact=true); non-trivial: s12 > 0", 0.2,
            [] { return rc::gen::exec([] { return gen_pair(0, false); }); }, check_cfg, nullptr});
vf::Reg r4({"C02.tri", "same generator plus a third point (generated, or near the middle of the returned geodesic displaced sideways); non-trivial: s12 > 0", 0.15,
            [] { return rc::gen::exec([] { J r = gen_pair(-1, false); r["mode3"] = J::integer(vf::g::irange(0, 1));
                                           r["lat3"] = J::num(gg::latitude()); r["lon3"] = J::num(gg::angle());
                                           r["t"] = J::num(vf::g::uni(0, 1)); r["off"] = J::num(vf::g::sgn() * vf::g::loguni(1e-9, 0.3)); return r; }); }, check_tri, nullptr});
vf::Reg r5({"C02.line", "same generator; InverseLine / GeodesicLine(Exact) third point; non-trivial: s12 > 0", 0.1,
            [] { return rc::gen::exec([] { return gen_pair(-1, false); }); }, check_line, nullptr});

}  // namespace

VF_MAIN
