// C17 — constructions built on geodesics (DESIGN 3/C17)
//   C17.azeq   AzimuthalEquidistant: the ODE reference from the centre along atan2d(x,y) for hypot(x,y) ends at the point;
//              azi = arrival azimuth, rk = m12/s12; Reverse(Forward) = id
//   C17.gnom   Gnomonic: hypot(x,y) = m12/M12 and rk = M12 from the Jacobi fields of the ODE reference along the geodesic
//              centre -> point, NaN iff M12 <= 0, Reverse(Forward) = id inside the horizon
//   C17.cass   CassiniSoldner: Reverse(x,y) = end of [north along the central meridian by y, right angle, x] computed by two
//              ODE legs; Forward(Reverse) = id; azi = bearing of the easting geodesic there, rk = its geodesic scale
//   C17.int    Intersect: a reported intersection lies on both lines at the returned displacements (ODE on both lines);
//              coincidence flag; Closest is not beaten by any lattice neighbour (the other intersections of two closed
//              geodesics lie near (x + i pi R, y + j pi R), i = j mod 2); Next excludes the origin; Segment's segmode per
//              its definition; All: valid, within maxdist, sorted, no duplicates, contains Closest
//   C17.nn     NearestNeighbor vs brute force: count, multiset of distances, order, (mindist, maxdist] window, tol guarantee,
//              exhaustive=false validity, Save/Load (text and binary) round trip; metrics |.| on integers, L1 / Linf on small
//              integer grids (many ties), Euclidean on doubles
#include "props/geod_common.hpp"
#include <GeographicLib/AzimuthalEquidistant.hpp>
#include <GeographicLib/Gnomonic.hpp>
#include <GeographicLib/CassiniSoldner.hpp>
#include <GeographicLib/Intersect.hpp>
#include <GeographicLib/NearestNeighbor.hpp>
#include <sstream>

using namespace gc;

namespace {

bool okell(double a, double f) { return a > 0 && std::isfinite(a) && std::fabs(f) <= 0.02; }

J gen_proj() {
  using namespace vf;
  gg::Ell e = gg::ellipsoid(gg::SERIES_FULL);
  J r = J::obj(); r["a"] = J::num(e.a); r["f"] = J::num(e.f); r["exact"] = J::integer(g::coin(1, 3));
  r["lat0"] = J::num(gg::latitude()); r["lon0"] = J::num(gg::angle());
  // the point: by azimuth and arc from the centre (so that the horizon / antipode classes are controlled)
  r["azi"] = J::num(gg::angle180());
  r["arc"] = J::num(g::wpick({5, 2, 2, 1}) == 0 ? g::uni(0, 89) : g::coin() ? g::uni(0, 179.9) : g::coin() ? g::loguni(1e-9, 1) : 90 + g::sgn() * g::loguni(1e-6, 5));
  return r;
}

// ---------------------------------------------------------------------------------------------
Verdict check_azeq(const J& r) {
  Verdict v; double a = r.getd("a"), f = r.getd("f"), lat0 = r.getd("lat0"), lon0 = r.getd("lon0"), azi = r.getd("azi"), arc = r.getd("arc");
  bool exact = r.geti("exact");
  if (!okell(a, f) || !(std::fabs(lat0) <= 90) || !(std::fabs(lon0) < 1e6) || !(std::fabs(azi) <= 1e5) || !(arc >= 0 && arc <= 179.9)) { v.skip("outside documented domain"); return v; }
  Geodesic g(a, f, exact); AzimuthalEquidistant p(g); ref::Ellipsoid E(a, f); ref::Ode ode(E);
  double lat, lon, t; g.ArcDirect(lat0, lon0, azi, arc, lat, lon, t);
  double x, y, az, rk; p.Forward(lat0, lon0, lat, lon, x, y, az, rk);
  int solver = exact ? 2 : 0;
  L tolp = kdoc(solver, a, f) * (1 + (L)arc / 90);
  L s = hypotl((L)x, (L)y), a0 = atan2l((L)x, (L)y) / ref::DEG_L;
  if (std::fabs(lat0) == 90 || std::fabs(lat) == 90) { v.skip("pole: azimuth tied to the longitude convention"); return v; }
  ref::OdeResult R = ode.direct(lat0, lon0, a0, s, 0, 0.01L * tolp);
  if (!(R.err <= 0.05L * tolp)) { v.skip("reference not converged"); return v; }
  L P[3]; ref::to_cart(E, lat, lon, P);
  L repr = 4 * 2.3e-16L * s;     // atan2/hypot of doubles
  v.le(ref::dist3(P, R.r), tolp + repr + 2.3e-16L * 180 * ref::DEG_L * fabsl(R.m12), "point at distance hypot(x,y) and azimuth atan2(x,y) from the centre vs the point [m]");
  L d[3]; ref::dir_vec(lat, lon, az, d);
  L rho = hypotl(P[0], P[1]);
  L cond = E.a * 2 * tolp * (1 / std::max(fabsl(R.m12), 1e-300L) + 1 / std::max(rho, 1e-300L));
  if (cond < 0.01L * E.a && s > 0) v.le(ref::dist3(d, R.v) * E.a, 4 * tolp + cond, "azi vs arrival azimuth of the geodesic from the centre [m-equivalent]");
  if (s > 16 * tolp) v.le(fabsl((L)rk - R.m12 / s), 8e-16L + 4 * tolp / s, "rk vs m12/s12");
  else v.tag("near-centre");
  double la2, lo2, az2, rk2; p.Reverse(lat0, lon0, x, y, la2, lo2, az2, rk2);
  L Q[3]; ref::to_cart(E, la2, lo2, Q);
  v.le(ref::dist3(P, Q), 2 * tolp + repr, "Reverse(Forward(p)) vs p [m]");
  v.nontrivial = s > 0; v.tag(exact ? "exact" : "series"); v.tag(arc > 90 ? "beyond-90deg" : "within-90deg");
  return v;
}

// ---------------------------------------------------------------------------------------------
Verdict check_gnom(const J& r) {
  Verdict v; double a = r.getd("a"), f = r.getd("f"), lat0 = r.getd("lat0"), lon0 = r.getd("lon0"), azi = r.getd("azi"), arc = r.getd("arc");
  bool exact = r.geti("exact");
  if (!okell(a, f) || !(std::fabs(lat0) <= 90) || !(std::fabs(lon0) < 1e6) || !(std::fabs(azi) <= 1e5) || !(arc >= 0 && arc <= 179.9)) { v.skip("outside documented domain"); return v; }
  if (std::fabs(lat0) == 90) { v.skip("pole centre: azimuth tied to the longitude convention"); return v; }
  Geodesic g(a, f, exact); Gnomonic p(g); ref::Ellipsoid E(a, f); ref::Ode ode(E);
  int solver = exact ? 2 : 0;
  Dir dd = lib_direct(solver, a, f, lat0, lon0, azi, true, arc);
  double lat = dd.lat2, lon = dd.lon2;
  double x, y, az, rk; p.Forward(lat0, lon0, lat, lon, x, y, az, rk);
  L tolp = kdoc(solver, a, f) * (1 + (L)arc / 90);
  // reference Jacobi fields along the (validated) geodesic from the centre to the point
  Inv iv = lib_inverse(solver, a, f, lat0, lon0, lat, lon);
  ref::OdeResult R = ode.direct(lat0, lon0, iv.azi1, iv.s12, 0, 0.01L * tolp);
  if (!(R.err <= 0.05L * tolp)) { v.skip("reference not converged"); return v; }
  L P[3]; ref::to_cart(E, lat, lon, P);
  if (!(ref::dist3(P, R.r) <= 2 * tolp + 2.3e-16L * 180 * ref::DEG_L * fabsl(R.m12))) { v.skip("inverse solution misses the point (C02 domain)"); return v; }
  v.nontrivial = iv.s12 > 0; v.tag(exact ? "exact" : "series");
  L tM = 4 * (1e-15L + tolp / std::min(E.a, E.b));
  if (R.M12 <= -tM) {
    v.that(std::isnan(x) && std::isnan(y), "point beyond the horizon (M12 <= 0) must give NaN x, y"); v.tag("beyond-horizon");
    return v;
  }
  if (R.M12 < 100 * tM) { v.tag("at-horizon"); return v; }
  v.tag("inside-horizon");
  v.that(std::isfinite(x) && std::isfinite(y), "point inside the horizon gave non-finite x, y");
  if (v.failed()) return v;
  L rho = R.m12 / R.M12, lrho = hypotl((L)x, (L)y);
  // d(rho) = dm/M - m dM/M^2
  L trho = (4 * tolp + 8e-16L * fabsl(rho)) / R.M12 + fabsl(R.m12) * tM / (R.M12 * R.M12);
  v.le(fabsl(lrho - rho), trho, "hypot(x,y) vs m12/M12 of the Jacobi equation [m]");
  v.le(fabsl((L)rk - R.M12), tM, "rk vs M12");
  if (iv.s12 > 16 * (double)tolp) {
    L da = remainderl(atan2l((L)x, (L)y) / ref::DEG_L - (L)iv.azi1, 360.0L);
    v.le(fabsl(da), (2 * tolp / std::max(fabsl(R.m12), 1e-300L)) / ref::DEG_L + 1e-13L, "atan2(x,y) vs azimuth at the centre [deg]");
  }
  double la2, lo2, az2, rk2; p.Reverse(lat0, lon0, x, y, la2, lo2, az2, rk2);
  if (R.M12 > 0.01) {    // well inside the horizon: documented region for the inverse mapping
    L Q[3]; ref::to_cart(E, la2, lo2, Q);
    // ground error of inverting rho = m/M: d s = d rho * M^2
    v.le(ref::dist3(P, Q), 4 * tolp + 4 * 2.3e-16L * fabsl(rho) * R.M12 * R.M12 + 1e-9L * 0, "Reverse(Forward(p)) vs p [m]");
    v.le(fabsl((L)rk2 - R.M12), 4 * tM, "Reverse rk vs M12");
  }
  return v;
}

// ---------------------------------------------------------------------------------------------
Verdict check_cass(const J& r) {
  Verdict v; double a = r.getd("a"), f = r.getd("f"), lat0 = r.getd("lat0"), lon0 = r.getd("lon0");
  bool exact = r.geti("exact"); double x = r.getd("x"), y = r.getd("y");
  if (!okell(a, f) || !(std::fabs(lat0) <= 90) || !(std::fabs(lon0) < 1e6)) { v.skip("outside documented domain"); return v; }
  ref::Ellipsoid E(a, f); ref::Ode ode(E);
  L Q4 = tol::quarter_meridian(a, f);
  if (!(std::fabs(x) <= 0.98 * (double)Q4) || !(std::fabs(y) <= 3.9 * (double)Q4)) { v.skip("outside the generated region (|x| < quarter circumference)"); return v; }
  Geodesic g(a, f, exact); CassiniSoldner p(lat0, lon0, g);
  int solver = exact ? 2 : 0;
  double lat, lon, az, rk; p.Reverse(x, y, lat, lon, az, rk);
  L tolp = kdoc(solver, a, f) * (2 + (fabsl((L)x) + fabsl((L)y)) / Q4);
  if (std::fabs(lat0) == 90) { v.skip("pole origin"); return v; }
  // leg 1: along the central meridian (azimuth 0 at the origin) by y; leg 2: turn right, go x
  ref::OdeResult R1 = ode.direct(lat0, lon0, 0, y, 0, 0.005L * tolp);
  if (fabsl(fabsl(R1.lat2) - 90) < 1e-9L) { v.skip("foot of the perpendicular at a pole"); return v; }
  ref::OdeResult R2 = ode.direct(R1.lat2, R1.lon2, R1.azi2 + 90, x, 0, 0.005L * tolp);
  if (!(R1.err + R2.err <= 0.05L * tolp)) { v.skip("reference not converged"); return v; }
  L P[3]; ref::to_cart(E, lat, lon, P);
  // leg 2 starts at the long double foot point: its own representation does not enter
  v.le(ref::dist3(P, R2.r), tolp, "Reverse(x,y) vs [north by y along the central meridian, right angle, x] [m]");
  L d[3]; ref::dir_vec(lat, lon, az, d);
  L rho = hypotl(P[0], P[1]);
  if (rho > 1e-3L * E.a) v.le(ref::dist3(d, R2.v) * E.a, 4 * tolp * std::max<L>(1, E.a / rho), "azi vs bearing of the easting geodesic [m-equivalent]");
  v.le(fabsl((L)rk - R2.M12), 4 * (1e-15L + tolp / std::min(E.a, E.b)), "rk vs geodesic scale M12 of the easting geodesic");
  double x2, y2, az2, rk2; p.Forward(lat, lon, x2, y2, az2, rk2);
  // Forward(Reverse) = id; y is conditioned by 1/M12 (meridians of the projection converge)
  L tf = 4 * tolp / std::max<L>(fabsl(R2.M12), 1e-3L);
  if (fabsl(R2.M12) > 0.05) { v.le(fabsl((L)x2 - (L)x), 2 * tolp, "Forward(Reverse(x,y)) x [m]"); v.le(fabsl(remainderl((L)y2 - (L)y, 4 * Q4)), tf + 1e-15L * 4 * Q4, "Forward(Reverse(x,y)) y, modulo the meridian circumference [m]"); }
  else v.tag("near-90deg-from-meridian");
  v.nontrivial = x != 0; v.tag(exact ? "exact" : "series"); v.tag(std::fabs(y) > (double)Q4 ? "over-the-pole" : "same-side");
  return v;
}

// ---------------------------------------------------------------------------------------------
// intersections
struct LineRef { double lat, lon, azi; };
void lib_pos(const Geodesic& g, const LineRef& l, double s, double& la, double& lo, double& az) { g.Direct(l.lat, l.lon, l.azi, s, la, lo, az); }

// both lines at the returned displacements, by the ODE reference; returns separation and the angle between the directions
bool ode_sep(const ref::Ellipsoid& E, const LineRef& X, const LineRef& Y, double x, double y, L& sep, L& cosang, L tolconv) {
  ref::Ode ode(E);
  ref::OdeResult A = ode.direct(X.lat, X.lon, X.azi, x, 0, tolconv), B = ode.direct(Y.lat, Y.lon, Y.azi, y, 0, tolconv);
  if (!(A.err + B.err <= 4 * tolconv)) return false;
  sep = ref::dist3(A.r, B.r); cosang = A.v[0] * B.v[0] + A.v[1] * B.v[1] + A.v[2] * B.v[2];
  return true;
}

Verdict check_int(const J& r) {
  Verdict v; double a = r.getd("a"), f = r.getd("f");
  LineRef X{r.getd("latX"), r.getd("lonX"), r.getd("aziX")}, Y{r.getd("latY"), r.getd("lonY"), r.getd("aziY")};
  if (!(a > 0) || !std::isfinite(a) || !(std::fabs(f) <= 0.1) || !(std::fabs(X.lat) < 90) || !(std::fabs(Y.lat) < 90) || !(std::fabs(X.lon) < 1e5) || !(std::fabs(Y.lon) < 1e5) || !(std::fabs(X.azi) < 1e5) || !(std::fabs(Y.azi) < 1e5)) { v.skip("outside documented domain"); return v; }
  double px = r.getd("p0x"), py = r.getd("p0y"), maxdist = r.getd("maxdist");
  ref::Ellipsoid E(a, f);
  L circ = 2 * ref::PI_L * E.a;
  if (!(std::fabs(px) <= 2 * (double)circ && std::fabs(py) <= 2 * (double)circ && maxdist >= 0 && maxdist <= 2.2 * (double)circ)) { v.skip("outside generated range"); return v; }
  Geodesic g(a, f);
  std::unique_ptr<Intersect> inp;
  try { inp.reset(new Intersect(g)); } catch (const GeographicErr&) { v.skip("ellipsoid rejected by the Intersect constructor"); return v; }
  Intersect& in = *inp;
  Intersect::Point p0(px, py);
  int c = 99; Intersect::Point q = in.Closest(X.lat, X.lon, X.azi, Y.lat, Y.lon, Y.azi, p0, &c);
  // documented accuracy of the intersection itself: the lines are followed with the geodesic accuracy
  L tolp = kdoc(0, a, f) * (2 + (fabsl((L)q.first) + fabsl((L)q.second)) / (circ / 4));
  L sep, ca;
  if (!ode_sep(E, X, Y, q.first, q.second, sep, ca, 0.01L * tolp)) { v.skip("reference not converged"); return v; }
  // nearly parallel lines: the crossing point is located to (position accuracy)/sin(angle); the separation stays small
  L sang = sqrtl(std::max<L>(0, 1 - ca * ca));
  v.le(sep, 4 * tolp + 1e-9L * (E.a / 6.4e6L), "Closest: X(x) and Y(y) do not coincide [m]");
  v.that(c == 0 || c == 1 || c == -1, "coincidence flag not in {-1,0,1}");
  if (c != 0) v.that(sang < 1e-6L && (c > 0) == (ca > 0), "coincidence flag set but the lines are not (anti)parallel there");
  if (c == 0) v.tag("transversal"); else v.tag("coincident");
  if (sang < 1e-3L) v.tag("nearly-parallel");
  // minimality against the lattice of the other intersections (i = j mod 2), margin for the ellipsoidal deformation
  if (c == 0 && sang > 0.05L) {
    L half = ref::PI_L * (E.a + E.b) / 2; L d0 = fabsl((L)q.first - px) + fabsl((L)q.second - py);
    L margin = 6 * fabsl(E.f) * half + 1e-3L * half;
    for (int i = -2; i <= 2; ++i) for (int j = -2; j <= 2; ++j) {
      if ((i == 0 && j == 0) || ((i + j) & 1)) continue;
      L d = fabsl((L)q.first + i * half - px) + fabsl((L)q.second + j * half - py);
      if (d + 2 * margin < d0) {
        // verify that an intersection really exists near that lattice point: ask the library for the closest to it
        Intersect::Point qq = in.Closest(X.lat, X.lon, X.azi, Y.lat, Y.lon, Y.azi, Intersect::Point((double)((L)q.first + i * half), (double)((L)q.second + j * half)));
        L dq = fabsl((L)qq.first - px) + fabsl((L)qq.second - py); L s2, c2;
        if (dq + 1 < d0 && ode_sep(E, X, Y, qq.first, qq.second, s2, c2, 0.01L * tolp) && s2 < 1e-3L)
          v.le(d0 - dq, 1.0L, "Closest is beaten by another valid intersection (L1 distance from p0) [m]");
      }
    }
    v.tag("minimality-checked");
  }
  // minimality / completeness against witnesses: intersections found by Closest from a grid of other start offsets
  // (each witness is validated as a genuine intersection with the ODE reference before it counts)
  std::vector<Intersect::Point> witnesses;
  if (c == 0 && sang > 0.05L) {
    L half = ref::PI_L * (E.a + E.b) / 2; L d0 = fabsl((L)q.first - px) + fabsl((L)q.second - py);
    int gridn = (int)r.geti("wgrid");
    for (int i = -gridn; i <= gridn; ++i) for (int j = -gridn; j <= gridn; ++j) {
      if (i == 0 && j == 0) continue;
      Intersect::Point w = in.Closest(X.lat, X.lon, X.azi, Y.lat, Y.lon, Y.azi, Intersect::Point((double)(px + i * 0.45L * half), (double)(py + j * 0.45L * half)));
      if (!std::isfinite(w.first) || !std::isfinite(w.second)) continue;
      bool dup = false; for (auto& u : witnesses) if (std::fabs(u.first - w.first) + std::fabs(u.second - w.second) < 1.0) dup = true;
      if (dup) continue;
      witnesses.push_back(w);
      L dw = fabsl((L)w.first - px) + fabsl((L)w.second - py);
      if (dw + 1 < d0) {
        L s2, c2; L tw = kdoc(0, a, f) * (2 + (fabsl((L)w.first) + fabsl((L)w.second)) / (circ / 4));
        if (ode_sep(E, X, Y, w.first, w.second, s2, c2, 0.01L * tw) && s2 <= 8 * tw + 1e-9L)
          v.le(d0 - dw, 1.0L, "Closest is farther from p0 than a valid intersection found from another start offset [m]");
      }
    }
    v.tag("witness-checked");
  }
  // Next: an intersection other than the one at the origin of coincident starts
  {
    // make Y start on X: Y0 = X(s0), different azimuth
    double s0 = r.getd("s0"), la, lo, az; lib_pos(g, X, s0, la, lo, az);
    if (std::fabs(la) < 89.9) {
      LineRef X2{la, lo, az}, Y2{la, lo, az + r.getd("dazi")};
      int cn = 99; Intersect::Point n = in.Next(X2.lat, X2.lon, X2.azi, Y2.azi, &cn);
      L s3, c3;
      if (ode_sep(E, X2, Y2, n.first, n.second, s3, c3, 0.01L * tolp)) {
        v.le(s3, 8 * tolp + 1e-9L * (E.a / 6.4e6L), "Next: X(x) and Y(y) do not coincide [m]");
        L dn = fabsl((L)n.first) + fabsl((L)n.second);
        L sd = fabsl(sinl(r.getd("dazi") * ref::DEG_L));
        if (sd > 0.05L && v.st == Verdict::PASS) {
          // minimality of Next: the candidates are the intersections near (+-h, +-h), h = half a circumference; locate each
          // with Closest from that offset (witness), validate it by following both lines with the ODE reference, and
          // require Next not to be farther than any of them (they differ by metres on an ellipsoid; S-C17-m4 returned
          // the mirror intersection, up to 23 m farther)
          L h = ref::PI_L * (E.a + E.b) / 2;
          // (and those near (0, +-2h), (+-2h, 0): one line going once round and meeting the other again near the origin)
          static const int WX[8] = {-1, -1, 1, 1, 0, 0, -2, 2}, WY[8] = {-1, 1, -1, 1, -2, 2, 0, 0};
          for (int wi = 0; wi < 8; ++wi) { int sx = WX[wi], sy = WY[wi];
            Intersect::Point p0w((double)(sx * h), (double)(sy * h));
            Intersect::Point w = in.Closest(X2.lat, X2.lon, X2.azi, Y2.lat, Y2.lon, Y2.azi, p0w);
            L dw = fabsl((L)w.first) + fabsl((L)w.second);
            if (!(dw > 1e-3 * (double)E.a)) continue;
            L tw = kdoc(0, a, f) * (2 + dw / (circ / 4)), s5, c5;
            if (ode_sep(E, X2, Y2, w.first, w.second, s5, c5, 0.01L * tw) && s5 <= 8 * tw + 1e-9L) {
              L sw = sqrtl(std::max<L>(0, 1 - c5 * c5));
              if (sw > 0.05L) v.le(dn - dw, 1e-3L + 100 * (8 * tw + 1e-9L) / sw, "Next is farther from the origin than a valid intersection found by Closest from a lattice offset [m]");
            }
          }
          v.tag("next-minimality-checked");
        }
        if (sd > 1e-3L) { v.that(dn > 1e-3 * (double)E.a, "Next returned the intersection at the origin"); v.that(dn <= 2 * ref::PI_L * std::max(E.a, E.b) * (1 + 4 * fabsl(E.f) + 1e-9L), "Next is farther than the conjugate intersections (2 x half circumference)"); }
      }
    }
  }
  // All: valid, within maxdist, sorted, no duplicates, contains Closest
  if (r.geti("doall")) {
    std::vector<int> cs; std::vector<Intersect::Point> all = in.All(X.lat, X.lon, X.azi, Y.lat, Y.lon, Y.azi, maxdist, cs, p0);
    v.that(cs.size() == all.size(), "All: coincidence vector has a different size");
    L prev = -1; bool hasq = false;
    for (size_t k = 0; k < all.size(); ++k) {
      L d = fabsl((L)all[k].first - px) + fabsl((L)all[k].second - py);
      v.le(d - maxdist, 1e-6L, "All: returned intersection beyond maxdist [m]");
      v.le(prev - d, 1e-6L, "All: not sorted by distance from p0 [m]");
      prev = d;
      L s4, c4 = 0; bool have4 = ode_sep(E, X, Y, all[k].first, all[k].second, s4, c4, 0.01L * tolp);
      if (have4) v.le(s4, 8 * tolp * (1 + d / (circ / 4)) + 1e-9L * (E.a / 6.4e6L), "All: returned point is not an intersection [m]");
      for (size_t m = 0; m < k; ++m)
        if (!(std::fabs(all[k].first - all[m].first) + std::fabs(all[k].second - all[m].second) > 1e-3 * a / 6.4e6)) {
          // Known finding C17-all-duplicate-shallow: All() merges two Newton results only if they agree to _delta = a eps^0.8
          // (2 um); a shallow crossing is located only to (geodesic accuracy)/sin(angle), which for |f| ~ 0.1 (accuracy ~ 1 mm)
          // and an angle of a degree is centimetres, so the same intersection reached from two starting points is listed twice.
          // The same happens for intersections *at a pole* (two meridional lines): the two Newton results then differ by ~1e-5 m.
          L sw4 = have4 ? sqrtl(std::max<L>(0, 1 - c4 * c4)) : 1;
          double pla, plo, paz; lib_pos(g, X, all[k].first, pla, plo, paz);
          bool atpole = std::fabs(pla) > 89.999;
          if (vf::known_on("C17-all-duplicate-shallow") && std::fabs(f) > 0.01 && (sw4 < 0.05L || atpole)) { v.known("C17-all-duplicate-shallow", "All: the same shallow / polar intersection listed twice"); return v; }
          v.that(false, "All: duplicate intersection");
        }
      // the same intersection is located to (position accuracy)/sin(crossing angle); ties in the L1 distance are
      // common (documented), so any entry at the distance of Closest counts
      if (std::fabs(all[k].first - q.first) + std::fabs(all[k].second - q.second) < 0.1 * a / 6.4e6 || fabsl(d - (fabsl((L)q.first - px) + fabsl((L)q.second - py))) < 1e-3L) hasq = true;
      if (v.failed()) return v;
    }
    L dq = fabsl((L)q.first - px) + fabsl((L)q.second - py);
    if (c == 0 && sang > 0.05L && dq < maxdist - 1) v.that(hasq, "All: the Closest intersection (inside maxdist) is missing");
    // completeness: every validated witness clearly inside maxdist must be present
    for (auto& w : witnesses) {
      L dw = fabsl((L)w.first - px) + fabsl((L)w.second - py);
      if (!(dw < maxdist - 10)) continue;
      bool present = false; for (auto& u : all) if (std::fabs(u.first - w.first) + std::fabs(u.second - w.second) < 1.0) present = true;
      if (!present) {
        L s2, c2; L tw = kdoc(0, a, f) * (2 + (fabsl((L)w.first) + fabsl((L)w.second)) / (circ / 4));
        if (ode_sep(E, X, Y, w.first, w.second, s2, c2, 0.01L * tw) && s2 <= 8 * tw + 1e-9L) {
          // a shallow crossing is located only to (position accuracy)/sin(angle): widen the match radius accordingly
          L sw = sqrtl(std::max<L>(0, 1 - c2 * c2)); L rad = 1 + 100 * (8 * tw + 1e-9L) / std::max(sw, 1e-12L);
          bool near = false; for (auto& u : all) if (fabsl((L)u.first - w.first) + fabsl((L)u.second - w.second) < rad) near = true;
          if (sw > 1e-3L) v.that(near, "All: a valid intersection inside maxdist (found from another start offset) is missing");
        }
      }
    }
    v.tag("all-checked");
  }
  // Segment: segmode per its definition
  {
    double s1 = r.getd("segx"), s2 = r.getd("segy"), la1, lo1, az1, la2, lo2, az2;
    lib_pos(g, X, s1, la1, lo1, az1); lib_pos(g, Y, s2, la2, lo2, az2);
    if (s1 > 1 && s2 > 1 && s1 < 0.4 * (double)circ && s2 < 0.4 * (double)circ && std::fabs(la1) < 89.9 && std::fabs(la2) < 89.9) {
      int segmode = 99, cc = 0; Intersect::Point sgp = in.Segment(X.lat, X.lon, la1, lo1, Y.lat, Y.lon, la2, lo2, segmode, &cc);
      double xs, ys, t1, t2; g.Inverse(X.lat, X.lon, la1, lo1, xs, t1, t2); g.Inverse(Y.lat, Y.lon, la2, lo2, ys, t1, t2);
      auto kk = [](double p, double len) { return p < 0 ? -1 : (p <= len ? 0 : 1); };
      // positions within round-off of a segment end may be classified either way
      bool edge = std::fabs(sgp.first) < 1e-6 || std::fabs(sgp.first - xs) < 1e-6 || std::fabs(sgp.second) < 1e-6 || std::fabs(sgp.second - ys) < 1e-6;
      if (!edge) v.that(segmode == 3 * kk(sgp.first, xs) + kk(sgp.second, ys), "Segment: segmode differs from 3 kx + ky of the returned point");
      v.tag("segment-checked");
    }
  }
  v.nontrivial = true;
  return v;
}

// ---------------------------------------------------------------------------------------------
// nearest neighbours
struct P2 { double x, y; };
struct DistL1 { double operator()(const P2& a, const P2& b) const { return std::fabs(a.x - b.x) + std::fabs(a.y - b.y); } };
struct DistLinf { double operator()(const P2& a, const P2& b) const { return std::max(std::fabs(a.x - b.x), std::fabs(a.y - b.y)); } };
struct DistE { double operator()(const P2& a, const P2& b) const { return std::hypot(a.x - b.x, a.y - b.y); } };

template <class D> void nn_body(Verdict& v, const std::vector<P2>& pts, const P2& q, int k, double maxdist, double mindist, double tol, int bucket) {
  D dist; typedef NearestNeighbor<double, P2, D> NN;
  NN nn(pts, dist, bucket);
  // brute force
  std::vector<double> all; for (auto& p : pts) { double d = dist(p, q); if (d > mindist && d <= maxdist) all.push_back(d); }
  std::sort(all.begin(), all.end());
  size_t want = std::min<size_t>(all.size(), (size_t)std::max(0, k));
  auto run = [&](const NN& t, const char* what) {
    std::vector<int> ind; double d0 = t.Search(pts, dist, q, ind, k, maxdist, mindist, true, 0.0);
    v.that(ind.size() == want, std::string(what) + ": number of results differs from brute force");
    if (v.failed()) return;
    v.that(want ? d0 == all[0] : d0 == -1, std::string(what) + ": returned distance is not the smallest (or -1 when empty)");
    std::set<int> seen; double prev = -1;
    for (size_t i = 0; i < ind.size(); ++i) {
      v.that(ind[i] >= 0 && ind[i] < (int)pts.size() && seen.insert(ind[i]).second, std::string(what) + ": index out of range or repeated");
      if (v.failed()) return;
      double d = dist(pts[ind[i]], q);
      v.that(d == all[i], std::string(what) + ": i-th distance differs from the i-th smallest of a brute-force scan");
      v.that(d >= prev, std::string(what) + ": results not sorted by distance"); prev = d;
    }
  };
  run(nn, "Search");
  if (v.failed()) return;
  // exhaustive = false: valid points in the window, count = min(k, available)
  {
    std::vector<int> ind; nn.Search(pts, dist, q, ind, k, maxdist, mindist, false, 0.0);
    v.that(ind.size() == want, "exhaustive=false: wrong number of results");
    for (int i : ind) { double d = dist(pts[i], q); v.that(d > mindist && d <= maxdist, "exhaustive=false: result outside (mindist, maxdist]"); }
  }
  // tol > 0: results with distance <= dk - tol are correct
  if (tol > 0) {
    std::vector<int> ind; nn.Search(pts, dist, q, ind, k, maxdist, mindist, true, tol);
    v.that(ind.size() == want, "tol>0: wrong number of results");
    if (!v.failed() && want) {
      double dk = dist(pts[ind.back()], q);
      // every true neighbour with distance < dk - tol must be present (as a distance)
      std::vector<double> got; for (int i : ind) got.push_back(dist(pts[i], q)); std::sort(got.begin(), got.end());
      for (size_t i = 0; i < want; ++i) if (all[i] < dk - tol) v.that(std::binary_search(got.begin(), got.end(), all[i]), "tol>0: a neighbour closer than dk - tol is missing");
      for (double d : got) v.that(d > mindist && d <= maxdist, "tol>0: result outside the window");
    }
  }
  // Save / Load round trip, text and binary
  for (int bin = 0; bin < 2; ++bin) {
    std::ostringstream os(bin ? std::ios::binary : std::ios::out); nn.Save(os, bin != 0);
    std::istringstream is(os.str(), bin ? std::ios::binary : std::ios::in); NN t2; t2.Load(is, bin != 0);
    v.that(t2.NumPoints() == (int)pts.size(), "Load: number of points differs");
    run(t2, bin ? "Search after binary Save/Load" : "Search after text Save/Load");
    if (v.failed()) return;
  }
}

Verdict check_nn(const J& r) {
  Verdict v; int metric = (int)r.geti("metric"), k = (int)r.geti("k"), bucket = (int)r.geti("bucket");
  double maxdist = r.getd("maxdist"), mindist = r.getd("mindist"), tol = r.getd("tol");
  std::vector<P2> pts; for (auto& o : r.at("pts").a) { double x = o.getd("x"), y = o.getd("y"); if (!std::isfinite(x) || !std::isfinite(y) || std::fabs(x) > 1e9 || std::fabs(y) > 1e9) { v.skip("non-finite point"); return v; } pts.push_back({x, y}); }
  P2 q{r.getd("qx"), r.getd("qy")};
  if (!std::isfinite(q.x) || !std::isfinite(q.y) || std::fabs(q.x) > 1e9 || std::fabs(q.y) > 1e9 || bucket < 0 || bucket > 10 || k < 0 || k > 1000 || !(tol >= 0) || std::isnan(maxdist) || std::isnan(mindist) || pts.size() > 2000) { v.skip("outside documented domain"); return v; }
  if (metric == 0) { for (auto& p : pts) p.y = 0; q.y = 0; nn_body<DistL1>(v, pts, q, k, maxdist, mindist, tol, bucket); v.tag("abs-1d"); }
  else if (metric == 1) { nn_body<DistL1>(v, pts, q, k, maxdist, mindist, tol, bucket); v.tag("L1"); }
  else if (metric == 2) { nn_body<DistLinf>(v, pts, q, k, maxdist, mindist, tol, bucket); v.tag("Linf"); }
  else { nn_body<DistE>(v, pts, q, k, maxdist, mindist, tol, bucket); v.tag("euclid"); }
  v.nontrivial = pts.size() >= 2 && k >= 1;
  if (pts.empty()) v.tag("empty-set"); if (tol > 0) v.tag("tol>0"); if (mindist >= 0) v.tag("mindist>=0");
  return v;
}

J gen_nn() {
  using namespace vf; J r = J::obj();
  int metric = (int)g::irange(0, 3); r["metric"] = J::integer(metric);
  int n = (int)g::sized(0, 400); bool grid = metric != 3 || g::coin(1, 4);
  double span = grid ? (double)g::oneof<int>({3, 10, 50}) : 1000.0;
  J pts = J::arr();
  for (int i = 0; i < n; ++i) { J p = J::obj();
    if (grid) { p["x"] = J::num((double)g::irange(0, (long long)span)); p["y"] = J::num((double)g::irange(0, (long long)span)); }
    else { p["x"] = J::num(g::uni(0, span)); p["y"] = J::num(g::uni(0, span)); }
    if (i && g::coin(1, 8)) p = pts.a[(size_t)g::irange(0, i - 1)];   // duplicates
    pts.push(p); }
  r["pts"] = pts;
  bool inset = n > 0 && g::coin(1, 3);
  if (inset) { const J& p = pts.a[(size_t)g::irange(0, n - 1)]; r["qx"] = p.at("x"); r["qy"] = p.at("y"); }
  else { r["qx"] = J::num(grid ? (double)g::irange(-2, (long long)span + 2) : g::uni(-100, span + 100)); r["qy"] = J::num(grid ? (double)g::irange(-2, (long long)span + 2) : g::uni(-100, span + 100)); }
  r["k"] = J::integer(g::wpick({3, 3, 1}) == 0 ? 1 : g::coin() ? g::irange(0, 10) : g::irange(0, 450));
  r["maxdist"] = J::num(g::coin() ? 1.7976931348623157e308 : (grid ? (double)g::irange(0, (long long)(2 * span)) : g::uni(0, 2 * span)));
  r["mindist"] = J::num(g::coin() ? -1.0 : (grid ? (double)g::irange(0, (long long)span) : g::uni(0, span)));
  r["tol"] = J::num(g::coin(2, 3) ? 0.0 : (grid ? (double)g::irange(1, 5) : g::uni(0, span / 5)));
  r["bucket"] = J::integer(g::irange(0, 10));
  return r;
}

J gen_int() {
  using namespace vf; J r = J::obj();
  gg::Ell e = gg::ellipsoid(g::coin(1, 3) ? gg::SERIES_WIDE : gg::SERIES_FULL); if (std::fabs(e.f) > 0.1) e.f *= 0.5; if (g::coin(3, 4)) e.a = gg::A_WGS84;
  r["a"] = J::num(e.a); r["f"] = J::num(e.f); r["wgrid"] = J::integer(g::wpick({2, 1, 1}) == 0 ? 0 : g::irange(1, 3));
  double latX = g::uni(-85, 85), lonX = gg::angle180(), aziX = gg::angle180();
  r["latX"] = J::num(latX); r["lonX"] = J::num(lonX); r["aziX"] = J::num(aziX);
  switch (g::wpick({50, 20, 15, 15})) {
    case 0: r["latY"] = J::num(g::uni(-85, 85)); r["lonY"] = J::num(gg::angle180()); r["aziY"] = J::num(gg::angle180()); break;
    case 1: { Geodesic gd(e.a, e.f); double la, lo, az; gd.Direct(latX, lonX, aziX, g::uni(-2e7, 2e7) * e.a / 6378137.0, la, lo, az);   // Y starts on X
      if (std::fabs(la) > 89) la = 0; r["latY"] = J::num(la); r["lonY"] = J::num(lo); r["aziY"] = J::num(az + (g::coin() ? g::sgn() * g::loguni(1e-9, 90) : 180 + g::sgn() * g::loguni(1e-9, 1))); break; }
    case 2: r["latY"] = J::num(latX + g::sgn() * g::loguni(1e-6, 1)); r["lonY"] = J::num(lonX + g::sgn() * g::loguni(1e-6, 1)); r["aziY"] = J::num(aziX + g::sgn() * g::loguni(1e-9, 1e-3)); break;   // nearly parallel
    default: r["latY"] = J::num(latX); r["lonY"] = J::num(lonX); r["aziY"] = J::num(g::coin() ? aziX : aziX + 180); break;   // coincident
  }
  double circ = 2 * M_PI * e.a;
  r["p0x"] = J::num(g::coin() ? 0.0 : g::uni(-1.5, 1.5) * circ); r["p0y"] = J::num(g::coin() ? 0.0 : g::uni(-1.5, 1.5) * circ);
  r["maxdist"] = J::num(g::uni(0, 1.6) * circ); r["doall"] = J::integer(g::coin(1, 3));
  r["s0"] = J::num(g::uni(-1e7, 1e7) * e.a / 6378137.0); r["dazi"] = J::num(g::sgn() * (g::coin() ? g::uni(1, 179) : g::loguni(1e-6, 1)));
  r["segx"] = J::num(g::loguni(1e3, 1.5e7) * e.a / 6378137.0); r["segy"] = J::num(g::loguni(1e3, 1.5e7) * e.a / 6378137.0);
  return r;
}

vf::Reg r1({"C17.azeq", "generated centres and points (by azimuth and arc 0..179.9 deg from the centre; near-centre and near-90deg classes), series and exact=true back ends; non-trivial: point != centre", 0.2,
            [] { return rc::gen::exec([] { return gen_proj(); }); }, check_azeq, nullptr});
vf::Reg r2({"C17.gnom", "same generator (points inside, at and beyond the horizon); non-trivial: point != centre", 0.2,
            [] { return rc::gen::exec([] { return gen_proj(); }); }, check_gnom, nullptr});
vf::Reg r3({"C17.cass", "generated origins and (x,y) with |x| < 0.98 quarter circumference, |y| up to 3.9 quarter meridians (over the poles); non-trivial: x != 0", 0.2,
            [] { return rc::gen::exec([] { J r = gen_proj(); L q = tol::quarter_meridian(r.getd("a"), r.getd("f"));
                                           r["x"] = J::num(vf::g::coin(1, 4) ? vf::g::sgn() * vf::g::loguni(1e-6, 1e3) : vf::g::uni(-0.97, 0.97) * (double)q);
                                           r["y"] = J::num(vf::g::coin(1, 4) ? vf::g::uni(-3.8, 3.8) * (double)q : vf::g::uni(-1, 1) * (double)q); return r; }); }, check_cass, nullptr});
vf::Reg r4({"C17.int", "generated pairs of geodesics (generic, Y starting on X, nearly parallel, coincident / anti-coincident), offsets p0, radii up to 1.6 circumferences; Closest/Next/Segment/All; every case non-trivial", 0.2,
            [] { return rc::gen::exec([] { return gen_int(); }); }, check_int, nullptr});
vf::Reg r5({"C17.nn", "generated point sets (0..400 points, duplicates, small integer grids with many ties, doubles), metrics |.|, L1, Linf, Euclid, all bucket sizes, k, maxdist, mindist, tol, exhaustive, Save/Load; non-trivial: >= 2 points and k >= 1", 0.2,
            [] { return rc::gen::exec([] { return gen_nn(); }); }, check_nn, nullptr});

}  // namespace

VF_MAIN
