// C03 — reduced length, geodesic scales, area under a geodesic (DESIGN 3/C03)
//   C03.ode   m12, M12, M21, S12 from Direct / ArcDirect / Inverse / Line::Position of both solvers vs the
//             Jacobi-equation solutions and the area integral of the ODE reference
//   C03.rev   reversal of a segment: m12 same, M12 <-> M21, S12 negated (direct interface)
//   C03.add   published addition rules when a segment is split at an intermediate point
//   C03.cfg   series vs exact (direct interface)
//   C03.area  EllipsoidArea = 4 pi c^2 (closed form); sphere: sum of S12 over a closed polygon = Girard area
#include "props/geod_common.hpp"

using namespace gc;

// truncation of the 6th-order area series: measured max over seeds of (series S12 error)/(a^2 |f|^7) is 3e-3
// (|f| = 0.03 ... 0.2); the term used is 2 * C7 * a^2 |f|^7 with C7 = 0.006 (4x the maximum); it is 0.6 m^2 at
// |f| = 0.02 and negligible for terrestrial flattenings
#ifndef C7
#define C7 0.006L
#endif

namespace {

// S12 tolerance (DESIGN section 2): 0.1 m^2 for WGS84-size well-conditioned segments (geodtest, PolygonArea.hpp)
// scaled by area, a truncation law for the 6th-order C4 series, and the end-point conditioning term
// c2 * |dalpha/ds| * (position tolerance): S12 inherits the along-track position uncertainty through the
// rate at which the azimuth turns (dalpha/ds = sin(alpha) tan(phi) / nu), which is large near the poles.
L dalpha_ds(const ref::Ellipsoid& E, L lat, L azi) {
  // a displacement d of the point changes the azimuth of a fixed 3-D direction by up to d tan(phi)/nu
  // (along-track: sin(alpha) tan(phi)/nu, the rate at which the azimuth turns; across-track: the meridian
  // direction turns by d sin(phi)/rho); the position error may point anywhere, so take the isotropic bound
  (void)azi;
  L sphi, cphi; ref::Ode::sincosd(lat, sphi, cphi);
  L nu = E.a / sqrtl(1 - E.e2 * sphi * sphi);
  return fabsl(sphi) / (nu * std::max(cphi, 1e-300L));
}
L tolS(int solver, const ref::Ellipsoid& E, L tolp, L lat1, L azi1, L lat2, L azi2, bool both_ends, L circ) {
  // 0.1 m^2 is documented for WGS84; area errors scale with the area scale c2 of the ellipsoid
  // beyond |f| = 0.5 only the order of magnitude is documented: K = 10; for the exact solver the relative accuracy of
  // every output degrades with the eccentricity as tabulated for positions in GeodesicExact.hpp (b/a = 79: 195 x the
  // WGS84 figure), so the area figure is scaled by the same ratio (thorough-tier case: a = 1, f = -77.96, equatorial
  // arc of 27 deg, |S12 error| = 1e-13 c2)
  L degr = solver_exact(solver) ? tol::geod_exact_degr(E.f) : 1;
  L base = std::max<L>(fabsl(E.f) > 0.5L ? 10 : 2, 2 * degr) * 0.1L * (E.c2 / 4.0589e13L) * (1 + circ);
  if (!solver_exact(solver)) base += 2 * E.a * E.a * C7 * powl(fabsl(E.f), 7);
  L cond = E.c2 * (dalpha_ds(E, lat2, azi2) + (both_ends ? dalpha_ds(E, lat1, azi1) : 0)) * tolp;
  return base + 2 * cond;
}
L tolM(const ref::Ellipsoid& E, L tolp, L circ) { return (fabsl(E.f) > 0.5L ? 20 : 4) * (1e-15L * (1 + circ) + tolp / std::min(E.a, E.b)); }

J gen_direct(bool extreme) {
  int solver = (int)vf::g::irange(0, 2);
  gg::Ell e = gg::ellipsoid(solver_exact(solver) ? (extreme && vf::g::coin(1, 5) ? gg::EXACT_RANGE : gg::SERIES_WIDE)
                                                 : (vf::g::coin(3, 4) ? gg::SERIES_FULL : gg::SERIES_WIDE));
  J r = J::obj();
  r["iface"] = J::integer(vf::g::irange(0, 2));   // 0 Direct/ArcDirect, 1 Line::Position, 2 Inverse of the end points
  r["solver"] = J::integer(solver); r["a"] = J::num(e.a); r["f"] = J::num(e.f);
  r["lat1"] = J::num(gg::latitude()); r["lon1"] = J::num(gg::angle()); r["azi1"] = J::num(gg::angle());
  bool arc = vf::g::coin(1, 3); r["arcmode"] = J::integer(arc);
  double ba = 1 - e.f; bool ecc = std::min(ba * ba, 1 / ba) < 0.05;
  double len = arc ? (vf::g::coin(3, 4) ? vf::g::uni(-180, 180) : (ecc ? vf::g::uni(-90, 90) : vf::g::uni(-1500, 1500)))
                   : gg::distance(e.a, ecc ? 0.5 : 4);
  r["len"] = J::num(len);
  r["t"] = J::num(vf::g::coin(1, 5) ? (vf::g::coin() ? vf::g::loguni(1e-12, 1e-2) : 1 - vf::g::loguni(1e-12, 1e-2)) : vf::g::u01());
  return r;
}

bool get_direct(const J& r, int& solver, double& a, double& f, double& lat1, double& lon1, double& azi1, bool& arc, double& len) {
  solver = (int)r.geti("solver"); a = r.getd("a"); f = r.getd("f"); lat1 = r.getd("lat1"); lon1 = r.getd("lon1");
  azi1 = r.getd("azi1"); arc = r.geti("arcmode"); len = r.getd("len");
  if (solver < 0 || solver > 2 || !in_domain(solver, a, f) || !(std::fabs(lat1) <= 90) || !std::isfinite(lon1) || !std::isfinite(azi1) || !std::isfinite(len)) return false;
  if (std::fabs(lon1) > 1e6 || std::fabs(azi1) > 1e6 || (arc ? std::fabs(len) > 1e4 : std::fabs(len) > 25 * 2 * M_PI * a)) return false;
  return true;
}

// ---------------------------------------------------------------------------------------------
Verdict check_ode(const J& r) {
  Verdict v; int solver; double a, f, lat1, lon1, azi1, len; bool arc;
  if (!get_direct(r, solver, a, f, lat1, lon1, azi1, arc, len)) { v.skip("outside documented domain"); return v; }
  int iface = (int)r.geti("iface");
  ref::Ellipsoid E(a, f); ref::Ode ode(E);
  Dir o = lib_direct(solver, a, f, lat1, lon1, azi1, arc, len);
  double m12 = o.m12, M12 = o.M12, M21 = o.M21, S12 = o.S12, s12 = o.s12, a12 = o.a12, azi2 = o.azi2, useazi1 = azi1;
  bool both_ends = false;
  if (iface == 1) {
    if (solver == 1) { GeodesicExact g(a, f); GeodesicLineExact l = g.Line(lat1, lon1, azi1, GeodesicExact::ALL);
      double la, lo; a12 = l.GenPosition(arc, len, GeodesicExact::ALL, la, lo, azi2, s12, m12, M12, M21, S12); }
    else { Geodesic g(a, f, solver == 2); GeodesicLine l = g.Line(lat1, lon1, azi1, Geodesic::ALL);
      double la, lo; a12 = l.GenPosition(arc, len, Geodesic::ALL, la, lo, azi2, s12, m12, M12, M21, S12); }
  } else if (iface == 2) {
    // inverse between the end points of a segment shorter than half a circuit (so that it is the shortest path)
    if (!(std::fabs(o.a12) < 175)) { v.skip("inverse interface only for segments that are clearly shortest"); return v; }
    Inv q = lib_inverse(solver, a, f, lat1, lon1, o.lat2, o.lon2);
    m12 = q.m12; M12 = q.M12; M21 = q.M21; S12 = q.S12; s12 = q.s12; a12 = q.a12; azi2 = q.azi2; useazi1 = q.azi1; both_ends = true;
    if (std::fabs(lat1) == 90 || std::fabs(o.lat2) == 90) { v.skip("pole end point: azimuth tied to longitude convention"); return v; }
  }
  L Rmin = std::min(E.b * E.b / E.a, E.a * E.a / E.b);
  if (fabsl((L)s12) / (0.5L * Rmin) > 6000) { v.skip("reference too expensive for this eccentricity/length"); return v; }
  L circ = fabsl((L)a12) / 90;
  L tolp = kdoc(solver, a, f) * (1 + circ);   // K = 4 beyond |f| = 0.5, see C02
  // inverse: the reference follows the inverse solution's own azimuth and length from point 1
  ref::OdeResult R = ode.direct(lat1, lon1, useazi1, s12, 0, 0.01L * tolp);
  if (!(R.err <= 0.02L * tolp)) { v.skip("reference not converged"); return v; }
  v.tag(solver_exact(solver) ? "exact" : "series"); v.tag(fclass(f)); v.tag(iface == 0 ? "direct" : iface == 1 ? "line" : "inverse");
  v.tag(arc ? "arcmode" : "distmode");
  v.nontrivial = s12 != 0;
  v.le(fabsl((L)m12 - R.m12), 2 * tolp + R.errm, "m12 vs Jacobi equation [m]");
  L tM = tolM(E, tolp, circ);
  v.le(fabsl((L)M12 - R.M12), tM, "M12 vs Jacobi equation");
  v.le(fabsl((L)M21 - R.M21), tM, "M21 vs Jacobi equation");
  if (iface == 2) {
    // the overloads that return the geodesic scales (or the reduced length) *without* the other: the library computes
    // them on a different path (S-C03-m6 skipped the J12 integral unless m12 was requested as well)
    double s_, z1, z2, M12o = 0, M21o = 0, m12o = 0;
    if (solver == 1) { GeodesicExact g(a, f); g.Inverse(lat1, lon1, o.lat2, o.lon2, s_, z1, z2, M12o, M21o); g.Inverse(lat1, lon1, o.lat2, o.lon2, s_, z1, z2, m12o); }
    else { Geodesic g(a, f, solver == 2); g.Inverse(lat1, lon1, o.lat2, o.lon2, s_, z1, z2, M12o, M21o); g.Inverse(lat1, lon1, o.lat2, o.lon2, s_, z1, z2, m12o); }
    v.le(fabsl((L)M12o - R.M12), tM, "M12 from Inverse(..., M12, M21) vs Jacobi equation");
    v.le(fabsl((L)M21o - R.M21), tM, "M21 from Inverse(..., M12, M21) vs Jacobi equation");
    v.le(fabsl((L)m12o - R.m12), 2 * tolp + R.errm, "m12 from Inverse(..., m12) vs Jacobi equation [m]");
  }
  // S12: the library reduces alpha2 - alpha1 to (-180,180], so for long segments S12 is defined modulo 2 pi c2
  L dS = (L)S12 - R.S12;
  bool shortseg = fabsl((L)a12) <= 180;
  if (!shortseg) { dS = remainderl(dS, 2 * ref::PI_L * E.c2); v.tag("S12-mod-halfarea"); }
  L tS = tolS(solver, E, tolp, lat1, useazi1, R.lat2, R.azi2, both_ends, circ) + 2 * R.errS;
  if (R.meridional || fabsl(R.Lz) < 1) {
    // (nearly) meridional, passing the axis within 1 m: the side on which the pole is passed, hence the sense of
    // the 180 deg azimuth jump, is below the position accuracy (and a documented choice for exactly meridional
    // lines; the library also rounds azimuths below 2^-57 deg to 0): compare S12 modulo pi c2
    dS = remainderl(dS, ref::PI_L * E.c2); v.tag("S12-meridional");
  }
  v.le(fabsl(dS), tS, "S12 vs area integral along the ODE track [m^2]");
  if (fabsl((L)S12) > 1) v.tag("S12>1m2");
  return v;
}

// ---------------------------------------------------------------------------------------------
Verdict check_rev(const J& r) {
  Verdict v; int solver; double a, f, lat1, lon1, azi1, len; bool arc;
  if (!get_direct(r, solver, a, f, lat1, lon1, azi1, arc, len)) { v.skip("outside documented domain"); return v; }
  ref::Ellipsoid E(a, f);
  Dir o = lib_direct(solver, a, f, lat1, lon1, azi1, arc, len);
  if (std::fabs(o.lat2) == 90 || std::fabs(lat1) == 90) { v.skip("pole end point"); return v; }
  // travel back from point 2: reversed azimuth (azi2 + 180 is rounded; its effect is m12 * ulp)
  Dir b = lib_direct(solver, a, f, o.lat2, o.lon2, o.azi2 + 180, false, o.s12);
  L circ = fabsl((L)o.a12) / 90;
  L tolp = kdoc(solver, a, f) * (1 + circ);   // K = 4 beyond |f| = 0.5, see C02
  v.nontrivial = o.s12 != 0; v.tag(solver_exact(solver) ? "exact" : "series");
  L p1[3], pb[3]; ref::to_cart(E, lat1, lon1, p1); ref::to_cart(E, b.lat2, b.lon2, pb);
  L repr = 2.3e-16L * 360 * ref::DEG_L * (fabsl((L)o.m12) + E.a);
  v.le(ref::dist3(p1, pb), 2 * tolp + repr, "there-and-back end point [m]");
  v.le(fabsl((L)b.m12 - (L)o.m12), 4 * tolp + repr, "m21 = m12 under reversal [m]");
  L tM = 2 * tolM(E, tolp, circ);
  v.le(fabsl((L)b.M12 - (L)o.M21), tM, "M12 of the reversed segment = M21");
  v.le(fabsl((L)b.M21 - (L)o.M12), tM, "M21 of the reversed segment = M12");
  if (fabsl((L)o.a12) <= 180 && !(fabsl((L)E.f) > 0.02L && !solver_exact(solver))) {
    L tS = 2 * tolS(solver, E, tolp, lat1, azi1, o.lat2, o.azi2, true, circ) + E.c2 * 2.3e-16L * 720 * ref::DEG_L;
    // near a pole-grazing track the azimuth difference may be reduced to the other branch: compare mod 2 pi c2
    L dS = remainderl((L)b.S12 + (L)o.S12, 2 * ref::PI_L * E.c2);
    v.le(fabsl(dS), tS, "S12 of the reversed segment = -S12 [m^2]");
  }
  return v;
}

// ---------------------------------------------------------------------------------------------
Verdict check_add(const J& r) {
  Verdict v; int solver; double a, f, lat1, lon1, azi1, len; bool arc;
  if (!get_direct(r, solver, a, f, lat1, lon1, azi1, arc, len)) { v.skip("outside documented domain"); return v; }
  double t = r.getd("t"); if (!(t > 0 && t < 1)) { v.skip("split fraction outside (0,1)"); return v; }
  ref::Ellipsoid E(a, f);
  // points 1, 2 (split), 3 on one line; second leg from point 2 along azi2
  Dir o13 = lib_direct(solver, a, f, lat1, lon1, azi1, arc, len);
  Dir o12 = lib_direct(solver, a, f, lat1, lon1, azi1, arc, len * t);
  if (std::fabs(o12.lat2) == 90) { v.skip("split point at a pole"); return v; }
  Dir o23 = lib_direct(solver, a, f, o12.lat2, o12.lon2, o12.azi2, false, o13.s12 - o12.s12);
  L circ = fabsl((L)o13.a12) / 90;
  L tolp = kdoc(solver, a, f) * (1 + circ);   // K = 4 beyond |f| = 0.5, see C02
  v.nontrivial = len != 0; v.tag(solver_exact(solver) ? "exact" : "series"); v.tag(t < 1e-2 || t > 1 - 1e-2 ? "split-near-end" : "split-interior");
  L m12 = o12.m12, m23 = o23.m12, M12 = o12.M12, M21 = o12.M21, M23 = o23.M12, M32 = o23.M21;
  v.le(fabsl((L)o13.a12 - ((L)o12.a12 + (L)o23.a12)), 4 * tolp / std::min(E.a, E.b) / ref::DEG_L + 1e-13L * (1 + fabsl((L)o13.a12)), "a13 = a12 + a23 [deg]");
  // m13 = m12 M23 + m23 M21
  L tm = 6 * tolp * (1 + fabsl(M23) + fabsl(M21)) + 4 * tolM(E, tolp, circ) * (fabsl(m12) + fabsl(m23));
  v.le(fabsl((L)o13.m12 - (m12 * M23 + m23 * M21)), tm, "m13 = m12 M23 + m23 M21 [m]");
  // M13 = M12 M23 - (1 - M12 M21) m23/m12,  M31 = M32 M21 - (1 - M23 M32) m12/m23  (Wronskian form; conditioned by 1/m)
  L tM = tolM(E, tolp, circ);
  if (fabsl(m12) > 1e-3L * E.a) {
    L tt = 4 * tM * (1 + fabsl(M23) + fabsl(M12) + fabsl(m23 / m12) * (1 + fabsl(M12) + fabsl(M21))) + 4 * tolp * fabsl((1 - M12 * M21) / m12) * (1 + fabsl(m23 / m12));
    v.le(fabsl((L)o13.M12 - (M12 * M23 - (1 - M12 * M21) * m23 / m12)), tt, "M13 addition rule");
  }
  if (fabsl(m23) > 1e-3L * E.a) {
    L tt = 4 * tM * (1 + fabsl(M32) + fabsl(M21) + fabsl(m12 / m23) * (1 + fabsl(M23) + fabsl(M32))) + 4 * tolp * fabsl((1 - M23 * M32) / m23) * (1 + fabsl(m12 / m23));
    v.le(fabsl((L)o13.M21 - (M32 * M21 - (1 - M23 * M32) * m12 / m23)), tt, "M31 addition rule");
  }
  // S13 = S12 + S23 (mod 2 pi c2 because each term reduces its azimuth difference separately)
  if (!(fabsl((L)E.f) > 0.02L && !solver_exact(solver)) && std::fabs(lat1) != 90 && std::fabs(o13.lat2) != 90) {
    L tS = tolS(solver, E, tolp, lat1, azi1, o13.lat2, o13.azi2, false, circ) + tolS(solver, E, tolp, lat1, azi1, o12.lat2, o12.azi2, false, circ) * 2;
    L dS = remainderl((L)o13.S12 - ((L)o12.S12 + (L)o23.S12), 2 * ref::PI_L * E.c2);
    ref::Ode ode(E);
    // pole-grazing lines: excluded as in C03.ode
    L y[ref::Ode::NV]; ode.start(lat1, lon1, azi1, y); L Lz = y[0] * y[4] - y[1] * y[3];
    if (fabsl(Lz) >= 1) v.le(fabsl(dS), tS, "S13 = S12 + S23 [m^2]"); else v.tag("S13-axis-excluded");
  }
  return v;
}

// ---------------------------------------------------------------------------------------------
Verdict check_cfg(const J& r) {
  Verdict v; int solver; double a, f, lat1, lon1, azi1, len; bool arc;
  if (!get_direct(r, solver, a, f, lat1, lon1, azi1, arc, len) || !in_domain(0, a, f) || !in_domain(1, a, f)) { v.skip("outside documented domain"); return v; }
  ref::Ellipsoid E(a, f);
  Dir o[3]; for (int s = 0; s < 3; ++s) o[s] = lib_direct(s, a, f, lat1, lon1, azi1, arc, len);
  L circ = fabsl((L)o[0].a12) / 90;
  v.nontrivial = len != 0; v.tag(fclass(f));
  for (int i = 0; i < 3; ++i) for (int j = i + 1; j < 3; ++j) {
    L tolp = (kdoc(i, a, f) + kdoc(j, a, f)) * (1 + circ);
    if (i == 1 && j == 2) tolp = std::min<L>(tolp, 64 * 2.3e-16L * E.a * (1 + circ));
    char nm[64];
    std::snprintf(nm, sizeof nm, "solver%d vs solver%d m12 [m]", i, j); v.le(fabsl((L)o[i].m12 - (L)o[j].m12), 2 * tolp, nm);
    L tM = tolM(E, tolp, circ);
    std::snprintf(nm, sizeof nm, "solver%d vs solver%d M12", i, j); v.le(fabsl((L)o[i].M12 - (L)o[j].M12), tM, nm);
    std::snprintf(nm, sizeof nm, "solver%d vs solver%d M21", i, j); v.le(fabsl((L)o[i].M21 - (L)o[j].M21), tM, nm);
    if (std::fabs(o[0].lat2) != 90 && std::fabs(lat1) != 90) {
      L y[ref::Ode::NV]; ref::Ode(E).start(lat1, lon1, azi1, y); L Lz = y[0] * y[4] - y[1] * y[3];
      if (fabsl(Lz) >= 1) {
        L tS = tolS(i, E, tolp, lat1, azi1, o[0].lat2, o[0].azi2, false, circ) + tolS(j, E, tolp, lat1, azi1, o[0].lat2, o[0].azi2, false, circ);
        std::snprintf(nm, sizeof nm, "solver%d vs solver%d S12 [m^2]", i, j);
        v.le(fabsl(remainderl((L)o[i].S12 - (L)o[j].S12, 2 * ref::PI_L * E.c2)), tS, nm);
      }
    }
  }
  return v;
}

// ---------------------------------------------------------------------------------------------
Verdict check_area(const J& r) {
  Verdict v; double a = r.getd("a"), f = r.getd("f");
  if (!in_domain(1, a, f)) { v.skip("outside documented domain"); return v; }
  ref::Ellipsoid E(a, f);
  L A = E.area();
  v.tag(fclass(f));
  { GeodesicExact g(a, f); v.le(fabsl((L)g.EllipsoidArea() - A), 8e-16L * A, "GeodesicExact::EllipsoidArea vs 4 pi c^2"); }
  { Geodesic g(a, f, true); v.le(fabsl((L)g.EllipsoidArea() - A), 8e-16L * A, "Geodesic(exact)::EllipsoidArea vs 4 pi c^2"); }
  if (in_domain(0, a, f)) { Geodesic g(a, f); v.le(fabsl((L)g.EllipsoidArea() - A), 8e-16L * A, "Geodesic::EllipsoidArea vs 4 pi c^2"); }
  // sphere: sum of S12 over a closed geodesic polygon = Girard's spherical excess (no S12 in the reference)
  const J& P = r.at("poly");
  int n = (int)P.a.size();
  if (n >= 3) {
    std::vector<double> la(n), lo(n);
    for (int i = 0; i < n; ++i) { la[i] = P.a[i].getd("lat"); lo[i] = P.a[i].getd("lon"); if (!(std::fabs(la[i]) < 89.9) || !(std::fabs(lo[i]) <= 720)) { v.skip("polygon vertex outside generated range"); return v; } }
    for (int solver = 0; solver < 2; ++solver) {
      L sum = 0, excess = 0; bool ok = true;
      std::vector<double> az_out(n), az_in(n);
      for (int i = 0; i < n; ++i) {
        int j = (i + 1) % n;
        Inv q = lib_inverse(solver, a, 0.0, la[i], lo[i], la[j], lo[j]);
        if (!(q.a12 > 1e-6 && q.a12 < 179)) ok = false;      // unique shortest edges only
        sum += q.S12; az_out[i] = q.azi1; az_in[j] = q.azi2;
      }
      if (!ok) { v.tag("polygon-degenerate-edge"); continue; }
      // interior angle at vertex j between incoming direction az_in[j] and outgoing az_out[j]: turning angle
      L turn = 0;
      for (int j = 0; j < n; ++j) turn += remainderl((L)az_out[j] - (L)az_in[j], 360.0L);
      // Gauss-Bonnet on the sphere: area enclosed on the left = 2 pi - sum of left turns... signed by orientation
      // total turning tau (clockwise-positive azimuth convention): enclosed area (clockwise traversal) = R^2 (2 pi - tau)
      L R2 = (L)a * a;
      L area_cw = R2 * (2 * ref::PI_L - turn * ref::DEG_L);
      // sum of S12 for a clockwise (eastward-on-top) traversal is +area; compare modulo half the sphere area
      L d = remainderl(sum - area_cw, 2 * ref::PI_L * R2);
      (void)excess;
      v.le(fabsl(d), 2 * 0.1L * (a / 6378137.0) * (a / 6378137.0) * n + R2 * 1e-13L * n, solver ? "sphere: sum S12 (exact) vs Gauss-Bonnet area [m^2]" : "sphere: sum S12 (series) vs Gauss-Bonnet area [m^2]");
      v.tag("sphere-polygon");
    }
  }
  return v;
}

// ---------------------------------------------------------------------------------------------
// C03.pole: end points on exactly opposite meridians whose shortest geodesic is the meridian over a pole.  The region
// between that path and the equator is half of the hemisphere of the pole crossed, so S12 = +-pi c2 *exactly* (the A4
// term vanishes for alp0 = 0), with the sign of the sense in which the longitude difference is taken (AngDiff gives
// +180 for lon2 = lon1 + 180 and -180 for lon2 = lon1 - 180): S12 = sign(lon12) sign(pole) pi c2.  Direct from point 1
// with the returned azimuth (+-0 or +-180) must reproduce it, and it is the limit of the neighbouring non-degenerate
// problems lon12 = +-(180 - delta).  (Seeded change S-C03-m3 flips this sign for the exact solver only.)
J gen_pole() {
  J r = J::obj();
  int solver = (int)vf::g::irange(0, 2);
  gg::Ell e = gg::ellipsoid(solver_exact(solver) && vf::g::coin(1, 4) ? gg::EXACT_RANGE : gg::SERIES_WIDE);
  r["solver"] = J::integer(solver); r["a"] = J::num(e.a); r["f"] = J::num(e.f);
  r["lat1"] = J::num(gg::latitude()); r["lat2"] = J::num(gg::latitude());
  // lon1 a multiple of 1/8 degree so that lon1 +- 180 is exact
  r["lon1"] = J::num((double)vf::g::irange(-1440, 1440) / 8); r["east"] = J::integer(vf::g::coin());
  return r;
}
Verdict check_pole(const J& r) {
  Verdict v; int solver = (int)r.geti("solver"); double a = r.getd("a"), f = r.getd("f"), lat1 = r.getd("lat1"), lat2 = r.getd("lat2"), lon1 = r.getd("lon1");
  bool east = r.geti("east");
  if (solver < 0 || solver > 2 || !in_domain(solver, a, f) || !(std::fabs(lat1) < 90) || !(std::fabs(lat2) < 90) || !(std::fabs(lon1) <= 180) || lon1 * 8 != std::floor(lon1 * 8))
    { v.skip("outside the generated domain"); return v; }
  double lon2 = east ? lon1 + 180 : lon1 - 180;
  Inv q = lib_inverse(solver, a, f, lat1, lon1, lat2, lon2);
  v.tag(solver_exact(solver) ? "exact" : "series"); v.tag(fclass(f)); v.tag(east ? "lon12=+180" : "lon12=-180");
  bool merid = (q.azi1 == 0 || std::fabs(q.azi1) == 180) && (q.azi2 == 0 || std::fabs(q.azi2) == 180);
  if (!merid) { v.skip("shortest geodesic is not the meridian over a pole (antipodal region or prolate ellipsoid)"); return v; }
  bool north = q.azi1 == 0;      // heads north from point 1: passes the north pole
  v.tag(north ? "north-pole" : "south-pole");
  // the meridian over the pole must really be the path: a12 = 180 - |beta1 + beta2| ... only the sign rule and the
  // value of S12 are asserted here (the path itself is C02's business)
  ref::Ellipsoid E(a, f);
  L want = (east ? 1 : -1) * (north ? 1 : -1) * ref::PI_L * E.c2;
  L circ = fabsl((L)q.a12) / 90;
  L tolp = kdoc(solver, a, f) * (1 + circ);
  L tS = tolS(solver, E, tolp, lat1, q.azi1, lat2, q.azi2, true, circ);
  v.nontrivial = true;
  v.le(fabsl((L)q.S12 - want), tS, "Inverse S12 of a meridional geodesic over a pole vs sign(lon12) sign(pole) pi c2 [m^2]");
  // Direct with the returned azimuth (signed zero / +-180 carries the side) reproduces S12
  Dir o = lib_direct(solver, a, f, lat1, lon1, q.azi1, false, q.s12, false);
  v.le(fabsl((L)o.S12 - (L)q.S12), 2 * tS, "Direct(azi1, s12) S12 vs Inverse S12 over a pole [m^2]");
  return v;
}

vf::Reg r1({"C03.ode", "generated segments (direct / arc direct / line position / inverse of the end points) x solver x ellipsoid vs Jacobi fields and area integral of the ODE reference; non-trivial: s12 != 0 and reference converged", 0.3,
            [] { return rc::gen::exec([] { return gen_direct(true); }); }, check_ode, nullptr});
vf::Reg r2({"C03.rev", "segment travelled back from its end point; non-trivial: s12 != 0", 0.2,
            [] { return rc::gen::exec([] { return gen_direct(false); }); }, check_rev, nullptr});
vf::Reg r3({"C03.add", "segment split at a generated fraction t (20% within 1e-2 of an end); addition rules of Geodesic.hpp; non-trivial: length != 0", 0.2,
            [] { return rc::gen::exec([] { return gen_direct(false); }); }, check_add, nullptr});
vf::Reg r4({"C03.cfg", "series vs exact vs Geodesic(exact=true), direct interface, |f| <= 0.2; non-trivial: length != 0", 0.2,
            [] { return rc::gen::exec([] { J r = gen_direct(false); r["solver"] = J::integer(0); return r; }); }, check_cfg, nullptr});
vf::Reg r6({"C03.pole", "end points on exactly opposite meridians (lon2 = lon1 +- 180, both senses) whose shortest geodesic is the meridian over a pole: S12 = sign(lon12) sign(pole) pi c2 exactly, reproduced by Direct with the returned azimuth; every evaluated case non-trivial", 0.05,
            [] { return rc::gen::exec([] { return gen_pole(); }); }, check_pole, nullptr});
vf::Reg r5({"C03.area", "ellipsoid area vs closed form for generated ellipsoids; random polygons (3-8 vertices) on the sphere vs Gauss-Bonnet; every case non-trivial", 0.1,
            [] { return rc::gen::exec([] {
               J r = J::obj(); gg::Ell e = gg::ellipsoid(gg::EXACT_RANGE); r["a"] = J::num(e.a); r["f"] = J::num(e.f);
               J P = J::arr(); int n = (int)vf::g::irange(3, 8);
               double clat = vf::g::uni(-60, 60), clon = vf::g::uni(-180, 180), rad = vf::g::loguni(1e-3, 25);
               for (int i = 0; i < n; ++i) { J p = J::obj(); double th = 2 * M_PI * (i + vf::g::uni(0, 0.8)) / n;
                 p["lat"] = J::num(clat + rad * std::cos(th)); p["lon"] = J::num(clon + rad * std::sin(th) / std::cos(clat * M_PI / 180)); P.push(p); }
               r["poly"] = P; return r; }); }, check_area, nullptr});

}  // namespace

VF_MAIN
