// C05 — MGRS conversion is closed, exact and digit-consistent (DESIGN 3/C05)
//
// Oracle: ref/mgrs.hpp (R-GRID for MGRS) — own letter tables and encoder/decoder written from the
// description in MGRS.hpp / the MGRS standard; digits = exact truncation of floor(1e6 x) computed from
// the exact rational value of the double (2-ulp "digit-roundoff" band off the exact 1 um multiples,
// exact on them); band letter = band of the point's latitude, where the latitude is UTMUPS::Reverse's
// value *certified* by an independent forward mapping (ref/tm.hpp order-30 series / closed-form polar
// stereographic) and used only for classification with a 10 nm guard (documented 5 nm, K = 2);
// legality of (zone, band, column, row) decided geometrically from certified corner latitudes.
//
// MUTATION TABLE — deliberate breaks applied to a scratch copy of /repo, each run with
//   VERIF_REPO=<scratch> python3 check.py C05 --tier quick --only C05   (pbt unit; seed 1)
// break                                                                       | caught by
// UTMRow special case row 70/band W: scol >= 3                                  | C05.a,C05.b,C05.c,C05.d,C05.f,C05.g
// UTMRow special case row 71/band V: scol <= 1                                  | C05.a,C05.b,C05.c,C05.d,C05.f,C05.g
// UTMRow special case row 79/band X: scol >= 2                                  | C05.a,C05.b,C05.c,C05.d,C05.f,C05.g
// UTMRow special case row 80/band W: scol <= 0                                  | C05.a,C05.b,C05.c,C05.d,C05.f,C05.g
// UTMRow special case row 80/band W: scol <= 2                                  | C05.d,C05.f,C05.g
// UTMRow minrow: c - 5.3                                                        | C05.d,C05.f,C05.g
// UTMRow maxrow: c + 5.4                                                        | C05.d,C05.f,C05.g
// utmevenrowshift_ = 6 (both directions)                                        | C05.a,C05.b,C05.c,C05.d,C05.f,C05.g
// CheckCoords: no eps nudge on the closed upper easting                         | C05.a,C05.b,C05.c,C05.g
// CheckCoords: eps = 2^-19 (1.9 um)                                             | C05.a,C05.g
// Forward: easting/northing digits exchanged                                    | C05.a,C05.c,C05.g
// UPS east/west split xh > 20                                                   | C05.a,C05.b,C05.c
// utmrow_ last letters swapped                                                  | C05.a,C05.b,C05.c,C05.d,C05.f,C05.g
// CheckCoords: hemisphere not flipped when folding                              | C05.a,C05.b,C05.c,C05.g
// Reverse: northing centre offset dropped                                       | C05.c,C05.d,C05.f
// Reverse: southern row offset 80                                               | C05.c,C05.d,C05.f
// Reverse: zone assigned before the block-legality throw                        | C05.d,C05.f
// Forward(lat): consistency test disabled                                       | C05.g
// Decode: easting length (n - p1 + 1)/2                                         | NOT caught: equivalent mutant (n - p1 is even at that point)
// tiny negative northing (F12)                                                  | C05.a,C05.b,C05.c,C05.g
// UTMRow maxrow: c + 3.4                                                        | C05.a,C05.b,C05.c,C05.d,C05.f,C05.g
// Forward: row shift applied to odd zones                                       | C05.a,C05.b,C05.c,C05.g
// CheckCoords: no eps nudge on the closed upper northing                        | C05.a,C05.b,C05.c,C05.g
// Forward: floor(1e6 x + 0.5)                                                   | C05.a,C05.b,C05.c,C05.g
// upscols_[0] = "JKLPQRSTUVXY"                                                  | C05.a,C05.b,C05.c,C05.d,C05.f
// utmcols_[1] = "JKLMNPRQ"                                                      | C05.a,C05.b,C05.c,C05.d,C05.f,C05.g
// latband_ last letters swapped                                                 | C05.a,C05.b,C05.c,C05.d,C05.e,C05.f,C05.g
// Forward (no lat): slope of the cheap latitude bounds 0.94                     | C05.a,C05.b,C05.c,C05.g
// Reverse: odd digit count accepted                                             | C05.f
// Reverse grid zone: 31V exception dropped                                      | C05.e,C05.f
// Reverse: INV marker prec = -1                                                 | C05.d,C05.e,C05.f
// Forward: mgrs cleared before CheckCoords throws                               | C05.f,C05.g
// maxutmNrow_ = 96                                                              | C05.a,C05.b,C05.c,C05.g
// NaN northing converted to int (F13)                                           | C05.f
// UTMRow maxrow of band X 93                                                    | C05.a,C05.b,C05.c,C05.d,C05.f,C05.g
// row shift applied to odd zones, Forward and Reverse (self-consistent)         | C05.a,C05.b,C05.c,C05.d,C05.f,C05.g
// CheckCoords: southern y = 10000 km not retained in S                          | C05.a,C05.b,C05.c,C05.g
// Forward: digit divisor off by one at prec 7                                   | C05.a,C05.c,C05.g
// upsrows_[1] last letter Q                                                     | C05.a,C05.b,C05.c,C05.d,C05.f
// column set (zone+1) mod 3, both directions                                    | C05.a,C05.b,C05.c,C05.d,C05.f,C05.g
// LatitudeBand: (ilat + 81)/8                                                   | C05.a,C05.b,C05.c,C05.g
// Forward (no lat): sign of the near-equator estimate                           | C05.a,C05.b,C05.c,C05.g
// Reverse: 24 digits accepted                                                   | C05.f
// Reverse grid zone: band centre shifted by one band                            | C05.e,C05.f
// Reverse: zone 61 accepted                                                     | C05.d,C05.e,C05.f
// Decode: 2 letters accepted                                                    | C05.h
// Utility::lookup accepts NUL (F3)                                              | C05.f
// zone digit run overflow (F15; full run incl. fuzz/mgrs)                       | C05.f,C05.fuzz.mgrs
// 48 breaks: 47 caught in the quick tier, 1 equivalent mutant, none surviving.
#include "fw/harness.hpp"
#include "ref/grid.hpp"
#include "ref/mgrs.hpp"

#include <GeographicLib/MGRS.hpp>
#include <GeographicLib/UTMUPS.hpp>

using namespace GeographicLib;
using vf::J; using vf::Verdict;
using grid::Q; using grid::Z;

namespace {

// Genuine defects found by this property, since fixed in /repo (findings/C05-*.md; reverse patches
// seeded/fix-reverts/F12, F13): MGRS::Forward threw / read out of bounds for tiny negative "northern" northings,
// and converted a NaN northing to int.  No known-finding guards remain: a regression is a VIOLATION.
bool tiny_neg_north(int zone, bool northp, double y) { return zone > 0 && northp && y < 0 && y + 10000000.0 >= 10000000.0; }

const double NaN = std::numeric_limits<double>::quiet_NaN();
std::string show(const std::string& s) { std::string o; J::esc(o, s); return o; }
std::string hexd(double x) { char b[64]; std::snprintf(b, sizeof b, "%a", x); return b; }
std::string pt(int zone, bool northp, double x, double y) {
  char b[200]; std::snprintf(b, sizeof b, "zone %d %c x=%.17g y=%.17g", zone, northp ? 'N' : 'S', x, y); return b;
}
long double absdiff(double x, const Q& q) { Q d = grid::exact(x) - q; if (d < 0) d = -d; return d.convert_to<long double>(); }

struct In { int zone; bool northp; double x, y; int prec; };
bool read_in(const J& r, In& in, Verdict& v) {
  in.zone = (int)r.geti("zone"); in.northp = r.geti("northp") != 0; in.x = r.getd("x"); in.y = r.getd("y"); in.prec = (int)r.geti("prec");
  if (!(in.zone >= 0 && in.zone <= 60)) { v.skip("zone outside [0,60] (C05.f)"); return false; }
  if (!std::isfinite(in.x) || !std::isfinite(in.y)) { v.skip("non-finite coordinate (C05.f / C13)"); return false; }
  if (!(in.prec >= -1 && in.prec <= 11)) { v.skip("precision outside [-1,11] (C05.f)"); return false; }
  return true;
}
// index of the expected string equal to s: 0 = exact truncation and band of the latitude; > 0 an allowed alternative; -1 none
struct Match { int idx = -1; bool digit_alt = false, band_alt = false; std::string primary; };
Match match(const mref::Fwd& f, const std::string& s, int prec) {
  Match m; int i = 0;
  size_t nb = f.utm ? f.bands.size() : 1;
  for (size_t ix = 0; ix < f.X.size(); ++ix) for (size_t iy = 0; iy < f.Y.size(); ++iy) for (size_t ib = 0; ib < nb; ++ib, ++i) {
    std::string e = mref::build(f, f.X[ix], f.Y[iy], f.utm ? f.bands[ib] : 0, prec);
    if (i == 0) m.primary = e;
    if (e == s && m.idx < 0) { m.idx = i; m.digit_alt = ix > 0 || iy > 0; m.band_alt = ib > 0; }
  }
  return m;
}
void tag_fwd(Verdict& v, const In& in, const mref::Fwd& f, const Match& m) {
  v.tag(f.utm ? "utm" : "ups"); v.tag(f.northp ? "north" : "south");
  if (f.folded) v.tag("hemisphere-folded");
  if (tiny_neg_north(in.zone, in.northp, in.y)) v.tag("tiny-negative-northing");
  if (f.nudged) v.tag("closed-upper-edge");
  if (f.x_edge || f.y_edge) v.tag("on-1um-multiple");
  if (f.X.size() > 1 || f.Y.size() > 1) v.tag("within-2ulp-of-1um-multiple");
  if (m.digit_alt) v.tag("digit-roundoff");
  if (m.band_alt) v.tag("band-neighbour");
  if (f.bands.size() > 1) v.tag("within-10nm-of-band-edge");
  if (in.prec >= 6) v.tag("prec>=6"); if (in.prec == 11) v.tag("prec=11"); if (in.prec == -1) v.tag("prec=-1");
  auto near_tile = [](double c) { double r = std::fabs(std::remainder(c, 100000.0)); return r <= 1.0; };
  if (near_tile(in.x) || near_tile(in.y)) v.tag("within-1m-of-tile-edge");
  if (f.utm && !f.bands.empty()) v.tag(std::string("band-") + mref::UTM_BANDS[f.bands[0]]);
}
bool nontrivial_pt(const In& in, const mref::Fwd& f) {
  auto near_tile = [](double c) { double r = std::fabs(std::remainder(c, 100000.0)); return r <= 1.0; };
  long long r = f.Y.empty() ? 0 : f.Y[0] / mref::TILE_UM; if (f.utm && !f.northp) r = 99 - r;
  return near_tile(in.x) || near_tile(in.y) || in.prec >= 6 || (f.utm && (r == 70 || r == 71 || r == 79 || r == 80));
}

// ------------------------------------------------------------------------------------------ C05.a  digits, prefix
Verdict check_a(const J& r) {
  Verdict v; In in; if (!read_in(r, in, v)) return v;
  mref::Fwd f = mref::forward_ref(in.zone, in.northp, in.x, in.y);
  if (f.st == mref::Fwd::OUT_OF_RANGE) { v.skip("outside the documented MGRS ranges (C05.f)"); return v; }
  if (f.st == mref::Fwd::UNJUDGED) { v.skip("latitude of the point could not be certified"); return v; }
  std::string all[13];
  try { for (int p = -1; p <= 11; ++p) { all[p + 1] = "#untouched#"; MGRS::Forward(in.zone, in.northp, in.x, in.y, p, all[p + 1]); } }
  catch (const GeographicErr& e) { v.that(false, "Forward threw for " + pt(in.zone, in.northp, in.x, in.y) + " in the documented range: " + e.what()); return v; }
  const std::string& s = all[in.prec + 1];
  Match m = match(f, s, in.prec);
  v.that(m.idx >= 0, "Forward(" + pt(in.zone, in.northp, in.x, in.y) + ", prec " + std::to_string(in.prec) + ") = " + show(s) +
                     ", exact truncation gives " + show(m.primary));
  // prefix property, exactly: the grid zone is the same at every precision, the block letters at every prec >= 0,
  // and the digits at a lower precision are a prefix of those at the highest (independent of how 1e6 x was rounded)
  size_t nz = f.utm ? 3 : 1;
  const std::string& top = all[12];
  if (top.size() != nz + 2 + 22) v.that(false, "length of the prec-11 string " + show(top));
  else for (int p = -1; p <= 11 && !v.failed(); ++p) {
    const std::string& t = all[p + 1];
    size_t want = p < 0 ? nz : nz + 2 + 2 * (size_t)p;
    if (t.size() != want) { v.that(false, "length of " + show(t) + " at precision " + std::to_string(p)); break; }
    bool ok = t.compare(0, std::min(want, nz + 2), top, 0, std::min(want, nz + 2)) == 0;
    if (p > 0) ok = ok && t.compare(nz + 2, (size_t)p, top, nz + 2, (size_t)p) == 0 && t.compare(nz + 2 + (size_t)p, (size_t)p, top, nz + 2 + 11, (size_t)p) == 0;
    v.that(ok, "prefix property: " + show(t) + " (prec " + std::to_string(p) + ") vs " + show(top));
  }
  tag_fwd(v, in, f, m);
  v.nontrivial = nontrivial_pt(in, f);
  return v;
}

// ------------------------------------------------------------------------------------------ C05.b  letters, band
Verdict check_b(const J& r) {
  Verdict v; In in; if (!read_in(r, in, v)) return v;
  mref::Fwd f = mref::forward_ref(in.zone, in.northp, in.x, in.y);
  if (f.st == mref::Fwd::OUT_OF_RANGE) { v.skip("outside the documented MGRS ranges (C05.f)"); return v; }
  if (f.st == mref::Fwd::UNJUDGED) { v.skip("latitude of the point could not be certified"); return v; }
  std::string gz = "#untouched#", blk = "#untouched#";
  try { MGRS::Forward(in.zone, in.northp, in.x, in.y, -1, gz); MGRS::Forward(in.zone, in.northp, in.x, in.y, 0, blk); }
  catch (const GeographicErr& e) { v.that(false, "Forward threw for " + pt(in.zone, in.northp, in.x, in.y) + " in the documented range: " + e.what()); return v; }
  Match m0 = match(f, blk, 0), m1 = match(f, gz, -1);
  v.that(m0.idx >= 0, "100 km block of " + pt(in.zone, in.northp, in.x, in.y) + " is " + show(blk) + ", reference " + show(m0.primary));
  v.that(m1.idx >= 0, "grid zone of " + pt(in.zone, in.northp, in.x, in.y) + " is " + show(gz) + ", reference " + show(m1.primary));
  // UTM/UPS selection, zone and hemisphere are preserved: UTM strings start with the 2-digit zone and a band letter
  // of the point's hemisphere (C-M south, N-X north); UPS strings with A/B (south) or Y/Z (north)
  if (!v.failed()) {
    if (f.utm) {
      char z[8]; std::snprintf(z, sizeof z, "%02d", in.zone);
      v.that(gz.size() == 3 && gz.compare(0, 2, z) == 0, "zone digits of " + show(gz));
      if (gz.size() == 3) { const char* bp = std::strchr(mref::UTM_BANDS, gz[2]); v.that(bp && ((bp - mref::UTM_BANDS) >= 10) == f.northp, "band letter of " + show(gz) + " is not in the point's hemisphere"); }
    } else v.that(gz.size() == 1 && (f.northp ? (gz[0] == 'Y' || gz[0] == 'Z') : (gz[0] == 'A' || gz[0] == 'B')), "UPS hemisphere letter " + show(gz));
  }
  tag_fwd(v, in, f, m0);
  v.nontrivial = nontrivial_pt(in, f) || f.bands.size() > 1;
  return v;
}

// ------------------------------------------------------------------------------------------ C05.c  round trips
// expected Reverse result for a decoded cell: centre or SW corner.  Exact for prec <= 5 (documented: "The
// conversion is exact for prec in [0, 5]"); above that nothing is documented but round-off: the value is
// (100 km * integer) / (power of ten) where the product exceeds 2^53 from prec 10 on, i.e. two roundings.
// Max seen on the unchanged tree 1.17 ulp (5 seeds quick); frozen at 5 ulp (< 2e-8 m, 2 % of the 1 um square).
const long double TOL_ULP = 5.0L;
void check_point(Verdict& v, double got, const Q& want, int prec, const char* what) {
  if (prec <= 5) v.that(grid::exact(got) == want, std::string(what) + " is not exact for prec <= 5: " + hexd(got));
  else v.le(absdiff(got, want) / (long double)grid::ulp(got), TOL_ULP, what);
}
Verdict check_c(const J& r) {
  Verdict v; In in; if (!read_in(r, in, v)) return v;
  if (in.prec < 0) { v.skip("grid-zone-only strings are C05.e"); return v; }
  mref::Fwd f = mref::forward_ref(in.zone, in.northp, in.x, in.y);
  if (f.st == mref::Fwd::OUT_OF_RANGE) { v.skip("outside the documented MGRS ranges (C05.f)"); return v; }
  if (f.st == mref::Fwd::UNJUDGED) { v.skip("latitude of the point could not be certified"); return v; }
  std::string s = "#untouched#";
  try { MGRS::Forward(in.zone, in.northp, in.x, in.y, in.prec, s); }
  catch (const GeographicErr& e) { v.that(false, "Forward threw for " + pt(in.zone, in.northp, in.x, in.y) + ": " + e.what()); return v; }
  mref::Dec d; mref::DSt st = mref::decode(s, d);
  if (st == mref::D_UNJUDGED) { v.skip("block within 10 nm of a band edge: legality not judged"); return v; }
  v.that(st == mref::D_VALID, "Forward produced " + show(s) + " which the reference decoder rejects");
  if (v.failed()) return v;
  for (int centerp = 1; centerp >= 0 && !v.failed(); --centerp) {
    int zone = -9; bool northp = !f.northp; double x = -7, y = -7; int prec = -77;
    try { MGRS::Reverse(s, zone, northp, x, y, prec, centerp); }
    catch (const GeographicErr& e) { v.that(false, "Reverse rejected Forward's output " + show(s) + ": " + e.what()); return v; }
    v.that(zone == in.zone, "Reverse(" + show(s) + ") changed the zone / UTM-UPS selection to " + std::to_string(zone));
    v.that(northp == f.northp, "Reverse(" + show(s) + ") returned the wrong hemisphere");
    v.that(prec == in.prec, "Reverse(" + show(s) + ") returned precision " + std::to_string(prec));
    Q wx = centerp ? Q(d.x0 + d.size / 2) : d.x0, wy = centerp ? Q(d.y0 + d.size / 2) : d.y0;
    check_point(v, x, wx, in.prec, centerp ? "Reverse centre easting vs centre of the square [ulp]" : "Reverse SW easting vs corner of the square [ulp]");
    check_point(v, y, wy, in.prec, centerp ? "Reverse centre northing vs centre of the square [ulp]" : "Reverse SW northing vs corner of the square [ulp]");
    if (v.failed() || !centerp) continue;
    // Forward(Reverse(s)) = s apart from the band letter, which becomes the band of the centre
    std::string back = "#untouched#";
    try { MGRS::Forward(zone, northp, x, y, prec, back); }
    catch (const GeographicErr& e) { v.that(false, "Forward(Reverse(" + show(s) + ")) threw: " + e.what()); return v; }
    size_t bpos = f.utm ? 2 : 0;
    v.that(back.size() == s.size(), "Forward(Reverse(" + show(s) + ")) = " + show(back));
    if (!v.failed()) {
      std::string a = s, b = back; if (f.utm) { a[bpos] = '?'; b[bpos] = '?'; }
      v.that(a == b, "Forward(Reverse(" + show(s) + ")) = " + show(back));
      if (f.utm && !v.failed()) {
        mref::Fwd fc = mref::forward_ref(zone, northp, x, y);
        if (fc.st == mref::Fwd::OK) {
          bool okb = false; for (int bb : fc.bands) okb |= back[bpos] == mref::UTM_BANDS[bb];
          v.that(okb, "Forward(Reverse(" + show(s) + ")) = " + show(back) + ": band letter is not that of the centre");
          if (back[bpos] != s[bpos]) v.tag("band-changed-to-centre");
        }
      }
    }
  }
  Match m; tag_fwd(v, in, f, m);
  v.nontrivial = nontrivial_pt(in, f);
  return v;
}

// ------------------------------------------------------------------------------------------ C05.d / e / f  strings
// UTM grid zones: longitude range [w,e) of zone z in band b (Norway and Svalbard exceptions of the UTM scheme);
// false for the grid zones that do not exist (32X, 34X, 36X)
bool zone_lon_range(int z, int b, double& w, double& e) {
  w = 6 * z - 186; e = w + 6;
  if (b == 17) { if (z == 31) e = 3; if (z == 32) w = 3; }                 // V: 31V narrowed, 32V widened
  if (b == 19) {                                                        // X: 31X 33X 35X 37X widened, 32X 34X 36X absent
    if (z == 32 || z == 34 || z == 36) return false;
    if (z == 31) e = 9; if (z == 33) { w = 9; e = 21; } if (z == 35) { w = 21; e = 33; } if (z == 37) w = 33;
  }
  return true;
}
Verdict check_string(const std::string& s) {
  Verdict v;
  mref::Dec d; mref::DSt st = mref::decode(s, d);
  const int SZ = -9; const double SX = -7.25, SY = -3.5; const int SP = -77;
  for (int centerp = 1; centerp >= 0 && !v.failed(); --centerp) {
    int zone = SZ; bool northp = true, northp2 = false; double x = SX, y = SY; int prec = SP; bool thrown = false; std::string emsg;
    try { MGRS::Reverse(s, zone, northp, x, y, prec, centerp); }
    catch (const GeographicErr& e) { thrown = true; emsg = e.what(); }
    if (thrown) {   // "If an exception is thrown, then the arguments are unchanged": probe northp with both sentinels
      int z2 = SZ; double x2 = SX, y2 = SY; int p2 = SP;
      try { MGRS::Reverse(s, z2, northp2, x2, y2, p2, centerp); } catch (const GeographicErr&) {}
      v.that(zone == SZ && northp == true && northp2 == false && x == SX && y == SY && prec == SP, "outputs modified by a failing Reverse of " + show(s));
    }
    switch (st) {
      case mref::D_UNJUDGED: if (centerp) v.tag("block-within-10nm-of-band-edge(listed, not judged): " + s); break;
      case mref::D_MARKER:
        v.that(!thrown, "INVALID marker rejected: " + emsg);
        if (!thrown) v.that(zone == UTMUPS::INVALID && northp == false && std::isnan(x) && std::isnan(y) && prec == -2, "INVALID marker " + show(s) + " decoded to zone " + std::to_string(zone) + " prec " + std::to_string(prec));
        break;
      case mref::D_INVALID:
        v.that(thrown, "string " + show(s) + " is not a legal MGRS coordinate but was accepted (zone " + std::to_string(zone) + ", prec " + std::to_string(prec) + ")");
        break;
      default:
        if (thrown && d.lower) { v.tag("lower-case-rejected(not judged)"); break; }   // the header is silent on case
        v.that(!thrown, "legal MGRS coordinate " + show(s) + " rejected: " + emsg);
        if (thrown) break;
        v.that(zone == d.zone && northp == d.northp && prec == d.prec, "Reverse(" + show(s) + ") zone/hemisphere/precision = " + std::to_string(zone) + (northp ? "N " : "S ") + std::to_string(prec));
        if (d.gridzone) {
          // "some suitable point within that grid zone", prec = -1, centerp ignored
          mref::LatC c = zone ? mref::utm_lat(x, northp ? y : y - 10000000.0) : mref::ups_lat(northp, x, y);
          if (!c.ok) { v.tag("gridzone-latitude-uncertified"); break; }
          long double lon = zone ? c.lon - 3 + (6 * zone - 183) : c.lon;      // utm_lat works in zone 31
          if (zone) {
            double w, e;
            if (!zone_lon_range(zone, d.band, w, e)) { v.tag("nonexistent-grid-zone(not judged)"); break; }
            v.that(mref::band_of(c.lat) == d.band && c.lat >= -80 && c.lat <= 84, "grid zone " + show(s) + ": returned point has latitude " + std::to_string((double)c.lat));
            v.that(lon >= w && lon < e, "grid zone " + show(s) + ": returned point has longitude " + std::to_string((double)lon));
          } else {
            v.that(northp ? c.lat >= 84 : c.lat < -80, "UPS grid zone " + show(s) + ": returned point has latitude " + std::to_string((double)c.lat));
            v.that((d.band & 1) ? (lon >= 0 && lon <= 180) : (lon < 0 || lon == 180), "UPS grid zone " + show(s) + ": returned point has longitude " + std::to_string((double)lon));
          }
        } else {
          Q wx = centerp ? Q(d.x0 + d.size / 2) : d.x0, wy = centerp ? Q(d.y0 + d.size / 2) : d.y0;
          check_point(v, x, wx, d.prec, "Reverse easting vs reference square [ulp]");
          check_point(v, y, wy, d.prec, "Reverse northing vs reference square [ulp]");
        }
    }
  }
  v.tag(st == mref::D_VALID ? (d.gridzone ? "legal-gridzone" : "legal") : st == mref::D_INVALID ? "illegal" : st == mref::D_MARKER ? "marker" : "unjudged");
  if (st == mref::D_VALID && !d.gridzone && d.zone) {
    long long r = grid::floorq(Q(d.y0 / 100000)).convert_to<long long>(); if (!d.northp) r = 99 - r;
    if (r == 70 || r == 71 || r == 79 || r == 80) v.tag("row-70/71/79/80");
    v.tag(std::string("band-") + mref::UTM_BANDS[d.band]);
  }
  if (s.find('\0') != std::string::npos) v.tag("embedded-NUL");
  v.nontrivial = st != mref::D_VALID || v.cls.find("row-70") != std::string::npos;
  return v;
}
Verdict check_d(const J& r) { return check_string(r.gets("s")); }

// ------------------------------------------------------------------------------------------ C05.f  Forward error contract
Verdict check_f(const J& r) {
  int mode = (int)r.geti("mode");
  if (mode == 0) return check_string(r.gets("s"));
  Verdict v;
  int zone = (int)r.geti("zone"); bool northp = r.geti("northp") != 0; double x = r.getd("x"), y = r.getd("y"); int prec = (int)r.geti("prec");
  if (mode == 1) {    // NaN coordinate or zone == INVALID  ->  "INVALID"  ->  Reverse gives the INVALID marker values
    if (!(std::isnan(x) || std::isnan(y) || zone == UTMUPS::INVALID)) { v.skip("no NaN / INVALID input"); return v; }
    if (!(zone == UTMUPS::INVALID || (zone >= 0 && zone <= 60)) || !(prec >= -1 && prec <= 11)) { v.skip("other arguments out of range"); return v; }
    // the other coordinate must be in range: the order of the NaN test and the range test is not documented
    if (zone != UTMUPS::INVALID) {
      double xx = std::isnan(x) ? (zone ? 500000 : 2000000) : x, yy = std::isnan(y) ? (zone ? 5000000 : 2000000) : y;
      if (mref::forward_ref(zone, northp, xx, yy).st == mref::Fwd::OUT_OF_RANGE) { v.skip("other coordinate out of range"); return v; }
    } else if (!(std::isnan(x) || std::isfinite(x)) || !(std::isnan(y) || std::isfinite(y)) || std::fabs(x) > 1e9 || std::fabs(y) > 1e9) { v.skip("huge coordinate (C13)"); return v; }
    std::string s = "#untouched#";
    try { MGRS::Forward(zone, northp, x, y, prec, s); }
    catch (const GeographicErr& e) { v.that(false, std::string("Forward threw for a NaN/INVALID input: ") + e.what()); return v; }
    v.that(s == "INVALID", "NaN/INVALID input coded as " + show(s));
    v.tag("NaN->INVALID");
    return v;
  }
  // mode 2: zone, x or y outside the allowed range -> GeographicErr, mgrs unchanged
  if (!std::isfinite(x) || !std::isfinite(y) || std::fabs(x) > 1e9 || std::fabs(y) > 1e9) { v.skip("non-finite or huge coordinate (float-cast UB before the range check is C13's subject)"); return v; }
  bool bad = !(zone >= 0 && zone <= 60) || !(prec >= -1 && prec <= 11);
  if (!bad) bad = mref::forward_ref(zone, northp, x, y).st == mref::Fwd::OUT_OF_RANGE;
  if (!bad || zone == UTMUPS::INVALID) { v.skip("arguments are in range"); return v; }
  std::string s = "#untouched#"; bool thrown = false;
  try { MGRS::Forward(zone, northp, x, y, prec, s); } catch (const GeographicErr&) { thrown = true; }
  v.that(thrown, "out-of-range arguments accepted: " + pt(zone, northp, x, y) + " prec " + std::to_string(prec) + " -> " + show(s));
  v.that(s == "#untouched#", "mgrs modified by a failing Forward");
  v.tag(!(zone >= 0 && zone <= 60) ? "bad-zone" : !(prec >= -1 && prec <= 11) ? "bad-precision" : "out-of-range-coordinate");
  return v;
}

// ------------------------------------------------------------------------------------------ C05.g  Forward with latitude
Verdict check_g(const J& r) {
  Verdict v; In in; if (!read_in(r, in, v)) return v;
  double lat = r.getd("lat");
  if (!(std::fabs(lat) <= 90)) { v.skip("latitude outside [-90,90] (NaN / float-cast: C13)"); return v; }
  mref::Fwd f = mref::forward_ref(in.zone, in.northp, in.x, in.y);
  if (f.st == mref::Fwd::OUT_OF_RANGE) { v.skip("outside the documented MGRS ranges (C05.f)"); return v; }
  if (f.st == mref::Fwd::UNJUDGED) { v.skip("latitude of the point could not be certified"); return v; }
  std::string plain = "#untouched#", withlat = "#untouched#"; bool thrown = false; std::string emsg;
  try { MGRS::Forward(in.zone, in.northp, in.x, in.y, in.prec, plain); }
  catch (const GeographicErr& e) { v.that(false, "Forward threw for " + pt(in.zone, in.northp, in.x, in.y) + ": " + e.what()); return v; }
  try { MGRS::Forward(in.zone, in.northp, in.x, in.y, lat, in.prec, withlat); } catch (const GeographicErr& e) { thrown = true; emsg = e.what(); }
  if (!f.utm) {   // "The latitude is ignored for zone = 0 (UPS)"
    v.that(!thrown && withlat == plain, "UPS: Forward with latitude differs from Forward without: " + show(withlat) + " vs " + show(plain));
    v.tag("ups-lat-ignored"); return v;
  }
  if (std::fabs(lat) < 0x1p-40) { v.skip("latitude within 1e-12 deg of the equator: band taken from the hemisphere (undocumented detail)"); return v; }
  int b = mref::band_of(lat);
  // legality of the point's block for band(lat); the digit round-off alternatives may lie in another block
  // (point within 2 ulp of a tile edge): then every alternative must give the same answer, else not judged
  int legal = -2; bool mixed = false;
  for (long long X : f.X) for (long long Y : f.Y) {
    int c = (int)(X / mref::TILE_UM) - 1; long long yh = Y / mref::TILE_UM; int row = f.northp ? (int)yh : (int)yh - 100;
    int t = mref::block_in_band(c, row, b);
    if (legal == -2) legal = t; else if (t != legal) mixed = true;
  }
  if (mixed) { v.skip("within 2 ulp of a 100 km tile edge and the neighbouring blocks differ in legality"); return v; }
  if (legal < 0) { v.skip("block corner within 10 nm of the band edge: not judged"); return v; }
  if (legal == 0) {
    // "GeographicErr if lat is inconsistent with the given UTM coordinates" (same test as Reverse: no part of the block in the band)
    v.that(thrown, "latitude " + std::to_string(lat) + " (band " + mref::UTM_BANDS[b] + ") is inconsistent with " + pt(in.zone, in.northp, in.x, in.y) + " but was accepted: " + show(withlat));
    if (thrown) v.that(withlat == "#untouched#", "mgrs modified by a failing Forward");
    v.tag("inconsistent-lat");
  } else {
    v.that(!thrown, "latitude " + std::to_string(lat) + " (band " + mref::UTM_BANDS[b] + ") is consistent with " + pt(in.zone, in.northp, in.x, in.y) + " but was rejected: " + emsg);
    if (!thrown) {
      std::string e0 = mref::build(f, f.X[0], f.Y[0], b, in.prec); bool any = false;
      for (long long X : f.X) for (long long Y : f.Y) any |= withlat == mref::build(f, X, Y, b, in.prec);
      v.that(any, "Forward with latitude = " + show(withlat) + ", reference " + show(e0));
      // consistent with the point's own band -> identical to the overload without latitude
      if (b == f.bands[0] && f.bands.size() == 1) { v.that(withlat == plain, "Forward with the point's latitude " + show(withlat) + " differs from Forward without " + show(plain)); v.tag("own-band"); }
      else v.tag("neighbour-band-accepted");
    }
  }
  v.tag(f.northp ? "north" : "south");
  v.nontrivial = true;
  return v;
}

// ------------------------------------------------------------------------------------------ C05.h  MGRS::Decode
Verdict check_h(const J& r) {
  Verdict v; const std::string& s = r.gets("s");
  std::string gz = "g#", blk = "b#", e = "e#", n = "n#"; bool thrown = false;
  try { MGRS::Decode(s, gz, blk, e, n); } catch (const GeographicErr&) { thrown = true; }
  if (grid::prefix_ci(s, "INV")) {
    v.that(!thrown && gz == s.substr(0, 3) && blk.empty() && e.empty() && n.empty(), "Decode of the INVALID marker " + show(s));
    v.tag("marker"); return v;
  }
  std::string rg, rb, re, rn; bool ok = mref::split(s, rg, rb, re, rn);
  if (ok) {
    v.that(!thrown, "Decode rejected " + show(s) + " (0-2 digits, 1 or 3 letters, even number of digits)");
    if (!thrown) v.that(gz == rg && blk == rb && e == re && n == rn, "Decode(" + show(s) + ") = " + show(gz) + "|" + show(blk) + "|" + show(e) + "|" + show(n));
    if (!thrown) v.that(!gz.empty(), "empty grid zone");
    v.tag("splittable");
  } else {
    v.that(thrown, "Decode accepted " + show(s) + " as " + show(gz) + "|" + show(blk) + "|" + show(e) + "|" + show(n));
    if (thrown) v.that(gz == "g#" && blk == "b#" && e == "e#" && n == "n#", "outputs modified by a failing Decode");
    v.tag("rejected");
  }
  v.nontrivial = !ok || !rb.empty();
  return v;
}

// ========================================================================================== generators
namespace gn {
using namespace vf::g;

int kulps() { switch (wpick({40, 30, 15, 15})) { case 0: return 0; case 1: return coin() ? 1 : -1; case 2: return coin() ? 2 : -2; default: return (int)irange(-4, 4); } }
double clampd(double v, double lo, double hi) { return v < lo ? lo : v > hi ? hi : v; }
// a coordinate in [lo, hi] (metres): interior, 100 km tile boundaries +- {0, ulps, 1 um}, the closed edges, 1 um multiples +- ulps
double coord(double lo, double hi) {
  double v;
  switch (wpick({25, 30, 10, 25, 10})) {
    case 0: v = uni(lo, hi); break;
    case 1: { double t = 100000.0 * (double)irange((long long)std::ceil(lo / 100000), (long long)std::floor(hi / 100000));
              switch (irange(0, 3)) { case 0: v = t; break; case 1: v = ulps(t, kulps()); break; case 2: v = t + sgn() * 1e-6; break; default: v = t + sgn() * loguni(1e-9, 1.0); } break; }
    case 2: v = coin() ? hi : lo; break;
    case 3: { double um = std::round(uni(lo, hi) * 1e6); v = ulps(um / 1e6, kulps()); break; }
    default: { int p = (int)irange(0, 5); double m = std::pow(10.0, 5 - p); v = ulps(std::floor(uni(lo, hi) / m) * m, kulps()); break; }
  }
  return clampd(v, lo, hi);
}
void point(int& zone, bool& northp, double& x, double& y) {
  zone = coin(3, 20) ? 0 : (int)irange(1, 60); northp = coin();
  if (zone == 0) {
    double lo = northp ? 1300000 : 800000, hi = northp ? 2700000 : 3200000;
    x = coord(lo, hi); y = coord(lo, hi);
    if (coin(1, 6)) x = ulps(2000000.0, kulps());
    if (coin(1, 6)) y = ulps(2000000.0, kulps());
    return;
  }
  x = coord(100000, 900000);
  double lo = northp ? -9000000 : 1000000, hi = northp ? 9500000 : 19500000, eq = northp ? 0 : 10000000;
  switch (wpick({50, 20, 30})) {
    case 0: y = coord(lo, hi); break;
    case 1:   // around the equator: +-0, tiny of both signs (incl. subnormals), ulps of the southern false northing
      switch (irange(0, 3)) {
        case 0: y = eq + sgn() * loguni(1e-12, 1e-3); break;
        case 1: y = northp ? sgn() * loguni(1e-322, 1e-9) : ulps(eq, (int)irange(-3, 3)); break;
        case 2: y = northp ? oneof<double>({0.0, -0.0}) : eq; break;
        default: y = eq + sgn() * uni(0, 2); break;
      } break;
    default: {   // around a band edge: latitude 8k-80 +- (0 .. 1e-6 deg), anywhere in the zone, mapped with the library
      double lat = -80 + 8.0 * (double)irange(0, 20) + (coin(1, 3) ? 0.0 : sgn() * loguni(1e-13, 1e-5));
      if (lat > 84) lat = 84; double lon = 6.0 * zone - 183 + uni(-3.2, 3.2);
      int z; bool np; double xx, yy;
      try { UTMUPS::Forward(lat, lon, z, np, xx, yy, zone, true); x = xx; y = yy; northp = np; if (coin(1, 4)) { y = np ? y + 10000000.0 : y - 10000000.0; northp = !np; } }
      catch (const std::exception&) { y = coord(lo, hi); }
      lo = northp ? -9000000 : 1000000; hi = northp ? 9500000 : 19500000;
      x = clampd(x, 100000, 900000);
    }
  }
  y = clampd(y, lo, hi);
}
int prec() { switch (wpick({55, 20, 10, 15})) { case 0: return (int)irange(-1, 11); case 1: return 11; case 2: return (int)irange(6, 10); default: return (int)irange(0, 5); } }
J rec_pt() {
  J r = J::obj(); int zone; bool northp; double x, y; point(zone, northp, x, y);
  r["zone"] = J::integer(zone); r["northp"] = J::integer(northp); r["x"] = J::num(x); r["y"] = J::num(y); r["prec"] = J::integer(prec());
  return r;
}
J rec_c() { J r = rec_pt(); if (r.geti("prec") < 0) r["prec"] = J::integer(irange(0, 11)); return r; }
J rec_g() {
  J r = rec_pt(); int zone = (int)r.geti("zone"); bool northp = r.geti("northp") != 0; double x = r.getd("x"), y = r.getd("y");
  double lat = 0;
  switch (wpick({45, 35, 20})) {
    case 0: { double lon; try { UTMUPS::Reverse(zone, northp, x, y, lat, lon); } catch (const std::exception&) { lat = uni(-80, 84); }
              if (coin(1, 3)) lat += sgn() * loguni(1e-12, 1.0); break; }
    case 1: { double lon; try { UTMUPS::Reverse(zone, northp, x, y, lat, lon); } catch (const std::exception&) { lat = 0; }
              lat = std::floor(lat / 8) * 8 + 8.0 * (double)irange(-2, 3) + (coin() ? uni(0, 8) : (coin() ? 0.0 : sgn() * loguni(1e-12, 1e-3))); break; }
    default: lat = uni(-90, 90);
  }
  r["lat"] = J::num(clampd(lat, -90, 90));
  return r;
}
// a legal-looking MGRS string from the grammar (letters from the right sets; the block may be illegal for the band)
char pick(const char* al) { return al[irange(0, (long long)std::strlen(al) - 1)]; }
std::string digits(int n) { std::string s; for (int i = 0; i < n; ++i) s += char('0' + irange(0, 9)); return s; }
std::string grammar() {
  std::string s; int zone = coin(3, 20) ? 0 : (int)irange(1, 60);
  if (zone) { char b[8]; std::snprintf(b, sizeof b, (zone < 10 && coin()) ? "%d" : "%02d", zone); s = b; }
  int band = zone ? (int)irange(0, 19) : (int)irange(0, 3);
  s += zone ? mref::UTM_BANDS[band] : mref::UPS_BANDS[band];
  if (coin(1, 10)) return s;
  s += pick(zone ? mref::UTM_COLS[(zone - 1) % 3] : mref::UPS_COLS[band]);
  if (zone && coin(3, 4)) {      // a row letter that is legal for the band (rows of the band's latitude range, roughly)
    int r = (int)std::floor((8.0 * band - 80 + uni(0, 8)) * 100 / 90.0); r = r < -90 ? -90 : r > 94 ? 94 : r;
    s += mref::UTM_ROWS[(((r + (zone % 2 == 0 ? 5 : 0)) % 20) + 20) % 20];
  } else s += pick(zone ? mref::UTM_ROWS : mref::UPS_ROWS[band >= 2]);
  int p = coin(1, 5) ? 11 : (int)irange(0, 11);
  s += digits(2 * p);
  if (coin(1, 6)) for (auto& ch : s) if (coin()) ch = grid::lo(ch);
  return s;
}
std::string mutate(std::string s) {
  const char* pool = "0123456789ABCDEFGHIJKLMNOPQRSTUVWXYZabcdefghijklmnopqrstuvwxyz -.:+";
  int nm = (int)irange(1, 2);
  for (int m = 0; m < nm; ++m) {
    size_t pos = s.empty() ? 0 : (size_t)irange(0, (long long)s.size() - 1);
    char ch;
    switch (wpick({45, 10, 8, 12, 15, 10})) {
      case 0: ch = pick(pool); break;
      case 1: ch = 0; break;
      case 2: ch = char(irange(128, 255)); break;
      case 3: ch = oneof<char>({'I', 'O', 'i', 'o'}); break;
      case 4: ch = char('0' + irange(0, 9)); break;
      default: ch = char(irange(1, 127)); break;
    }
    switch (wpick({40, 25, 25, 10})) {
      case 0: if (!s.empty()) s[pos] = ch; else s += ch; break;
      case 1: s.insert(s.begin() + (long)std::min(pos + (size_t)irange(0, 1), s.size()), ch); break;
      case 2: if (!s.empty()) s.erase(s.begin() + (long)pos); break;
      default: if (s.size() >= 2) { size_t q = pos + 1 < s.size() ? pos + 1 : pos - 1; std::swap(s[pos], s[q]); } break;
    }
  }
  return s;
}
std::string any_string() {
  switch (wpick({45, 20, 10, 10, 8, 7})) {
    case 0: return mutate(grammar());
    case 1: return grammar();
    case 2: { std::string s = grammar(); return coin() ? s + digits((int)irange(1, 4)) : digits((int)irange(1, 25)) + s; }   // odd / too many digits, long zone-digit runs
    case 3: { std::string s; int n = (int)sized(0, 30); const char* pool = "0123456789ABCDEFGHJKLMNPQRSTUVWXYZ"; for (int i = 0; i < n; ++i) s += pick(pool); return s; }
    case 4: { std::string s = oneof<std::string>({"INVALID", "invalid", "INV", "inv", "IN", "INVx", "Invalid", "INV\0"}); return coin(1, 4) ? mutate(s) : s; }
    default: { std::string s; int n = (int)sized(0, 12); for (int i = 0; i < n; ++i) s += char(irange(0, 255)); return s; }
  }
}
J rec_s() { J r = J::obj(); r["s"] = J::str(coin(1, 3) ? grammar() : any_string()); return r; }
J rec_f() {
  J r = J::obj(); int mode = wpick({75, 8, 17});
  r["mode"] = J::integer(mode);
  if (mode == 0) { r["s"] = J::str(any_string()); return r; }
  int zone; bool northp; double x, y; point(zone, northp, x, y); int p = prec();
  if (mode == 1) { switch (irange(0, 3)) { case 0: x = NaN; break; case 1: y = NaN; break; case 2: x = y = NaN; break; default: zone = UTMUPS::INVALID; } }
  else {
    double lo = zone ? 100000 : (northp ? 1300000 : 800000), hi = zone ? 900000 : (northp ? 2700000 : 3200000);
    double ylo = zone ? (northp ? -9000000 : 1000000) : lo, yhi = zone ? (northp ? 9500000 : 19500000) : hi;
    switch (irange(0, 4)) {
      case 0: x = coin() ? std::nextafter(hi, 1e300) : std::nextafter(lo, -1e300); break;
      case 1: y = coin() ? std::nextafter(yhi, 1e300) : std::nextafter(ylo, -1e300); break;
      case 2: x = coin() ? hi + loguni(1e-9, 1e7) : lo - loguni(1e-9, 1e7); break;
      case 3: y = coin() ? yhi + loguni(1e-9, 1e7) : ylo - loguni(1e-9, 1e7); break;
      default: if (coin()) zone = (int)oneof<long long>({-1, -2, -3, 61, 62, 100, -100}); else p = (int)oneof<long long>({-2, -3, 12, 13, 100, -100});
    }
  }
  r["zone"] = J::integer(zone); r["northp"] = J::integer(northp); r["x"] = J::num(x); r["y"] = J::num(y); r["prec"] = J::integer(p);
  return r;
}
}  // namespace gn

// ========================================================================================== enumerations
// all zone strings ("", 1..9, 01..09, 10..60, and the illegal 0, 00, 61..63, 99) x 26 band letters [x 26 x 26 block letters]
std::vector<std::string> zone_strings() {
  std::vector<std::string> z; z.push_back("");
  for (int i = 1; i <= 9; ++i) { z.push_back(std::to_string(i)); z.push_back("0" + std::to_string(i)); }
  for (int i = 10; i <= 60; ++i) z.push_back(std::to_string(i));
  for (const char* bad : {"0", "00", "61", "62", "99", "001", "100"}) z.push_back(bad);
  return z;
}
void enum_blocks(vf::EnumCtx& c) {   // C05.d: every zone x band x column x row letter combination
  const char* az = "ABCDEFGHIJKLMNOPQRSTUVWXYZ"; unsigned long long i = 0;
  for (const std::string& z : zone_strings()) for (int b = 0; b < 26; ++b) for (int k = 0; k < 26; ++k) for (int r = 0; r < 26; ++r) {
    if ((long long)(i++ % (unsigned long long)c.nshards) != c.shard) continue;
    J rec = J::obj(); rec["s"] = J::str(z + az[b] + az[k] + az[r]);
    if (!c.emit(rec)) return;
  }
  c.exhaustive = true;
}
void enum_gridzones(vf::EnumCtx& c) {   // C05.e: every zone x band letter; also 2-letter strings (missing row letter)
  const char* az = "ABCDEFGHIJKLMNOPQRSTUVWXYZ"; unsigned long long i = 0;
  for (const std::string& z : zone_strings()) for (int b = 0; b < 26; ++b) {
    for (int k = -1; k < 26; ++k) {
      if ((long long)(i++ % (unsigned long long)c.nshards) != c.shard) continue;
      std::string s = z + az[b]; if (k >= 0) s += az[k];
      J rec = J::obj(); rec["s"] = J::str(s);
      if (!c.emit(rec)) return;
    }
  }
  if (c.shard == 0) for (const char* m : {"INV", "INVALID", "inv", "InVxyz", "IN", ""}) { J rec = J::obj(); rec["s"] = J::str(m); if (!c.emit(rec)) return; }
  c.exhaustive = true;
}

vf::Reg ra({"C05.a", "digits: generated (zone 0..60, hemisphere, x, y over the documented ranges incl. tile boundaries +- ulps/1 um, closed upper edges, 1 um multiples +- ulps, equator +- tiny, band-edge latitudes, prec -1..11) -> Forward = exact truncation of floor(1e6 x) (2-ulp digit-roundoff band) and exact prefix property over all 13 precisions; non-trivial: within 1 m of a tile edge, or prec >= 6, or rows 70/71/79/80", 0.26,
            [] { return rc::gen::exec([] { return gn::rec_pt(); }); }, check_a, nullptr});
vf::Reg rb({"C05.b", "letters: zone digits, 100 km column/row letters from the reference tables, band letter = band of the certified latitude (neighbour only within 10 nm of the edge), hemisphere and UTM/UPS preserved", 0.16,
            [] { return rc::gen::exec([] { return gn::rec_pt(); }); }, check_b, nullptr});
vf::Reg rcc({"C05.c", "round trips: Reverse(Forward(p)) = centre and SW corner of the reference square (exact for prec <= 5, 1 ulp above), zone/hemisphere/precision preserved; Forward(Reverse(s)) = s apart from the band letter = band of the centre", 0.2,
            [] { return rc::gen::exec([] { return gn::rec_c(); }); }, check_c, nullptr});
vf::Reg rd({"C05.d", "block legality, exhaustive: every zone string x band letter x column letter x row letter (A-Z each): Reverse accepts iff the reference finds the block in the band geometrically (certified corner latitudes); blocks with a corner within 10 nm of a band edge are listed, not judged; non-trivial: rejected strings and rows 70/71/79/80", 0.0,
            nullptr, check_d, enum_blocks});
vf::Reg re({"C05.e", "grid-zone-only strings, exhaustive over zone strings x band letters (and 2-letter remainders): prec = -1, zone and hemisphere from the letters, returned point inside the grid zone (latitude band, longitude range incl. Norway/Svalbard; 32X/34X/36X not judged); INVALID markers", 0.0,
            nullptr, check_d, enum_gridzones});
vf::Reg rf({"C05.f", "malformed input: grammar-built strings with 1-2 point mutations (embedded NUL, high-bit bytes, I/O, odd or > 22 digits), junk, markers judged by the reference acceptor (GeographicErr + zone,northp,x,y,prec untouched); Forward: NaN/INVALID zone -> INVALID, out-of-range zone/x/y/prec -> GeographicErr with mgrs untouched; non-trivial: string not legal", 0.18,
            [] { return rc::gen::exec([] { return gn::rec_f(); }); }, check_f, nullptr});
vf::Reg rg({"C05.g", "Forward with explicit latitude: consistent (some part of the point's block in the band of lat) <=> accepted with that band letter, equal to the lat-less overload for the point's own band; inconsistent => GeographicErr, mgrs untouched; UPS ignores lat", 0.14,
            [] { return rc::gen::exec([] { return gn::rec_g(); }); }, check_g, nullptr});
vf::Reg rh({"C05.h", "MGRS::Decode splits 0-2 digits + 1 or 3 letters (I,O not letters) + even digits exactly as documented; everything else throws and leaves the outputs untouched", 0.06,
            [] { return rc::gen::exec([] { return gn::rec_s(); }); }, check_h, nullptr});

}  // namespace

VF_MAIN
