// C01 — direct geodesic problem (DESIGN 3/C01)
#include "fw/harness.hpp"
#include "gen/geo.hpp"
#include "ref/ode.hpp"
#include "ref/tol.hpp"

#include <GeographicLib/Geodesic.hpp>
#include <GeographicLib/GeodesicExact.hpp>
#include <GeographicLib/GeodesicLine.hpp>
#include <GeographicLib/GeodesicLineExact.hpp>

using namespace GeographicLib;
using vf::J; using vf::Verdict;
typedef long double L;

namespace {

struct Out { double a12, lat2, lon2, azi2, s12, m12, M12, M21, S12; };

// cfg: 0 series, 1 exact, 2 Geodesic(exact=true), 3 series line, 4 exact line, 5 line of exact=true,
//      6 DirectLine/ArcDirectLine (series) then Position(Distance()), 7 same for exact
const int NCFG = 8;
bool cfg_exact(int cfg) { return cfg == 1 || cfg == 2 || cfg == 4 || cfg == 5 || cfg == 7; }

Out lib_direct(int cfg, double a, double f, double lat1, double lon1, double azi1, bool arcmode, double len, bool unroll) {
  Out o; unsigned m = Geodesic::ALL | (unroll ? Geodesic::LONG_UNROLL : 0u);
  double nan = Math::NaN();
  o.lat2 = o.lon2 = o.azi2 = o.s12 = o.m12 = o.M12 = o.M21 = o.S12 = nan;
  switch (cfg) {
    case 0: { Geodesic g(a, f); o.a12 = g.GenDirect(lat1, lon1, azi1, arcmode, len, m, o.lat2, o.lon2, o.azi2, o.s12, o.m12, o.M12, o.M21, o.S12); break; }
    case 1: { GeodesicExact g(a, f); o.a12 = g.GenDirect(lat1, lon1, azi1, arcmode, len, m, o.lat2, o.lon2, o.azi2, o.s12, o.m12, o.M12, o.M21, o.S12); break; }
    case 2: { Geodesic g(a, f, true); o.a12 = g.GenDirect(lat1, lon1, azi1, arcmode, len, m, o.lat2, o.lon2, o.azi2, o.s12, o.m12, o.M12, o.M21, o.S12); break; }
    case 3: { Geodesic g(a, f); GeodesicLine l = g.Line(lat1, lon1, azi1, Geodesic::ALL); o.a12 = l.GenPosition(arcmode, len, m, o.lat2, o.lon2, o.azi2, o.s12, o.m12, o.M12, o.M21, o.S12); break; }
    case 4: { GeodesicExact g(a, f); GeodesicLineExact l = g.Line(lat1, lon1, azi1, GeodesicExact::ALL); o.a12 = l.GenPosition(arcmode, len, m, o.lat2, o.lon2, o.azi2, o.s12, o.m12, o.M12, o.M21, o.S12); break; }
    case 5: { Geodesic g(a, f, true); GeodesicLine l = g.Line(lat1, lon1, azi1, Geodesic::ALL); o.a12 = l.GenPosition(arcmode, len, m, o.lat2, o.lon2, o.azi2, o.s12, o.m12, o.M12, o.M21, o.S12); break; }
    case 6: { Geodesic g(a, f); GeodesicLine l = g.GenDirectLine(lat1, lon1, azi1, arcmode, len, Geodesic::ALL);
              o.a12 = arcmode ? l.GenPosition(true, l.Arc(), m, o.lat2, o.lon2, o.azi2, o.s12, o.m12, o.M12, o.M21, o.S12)
                              : l.GenPosition(false, l.Distance(), m, o.lat2, o.lon2, o.azi2, o.s12, o.m12, o.M12, o.M21, o.S12); break; }
    default: { GeodesicExact g(a, f); GeodesicLineExact l = g.GenDirectLine(lat1, lon1, azi1, arcmode, len, GeodesicExact::ALL);
              o.a12 = arcmode ? l.GenPosition(true, l.Arc(), m, o.lat2, o.lon2, o.azi2, o.s12, o.m12, o.M12, o.M21, o.S12)
                              : l.GenPosition(false, l.Distance(), m, o.lat2, o.lon2, o.azi2, o.s12, o.m12, o.M12, o.M21, o.S12); break; }
  }
  return o;
}

L doc_tol(int cfg, double a, double f) {
  return cfg_exact(cfg) ? tol::geod_exact_doc(a, f) : tol::geod_series_doc(a, f);
}

// K x documented accuracy: K = 2 for |f| <= 0.5, 4 beyond, 8 where b/a is outside [1/8, 8] (see props/geod_common.hpp)
L kdoc(int cfg, double a, double f) {
  double ba = 1 - f, r = ba > 1 ? ba : 1 / ba;
  return (r > 8 ? 8 : std::fabs(f) > 0.5 ? 4 : 2) * doc_tol(cfg, a, f);
}

bool in_domain(int cfg, double a, double f) {
  if (!(a > 0) || !std::isfinite(a) || !std::isfinite(f)) return false;
  if (cfg_exact(cfg)) return (1 - f) >= 0.01 && (1 - f) <= 100;
  return std::fabs(f) <= 0.2;
}

J gen_case(bool allow_extreme) {
  int cfg = (int)vf::g::irange(0, NCFG - 1);
  gg::Ell e = gg::ellipsoid(cfg_exact(cfg) ? (allow_extreme && vf::g::coin(1, 4) ? gg::EXACT_RANGE : gg::SERIES_WIDE)
                                           : (vf::g::coin(3, 4) ? gg::SERIES_FULL : gg::SERIES_WIDE));
  J r = J::obj();
  r["cfg"] = J::integer(cfg);
  r["a"] = J::num(e.a); r["f"] = J::num(e.f);
  r["lat1"] = J::num(gg::latitude());
  r["lon1"] = J::num(gg::angle());
  r["azi1"] = J::num(gg::angle());
  bool arc = vf::g::coin(1, 3);
  r["arcmode"] = J::integer(arc);
  double len;
  if (arc) {
    switch (vf::g::wpick({50, 20, 20, 10})) {
      case 0: len = vf::g::uni(-180, 180); break;
      case 1: { double ba = 1 - e.f; len = (std::min(ba * ba, 1 / ba) < 0.05) ? vf::g::uni(-90, 90) : vf::g::uni(-7200, 7200); break; }
      case 2: len = vf::g::sgn() * vf::g::ulps(90.0 * (double)vf::g::irange(0, 8), (int)vf::g::irange(-2, 2)); break;
      default: len = vf::g::sgn() * vf::g::loguni(1e-12, 1.0);
    }
  } else {
    // very eccentric ellipsoids: keep the reference affordable (step ~ smallest radius of curvature)
    double ba = 1 - e.f; double rmin = std::min(ba * ba, 1 / ba);
    len = gg::distance(e.a, rmin < 0.05 ? 0.5 : 20);
  }
  r["len"] = J::num(len);
  r["unroll"] = J::integer(vf::g::coin());
  return r;
}

// ---------------------------------------------------------------------------------------------
// C01.ode: one configuration against the ODE reference
Verdict check_ode(const J& r) {
  Verdict v;
  int cfg = (int)r.geti("cfg"); double a = r.getd("a"), f = r.getd("f");
  double lat1 = r.getd("lat1"), lon1 = r.getd("lon1"), azi1 = r.getd("azi1"), len = r.getd("len");
  bool arc = r.geti("arcmode"), unroll = r.geti("unroll");
  if (cfg < 0 || cfg >= NCFG || !in_domain(cfg, a, f) || !(std::fabs(lat1) <= 90) || !std::isfinite(lon1) ||
      !std::isfinite(azi1) || !std::isfinite(len)) { v.skip("outside documented domain"); return v; }
  if (std::fabs(lon1) > 1e6 || std::fabs(azi1) > 1e6 || (arc ? std::fabs(len) > 1e4 : std::fabs(len) > 25 * 2 * M_PI * a)) { v.skip("beyond generated range"); return v; }
  Out o = lib_direct(cfg, a, f, lat1, lon1, azi1, arc, len, unroll);
  v.tag(cfg_exact(cfg) ? "exact" : "series"); v.tag("cfg" + std::to_string(cfg));
  v.tag(arc ? "arcmode" : "distmode");
  double af = std::fabs(f);
  v.tag(af == 0 ? "f=0" : af < 1e-6 ? "f<1e-6" : af <= 0.0034 ? "f<=wgs84" : af <= 0.02 ? "f<=0.02" : af <= 0.2 ? "f<=0.2" : "f>0.2");
  if (std::fabs(lat1) == 90) v.tag("polar-start");
  // ranges (C01.d)
  v.that(std::fabs(o.lat2) <= 90, "lat2 outside [-90,90]");
  v.that(std::fabs(o.azi2) <= 180, "azi2 outside [-180,180]");
  if (!unroll) v.that(std::fabs(o.lon2) <= 180, "lon2 outside [-180,180]");
  // pair consistency (C01.c): the input length is echoed in the matching output
  if (arc) v.that(o.a12 == len, "arc mode: returned a12 differs from the requested arc length");
  else v.that(o.s12 == len, "distance mode: returned s12 differs from the requested distance");
  if (v.failed()) return v;

  ref::Ellipsoid E(a, f);
  ref::Ode ode(E);
  L s12 = o.s12;
  L Rmin = std::min(E.b * E.b / E.a, E.a * E.a / E.b);
  if (fabsl(s12) / (0.5L * Rmin) > 6000) { v.skip("reference too expensive for this eccentricity/length"); return v; }
  L circ = fabsl((L)o.a12) / 90;     // length in quarter circuits
  L tolp = kdoc(cfg, a, f) * (1 + circ);
  ref::OdeResult R = ode.direct(lat1, lon1, azi1, s12, 0, 0.01L * tolp);
  if (!(R.err <= 0.02L * tolp)) { v.skip("reference not converged"); return v; }
  v.nontrivial = o.s12 != 0;
  v.tag(circ > 4 ? "multi-circuit" : circ > 1.8 ? ">half-circuit" : "short");
  if (len < 0) v.tag("negative-length");

  // position (C01.a)
  L p[3]; ref::to_cart(E, o.lat2, o.lon2, p);
  L rho2 = hypotl(R.r[0], R.r[1]);
  // the returned lon2 is a double in degrees: one ulp of it, as a distance (matters with LONG_UNROLL and huge lon1)
  L repr = 2.3e-16L * fabsl((L)o.lon2) * ref::DEG_L * rho2;
  v.le(ref::dist3(p, R.r), tolp + repr, "end point vs geodesic ODE [m]");
  // direction (C01.b): 3-D direction of azi2 at the returned point vs ODE velocity
  L d[3]; ref::dir_vec(o.lat2, o.lon2, o.azi2, d);
  L dd = ref::dist3(d, R.v) * E.a;
  // near a pole the returned longitude carries the position error divided by the distance from
  // the axis, which rotates the frame in which azi2 is expressed; both are position-accuracy effects
  // azimuth error ~ position error / local radius of curvature (matters for very eccentric ellipsoids)
  L sphi2, cphi2; ref::Ode::sincosd(o.lat2, sphi2, cphi2);
  L w2 = 1 - E.e2 * sphi2 * sphi2;
  L Rloc = std::min(E.a * (1 - E.e2) / (w2 * sqrtl(w2)), E.a / sqrtl(w2));
  v.le(dd, (2 * tolp + repr) * std::max<L>(1, E.a / Rloc), "direction at end point vs ODE velocity [m-equivalent]");
  // a12 vs its definition: spherical arc on the auxiliary sphere, integrated along the ODE track
  {
    L tola = tolp / std::min(E.a, E.b) * (180 / ref::PI_L) * 2 + 4e-16L * (fabsl(R.sig12) + 1);
    v.le(fabsl((L)o.a12 - R.sig12), tola, "a12 vs integral of ds/(a sqrt(1-e2 cos^2 beta)) [deg]");
  }
  // unrolled longitude (C01.e)
  // a track passing the axis closer than the position tolerance may pass on either side of the
  // pole within the documented accuracy (the library also rounds azimuths below 2^-57 deg to 0):
  // the sense of the 180-degree jump is then not determined, so compare modulo 360
  bool polegraze = fabsl(R.Lz) <= tolp;
  if (unroll && !R.meridional && polegraze) {
    L dl = remainderl(((L)o.lon2 - (L)lon1) - R.dlam, 360.0L);
    L told = tolp / std::max(rho2, 1e-300L) * (180 / ref::PI_L) + 4e-16L * (fabsl((L)lon1) + fabsl((L)o.lon2) + fabsl(R.dlam));
    if (told < 90) v.le(fabsl(dl), told, "LONG_UNROLL lon2-lon1 vs ODE (mod 360, pole-grazing track) [deg]");
    v.tag("unroll-polegraze");
  }
  if (unroll && !R.meridional && !polegraze) {
    L cosphi2 = rho2 / E.a;
    L told = tolp / std::max(rho2, 1e-300L) * (180 / ref::PI_L) + 4e-16L * (fabsl((L)lon1) + fabsl((L)o.lon2) + fabsl(R.dlam));
    (void)cosphi2;
    if (told < 90) {
      v.le(fabsl(((L)o.lon2 - (L)lon1) - R.dlam), told, "LONG_UNROLL lon2-lon1 vs unrolled longitude of the ODE track [deg]");
      v.tag("unroll-checked");
    } else v.tag("unroll-illconditioned");
  }
  if (R.meridional) v.tag("meridional");
  return v;
}

// ---------------------------------------------------------------------------------------------
// C01.cfg: all configurations agree on one input (no reference needed)
Verdict check_cfg(const J& r) {
  Verdict v;
  double a = r.getd("a"), f = r.getd("f");
  double lat1 = r.getd("lat1"), lon1 = r.getd("lon1"), azi1 = r.getd("azi1"), len = r.getd("len");
  bool arc = r.geti("arcmode"), unroll = r.geti("unroll");
  if (!in_domain(0, a, f) || !in_domain(1, a, f) || !(std::fabs(lat1) <= 90) || !std::isfinite(lon1) || !std::isfinite(azi1) || !std::isfinite(len)) { v.skip("outside documented domain"); return v; }
  if (std::fabs(lon1) > 1e6 || std::fabs(azi1) > 1e6 || (arc ? std::fabs(len) > 1e4 : std::fabs(len) > 25 * 2 * M_PI * a)) { v.skip("beyond generated range"); return v; }
  ref::Ellipsoid E(a, f);
  Out o[NCFG]; L p[NCFG][3], d[NCFG][3];
  for (int c = 0; c < NCFG; ++c) {
    o[c] = lib_direct(c, a, f, lat1, lon1, azi1, arc, len, unroll);
    ref::to_cart(E, o[c].lat2, o[c].lon2, p[c]); ref::dir_vec(o[c].lat2, o[c].lon2, o[c].azi2, d[c]);
  }
  L circ = fabsl((L)o[0].a12) / 90;
  v.nontrivial = len != 0;
  v.tag(arc ? "arcmode" : "distmode");
  for (int i = 0; i < NCFG; ++i)
    for (int j = i + 1; j < NCFG; ++j) {
      L t = (kdoc(i, a, f) + kdoc(j, a, f)) * (1 + circ);
      // same solver through different interfaces must agree much better: a few ulp of the radius
      bool same = cfg_exact(i) == cfg_exact(j);
      if (same) t = std::min(t, (L)(64 * 2.3e-16L * E.a * (1 + circ)) + 0 * t);
      char nm[96]; std::snprintf(nm, sizeof nm, "cfg%d vs cfg%d end point [m]", i, j);
      v.le(ref::dist3(p[i], p[j]), t, nm);
      std::snprintf(nm, sizeof nm, "cfg%d vs cfg%d direction [m-equivalent]", i, j);
      v.le(ref::dist3(d[i], d[j]) * E.a, 2 * t, nm);
      if (arc) {
        std::snprintf(nm, sizeof nm, "cfg%d vs cfg%d s12 [m]", i, j);
        v.le(fabsl((L)o[i].s12 - (L)o[j].s12), t, nm);
      } else {
        std::snprintf(nm, sizeof nm, "cfg%d vs cfg%d a12 [deg]", i, j);
        v.le(fabsl((L)o[i].a12 - (L)o[j].a12), t / std::min(E.a, E.b) * (180 / ref::PI_L) * 2 + 1e-15L * fabsl((L)o[i].a12), nm);
      }
    }
  return v;
}

// ---------------------------------------------------------------------------------------------
// C01.rev: a negative length is the same as the reversed azimuth at the start (metamorphic)
Verdict check_rev(const J& r) {
  Verdict v;
  int cfg = (int)r.geti("cfg"); double a = r.getd("a"), f = r.getd("f");
  double lat1 = r.getd("lat1"), lon1 = r.getd("lon1"), azi1 = r.getd("azi1"), len = r.getd("len");
  bool arc = r.geti("arcmode");
  if (cfg < 0 || cfg >= NCFG || !in_domain(cfg, a, f) || !(std::fabs(lat1) <= 90) || !std::isfinite(lon1) || !std::isfinite(azi1) || !std::isfinite(len)) { v.skip("outside documented domain"); return v; }
  if (std::fabs(lon1) > 1e6 || std::fabs(azi1) > 1e6 || (arc ? std::fabs(len) > 1e4 : std::fabs(len) > 25 * 2 * M_PI * a)) { v.skip("beyond generated range"); return v; }
  // reversed azimuth, exactly representable: use azi1 on a lattice so azi1+180 is exact
  double az = std::round(azi1 * 1024) / 1024; if (std::fabs(az) > 1e5) az = std::remainder(az, 360.0);
  double azr = az + 180;
  Out o1 = lib_direct(cfg, a, f, lat1, lon1, az, arc, -len, false);
  Out o2 = lib_direct(cfg, a, f, lat1, lon1, azr, arc, len, false);
  ref::Ellipsoid E(a, f);
  L p1[3], p2[3], d1[3], d2[3];
  ref::to_cart(E, o1.lat2, o1.lon2, p1); ref::to_cart(E, o2.lat2, o2.lon2, p2);
  ref::dir_vec(o1.lat2, o1.lon2, o1.azi2, d1); ref::dir_vec(o2.lat2, o2.lon2, o2.azi2 + 180, d2);
  L circ = fabsl((L)o1.a12) / 90;
  L t = kdoc(cfg, a, f) * (1 + circ);
  v.nontrivial = len != 0;
  v.le(ref::dist3(p1, p2), t, "Direct(azi,-s) vs Direct(azi+180,s) end point [m]");
  v.le(ref::dist3(d1, d2) * E.a, 2 * t, "Direct(azi,-s) vs Direct(azi+180,s) direction [m-equivalent]");
  if (arc) v.le(fabsl((L)o1.s12 + (L)o2.s12), t, "s12 antisymmetry [m]");
  v.le(fabsl((L)o1.m12 + (L)o2.m12), 2 * t, "m12 antisymmetry [m]");
  return v;
}

vf::Reg r1({"C01.ode", "generated (ellipsoid, start, azimuth, length, config, arc/distance mode, unroll) vs the long-double geodesic ODE; non-trivial: length != 0, reference converged; distinct by record hash", 0.2,
            [] { return rc::gen::exec([] { return gen_case(true); }); }, check_ode, nullptr});
vf::Reg r2({"C01.cfg", "same input through all 8 solver/line configurations, pairwise agreement; non-trivial: length != 0", 0.4,
            [] { return rc::gen::exec([] { J r = gen_case(false); r["cfg"] = J::integer(0); return r; }); }, check_cfg, nullptr});
vf::Reg r3({"C01.rev", "negative length vs reversed azimuth; non-trivial: length != 0", 0.4,
            [] { return rc::gen::exec([] { return gen_case(false); }); }, check_rev, nullptr});

}  // namespace

VF_MAIN
