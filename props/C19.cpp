// C19 - harmonic sums, gravity and magnetic models, normal gravity (DESIGN 3/C19)
//
// Sub-checks, oracles, tolerances
//   C19.a  SphericalHarmonic/1/2 value + gradient vs R-SH (ref/sh_ref: 50-digit defining sum, analytic gradient)
//          tol: KV eps ((nmx+2) S1 + r Sg) / KG eps (nmx+2) Sg (+ the engine's underflow floor), S1 = sum |terms|
//   C19.b  library only: gradient vs difference quotient of the value, divergence of the gradient (loose)
//   C19.c  Circle(p,z)(lon) vs R-SH and vs direct evaluation, incl. gradient, polar circle, sin/cos interface
//   C19.d  limits (nmx,mmx) vs zeroed coefficients (value, gradient, circle)
//   C19.e  MagneticModel/MagneticCircle from synthetic .wmm/.wmm.cof vs -a grad of the time-combined R-SH potential,
//          ENU rotation, H F D I and rates from the definitions, Degree/Order, degree-0 term rejected
//   C19.f  GravityModel/GravityCircle from synthetic .egm/.egm.cof: V, W, U, T, delta, Gravity, Disturbance,
//          SphericalAnomaly, GeoidHeight vs R-SH and R-NG (ref/ng_ref: H+M closed form in 100 digits)
//   C19.g  NormalGravity vs R-NG: U0, V0/U/gradients, div Gamma, Somigliana, gamma_e/p, f*, J_n (projection), J2<->f
//
// MUTATION TABLE.  Scratch copy of /repo HEAD (src include tools) under /tmp/mutC19, one edit each, run with
// `VERIF_REPO=/tmp/mutC19/m python3 check.py C19 --tier quick`; "caught by" = sub-checks with confirmed violations.
//   SphericalEngine::Value FULL  Ax root[2n+3] -> root[2n+2]           caught by a b c d e f
//   SphericalEngine::Value FULL  B  root[2n+5] -> root[2n+4]           caught by a b c d e f
//   SphericalEngine::Value SCHMIDT Ax (2n+1) -> (2n+2)                 caught by a b c d e f
//   SphericalEngine::Value outer sum FULL root[2m+3] -> root[2m+2]     caught by a b c d e f
//   Value: pole guard fmax(p/r, eps()) removed                         caught by a c d e f   (NaN on the axis)
//   Value: qs = q/scale() -> 2 q/scale() (scaling mismatch)            caught by a c d e f
//   RootTable: sqrt table entry 37 wrong                               caught by a b c d e f
//   Value: radial derivative (n+1) R -> n R                            caught by a b c e f
//   Value: d/dlambda partial sum  m ws -> m wc                         caught by a b c e f
//   SphericalEngine::Circle SCHMIDT B constant                         caught by c e f
//   Circle: m tu ws term of the theta derivative dropped               caught by c e f
//   CircularEngine outer SCHMIDT root[2m+1] -> root[2m+3]              caught by c e f
//   CircularEngine partial sum vls sign                                caught by c e f
//   SphericalHarmonic1::Circle FULL -> SCHMIDT (value-only branch)     caught by c
//   coeff::Cv(k,n,m,f): n > nmx no longer masked                       caught by a b c d f
//   readcoeffs: skip after truncated C columns off by 8 bytes          caught by e f   (file rejected)
//   MagneticModel time index clamp nNmodels-1 -> nNmodels-2            caught by e
//   MagneticModel::Circle floor -> ceil                                caught by e
//   MagneticModel / MagneticCircle constant term dropped (2 mutants)   caught by e
//   MagneticModel ENU Unrotate outputs swapped                         caught by e
//   MagneticCircle Rotation(sphi,cphi) swapped                         caught by e
//   MagneticModel degree-0 check removed                               caught by e
//   FieldComponents D = atan2d(By,Bx)                                  caught by e
//   MagneticModel rate scaled by +a instead of -a                      caught by e
//   GravityModel zeta0 not divided by CorrectionMultiplier             caught by f
//   SphericalAnomaly 2T/R -> T/R                                       caught by f
//   GravityModel zonal amult not squared                               caught by f
//   GravityCircle::W centrifugal sign / GeoidHeight correction sign    caught by f
//   GravityModel::V  GZ sign                                           caught by f
//   NormalGravity atan7series 1/(2n+7) -> 1/(2n+8)                     caught by f g
//   atan7series: half the terms                                        caught by f g
//   Qf closed form (1+3/y) -> (1+2/y);  Qf series /6 -> /5             caught by g;  f g
//   Hf series (1+y) -> (1-y);  Hf closed form (1+1/y) -> (1+2/y)       caught by f g;  g
//   atanzz alt branch asinh -> atan (prolate)                          caught by f g
//   atanzz non-alt branch x < 0: atanh -> atan                         NOT caught: dead code (the class only calls it with x >= 0)
//   SurfaceGravity k sin^2 -> k |sin|                                  caught by f g
//   V0: gamb sign                                                      caught by f g
//   QH3f series /10 -> /11 (Newton derivative in J2ToFlattening)       caught by f g   (flattening off by ~1e-14)
//   Jn (2n+3) -> (2n+2)                                                caught by f g
//   seeded/fix-reverts F38 (T invR), F39 (Schmidt zonal), F40 (Jn sphere)   caught by f; f; f g
// 42 of 43 edits and 3 of 3 fix-reverts caught; the survivor is an equivalent mutant.
#include "fw/harness.hpp"
#include "gen/c19_synth.hpp"
#include "gen/geo.hpp"
#include "ref/sh_ref.hpp"
#include "ref/ng_ref.hpp"

#include <GeographicLib/CircularEngine.hpp>
#include <GeographicLib/Geocentric.hpp>
#include <GeographicLib/GravityCircle.hpp>
#include <GeographicLib/GravityModel.hpp>
#include <GeographicLib/MagneticCircle.hpp>
#include <GeographicLib/MagneticModel.hpp>
#include <GeographicLib/NormalGravity.hpp>
#include <GeographicLib/SphericalHarmonic.hpp>
#include <GeographicLib/SphericalHarmonic1.hpp>
#include <GeographicLib/SphericalHarmonic2.hpp>

#include <memory>

using namespace GeographicLib;
using vf::J; using vf::Verdict;
using namespace c19;
namespace sh = ref::sh;
namespace ng = ref::ng;

namespace {

// ------------------------------------------------------------------------------------------------
// Tolerances (BUILDING "Tolerances": no accuracy figure is documented for the harmonic sums, so a
// round-off law calibrated on the unchanged tree, frozen at >= 4x the maximum seen over 6 seeds of the
// quick tier and one thorough run).
//   value    : KV * eps * (G(nmx) * S1 + r Sg),  S1 = sum over the terms of |q^(n+1) P_nm| (|C| + |S|)  ("sum |terms|")
//   gradient : KG * eps * G(nmx) * Sg,           Sg = the same sum with |grad of the term|;  G(n) = (n+2)(1 + (n+2)/32)
// Observed maxima (6 quick seeds, one thorough run): value 4 eps (G S1 + r Sg), gradient 8 eps G Sg.
const L KV = 24, KG = 32;
// Underflow floor.  SphericalEngine multiplies the coefficients by scale() = 2^-614 ("to guard against overflow
// when N is large") and divides the result by it, so intermediate quantities below the denormal range are lost
// although the final value would be representable: a term smaller than ~1e-138 times q is flushed to zero (this
// only shows for high orders m next to the polar axis, where P_nm ~ u^m).  That is an absolute error far below
// anything a coefficient set can resolve and is not treated as a defect; the floor is 64 (nmx+2) denorm_min/scale
// times max(q,1), for the gradient additionally (nmx+2)/(r max(u, eps^1.5)) (the spherical components are divided
// by u inside the engine).
inline L floorV(int nmx, L q) { return 64 * (nmx + 2) * 4.9406564584124654e-324L * 6.7989433059769e184L * std::max<L>(q, 1) ; }
inline L floorG(int nmx, L q, L r, L u) { return floorV(nmx, q) * (nmx + 2) / (r * std::max<L>(u, 3.3e-24L)); }
struct Tol { L v, g; };
inline Tol tol_of(const sh::Out& o, int nmx, double a, double x, double y, double z) {
  L p = hypotl(x, y), r = hypotl(p, z), q = a / r, u = p / r;
  // value: round-off of the summation (n eps sum|terms|) plus the conditioning with respect to the computed
  // direction cosines and q (an ulp of t = z/r moves the value by eps r |grad|; this is what is left when a
  // single term is evaluated next to a zero of P_nm, where sum|terms| itself vanishes)
  // growth with the degree: linear for the bulk, but next to the poles the three-term recurrences behind the zonal
  // and low-order terms amplify round-off like n^2 (seen on the unchanged tree: 23 eps (n+2) Sg at n = 60 and
  // 91 eps (n+2) Sg at n = 360, always a zonal term within 0.01 deg of the axis): (n+2) (1 + (n+2)/32)
  L nn = nmx + 2, growth = nn * (1 + nn / 32);
  Tol t; t.v = KV * EPS * (growth * o.S1 + r * o.Sg) + floorV(nmx, q); t.g = KG * EPS * growth * o.Sg + floorG(nmx, q, r, u);
  return t;
}

struct HarmCase {
  int norm, L_, N, nmx, mmx, kind, n0, m0, cs;
  double a, decay, amp; uint64_t seed;
  int N1, nmx1, mmx1, N2, nmx2, mmx2; double tau1, tau2;
  double x, y, z;
  CS c0, c1, c2;
  bool valid = false; std::string why;
};

J gen_harm(int maxN) {
  J r = J::obj();
  int norm = (int)vf::g::irange(0, 1);
  int Lc = vf::g::wpick({50, 25, 25}) + 1;
  int N;
  switch (vf::g::wpick({25, 35, 30, 10})) {
    case 0: N = (int)vf::g::irange(0, 4); break;
    case 1: N = (int)vf::g::irange(5, 20); break;
    case 2: N = (int)vf::g::irange(21, maxN); break;
    default: N = maxN;
  }
  int nmx = vf::g::coin(1, 2) ? N : (int)vf::g::irange(0, N);
  int mmx = vf::g::coin(1, 2) ? nmx : (int)vf::g::irange(0, nmx);
  if (vf::g::coin(1, 60)) { nmx = -1; mmx = -1; }
  int kind = vf::g::wpick({20, 30, 15, 35});
  r["norm"] = J::integer(norm); r["L"] = J::integer(Lc);
  r["N"] = J::integer(N); r["nmx"] = J::integer(nmx); r["mmx"] = J::integer(mmx);
  r["kind"] = J::integer(kind);
  r["decay"] = J::num(vf::g::uni(0.5, 4));
  r["seed"] = J::integer(vf::g::irange(1, 1000000000));
  r["amp"] = J::num(vf::g::coin(2, 3) ? 1.0 : vf::g::loguni(1e-20, 1e20));
  int n0 = nmx >= 0 ? (int)vf::g::irange(0, nmx) : 0;
  if (nmx >= 2 && vf::g::coin(1, 4)) n0 = nmx;
  int m0 = 0;
  if (nmx >= 0) switch (vf::g::wpick({25, 40, 20, 15})) {
    case 0: m0 = 0; break;
    case 1: m0 = (int)vf::g::irange(0, std::min(n0, std::max(mmx, 0))); break;
    case 2: m0 = std::min(n0, std::max(mmx, 0)); break;
    default: m0 = std::min(1, std::min(n0, std::max(mmx, 0)));
  }
  r["n0"] = J::integer(n0); r["m0"] = J::integer(m0); r["cs"] = J::integer(vf::g::irange(0, 1));
  double a = vf::g::coin(1, 2) ? 6378137.0 : vf::g::loguni(1e-3, 1e9);
  r["a"] = J::num(a);
  // secondary components
  int N1 = (int)vf::g::irange(-1, N), nmx1 = std::min(nmx, (int)vf::g::irange(-1, N1)), mmx1 = std::min(mmx, (int)vf::g::irange(-1, nmx1));
  if (nmx1 < 0 || mmx1 < 0) nmx1 = mmx1 = -1;
  int N2 = (int)vf::g::irange(-1, N), nmx2 = std::min(nmx, (int)vf::g::irange(-1, N2)), mmx2 = std::min(mmx, (int)vf::g::irange(-1, nmx2));
  if (nmx2 < 0 || mmx2 < 0) nmx2 = mmx2 = -1;
  if (vf::g::coin(1, 3)) { N1 = N; nmx1 = nmx; mmx1 = mmx; }
  r["N1"] = J::integer(N1); r["nmx1"] = J::integer(nmx1); r["mmx1"] = J::integer(mmx1);
  r["N2"] = J::integer(N2); r["nmx2"] = J::integer(nmx2); r["mmx2"] = J::integer(mmx2);
  r["tau1"] = J::num(vf::g::coin(1, 5) ? (double)vf::g::irange(-2, 2) : vf::g::sgn() * vf::g::loguni(1e-3, 1e2));
  r["tau2"] = J::num(vf::g::coin(1, 5) ? (double)vf::g::irange(-2, 2) : vf::g::sgn() * vf::g::loguni(1e-3, 1e2));
  // point
  double rr = a * (vf::g::wpick({25, 50, 25}) == 0 ? vf::g::uni(0.3, 1.0) : (vf::g::coin(2, 3) ? vf::g::uni(1.0, 3.0) : vf::g::loguni(3.0, 100.0)));
  double x, y, z;
  double lam = vf::g::uni(-M_PI, M_PI);
  switch (vf::g::wpick({40, 14, 14, 10, 12, 10})) {
    case 0: { double ct = vf::g::uni(-1, 1), st = std::sqrt(1 - ct * ct); x = rr * st * std::cos(lam); y = rr * st * std::sin(lam); z = rr * ct; break; }
    case 1: x = 0; y = 0; z = vf::g::sgn() * rr; break;                                   // polar axis
    case 2: { double p = rr * std::pow(10.0, -vf::g::uni(3, 30)); x = p * std::cos(lam); y = p * std::sin(lam); z = vf::g::sgn() * rr; break; }   // near the axis
    case 3: x = rr * std::cos(lam); y = rr * std::sin(lam); z = 0; break;                 // equator
    case 4: { double ct = vf::g::uni(-1, 1), st = std::sqrt(1 - ct * ct);                 // coordinate planes, negative coordinates
              if (vf::g::coin()) { x = -rr * st; y = 0; } else { x = 0; y = vf::g::sgn() * rr * st; } z = rr * ct; break; }
    default: { double ct = vf::g::sgn() * (1 - vf::g::loguni(1e-12, 1e-2)), st = std::sqrt(1 - ct * ct);   // high latitude
               x = rr * st * std::cos(lam); y = rr * st * std::sin(lam); z = rr * ct; }
  }
  r["x"] = J::num(x); r["y"] = J::num(y); r["z"] = J::num(z);
  return r;
}

HarmCase parse_harm(const J& r, int maxN) {
  HarmCase h;
  h.norm = (int)r.geti("norm"); h.L_ = (int)r.geti("L"); h.N = (int)r.geti("N"); h.nmx = (int)r.geti("nmx"); h.mmx = (int)r.geti("mmx");
  h.kind = (int)r.geti("kind"); h.n0 = (int)r.geti("n0"); h.m0 = (int)r.geti("m0"); h.cs = (int)r.geti("cs");
  h.a = r.getd("a"); h.decay = r.getd("decay"); h.amp = r.getd("amp"); h.seed = (uint64_t)r.geti("seed");
  h.N1 = (int)r.geti("N1"); h.nmx1 = (int)r.geti("nmx1"); h.mmx1 = (int)r.geti("mmx1");
  h.N2 = (int)r.geti("N2"); h.nmx2 = (int)r.geti("nmx2"); h.mmx2 = (int)r.geti("mmx2");
  h.tau1 = r.getd("tau1"); h.tau2 = r.getd("tau2");
  h.x = r.getd("x"); h.y = r.getd("y"); h.z = r.getd("z");
  auto bad = [&](const char* w) { h.why = w; return h; };
  if (h.norm < 0 || h.norm > 1 || h.L_ < 1 || h.L_ > 3) return bad("bad form");
  if (h.N < 0 || h.N > maxN) return bad("degree beyond generated range");
  if (!((h.nmx >= h.mmx && h.mmx >= 0 && h.N >= h.nmx) || (h.nmx == -1 && h.mmx == -1))) return bad("N >= nmx >= mmx >= 0 violated");
  auto okc = [&](int N1, int n1, int m1) { return N1 >= -1 && N1 <= h.N && ((N1 >= n1 && n1 >= m1 && m1 >= 0) || (n1 == -1 && m1 == -1)) && n1 <= h.nmx && m1 <= h.mmx; };
  if (h.L_ >= 2 && !okc(h.N1, h.nmx1, h.mmx1)) return bad("secondary limits violated");
  if (h.L_ >= 3 && !okc(h.N2, h.nmx2, h.mmx2)) return bad("secondary limits violated");
  if (h.kind < 0 || h.kind > 3) return bad("bad kind");
  if (!(h.a > 0) || !std::isfinite(h.a) || h.a < 1e-6 || h.a > 1e12) return bad("radius beyond generated range");
  if (!(h.amp >= 1e-25 && h.amp <= 1e25) || !(h.decay >= 0 && h.decay <= 8)) return bad("amplitude beyond generated range");
  if (!std::isfinite(h.tau1) || !std::isfinite(h.tau2) || std::fabs(h.tau1) > 1e4 || std::fabs(h.tau2) > 1e4) return bad("tau beyond generated range");
  if (!std::isfinite(h.x) || !std::isfinite(h.y) || !std::isfinite(h.z)) return bad("non-finite point");
  double rr = std::sqrt(h.x * h.x + h.y * h.y + h.z * h.z);
  if (!(rr >= 0.25 * h.a && rr <= 120 * h.a)) return bad("radius outside 0.25a..120a");
  // column count of the stored arrays: exactly what the limits need (N columns when the full constructor is used)
  int M0 = (h.nmx == h.N && h.mmx == h.N) ? h.N : std::max(h.mmx, 0);
  h.c0 = make_coeffs(h.N, M0, h.kind, h.decay, h.seed, h.amp, h.n0, h.m0, h.cs);
  if (h.L_ >= 2) h.c1 = make_coeffs(h.N1, std::max(h.mmx1, h.N1 >= 0 ? 0 : -1), h.seed % 3 == 0 ? 1 : 0, 1.5, h.seed + 17, h.amp, 0, 0, 0);
  if (h.L_ >= 3) h.c2 = make_coeffs(h.N2, std::max(h.mmx2, h.N2 >= 0 ? 0 : -1), h.seed % 5 == 0 ? 2 : 0, 1.5, h.seed + 31, h.amp, 0, 0, 0);
  h.valid = true;
  return h;
}

// the three library forms behind one interface
struct LibHarm {
  std::unique_ptr<SphericalHarmonic> h0; std::unique_ptr<SphericalHarmonic1> h1; std::unique_ptr<SphericalHarmonic2> h2;
  double t1 = 0, t2 = 0; int L_ = 1;
  double val(double x, double y, double z) const {
    return L_ == 1 ? (*h0)(x, y, z) : L_ == 2 ? (*h1)(t1, x, y, z) : (*h2)(t1, t2, x, y, z);
  }
  double grad(double x, double y, double z, double& gx, double& gy, double& gz) const {
    return L_ == 1 ? (*h0)(x, y, z, gx, gy, gz) : L_ == 2 ? (*h1)(t1, x, y, z, gx, gy, gz) : (*h2)(t1, t2, x, y, z, gx, gy, gz);
  }
  CircularEngine circle(double p, double z, bool gradp) const {
    return L_ == 1 ? h0->Circle(p, z, gradp) : L_ == 2 ? h1->Circle(t1, p, z, gradp) : h2->Circle(t1, t2, p, z, gradp);
  }
};

LibHarm make_lib(const HarmCase& h, const CS& c0, int nmx, int mmx, bool allow_full_ctor) {
  LibHarm o; o.L_ = h.L_; o.t1 = h.tau1; o.t2 = h.tau2;
  unsigned nrm = h.norm == 0 ? (unsigned)SphericalHarmonic::FULL : (unsigned)SphericalHarmonic::SCHMIDT;
  bool full = allow_full_ctor && nmx == c0.N && mmx == c0.N && c0.M == c0.N;
  if (h.L_ == 1) {
    o.h0.reset(full ? new SphericalHarmonic(c0.C, c0.S, c0.N, h.a, nrm) : new SphericalHarmonic(c0.C, c0.S, c0.N, nmx, mmx, h.a, nrm));
  } else if (h.L_ == 2) {
    bool full1 = full && h.nmx1 == h.c1.N && h.mmx1 == h.c1.N && h.c1.M == h.c1.N;
    o.h1.reset(full1 ? new SphericalHarmonic1(c0.C, c0.S, c0.N, h.c1.C, h.c1.S, h.c1.N, h.a, nrm)
                     : new SphericalHarmonic1(c0.C, c0.S, c0.N, nmx, mmx, h.c1.C, h.c1.S, h.c1.N, h.nmx1, h.mmx1, h.a, nrm));
  } else {
    o.h2.reset(new SphericalHarmonic2(c0.C, c0.S, c0.N, nmx, mmx, h.c1.C, h.c1.S, h.c1.N, h.nmx1, h.mmx1,
                                      h.c2.C, h.c2.S, h.c2.N, h.nmx2, h.mmx2, h.a, nrm));
  }
  return o;
}

std::vector<sh::Comp> comps_of(const HarmCase& h, const CS& c0, int nmx, int mmx) {
  std::vector<sh::Comp> v;
  v.push_back(comp_of(c0, nmx, mmx, 1));
  if (h.L_ >= 2) v.push_back(comp_of(h.c1, std::min(h.nmx1, nmx), std::min(h.mmx1, mmx), h.tau1));
  if (h.L_ >= 3) v.push_back(comp_of(h.c2, std::min(h.nmx2, nmx), std::min(h.mmx2, mmx), h.tau2));
  return v;
}

bool has_deg2(const HarmCase& h) {
  for (int m = 0; m <= std::min(h.mmx, h.c0.M); ++m)
    for (int n = std::max(2, m); n <= h.nmx; ++n) if (h.c0.cget(n, m) != 0 || h.c0.sget(n, m) != 0) return true;
  return false;
}

void tag_harm(Verdict& v, const HarmCase& h) {
  v.tag(h.norm == 0 ? "FULL" : "SCHMIDT");
  v.tag("L" + std::to_string(h.L_));
  static const char* kn[] = {"coef-uniform", "coef-powerlaw", "coef-sparse", "coef-single-term"};
  v.tag(kn[h.kind]);
  v.tag(h.nmx < 0 ? "N=-1" : h.nmx <= 4 ? "N<=4" : h.nmx <= 20 ? "N<=20" : h.nmx <= 60 ? "N<=60" : "N>60");
  if (h.nmx >= 0 && (h.nmx < h.N || h.mmx < h.nmx)) v.tag("truncated");
  double p = std::hypot(h.x, h.y), rr = std::hypot(p, h.z);
  v.tag(p == 0 ? "axis" : p < 1e-3 * rr ? "near-axis" : h.z == 0 ? "equator" : "off-axis");
  v.tag(rr < h.a ? "r<a" : rr > 3 * h.a ? "r>3a" : "a<=r<=3a");
  if (h.x < 0 || h.y < 0 || h.z < 0) v.tag("negative-coordinate");
}

const int MAXN_GEN = 60, MAXN_ALL = 360;

// ------------------------------------------------------------------------------------------------
// C19.a: value and gradient against the defining sum
Verdict check_a(const J& r) {
  Verdict v;
  HarmCase h = parse_harm(r, MAXN_ALL);
  if (!h.valid) { v.skip(h.why); return v; }
  LibHarm lib = make_lib(h, h.c0, h.nmx, h.mmx, true);
  double gx = 0, gy = 0, gz = 0;
  double V1 = lib.val(h.x, h.y, h.z);
  double V2 = lib.grad(h.x, h.y, h.z, gx, gy, gz);
  sh::Out o = sh::eval((sh::Norm)h.norm, comps_of(h, h.c0, h.nmx, h.mmx), h.nmx, h.mmx, h.a, h.x, h.y, h.z, true);
  if (!o.ok) { v.skip("oracle self-check (Laplace residual) failed"); return v; }
  if (!std::isfinite((double)o.S1) || !std::isfinite((double)o.Sg) || o.Sg > 1e290L) { v.skip("sum of |terms| overflows double"); return v; }
  tag_harm(v, h);
  v.nontrivial = has_deg2(h) && std::hypot(h.x, h.y) != 0;
  if (has_deg2(h) && std::hypot(h.x, h.y) == 0) v.tag("axis-with-degree>=2");
  Tol tl = tol_of(o, h.nmx, h.a, h.x, h.y, h.z);
  L tolV = tl.v, tolG = tl.g;
  v.le(fabsl((L)V1 - o.V), tolV, "value (no gradient requested) vs defining sum");
  v.le(fabsl((L)V2 - o.V), tolV, "value (with gradient) vs defining sum");
  v.le(norm3((L)gx - o.g[0], (L)gy - o.g[1], (L)gz - o.g[2]), tolG, "gradient vs derivative of the defining sum");
  return v;
}

// ------------------------------------------------------------------------------------------------
// C19.b: metamorphic, library only: returned gradient = numerical derivative of the returned value,
// divergence of the returned gradient ~ 0 (Laplace) - scales from the reference
Verdict check_b(const J& r) {
  Verdict v;
  HarmCase h = parse_harm(r, MAXN_GEN);
  if (!h.valid) { v.skip(h.why); return v; }
  if (h.nmx < 0) { v.skip("empty sum"); return v; }
  LibHarm lib = make_lib(h, h.c0, h.nmx, h.mmx, true);
  sh::Out o = sh::eval((sh::Norm)h.norm, comps_of(h, h.c0, h.nmx, h.mmx), h.nmx, h.mmx, h.a, h.x, h.y, h.z, false);
  if (!std::isfinite((double)o.S1) || !std::isfinite((double)o.Sg) || o.Sg > 1e280L) { v.skip("sum of |terms| overflows double"); return v; }
  tag_harm(v, h);
  v.nontrivial = has_deg2(h) && std::hypot(h.x, h.y) != 0;
  L rr = norm3(h.x, h.y, h.z);
  int n2 = h.nmx + 2;
  L uu = hypotl(h.x, h.y) / rr;
  // next to the axis the terms of order m vary on the length r u / m: a difference quotient of the double
  // values says nothing there (C19.a covers the axis with the analytic reference)
  if (uu < 0.01L) { v.skip("difference quotient ill-conditioned within 0.6 deg of the axis"); return v; }
  // step: balances truncation (h n/(r u))^2 against round-off eps/(h n/(r u))
  L hs = rr * uu * 6e-6L / n2;
  double gx, gy, gz; lib.grad(h.x, h.y, h.z, gx, gy, gz);
  double g0[3] = {gx, gy, gz};
  L div = 0, worst = 0;
  for (int i = 0; i < 3; ++i) {
    double p[3] = {h.x, h.y, h.z}, m[3] = {h.x, h.y, h.z};
    p[i] = (double)((L)p[i] + hs); m[i] = (double)((L)m[i] - hs);
    L dh = (L)p[i] - (L)m[i];
    double gp[3], gm[3];
    double Vp = lib.grad(p[0], p[1], p[2], gp[0], gp[1], gp[2]);
    double Vm = lib.grad(m[0], m[1], m[2], gm[0], gm[1], gm[2]);
    L num = ((L)Vp - (L)Vm) / dh;
    worst = std::max(worst, fabsl(num - g0[i]));
    div += ((L)gp[i] - (L)gm[i]) / dh;
  }
  // round-off of the difference quotient: KV eps n S1 / h each side; truncation: h^2/6 |V'''| <= h^2 (n/r)^2 Sg
  L q = hs * n2 / (rr * uu);
  Tol tl = tol_of(o, h.nmx, h.a, h.x, h.y, h.z);
  L tolD = 4 * tl.v / hs + 4 * q * q * o.Sg + 2 * tl.g;
  v.le(worst, tolD, "returned gradient vs central difference of the returned value");
  L tolL = 3 * (4 * tl.g / hs + 4 * q * q * o.Sg * n2 / (rr * uu));
  v.le(fabsl(div), tolL, "divergence of the returned gradient (Laplace equation)");
  return v;
}

// ------------------------------------------------------------------------------------------------
// C19.c: Circle(p, z)(lon) == direct evaluation
J gen_c() {
  J r = gen_harm(MAXN_GEN);
  J lons = J::arr();
  for (int i = 0; i < 3; ++i) {
    double lon;
    switch (vf::g::wpick({50, 30, 20})) {
      case 0: lon = vf::g::uni(-180, 180); break;
      case 1: lon = 90.0 * (double)vf::g::irange(-4, 4); break;
      default: lon = vf::g::uni(-720, 720);
    }
    lons.push(J::num(lon));
  }
  r["lons"] = lons;
  r["gradp"] = J::integer(vf::g::coin(3, 4));
  return r;
}

Verdict check_c(const J& r) {
  Verdict v;
  HarmCase h = parse_harm(r, MAXN_GEN);
  if (!h.valid) { v.skip(h.why); return v; }
  if (!r.has("lons") || r.at("lons").t != J::ARR) { v.skip("no longitudes"); return v; }
  bool gradp = r.geti("gradp") != 0;
  LibHarm lib = make_lib(h, h.c0, h.nmx, h.mmx, true);
  double p = std::hypot(h.x, h.y), z = h.z;
  CircularEngine circ = lib.circle(p, z, gradp);
  tag_harm(v, h);
  v.tag(gradp ? "circle-with-gradient" : "circle-value-only");
  if (p == 0) v.tag("polar-circle");
  v.nontrivial = has_deg2(h);
  L rr = hypotl(p, z);
  for (const J& jl : r.at("lons").a) {
    double lon = jl.asd();
    if (!std::isfinite(lon) || std::fabs(lon) > 1e6) { v.skip("longitude beyond generated range"); return v; }
    L sl, cl; sincosd(lon, sl, cl);
    double x = (double)(p * cl), y = (double)(p * sl);
    sh::Out o = sh::eval((sh::Norm)h.norm, comps_of(h, h.c0, h.nmx, h.mmx), h.nmx, h.mmx, h.a, x, y, z, gradp);
    if (!o.ok) { v.skip("oracle self-check (Laplace residual) failed"); return v; }
    if (!std::isfinite((double)o.S1) || !std::isfinite((double)o.Sg) || o.Sg > 1e290L) { v.skip("sum of |terms| overflows double"); return v; }
    // the point (x, y) handed to the oracle and to the direct evaluation is rounded: 2 eps r |grad|
    Tol tl = tol_of(o, h.nmx, h.a, x, y, z);
    L tolV = tl.v + 4 * EPS * rr * o.Sg;
    L tolG = tl.g * 2;
    double cgx = 0, cgy = 0, cgz = 0;
    double Vc1 = circ(lon);
    double Vc2 = gradp ? circ(lon, cgx, cgy, cgz) : Vc1;
    v.le(fabsl((L)Vc1 - o.V), tolV, "Circle(lon) value vs defining sum");
    v.le(fabsl((L)Vc2 - o.V), tolV, "Circle(lon, grad) value vs defining sum");
    double dgx = 0, dgy = 0, dgz = 0;
    double Vd = lib.grad(x, y, z, dgx, dgy, dgz);
    v.le(fabsl((L)Vc1 - (L)Vd), 2 * tolV, "Circle(lon) value vs direct evaluation");
    if (gradp) {
      v.le(norm3((L)cgx - o.g[0], (L)cgy - o.g[1], (L)cgz - o.g[2]), tolG, "Circle(lon) gradient vs derivative of the defining sum");
      v.le(norm3((L)cgx - dgx, (L)cgy - dgy, (L)cgz - dgz), 2 * tolG, "Circle(lon) gradient vs direct evaluation");
    }
    // sin/cos interface
    double s = (double)sl, c = (double)cl;
    double Vs = circ(s, c);
    v.le(fabsl((L)Vs - o.V), tolV, "Circle(sinlon, coslon) value vs defining sum");
  }
  return v;
}

// ------------------------------------------------------------------------------------------------
// C19.d: truncation (nmx, mmx) == coefficient set with the higher terms zeroed
Verdict check_d(const J& r) {
  Verdict v;
  HarmCase h = parse_harm(r, MAXN_GEN);
  if (!h.valid) { v.skip(h.why); return v; }
  if (h.nmx < 0) { v.skip("empty sum"); return v; }
  // full-size copies with the terms beyond the limits set to zero
  HarmCase z = h;
  auto zeroed = [&](const CS& c, int nmx, int mmx) {
    CS o; o.init(c.N, c.N);
    for (int m = 0; m <= c.N; ++m) for (int n = m; n <= c.N; ++n) {
      bool keep = n <= nmx && m <= mmx;
      o.c(n, m) = keep ? c.cget(n, m) : 0.0;
      if (m > 0) o.s(n, m) = keep ? c.sget(n, m) : 0.0;
    }
    return o;
  };
  // stored arrays of the truncated object: all columns present, so that the truncation is what hides the terms
  CS big = make_coeffs(h.N, h.N, h.kind == 3 ? 0 : h.kind, h.decay, h.seed, h.amp, 0, 0, 0);
  if (h.kind == 3) { if (h.cs && h.m0 > 0) big.s(std::min(h.n0, h.N), std::min(h.m0, std::min(h.n0, h.N))) += h.amp * 3; else big.c(std::min(h.n0, h.N), std::min(h.m0, std::min(h.n0, h.N))) += h.amp * 3; }
  if (h.L_ >= 2 && h.N1 >= 0) h.c1 = make_coeffs(h.N1, h.N1, 0, 1.5, h.seed + 17, h.amp, 0, 0, 0);
  if (h.L_ >= 3 && h.N2 >= 0) h.c2 = make_coeffs(h.N2, h.N2, 0, 1.5, h.seed + 31, h.amp, 0, 0, 0);
  z = h;
  CS zb = zeroed(big, h.nmx, h.mmx);
  if (h.L_ >= 2) { z.c1 = zeroed(h.c1, h.nmx1, h.mmx1); z.nmx1 = z.c1.N; z.mmx1 = z.c1.N; }
  if (h.L_ >= 3) { z.c2 = zeroed(h.c2, h.nmx2, h.mmx2); z.nmx2 = z.c2.N; z.mmx2 = z.c2.N; }
  // the zeroed object sums everything (limits N, N); the secondary limits must still not exceed the primary ones
  if (h.L_ >= 2 && z.c1.N < 0) { z.nmx1 = z.mmx1 = -1; }
  if (h.L_ >= 3 && z.c2.N < 0) { z.nmx2 = z.mmx2 = -1; }
  LibHarm A = make_lib(h, big, h.nmx, h.mmx, false);
  LibHarm B = make_lib(z, zb, h.N, h.N, true);
  double ga[3], gb[3];
  double Va = A.grad(h.x, h.y, h.z, ga[0], ga[1], ga[2]), Vb = B.grad(h.x, h.y, h.z, gb[0], gb[1], gb[2]);
  double Va0 = A.val(h.x, h.y, h.z), Vb0 = B.val(h.x, h.y, h.z);
  sh::Out o = sh::eval((sh::Norm)h.norm, comps_of(z, zb, h.N, h.N), h.N, h.N, h.a, h.x, h.y, h.z, false);
  if (!std::isfinite((double)o.S1) || !std::isfinite((double)o.Sg) || o.Sg > 1e290L) { v.skip("sum of |terms| overflows double"); return v; }
  tag_harm(v, h);
  bool hidden = false;
  for (int m = 0; m <= h.N && !hidden; ++m) for (int n = m; n <= h.N; ++n) if ((n > h.nmx || m > h.mmx) && (big.cget(n, m) != 0 || big.sget(n, m) != 0)) { hidden = true; break; }
  v.tag(hidden ? "terms-hidden-by-truncation" : "nothing-hidden");
  v.nontrivial = hidden;
  Tol tl = tol_of(o, h.N, h.a, h.x, h.y, h.z);
  L tolV = tl.v, tolG = tl.g;
  v.le(fabsl((L)Va - (L)Vb), tolV, "truncated vs zeroed coefficients: value (with gradient)");
  v.le(fabsl((L)Va0 - (L)Vb0), tolV, "truncated vs zeroed coefficients: value");
  v.le(norm3((L)ga[0] - gb[0], (L)ga[1] - gb[1], (L)ga[2] - gb[2]), tolG, "truncated vs zeroed coefficients: gradient");
  v.le(fabsl((L)Vb - o.V), tolV, "zeroed coefficients vs defining sum");
  // circle with the same truncation
  double p = std::hypot(h.x, h.y);
  if (p > 0) {
    CircularEngine ca = A.circle(p, h.z, true), cb = B.circle(p, h.z, true);
    double s = h.y / p, c = h.x / p, g1[3], g2[3];
    double c1 = ca(s, c, g1[0], g1[1], g1[2]), c2 = cb(s, c, g2[0], g2[1], g2[2]);
    v.le(fabsl((L)c1 - (L)c2), tolV, "truncated vs zeroed coefficients: circle value");
    v.le(norm3((L)g1[0] - g2[0], (L)g1[1] - g2[1], (L)g1[2] - g2[2]), tolG, "truncated vs zeroed coefficients: circle gradient");
  }
  return v;
}

// stratified enumeration of high-degree cases (thorough tier only): N in 61..360
void enum_bigN(vf::EnumCtx& c) {
  if (!c.thorough) return;
  Rng g(c.seed * 1000003ULL + (uint64_t)c.shard * 7919ULL + 5);
  const int per = 320;   // ~0.1 s each
  for (int i = 0; i < per; ++i) {
    J r = J::obj();
    int N = 61 + (int)((uint64_t)(i * 16 + c.shard) * 299 / (uint64_t)(per * 16)) + g.below(2);
    if (N > 360) N = 360;
    if (i % 6 == 0) N = 360;
    int nmx = g.below(3) ? N : 61 + g.below(N - 60), mmx = g.below(3) ? nmx : g.below(nmx + 1);
    int kind = g.below(4);
    r["norm"] = J::integer(g.below(2)); r["L"] = J::integer(1 + (g.below(4) == 0));
    r["N"] = J::integer(N); r["nmx"] = J::integer(nmx); r["mmx"] = J::integer(mmx);
    r["kind"] = J::integer(kind); r["decay"] = J::num(0.5 + 3 * g.u01()); r["seed"] = J::integer((long long)(g.next() % 1000000000ULL) + 1);
    r["amp"] = J::num(1.0);
    int n0 = g.below(2) ? nmx : g.below(nmx + 1), m0 = g.below(3) == 0 ? 0 : g.below(std::min(n0, mmx) + 1);
    if (g.below(4) == 0) m0 = std::min(n0, mmx);
    r["n0"] = J::integer(n0); r["m0"] = J::integer(m0); r["cs"] = J::integer(g.below(2));
    double a = 6378137.0; r["a"] = J::num(a);
    int N1 = g.below(N + 1), nmx1 = std::min(nmx, g.below(N1 + 1)), mmx1 = std::min(mmx, g.below(nmx1 + 1));
    r["N1"] = J::integer(N1); r["nmx1"] = J::integer(nmx1); r["mmx1"] = J::integer(mmx1);
    r["N2"] = J::integer(-1); r["nmx2"] = J::integer(-1); r["mmx2"] = J::integer(-1);
    r["tau1"] = J::num(g.sym() * 3); r["tau2"] = J::num(0.0);
    double rr = a * (g.below(4) == 0 ? 0.3 + 0.7 * g.u01() : 1 + 2 * g.u01());
    double ct = g.below(5) == 0 ? (g.below(2) ? 1.0 : -1.0) : (g.below(4) == 0 ? 1 - 1e-9 * g.u01() : g.sym());
    double st = std::sqrt(std::max(0.0, 1 - ct * ct)), lam = g.sym() * M_PI;
    r["x"] = J::num(rr * st * std::cos(lam)); r["y"] = J::num(rr * st * std::sin(lam)); r["z"] = J::num(rr * ct);
    if (!c.emit(r)) return;
  }
}

vf::Reg ra({"C19.a", "SphericalHarmonic/1/2 value and gradient vs the defining sum in 50 digits (generated N<=60, enumerated 61..360 in the thorough tier; coefficient sets uniform/power-law/sparse/single-term, both normalisations, truncations, r in 0.3a..100a incl. axis); non-trivial: a non-zero coefficient of degree >= 2 inside the limits and the point off the axis (axis cases tagged)", 0.30,
            [] { return rc::gen::exec([] { return gen_harm(MAXN_GEN); }); }, check_a, enum_bigN});
J gen_b() {
  J r = gen_harm(MAXN_GEN);
  double x = r.getd("x"), y = r.getd("y"), z = r.getd("z"), p = std::hypot(x, y), rr = std::hypot(p, z);
  if (p < 0.0125 * rr) {      // the axis classes belong to C19.a; here: colatitude uniform in cos, at least 0.7 deg off the axis
    double ct = vf::g::uni(-0.9999, 0.9999), st = std::sqrt(1 - ct * ct), lam = vf::g::uni(-M_PI, M_PI);
    r["x"] = J::num(rr * st * std::cos(lam)); r["y"] = J::num(rr * st * std::sin(lam)); r["z"] = J::num(rr * ct);
  }
  if (r.geti("nmx") < 0) { r["nmx"] = J::integer(0); r["mmx"] = J::integer(0); r["nmx1"] = J::integer(-1); r["mmx1"] = J::integer(-1); r["nmx2"] = J::integer(-1); r["mmx2"] = J::integer(-1); }
  return r;
}
vf::Reg rb({"C19.b", "library only, points at least 0.6 deg off the axis: returned gradient vs central difference of the returned value, divergence of the returned gradient ~ 0; non-trivial as C19.a", 0.10,
            [] { return rc::gen::exec([] { return gen_b(); }); }, check_b, nullptr});
vf::Reg rc_({"C19.c", "Circle(p,z,gradp) at 3 longitudes (random, multiples of 90, beyond +-360) vs the defining sum and vs direct evaluation, incl. the polar circle p = 0; non-trivial: a non-zero coefficient of degree >= 2", 0.15,
             [] { return rc::gen::exec([] { return gen_c(); }); }, check_c, nullptr});
vf::Reg rd({"C19.d", "object built with limits (nmx, mmx) on full arrays vs object built from arrays with the terms beyond the limits zeroed (value, gradient, circle); non-trivial: the truncation hides at least one non-zero coefficient", 0.10,
            [] { return rc::gen::exec([] { return gen_harm(MAXN_GEN); }); }, check_d, nullptr});

}  // namespace

// =================================================================================================
// C19.e  MagneticModel / MagneticCircle from synthetic files
namespace {

const L KB = 32;   // field tolerance factor on eps (nmx+2) Sg a  (calibrated, see KV/KG)

struct MagCase {
  int norm = 1, ver = 2, nmodels = 1, nconst = 0, style = 0, trunc = 0, Nmax = -1, Mmax = -1, deg0 = 0;
  std::vector<int> Ns, Ms; uint64_t seed = 1;
  double amp = 1, a = 1, ea = 1, ef = 0, t0 = 2000, dt = 1, t = 2000, lat = 0, lon = 0, h = 0;
  bool valid = false; std::string why;
};

J gen_mag() {
  J r = J::obj();
  int nmodels = vf::g::wpick({35, 25, 20, 20}) + 1, nconst = vf::g::coin(1, 3);
  r["norm"] = J::integer(vf::g::coin(1, 3) ? 0 : 1);
  r["ver"] = J::integer(vf::g::coin(2, 3) ? 2 : 1);
  r["nmodels"] = J::integer(nmodels); r["nconst"] = J::integer(nconst);
  r["style"] = J::integer(vf::g::irange(0, 127));
  J Ns = J::arr(), Ms = J::arr();
  int nsets = nmodels + 1 + nconst;
  for (int i = 0; i < nsets; ++i) {
    int N = vf::g::coin(1, 12) ? -1 : (int)vf::g::irange(1, (i == nsets - 1 && nconst) ? 24 : 13);
    if (i == 0 && N < 1) N = 4;
    int M = N < 0 ? -1 : (vf::g::coin(2, 3) ? N : (int)vf::g::irange(0, N));
    Ns.push(J::integer(N)); Ms.push(J::integer(M));
  }
  r["Ns"] = Ns; r["Ms"] = Ms;
  r["seed"] = J::integer(vf::g::irange(1, 1000000000));
  r["amp"] = J::num(vf::g::coin(2, 3) ? 30000.0 : vf::g::loguni(1.0, 1e6));
  r["a"] = J::num(vf::g::coin(2, 3) ? 6371200.0 : vf::g::loguni(1e6, 1e7));
  if (vf::g::coin(2, 3)) { r["ea"] = J::num(6378137.0); r["ef"] = J::num(1 / 298.257223563); }
  else { r["ea"] = J::num(vf::g::uni(6.0e6, 6.6e6)); r["ef"] = J::num(vf::g::coin(1, 4) ? 0.0 : vf::g::uni(-0.01, 0.01)); }
  double t0 = vf::g::coin() ? (double)vf::g::irange(1900, 2030) : vf::g::uni(1900, 2030);
  double dt = vf::g::coin() ? vf::g::oneof<double>({1.0, 5.0, 2.5}) : vf::g::uni(0.5, 10);
  r["t0"] = J::num(t0); r["dt"] = J::num(dt);
  double tlast = t0 + (nmodels - 1) * dt, t;
  switch (vf::g::wpick({35, 20, 15, 20, 10})) {
    case 0: t = t0 + vf::g::uni(0, 1) * std::max(dt, tlast - t0); break;           // inside the epochs
    case 1: t = t0 + (double)vf::g::irange(0, nmodels - 1) * dt; break;            // exactly at an epoch
    case 2: t = t0 - vf::g::uni(0, 20); break;                                     // before the first epoch
    case 3: t = tlast + vf::g::uni(0, 20); break;                                  // extrapolation with the rate set
    default: t = t0 + vf::g::sgn() * vf::g::uni(20, 200);
  }
  r["t"] = J::num(t);
  r["lat"] = J::num(gg::latitude());
  r["lon"] = J::num(vf::g::coin(3, 4) ? vf::g::uni(-180, 180) : (vf::g::coin() ? 90.0 * (double)vf::g::irange(-4, 4) : vf::g::uni(-720, 720)));
  r["h"] = J::num(vf::g::wpick({20, 50, 20, 10}) == 0 ? 0.0 : (vf::g::coin(2, 3) ? vf::g::uni(-1e4, 1e6) : (vf::g::coin() ? vf::g::uni(-3e6, 0) : vf::g::loguni(1e6, 3e8))));
  int trunc = vf::g::wpick({55, 15, 20, 10});
  r["trunc"] = J::integer(trunc);
  int Nmax = (int)vf::g::irange(0, 14), Mmax = (int)vf::g::irange(0, Nmax);
  r["Nmax"] = J::integer(trunc == 3 ? -1 : Nmax); r["Mmax"] = J::integer(trunc == 1 ? -1 : Mmax);
  r["deg0"] = J::integer(vf::g::coin(1, 25));
  return r;
}

MagCase parse_mag(const J& r) {
  MagCase m;
  auto bad = [&](const char* w) { m.why = w; return m; };
  m.norm = (int)r.geti("norm"); m.ver = (int)r.geti("ver"); m.nmodels = (int)r.geti("nmodels"); m.nconst = (int)r.geti("nconst");
  m.style = (int)r.geti("style"); m.trunc = (int)r.geti("trunc"); m.Nmax = (int)r.geti("Nmax"); m.Mmax = (int)r.geti("Mmax"); m.deg0 = (int)r.geti("deg0");
  m.seed = (uint64_t)r.geti("seed"); m.amp = r.getd("amp"); m.a = r.getd("a"); m.ea = r.getd("ea"); m.ef = r.getd("ef");
  m.t0 = r.getd("t0"); m.dt = r.getd("dt"); m.t = r.getd("t"); m.lat = r.getd("lat"); m.lon = r.getd("lon"); m.h = r.getd("h");
  if (m.norm < 0 || m.norm > 1 || (m.ver != 1 && m.ver != 2) || m.nmodels < 1 || m.nmodels > 6 || m.nconst < 0 || m.nconst > 1 || m.style < 0 || m.style > 127) return bad("bad header fields");
  if (!r.has("Ns") || !r.has("Ms") || r.at("Ns").t != J::ARR || r.at("Ms").t != J::ARR) return bad("no degree lists");
  size_t ns = (size_t)(m.nmodels + 1 + m.nconst);
  if (r.at("Ns").a.size() != ns || r.at("Ms").a.size() != ns) return bad("degree lists of the wrong length");
  for (size_t i = 0; i < ns; ++i) {
    int N = (int)r.at("Ns").a[i].asd(), M = (int)r.at("Ms").a[i].asd();
    if (!((N >= M && M >= 0 && N <= 40) || (N == -1 && M == -1))) return bad("N >= M >= 0 violated");
    m.Ns.push_back(N); m.Ms.push_back(M);
  }
  if (!(m.amp >= 1e-3 && m.amp <= 1e9) || !(m.a >= 1e5 && m.a <= 1e8) || !(m.ea >= 1e5 && m.ea <= 1e8) || !(std::fabs(m.ef) <= 0.02)) return bad("scales beyond generated range");
  if (!(m.t0 > 0 && m.t0 < 1e4) || !(m.dt >= 0.01 && m.dt <= 100) || !std::isfinite(m.t) || std::fabs(m.t - m.t0) > 1e3) return bad("times beyond generated range");
  if (!(std::fabs(m.lat) <= 90) || !std::isfinite(m.lon) || std::fabs(m.lon) > 1e5 || !std::isfinite(m.h)) return bad("outside documented domain");
  if (m.trunc < 0 || m.trunc > 3) return bad("bad truncation mode");
  if (m.trunc == 0) { m.Nmax = m.Mmax = -1; }
  if (m.trunc == 1) { if (m.Nmax < 0) return bad("bad truncation"); m.Mmax = -1; }
  if (m.trunc == 2 && !(m.Nmax >= m.Mmax && m.Mmax >= 0)) return bad("Mmax > Nmax");
  if (m.trunc == 3) { if (m.Mmax < 0) return bad("bad truncation"); m.Nmax = -1; }
  m.valid = true;
  return m;
}

struct ModelFiles {
  std::string dir, name, meta, cof;
  ~ModelFiles() { if (!meta.empty()) { std::remove(meta.c_str()); std::remove(cof.c_str()); } }
};

std::vector<CS> mag_sets(const MagCase& m) {
  std::vector<CS> sets;
  size_t ns = m.Ns.size();
  for (size_t i = 0; i < ns; ++i) {
    bool rate = (int)i == m.nmodels, cst = (int)i == m.nmodels + 1;
    CS c = make_coeffs(m.Ns[i], m.Ms[i], cst ? 0 : 1, 2.0, m.seed + 101 * i, rate ? m.amp / 50 : (cst ? m.amp / 1000 : m.amp), 0, 0, 0);
    if (c.N >= 0) c.c(0, 0) = 0;     // a degree-0 (monopole) term is not permitted
    sets.push_back(c);
  }
  if (m.deg0) {
    size_t k = (size_t)(m.seed % ns);
    for (size_t j = 0; j < ns; ++j) { size_t i = (k + j) % ns; if (sets[i].N >= 0) { sets[i].c(0, 0) = m.amp; break; } }
  }
  return sets;
}

void write_mag(const MagCase& m, const std::vector<CS>& sets, ModelFiles& f) {
  f.dir = tmpdir(); f.name = unique_name("c19mag");
  f.meta = f.dir + "/" + f.name + ".wmm"; f.cof = f.meta + ".cof";
  char id[16]; std::snprintf(id, sizeof id, "VF%06X", (unsigned)(m.seed & 0xffffff));
  Meta md(std::string("WMMF-") + (m.ver == 1 ? "1" : "2"), m.seed, m.style);
  md.kv("Name", f.name);
  md.kv("Description", "synthetic magnetic model");
  md.kv("ReleaseDate", "2026-01-01");
  md.kv("Radius", num17(m.a));
  if (m.nmodels > 1 || (m.style & 1)) md.kv("NumModels", std::to_string(m.nmodels));
  if (m.nconst || (m.style & 2)) md.kv("NumConstants", std::to_string(m.nconst));
  md.kv("Epoch", num17(m.t0));
  if (m.nmodels > 1 || (m.style & 4)) md.kv("DeltaEpoch", num17(m.dt));
  md.kv("MinTime", num17(m.t0)); md.kv("MaxTime", num17(m.t0 + m.nmodels * m.dt));
  md.kv("MinHeight", "-1000"); md.kv("MaxHeight", "850000");
  if (m.norm == 0) md.kv("Normalization", (m.style & 8) ? "Full" : ((m.style & 16) ? "FULL" : "full"));
  else if (m.style & 8) md.kv("Normalization", (m.style & 16) ? "Schmidt" : "schmidt");
  if (m.style & 16) md.kv("Type", (m.style & 32) ? "Linear" : "linear");
  if (m.style & 32) md.kv("ByteOrder", (m.style & 64) ? "Little" : "little");
  md.kv("ID", id);
  vf::spit(f.meta, md.txt);
  std::string b(id, 8);
  for (const CS& c : sets) put_set(b, c);
  vf::spit(f.cof, b);
}

Verdict check_e(const J& r) {
  Verdict v;
  MagCase m = parse_mag(r);
  if (!m.valid) { v.skip(m.why); return v; }
  std::vector<CS> sets = mag_sets(m);
  ModelFiles files; write_mag(m, sets, files);
  std::unique_ptr<MagneticModel> mod;
  bool has_deg0 = false;
  if (m.deg0) for (const CS& c : sets) if (c.N >= 0 && c.C[0] != 0) has_deg0 = true;
  // a truncation to degree/order that removes nothing of the offending set does not matter: C00 is always read
  try {
    mod.reset(new MagneticModel(files.name, files.dir, Geocentric(m.ea, m.ef), m.Nmax, m.Mmax));
  } catch (const GeographicErr& e) {
    if (has_deg0) { v.tag("degree-0-term-rejected"); v.nontrivial = true; return v; }
    v.that(false, std::string("well-formed synthetic model rejected: ") + e.what());
    return v;
  }
  if (has_deg0) { v.that(false, "model with a degree-0 term was accepted"); return v; }
  v.tag(m.norm == 0 ? "FULL" : "SCHMIDT");
  v.tag("NumModels=" + std::to_string(m.nmodels)); v.tag(m.nconst ? "constant-term" : "no-constant-term");
  static const char* tn[] = {"untruncated", "Nmax", "Nmax+Mmax", "Mmax-only"};
  v.tag(tn[m.trunc]);
  // effective limits per set
  int Ncap = m.trunc == 0 || m.Nmax < 0 ? 1 << 30 : m.Nmax, Mcap = m.trunc == 0 ? 1 << 30 : (m.Mmax < 0 ? Ncap : m.Mmax);
  std::vector<int> nm(sets.size()), mm(sets.size());
  int nall = -1, mall = -1;
  for (size_t i = 0; i < sets.size(); ++i) {
    nm[i] = std::min(Ncap, sets[i].N); mm[i] = std::min(Mcap, sets[i].M);
    if (nm[i] < 0 || mm[i] < 0) nm[i] = mm[i] = -1;
    nall = std::max(nall, nm[i]); mall = std::max(mall, mm[i]);
  }
  v.that(mod->Degree() == nall && mod->Order() == mall, "Degree()/Order() differ from the (truncated) file contents");
  v.that(mod->MinTime() == m.t0 && mod->EquatorialRadius() == m.ea && mod->Flattening() == m.ef, "inspectors differ from the file / constructor arguments");
  if (v.failed()) return v;
  // time segment
  L tt = (L)m.t - (L)m.t0, dt = m.dt;
  long seg = (long)floorl(tt / dt); seg = std::max(0L, std::min((long)m.nmodels - 1, seg));
  bool interp = seg + 1 < m.nmodels;
  L s = tt - seg * dt;
  L frac = tt / dt - floorl(tt / dt);
  bool at_node = m.nmodels > 1 && (frac < 1e-9L || 1 - frac < 1e-9L) && tt / dt > 0.5L && tt / dt < m.nmodels - 0.5L;
  v.tag(tt < 0 ? "before-first-epoch" : (interp ? "interpolated" : "extrapolated-with-rate"));
  if (at_node || tt == 0) v.tag("at-epoch");
  std::vector<sh::Comp> fld, rate;
  fld.push_back(comp_of(sets[(size_t)seg], nm[(size_t)seg], mm[(size_t)seg], 1));
  if (interp) {
    fld.push_back(comp_of(sets[(size_t)seg + 1], nm[(size_t)seg + 1], mm[(size_t)seg + 1], s / dt));
    fld.push_back(comp_of(sets[(size_t)seg], nm[(size_t)seg], mm[(size_t)seg], -s / dt));
    rate.push_back(comp_of(sets[(size_t)seg + 1], nm[(size_t)seg + 1], mm[(size_t)seg + 1], 1 / dt));
    rate.push_back(comp_of(sets[(size_t)seg], nm[(size_t)seg], mm[(size_t)seg], -1 / dt));
  } else {
    fld.push_back(comp_of(sets[(size_t)seg + 1], nm[(size_t)seg + 1], mm[(size_t)seg + 1], s));
    rate.push_back(comp_of(sets[(size_t)seg + 1], nm[(size_t)seg + 1], mm[(size_t)seg + 1], 1));
  }
  if (m.nconst) fld.push_back(comp_of(sets.back(), nm.back(), mm.back(), 1));
  Frame F = geodetic_frame(m.ea, m.ef, m.lat, m.lon, m.h);
  double X = (double)F.X[0], Y = (double)F.X[1], Z = (double)F.X[2];
  L rr = norm3(X, Y, Z);
  if (!(rr >= 0.3 * m.a && rr <= 120 * m.a)) { v.skip("radius outside 0.3a..120a"); return v; }
  sh::Norm nrm = (sh::Norm)m.norm;
  sh::Out of = sh::eval(nrm, fld, nall, mall, m.a, X, Y, Z, true), orr = sh::eval(nrm, rate, nall, mall, m.a, X, Y, Z, true);
  if (!of.ok || !orr.ok) { v.skip("oracle self-check failed"); return v; }
  v.nontrivial = nall >= 2;
  // tolerance: gradient round-off of every set (weights |tau|), the rounded geocentric position (2 eps r times
  // the second derivative ~ (n+2)/r Sg), times a; KB calibrated
  L pq = hypotl(X, Y), qq = m.a / rr;
  // conditioning in time: t - t0 carries eps (|t| + |t0|); the field moves with at most sum_i |grad V_i|/dt + |grad V_rate|
  std::vector<sh::Comp> allsets;
  for (int i = 0; i <= m.nmodels; ++i) allsets.push_back(comp_of(sets[(size_t)i], nm[(size_t)i], mm[(size_t)i], i < m.nmodels ? (m.nmodels > 1 ? 1 / dt : 0) : 1));
  sh::Out oall = sh::eval(nrm, allsets, nall, mall, m.a, X, Y, Z, true);
  L tcond = 8 * EPS * (fabsl((L)m.t) + fabsl((L)m.t0)) * m.a * oall.Sg;
  L tolF = m.a * (KB * EPS * (nall + 2) * of.Sg + floorG(nall, qq, rr, pq / rr)) + tcond;
  L tolR = m.a * (KB * EPS * (nall + 2) * orr.Sg + floorG(nall, qq, rr, pq / rr));
  L Bg[3] = {-m.a * of.g[0], -m.a * of.g[1], -m.a * of.g[2]}, Rg[3] = {-m.a * orr.g[0], -m.a * orr.g[1], -m.a * orr.g[2]};
  L Bl[3] = {dot3(F.e, Bg), dot3(F.n, Bg), dot3(F.u, Bg)}, Rl[3] = {dot3(F.e, Rg), dot3(F.n, Rg), dot3(F.u, Rg)};
  // geocentric interface
  double BX, BY, BZ, BXt, BYt, BZt;
  mod->FieldGeocentric(m.t, X, Y, Z, BX, BY, BZ, BXt, BYt, BZt);
  v.le(norm3(BX - Bg[0], BY - Bg[1], BZ - Bg[2]), tolF, "FieldGeocentric vs -grad of the time-interpolated potential [nT]");
  if (!at_node) v.le(norm3(BXt - Rg[0], BYt - Rg[1], BZt - Rg[2]), tolR, "FieldGeocentric rate vs -grad of the rate potential [nT/yr]");
  // geodetic interface, east-north-up
  double Bx, By, Bz, Bxt, Byt, Bzt, Bx2, By2, Bz2;
  (*mod)(m.t, m.lat, m.lon, m.h, Bx, By, Bz, Bxt, Byt, Bzt);
  (*mod)(m.t, m.lat, m.lon, m.h, Bx2, By2, Bz2);
  v.le(norm3(Bx - Bl[0], By - Bl[1], Bz - Bl[2]), tolF, "field (east, north, up) vs reference [nT]");
  v.le(std::max(fabsl((L)Bx - Bl[0]), std::max(fabsl((L)By - Bl[1]), fabsl((L)Bz - Bl[2]))), tolF, "field components vs reference [nT]");
  v.that(Bx == Bx2 && By == By2 && Bz == Bz2, "operator() with and without rates return different fields");
  if (!at_node) v.le(norm3(Bxt - Rl[0], Byt - Rl[1], Bzt - Rl[2]), tolR, "field rate (east, north, up) vs reference [nT/yr]");
  // circle
  {
    MagneticCircle c = mod->Circle(m.t, m.lat, m.h);
    double cx, cy, cz, cxt, cyt, czt, gX, gY, gZ, gXt, gYt, gZt;
    c(m.lon, cx, cy, cz, cxt, cyt, czt);
    v.le(norm3(cx - Bl[0], cy - Bl[1], cz - Bl[2]), tolF, "MagneticCircle field vs reference [nT]");
    if (!at_node) v.le(norm3(cxt - Rl[0], cyt - Rl[1], czt - Rl[2]), tolR, "MagneticCircle rate vs reference [nT/yr]");
    v.le(norm3((L)cx - Bx, (L)cy - By, (L)cz - Bz), 2 * tolF, "MagneticCircle vs MagneticModel [nT]");
    c.FieldGeocentric(m.lon, gX, gY, gZ, gXt, gYt, gZt);
    v.le(norm3(gX - Bg[0], gY - Bg[1], gZ - Bg[2]), tolF, "MagneticCircle::FieldGeocentric vs reference [nT]");
    v.that(c.Init() && c.Latitude() == m.lat && c.Height() == m.h && c.Time() == m.t, "MagneticCircle inspectors");
  }
  // derived quantities from the definitions
  {
    double H, Fm, D, I, Ht, Ft, Dt, It, H2, F2, D2, I2;
    MagneticModel::FieldComponents(Bx, By, Bz, Bxt, Byt, Bzt, H, Fm, D, I, Ht, Ft, Dt, It);
    MagneticModel::FieldComponents(Bx, By, Bz, H2, F2, D2, I2);
    L lH = hypotl(Bx, By), lF = hypotl(lH, Bz);
    if (lH > 0) {
      const L deg = 180 / PI_L;
      const L tiny = 1e-290L;    // products of the components may underflow (e.g. Bz ~ 1e-296 at lat = 1e-300)
      v.le(fabsl(H - lH), 4 * EPS * lH + tiny, "H = hypot(Bx, By)");
      v.le(fabsl(Fm - lF), 4 * EPS * lF + tiny, "F = hypot(H, Bz)");
      v.le(fabsl(D - atan2l(Bx, By) * deg), 8 * EPS * 180, "D = atan2(Bx, By) [deg]");
      v.le(fabsl(I - atan2l(-(L)Bz, lH) * deg), 8 * EPS * 180, "I = atan2(-Bz, H) [deg]");
      v.that(H == H2 && Fm == F2 && D == D2 && I == I2, "FieldComponents overloads disagree");
      L lHt = ((L)Bx * Bxt + (L)By * Byt) / lH;
      v.le(fabsl(Ht - lHt), 16 * EPS * (fabsl((L)Bx * Bxt) + fabsl((L)By * Byt)) / lH + tiny, "Ht");
      v.le(fabsl(Ft - (lH * lHt + (L)Bz * Bzt) / lF), 16 * EPS * (fabsl((L)Bx * Bxt) + fabsl((L)By * Byt) + fabsl((L)Bz * Bzt)) / lF + tiny, "Ft");
      v.le(fabsl(Dt - ((L)By * Bxt - (L)Bx * Byt) / (lH * lH) * deg), 16 * EPS * (fabsl((L)By * Bxt) + fabsl((L)Bx * Byt)) / (lH * lH) * deg + tiny, "Dt");
      v.le(fabsl(It - ((L)Bz * lHt - lH * Bzt) / (lF * lF) * deg), 16 * EPS * (fabsl((L)Bz * lHt) + fabsl(lH * Bzt) + fabsl((L)Bz) * (fabsl((L)Bx * Bxt) + fabsl((L)By * Byt)) / lH) / (lF * lF) * deg + tiny, "It");
    } else v.tag("H=0");
  }
  return v;
}

vf::Reg re({"C19.e", "MagneticModel/MagneticCircle loaded from a synthetic .wmm/.wmm.cof pair (NumModels 1..4, NumConstants 0/1, both normalisations, per-set N,M, metadata spelling variants, Nmax/Mmax truncation) vs -grad of the potential of the time-interpolated/extrapolated coefficients rotated to east-north-up; H,F,D,I and rates from the definitions; a degree-0 term must be rejected; non-trivial: some set has degree >= 2", 0.09,
            [] { return rc::gen::exec([] { return gen_mag(); }); }, check_e, nullptr});

}  // namespace

// =================================================================================================
// C19.f  GravityModel / GravityCircle from synthetic files
namespace {

const L KT = 32;   // factor on the round-off law of the potentials (calibrated)
const L KJ = 480;  // see C19.g

struct GravCase {
  int norm = 0, N = 2, M = 2, Nc = -1, Mc = -1, style = 0, usef = 1, fract = 0, trunc = 0, Nmax = -1, Mmax = -1, kind = 1;
  uint64_t seed = 1;
  double amodel = 1, GMmodel = 1, aref = 1, GMref = 1, omega = 0, f = 0, zeta0 = 0, corrmult = 1, camp = 1, decay = 2, amp = 1e-6;
  double lat = 0, lon = 0, h = 0;
  bool valid = false; std::string why;
};

J gen_grav() {
  J r = J::obj();
  r["norm"] = J::integer(vf::g::coin(1, 4) ? 1 : 0);
  int N = vf::g::coin(1, 6) ? (int)vf::g::irange(0, 7) : (int)vf::g::irange(8, 40);
  int M = vf::g::coin(2, 3) ? N : (int)vf::g::irange(0, N);
  r["N"] = J::integer(N); r["M"] = J::integer(M);
  int Nc = vf::g::coin(1, 3) ? -1 : (int)vf::g::irange(0, 20);
  r["Nc"] = J::integer(Nc); r["Mc"] = J::integer(Nc < 0 ? -1 : (vf::g::coin() ? Nc : (int)vf::g::irange(0, Nc)));
  r["style"] = J::integer(vf::g::irange(0, 127));
  r["kind"] = J::integer(vf::g::wpick({20, 60, 20}));
  r["decay"] = J::num(vf::g::uni(1.5, 3.5));
  r["amp"] = J::num(vf::g::loguni(1e-9, 1e-3));
  r["seed"] = J::integer(vf::g::irange(1, 1000000000));
  bool earth = vf::g::coin(1, 2);
  double aref = earth ? 6378137.0 : vf::g::loguni(1e3, 1e8);
  double GMref = earth ? 3.986004418e14 : 9.8 * aref * aref * vf::g::loguni(0.1, 10);
  r["aref"] = J::num(aref); r["GMref"] = J::num(GMref);
  r["amodel"] = J::num(vf::g::coin(1, 3) ? aref : aref * vf::g::uni(0.9, 1.1));
  r["GMmodel"] = J::num(vf::g::coin(1, 3) ? GMref : GMref * (1 + vf::g::sgn() * vf::g::loguni(1e-10, 1e-2)));
  double wmax = std::sqrt(GMref / (aref * aref * aref));    // omega^2 a^3/GM = 1
  r["omega"] = J::num(earth ? 7.292115e-5 : (vf::g::coin(1, 5) ? 0.0 : wmax * vf::g::uni(0, 0.3)));
  double f;
  switch (vf::g::wpick({40, 25, 10, 25})) {
    case 0: f = 1 / 298.257223563; break;
    case 1: f = vf::g::sgn() * vf::g::loguni(1e-8, 0.02); break;
    case 2: f = 0; break;
    default: f = vf::g::uni(-0.02, 0.02);
  }
  r["f"] = J::num(f);
  r["usef"] = J::integer(vf::g::coin(2, 3)); r["fract"] = J::integer(vf::g::coin(1, 3));
  r["zeta0"] = J::num(vf::g::coin() ? 0.0 : vf::g::uni(-2, 2));
  r["corrmult"] = J::num(vf::g::coin() ? 1.0 : vf::g::loguni(1e-3, 1e3));
  r["camp"] = J::num(vf::g::loguni(1e-3, 10));
  r["lat"] = J::num(gg::latitude());
  r["lon"] = J::num(vf::g::coin(3, 4) ? vf::g::uni(-180, 180) : (vf::g::coin() ? 90.0 * (double)vf::g::irange(-4, 4) : vf::g::uni(-720, 720)));
  r["h"] = J::num(vf::g::wpick({25, 45, 15, 15}) == 0 ? 0.0 : (vf::g::coin(2, 3) ? aref * vf::g::uni(-1e-3, 0.1) : (vf::g::coin() ? -aref * vf::g::uni(0, 0.35) : aref * vf::g::loguni(0.1, 50))));
  int trunc = vf::g::wpick({60, 15, 15, 10});
  r["trunc"] = J::integer(trunc);
  int Nmax = (int)vf::g::irange(0, 30), Mmax = (int)vf::g::irange(0, Nmax);
  r["Nmax"] = J::integer(trunc == 3 ? -1 : Nmax); r["Mmax"] = J::integer(trunc == 1 ? -1 : Mmax);
  return r;
}

GravCase parse_grav(const J& r) {
  GravCase g;
  auto bad = [&](const char* w) { g.why = w; return g; };
  g.norm = (int)r.geti("norm"); g.N = (int)r.geti("N"); g.M = (int)r.geti("M"); g.Nc = (int)r.geti("Nc"); g.Mc = (int)r.geti("Mc");
  g.style = (int)r.geti("style"); g.kind = (int)r.geti("kind"); g.decay = r.getd("decay"); g.amp = r.getd("amp"); g.seed = (uint64_t)r.geti("seed");
  g.aref = r.getd("aref"); g.GMref = r.getd("GMref"); g.amodel = r.getd("amodel"); g.GMmodel = r.getd("GMmodel"); g.omega = r.getd("omega");
  g.f = r.getd("f"); g.usef = (int)r.geti("usef"); g.fract = (int)r.geti("fract"); g.zeta0 = r.getd("zeta0"); g.corrmult = r.getd("corrmult"); g.camp = r.getd("camp");
  g.lat = r.getd("lat"); g.lon = r.getd("lon"); g.h = r.getd("h");
  g.trunc = (int)r.geti("trunc"); g.Nmax = (int)r.geti("Nmax"); g.Mmax = (int)r.geti("Mmax");
  if (g.norm < 0 || g.norm > 1 || g.style < 0 || g.style > 127 || g.kind < 0 || g.kind > 2) return bad("bad header fields");
  if (!(g.N >= g.M && g.M >= 0 && g.N <= 60)) return bad("N >= M >= 0 violated");
  if (!((g.Nc >= g.Mc && g.Mc >= 0 && g.Nc <= 40) || (g.Nc == -1 && g.Mc == -1))) return bad("correction N >= M >= 0 violated");
  if (!(g.aref >= 1 && g.aref <= 1e9) || !(g.GMref > 0) || !std::isfinite(g.GMref) || !(g.amodel >= 0.8 * g.aref && g.amodel <= 1.25 * g.aref)) return bad("radii beyond generated range");
  if (!(g.GMmodel > 0) || !(std::fabs(g.GMmodel / g.GMref - 1) <= 0.05)) return bad("mass constants beyond generated range");
  L mrot = (L)g.omega * g.omega * g.aref * g.aref * g.aref / g.GMref;
  if (!(mrot >= 0 && mrot <= 0.2)) return bad("rotation beyond generated range");
  if (!(std::fabs(g.f) <= 0.021)) return bad("flattening beyond generated range");
  if (!(g.decay >= 1 && g.decay <= 6) || !(g.amp >= 1e-12 && g.amp <= 1e-2) || !(g.camp >= 1e-6 && g.camp <= 1e3)) return bad("amplitudes beyond generated range");
  if (!std::isfinite(g.zeta0) || std::fabs(g.zeta0) > 100 || !(g.corrmult >= 1e-4 && g.corrmult <= 1e4)) return bad("correction parameters beyond generated range");
  if (!(std::fabs(g.lat) <= 90) || !std::isfinite(g.lon) || std::fabs(g.lon) > 1e5 || !(g.h >= -0.4 * g.aref && g.h <= 100 * g.aref)) return bad("outside generated domain");
  if (g.trunc < 0 || g.trunc > 3) return bad("bad truncation mode");
  if (g.trunc == 0) { g.Nmax = g.Mmax = -1; }
  if (g.trunc == 1) { if (g.Nmax < 0) return bad("bad truncation"); g.Mmax = -1; }
  if (g.trunc == 2 && !(g.Nmax >= g.Mmax && g.Mmax >= 0)) return bad("Mmax > Nmax");
  if (g.trunc == 3) { if (g.Mmax < 0) return bad("bad truncation"); g.Nmax = -1; }
  g.valid = true;
  return g;
}

// Legendre P_n(t), n = 0..nmax
void legendre(L t, int nmax, std::vector<L>& P) {
  P.assign((size_t)nmax + 1, 0); P[0] = 1; if (nmax >= 1) P[1] = t;
  for (int n = 2; n <= nmax; ++n) P[(size_t)n] = ((2 * n - 1) * t * P[(size_t)n - 1] - (n - 1) * P[(size_t)n - 2]) / n;
}

Verdict check_f(const J& r) {
  Verdict v;
  GravCase g = parse_grav(r);
  if (!g.valid) { v.skip(g.why); return v; }
  // the flattening as the library will see it
  double f_file = g.f;
  if (g.usef && g.fract && g.f != 0) f_file = 1.0 / (1.0 / g.f);     // written as "1/<1/f>": the library divides again
  ng::Params Pn{g.aref, g.GMref, g.omega, f_file};
  double J2file = (double)ng::J2(Pn);
  CS grav = make_coeffs(g.N, g.M, g.kind, g.decay, g.seed, g.amp, 0, 0, 0);
  grav.c(0, 0) = 0;                                   // the file must have C00 = 0 (the library substitutes 1)
  if (g.N >= 2) grav.c(2, 0) = -J2file / std::sqrt(5.0) * (g.norm == 0 ? 1.0 : std::sqrt(5.0)) * (1 + 0.01 * (double)((g.seed % 7) - 3));   // a realistic zonal term
  CS corr = make_coeffs(g.Nc, g.Mc, 1, 1.5, g.seed + 77, g.camp, 0, 0, 0);
  ModelFiles files;
  files.dir = tmpdir(); files.name = unique_name("c19grav");
  files.meta = files.dir + "/" + files.name + ".egm"; files.cof = files.meta + ".cof";
  char id[16]; std::snprintf(id, sizeof id, "VG%06X", (unsigned)(g.seed & 0xffffff));
  {
    Meta md("EGMF-1", g.seed, g.style);
    md.kv("Name", files.name); md.kv("Description", "synthetic gravity model"); md.kv("ReleaseDate", "2026-01-01");
    md.kv("ModelRadius", num17(g.amodel)); md.kv("ModelMass", num17(g.GMmodel)); md.kv("AngularVelocity", num17(g.omega));
    md.kv("ReferenceRadius", num17(g.aref)); md.kv("ReferenceMass", num17(g.GMref));
    if (g.usef) md.kv("Flattening", (g.fract && g.f != 0) ? "1/" + num17(1.0 / g.f) : num17(g.f));
    else md.kv("DynamicalFormFactor", num17(J2file));
    if (g.zeta0 != 0 || (g.style & 1)) md.kv("HeightOffset", num17(g.zeta0));
    if (g.corrmult != 1 || (g.style & 2)) md.kv("CorrectionMultiplier", num17(g.corrmult));
    if (g.norm == 1) md.kv("Normalization", (g.style & 8) ? "Schmidt" : ((g.style & 16) ? "SCHMIDT" : "schmidt"));
    else if (g.style & 8) md.kv("Normalization", (g.style & 16) ? "Full" : "full");
    if (g.style & 32) md.kv("ByteOrder", (g.style & 64) ? "Little" : "little");
    md.kv("ID", id);
    vf::spit(files.meta, md.txt);
    std::string b(id, 8); put_set(b, grav); put_set(b, corr);
    vf::spit(files.cof, b);
  }
  std::unique_ptr<GravityModel> mod;
  try { mod.reset(new GravityModel(files.name, files.dir, g.Nmax, g.Mmax)); }
  catch (const GeographicErr& e) { v.that(false, std::string("well-formed synthetic model rejected: ") + e.what()); return v; }
  v.tag(g.norm == 0 ? "FULL" : "SCHMIDT"); v.tag(g.usef ? (g.fract ? "Flattening-as-fraction" : "Flattening") : "DynamicalFormFactor");
  v.tag(g.Nc < 0 ? "no-correction-set" : "correction-set");
  static const char* tn[] = {"untruncated", "Nmax", "Nmax+Mmax", "Mmax-only"};
  v.tag(tn[g.trunc]);
  v.tag(g.f > 0 ? "oblate" : g.f < 0 ? "prolate" : "sphere");
  int Ncap = g.trunc == 0 || g.Nmax < 0 ? 1 << 30 : g.Nmax, Mcap = g.trunc == 0 ? 1 << 30 : (g.Mmax < 0 ? Ncap : g.Mmax);
  int nmx = std::min(Ncap, g.N), mmx = std::min(Mcap, g.M);
  int nmc = std::min(Ncap, g.Nc), mmc = std::min(Mcap, g.Mc);
  if (nmc < 0 || mmc < 0) nmc = mmc = -1;
  v.that(mod->Degree() == std::max(nmx, std::max(nmc, 0)) && mod->Order() == std::max(mmx, std::max(mmc, 0)), "Degree()/Order() differ from the (truncated) file contents");
  v.that(mod->MassConstant() == g.GMmodel && mod->ReferenceMassConstant() == g.GMref && mod->AngularVelocity() == g.omega && mod->EquatorialRadius() == g.aref,
         "inspectors differ from the file");
  // flattening of the reference ellipsoid
  double flib = mod->Flattening();
  if (g.usef) v.that(flib == f_file, "Flattening() differs from the file");
  else {
    ng::Params Pl{g.aref, g.GMref, g.omega, flib};
    L dj = fabsl(ng::dJ2df(Pn));
    L e2 = fabsl((L)f_file * (2 - (L)f_file)), rot = (L)g.omega * g.omega * g.aref * g.aref * g.aref / g.GMref;
    v.le(fabsl(ng::J2(Pl) - (L)J2file), KJ * EPS * (e2 / 3 + rot / 3 + fabsl((L)J2file)), "J2 of the flattening derived from DynamicalFormFactor vs the file value");
    (void)dj;
  }
  if (v.failed()) return v;
  ng::Params P{g.aref, g.GMref, g.omega, flib};
  // the point
  Frame F = geodetic_frame(g.aref, flib, g.lat, g.lon, g.h);
  double X = (double)F.X[0], Y = (double)F.X[1], Z = (double)F.X[2];
  L Xl[3] = {X, Y, Z};
  L rr = norm3(X, Y, Z), pp = hypotl(X, Y);
  if (!(rr >= 0.5 * g.amodel)) { v.skip("point deeper than half the model radius"); return v; }
  sh::Norm nrm = (sh::Norm)g.norm;
  CS gv = grav; gv.c(0, 0) = 1;
  sh::Out ov = sh::eval(nrm, {comp_of(gv, nmx, mmx, 1)}, nmx, mmx, g.amodel, X, Y, Z, true);
  if (!ov.ok) { v.skip("oracle self-check failed"); return v; }
  ng::Pot pn = ng::potential(P, X, Y, Z, true);
  if (!pn.ok) { v.skip("normal-gravity oracle self-check failed"); return v; }
  if (pn.uob < 0.5L) { v.skip("point deep inside the reference ellipsoid"); return v; }
  v.nontrivial = nmx >= 2;
  L GMa = (L)g.GMmodel / g.amodel, qq = g.amodel / rr;
  Tol tl = tol_of(ov, nmx, g.amodel, X, Y, Z);
  L kk = KT / KV;
  L tolV = GMa * tl.v * kk, tolG = GMa * tl.g * kk;
  // ---- V, W (geocentric)
  double GX, GY, GZ, gX, gY, gZ, fX, fY;
  double Vl = mod->V(X, Y, Z, GX, GY, GZ);
  L Vref = GMa * ov.V, Vref_lo = GMa * ov.Vlo;
  L Gref[3] = {GMa * ov.g[0], GMa * ov.g[1], GMa * ov.g[2]};
  v.le(fabsl(((L)Vl - Vref) - Vref_lo), tolV, "V vs GM/a times the defining sum with C00 = 1 [m^2/s^2]");
  v.le(norm3(GX - Gref[0], GY - Gref[1], GZ - Gref[2]), tolG, "grad V vs reference [m/s^2]");
  double Phil = mod->Phi(X, Y, fX, fY);
  L w2 = (L)g.omega * g.omega, Phir = w2 * ((L)X * X + (L)Y * Y) / 2;
  v.le(fabsl(Phil - Phir), 8 * EPS * Phir, "Phi = omega^2 (X^2+Y^2)/2");
  v.le(hypotl(fX - w2 * X, fY - w2 * Y), 8 * EPS * w2 * pp, "grad Phi");
  double Wl = mod->W(X, Y, Z, gX, gY, gZ);
  v.le(fabsl(((L)Wl - Vref - Phir) - Vref_lo), tolV + 4 * EPS * Phir, "W = V + Phi [m^2/s^2]");
  L gref[3] = {Gref[0] + w2 * X, Gref[1] + w2 * Y, Gref[2]};
  v.le(norm3(gX - gref[0], gY - gref[1], gZ - gref[2]), tolG + 4 * EPS * w2 * pp, "grad W vs reference [m/s^2]");
  // ---- U (pass-through to NormalGravity)
  double uX, uY, uZ; double Ul = mod->U(X, Y, Z, uX, uY, uZ);
  L sclU = pn.Um + pn.Uq + pn.Phi;
  v.le(fabsl(((L)Ul - pn.U) - pn.Ulo), KT * EPS * sclU, "U vs closed-form normal potential [m^2/s^2]");
  v.le(norm3(uX - pn.gam[0], uY - pn.gam[1], uZ - pn.gam[2]), KT * EPS * (3 * sclU / rr + w2 * pp), "grad U vs derivative of the closed-form normal potential [m/s^2]");
  // ---- T = W - U = V - V0 and delta = grad T
  // zonal coefficients of the reference field (projection of the closed form), series the library can represent
  int nz = std::min(nmx, 60), ntail = nz + 40;
  L jerr = 0; std::vector<L> Jn = ng::zonal_J(P, ntail, &jerr);
  L spsi = Z / rr; std::vector<L> Pl; legendre(spsi, ntail, Pl);
  L ar = g.aref / rr, arn = 1, useries = 1, tail = 0, sabs = 0, sgabs = 0;
  for (int n = 1; n <= ntail; ++n) {
    arn *= ar;
    if (n & 1) continue;
    L term = Jn[(size_t)n] * arn * Pl[(size_t)n];
    if (n <= nz) { useries -= term; sabs += fabsl(Jn[(size_t)n]) * arn; sgabs += fabsl(Jn[(size_t)n]) * arn * (n + 1); }
    else tail += fabsl(Jn[(size_t)n]) * arn * (n + 1);     // bound for the potential (n+1 >= 1) and, divided by r, its gradient
  }
  L GMr = (L)g.GMref / rr;
  // round-off law for T: the coefficient differences C_n0 - s_n carry eps (|C_n0| + |s_n|); the n = 0 part
  // (GM_ref - GM_model)/r; conditioning on the point as for V but with the disturbing coefficients only
  CS gd = grav;      // disturbing part of the model coefficients: everything but C00
  sh::Out od = sh::eval(nrm, {comp_of(gd, nmx, mmx, 1)}, nmx, mmx, g.amodel, X, Y, Z, true);
  L tolT = KT * EPS * (GMa * ((nmx + 2) * od.S1 + rr * od.Sg) + GMr * (nz + 2) * sabs * 2 + 4 * fabsl((L)g.GMref - g.GMmodel) / rr) + GMa * floorV(nmx, qq);
  L tolD = KT * EPS * (GMa * (nmx + 2) * od.Sg + GMr / rr * (nz + 2) * sgabs * 2 + 4 * fabsl((L)g.GMref - g.GMmodel) / (rr * rr)) + GMa * floorG(nmx, qq, rr, pp / rr);
  // the reference combines two long double values of size GM/r
  tolT += 64 * 1.1e-19L * (GMr + GMa * qq); tolD += 64 * 1.1e-19L * (GMr + GMa * qq) / rr;
  L Ttail = GMr * tail, Dtail = GMr / rr * tail;
  bool closed = Ttail <= 0.25L * tolT && Dtail <= 0.25L * tolD;
  v.tag(closed ? "T-vs-closed-form-normal-field" : "T-vs-normal-series-to-model-degree");
  L Tref, Dref[3];
  if (closed) {
    // closed form: (V - V0) with double-long-double parts
    Tref = ((Vref - pn.V0) + (Vref_lo - pn.V0lo));
    for (int i = 0; i < 3; ++i) Dref[i] = Gref[i] - pn.G[i];
  } else {
    // the normal field as far as a model of this degree can hold it: GM_ref/a_ref times the zonal sum with
    // C_00 = 1, C_n0 = -J_n/sqrt(2n+1) (fully normalised), n <= nmx, J_n from the projection of the closed form
    CS zon; zon.init(nz, 0); zon.c(0, 0) = 1;
    for (int n = 2; n <= nz; n += 2) zon.c(n, 0) = (double)(-Jn[(size_t)n] / sqrtl(2 * n + 1.0L));
    sh::Out oz = sh::eval(sh::FULL, {comp_of(zon, nz, 0, 1)}, nz, 0, g.aref, X, Y, Z, true);
    L GMar = (L)g.GMref / g.aref;
    Tref = ((Vref - GMar * oz.V) + (Vref_lo - GMar * oz.Vlo));
    for (int i = 0; i < 3; ++i) Dref[i] = Gref[i] - GMar * oz.g[i];
    (void)useries;
  }
  // Three defects found by these relations are fixed in /repo (findings/C19-gravity-T-invR.md 9368fce: T with gradient
  // and Disturbance() lost the (GM_ref - GM_model)/r term; C19-gravity-schmidt-zonal.md 90e1a81: Schmidt models used the
  // fully normalised normal zonal terms; C19-normalgravity-sphere-Jn.md bde2740: a spherical reference gave NaN; reverse
  // patches seeded/fix-reverts/F38..F40).  All relations are asserted without exception.
  double dX, dY, dZ; double Tl1 = mod->T(X, Y, Z), Tl2 = mod->T(X, Y, Z, dX, dY, dZ);
  v.le(fabsl(Tl1 - Tref), tolT + jerr * GMr, "T = V - V0 (value only) [m^2/s^2]");
  v.le(fabsl(Tl2 - Tref), tolT + jerr * GMr, "T = V - V0 [m^2/s^2]");
  L tolDx = tolD;
  v.le(norm3(dX - Dref[0], dY - Dref[1], dZ - Dref[2]), tolDx, "delta = grad T vs grad V - grad V0 [m/s^2]");
  // ---- geodetic interfaces: rotation to east, north, up; the library's own geocentric point is rounded
  // differently from ours: 4 eps r times the gradient of the quantity
  double wx, wy, wz; double Wg = mod->Gravity(g.lat, g.lon, g.h, wx, wy, wz);
  L gn = norm3(gref[0], gref[1], gref[2]);
  v.le(fabsl(((L)Wg - Vref - Phir) - Vref_lo), tolV + 4 * EPS * Phir + 4 * EPS * rr * gn, "Gravity(): W [m^2/s^2]");
  L posG = 4 * EPS * rr * (GMa * (nmx + 2) * ov.Sg / rr + w2);
  v.le(norm3(wx - dot3(F.e, gref), wy - dot3(F.n, gref), wz - dot3(F.u, gref)), tolG + 4 * EPS * gn + posG, "Gravity(): g in east, north, up [m/s^2]");
  double tx, ty, tz; double Tg = mod->Disturbance(g.lat, g.lon, g.h, tx, ty, tz);
  L dn = norm3(Dref[0], Dref[1], Dref[2]);
  v.le(fabsl(Tg - Tref), tolT + jerr * GMr + 4 * EPS * rr * (dn + tolDx), "Disturbance(): T [m^2/s^2]");
  L posD = 4 * EPS * rr * (GMa * (nmx + 2) * od.Sg / rr + GMr / rr * (nz + 2) * sgabs / rr);
  v.le(norm3(tx - dot3(F.e, Dref), ty - dot3(F.n, Dref), tz - dot3(F.u, Dref)), tolDx + 4 * EPS * dn + posD, "Disturbance(): delta in east, north, up [m/s^2]");
  // ---- SphericalAnomaly (H+M 2-151c with T' = T without the 1/r term, spherical components)
  L dGM = (L)g.GMref - (L)g.GMmodel;
  L Tp = Tref + dGM / rr;                                   // T' = T + (GM_ref - GM_model)/r
  L Dp[3]; for (int i = 0; i < 3; ++i) Dp[i] = Dref[i] - dGM * Xl[i] / (rr * rr * rr);
  L cpsi = pp / rr, spsi2 = Z / rr;
  L er[3] = {cpsi * F.clam, cpsi * F.slam, spsi2}, en[3] = {-spsi2 * F.clam, -spsi2 * F.slam, cpsi}, ee[3] = {-F.slam, F.clam, 0};
  L gam = norm3(pn.gam[0], pn.gam[1], pn.gam[2]);
  double Dg01, xi, eta; mod->SphericalAnomaly(g.lat, g.lon, g.h, Dg01, xi, eta);
  const L deg = 180 / PI_L;
  L tolTp = tolT + jerr * GMr + 4 * EPS * fabsl(dGM) / rr, tolDp = tolDx + 4 * EPS * fabsl(dGM) / (rr * rr) + posD + 4 * EPS * dn;
  if (pp > 1e-6L * rr) {
    v.le(fabsl(Dg01 - (-dot3(er, Dp) - 2 * Tp / rr)), tolDp + 2 * tolTp / rr + 8 * EPS * (fabsl(dot3(er, Dp)) + 2 * fabsl(Tp) / rr), "SphericalAnomaly: Dg01 = -dT'/dr - 2T'/R [m/s^2]");
    v.le(fabsl(xi - (-dot3(en, Dp) / gam * deg)), (tolDp + 8 * EPS * dn) / gam * deg + 8 * EPS * fabsl(dot3(en, Dp)) / gam * deg, "SphericalAnomaly: xi [deg]");
    v.le(fabsl(eta - (-dot3(ee, Dp) / gam * deg)), (tolDp + 8 * EPS * dn) / gam * deg + 8 * EPS * fabsl(dot3(ee, Dp)) / gam * deg, "SphericalAnomaly: eta [deg]");
  } else v.tag("anomaly-at-axis-skipped");
  // ---- GeoidHeight = T'(surface point)/gamma0(lat) + HeightOffset + CorrectionMultiplier * sum_corr(direction)
  L Nref = 0, tolN = 0; bool haveN = false;
  {
    Frame F0 = geodetic_frame(g.aref, flib, g.lat, g.lon, 0);
    double X0 = (double)F0.X[0], Y0 = (double)F0.X[1], Z0 = (double)F0.X[2];
    L r0 = norm3(X0, Y0, Z0);
    sh::Out o0 = sh::eval(nrm, {comp_of(gv, nmx, mmx, 1)}, nmx, mmx, g.amodel, X0, Y0, Z0, true);
    sh::Out od0 = sh::eval(nrm, {comp_of(gd, nmx, mmx, 1)}, nmx, mmx, g.amodel, X0, Y0, Z0, true);
    ng::Pot p0 = ng::potential(P, X0, Y0, Z0, false);
    L sps0 = Z0 / r0; std::vector<L> P0; legendre(sps0, ntail, P0);
    L ar0 = g.aref / r0, a0n = 1, us0 = 1, tail0 = 0, sabs0 = 0;
    for (int n = 1; n <= ntail; ++n) { a0n *= ar0; if (n & 1) continue; L term = Jn[(size_t)n] * a0n * P0[(size_t)n]; if (n <= nz) { us0 -= term; sabs0 += fabsl(Jn[(size_t)n]) * a0n; } else tail0 += fabsl(Jn[(size_t)n]) * a0n; }
    L GMr0 = (L)g.GMref / r0;
    L tolT0 = KT * EPS * (GMa * ((nmx + 2) * od0.S1 + r0 * od0.Sg) + GMr0 * (nz + 2) * sabs0 * 2 + 4 * fabsl(dGM) / r0) + GMa * floorV(nmx, g.amodel / r0) + jerr * GMr0
              + 64 * 1.1e-19L * (GMr0 + GMa * g.amodel / r0);
    bool closed0 = GMr0 * tail0 <= 0.25L * tolT0;
    L T0 = closed0 ? ((GMa * o0.V - p0.V0) + (GMa * o0.Vlo - p0.V0lo)) : ((GMa * o0.V - GMr0 * us0) + GMa * o0.Vlo);
    L Tp0 = T0 + dGM / r0;
    L gamma0 = ng::surface_gravity(P, g.lat);
    L cval = 0, ctol = 0;
    if (nmc >= 0) {
      double ux = (double)(X0 / r0), uy = (double)(Y0 / r0), uz = (double)(Z0 / r0);
      sh::Out oc = sh::eval(nrm, {comp_of(corr, nmc, mmc, 1)}, nmc, mmc, 1.0, ux, uy, uz, true);
      cval = oc.V;
      ctol = KT * EPS * ((nmc + 2) * oc.S1 + oc.Sg) * 2;
    }
    Nref = Tp0 / gamma0 + (L)g.zeta0 + (L)g.corrmult * cval;
    // position: the surface point is rounded (4 eps r0 times the gradient of T and of the correction sum)
    tolN = (tolT0 + 4 * EPS * r0 * (GMa * od0.Sg + fabsl(dGM) / (r0 * r0))) / fabsl(gamma0) + 8 * EPS * fabsl(Tp0 / gamma0) + (L)g.corrmult * ctol + 4 * EPS * (fabsl((L)g.zeta0) + fabsl((L)g.corrmult * cval));
    haveN = true;
    double Nl = mod->GeoidHeight(g.lat, g.lon);
    v.le(fabsl(Nl - Nref), tolN, "GeoidHeight = T'/gamma0 + HeightOffset + CorrectionMultiplier * correction sum [m]");
  }
  // ---- GravityCircle == model
  {
    GravityCircle c = mod->Circle(g.lat, g.h, GravityModel::ALL);
    double a1, a2, a3;
    double Wc = c.Gravity(g.lon, a1, a2, a3);
    v.le(fabsl((L)Wc - Wg), 2 * (tolV + 4 * EPS * Phir + 4 * EPS * rr * gn), "GravityCircle::Gravity W vs model");
    v.le(norm3((L)a1 - wx, (L)a2 - wy, (L)a3 - wz), 2 * (tolG + 4 * EPS * gn + posG), "GravityCircle::Gravity g vs model");
    v.le(norm3(a1 - dot3(F.e, gref), a2 - dot3(F.n, gref), a3 - dot3(F.u, gref)), tolG + 4 * EPS * gn + posG, "GravityCircle::Gravity g vs reference");
    double Tc = c.Disturbance(g.lon, a1, a2, a3);
    v.le(fabsl(Tc - Tref), tolT + jerr * GMr + 4 * EPS * rr * (dn + tolDx), "GravityCircle::Disturbance T vs reference");
    v.le(norm3(a1 - dot3(F.e, Dref), a2 - dot3(F.n, Dref), a3 - dot3(F.u, Dref)), tolDx + 4 * EPS * dn + posD, "GravityCircle::Disturbance delta vs reference");
    double cW = c.W(g.lon, a1, a2, a3);
    v.le(fabsl(((L)cW - Vref - Phir) - Vref_lo), tolV + 4 * EPS * Phir + 4 * EPS * rr * gn, "GravityCircle::W vs reference");
    v.le(norm3(a1 - gref[0], a2 - gref[1], a3 - gref[2]), tolG + 4 * EPS * gn + posG, "GravityCircle::W gradient (geocentric) vs reference");
    double cV = c.V(g.lon, a1, a2, a3);
    v.le(fabsl(((L)cV - Vref) - Vref_lo), tolV + 4 * EPS * rr * gn, "GravityCircle::V vs reference");
    double cT = c.T(g.lon, a1, a2, a3), cT1 = c.T(g.lon);
    v.le(fabsl(cT - Tref), tolT + jerr * GMr + 4 * EPS * rr * (dn + tolDx), "GravityCircle::T vs reference");
    v.le(fabsl(cT1 - Tref), tolT + jerr * GMr + 4 * EPS * rr * (dn + tolDx), "GravityCircle::T (value only) vs reference");
    v.le(norm3(a1 - Dref[0], a2 - Dref[1], a3 - Dref[2]), tolDx + 4 * EPS * dn + posD, "GravityCircle::T gradient (geocentric) vs reference");
    if (pp > 1e-6L * rr) {
      double d1, x1, e1; c.SphericalAnomaly(g.lon, d1, x1, e1);
      v.le(fabsl((L)d1 - Dg01), 2 * (tolDp + 2 * tolTp / rr + 8 * EPS * (fabsl(dot3(er, Dp)) + 2 * fabsl(Tp) / rr)), "GravityCircle::SphericalAnomaly Dg01 vs model");
      v.le(fabsl((L)x1 - xi), 2 * ((tolDp + 8 * EPS * dn) / gam * deg + 8 * EPS * fabsl(dot3(en, Dp)) / gam * deg), "GravityCircle::SphericalAnomaly xi vs model");
      v.le(fabsl((L)e1 - eta), 2 * ((tolDp + 8 * EPS * dn) / gam * deg + 8 * EPS * fabsl(dot3(ee, Dp)) / gam * deg), "GravityCircle::SphericalAnomaly eta vs model");
    }
    double Nc = c.GeoidHeight(g.lon);
    if (g.h == 0 && haveN) { v.le(fabsl(Nc - Nref), tolN, "GravityCircle::GeoidHeight vs reference [m]"); v.tag("circle-geoid-height"); }
    else v.that(std::isnan(Nc), "GravityCircle::GeoidHeight with h != 0 must be NaN (GEOID_HEIGHT is honoured only for h = 0)");
    // a circle without capabilities returns NaN
    GravityCircle c0 = mod->Circle(g.lat, g.h, GravityModel::NONE);
    double n1, n2, n3; double Wn = c0.Gravity(g.lon, n1, n2, n3);
    v.that(std::isnan(Wn) && std::isnan(c0.T(g.lon)), "GravityCircle without capabilities must return NaN");
  }
  return v;
}

vf::Reg rf({"C19.f", "GravityModel/GravityCircle loaded from a synthetic .egm/.egm.cof pair (gravity set N<=40 with a realistic C20, optional correction set, Flattening plain or as a fraction or DynamicalFormFactor, HeightOffset, CorrectionMultiplier, both normalisations, Nmax/Mmax truncation, model/reference radius and mass differing): V, W = V + Phi, U, T = V - V0 (closed-form normal field in 100 digits; when the model degree is too low for the normal zonal series the series to that degree), gradients, rotation to east-north-up, SphericalAnomaly, GeoidHeight per the documented formulas, circle == model; non-trivial: degree >= 2", 0.09,
            [] { return rc::gen::exec([] { return gen_grav(); }); }, check_f, nullptr});

}  // namespace

// =================================================================================================
// C19.g  NormalGravity
namespace {

const L KN = 160;  // factor on eps for the normal-gravity potentials and gradients (calibrated: max seen 38)
// (KJ, defined with C19.f) J2 <-> flattening: just above the series/closed-form switch (4|y| >= 1) the closed expressions in Qf lose about
// two digits to cancellation ((1+3/y) atan - 3/y with y ~ 1/4: factor ~200), observed up to 110 eps of the scale

J gen_ng() {
  J r = J::obj();
  int cls = vf::g::wpick({25, 15, 60});
  double a, GM, omega, f;
  if (cls == 0) { a = 6378137.0; GM = 3.986004418e14; omega = 7.292115e-5; f = 1 / 298.257223563; }
  else if (cls == 1) { a = 6378137.0; GM = 3.986005e14; omega = 7.292115e-5; f = 1 / 298.257222101; }
  else {
    a = vf::g::coin() ? 6378137.0 : vf::g::loguni(1e-2, 1e9);
    GM = 9.8 * a * a * vf::g::loguni(0.01, 100);
    double wmax = std::sqrt(GM / (a * a * a));
    omega = vf::g::coin(1, 6) ? 0.0 : wmax * (vf::g::coin() ? vf::g::uni(0, 0.1) : vf::g::uni(0, 0.8)) * vf::g::sgn();
    switch (vf::g::wpick({15, 25, 25, 20, 15})) {
      case 0: f = 0; break;
      case 1: f = vf::g::sgn() * vf::g::loguni(1e-12, 1e-3); break;
      case 2: f = vf::g::sgn() * vf::g::loguni(1e-3, 0.5); break;
      case 3: f = vf::g::uni(-0.5, 0.5); break;
      default: f = vf::g::oneof<double>({0.2, -0.25, 1 / 298.257223563, -1 / 298.257223563, 0.1, -0.1, 0.4, -0.4, 1.0 / 9, -0.125});   // around the series/closed-form switch 4|y| < 1
    }
    if (vf::g::coin(1, 12)) GM = -GM;
  }
  r["a"] = J::num(a); r["GM"] = J::num(GM); r["omega"] = J::num(omega); r["f"] = J::num(f);
  r["viaJ2"] = J::integer(vf::g::coin(1, 4));
  r["lat"] = J::num(gg::latitude());
  r["lon"] = J::num(vf::g::uni(-180, 180));
  double b = a * (1 - f), mn = std::min(a, b);
  r["h"] = J::num(vf::g::wpick({30, 40, 15, 15}) == 0 ? 0.0 : (vf::g::coin(2, 3) ? mn * vf::g::sgn() * vf::g::loguni(1e-9, 0.1) : (vf::g::coin() ? -mn * vf::g::uni(0, 0.4) : a * vf::g::loguni(0.1, 100))));
  r["n"] = J::integer(2 * vf::g::irange(0, 15) + (vf::g::coin(1, 8) ? 1 : 0));
  return r;
}

Verdict check_g(const J& r) {
  Verdict v;
  double a = r.getd("a"), GM = r.getd("GM"), omega = r.getd("omega"), f = r.getd("f");
  double lat = r.getd("lat"), lon = r.getd("lon"), h = r.getd("h");
  int viaJ2 = (int)r.geti("viaJ2"), n = (int)r.geti("n");
  if (!(a >= 1e-3 && a <= 1e10) || !std::isfinite(GM) || GM == 0 || !std::isfinite(omega) || !(std::fabs(f) <= 0.5)) { v.skip("parameters beyond generated range"); return v; }
  L mrot = (L)omega * omega * a * a * a / fabsl(GM);
  if (!(mrot <= 0.7) || !(fabsl((L)GM) >= 0.05 * a * a) || !(fabsl((L)GM) <= 2000.0 * a * a)) { v.skip("parameters beyond generated range"); return v; }
  if (!(std::fabs(lat) <= 90) || !std::isfinite(lon) || std::fabs(lon) > 1e5 || n < 0 || n > 40) { v.skip("outside documented domain"); return v; }
  double b = a * (1 - f);
  if (!(h >= -0.45 * std::min(a, b) && h <= 200 * a)) { v.skip("height beyond generated range"); return v; }
  ng::Params P{a, GM, omega, f};
  v.tag(f > 0 ? "oblate" : f < 0 ? "prolate" : "sphere");
  v.tag(std::fabs(f) < 1e-6 ? "|f|<1e-6" : std::fabs(f) < 0.01 ? "|f|<0.01" : std::fabs(f) < 0.12 ? "|f|<0.12" : "|f|>=0.12");
  v.tag(omega == 0 ? "omega=0" : "rotating");
  if (GM < 0) v.tag("GM<0");
  std::unique_ptr<NormalGravity> ngp;
  L J2r = ng::J2(P);
  L e2 = (L)f * (2 - (L)f);
  L j2scale = fabsl(e2) / 3 + mrot / 3 + fabsl(J2r);     // sizes of the parts J2 is made of
  try {
    if (viaJ2 && GM > 0) {
      // physical specification: hand the reference J2 (rounded) to the constructor; the flattening it derives
      // must reproduce it (conditioning dJ2/df from the reference)
      double J2d = (double)J2r;
      ngp.reset(new NormalGravity(a, GM, omega, J2d, false));
      v.tag("constructed-from-J2");
      double fl = ngp->Flattening();
      ng::Params Pl{a, GM, omega, fl};
      v.le(fabsl(ng::J2(Pl) - (L)J2d), KJ * EPS * j2scale, "J2 of the flattening derived by the constructor vs the given J2");
      v.that(ngp->DynamicalFormFactor() == J2d, "DynamicalFormFactor() differs from the constructor argument");
      if (v.failed()) return v;
      P.f = fl; f = fl; b = a * (1 - f); e2 = (L)f * (2 - (L)f);
    } else {
      ngp.reset(new NormalGravity(a, GM, omega, f, true));
      v.tag("constructed-from-f");
      v.that(ngp->Flattening() == f, "Flattening() differs from the constructor argument");
      if (GM > 0) v.le(fabsl(ngp->DynamicalFormFactor() - J2r), KJ * EPS * j2scale, "DynamicalFormFactor() vs J2 from the moments of inertia of the documented mass distribution");
    }
  } catch (const GeographicErr& e) { v.that(false, std::string("admissible parameters rejected: ") + e.what()); return v; }
  const NormalGravity& N = *ngp;
  v.that(N.Init() && N.EquatorialRadius() == a && N.MassConstant() == GM && N.AngularVelocity() == omega, "inspectors differ from the constructor arguments");
  // ---- static conversions
  if (GM > 0) {
    double j2 = NormalGravity::FlatteningToJ2(a, GM, omega, f);
    v.le(fabsl(j2 - J2r), KJ * EPS * j2scale, "FlatteningToJ2(f) vs reference J2");
    double fb = NormalGravity::J2ToFlattening(a, GM, omega, j2);
    // J2 is known to eps * j2scale only, so f comes back to that over dJ2/df
    L dj = fabsl(ng::dJ2df(P));
    v.le(fabsl((L)fb - (L)f), KJ * EPS * (j2scale / dj + fabsl((L)f)), "J2ToFlattening(FlatteningToJ2(f)) = f");
  }
  // ---- constants
  L U0r = ng::U0(P), ger = ng::gamma_e(P), gpr = ng::gamma_p(P);
  L GMa = fabsl((L)GM) / std::min(a, b), rotp = (L)omega * omega * a * a;
  L gsc = fabsl((L)GM) / (std::min(a, b) * std::min(a, b)) + (L)omega * omega * std::max(a, b) * 3;
  v.le(fabsl(N.SurfacePotential() - U0r), KN * EPS * (GMa + rotp), "SurfacePotential() vs closed form");
  v.le(fabsl(N.EquatorialGravity() - ger), KJ * EPS * gsc, "EquatorialGravity() vs closed form");
  v.le(fabsl(N.PolarGravity() - gpr), KJ * EPS * gsc, "PolarGravity() vs closed form");
  if (fabsl(ger) > 1e-3L * gsc) v.le(fabsl(N.GravityFlattening() - (gpr - ger) / ger), KJ * EPS * gsc / fabsl(ger) * (1 + fabsl(gpr / ger)), "GravityFlattening() = (gamma_p - gamma_e)/gamma_e");
  // ---- surface gravity: Somigliana
  L sg = ng::surface_gravity(P, lat);
  v.le(fabsl(N.SurfaceGravity(lat) - sg), KJ * EPS * gsc, "SurfaceGravity(lat) vs Somigliana's formula");
  // ---- on the ellipsoid: U = U0, gravity normal to the surface
  {
    double gy, gz; double U = N.Gravity(lat, 0, gy, gz);
    v.le(fabsl(U - U0r), KN * EPS * (GMa + rotp), "U on the ellipsoid is the constant U0");
    v.le(fabsl(gy), KJ * EPS * gsc, "northerly normal gravity vanishes on the ellipsoid");
    v.le(fabsl(-gz - sg), KJ * EPS * gsc, "-gamma_z on the ellipsoid equals the surface gravity");
  }
  // ---- anywhere: potentials and gradients against the closed form
  Frame F = geodetic_frame(a, f, lat, lon, h);
  double X = (double)F.X[0], Y = (double)F.X[1], Z = (double)F.X[2];
  L rr = norm3(X, Y, Z), pp = hypotl(X, Y);
  if (!(rr > 0)) { v.skip("origin"); return v; }
  ng::Pot p = ng::potential(P, X, Y, Z, true);
  if (!p.ok) { v.skip("normal-gravity oracle self-check (Laplace residual) failed"); return v; }
  if (!(p.uob >= 0.5L)) { v.skip("point deep inside the ellipsoid (close to the focal set)"); return v; }
  v.tag(h == 0 ? "on-ellipsoid" : h > 0 ? "outside" : "inside");
  v.nontrivial = true;
  L scl = p.Um + p.Uq, w2 = (L)omega * omega;
  // inside the ellipsoid the confocal coordinates are ill-conditioned towards the focal set: 1/uob^2
  L cond = 1 / std::min<L>(1, p.uob * p.uob);
  double G1, G2, G3, u1, u2, u3, fX, fY;
  double V0 = N.V0(X, Y, Z, G1, G2, G3);
  v.le(fabsl(((L)V0 - p.V0) - p.V0lo), KN * EPS * scl * cond, "V0 vs closed form [m^2/s^2]");
  v.le(norm3(G1 - p.G[0], G2 - p.G[1], G3 - p.G[2]), KN * EPS * 3 * scl / rr * cond, "grad V0 vs derivative of the closed form [m/s^2]");
  double Ph = N.Phi(X, Y, fX, fY);
  v.le(fabsl(Ph - p.Phi), 8 * EPS * p.Phi, "Phi = omega^2 (X^2 + Y^2)/2");
  v.le(hypotl(fX - w2 * X, fY - w2 * Y), 8 * EPS * w2 * pp, "grad Phi");
  double U = N.U(X, Y, Z, u1, u2, u3);
  v.le(fabsl(((L)U - p.U) - p.Ulo), KN * EPS * (scl * cond + p.Phi), "U = V0 + Phi vs closed form [m^2/s^2]");
  v.le(norm3(u1 - p.gam[0], u2 - p.gam[1], u3 - p.gam[2]), KN * EPS * (3 * scl / rr * cond + w2 * pp), "gamma = grad U vs derivative of the closed form [m/s^2]");
  // Gravity(lat, h): the same in the meridian frame (north, up)
  {
    double gy, gz; double Ug = N.Gravity(lat, h, gy, gz);
    Frame F0 = geodetic_frame(a, f, lat, 0, h);
    ng::Pot p0 = ng::potential_geodetic(P, lat, h, true);
    L gn = norm3(p0.gam[0], p0.gam[1], p0.gam[2]);
    v.le(fabsl(((L)Ug - p0.U) - p0.Ulo), KN * EPS * (scl * cond + p.Phi) + 4 * EPS * rr * gn, "Gravity(lat, h): U");
    v.le(hypotl(gy - dot3(F0.n, p0.gam), gz - dot3(F0.u, p0.gam)), KN * EPS * (3 * scl / rr * cond + w2 * pp) * 2 + 8 * EPS * gn, "Gravity(lat, h): (gamma_y, gamma_z)");
  }
  // harmonic outside: divergence of the returned Gamma by central differences (library only)
  if (h >= 0 && scl > 0) {
    L hs = rr * 1e-5L, div = 0;
    for (int i = 0; i < 3; ++i) {
      double pl[3] = {X, Y, Z}, mi[3] = {X, Y, Z};
      pl[i] = (double)((L)pl[i] + hs); mi[i] = (double)((L)mi[i] - hs);
      double gp[3], gm[3];
      N.V0(pl[0], pl[1], pl[2], gp[0], gp[1], gp[2]); N.V0(mi[0], mi[1], mi[2], gm[0], gm[1], gm[2]);
      div += ((L)gp[i] - (L)gm[i]) / ((L)pl[i] - (L)mi[i]);
    }
    // round-off eps |Gamma| / h per term, truncation h^2 |Gamma'''| ~ (h/r)^2 60 |Gamma|/r
    v.le(fabsl(div), 12 * (KN * EPS * 3 * scl / rr / hs + 60 * 1e-10L * 3 * scl / (rr * rr)), "div Gamma = 0 outside (V0 harmonic)");
  }
  // ---- zonal coefficients
  if (GM > 0) {
    L jerr = 0; std::vector<L> Jr = ng::zonal_J(P, std::max(n, 2), &jerr);
    double Jn = N.DynamicalFormFactor(n);
    // size of the two parts of the documented series coefficient (they cancel for some n): 3 e^n (|1-k| + 5k |J2|/e^2)/((n+1)(n+3)), k = n/2
    int k = n / 2;
    L parts = (n & 1) ? 0 : 3 * powl(fabsl(e2), k) * (fabsl((L)1 - k) + (e2 != 0 ? 5 * k * fabsl(J2r) / fabsl(e2) : 0)) / ((2 * k + 1.0L) * (2 * k + 3.0L));
    if (n == 2) parts = j2scale;
    if (n == 0) parts = 1;
    v.tag(n & 1 ? "J_odd" : "J_even");
    // (f = 0 used to give NaN here: findings/C19-normalgravity-sphere-Jn.md, fixed bde2740)
    v.le(fabsl(Jn - Jr[(size_t)n]), KJ * EPS * (k + 2) * parts + jerr, "DynamicalFormFactor(n) vs zonal coefficient of the closed-form potential");
  }
  return v;
}

vf::Reg rg({"C19.g", "NormalGravity for (a, GM, omega, f) around WGS84/GRS80 and scattered (f in [-0.5, 0.5] incl. 0 and the series/closed-form switch, omega incl. 0, GM < 0) or constructed from J2: U = U0 on the ellipsoid, V0/U/gradients vs the closed form in 100 digits at points outside/on/inside, div Gamma = 0 outside, SurfaceGravity = Somigliana, gamma_e/gamma_p/f*, J_n vs the zonal projection of the closed form, FlatteningToJ2/J2ToFlattening round trip", 0.17,
            [] { return rc::gen::exec([] { return gen_ng(); }); }, check_g, nullptr});

}  // namespace


VF_MAIN
