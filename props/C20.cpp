// C20 - geoid heights independent of cache history (DESIGN 3/C20); flavour "san" (ASan + UBSan).
//
// Sub-checks, oracle, tolerances
//   C20.a  values vs R-GEOID (ref/geoid_ref.hpp: bilinear; cubic = weighted least-squares fit of the documented 12-point
//          stencil solved per query in long double, pole rows with the longitude-independent constraint) and the
//          structural relations (nodes, affine edges, continuity, periodicity, polynomial reproduction, pole value)
//          tol: KR eps (scale vmax G + |offset|) + 4 eps |grad| * (|x|,|y| in cells)   (tol_height)
//   C20.b  histories: every query == R-GEOID and bit-for-bit == fresh object, CacheAll object, thread-safe object
//   C20.c  histories dominated by ConvertHeight (h + d N, round trip, NaN)
//   C20.d  histories dominated by cache operations and inspectors; thread-safe CacheArea/CacheAll throw
//   C20.e  single-field corruptions of a valid file are rejected with GeographicErr
//
// MUTATION TABLE.  Scratch copy of /repo HEAD under /tmp/mutC19, one edit each, run with
// `VERIF_REPO=/tmp/mutC19/m python3 check.py C20 --tier quick`; "caught by" = sub-checks with confirmed violations.
//   cell cache key ignores iy / ignores ix                             caught by a b c d
//   cubic: _t[] not refreshed (stale coefficients)                     caught by a b c d
//   bilinear: _v01 not refreshed                                       caught by a b c d
//   CacheArea: second (wrapped) read starts at column 1                caught by b c d
//   CacheArea: ie/iw wrap adjustment in the wrong order                caught by b c d   (bad_alloc / wrong values)
//   rawval: wrapped cache index off by one                             caught by b c d   (history dependence)
//   rawval: pole reflection ix +- w/2 replaced                         caught by a b c d
//   CacheArea: pole rows not shifted by w/2 / reflected row off by one caught by b c d;  b c d
//   c3_ entry (-88 -> -87), c3_ cubic-term entry (-60 -> -61)          caught by a b c d
//   c3n_ entry, c3s_ entry                                             caught by a b c d
//   c0_ 240 -> 241, c0n_ 372 -> 373                                    caught by a b c d
//   table selection iy == height-2 -> height-1                         caught by a b c d
//   rawval byte order                                                  caught by a b c d
//   cache byte order (readarray bigendian flag)                        caught by b c d
//   bilinear weights swapped                                           caught by a b c d
//   stencil gather (ix+2, iy+1) -> (ix+1, iy+1)                        caught by a b c d
//   CacheClear leaves _cache set                                       caught by b c d   (Cache() inspector)
//   thread-safe CacheArea returns instead of throwing                  caught by b c d
//   ConvertHeight sign                                                 caught by b c d
//   constructor accepts negative scale / odd width / longer file       caught by e
//   CacheWest inspector                                                caught by b c d
//   height(): NaN test removed                                         caught by a   (UBSan float-cast trap)
//   height(): ix >= _width -> ix > _width                              NOT caught: dead code (|lon| <= 180 gives |ix| <= w/2)
//   seeded/fix-reverts F41 (north-pole row clamp)                      caught by a b c
// 29 of 30 edits and the fix-revert caught; the survivor is an equivalent mutant.
#include "fw/harness.hpp"
#include "gen/c20_raster.hpp"
#include "ref/geoid_ref.hpp"

#include <GeographicLib/Geoid.hpp>

#include <cstring>
#include <memory>

using namespace GeographicLib;
using vf::J; using vf::Verdict;
using namespace c20;
namespace rg = ref::geoid;

namespace {

const double EPS = 2.220446049250313e-16;

// ------------------------------------------------------------------------------------------------
// Tolerance of one interpolated height against R-GEOID (no accuracy figure is documented for the arithmetic
// itself; DESIGN: bilinear 4 ulp * scale * 65535).
//   round-off: KR eps (scale * vmax_stencil * G + |offset|), G = 1 bilinear; the cubic coefficients t_i are sums
//              of 12 pixel values times table entries / c0 and reach ~4 vmax, Horner adds a few more: G = 16
//   position : the cell fractions are computed from lon * (w/360) and lat * ((h-1)/180) in double: an error of
//              ~2 eps max(1,|x|) cells, times the gradient of the interpolant (per cell)
// KR calibrated: observed max over 6 seeds 1.6 eps of this law (bilinear and cubic)
const L KR = 8;
L tol_height(const rg::Raster& r, const rg::Val& v, bool cubic, L xabs, L yabs) {
  L G = cubic ? 16 : 1;
  return KR * EPS * ((L)r.scale * std::max<L>(v.vmax, 1) * G + fabsl((L)r.offset)) +
         4 * EPS * (fabsl(v.dhdx) * std::max<L>(1, xabs) + fabsl(v.dhdy) * std::max<L>(1, yabs));
}

// best agreement of a library value with the reference over the admissible cells; returns err/tol and sets err, tol
struct Cmp { L err = 0, tol = 0; bool polecell = false, wrap = false; rg::Cell cell; };
bool compare(const rg::Raster& r, bool cubic, double lat, double lon, double hlib, Cmp& out) {
  L xa, ya; std::vector<rg::Cell> cells = rg::locate(r, lat, lon, &xa, &ya);
  bool have = false; L bestratio = 0;
  for (const rg::Cell& c : cells) {
    rg::Val v;
    if (cubic) { if (!rg::cubic(r, c, v)) continue; } else v = rg::bilinear(r, c);
    L tol = tol_height(r, v, cubic, xa, ya), err = fabsl((L)hlib - v.h), ratio = err / tol;
    if (!have || ratio < bestratio) {
      have = true; bestratio = ratio; out.err = err; out.tol = tol; out.cell = c;
      long ixm = ((c.ix % r.w) + r.w) % r.w;
      out.polecell = c.iy == 0 || c.iy == r.h - 2;
      out.wrap = cubic ? (ixm == 0 || ixm >= r.w - 2) : (ixm == r.w - 1);
    }
  }
  return have;
}

// Fixed finding (findings/C20-geoid-northpole-cell.md, /repo 1d93f01, reverse patch seeded/fix-reverts/F41): Geoid::height
// clamped the cell row only at the south end; for raster heights with an inexact (h-1)/180 (59, 111, 117, ...) a query at
// lat = 90 landed in row -1 beyond the pole: unconstrained cubic fit, and a thread-safe object threw.  Caught by the pole
// relations of C20.a and by "height() threw" in the histories; no exception is made for it any more.

inline bool same_bits(double a, double b) { return (std::isnan(a) && std::isnan(b)) || std::memcmp(&a, &b, sizeof a) == 0; }

// ------------------------------------------------------------------------------------------------
struct RasterCase {
  rg::Raster r; int kind = 0, hdr = 0; uint64_t seed = 1; Poly poly; bool poly_ok = false; Header H;
  std::string dir, name, path;
  bool valid = false; std::string why;
  ~RasterCase() { if (!path.empty()) std::remove(path.c_str()); }
};

void gen_raster(J& r) {
  int w, h;
  switch (vf::g::wpick({35, 38, 15, 9, 3})) {
    case 0: w = 2 * (int)vf::g::irange(1, 4); h = 2 * (int)vf::g::irange(1, 3) + 1; break;
    case 1: w = 2 * (int)vf::g::irange(1, 20); h = 2 * (int)vf::g::irange(1, 10) + 1; break;
    case 2: w = 2 * (int)vf::g::irange(21, 90); h = 2 * (int)vf::g::irange(11, 45) + 1; break;
    case 3: w = vf::g::oneof<int>({90, 180, 360, 720}); h = vf::g::oneof<int>({91, 181, 361}); if (w * h > 720 * 181) h = 91; break;   // spacing exactly representable
    default: w = 720; h = 361;
  }
  r["w"] = J::integer(w); r["h"] = J::integer(h);
  r["kind"] = J::integer(vf::g::wpick({35, 25, 25, 15}));
  r["rseed"] = J::integer(vf::g::irange(1, 1000000000));
  r["offset"] = J::num(vf::g::wpick({30, 30, 40}) == 0 ? -108.0 : (vf::g::coin() ? 0.0 : vf::g::uni(-200, 200)));
  r["scale"] = J::num(vf::g::wpick({40, 20, 40}) == 0 ? 0.003 : (vf::g::coin() ? 1.0 : vf::g::loguni(1e-4, 10)));
  r["hdr"] = J::integer(vf::g::irange(0, 511));
}

void load_raster(const J& rec, RasterCase& c) {
  auto bad = [&](const char* w) { c.why = w; };
  int w = (int)rec.geti("w"), h = (int)rec.geti("h");
  c.kind = (int)rec.geti("kind"); c.seed = (uint64_t)rec.geti("rseed"); c.hdr = (int)rec.geti("hdr");
  double off = rec.getd("offset"), sc = rec.getd("scale");
  if (w < 2 || w > 720 || (w & 1) || h < 3 || h > 361 || !(h & 1)) return bad("raster size outside even 2..720 x odd 3..361");
  if (c.kind < 0 || c.kind >= NKIND || c.hdr < 0 || c.hdr > 511) return bad("bad raster kind");
  if (!std::isfinite(off) || std::fabs(off) > 1e6 || !(sc > 0) || !(sc >= 1e-6 && sc <= 1e3)) return bad("offset/scale beyond generated range");
  c.r.w = w; c.r.h = h; c.r.offset = off; c.r.scale = sc;
  fill(c.r, c.kind, c.seed, &c.poly, &c.poly_ok);
  c.valid = true;
}

void write_raster(RasterCase& c, int corrupt = 0) {
  c.dir = tmpdir(); c.name = unique_name("c20g"); c.path = c.dir + "/" + c.name + ".pgm";
  vf::spit(c.path, pgm_bytes(c.r, c.hdr, corrupt, &c.H));
}

void tag_raster(Verdict& v, const RasterCase& c, bool cubic) {
  static const char* kn[] = {"pixels-random", "pixels-smooth", "pixels-polynomial", "pixels-extreme"};
  v.tag(kn[c.kind]);
  v.tag(cubic ? "cubic" : "bilinear");
  long n = (long)c.r.w * c.r.h;
  v.tag(n <= 56 ? "raster-tiny" : n <= 840 ? "raster-small" : n <= 16380 ? "raster-medium" : "raster-large");
}

// a query point of a named class
struct Pt { double lat, lon; };
Pt gen_point(int w, int h) {
  Pt p;
  double dlon = 360.0 / w, dlat = 180.0 / (h - 1);
  int ix = (int)vf::g::irange(0, w - 1), iy = (int)vf::g::irange(0, h - 1);
  switch (vf::g::wpick({30, 14, 12, 10, 8, 8, 8, 10})) {
    case 0: p.lat = vf::g::uni(-90, 90); p.lon = vf::g::uni(-180, 180); break;
    case 1: p.lat = vf::g::ulps(90 - iy * dlat, (int)vf::g::irange(-2, 2)); p.lon = vf::g::ulps(ix * dlon - (vf::g::coin() ? 360 : 0), (int)vf::g::irange(-2, 2)); break;   // node +- ulps
    case 2: p.lat = 90 - iy * dlat; p.lon = vf::g::uni(-180, 180); break;                        // on a row
    case 3: p.lat = vf::g::uni(-90, 90); p.lon = ix * dlon - (vf::g::coin() ? 360 : 0); break;   // on a column
    case 4: p.lat = vf::g::coin() ? 90 : -90; p.lon = vf::g::uni(-180, 180); break;              // pole
    case 5: p.lat = vf::g::sgn() * (90 - dlat * vf::g::uni(0, 1.2)); p.lon = vf::g::uni(-180, 180); break;   // polar cell row
    case 6: p.lat = vf::g::uni(-90, 90); p.lon = vf::g::oneof<double>({180.0, -180.0, 0.0, 360.0, -360.0, 720.0, 540.0}) + (vf::g::coin() ? 0.0 : dlon * vf::g::uni(-1.5, 1.5)); break;  // seam
    default: p.lat = vf::g::uni(-90, 90); p.lon = vf::g::uni(-180, 180) + 360.0 * (double)vf::g::irange(-3, 3);
  }
  if (p.lat > 90) p.lat = 90; if (p.lat < -90) p.lat = -90;
  return p;
}

// ------------------------------------------------------------------------------------------------
// C20.a: values against R-GEOID and the structural relations of the interpolants (no cache involved)
J gen_a() {
  J r = J::obj(); gen_raster(r);
  r["cubic"] = J::integer(vf::g::coin());
  int w = (int)r.geti("w"), h = (int)r.geti("h");
  J pts = J::arr();
  for (int i = 0; i < 6; ++i) { Pt p = gen_point(w, h); J q = J::obj(); q["lat"] = J::num(p.lat); q["lon"] = J::num(p.lon); pts.push(q); }
  r["pts"] = pts;
  // structured probes
  r["ix"] = J::integer(vf::g::irange(0, w - 1)); r["iy"] = J::integer(vf::g::irange(0, h - 2));
  r["fa"] = J::num(vf::g::uni(0, 1)); r["fb"] = J::num(vf::g::uni(0, 1));
  r["k360"] = J::integer(vf::g::irange(-5, 5));
  return r;
}

Verdict check_a(const J& rec) {
  Verdict v;
  RasterCase c; load_raster(rec, c);
  if (!c.valid) { v.skip(c.why); return v; }
  bool cubic = rec.geti("cubic") != 0;
  if (!rec.has("pts") || rec.at("pts").t != J::ARR) { v.skip("no points"); return v; }
  long ix = (long)rec.geti("ix"), iy = (long)rec.geti("iy"); double fa = rec.getd("fa"), fb = rec.getd("fb"); long k360 = (long)rec.geti("k360");
  if (ix < 0 || ix >= c.r.w || iy < 0 || iy > c.r.h - 2 || !(fa >= 0 && fa <= 1) || !(fb >= 0 && fb <= 1) || std::labs(k360) > 1000) { v.skip("probe outside the raster"); return v; }
  write_raster(c);
  std::unique_ptr<Geoid> g;
  try { g.reset(new Geoid(c.name, c.dir, cubic, false)); }
  catch (const GeographicErr& e) { v.that(false, std::string("valid raster rejected: ") + e.what()); return v; }
  tag_raster(v, c, cubic);
  { bool varies = false; for (uint16_t px : c.r.px) if (px != c.r.px[0]) { varies = true; break; }
    v.nontrivial = varies; if (!varies) v.tag("constant-raster"); }
  const rg::Raster& r = c.r;
  auto height = [&](double lat, double lon) { return (*g)(lat, lon); };
  // (1) generated points
  for (const J& q : rec.at("pts").a) {
    double lat = q.getd("lat"), lon = q.getd("lon");
    if (!(std::fabs(lat) <= 90) || !std::isfinite(lon) || std::fabs(lon) > 1e6) { v.skip("point outside the documented domain"); return v; }
    double hl = height(lat, lon);
    Cmp m;
    if (!compare(r, cubic, lat, lon, hl, m)) { v.skip("reference fit singular"); return v; }
    v.le(m.err, m.tol, cubic ? "cubic height vs weighted least-squares fit of the 12-point stencil [m]" : "bilinear height vs reference [m]");
    if (m.polecell) v.tag("pole-stencil");
    if (m.wrap) v.tag("stencil-wraps-lon");
    if (std::fabs(lat) == 90) v.tag("at-pole");
  }
  double dlon = 360.0 / r.w, dlat = 180.0 / (r.h - 1);
  bool exact_grid = (r.w == 90 || r.w == 180 || r.w == 360 || r.w == 720) && (r.h == 91 || r.h == 181 || r.h == 361);
  if (exact_grid) v.tag("exact-grid");
  // (2) periodic in longitude: lon on a 2^-20 lattice so that lon + 360 k is exact
  {
    double lat = 90 - (iy + fa) * dlat, lon = std::round((ix + fb) * dlon * 1048576.0) / 1048576.0;
    if (lon >= 180) lon -= 360;
    double h0 = height(lat, lon), h1 = height(lat, lon + 360.0 * (double)k360);
    Cmp m; if (compare(r, cubic, lat, lon, h0, m))
      v.le(fabsl((L)h0 - (L)h1), m.tol, "periodic in longitude: h(lat, lon) vs h(lat, lon + 360 k) [m]");
  }
  if (!cubic) {
    // (3) nodes: grid value.  On grids whose spacing and reciprocal are exactly representable the node is hit
    // exactly and the value must be offset + scale * pixel (as computed in double); otherwise to tolerance
    double lat = 90 - iy * dlat, lon = ix * dlon; if (lon >= 180) lon -= 360;
    double hn = height(lat, lon);
    L pix = r.at(ix, iy);
    if (exact_grid) v.that(same_bits(hn, r.offset + r.scale * (double)pix), "bilinear height at a grid node differs from offset + scale * pixel");
    Cmp m; if (compare(r, cubic, lat, lon, hn, m)) v.le(fabsl((L)hn - ((L)r.offset + (L)r.scale * pix)), 24 * m.tol, "bilinear height at a grid node vs offset + scale * pixel [m]");   // the node coordinates are rounded too
    // (4) affine along cell edges (exact grids: the three points lie exactly on the edge)
    if (exact_grid) {
      double la = lat, lo0 = ix * dlon, lo1 = lo0 + dlon * 0.25, lo2 = lo0 + dlon * 0.75;   // row edge; 0.25/0.75 of a dyadic spacing are exact
      auto nl = [](double x) { return x >= 180 ? x - 360 : x; };
      double a0 = height(la, nl(lo0)), a1 = height(la, nl(lo1)), a2 = height(la, nl(lo2));
      L sc = (L)r.scale * 65535 + fabsl((L)r.offset);
      // second difference along the edge: a0 - 1.5 a1 + 0.5 a2 = 0 for an affine function of lon (points at 0, 1/4, 3/4)
      v.le(fabsl((L)a0 - 1.5L * a1 + 0.5L * a2), 3 * KR * EPS * sc, "bilinear height is affine along a row edge [m]");
      double lo = nl(lo0), la0 = 90 - iy * dlat, la1 = la0 - dlat * 0.25, la2 = la0 - dlat * 0.75;
      double b0 = height(la0, lo), b1 = height(la1, lo), b2 = height(la2, lo);
      v.le(fabsl((L)b0 - 1.5L * b1 + 0.5L * b2), 3 * KR * EPS * sc, "bilinear height is affine along a column edge [m]");
    }
    // (5) continuous across a cell boundary: a few ulps left and right of a column / row
    {
      double la = 90 - (iy + fa) * dlat, lo = ix * dlon; if (lo >= 180) lo -= 360;
      double lm = vf::g::ulps(lo, -3), lp = vf::g::ulps(lo, 3);
      if (lo == -180) lm = vf::g::ulps(180.0, -3);
      double hm = height(la, lm), hp = height(la, lp);
      Cmp m1, m2;
      if (compare(r, false, la, lm, hm, m1) && compare(r, false, la, lp, hp, m2)) {
        rg::Val v1 = rg::bilinear(r, m1.cell), v2 = rg::bilinear(r, m2.cell);
        L dx = 8 * EPS * std::max<L>(1, fabsl((L)lo)) / dlon;
        v.le(fabsl((L)hm - (L)hp), m1.tol + m2.tol + (fabsl(v1.dhdx) + fabsl(v2.dhdx)) * dx, "bilinear height is continuous across a column [m]");
      }
      double lo2 = (ix + fb) * dlon; if (lo2 >= 180) lo2 -= 360;
      double la0 = 90 - (iy + 1) * dlat;
      if (iy + 1 <= r.h - 2) {
        double lam = vf::g::ulps(la0, -3), lap = vf::g::ulps(la0, 3);
        double h1 = height(lam, lo2), h2 = height(lap, lo2);
        Cmp m1b, m2b;
        if (compare(r, false, lam, lo2, h1, m1b) && compare(r, false, lap, lo2, h2, m2b)) {
          rg::Val v1 = rg::bilinear(r, m1b.cell), v2 = rg::bilinear(r, m2b.cell);
          L dy = 8 * EPS * 90 / dlat;
          v.le(fabsl((L)h1 - (L)h2), m1b.tol + m2b.tol + (fabsl(v1.dhdy) + fabsl(v2.dhdy)) * dy, "bilinear height is continuous across a row [m]");
        }
      }
    }
  } else {
    // (6) cubic-polynomial rasters are reproduced where the stencil sees the polynomial (no seam, no pole rows)
    if (c.kind == POLY && c.poly_ok && ix >= 1 && ix + 2 <= r.w - 1 && iy >= 1 && iy + 2 <= r.h - 1 && iy != r.h - 2) {
      double lat = 90 - (iy + fa) * dlat, lon = (ix + fb) * dlon; if (lon >= 180) lon -= 360;
      double hl = height(lat, lon);
      L x = rg::norm_lon(lon) * r.w / 360.0L; if (x < 0) x += r.w;
      L y = (90.0L - (L)lat) * (r.h - 1) / 180.0L;
      if (x >= ix && x <= ix + 1 && y >= iy && y <= iy + 1) {
        L p = poly_atl(c.poly, x, y);
        // gradient of the polynomial for the position term
        L hh = 1e-6L, gx = (poly_atl(c.poly, x + hh, y) - poly_atl(c.poly, x - hh, y)) / (2 * hh), gy = (poly_atl(c.poly, x, y + hh) - poly_atl(c.poly, x, y - hh)) / (2 * hh);
        rg::Val pv; pv.vmax = 65535; pv.dhdx = (L)r.scale * gx; pv.dhdy = (L)r.scale * gy;
        v.le(fabsl((L)hl - ((L)r.offset + (L)r.scale * p)), tol_height(r, pv, true, fabsl(rg::norm_lon(lon)) * r.w / 360, y), "cubic interpolation reproduces a cubic-polynomial raster [m]");
        v.tag("polynomial-reproduced");
      }
    }
    // (7) at a pole the cubic value does not depend on the longitude within the cell
    for (int s = 0; s < 2; ++s) {
      double lat = s ? -90 : 90;
      double l1 = (ix + 0.05 + 0.4 * fa) * dlon, l2 = (ix + 0.55 + 0.4 * fb) * dlon;
      if (l1 >= 180) l1 -= 360; if (l2 >= 180) l2 -= 360;
      double h1 = height(lat, l1), h2 = height(lat, l2);
      Cmp m;
      if (compare(r, true, lat, l1, h1, m)) v.le(fabsl((L)h1 - (L)h2), 2 * m.tol, "cubic height at a pole is independent of the longitude within a cell [m]");
    }
  }
  // (8) NaN in, NaN out; latitude beyond the poles is not a latitude
  v.that(std::isnan(height(std::nan(""), 10)) && std::isnan(height(10, std::nan(""))) && std::isnan(height(90.0000001, 0)) && std::isnan(height(-91, 0)), "NaN / out-of-range latitude must give NaN");
  return v;
}

// ------------------------------------------------------------------------------------------------
// C20.b/c/d: histories.  op kinds: 0 query, 1 ConvertHeight, 2 CacheArea, 3 CacheAll, 4 CacheClear, 5 reopen
J gen_hist(int focus) {
  J r = J::obj(); gen_raster(r);
  int w = (int)r.geti("w"), h = (int)r.geti("h");
  double dlon = 360.0 / w, dlat = 180.0 / (h - 1);
  r["cubic"] = J::integer(vf::g::coin()); r["ts"] = J::integer(vf::g::coin(1, 6));
  int len = (int)vf::g::sized(4, 60);
  if (vf::g::coin(1, 4)) len = (int)vf::g::irange(30, 60);
  J ops = J::arr();
  Pt last{0, 0}; bool havelast = false; double cs = 0, cw = 0, cn = 0, ce = 0; bool havearea = false;
  for (int i = 0; i < len; ++i) {
    J o = J::obj();
    int k;
    if (focus == 0) k = vf::g::wpick({52, 8, 16, 5, 7, 8, 0});
    else if (focus == 1) k = vf::g::wpick({30, 55, 5, 2, 3, 5, 0});
    else k = vf::g::wpick({25, 3, 35, 10, 12, 15, 0});
    if (k == 0 || k == 1) {
      Pt p;
      int how = vf::g::wpick({45, 25, 30});
      if (how == 1 && havelast) {           // same cell / neighbouring cell as the previous query: last-cell cache
        p.lat = last.lat + dlat * vf::g::uni(-0.6, 0.6) * (vf::g::coin() ? 0.1 : 1); p.lon = last.lon + dlon * vf::g::uni(-0.6, 0.6) * (vf::g::coin() ? 0.1 : 1);
        if (vf::g::coin(1, 5)) { p.lat = last.lat; p.lon = last.lon; }
      } else if (how == 2 && havearea) {    // around the edges of the cached area
        p.lat = (vf::g::coin() ? cs : cn) + dlat * vf::g::uni(-2.5, 2.5); p.lon = (vf::g::coin() ? cw : ce) + dlon * vf::g::uni(-2.5, 2.5);
        if (vf::g::coin(1, 3)) p.lat = vf::g::uni(std::min(cs, cn), std::max(cs, cn));
      } else p = gen_point(w, h);
      if (p.lat > 90) p.lat = 90; if (p.lat < -90) p.lat = -90;
      if (focus == 1 && vf::g::coin(1, 10)) { if (vf::g::coin()) p.lat = std::nan(""); else p.lon = std::nan(""); }
      if (focus == 1 && vf::g::coin(1, 20)) p.lat = vf::g::sgn() * vf::g::uni(90.001, 1000);
      o["k"] = J::integer(k); o["lat"] = J::num(p.lat); o["lon"] = J::num(p.lon);
      if (k == 1) {
        double hh = vf::g::wpick({40, 30, 20, 10}) == 0 ? vf::g::uni(-500, 9000) : (vf::g::coin() ? vf::g::sgn() * vf::g::loguni(1e-12, 1e8) : 0.0);
        if (focus == 1 && vf::g::coin(1, 15)) hh = std::nan("");
        o["hh"] = J::num(hh); o["dir"] = J::integer(vf::g::oneof<int>({-1, 1, 1, -1, 0}));
      }
      if (std::isfinite(p.lat) && std::isfinite(p.lon)) { last = p; havelast = true; }
    } else if (k == 2) {
      double s, wq, n, e;
      switch (vf::g::wpick({30, 15, 15, 10, 10, 10, 10})) {
        case 0: { Pt c = havelast ? last : gen_point(w, h); double a = dlat * vf::g::uni(0, 3), b = dlon * vf::g::uni(0, 3);   // a box around a query point
                  s = c.lat - a; n = c.lat + a; wq = c.lon - b; e = c.lon + b; break; }
        case 1: wq = 180 - dlon * vf::g::uni(0, 4); e = -180 + dlon * vf::g::uni(0, 4); s = vf::g::uni(-90, 0); n = vf::g::uni(0, 90); break;     // across the date line
        case 2: if (vf::g::coin()) { n = 90; s = 90 - dlat * vf::g::uni(0, 3); } else { s = -90; n = -90 + dlat * vf::g::uni(0, 3); }              // touching a pole
                wq = vf::g::uni(-180, 180); e = wq + dlon * vf::g::uni(0, 6); break;
        case 3: n = vf::g::uni(-90, 80); s = n + vf::g::uni(0.001, 10); wq = vf::g::uni(-180, 180); e = vf::g::uni(-180, 180); break;            // inverted: clears
        case 4: s = -90; n = 90; wq = vf::g::oneof<double>({0.0, -180.0, 17.0}); e = wq + (vf::g::coin() ? 360 : 0); break;                         // whole globe (east == west means 360)
        case 5: wq = -dlon * vf::g::uni(0, 3); e = dlon * vf::g::uni(0, 3); s = vf::g::uni(-90, 90); n = std::min(90.0, s + dlat * vf::g::uni(0, 5)); break;   // across lon = 0
        default: s = vf::g::uni(-90, 90); n = vf::g::uni(s, 90); wq = vf::g::uni(-540, 540); e = vf::g::uni(-540, 540);
      }
      s = std::max(-90.0, std::min(90.0, s)); n = std::max(-90.0, std::min(90.0, n));
      o["k"] = J::integer(2); o["s"] = J::num(s); o["w"] = J::num(wq); o["n"] = J::num(n); o["e"] = J::num(e);
      cs = s; cw = wq; cn = n; ce = e; havearea = true;
    } else if (k == 5) {
      o["k"] = J::integer(5); o["cubic"] = J::integer(vf::g::coin()); o["ts"] = J::integer(vf::g::coin(1, 4));
    } else o["k"] = J::integer(k);
    ops.push(o);
  }
  r["ops"] = ops;
  return r;
}

struct Companions {   // the history-free objects of one interpolation mode
  std::unique_ptr<Geoid> all, ts;
};

Verdict check_hist(const J& rec) {
  Verdict v;
  RasterCase c; load_raster(rec, c);
  if (!c.valid) { v.skip(c.why); return v; }
  if (!rec.has("ops") || rec.at("ops").t != J::ARR || rec.at("ops").a.size() > 60) { v.skip("no op list / longer than 60"); return v; }
  bool cubic = rec.geti("cubic") != 0, ts = rec.geti("ts") != 0;
  write_raster(c);
  const rg::Raster& r = c.r;
  std::unique_ptr<Geoid> g;
  Companions comp[2];
  auto open = [&](bool cub, bool tsafe) { return new Geoid(c.name, c.dir, cub, tsafe); };
  auto companions = [&](bool cub) -> Companions& {
    Companions& k = comp[cub ? 1 : 0];
    if (!k.all) { k.all.reset(open(cub, false)); k.all->CacheAll(); k.ts.reset(open(cub, true)); }
    return k;
  };
  try {
    g.reset(open(cubic, ts));
    tag_raster(v, c, cubic);
    bool model_cache = ts;       // what Cache() must report
    int nq = 0, ncacheops = 0; std::set<std::pair<long, long>> cells;
    long lastix = -1, lastiy = -1; bool lastvalid = false;
    for (const J& o : rec.at("ops").a) {
      int k = (int)o.geti("k");
      if (k == 0 || k == 1) {
        double lat = o.getd("lat"), lon = o.getd("lon");
        if (std::isfinite(lon) && std::fabs(lon) > 1e6) { v.skip("longitude beyond generated range"); return v; }
        bool indom = std::fabs(lat) <= 90 && std::isfinite(lon);
        // the object under test and the history-free answers
        std::unique_ptr<Geoid> fresh(open(cubic, false));
        Companions& cp = companions(cubic);
        double hq = 0, hf = 0, ha = 0, ht = 0; std::string thrown;
        auto ask = [&](const Geoid& G, double& out) { try { out = G(lat, lon); } catch (const GeographicErr& e) { thrown = e.what(); out = 0; } };
        ask(*g, hq); ask(*fresh, hf); ask(*cp.all, ha); ask(*cp.ts, ht);
        if (!thrown.empty()) {
          v.that(false, "height() threw on a valid raster and an admissible point: " + thrown);
          return v;
        }
        v.that(same_bits(hq, hf), "height differs from a fresh object without cache (history dependence)");
        v.that(same_bits(hq, ha), "height differs from an object with the whole raster cached");
        v.that(same_bits(hq, ht), "height differs from a thread-safe object");
        if (!indom) { v.that(std::isnan(hq), "NaN or out-of-range latitude / NaN longitude must give NaN"); v.tag("nan-query"); }
        else {
          Cmp m;
          if (!compare(r, cubic, lat, lon, hq, m)) { v.skip("reference fit singular"); return v; }
          v.le(m.err, m.tol, cubic ? "cubic height vs reference (inside a history) [m]" : "bilinear height vs reference (inside a history) [m]");
          long ixm = ((m.cell.ix % r.w) + r.w) % r.w;
          if (lastvalid && ixm == lastix && m.cell.iy == lastiy && !g->ThreadSafe()) v.tag("last-cell-cache-hit");
          lastix = ixm; lastiy = m.cell.iy; lastvalid = true;
          cells.insert({ixm, m.cell.iy}); ++nq;
          if (m.polecell) v.tag("pole-stencil");
          if (m.wrap) v.tag("stencil-wraps-lon");
          if (g->Cache() && !g->ThreadSafe()) {
            // is the cell inside the reported cached area?
            L la = lat, lo = rg::norm_lon(lon), W = g->CacheWest(), E = g->CacheEast();
            bool inlon = (E - W >= 360) || (lo >= W && lo < E) || (lo + 360 >= W && lo + 360 < E);
            if (la <= g->CacheNorth() && la >= g->CacheSouth() && inlon) v.tag("query-inside-area-cache"); else v.tag("query-outside-area-cache");
          }
        }
        if (k == 1) {
          double hh = o.getd("hh"); int dir = (int)o.geti("dir");
          if (dir < -1 || dir > 1) { v.skip("bad conversion flag"); return v; }
          Geoid::convertflag fl = dir < 0 ? Geoid::ELLIPSOIDTOGEOID : dir > 0 ? Geoid::GEOIDTOELLIPSOID : Geoid::NONE;
          double cv = g->ConvertHeight(lat, lon, hh, fl);
          if (!indom || std::isnan(hh)) v.that(std::isnan(cv), "ConvertHeight with NaN input must give NaN");
          else if (std::isfinite(hh)) {
            // h = N + H, H = -N + h (Geoid.hpp)
            v.le(fabsl((L)cv - ((L)hh + dir * (L)hf)), 2 * EPS * (fabsl((L)hh) + fabsl((L)hf)), "ConvertHeight = h + d * N [m]");
            if (dir != 0) {
              Geoid::convertflag back = dir < 0 ? Geoid::GEOIDTOELLIPSOID : Geoid::ELLIPSOIDTOGEOID;
              double rt = g->ConvertHeight(lat, lon, cv, back);
              v.le(fabsl((L)rt - (L)hh), 4 * EPS * (fabsl((L)hh) + fabsl((L)hf)), "ConvertHeight round trip [m]");
              v.tag("convert-roundtrip");
            } else v.that(same_bits(cv, hh), "ConvertHeight(NONE) must return the height unchanged");
          }
        }
      } else if (k == 2 || k == 3) {
        ++ncacheops;
        double s = -90, w = 0, n = 90, e = 360;
        if (k == 2) { s = o.getd("s"); w = o.getd("w"); n = o.getd("n"); e = o.getd("e"); }
        if (!std::isfinite(s) || !std::isfinite(w) || !std::isfinite(n) || !std::isfinite(e) || std::fabs(s) > 90 || std::fabs(n) > 90 || std::fabs(w) > 1e6 || std::fabs(e) > 1e6) { v.skip("cache area outside the documented domain"); return v; }
        bool threw = false;
        try { if (k == 2) g->CacheArea(s, w, n, e); else g->CacheAll(); }
        catch (const GeographicErr&) { threw = true; }
        if (g->ThreadSafe()) { v.that(threw, "CacheArea/CacheAll on a thread-safe object must throw"); v.tag("threadsafe-cache-throws"); }
        else {
          v.that(!threw, "CacheArea/CacheAll threw on a readable raster");
          if (s > n) { model_cache = false; v.tag("cache-inverted-clears"); }
          else {
            model_cache = true;
            // the reported area contains the requested one (edges are multiples of the grid spacing: a few ulps of slack)
            L sl = 8 * EPS * 360;
            L W = g->CacheWest(), E = g->CacheEast(), S = g->CacheSouth(), N = g->CacheNorth();
            v.that(S <= (L)s + sl && N >= (L)n - sl, "cached latitude range does not contain the requested one");
            v.that(W >= -180 - sl && W < 180 + sl && E - W > 0 && E - W <= 360 + sl, "cached longitude range malformed");
            L wn = rg::norm_lon(w), en = rg::norm_lon(e);
            if (remainderl((L)e - (L)w, 360.0L) == 0 || en <= wn) en += 360;      // east is east of west, by adding 360 if necessary
            bool full = E - W >= 360 - sl, covered = full;
            for (int kk = -1; kk <= 1 && !covered; ++kk) if (W + 360 * kk <= wn + sl && en <= E + 360 * kk + sl) covered = true;
            v.that(covered, "cached longitude range does not contain the requested one");
            if (full) v.tag("cache-whole-longitude");
            else if (W + (E - W) > 180) v.tag("cache-wraps-date-line");
            if (W < 0 && E > 0 && !full) v.tag("cache-wraps-lon0");
            if (N >= 90 || S <= -90) v.tag("cache-touches-pole");
          }
        }
      } else if (k == 4) {
        ++ncacheops;
        g->CacheClear();
        if (!g->ThreadSafe()) model_cache = false;
      } else if (k == 5) {
        cubic = o.geti("cubic") != 0; ts = o.geti("ts") != 0;
        g.reset();
        g.reset(open(cubic, ts));
        model_cache = ts; lastvalid = false;
        v.tag("reopened");
      } else { v.skip("unknown op"); return v; }
      // inspectors after every step
      v.that(g->Cache() == model_cache, "Cache() disagrees with the sequence of cache operations");
      v.that(g->ThreadSafe() == ts, "ThreadSafe() disagrees with the constructor argument");
      v.that(g->Offset() == r.offset && g->Scale() == r.scale, "Offset()/Scale() differ from the header");
      v.that(g->Interpolation() == (cubic ? "cubic" : "bilinear"), "Interpolation() disagrees with the constructor argument");
      if (v.failed()) return v;
    }
    // header inspectors
    v.that(g->Description() == (c.H.description.empty() ? "NONE" : c.H.description), "Description() differs from the header");
    v.that(g->DateTime() == (c.H.datetime.empty() ? "UNKNOWN" : c.H.datetime), "DateTime() differs from the header");
    v.that(g->MaxError() == (cubic ? c.H.maxerr_cub : c.H.maxerr_bil) && g->RMSError() == (cubic ? c.H.rmserr_cub : c.H.rmserr_bil), "MaxError()/RMSError() differ from the header");
    v.that(g->GeoidName() == c.name && g->GeoidDirectory() == c.dir && g->GeoidFile() == c.path, "file name inspectors");
    v.nontrivial = cells.size() >= 2 && ncacheops >= 1;
    (void)nq;
  } catch (const GeographicErr& e) {
    v.that(false, std::string("unexpected GeographicErr in a history on a valid raster: ") + e.what());
  }
  return v;
}

// ------------------------------------------------------------------------------------------------
// C20.e: each single-field corruption of a valid file must be rejected with GeographicErr
J gen_e() {
  J r = J::obj(); gen_raster(r);
  // keep the files small: the parser is the subject
  if (r.geti("w") * r.geti("h") > 4000) { r["w"] = J::integer(2 * vf::g::irange(1, 20)); r["h"] = J::integer(2 * vf::g::irange(1, 10) + 1); }
  r["corrupt"] = J::integer(vf::g::coin(1, 8) ? 0 : vf::g::irange(1, NCORRUPT - 1));
  r["cubic"] = J::integer(vf::g::coin()); r["ts"] = J::integer(vf::g::coin());
  return r;
}

Verdict check_e(const J& rec) {
  Verdict v;
  RasterCase c; load_raster(rec, c);
  if (!c.valid) { v.skip(c.why); return v; }
  int corrupt = (int)rec.geti("corrupt"); bool cubic = rec.geti("cubic") != 0, ts = rec.geti("ts") != 0;
  if (corrupt < 0 || corrupt >= NCORRUPT) { v.skip("unknown corruption"); return v; }
  write_raster(c, corrupt);
  v.tag(corrupt_name(corrupt)); v.tag(ts ? "threadsafe" : "plain");
  v.nontrivial = corrupt != OK;
  bool threw = false; std::string what;
  std::unique_ptr<Geoid> g;
  try { g.reset(new Geoid(c.name, c.dir, cubic, ts)); }
  catch (const GeographicErr& e) { threw = true; what = e.what(); }
  if (corrupt == OK) { v.that(!threw, "valid raster rejected: " + what); if (!threw) { double h0 = (*g)(12.5, 33.25); v.that(std::isfinite(h0), "valid raster gives a non-finite height"); } }
  else if (corrupt == MAGIC_TRAILING) {
    // "P5 " followed by a newline is still a PGM magic number; the library is stricter.  Either outcome is accepted.
    v.tag(threw ? "trailing-space-rejected" : "trailing-space-accepted");
  } else v.that(threw, std::string("malformed file accepted: ") + corrupt_name(corrupt));
  // a missing file
  if (corrupt == OK) {
    bool t2 = false;
    try { Geoid g2(c.name + "_missing", c.dir, cubic, ts); } catch (const GeographicErr&) { t2 = true; }
    v.that(t2, "missing file accepted");
  }
  return v;
}

vf::Reg ra({"C20.a", "non-trivial: the raster is not constant. Synthetic PGM rasters (even width 2..720, odd height 3..361, random/smooth/polynomial/extreme pixels, offset/scale, header variants), both interpolations, no cache: heights at generated points (uniform, nodes +- ulps, on rows/columns, poles, polar rows, lon = +-180/0/360k) vs R-GEOID; bilinear: node = grid value (bit-exact on exactly representable grids), affine along edges, continuous across cell boundaries; cubic: polynomial rasters reproduced, pole value independent of lon within a cell; periodic in lon; NaN in -> NaN out", 0.25,
            [] { return rc::gen::exec([] { return gen_a(); }); }, check_a, nullptr});
vf::Reg rb({"C20.b", "histories (<= 60 ops) over {height, ConvertHeight, CacheArea (box around a query, date line, pole, inverted, whole globe, lon 0, random), CacheAll, CacheClear, destroy+reopen with other cubic/threadsafe}: after every query value == R-GEOID and bit-for-bit equal to a fresh no-cache object, a CacheAll object and a threadsafe object; non-trivial: >= 2 queried cells and >= 1 cache operation", 0.40,
            [] { return rc::gen::exec([] { return gen_hist(0); }); }, check_hist, nullptr});
vf::Reg rc_({"C20.c", "histories dominated by ConvertHeight in both directions (and NONE) incl. NaN/out-of-range inputs: = h + d N, round trip to round-off, NaN in -> NaN out; non-trivial as C20.b", 0.12,
             [] { return rc::gen::exec([] { return gen_hist(1); }); }, check_hist, nullptr});
vf::Reg rd({"C20.d", "histories dominated by cache operations: Cache(), CacheWest/East/North/South contain the requested area, Offset/Scale/Interpolation/ThreadSafe/Description/DateTime/MaxError consistent with file and constructor, CacheArea/CacheAll on a threadsafe object throw; non-trivial as C20.b", 0.13,
            [] { return rc::gen::exec([] { return gen_hist(2); }); }, check_hist, nullptr});
vf::Reg re({"C20.e", "a valid raster file with one field corrupted (magic, missing Offset/Scale, zero/negative scale, odd width, even height, wrong maxval, wrong length, non-numeric fields, empty) must be rejected with GeographicErr by both constructor modes; 1 in 8 is the uncorrupted control", 0.10,
            [] { return rc::gen::exec([] { return gen_e(); }); }, check_e, nullptr});

}  // namespace

VF_MAIN
