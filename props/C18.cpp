// C18 — grid codes: Geohash, GARS, Georef, OSGB grid references (DESIGN 3/C18)
//
// Oracle: ref/grid.hpp (R-GRID) — decoders written from the public scheme descriptions; a code is
// decoded to its cell in exact rational arithmetic and the position (exact value of the double) is
// located relative to it.  Round-off band (DESIGN C18.a, 4.1): a position that is NOT exactly on an
// edge of the scheme's finest grid may be coded into the neighbouring cell if it is within
// 2 ulp(|coordinate|) of the shared edge (class "edge-roundoff"); positions exactly on an edge
// (then the edge is a representable double) must be in the cell north/east of it; lat = 90 must be
// in the last row; longitudes are reduced modulo 360 exactly.  For OSGB the band is
// 2 ulp(max(|coordinate|, 100 km)): the digits of a grid reference are offsets inside a 100 km
// square, so the offset has to be formed and carries the round-off of a 1e5 m quantity (1.5e-11 m,
// 5 orders of magnitude below the finest cell of 1 um).
//
// MUTATION TABLE — deliberate breaks applied to a scratch copy of /repo, each run with
//   VERIF_REPO=<scratch> python3 check.py C18 --tier quick --only C18   (pbt unit; seed 1)
// break                                                                                  | caught by
// Geohash::Forward: drop "if (lon == 180) lon = -180"                                      | NOT caught: equivalent mutant (lon=180 gives ulon=2^46 whose tested bits are all 0, the same code as -180)
// GARS::Forward: drop the lon == 180 fold                                                  | C18.a,C18.b,C18.d,C18.d.enum
// Georef::Forward: drop the lon == 180 fold (seeded/fix-reverts/F2)                        | C18.a,C18.b,C18.d,C18.d.enum
// Geohash::Forward: drop the lat == 90 nudge                                               | C18.a,C18.d,C18.d.enum
// GARS::Forward: drop the lat == 90 nudge                                                  | C18.a,C18.b,C18.d,C18.d.enum
// Georef::Forward: drop the lat == 90 nudge                                                | C18.a,C18.b,C18.d,C18.d.enum
// Geohash::Forward: latitude bit first                                                     | C18.a,C18.d,C18.d.enum
// Geohash Forward and Reverse: latitude bit first (self-consistent)                        | C18.a,C18.d,C18.d.enum
// GARS keypad rows numbered from the south, Forward and Reverse (self-consistent)          | C18.a,C18.d,C18.d.enum
// GARS quadrant rows numbered from the south, both directions                              | C18.a,C18.d,C18.d.enum
// GARS keypad transposed (column-major), both directions                                   | C18.a,C18.d,C18.d.enum
// Georef degree letters "ABCDEFGHIJKLMNP" (I included), both directions                    | C18.a,C18.b,C18.d,C18.d.enum,C18.f,C18.f.enum
// Georef lontile_ last two letters swapped, both directions                                | C18.a,C18.d,C18.d.enum
// Georef::Forward: digit divisor 10^(maxprec-prec+1)                                       | C18.a,C18.d
// Georef minutes base 100 instead of 60 (m = 1e11, first digit base 10), both directions   | C18.a,C18.b,C18.d,C18.f,C18.f.enum
// Georef::Reverse: latitude minutes < 60 test dropped                                      | C18.f,C18.f.enum
// Georef::Forward: floor(lon*m) -> round                                                   | C18.a,C18.b,C18.d,C18.d.enum
// GARS::Forward: floor(lon*12) -> ceil-1 (cells open on the west edge)                     | C18.a,C18.b,C18.d,C18.d.enum
// OSGB tileoffx_ = 11 (header constant, both directions)                                   | C18.a,C18.b,C18.c,C18.d,C18.d.enum,C18.f,C18.g
// OSGB second-letter row order from the south, both directions                             | C18.a,C18.d,C18.d.enum,C18.g
// OSGB letters_ = A..Y including I, both directions                                        | C18.a,C18.b,C18.d,C18.d.enum,C18.f,C18.f.enum (first run lost to a build-cache race, re-run)
// OSGB::GridReference: xf -= floor(xf) instead of floor(xf / mult)                         | NOT caught: equivalent mutant (mult == 1 at that statement)
// OSGB::CheckCoords: x > maxx_ instead of >=                                               | C18.f
// OSGB Reverse: centre offset unit instead of unit/2                                       | C18.d,C18.d.enum
// Geohash::Reverse: centre bit not added                                                   | C18.d,C18.d.enum
// Geohash::Reverse: lon/lat shifts exchanged                                               | C18.d,C18.d.enum
// Geohash maxlen_ = 17                                                                     | C18.a,C18.b,C18.c,C18.d,C18.d.enum,C18.f,C18.g
// Geohash::LatitudeResolution uses the longitude bit count                                 | C18.g
// Geohash::GeohashLength(res) tests the latitude resolution                                | C18.g
// GARS::Precision: <= -> <                                                                 | survived the first version of C18.g (1-ulp neighbour allowance); C18.g strengthened (thresholds = the library's own Resolution doubles) -> caught by C18.g
// Georef::Resolution clamps prec to 10                                                     | C18.g
// Utility::lookup accepts NUL (seeded/fix-reverts/F3)                                      | C18.f
// Georef::Reverse accepts 5-character strings (F10)                                        | C18.f,C18.f.enum
// OSGB::GridReference tiny negative coordinates (F11)                                      | C18.a
// GARS::Reverse assigns prec before validating                                             | C18.f,C18.f.enum
// Georef::Forward NaN marker "INVALIDE"                                                    | C18.f
// GARS::Reverse accepts latitude band index 360 ("RA")                                     | C18.f,C18.f.enum
// OSGB Reverse: case-sensitive letter lookup                                               | C18.d,C18.e,C18.f,C18.f.enum
// OSGB central scale 10^(9.9998269-10)                                                     | C18.g
// Georef::Precision: <= -> <                                                               | C18.g
// 40 breaks: 38 caught in the quick tier, 2 equivalent mutants, none surviving.
#include "fw/harness.hpp"
#include "ref/grid.hpp"

#include <GeographicLib/GARS.hpp>
#include <GeographicLib/Geohash.hpp>
#include <GeographicLib/Georef.hpp>
#include <GeographicLib/OSGB.hpp>

using namespace GeographicLib;
using vf::J; using vf::Verdict;
using grid::Q; using grid::Z; using grid::Cell;

namespace {

enum { GH = grid::GEOHASH, GA = grid::GARS, GR = grid::GEOREF, OS = grid::OSGB };

// Two genuine defects were found by this property and have since been fixed in /repo (findings/C18-*.md,
// seeded/fix-reverts/F10, F11): OSGB::GridReference(x in (-7.3e-12,0), ...) and Georef::Reverse of 5-character
// strings.  No known-finding guards remain: a regression of either is a VIOLATION.

const double NaN = std::numeric_limits<double>::quiet_NaN();
const double OS_XMIN = -1000000, OS_XMAX = 1500000, OS_YMIN = -500000, OS_YMAX = 2000000;   // OSGB.hpp: [min, max)

std::string show(const std::string& s) { std::string o; J::esc(o, s); return o; }
std::string hexd(double x) { char b[64]; std::snprintf(b, sizeof b, "%a", x); return b; }

// u = longitude or easting, w = latitude or northing
void lib_fwd(int sch, double u, double w, int prec, std::string& code) {
  switch (sch) {
    case GH: Geohash::Forward(w, u, prec, code); break;
    case GA: GARS::Forward(w, u, prec, code); break;
    case GR: Georef::Forward(w, u, prec, code); break;
    default: OSGB::GridReference(u, w, prec, code); break;
  }
}
void lib_rev(int sch, const std::string& code, double& u, double& w, int& prec, bool centerp) {
  switch (sch) {
    case GH: Geohash::Reverse(code, w, u, prec, centerp); break;
    case GA: GARS::Reverse(code, w, u, prec, centerp); break;
    case GR: Georef::Reverse(code, w, u, prec, centerp); break;
    default: OSGB::GridReference(code, u, w, prec, centerp); break;
  }
}
int clampi(int x, int lo, int hi) { return x < lo ? lo : x > hi ? hi : x; }
int maxprec(int sch) { return sch == GH ? 18 : sch == GA ? 2 : 11; }
int minprec(int sch) { return sch == GR ? -1 : 0; }
// precision of the code Forward is documented to return
int exp_prec(int sch, int prec) {
  if (sch == GH) return clampi(prec, 0, 18);            // "len is first put in the range [0, 18]"
  if (sch == GR && prec == 1) return 2;                 // "prec = 1, converted to prec = 2"
  return prec;
}
bool prec_documented(int sch, int prec) {
  if (sch == GH) return prec >= -1000 && prec <= 1000;
  return prec >= minprec(sch) && prec <= maxprec(sch);
}
size_t exp_len(int sch, int p) {    // length of a code of (expected) precision p
  switch (sch) {
    case GH: return (size_t)p;
    case GA: return (size_t)(5 + p);
    case GR: return (size_t)grid::georef_len(p);
    default: return (size_t)(2 + 2 * p);
  }
}
bool osgb_in_range(double x, double y) { return x >= OS_XMIN && x < OS_XMAX && y >= OS_YMIN && y < OS_YMAX; }
// a negative coordinate so small that coordinate + 100 km rounds to 100 km (class of the former defect F11)
bool osgb_tiny_neg1(double x) { return x < 0 && x + 100000.0 >= 100000.0; }
bool osgb_tiny_neg(int sch, double u, double w) { return sch == OS && (osgb_tiny_neg1(u) || osgb_tiny_neg1(w)); }

bool pos_domain(Verdict& v, int sch, double u, double w) {
  if (sch < 0 || sch >= grid::NSCHEMES) { v.skip("unknown scheme"); return false; }
  if (!std::isfinite(u) || !std::isfinite(w)) { v.skip("non-finite position (C18.f / C13)"); return false; }
  if (sch == OS) { if (!osgb_in_range(u, w)) { v.skip("outside the OSGB grid rectangle (C18.f)"); return false; } }
  else if (!(std::fabs(w) <= 90) || !(std::fabs(u) <= 1e15)) { v.skip("outside the documented domain"); return false; }
  return true;
}

struct Cls { bool onedge = false, roundoff = false, poleN = false, poleS = false, lon180 = false, unnorm = false; };

// (u,w) must lie in cell c (decoded from `code`) up to the round-off band
void contain(Verdict& v, int sch, double u, double w, const Cell& c, const std::string& code, Cls& k) {
  Q o, f; bool e = false;
  if (sch != OS && w == 90) {
    k.poleN = true;
    v.that(c.n == 90, "north pole is not in the last row: code " + show(code));
  } else {
    grid::finest(sch, 1, o, f);
    double d = 2 * grid::ulp(sch == OS ? std::max(std::fabs(w), 1e5) : w);
    int r = grid::axis_contains(grid::exact(w), c.s, c.n, o, f, grid::exact(d), &e);
    k.onedge |= e; k.roundoff |= r == 1; if (sch != OS && w == -90) k.poleS = true;
    if (r == 2) v.that(false, std::string(sch == OS ? "northing " : "latitude ") + hexd(w) + (e ? " (exactly on a cell edge)" : "") +
                              " is not in the cell of code " + show(code));
  }
  grid::finest(sch, 0, o, f);
  if (sch == OS) {
    double d = 2 * grid::ulp(std::max(std::fabs(u), 1e5));
    int r = grid::axis_contains(grid::exact(u), c.w, c.e, o, f, grid::exact(d), &e);
    k.onedge |= e; k.roundoff |= r == 1;
    if (r == 2) v.that(false, "easting " + hexd(u) + (e ? " (exactly on a cell edge)" : "") + " is not in the cell of code " + show(code));
  } else {
    Q P = grid::reduce_lon(grid::exact(u));
    if (P == -180) k.lon180 = true;
    if (std::fabs(u) > 180) k.unnorm = true;
    Q delta = grid::exact(2 * grid::ulp(u));
    int best = 2;
    for (int s = -1; s <= 1; ++s) {
      int r = grid::axis_contains(Q(P + 360 * s), c.w, c.e, o, f, delta, &e);
      if (r < best) best = r;
    }
    k.onedge |= e; k.roundoff |= best == 1;
    if (best == 2) v.that(false, "longitude " + hexd(u) + (e ? " (exactly on a cell edge)" : "") + " is not in the cell of code " + show(code));
  }
}
void tag_cls(Verdict& v, int sch, const Cls& k, int p) {
  v.tag(grid::scheme_name(sch));
  if (k.onedge) v.tag("on-edge");
  if (k.roundoff) v.tag("edge-roundoff");
  if (k.poleN) v.tag("pole-N");
  if (k.poleS) v.tag("pole-S");
  if (k.lon180) v.tag("lon=+-180(mod 360)");
  if (k.unnorm) v.tag("lon-unnormalised");
  if (p == maxprec(sch)) v.tag("max-precision");
  if (p == minprec(sch)) v.tag("min-precision");
}

// Forward + reference decode; returns false (and sets v) when there is nothing more to check
bool forward_decode(Verdict& v, int sch, double u, double w, int prec, std::string& code, Cell& c) {
  code = "#untouched#";
  try { lib_fwd(sch, u, w, prec, code); }
  catch (const GeographicErr& e) { v.that(false, std::string("Forward threw for a position and precision in the documented domain: ") + e.what()); return false; }
  grid::Status st = grid::decode(sch, code, c);
  if (st != grid::VALID) { v.that(false, "Forward returned a string that is not a code of the scheme: " + show(code)); return false; }
  return true;
}

// ------------------------------------------------------------------------------------------ C18.a
Verdict check_a(const J& r) {
  Verdict v;
  int sch = (int)r.geti("scheme"), prec = (int)r.geti("prec"); double u = r.getd("u"), w = r.getd("v");
  if (!pos_domain(v, sch, u, w)) return v;
  if (!prec_documented(sch, prec)) { v.skip("precision outside the documented range"); return v; }
  std::string code; Cell c; Cls k;
  if (forward_decode(v, sch, u, w, prec, code, c)) {
    int p = exp_prec(sch, prec);
    v.that(c.prec == p, "code " + show(code) + " does not have the requested precision");
    contain(v, sch, u, w, c, code, k);
    tag_cls(v, sch, k, p);
    if (osgb_tiny_neg(sch, u, w)) v.tag("osgb-tiny-negative");
    v.nontrivial = true;
  }
  return v;
}

// ------------------------------------------------------------------------------------------ C18.b
const char* alphabet(int sch) {
  switch (sch) {
    case GH: return "0123456789bcdefghjkmnpqrstuvwxyz";
    case GA: return "0123456789ABCDEFGHJKLMNPQRSTUVWXYZ";
    case GR: return "0123456789ABCDEFGHJKLMNPQRSTUVWXYZ";
    default: return "0123456789ABCDEFGHJKLMNOPQRSTUVWXYZ";
  }
}
Verdict check_b(const J& r) {
  Verdict v;
  int sch = (int)r.geti("scheme"), prec = (int)r.geti("prec"); double u = r.getd("u"), w = r.getd("v");
  if (!pos_domain(v, sch, u, w)) return v;
  if (!prec_documented(sch, prec)) { v.skip("precision outside the documented range"); return v; }
  std::string code = "#untouched#";
  try { lib_fwd(sch, u, w, prec, code); }
  catch (const GeographicErr& e) { v.that(false, std::string("Forward threw for a position and precision in the documented domain: ") + e.what()); return v; }
  int p = exp_prec(sch, prec);
  v.that(code.size() == exp_len(sch, p), "length of " + show(code) + " does not match precision " + std::to_string(p));
  const char* al = alphabet(sch);
  for (char ch : code) if (ch == 0 || !std::strchr(al, ch)) { v.that(false, "character outside the scheme's alphabet in " + show(code)); break; }
  Cell c; v.that(grid::decode(sch, code, c) == grid::VALID, "not a code of the scheme: " + show(code));
  v.tag(grid::scheme_name(sch)); if (p == maxprec(sch)) v.tag("max-precision"); if (p == minprec(sch)) v.tag("min-precision");
  return v;
}

// ------------------------------------------------------------------------------------------ C18.c
bool is_prefix(const std::string& a, const std::string& b) { return a.size() <= b.size() && b.compare(0, a.size(), a) == 0; }
Verdict check_c(const J& r) {
  Verdict v;
  int sch = (int)r.geti("scheme"), p1 = (int)r.geti("p1"), p2 = (int)r.geti("p2"); double u = r.getd("u"), w = r.getd("v");
  if (!pos_domain(v, sch, u, w)) return v;
  if (!prec_documented(sch, p1) || !prec_documented(sch, p2)) { v.skip("precision outside the documented range"); return v; }
  if (exp_prec(sch, p1) > exp_prec(sch, p2)) std::swap(p1, p2);
  std::string a, b;
  try { lib_fwd(sch, u, w, p1, a); lib_fwd(sch, u, w, p2, b); }
  catch (const GeographicErr& e) { v.that(false, std::string("Forward threw in the documented domain: ") + e.what()); return v; }
  int q1 = exp_prec(sch, p1), q2 = exp_prec(sch, p2);
  std::string what = show(a) + " (precision " + std::to_string(q1) + ") vs " + show(b) + " (precision " + std::to_string(q2) + ")";
  if (a.size() != exp_len(sch, q1) || b.size() != exp_len(sch, q2)) v.that(false, "unexpected length: " + what);
  else if (sch == GH || sch == GA || (sch == GR && q1 <= 0)) v.that(is_prefix(a, b), "lower-precision code is not a prefix: " + what);
  else {
    size_t nl = sch == GR ? 4 : 2;   // letters, then q digits for the first and q digits for the second coordinate
    v.that(a.compare(0, nl, b, 0, nl) == 0, "letters differ: " + what);
    v.that(is_prefix(a.substr(nl, q1), b.substr(nl, q2)), "first-coordinate digits are not a prefix: " + what);
    v.that(is_prefix(a.substr(nl + q1, q1), b.substr(nl + q2, q2)), "second-coordinate digits are not a prefix: " + what);
  }
  v.nontrivial = q1 != q2;
  v.tag(grid::scheme_name(sch)); if (q2 == maxprec(sch)) v.tag("max-precision");
  return v;
}

// ------------------------------------------------------------------------------------------ C18.d
// Reverse returns "the centre (or SW corner)": a correctly rounded implementation is within 1/2 ulp; the
// bound is 2^-43 deg (4 ulp of 180 deg, 12 nm, 1 % of the finest Geohash/Georef cell) so that a legitimate
// re-ordering of the arithmetic (corner + size/2 in double) is not flagged.  [calibrated: max seen 0.125]
const long double TOL_DEG = 0x1p-43L;
// OSGB: the library accumulates digit * 10^-k metres in double for precisions beyond 1 m; max seen on
// the unchanged tree 5.1e-10 m (5 seeds quick + enumeration) -> frozen at 4e-9 m (0.4 % of the 1 um cell)
const long double TOL_M = 4e-9L;

long double absdiff(double x, const Q& q) { Q d = grid::exact(x) - q; if (d < 0) d = -d; return d.convert_to<long double>(); }

// one probe of the code's own cell: Forward at (u,w) with the code's precision must give a cell containing it
void probe(Verdict& v, int sch, double u, double w, int prec, const std::string& canon, const Cell& c, bool must_equal, const char* which) {
  if (v.failed()) return;
  if (sch == OS && !osgb_in_range(u, w)) return;
  if (sch != OS && std::fabs(w) > 90) return;
  std::string code; Cell cc; Cls k;
  if (!forward_decode(v, sch, u, w, prec, code, cc)) { if (v.failed()) v.msg = std::string(which) + ": " + v.msg; return; }
  contain(v, sch, u, w, cc, code, k);
  if (must_equal && grid::exact(u) == c.w && grid::exact(w) == c.s)
    v.that(code == canon, std::string(which) + ": the (representable) SW corner of " + show(canon) + " is coded as " + show(code) + " (cells are closed on S/W)");
  if (v.failed() && v.msg.compare(0, std::strlen(which), which) != 0) v.msg = std::string(which) + " of " + show(canon) + ": " + v.msg;
  if (k.onedge) v.tag("probe-on-edge");
}

Verdict check_d(const J& r) {
  Verdict v;
  int sch = (int)r.geti("scheme"); const std::string& code = r.gets("code");
  if (sch < 0 || sch >= grid::NSCHEMES) { v.skip("unknown scheme"); return v; }
  Cell c;
  if (grid::decode(sch, code, c) != grid::VALID) { v.skip("not a valid code (C18.f)"); return v; }
  bool geo = sch != OS;
  long double tol = geo ? TOL_DEG : TOL_M;
  std::string canon = grid::canon(sch, code);
  double u = -7, w = -7, u0 = -7, w0 = -7; int prec = -77, prec0 = -77;
  try { lib_rev(sch, code, u, w, prec, true); lib_rev(sch, code, u0, w0, prec0, false); }
  catch (const GeographicErr& e) { v.that(false, "Reverse rejected the valid code " + show(code) + ": " + e.what()); return v; }
  v.that(prec == c.prec && prec0 == c.prec, "Reverse returned precision " + std::to_string(prec) + " for " + show(code));
  v.le(absdiff(u, c.cx()), tol, geo ? "Reverse centre longitude vs cell centre [deg]" : "centre easting vs cell centre [m]");
  v.le(absdiff(w, c.cy()), tol, geo ? "Reverse centre latitude vs cell centre [deg]" : "centre northing vs cell centre [m]");
  v.le(absdiff(u0, c.w), tol, geo ? "Reverse SW longitude vs cell corner [deg]" : "SW easting vs cell corner [m]");
  v.le(absdiff(w0, c.s), tol, geo ? "Reverse SW latitude vs cell corner [deg]" : "SW northing vs cell corner [m]");
  if (v.failed()) return v;
  if (!(std::isfinite(u) && std::isfinite(w))) { v.that(false, "Reverse returned a non-finite centre"); return v; }
  // the centre is strictly inside the cell and re-encodes to the same code
  { Q eu = grid::exact(u), ew = grid::exact(w);
    v.that(c.w < eu && eu < c.e && c.s < ew && ew < c.n, "returned centre is not inside the cell of " + show(code)); }
  std::string back = "#untouched#";
  try { lib_fwd(sch, u, w, prec, back); }
  catch (const GeographicErr& e) { v.that(false, "Forward(Reverse(" + show(code) + ")) threw: " + e.what()); return v; }
  v.that(back == canon, "Forward(Reverse(" + show(code) + ")) = " + show(back));
  // probes of the cell: SW corner (closed), the last doubles inside, the NE corner (belongs to the neighbour / wraps / pole)
  double sw_u = grid::to_double(c.w), sw_w = grid::to_double(c.s), ne_u = grid::to_double(c.e), ne_w = grid::to_double(c.n);
  probe(v, sch, sw_u, sw_w, c.prec, canon, c, true, "SW-corner probe");
  probe(v, sch, std::nextafter(ne_u, -1e300), std::nextafter(ne_w, -1e300), c.prec, canon, c, false, "below-NE probe");
  probe(v, sch, ne_u, ne_w, c.prec, canon, c, false, "NE-corner probe");
  if (geo) probe(v, sch, sw_u + 360, sw_w, c.prec, canon, c, false, "SW-corner+360 probe");
  v.tag(grid::scheme_name(sch));
  if (c.prec == maxprec(sch)) v.tag("max-precision");
  if (c.prec == minprec(sch)) v.tag("min-precision");
  if (geo && c.n == 90) v.tag("last-row");
  if (geo && c.e == 180) v.tag("last-column");
  if (code != canon) v.tag("non-canonical-case");
  v.nontrivial = true;
  return v;
}

// ------------------------------------------------------------------------------------------ C18.e
bool same_bits(double a, double b) { return std::memcmp(&a, &b, sizeof a) == 0 || (std::isnan(a) && std::isnan(b)); }
Verdict check_e(const J& r) {
  Verdict v;
  int sch = (int)r.geti("scheme"); const std::string& code = r.gets("code"); unsigned long long mask = (unsigned long long)r.geti("mask");
  if (sch < 0 || sch >= grid::NSCHEMES) { v.skip("unknown scheme"); return v; }
  std::string var[3] = {grid::upper(code), grid::lower(code), code};
  bool letters = false;
  for (size_t i = 0; i < code.size(); ++i) {
    char ch = code[i]; bool al = (ch >= 'a' && ch <= 'z') || (ch >= 'A' && ch <= 'Z'); letters |= al;
    if (al) var[2][i] = ((mask >> (i % 48)) & 1) ? grid::up(ch) : grid::lo(ch);
  }
  struct Out { bool thrown = false; double u = -7, w = -7; int prec = -77; } o[3];
  for (int i = 0; i < 3; ++i) {
    try { lib_rev(sch, var[i], o[i].u, o[i].w, o[i].prec, (mask >> 50) & 1); }
    catch (const GeographicErr&) { o[i].thrown = true; }
  }
  for (int i = 1; i < 3; ++i) {
    std::string what = show(var[0]) + " vs " + show(var[i]);
    v.that(o[i].thrown == o[0].thrown, "one case variant is rejected, the other accepted: " + what);
    if (!o[i].thrown && !o[0].thrown)
      v.that(same_bits(o[i].u, o[0].u) && same_bits(o[i].w, o[0].w) && o[i].prec == o[0].prec, "case variants decode differently: " + what);
  }
  Cell c; grid::Status st = grid::decode(sch, code, c);
  v.nontrivial = letters && st == grid::VALID;
  v.tag(grid::scheme_name(sch)); v.tag(o[0].thrown ? "rejected" : "accepted");
  return v;
}

// ------------------------------------------------------------------------------------------ C18.f
Verdict check_f_string(int sch, const std::string& code) {
  Verdict v; Cell c;
  grid::Status st = grid::decode(sch, code, c);
  if (st == grid::UNJUDGED) { v.skip("string with white space: undocumented, not judged"); return v; }
  const double SU = -7.25, SW = -3.5; const int SP = -77;
  for (int centerp = 0; centerp < 2 && !v.failed(); ++centerp) {
    double u = SU, w = SW; int prec = SP; bool thrown = false; std::string emsg;
    try { lib_rev(sch, code, u, w, prec, centerp); }
    catch (const GeographicErr& e) { thrown = true; emsg = e.what(); }
    switch (st) {
      case grid::VALID:
        v.that(!thrown, "valid code " + show(code) + " rejected: " + emsg);
        break;
      case grid::MARKER:
        v.that(!thrown, "INVALID marker " + show(code) + " rejected: " + emsg);
        if (!thrown) {
          v.that(std::isnan(u) && std::isnan(w), "INVALID marker " + show(code) + " did not decode to NaN");
          // Geohash/GARS/Georef: "prec is unchanged"; OSGB: "prec is set to -2"
          v.that(prec == (sch == OS ? -2 : SP), "INVALID marker " + show(code) + ": precision output is " + std::to_string(prec));
        }
        break;
      default:
        v.that(thrown, "string " + show(code) + " is not a valid code but was accepted (precision " + std::to_string(prec) + ")");
        if (thrown) v.that(u == SU && w == SW && prec == SP, "outputs modified by a failing Reverse of " + show(code));
    }
  }
  v.nontrivial = st != grid::VALID;
  v.tag(grid::scheme_name(sch));
  v.tag(st == grid::VALID ? "valid" : st == grid::MARKER ? "marker" : "invalid");
  if (code.find('\0') != std::string::npos) v.tag("embedded-NUL");
  return v;
}

Verdict check_f(const J& r) {
  int sch = (int)r.geti("scheme"), mode = (int)r.geti("mode");
  if (sch < 0 || sch >= grid::NSCHEMES) { Verdict v; v.skip("unknown scheme"); return v; }
  if (mode == 0) return check_f_string(sch, r.gets("code"));
  Verdict v;
  double u = r.getd("u"), w = r.getd("v"); int prec = (int)r.geti("prec");
  v.tag(grid::scheme_name(sch));
  if (mode == 1) {   // NaN position -> INVALID marker -> NaN
    if (!(std::isnan(u) || std::isnan(w))) { v.skip("no NaN coordinate"); return v; }
    if (!prec_documented(sch, prec)) { v.skip("precision outside the documented range"); return v; }
    // the other coordinate must be in range (the order of the range check and the NaN check is not documented)
    if (sch == OS ? !osgb_in_range(std::isnan(u) ? 0 : u, std::isnan(w) ? 0 : w) : (!std::isnan(w) && !(std::fabs(w) <= 90))) { v.skip("other coordinate out of range"); return v; }
    if (!std::isnan(u) && !std::isfinite(u)) { v.skip("infinite coordinate (C13)"); return v; }
    std::string code = "#untouched#";
    try { lib_fwd(sch, u, w, prec, code); }
    catch (const GeographicErr& e) { v.that(false, std::string("Forward threw for a NaN position: ") + e.what()); return v; }
    v.that(code == (sch == GH ? "invalid" : "INVALID"), "NaN position coded as " + show(code));
    if (v.failed()) return v;
    double u2 = -7, w2 = -7; int p2 = -77;
    try { lib_rev(sch, code, u2, w2, p2, true); }
    catch (const GeographicErr& e) { v.that(false, std::string("Reverse rejected the INVALID marker: ") + e.what()); return v; }
    v.that(std::isnan(u2) && std::isnan(w2), "INVALID marker did not decode to NaN");
    v.tag("NaN->INVALID->NaN");
    return v;
  }
  // mode 2: position/precision outside the documented range -> GeographicErr
  bool bad;
  if (sch == OS) bad = (!std::isnan(u) && !std::isnan(w) && !osgb_in_range(u, w)) || !(prec >= 0 && prec <= 11);
  else bad = std::fabs(w) > 90;
  if (!bad) { v.skip("arguments are in range"); return v; }
  if (sch != OS && !prec_documented(sch, prec)) { v.skip("precision outside the documented range"); return v; }
  if (sch != OS && (!std::isfinite(u))) { v.skip("non-finite longitude (C13)"); return v; }
  if (sch == OS && !(std::fabs(u) < 1e9 && std::fabs(w) < 1e9)) { v.skip("huge coordinates (float-cast UB in the error message is C13's subject)"); return v; }
  std::string code = "#untouched#"; bool thrown = false;
  try { lib_fwd(sch, u, w, prec, code); } catch (const GeographicErr&) { thrown = true; }
  v.that(thrown, "out-of-range arguments accepted, code " + show(code));
  v.tag(sch == OS ? (prec >= 0 && prec <= 11 ? "osgb-out-of-rectangle" : "osgb-bad-precision") : "lat-out-of-range");
  return v;
}

// ------------------------------------------------------------------------------------------ C18.g
Q absq(Q x) { return x < 0 ? Q(-x) : x; }
// lib value equals the exact rational to within 1 ulp (correctly rounded results differ by < 1 ulp)
void near_q(Verdict& v, double lib, const Q& q, const char* what) {
  if (!std::isfinite(lib)) { v.that(false, std::string(what) + ": non-finite"); return; }
  Q d = absq(Q(grid::exact(lib) - q));
  v.le((d / grid::exact(grid::ulp(lib))).convert_to<long double>(), 1.0L, what);
}
template <class F> int smallest(int lo, int hi, int skip, F ok) { for (int p = lo; p < hi; ++p) { if (p == skip) continue; if (ok(p)) return p; } return hi; }
// "precision required to meet a resolution": the smallest precision whose Resolution(prec) -- the double the
// library itself returns, verified against the reference cell size by the Resolution sub-cases -- is <= |res|
Verdict check_g(const J& r) {
  Verdict v;
  int fn = (int)r.geti("fn"), n = (int)r.geti("n"); double a = r.getd("a"), b = r.getd("b");
  switch (fn) {
    case 0: { int L = clampi(n, 0, 18); near_q(v, Geohash::LatitudeResolution(n), grid::geohash_latsize(L), "Geohash::LatitudeResolution vs cell height [ulp]");
              v.that(grid::exact(Geohash::LatitudeResolution(n)) == grid::geohash_latsize(L), "Geohash::LatitudeResolution is not the (representable) cell height");
              v.tag("Geohash::LatitudeResolution"); break; }
    case 1: { int L = clampi(n, 0, 18);
              v.that(grid::exact(Geohash::LongitudeResolution(n)) == grid::geohash_lonsize(L), "Geohash::LongitudeResolution is not the (representable) cell width");
              v.tag("Geohash::LongitudeResolution"); break; }
    case 2: { if (!std::isfinite(a)) { v.skip("non-finite resolution"); break; }
              int got = Geohash::GeohashLength(a);
              Q res = grid::exact(std::fabs(a));     // the cell sizes are representable: exact thresholds
              int want = smallest(0, 18, -99, [&](int L) { return grid::geohash_latsize(L) <= res && grid::geohash_lonsize(L) <= res; });
              v.that(got >= 0 && got <= 18, "GeohashLength outside [0,18]");
              v.that(got == want, "Geohash::GeohashLength(" + hexd(a) + ") = " + std::to_string(got) + ", the smallest length meeting the resolution is " + std::to_string(want));
              v.tag("Geohash::GeohashLength(res)"); break; }
    case 3: { if (!std::isfinite(a) || !std::isfinite(b)) { v.skip("non-finite resolution"); break; }
              int got = Geohash::GeohashLength(a, b);
              // exact thresholds: the resolutions are representable, so no neighbour set is needed
              Q qa = grid::exact(std::fabs(a)), qb = grid::exact(std::fabs(b));
              int want = smallest(0, 18, -99, [&](int L) { return grid::geohash_latsize(L) <= qa && grid::geohash_lonsize(L) <= qb; });
              v.that(got == want, "Geohash::GeohashLength(" + hexd(a) + "," + hexd(b) + ") = " + std::to_string(got) + ", smallest sufficient length is " + std::to_string(want));
              v.tag("Geohash::GeohashLength(latres,lonres)"); break; }
    case 4: { int L = clampi(n, 0, 18); Q s = grid::geohash_latsize(L);
              // smallest d with 10^-d <= latitude resolution, i.e. -floor(log10(res))
              int d = -3; for (;; ++d) { Q t = d >= 0 ? Q(Q(1) / grid::pow10q(d)) : grid::pow10q(-d); if (t <= s) break; }
              int got = Geohash::DecimalPrecision(n);
              v.that(got == d, "Geohash::DecimalPrecision(" + std::to_string(n) + ") = " + std::to_string(got) + ", expected " + std::to_string(d));
              v.that(got >= -2 && got <= 12, "Geohash::DecimalPrecision outside the documented range [-2,12]");
              v.tag("Geohash::DecimalPrecision"); break; }
    case 5: { near_q(v, GARS::Resolution(n), grid::gars_size(clampi(n, 0, 2)), "GARS::Resolution vs cell size [ulp]"); v.tag("GARS::Resolution"); break; }
    case 6: { if (!std::isfinite(a)) { v.skip("non-finite resolution"); break; }
              int got = GARS::Precision(a);
              int want = smallest(0, 2, -99, [&](int p) { return GARS::Resolution(p) <= std::fabs(a); });
              v.that(got == want, "GARS::Precision(" + hexd(a) + ") = " + std::to_string(got) + ", smallest precision with Resolution <= res is " + std::to_string(want));
              v.tag("GARS::Precision"); break; }
    case 7: { int p = clampi(n, -1, 11); if (p == 1) p = 2;
              near_q(v, Georef::Resolution(n), grid::georef_size(p), "Georef::Resolution vs cell size [ulp]"); v.tag("Georef::Resolution"); break; }
    case 8: { if (!std::isfinite(a)) { v.skip("non-finite resolution"); break; }
              int got = Georef::Precision(a);
              int want = smallest(0, 11, 1, [&](int p) { return Georef::Resolution(p) <= std::fabs(a); });
              v.that(got >= 0 && got <= 11 && got != 1, "Georef::Precision outside its documented values");
              v.that(got == want, "Georef::Precision(" + hexd(a) + ") = " + std::to_string(got) + ", smallest precision with Resolution <= res is " + std::to_string(want));
              v.tag("Georef::Precision"); break; }
    case 9: {   // OSGB (lat,lon) -> (x,y) -> (lat,lon); TransverseMercator.hpp: 5 nm within 35 deg of the central meridian; K = 2, two conversions
              double lat = a, lon = b;
              if (!(std::fabs(lat) <= 85) || !(std::fabs(lon + 2) <= 30)) { v.skip("outside the 5 nm domain of the series"); break; }
              double x, y, lat2, lon2; OSGB::Forward(lat, lon, x, y); OSGB::Reverse(x, y, lat2, lon2);
              long double m_per_deg = 6377563.396L * 3.14159265358979323846L / 180;
              long double clat = std::cos((long double)lat * 3.14159265358979323846L / 180);
              v.le(std::fabs((long double)lat2 - lat) * m_per_deg, 20e-9L, "OSGB Reverse(Forward) latitude [m]");
              v.le(std::fabs((long double)lon2 - lon) * m_per_deg * clat, 20e-9L, "OSGB Reverse(Forward) longitude [m]");
              // central meridian and true origin (documented constants)
              if (lon == -2) v.le(std::fabs((long double)x - 400000), 10e-9L, "easting on the central meridian vs false easting [m]");
              v.tag("OSGB Forward/Reverse (lat,lon)"); if (osgb_in_range(x, y)) v.tag("inside-grid"); break; }
    case 10: {  // OSGB (x,y) -> (lat,lon) -> (x,y)
              double x = a, y = b;
              if (!osgb_in_range(x, y)) { v.skip("outside the OSGB grid rectangle"); break; }
              double lat, lon, x2, y2; OSGB::Reverse(x, y, lat, lon);
              if (!(std::fabs(lon + 2) <= 30)) { v.skip("outside the 5 nm domain of the series"); break; }
              OSGB::Forward(lat, lon, x2, y2);
              v.le(std::fabs((long double)x2 - x), 20e-9L, "OSGB Forward(Reverse) easting [m]");
              v.le(std::fabs((long double)y2 - y), 20e-9L, "OSGB Forward(Reverse) northing [m]");
              v.tag("OSGB Forward/Reverse (x,y)"); break; }
    default: {  // documented anchors
              double x, y;
              OSGB::Forward(OSGB::OriginLatitude(), OSGB::OriginLongitude(), x, y);
              v.le(std::fabs((long double)x - OSGB::FalseEasting()), 10e-9L, "true origin easting vs documented false easting [m]");
              v.le(std::fabs((long double)y - OSGB::FalseNorthing()), 10e-9L, "true origin northing vs documented false northing [m]");
              // worked example of "A guide to coordinate systems in Great Britain" (cited by OSGB.hpp), published to 1 mm
              double lat = 52 + 39 / 60.0 + 27.2531 / 3600, lon = 1 + 43 / 60.0 + 4.5177 / 3600;
              OSGB::Forward(lat, lon, x, y);
              v.le(std::fabs((long double)x - 651409.903L), 1.5e-3L, "OS worked example easting [m]");
              v.le(std::fabs((long double)y - 313177.270L), 1.5e-3L, "OS worked example northing [m]");
              std::string g; OSGB::GridReference(x, y, 2, g); v.that(g == "TG5113", "OS worked example grid reference: " + g);
              v.tag("OSGB anchors"); break; }
  }
  return v;
}

// ------------------------------------------------------------------------------------------ C18.ref
// reference self-validation against examples published in the scheme descriptions (independent of the library)
Verdict check_ref(const J& r) {
  Verdict v; int i = (int)r.geti("i"); Cell c;
  auto inside = [&](double lon, double lat) { Q x = grid::exact(lon), y = grid::exact(lat); return c.w <= x && x < c.e && c.s <= y && y < c.n; };
  switch (i) {
    case 0: v.that(grid::decode(GH, "u4pruydqqvj", c) == grid::VALID && inside(10.40744, 57.64911) && c.prec == 11, "geohash u4pruydqqvj (Wikipedia: 57.64911,10.40744)"); break;
    case 1: v.that(grid::decode(GH, "ezs42", c) == grid::VALID && inside(-5.6, 42.6), "geohash ezs42 (Wikipedia: 42.6,-5.6)"); break;
    case 2: v.that(grid::decode(GA, "006AG39", c) == grid::VALID && c.w == Q(-177) - Q(1, 3) && c.s == Q(-87) && c.e - c.w == Q(1, 12) && c.prec == 2, "GARS 006AG39"); break;
    case 3: v.that(grid::decode(GA, "001AA", c) == grid::VALID && c.w == -180 && c.s == -90 && grid::decode(GA, "720QZ", c) == grid::VALID && c.e == 180 && c.n == 90, "GARS first and last 30' cell"); break;
    case 4: v.that(grid::decode(GR, "GJPJ3716", c) == grid::VALID && inside(-(76 + 22.5 / 60), 38 + 16.5 / 60) && c.w == Q(-77) + Q(37, 60) && c.s == Q(38) + Q(16, 60) && c.prec == 2, "Georef GJPJ3716 (SW corner 38d16'N 76d23'W)"); break;
    case 5: v.that(grid::decode(GR, "AA", c) == grid::VALID && c.w == -180 && c.s == -90 && grid::decode(GR, "ZMQQ", c) == grid::VALID && c.e == 180 && c.n == 90, "Georef first and last tile"); break;
    case 6: v.that(grid::decode(OS, "TG5113", c) == grid::VALID && inside(651409.903, 313177.270) && c.prec == 2, "OSGB TG5113 (OS guide worked example)"); break;
    case 7: v.that(grid::decode(OS, "NN166712", c) == grid::VALID && c.w == 216600 && c.s == 771200 && c.prec == 3, "OSGB NN166712 (Ben Nevis)"); break;
    case 8: v.that(grid::decode(OS, "SV", c) == grid::VALID && c.w == 0 && c.s == 0 && grid::decode(OS, "HP", c) == grid::VALID && c.w == 400000 && c.s == 1200000, "OSGB SV origin, HP (Shetland)"); break;
    default: v.that(grid::decode(OS, "AA", c) == grid::VALID && c.w == OS_XMIN && c.n == OS_YMAX && grid::decode(OS, "ZZ", c) == grid::VALID && c.e == OS_XMAX && c.s == OS_YMIN, "OSGB letter rectangle = documented coordinate range"); break;
  }
  return v;
}

// ========================================================================================== generators
namespace gn {
using namespace vf::g;

int scheme() { return (int)irange(0, grid::NSCHEMES - 1); }
int prec(int sch) {
  if (sch == GH) { switch (wpick({70, 15, 15})) { case 0: return (int)irange(0, 18); case 1: return 18; default: return (int)oneof<long long>({-5, -1, 19, 20, 45, 1000}); } }
  if (coin(1, 6)) return maxprec(sch);
  return (int)irange(minprec(sch), maxprec(sch));
}
int kulps() { switch (wpick({40, 30, 15, 15})) { case 0: return 0; case 1: return coin() ? 1 : -1; case 2: return coin() ? 2 : -2; default: return (int)irange(-4, 4); } }
double dyadic() { int k = (int)irange(0, 11); return (double)irange(0, (1LL << k) - 1) / (double)(1LL << k); }

// an edge of a random level of the scheme's grid hierarchy along an axis (nearest double), possibly moved by a few ulps
double edge(int sch, int axis) {
  double lo = sch == OS ? (axis ? OS_YMIN : OS_XMIN) : (axis ? -90 : -180);
  double range = sch == OS ? 2500000 : (axis ? 180 : 360);
  double e;
  if (coin(1, 3)) {   // representable edges: whole units plus a dyadic fraction
    e = std::floor(uni(lo, lo + range)) + (coin() ? 0.0 : dyadic());
  } else {
    Q size;
    switch (sch) {
      case GH: size = Q(axis ? 180 : 360) / Q(Z(Z(1) << (int)irange(0, 45))); break;
      case GA: size = grid::gars_size((int)irange(0, 2)); break;
      case GR: size = grid::georef_size((int)irange(-1, 11)); break;
      default: size = Q(100000) / grid::pow10q((int)irange(0, 11)); break;
    }
    long long nmax = grid::floorq(Q(Q((long long)range) / size)).convert_to<long long>();
    long long j = coin(1, 8) ? (coin() ? 0 : nmax) : irange(0, nmax);
    e = grid::to_double(Q(Q((long long)lo) + Q(Z(j)) * size));
  }
  e = ulps(e, kulps());
  return e;
}
double lat(int sch) {
  double x;
  switch (wpick({30, 8, 6, 34, 8, 8, 6})) {
    case 0: x = uni(-90, 90); break;
    case 1: x = oneof<double>({90, -90}); break;
    case 2: x = oneof<double>({0.0, -0.0}); break;
    case 3: x = edge(sch, 1); break;
    case 4: x = sgn() * loguni(1e-320, 1e-5); break;
    case 5: x = sgn() * (90 - loguni(1e-14, 1.0)); break;
    default: x = sgn() * ulps(oneof<double>({0, 45, 60, 84, 90}), -(int)irange(0, 3)); break;
  }
  if (x > 90) x = 90; if (x < -90) x = -90;
  return x;
}
double lon(int sch) {
  switch (wpick({28, 12, 32, 8, 10, 10})) {
    case 0: return uni(-180, 180);
    case 1: return coin() ? oneof<double>({180, -180, 540, -540, 900, -900, 0.0, -0.0, 360, -360, 720})
                          : 180.0 + 360.0 * (double)irange(-50, 50);
    case 2: { double e = edge(sch, 0); if (coin(1, 4)) e += 360.0 * (double)irange(-3, 3); return e; }
    case 3: return sgn() * loguni(1e-320, 1e-5);
    case 4: return uni(-180, 180) + 360.0 * (double)irange(-20, 20);
    default: return uni(-1, 1) * loguni(1e3, 1e12);
  }
}
double osgb_coord(int axis) {
  double lo = axis ? OS_YMIN : OS_XMIN, hi = axis ? OS_YMAX : OS_XMAX;
  double x;
  switch (wpick({30, 40, 10, 10, 10})) {
    case 0: x = uni(lo, hi); break;
    case 1: x = edge(OS, axis); break;
    case 2: x = sgn() * loguni(1e-320, 1e-5); break;
    case 3: x = oneof<double>({lo, std::nextafter(hi, 0.0), 0.0, -0.0, -1.0, 100000.0, -100000.0}); break;
    default: x = axis ? uni(0, 1300000) : uni(0, 700000); break;     // Great Britain
  }
  if (x < lo) x = lo; if (x >= hi) x = std::nextafter(hi, 0.0);
  return x;
}
void position(int sch, double& u, double& w) {
  if (sch == OS) { u = osgb_coord(0); w = osgb_coord(1); } else { u = lon(sch); w = lat(sch); }
}

// a valid code of the scheme at a random precision, built from the grammar (not with the library)
std::string digits(int n) { std::string s; for (int i = 0; i < n; ++i) s += char('0' + irange(0, 9)); return s; }
char pick(const char* al) { return al[irange(0, (long long)std::strlen(al) - 1)]; }
std::string valid_code(int sch, int p) {
  std::string s;
  switch (sch) {
    case GH: { int L = p; for (int i = 0; i < L; ++i) s += pick(grid::GEOHASH32); break; }
    case GA: { char b[8]; long long band = coin(1, 6) ? oneof<long long>({1, 720, 360, 361}) : irange(1, 720); std::snprintf(b, sizeof b, "%03lld", band); s = b;
               long long row = coin(1, 6) ? oneof<long long>({0, 359, 179, 180}) : irange(0, 359);
               s += grid::LETTERS24[row / 24]; s += grid::LETTERS24[row % 24];
               if (p >= 1) s += char('1' + irange(0, 3));
               if (p >= 2) s += char('1' + irange(0, 8)); break; }
    case GR: { s += coin(1, 6) ? oneof<char>({'A', 'Z', 'M', 'N'}) : pick(grid::LETTERS24);
               s += coin(1, 6) ? oneof<char>({'A', 'M', 'F', 'G'}) : pick(grid::GEOREF_LATTILE);
               if (p >= 0) { s += pick(grid::GEOREF_DEG); s += pick(grid::GEOREF_DEG); }
               if (p >= 2) { for (int ax = 0; ax < 2; ++ax) { s += char('0' + irange(0, 5)); s += digits(p - 1); } }
               break; }
    default: { const char* al = "ABCDEFGHJKLMNOPQRSTUVWXYZ"; s += pick(al); s += pick(al); s += digits(2 * p); break; }
  }
  return s;
}
std::string code(int sch) {
  int p = sch == GH ? (int)(coin(1, 8) ? irange(19, 24) : irange(0, 18)) : (coin(1, 5) ? maxprec(sch) : (int)irange(minprec(sch), maxprec(sch)));
  if (sch == GR && p == 1) p = 2;
  std::string s = valid_code(sch, p);
  if (coin(1, 3)) for (auto& ch : s) if (coin()) ch = grid::lo(ch); else ch = grid::up(ch);
  return s;
}
std::string mutate(int sch, std::string s) {
  const char* pool = "0123456789ABCDEFGHIJKLMNOPQRSTUVWXYZabcdefghijklmnopqrstuvwxyz -.:+";
  int nm = (int)irange(1, 2);
  for (int m = 0; m < nm; ++m) {
    size_t pos = s.empty() ? 0 : (size_t)irange(0, (long long)s.size() - 1);
    char ch;
    switch (wpick({50, 8, 8, 10, 12, 12})) {
      case 0: ch = pick(pool); break;
      case 1: ch = 0; break;
      case 2: ch = char(irange(128, 255)); break;
      case 3: ch = oneof<char>({'I', 'O', 'i', 'o', 'A', 'L', 'a', 'l'}); break;
      case 4: ch = char('0' + irange(0, 9)); break;
      default: ch = char(irange(1, 127)); break;
    }
    switch (wpick({40, 25, 25, 10})) {
      case 0: if (!s.empty()) s[pos] = ch; else s += ch; break;
      case 1: s.insert(s.begin() + (long)std::min(pos + (size_t)irange(0, 1), s.size()), ch); break;
      case 2: if (!s.empty()) s.erase(s.begin() + (long)pos); break;
      default: if (s.size() >= 2) { size_t q = pos + 1 < s.size() ? pos + 1 : pos - 1; std::swap(s[pos], s[q]); } break;
    }
  }
  (void)sch;
  return s;
}
std::string any_string(int sch) {
  switch (wpick({45, 15, 20, 10, 10})) {
    case 0: return mutate(sch, code(sch));
    case 1: return code(sch);
    case 2: { const char* pool = "0123456789ABCDEFGHIJKLMNOPQRSTUVWXYZabcdefghijklmnopqrstuvwxyz"; std::string s; int n = (int)sized(0, 30); for (int i = 0; i < n; ++i) s += pick(pool); return s; }
    case 3: { std::string s = oneof<std::string>({"INVALID", "invalid", "INV", "inv", "nan", "NaN", "IN", "in", "I", "INVx", "Invalid"}); return coin(1, 4) ? mutate(sch, s) : s; }
    default: { std::string s; int n = (int)sized(0, 12); for (int i = 0; i < n; ++i) s += char(irange(0, 255)); return s; }
  }
}
double resolution(int sch) {
  switch (wpick({40, 40, 10, 10})) {
    case 0: return sgn() * loguni(1e-14, 1000.0);
    case 1: { Q s; int p;
              if (sch == GH) { p = (int)irange(0, 18); s = coin() ? grid::geohash_latsize(p) : grid::geohash_lonsize(p); }
              else if (sch == GA) s = grid::gars_size((int)irange(0, 2));
              else s = grid::georef_size((int)irange(-1, 11));
              return sgn() * ulps(grid::to_double(s), (int)irange(-2, 2)); }
    case 2: return oneof<double>({0.0, -0.0, 1e-300, 1e300, 360.0, 180.0, 15.0, 1.0});
    default: return uni(-20, 20);
  }
}

J rec_pos() {
  J r = J::obj(); int sch = scheme(); double u, w; position(sch, u, w);
  r["scheme"] = J::integer(sch); r["u"] = J::num(u); r["v"] = J::num(w); r["prec"] = J::integer(prec(sch));
  return r;
}
J rec_c() {
  J r = J::obj(); int sch = scheme(); double u, w; position(sch, u, w);
  r["scheme"] = J::integer(sch); r["u"] = J::num(u); r["v"] = J::num(w); r["p1"] = J::integer(prec(sch)); r["p2"] = J::integer(prec(sch));
  return r;
}
J rec_code() { J r = J::obj(); int sch = scheme(); r["scheme"] = J::integer(sch); r["code"] = J::str(code(sch)); return r; }
J rec_e() {
  J r = J::obj(); int sch = scheme(); r["scheme"] = J::integer(sch);
  r["code"] = J::str(coin(1, 5) ? any_string(sch) : code(sch)); r["mask"] = J::integer(irange(0, (1LL << 52) - 1));
  return r;
}
J rec_f() {
  J r = J::obj(); int sch = scheme(); r["scheme"] = J::integer(sch);
  int mode = wpick({80, 8, 12});
  r["mode"] = J::integer(mode);
  if (mode == 0) { r["code"] = J::str(any_string(sch)); return r; }
  double u, w; position(sch, u, w); int p = prec(sch);
  if (mode == 1) { switch (irange(0, 2)) { case 0: u = NaN; break; case 1: w = NaN; break; default: u = w = NaN; } }
  else if (sch == OS) {
    switch (irange(0, 4)) {
      case 0: u = oneof<double>({OS_XMAX, std::nextafter(OS_XMIN, -1e300), OS_XMAX + uni(0, 1e6), OS_XMIN - uni(0, 1e6), 1e8}); break;
      case 1: w = oneof<double>({OS_YMAX, std::nextafter(OS_YMIN, -1e300), OS_YMAX + uni(0, 1e6), OS_YMIN - uni(0, 1e6), -1e8}); break;
      case 2: p = (int)oneof<long long>({-1, 12, -2, 13, 100, -100}); break;
      default: u = uni(-3e6, 3e6); w = uni(-3e6, 3e6); break;
    }
  } else w = coin() ? sgn() * ulps(90.0, (int)irange(1, 3)) : sgn() * (90 + loguni(1e-13, 1e6));
  r["u"] = J::num(u); r["v"] = J::num(w); r["prec"] = J::integer(p);
  return r;
}
J rec_g() {
  J r = J::obj(); int fn = (int)irange(0, 10);
  double a = 0, b = 0; long long n = 0;
  switch (fn) {
    case 0: case 1: case 4: n = coin(1, 4) ? oneof<long long>({-1, -100, 19, 20, 1000}) : irange(0, 18); break;
    case 2: a = resolution(GH); break;
    case 3: a = resolution(GH); b = resolution(GH); break;
    case 5: n = irange(-3, 5); break;
    case 6: a = resolution(GA); break;
    case 7: n = coin(1, 4) ? oneof<long long>({-2, -100, 12, 13, 1000}) : irange(-1, 11); break;
    case 8: a = resolution(GR); break;
    case 9: a = coin(1, 3) ? uni(49, 61) : uni(-85, 85); b = coin(1, 3) ? uni(-9, 3) : coin(1, 8) ? -2.0 : uni(-32, 28); break;
    default: a = osgb_coord(0); b = osgb_coord(1); break;
  }
  r["fn"] = J::integer(fn); r["n"] = J::integer(n); r["a"] = J::num(a); r["b"] = J::num(b);
  return r;
}
}  // namespace gn

// ========================================================================================== enumerations
struct Sharder { vf::EnumCtx& c; unsigned long long i = 0; bool go = true;
  bool emit(int sch, const std::string& code) {
    if (!go) return false;
    if ((long long)(i++ % (unsigned long long)c.nshards) != c.shard) return true;
    J r = J::obj(); r["scheme"] = J::integer(sch); r["code"] = J::str(code);
    go = c.emit(r); return go;
  } };
J frec(int sch, const std::string& code) { J r = J::obj(); r["scheme"] = J::integer(sch); r["mode"] = J::integer(0); r["code"] = J::str(code); return r; }
struct FSharder { vf::EnumCtx& c; unsigned long long i = 0; bool go = true;
  bool emit(int sch, const std::string& code) {
    if (!go) return false;
    if ((long long)(i++ % (unsigned long long)c.nshards) != c.shard) return true;
    go = c.emit(frec(sch, code)); return go;
  } };

// all valid low-precision codes: Geohash length <= 3 (33 825), Georef 2- and 4-letter tiles (288 + 64 800),
// OSGB letter pairs (625, also with one digit pair), GARS 30' tiles x quadrant x keypad suffixes
// (259 200 x 41; quick tier: every tile with one suffix per precision, thorough: all)
void enum_valid(vf::EnumCtx& c) {
  Sharder s{c};
  const char* g32 = grid::GEOHASH32;
  s.emit(GH, "");
  for (int a = 0; a < 32 && s.go; ++a) { std::string x(1, g32[a]); s.emit(GH, x);
    for (int b = 0; b < 32 && s.go; ++b) { std::string y = x + g32[b]; s.emit(GH, y);
      for (int d = 0; d < 32 && s.go; ++d) s.emit(GH, y + g32[d]); } }
  for (int i = 0; i < 24 && s.go; ++i) for (int j = 0; j < 12 && s.go; ++j) {
    std::string t; t += grid::LETTERS24[i]; t += grid::GEOREF_LATTILE[j]; s.emit(GR, t);
    for (int a = 0; a < 15 && s.go; ++a) for (int b = 0; b < 15 && s.go; ++b) s.emit(GR, t + grid::GEOREF_DEG[a] + grid::GEOREF_DEG[b]);
  }
  const char* o25 = "ABCDEFGHJKLMNOPQRSTUVWXYZ";
  for (int i = 0; i < 25 && s.go; ++i) for (int j = 0; j < 25 && s.go; ++j) {
    std::string t; t += o25[i]; t += o25[j]; s.emit(OS, t); s.emit(OS, t + "09"); s.emit(OS, t + "9990");
  }
  for (int band = 1; band <= 720 && s.go; ++band) for (int row = 0; row < 360 && s.go; ++row) {
    char b[8]; std::snprintf(b, sizeof b, "%03d", band); std::string t = b; t += grid::LETTERS24[row / 24]; t += grid::LETTERS24[row % 24];
    s.emit(GA, t);
    if (c.thorough) {
      for (int q = 1; q <= 4 && s.go; ++q) { std::string tq = t + char('0' + q); s.emit(GA, tq); for (int k = 1; k <= 9 && s.go; ++k) s.emit(GA, tq + char('0' + k)); }
    } else {
      uint64_t h = vf::mix((uint64_t)(band * 360 + row), c.seed);
      std::string tq = t + char('1' + h % 4); s.emit(GA, tq); s.emit(GA, tq + char('1' + (h >> 8) % 9));
    }
  }
  c.exhaustive = c.thorough && s.go;
}
// acceptor, exhaustively: every short string over a superset of the alphabets must be accepted iff the reference accepts it
void enum_strings(vf::EnumCtx& c) {
  FSharder s{c};
  const char* az = "ABCDEFGHIJKLMNOPQRSTUVWXYZ";
  const char* an = "0123456789abcdefghijklmnopqrstuvwxyz";
  // Geohash: all strings of length 1..3 over [0-9a-z]
  for (int a = 0; a < 36 && s.go; ++a) { std::string x(1, an[a]); s.emit(GH, x);
    for (int b = 0; b < 36 && s.go; ++b) { std::string y = x + an[b]; s.emit(GH, y);
      for (int d = 0; d < 36 && s.go; ++d) s.emit(GH, y + an[d]); } }
  // Georef: all 1-, 2-, 3- and 4-letter strings over A-Z; 4 valid letters + every 1..4 digit suffix
  for (int a = 0; a < 26 && s.go; ++a) { std::string x(1, az[a]); s.emit(GR, x);
    for (int b = 0; b < 26 && s.go; ++b) { std::string y = x + az[b]; s.emit(GR, y);
      for (int d = 0; d < 26 && s.go; ++d) { std::string z = y + az[d]; if (a < 3) s.emit(GR, z);
        for (int e = 0; e < 26 && s.go; ++e) s.emit(GR, z + az[e]); } } }
  for (int n = 0; n < 10000 && s.go; ++n) { char b[8]; std::snprintf(b, sizeof b, "%04d", n); s.emit(GR, std::string("GJPJ") + b);
    if (n < 1000) s.emit(GR, std::string("gjpj") + (b + 1)); if (n < 100) s.emit(GR, std::string("GJPJ") + (b + 2)); if (n < 10) s.emit(GR, std::string("GJPJ") + (b + 3)); }
  // OSGB: all 2-letter strings over A-Z, and SV + two characters over [0-9A]
  for (int a = 0; a < 26 && s.go; ++a) for (int b = 0; b < 26 && s.go; ++b) { std::string t; t += az[a]; t += az[b]; s.emit(OS, t); s.emit(OS, grid::lower(t) + "12"); }
  { const char* da = "0123456789A"; for (int a = 0; a < 11 && s.go; ++a) { s.emit(OS, std::string("SV") + da[a]); for (int b = 0; b < 11 && s.go; ++b) s.emit(OS, std::string("SV") + da[a] + da[b]); } }
  // GARS: all 5-character strings [0-9]^3 [A-Z]^2 (quick: every 7th band, all letter pairs), 001AA + every 1..2 character digit suffix
  for (int n = 0; n < 1000 && s.go; ++n) {
    if (!c.thorough && n % 7 != (int)(c.seed % 7) && n != 0 && n != 1 && n != 720 && n != 721 && n != 999) continue;
    char b[8]; std::snprintf(b, sizeof b, "%03d", n);
    for (int a = 0; a < 26 && s.go; ++a) for (int d = 0; d < 26 && s.go; ++d) s.emit(GA, std::string(b) + az[a] + az[d]);
  }
  for (int a = 0; a < 10 && s.go; ++a) { s.emit(GA, std::string("001AA") + char('0' + a)); for (int b = 0; b < 10 && s.go; ++b) { s.emit(GA, std::string("720qz") + char('0' + a) + char('0' + b)); s.emit(GA, std::string("001AA") + char('0' + a) + char('0' + b) + "1"); } }
  c.exhaustive = c.thorough && s.go;
}
void enum_ref(vf::EnumCtx& c) {
  for (int i = 0; i < 10; ++i) if (i % c.nshards == c.shard) { J r = J::obj(); r["i"] = J::integer(i); if (!c.emit(r)) return; }
  c.exhaustive = true;
}
void enum_anchor(vf::EnumCtx& c) {
  if (c.shard == 0) { J r = J::obj(); r["fn"] = J::integer(11); r["n"] = J::integer(0); r["a"] = J::num(0); r["b"] = J::num(0); c.emit(r); }
}

vf::Reg ra({"C18.a", "containment: generated (scheme, position incl. cell edges +- ulps, lon incl. +-180/+-540 and unnormalised, poles, precision) -> Forward -> reference decoder; position located in the decoded cell in exact rational arithmetic, 2-ulp round-off band off the edges; non-trivial: every judged case; distinct by record hash", 0.28,
            [] { return rc::gen::exec([] { return gn::rec_pos(); }); }, check_a, nullptr});
vf::Reg rb({"C18.b", "alphabet and length of Forward's output for the same generator as C18.a", 0.08,
            [] { return rc::gen::exec([] { return gn::rec_pos(); }); }, check_b, nullptr});
vf::Reg rc_({"C18.c", "prefix property: one position, two precisions; non-trivial: the two effective precisions differ", 0.12,
            [] { return rc::gen::exec([] { return gn::rec_c(); }); }, check_c, nullptr});
vf::Reg rd({"C18.d", "generated valid code (grammar-built, all precisions, random case) -> Reverse centre and SW corner vs reference cell, precision, Forward(Reverse) = code, corner probes of the cell", 0.16,
            [] { return rc::gen::exec([] { return gn::rec_code(); }); }, check_d, nullptr});
vf::Reg rde({"C18.d.enum", "enumeration of valid codes: Geohash length <= 3, Georef 2/4-letter tiles, OSGB letter pairs, GARS 30' tiles x suffixes (quick: one suffix per precision and tile; thorough: all 41)", 0.0,
            nullptr, check_d, enum_valid});
vf::Reg re({"C18.e", "case-insensitive decode: upper, lower and randomly mixed case variants of a generated code decode identically; non-trivial: valid code containing letters", 0.08,
            [] { return rc::gen::exec([] { return gn::rec_e(); }); }, check_e, nullptr});
vf::Reg rf({"C18.f", "strings (valid codes with 1-2 point mutations incl. NUL and high-bit bytes, junk, INVALID markers) judged by the reference acceptor: invalid => GeographicErr and outputs untouched; NaN -> INVALID -> NaN; out-of-range latitude / OSGB rectangle / OSGB precision => GeographicErr; non-trivial: string not a valid code", 0.2,
            [] { return rc::gen::exec([] { return gn::rec_f(); }); }, check_f, nullptr});
vf::Reg rfe({"C18.f.enum", "acceptor equivalence on all short strings over a superset alphabet (Geohash <= 3 over [0-9a-z], Georef <= 4 over A-Z + digit suffixes, OSGB pairs, GARS 5-character strings)", 0.0,
            nullptr, check_f, enum_strings});
vf::Reg rg({"C18.g", "resolution/precision helpers vs reference cell sizes (exact rationals), OSGB Forward/Reverse round trips (20 nm), documented OSGB anchors", 0.08,
            [] { return rc::gen::exec([] { return gn::rec_g(); }); }, check_g, enum_anchor});
vf::Reg rr({"C18.ref", "reference decoders vs examples published in the scheme descriptions (no library call)", 0.0,
            nullptr, check_ref, enum_ref});

}  // namespace

VF_MAIN
