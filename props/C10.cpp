// C10 — text formatting and parsing (DESIGN 3/C10).  Flavour "san" (ASan+UBSan), tools linked in-process.
//
// Sub-checks (oracle / tolerance):
//  C10.a  Decode(Encode(v)) = v      lib round trip; |err| <= max(half unit of last printed digit + 1 ulp, 4 ulp), same sign / flag
//  C10.b  normal form of Encode      own parser of the documented output format (ref/c10_ref.hpp) + own value of the printed digits
//  C10.c  grammar-generated strings  value/flag computed by the generator from the spec (gen/dms_gen.hpp), 10 * 2^-52 * sum|piece|
//  C10.d  Utility str/val/...        reference acceptors and models written from Utility.hpp (ref/c10_ref.hpp)
//  C10.e  malformed strings          reference acceptor written from DMS.hpp (ref/dms_ref.hpp): INVALID => GeographicErr, outputs untouched
//  C10.f  GeoCoords representations  re-read by Reset within the documented resolution, same zone/hemisphere
//  C10.g  tools in-process           #output lines = #input lines, ERROR lines <=> bad lines, status != 0 <=> some bad line
//  C10.h  GeoCoords::Reset(string)  grammar-generated lat/lon tokens: generator's latitude, longitude reduced to [-180,180] (GeoCoords.hpp)
//
// MUTATION TABLE (scratch copy of /repo/{src,include,tools}; `VERIF_REPO=/tmp/mutC10 python3 check.py C10 --tier quick [--only C10]`;
// every break was caught within the quick budget except the equivalent mutant M19):
//   id   file                 break                                                               caught by
//   M1   DMS.cpp Encode       seconds carry: `i % Math::ms` -> `i`  (prints 72", 3528")            a b f
//   M1b  DMS.cpp Encode       minute carry into degrees dropped (`i /= Math::dm` removed)          a b f
//   M2   DMS.cpp Encode       precision clamp 15-2*trailing -> 15-trailing                         b
//   M3   DMS.cpp Encode       zero fill of seconds setw(2+prec) -> setw(1+prec)                    b
//   M3b  DMS.cpp Encode       longitude degrees padded to 2 instead of 3 digits                    b
//   M4   DMS.cpp Decode       U+02CA (cb 8a) mistyped as cb 8c                                     c e g h
//   M4b  DMS.cpp Decode       U+201F replaced by ' instead of "                                    c e g h
//   M5   DMS.cpp InternalDec. sign overrides instead of multiplying the hemisphere sign (-40S)     c e h
//   M6   DMS.cpp InternalDec. minutes range check `>= 60` -> `> 60` (accepts 4:60)                 e g
//   M7   Utility.hpp nummatch sign of -inf dropped                                                 a c d e
//   M7b  Utility.hpp nummatch "INFINITY" no longer recognised                                      c d e
//   M8   GeoCoords.cpp Reset  zone-last token order reads coordinates from tokens 1,2              f g
//   M9   tools/GeodSolve.cpp  `retval = 1` dropped for bad lines                                   g
//   M10  tools/CartConvert    "ERROR: " -> "Error: "                                               g
//   M11  DMS.cpp DecodeLatLon longfirst default order swapped                                      c f g h
//   M12  DMS.cpp Decode       pieces not summed (`v +=` -> `v =`)                                  c e h
//   M13  DMS.cpp DecodeLatLon lat assigned before the range check throws                           c e
//   M14  GeoCoords.cpp        trailing zeros of negative precision dropped for the northing        f
//   M15  Utility.cpp ParseLine value keeps the delimiter (substr(n))                               d
//   M17  DMS.cpp Encode       AZIMUTH: angles in (-1,0) not shifted by 360                         a b
//   M18  DMS.cpp InternalDec. hemisphere letter at both ends accepted                              e g
//   M19  DMS.cpp InternalDec. "Repeated component" test disabled                                   -- equivalent (the following
//                                                                                                 "component follows" test still throws)
//   M20  DMS.cpp InternalDec. decimal point in a non-final component accepted                      e g
//   M21  GeoCoords.cpp        DMSRepresentation precision off by one                               f
//   M22  DMS.cpp InternalDec. d-m-s value scaled by (1 + 4e-15)                                    a c e f g h
//   M23  tools/GeoConvert     empty input lines skipped silently                                   g
//   M24  DMS.cpp Decode       incompatible hemisphere letters (N with E) accepted                  e
//   M25  Utility.hpp val      "Extra text" test disabled                                           d g
//   F3   fix revert 8464b30   Utility::lookup accepts NUL                                          d e
//   F8   fix revert cf585e3   4th ':' component written out of bounds                              e (UBSan), fuzz/dms
//   F14  fix revert cb6d542   GeoCoords::Reset(string) longitude not normalised                    h, fuzz/geocoords
//   F15  fix revert 841dd42   MGRS::Reverse zone digit overflow                                    g (UBSan), fuzz/geocoords, fuzz/tool_geoconvert
//   F16  fix revert 8c7b613   Utility::day int overflow                                            d (UBSan), fuzz/utility
// Defects found by this property on the then-unchanged tree: findings/C10-geocoords-lon.md, C10-mgrs-zone-overflow.md,
// C10-date-int-overflow.md (all fixed since; the known_on / fz_known_on guards for these ids are inert).
#include "fw/harness.hpp"
#include "gen/dms_gen.hpp"
#include "gen/geo.hpp"
#include "ref/c10_ref.hpp"
#include "ref/dms_ref.hpp"

#include <fstream>
#include <iostream>
#include <sstream>

#include <GeographicLib/DMS.hpp>
#include <GeographicLib/GeoCoords.hpp>
#include <GeographicLib/MGRS.hpp>
#include <GeographicLib/UTMUPS.hpp>
#include <GeographicLib/Utility.hpp>

using namespace GeographicLib;
using vf::J; using vf::Verdict;
typedef long double L;

int tool_GeoConvert_main(int argc, const char* const argv[]);
int tool_GeodSolve_main(int argc, const char* const argv[]);
int tool_RhumbSolve_main(int argc, const char* const argv[]);
int tool_CartConvert_main(int argc, const char* const argv[]);
int tool_ConicProj_main(int argc, const char* const argv[]);
int tool_TransverseMercatorProj_main(int argc, const char* const argv[]);
int tool_GeodesicProj_main(int argc, const char* const argv[]);
int tool_Planimeter_main(int argc, const char* const argv[]);
int tool_IntersectTool_main(int argc, const char* const argv[]);

namespace {

const L EPS = 2.220446049250313e-16L;   // 2^-52

double ulp_of(double x) {
  x = std::fabs(x);
  if (!std::isfinite(x)) return x;
  return std::nextafter(x, INFINITY) - x;
}

// coverage label of a GeographicErr message of DMS.cpp (used only for the class histogram)
std::string msg_label(const std::string& w) {
  static const char* pre[] = {"Incompatible hemisphere", "Empty or incomplete", "Repeated hemisphere", "Contradictory hemisphere",
                              "Multiple decimal points", "Illegal for : to appear", "More than 3 DMS", "Missing numbers in trailing",
                              "Missing numbers in", "Internal sign", "Illegal character", "Extra text following seconds",
                              "Decimal point in non-terminal", "Minutes ", "Seconds ", "Both ", "Latitude ", "Arc angle", "Azimuth "};
  for (const char* p : pre) if (w.rfind(p, 0) == 0) { std::string l = p; while (!l.empty() && l.back() == ' ') l.pop_back(); return "msg:" + l; }
  if (w.rfind("Repeated ", 0) == 0) return "msg:Repeated component";
  if (w.find(" component follows ") != std::string::npos) return "msg:component follows";
  return "msg:other";
}

// ============================================================================================ C10.a / C10.b
double enc_value() {
  using namespace vf::g;
  switch (wpick({18, 8, 8, 16, 10, 8, 6, 4, 6, 5, 5, 6})) {
    case 0: return uni(-90, 90);
    case 1: return uni(-180, 180);
    case 2: return uni(-720, 720);
    case 3: {   // rounding carries: 59.999.. minutes / seconds, 359.999..
      double d = (double)irange(0, coin() ? 89 : 359), x;
      switch (irange(0, 2)) {
        case 0: x = d + (60 - loguni(1e-14, 1e-1)) / 60; break;
        case 1: x = d + 59 / 60.0 + (60 - loguni(1e-13, 1e-1)) / 3600; break;
        default: x = d + 1 - loguni(1e-16, 1e-2);
      }
      return sgn() * x;
    }
    case 4: {   // x * 60^n * 10^k within a few ulp of an integer
      int n = (int)irange(1, 2); double den = n == 1 ? 60 : 3600;
      double p10 = std::pow(10.0, (double)irange(0, 11));
      double m = (double)irange(0, (long long)(360 * den)) + (double)irange(0, (long long)p10) / p10;
      return sgn() * ulps(m / den, (int)irange(-2, 2));
    }
    case 5: return ulps((double)irange(-360, 360), (int)irange(-2, 2));
    case 6: return sgn() * loguni(1e-300, 1e-5);
    case 7: return coin() ? 0.0 : -0.0;
    case 8: return sgn() * loguni(1e3, 1e15);
    case 9: return sgn() * loguni(1e15, 1e300);
    case 10: return oneof<double>({INFINITY, -INFINITY, std::nan("")});
    default: {  // exact ties at the printed precision (5.25 -> 5.2, 5.75 -> 5.8)
      double sc = oneof<double>({1, 60, 3600});
      double p10 = std::pow(10.0, (double)irange(0, 6));
      return sgn() * ((double)irange(0, (long long)(180 * sc * p10)) + 0.5) / p10 / sc;
    }
  }
}

J gen_enc() {
  using namespace vf::g;
  J r = J::obj();
  r["v"] = J::num(enc_value());
  bool mode = coin(1, 3);
  r["mode"] = J::integer(mode);      // 0: Encode(angle, trailing, prec, ind, sep); 1: Encode(angle, prec, ind, sep)
  r["trailing"] = J::integer(irange(0, 2));
  r["prec"] = J::integer(mode ? irange(0, 24) : irange(0, 20));
  r["ind"] = J::integer(mode ? irange(0, 4) : irange(0, 3));
  r["sep"] = J::integer(oneof<int>({0, 0, 0, 0, ':', ':', ':', ' ', ',', '/', '_', ';'}));
  return r;
}

struct EncCase {
  bool ok = false; double v; int mode, tr, prec, ind; char sep; std::string s;
  int treff; int W; L scale;
};
bool enc_setup(const J& r, EncCase& c, Verdict& v) {
  c.v = r.getd("v"); c.mode = (int)r.geti("mode"); c.tr = (int)r.geti("trailing"); c.prec = (int)r.geti("prec");
  c.ind = (int)r.geti("ind"); long long sp = r.geti("sep");
  if (c.mode < 0 || c.mode > 1 || c.tr < 0 || c.tr > 2 || c.prec < 0 || c.prec > 60 || c.ind < 0 || c.ind > (c.mode ? 4 : 3) ||
      !(sp == 0 || std::strchr(": ,/_;", (int)sp))) { v.skip("outside the generated domain"); return false; }
  c.sep = (char)sp;
  // documented mapping of the 4-argument overload: prec < 2 DEGREE, < 4 MINUTE (prec-2), else SECOND (prec-4)
  c.treff = c.mode ? (c.ind == 4 ? 0 : c.prec < 2 ? 0 : c.prec < 4 ? 1 : 2) : c.tr;
  c.scale = c.treff == 0 ? 1 : c.treff == 1 ? 60 : 3600;
  c.W = c.ind == 0 || c.ind == 4 ? 1 : c.ind == 1 ? 2 : 3;
  try {
    c.s = c.mode ? DMS::Encode(c.v, unsigned(c.prec), DMS::flag(c.ind), c.sep)
                 : DMS::Encode(c.v, DMS::component(c.tr), unsigned(c.prec), DMS::flag(c.ind), c.sep);
  } catch (const GeographicErr& e) { v.that(false, std::string("Encode threw GeographicErr: ") + e.what()); return false; }
  static const char* tn[] = {"trail-D", "trail-M", "trail-S"}; static const char* in[] = {"NONE", "LATITUDE", "LONGITUDE", "AZIMUTH", "NUMBER"};
  v.tag(tn[c.treff]); v.tag(in[c.ind]); v.tag(c.sep == 0 ? "sep-0" : c.sep == ':' ? "sep-colon" : "sep-other");
  v.tag(c.mode ? "encode-4arg" : "encode-5arg");
  c.ok = true; return true;
}
int frac_digits(const std::string& s) {
  size_t p = s.rfind('.'); if (p == std::string::npos) return 0;
  int n = 0; for (size_t i = p + 1; i < s.size() && s[i] >= '0' && s[i] <= '9'; ++i) ++n;
  return n;
}
int int_digits(double v) { double a = std::fabs(v); return a < 1 ? 1 : (int)std::floor(std::log10(a)) + 1; }
// tolerance of the round trip: max(half a unit of the last printed digit, 4 ulp); one ulp is added to the half
// unit because the printed digits are those of fl((angle - floor(angle)) * 60^k), not of the exact product.
// Beyond 2^53 the decoder accumulates the integer digits in floating point (one rounding per digit), which is
// "a few units of round-off" only relative to the number of digits: 4 + #digits ulp there.
L tol_rt(double v, L halfunit, bool azi) {
  L u = azi ? (L)ulp_of(360.0) : (L)ulp_of(v);
  L k = std::fabs(v) > 9e15 && !azi ? 4 + int_digits(v) : 4;
  // half a unit of the last printed digit plus a few units of round-off: where the last digit is itself only ~7 ulp wide
  // (full-precision output) the rounding decision in Encode and the three-term sum in Decode add 1-2 ulp to the half unit
  // (thorough tier, 8.9e7 cases: half + 1.25 ulp and half + 1.07 ulp seen)
  return halfunit + k * u;
}

Verdict check_a(const J& r) {
  Verdict v; EncCase c;
  if (!enc_setup(r, c, v)) return v;
  double x = c.v;
  DMS::flag want = c.ind == 1 ? DMS::LATITUDE : c.ind == 2 ? DMS::LONGITUDE : DMS::NONE;
  if (!std::isfinite(x)) {
    v.nontrivial = false; v.tag("non-finite");
    std::string e = std::isnan(x) ? "nan" : x > 0 ? "inf" : "-inf";
    v.that(c.s == e, "non-finite value printed as '" + c.s + "' instead of '" + e + "'");
    try {
      DMS::flag f; double w = DMS::Decode(c.s, f);
      v.that(std::isnan(x) ? std::isnan(w) : w == x, "Decode of '" + c.s + "' does not return the non-finite value");
      v.that(f == DMS::NONE, "flag of non-finite value not NONE");
    } catch (const GeographicErr& e2) { v.that(false, "Decode rejects '" + c.s + "': " + e2.what()); }
    return v;
  }
  v.nontrivial = x != 0 && c.s.size() >= 3;
  std::string s2 = c.s;
  if (c.sep && c.sep != ':') for (char& ch : s2) if (ch == c.sep) ch = ':';
  DMS::flag f = DMS::flag(7); double w;
  try { w = DMS::Decode(s2, f); }
  catch (const GeographicErr& e) { v.that(false, "Decode rejects Encode output '" + c.s + "': " + e.what()); return v; }
  v.that(f == want, "flag after round trip differs (string '" + c.s + "')");
  int nd = frac_digits(c.s);
  L half = 0.5L * powl(10.0L, -nd) / c.scale;
  bool azi = c.ind == 3;
  L err = azi ? fabsl(remainderl((L)w - remainderl((L)x, 360.0L), 360.0L)) : fabsl((L)w - (L)x);
  if (std::fabs(x) > 9e15) v.tag("huge"); else if (std::fabs(x) < 1e-5) v.tag("tiny-or-zero");
  v.le(err, tol_rt(x, half, azi), "Decode(Encode(v)) - v [deg]");
  if (azi) v.that(w >= 0 && w <= 360, "azimuth string '" + c.s + "' decodes outside [0,360]");
  else v.that(std::signbit(w) == std::signbit(x), "sign lost in round trip via '" + c.s + "'");
  return v;
}

Verdict check_b(const J& r) {
  Verdict v; EncCase c;
  if (!enc_setup(r, c, v)) return v;
  double x = c.v;
  if (!std::isfinite(x)) { v.nontrivial = false; v.that(c.s == (std::isnan(x) ? "nan" : x > 0 ? "inf" : "-inf"), "non-finite spelling '" + c.s + "'"); return v; }
  v.nontrivial = x != 0 && c.s.size() >= 3;
  bool number = c.ind == 4, azi = c.ind == 3;
  c10ref::NF nf = c10ref::parse_nf(c.s, c.treff, c.sep, number);
  if (!nf.ok) { v.that(false, "output '" + c.s + "' not in the documented format: " + nf.why); return v; }
  // fraction digits: prec, limited to 15 - 2*trailing ("full real precision for numbers in [-90,90]", DMS.cpp;
  // GeoCoords.hpp / GeodSolve: max 10^-11 seconds, 10^-15 degrees); NUMBER: fixed format with precision prec
  int peff = c.mode ? (number ? c.prec : c.prec < 2 ? c.prec : c.prec < 4 ? c.prec - 2 : c.prec - 4) : c.prec;
  int want = number ? peff : std::min(peff, 15 - 2 * c.treff);
  if (!number && peff > 15 - 2 * c.treff) v.tag("prec>clamp");
  v.that((int)nf.frac.size() == want && nf.point == (want > 0),
         "'" + c.s + "' has " + std::to_string(nf.frac.size()) + " fraction digits, expected " + std::to_string(want));
  // minutes / seconds: two integer digits, below 60
  if (c.treff >= 1) v.that(nf.mn.size() == 2 && std::atoi(nf.mn.c_str()) < 60, "minutes field '" + nf.mn + "' in '" + c.s + "'");
  if (c.treff >= 2) v.that(nf.sc.size() == 2 && std::atoi(nf.sc.c_str()) < 60, "seconds field '" + nf.sc + "' in '" + c.s + "'");
  // degrees: padded to W digits (1 NONE, 2 LATITUDE, 3 LONGITUDE/AZIMUTH), no further leading zeros
  v.that((int)nf.deg.size() >= c.W && ((int)nf.deg.size() == c.W || nf.deg[0] != '0'), "degree field '" + nf.deg + "' in '" + c.s + "' not padded to " + std::to_string(c.W));
  // sign / hemisphere
  if (c.ind == 0 || c.ind == 4) { v.that(nf.neg == std::signbit(x), "sign of '" + c.s + "'"); v.that(nf.hemi == 0, "unexpected hemisphere letter"); }
  else if (azi) v.that(!nf.neg && nf.hemi == 0, "azimuth '" + c.s + "' carries a sign or letter");
  else v.that(!nf.neg && nf.hemi == (c.ind == 1 ? (std::signbit(x) ? 'S' : 'N') : (std::signbit(x) ? 'W' : 'E')), "hemisphere letter of '" + c.s + "'");
  // value of the printed digits (own arithmetic)
  L val = nf.value(), half = 0.5L * powl(10.0L, -(int)nf.frac.size()) / c.scale;
  if (azi) {
    v.that(val >= 0 && val <= 360, "azimuth '" + c.s + "' outside [0,360]");
    L vm = fmodl((L)x, 360.0L); if (vm < 0) vm += 360;
    if (val == 360) v.that(360 - vm <= half + 4 * (L)ulp_of(360.0), "azimuth printed as 360 although the value does not round to it: '" + c.s + "'");
    v.le(fabsl(remainderl(val - remainderl((L)x, 360.0L), 360.0L)), tol_rt(x, half, true), "printed azimuth - v (mod 360) [deg]");
  } else {
    L sv = (nf.neg || nf.hemi == 'S' || nf.hemi == 'W') ? -val : val;
    v.le(fabsl(sv - (L)x), tol_rt(x, half, false), "printed value - v [deg]");
  }
  if (c.treff >= 1 && !azi && floorl(val + 1e-18L) > floorl(fabsl((L)x))) v.tag("carry-to-degree");
  return v;
}

vf::Reg ra({"C10.a", "values (uniform, carry placements 59.99.., x*60^n near integers, ties, tiny, huge, +-0, inf, nan) x prec 0..24 x trailing x flag x separator; Decode(Encode(v)) vs v; non-trivial: v finite and non-zero, string length >= 3",
            0.16, [] { return rc::gen::exec([] { return gen_enc(); }); }, check_a, nullptr});
vf::Reg rb({"C10.b", "same generator; output parsed by an independent parser of the documented format: field widths, minutes/seconds < 60, padding, sign/hemisphere, azimuth range, digit count, printed value; non-trivial as C10.a",
            0.12, [] { return rc::gen::exec([] { return gen_enc(); }); }, check_b, nullptr});

// ============================================================================================ C10.c
// tolerance: the decoder evaluates (60*(60*d+m)+s)/3600 per piece (<= 3 roundings, each <= 0.5 ulp of the piece,
// the fraction itself is read correctly rounded) and adds the pieces (<= 0.5 ulp of the partial sums):
// analytic bound ~2 * 2^-52 * sum|piece|; calibrated maximum 2.15 * 2^-52 * sum|piece| over 6 seeds of the quick tier; frozen at 10 * 2^-52 (>= 4x).
L tol_dec(L sumabs) { return 10 * EPS * sumabs + 1e-320L; }

bool same_value(double got, L want, L tol) {
  if (std::isnan((double)want)) return std::isnan(got);
  if (std::isinf((double)want)) return got == (double)want;
  return fabsl((L)got - want) <= tol;
}

J gen_c() {
  using namespace vf::g;
  J r = J::obj();
  dmsgen::Opt oa, ob;
  if (coin(1, 2)) { oa.flag = (int)irange(0, 2); ob.flag = (int)irange(0, 2); if (coin(2, 3)) { (coin() ? oa : ob).inrange = true; } }
  r["a"] = dmsgen::gen_spec(oa);
  r["b"] = dmsgen::gen_spec(ob);
  r["longfirst"] = J::integer(coin(1, 3));
  return r;
}

Verdict check_c(const J& r) {
  Verdict v;
  if (!r.has("a") || !r.has("b")) { v.skip("no spec"); return v; }
  dmsgen::Rendered A = dmsgen::render(r.at("a")), B = dmsgen::render(r.at("b"));
  if (!A.ok || !B.ok) { v.skip("spec is not a documented form: " + (A.ok ? B.why : A.why)); return v; }
  bool lf = r.geti("longfirst") != 0;
  for (auto& t : A.tags) v.tag(t);
  v.nontrivial = A.s.size() >= 3;
  // oracle self-check: the reference acceptor must agree with the generator
  {
    dmsref::Res R = dmsref::decode(A.s);
    if (R.cls != dmsref::VALID || R.flag != A.flag || !same_value((double)R.value, A.value, tol_dec(A.sumabs)))
      { v.skip("ORACLE SELF-CHECK: reference acceptor disagrees with the generator (" + R.why + ")"); return v; }
  }
  // Decode
  DMS::flag f = DMS::flag(7); double w = 0;
  try { w = DMS::Decode(A.s, f); }
  catch (const GeographicErr& e) { v.that(false, std::string("documented form rejected: ") + e.what()); return v; }
  if (std::isfinite((double)A.value)) v.le(fabsl((L)w - A.value), tol_dec(A.sumabs), "Decode(valid form) - expected value [deg]");
  else v.that(same_value(w, A.value, 0), "Decode(valid form) does not give the expected non-finite value");
  v.that((int)f == A.flag, "Decode flag " + std::to_string((int)f) + ", expected " + std::to_string(A.flag));
  if (v.failed()) return v;
  // DecodeAngle: no hemisphere designator allowed
  try {
    double a = DMS::DecodeAngle(A.s);
    v.that(A.flag == 0, "DecodeAngle accepted a hemisphere designator");
    v.that(same_value(a, A.value, tol_dec(A.sumabs)), "DecodeAngle value");
  } catch (const GeographicErr&) { v.that(A.flag != 0, "DecodeAngle rejected a string without hemisphere designator"); }
  // DecodeAzimuth: N/S rejected, E/W allowed, result reduced to [-180,180]
  try {
    double a = DMS::DecodeAzimuth(A.s);
    v.that(A.flag != 1, "DecodeAzimuth accepted a N/S designator");
    if (std::isfinite((double)A.value)) {
      v.that(std::fabs(a) <= 180, "DecodeAzimuth result outside [-180,180]");
      v.le(fabsl(remainderl((L)a - remainderl(A.value, 360.0L), 360.0L)), tol_dec(A.sumabs), "DecodeAzimuth - expected (mod 360) [deg]");
    } else v.that(std::isnan(a), "DecodeAzimuth of a non-finite value is not NaN");
  } catch (const GeographicErr&) { v.that(A.flag == 1, "DecodeAzimuth rejected a string without N/S designator"); }
  // DecodeLatLon ordering rules
  {
    int fa = A.flag, fb = B.flag;
    if (fa == 0 && fb == 0) { fa = lf ? 2 : 1; fb = lf ? 1 : 2; }
    else if (fa == 0) fa = 3 - fb;
    else if (fb == 0) fb = 3 - fa;
    bool both = fa == fb;
    L elat = fa == 1 ? A.value : B.value, elon = fa == 1 ? B.value : A.value;
    L tlat = tol_dec(fa == 1 ? A.sumabs : B.sumabs), tlon = tol_dec(fa == 1 ? B.sumabs : A.sumabs);
    bool range = !both && fabsl(elat) > 90;         // NaN latitude is accepted (tests GeodSolve55..)
    bool edge = !both && std::isfinite((double)elat) && fabsl(fabsl(elat) - 90) <= tlat && fabsl(elat) != 90;
    double lat = 1234.5, lon = -6789.25;
    v.tag(both ? "latlon-both-same" : range ? "latlon-range" : A.flag || B.flag ? "latlon-by-letter" : lf ? "latlon-longfirst" : "latlon-default");
    try {
      DMS::DecodeLatLon(A.s, B.s, lat, lon, lf);
      if (!edge) v.that(!both && !range, both ? "DecodeLatLon accepted two latitudes / two longitudes" : "DecodeLatLon accepted |lat| > 90");
      if (!both && !range) {
        v.that(same_value(lat, elat, tlat), "DecodeLatLon latitude (ordering rule)");
        v.that(same_value(lon, elon, tlon), "DecodeLatLon longitude (ordering rule)");
      }
    } catch (const GeographicErr& e) {
      if (!edge) v.that(both || range, std::string("DecodeLatLon rejected a legal pair: ") + e.what());
      v.that(lat == 1234.5 && lon == -6789.25, "DecodeLatLon changed lat/lon although it threw");
      v.tag(msg_label(e.what()));
    }
  }
  return v;
}

vf::Reg rcx({"C10.c", "grammar-generated DMS strings in every documented form (d ' \" and all listed UTF-8 / single-byte alternatives, '' and pairs of minute symbols, colons, hemisphere prefix/suffix, signs and sign variants, sums of pieces, ignorable space symbols, white space, nan/inf) with the value computed from the spec; Decode, DecodeAngle, DecodeAzimuth, DecodeLatLon (both orders, longfirst); non-trivial: length >= 3",
             0.22, [] { return rc::gen::exec([] { return gen_c(); }); }, check_c, nullptr});

// ============================================================================================ C10.e
struct DocEx { const char* s; bool legal; L value; int flag; };
// LEGAL / ILLEGAL examples of DMS.hpp (verbatim) and the cases of tests/CMakeLists.txt (GeoConvert5, 9..13)
const std::vector<DocEx>& doc_examples() {
  static const L a = -20.51125L, b = 4.0025L, c = -70.0125L;
  static const std::vector<DocEx> t = {
      {"-20.51125", true, a, 0}, {"20d30'40.5\"S", true, a, 1}, {"-20\xc2\xb0" "30'40.5", true, a, 0}, {"-20d30.675", true, a, 0},
      {"N-20d30'40.5\"", true, a, 1}, {"-20:30:40.5", true, a, 0},
      {"4d0'9", true, b, 0}, {"4d9\"", true, b, 0}, {"4d9''", true, b, 0}, {"4:0:9", true, b, 0}, {"004:00:09", true, b, 0},
      {"4.0025", true, b, 0}, {"4.0025d", true, b, 0}, {"4d0.15", true, b, 0}, {"04:.15", true, b, 0},
      {"4:59.99999999999999", true, 5, 0}, {"4:60.0", true, 5, 0}, {"4:59:59.9999999999999", true, 5, 0}, {"4:59:60.0", true, 5, 0}, {"5", true, 5, 0},
      {"4d5\"4'", false, 0, 0}, {"4::5", false, 0, 0}, {"4:5:", false, 0, 0}, {":4:5", false, 0, 0}, {"4d4.5'4\"", false, 0, 0},
      {"-N20.5", false, 0, 0}, {"1.8e2d", false, 0, 0}, {"4:60", false, 0, 0}, {"4:59:60", false, 0, 0},
      {"S3-2.5+4.1N", true, -1.4L, 1},
      {"-070:00:45", true, c, 0}, {"70:01:15W+0:0.5", true, c, 2}, {"70:01:15W-0:0:30W", true, c, 2}, {"W70:01:15+0:0:30E", true, c, 2},
      {"70:01:15W+0:0:15N", false, 0, 0}, {"W70:01:15+W0:0:15", false, 0, 0},
      {"7.0E1", false, 0, 0}, {"7.0E+1", true, 8, 2}, {"8.0E", true, 8, 2},
      {"33d10", true, 33 + 10 / 60.0L, 0}, {"50d30'10.3\"", true, 50 + 30 / 60.0L + 10.3L / 3600, 0}, {"50:30:10.3", true, 50 + 30 / 60.0L + 10.3L / 3600, 0},
      {"5.5'", true, 5.5L / 60, 0}, {"0:5.5", true, 5.5L / 60, 0},
      {"5d.", false, 0, 0}, {"5d70.0", false, 0, 0}, {"5d60", false, 0, 0}, {"5d59", true, 5 + 59 / 60.0L, 0}, {"5d60.", true, 6, 0}, {"5d60.0", true, 6, 0},
      {"garbage", false, 0, 0}, {"", false, 0, 0}, {"nan", true, std::nanl(""), 0}, {"inf", true, INFINITY, 0}, {"-inf", true, -INFINITY, 0},
      // GeoCoords.hpp examples
      {"40d30'30\"", true, 40 + 30.5L / 60, 0}, {"40d30'30", true, 40 + 30.5L / 60, 0}, {"40\xb0" "30'30", true, 40 + 30.5L / 60, 0}, {"40d30.5'", true, 40.5L + 0.5L / 60, 0},
      {"40:30+0:0:30", true, 40 + 30.5L / 60, 0}, {"40:31-0:0.5", true, 40 + 30.5L / 60, 0}, {"-1:30-0:0:15", true, -(1.5L + 15 / 3600.0L), 0},
      {"E-75", true, -75, 2}, {"-40S", true, 40, 1}, {"N33d26.4'", true, 33 + 26.4L / 60, 1}, {"43d16'12\"E", true, 43 + 16.2L / 60, 2}, {"43:16:12E", true, 43 + 16.2L / 60, 2}};
  return t;
}

const std::vector<std::string>& ins_alphabet() {
  static std::vector<std::string> a;
  if (a.empty()) {
    for (const char* p = "0123456789.dD'\":+-NSEWnsew*` \t"; *p; ++p) { a.push_back(std::string(1, *p)); a.push_back(std::string(1, *p)); }
    for (const char* p = "aeinfxyzAIF#,;/=_()"; *p; ++p) a.push_back(std::string(1, *p));
    a.push_back(std::string(1, '\0')); a.push_back(std::string(1, '\0'));
    for (int b : {0x80, 0xb0, 0xba, 0xb4, 0xa0, 0xc2, 0xe2, 0xcb, 0xca, 0xff, 0x91, 0x92, 0x93, 0x96, 0xab, 0xbb, 0x81, 0x9e}) a.push_back(std::string(1, char(b)));
    for (char k : {'d', 'm', 's', '+', '-', 'i'}) for (auto& s : dmsref::spellings(k)) a.push_back(s);
    a.push_back("''"); a.push_back("\xc2\xab"); a.push_back("\xc2\xbb"); a.push_back("nan"); a.push_back("inf");
  }
  return a;
}

J gen_e() {
  using namespace vf::g;
  J r = J::obj();
  if (coin(1, 20)) { r["doc"] = J::integer(irange(0, (long long)doc_examples().size() - 1)); r["muts"] = J::arr(); if (coin(2, 3)) return r; }
  else r["a"] = dmsgen::gen_spec();
  J m = J::arr();
  long long n = wpick({0, 75, 20, 5});
  for (long long i = 0; i < n; ++i) {
    J e = J::obj();
    e["op"] = J::integer(wpick({35, 25, 25, 10, 5}));   // insert, delete, replace, transpose, duplicate
    e["pos"] = J::integer(irange(0, 99));
    e["b"] = J::str(oneofv(ins_alphabet()));
    m.push(e);
  }
  r["muts"] = m;
  return r;
}

std::string apply_muts(std::string s, const J& muts) {
  for (const J& e : muts.a) {
    long long op = e.geti("op"), pos = e.geti("pos"); const std::string& b = e.gets("b");
    size_t n = s.size();
    if (pos < 0) pos = 0;
    switch (op) {
      case 0: s.insert((size_t)pos % (n + 1), b); break;
      case 1: if (n) s.erase((size_t)pos % n, 1); break;
      case 2: if (n) s.replace((size_t)pos % n, 1, b); break;
      case 3: if (n >= 2) { size_t p = (size_t)pos % (n - 1); std::swap(s[p], s[p + 1]); } break;
      default: if (n) { size_t p = (size_t)pos % n; s.insert(p, 1, s[p]); }
    }
  }
  return s;
}

Verdict check_e(const J& r) {
  Verdict v;
  std::string s; const DocEx* doc = nullptr;
  if (r.has("doc")) {
    long long i = r.geti("doc");
    if (i < 0 || i >= (long long)doc_examples().size()) { v.skip("no such documented example"); return v; }
    doc = &doc_examples()[(size_t)i]; s = doc->s;
  } else if (r.has("a")) {
    dmsgen::Rendered A = dmsgen::render(r.at("a"));
    if (!A.ok) { v.skip("spec is not a documented form: " + A.why); return v; }
    s = A.s;
  } else { v.skip("no base string"); return v; }
  if (!r.has("muts") || r.at("muts").t != J::ARR || r.at("muts").a.size() > 4) { v.skip("no mutation list"); return v; }
  bool mutated = !r.at("muts").a.empty();
  try { s = apply_muts(s, r.at("muts")); } catch (const std::exception&) { v.skip("malformed mutation"); return v; }
  if (s.size() > 400) { v.skip("string too long"); return v; }
  dmsref::Res R = dmsref::decode(s);
  if (doc && !mutated) {
    // documented examples verbatim: the table is the oracle; the reference acceptor must agree with it
    bool agree = doc->legal ? (R.cls == dmsref::VALID && R.flag == doc->flag && same_value((double)R.value, doc->value, 1e-15L * (1 + fabsl(doc->value))))
                            : R.cls == dmsref::INVALID;
    if (!agree) { v.skip(std::string("ORACLE SELF-CHECK: reference acceptor disagrees with the documented example ") + doc->s); return v; }
    v.tag(doc->legal ? "doc-legal" : "doc-illegal");
  } else v.tag(doc ? "doc-mutated" : r.at("muts").a.size() == 1 ? "mut1" : "mut2+");
  v.nontrivial = s.size() >= 3;
  static const char* cn[] = {"ref-valid", "ref-invalid", "ref-unspec"};
  v.tag(cn[R.cls]);
  if (s.find('\0') != std::string::npos) v.tag("has-NUL");
  DMS::flag f = DMS::flag(7); double w = 0; bool threw = false; std::string what;
  try { w = DMS::Decode(s, f); }
  catch (const GeographicErr& e) { threw = true; what = e.what(); }
  if (threw) { v.tag(msg_label(what)); v.that(f == DMS::flag(7), "Decode changed the flag although it threw"); }
  if (R.cls == dmsref::INVALID) {
    v.that(threw, "malformed string accepted: Decode returned " + std::to_string(w) + " (" + R.why + ")");
  } else if (R.cls == dmsref::VALID) {
    v.that(!threw, "legal string rejected: " + what);
    if (!threw) {
      v.that(same_value(w, R.value, tol_dec(R.sumabs)), "Decode value " + std::to_string(w) + " differs from the reference value");
      v.that((int)f == R.flag, "Decode flag differs from the reference");
    }
  } else v.tag(threw ? "unspec-rejected" : "unspec-accepted");
  // DecodeLatLon: a malformed member in either position => throw, lat/lon untouched (documented)
  for (int pos = 0; pos < 2 && !v.failed(); ++pos) {
    double lat = 4321.5, lon = -8765.25; bool t2 = false;
    const std::string other = pos == 0 ? "10E" : "10N";
    try { if (pos == 0) DMS::DecodeLatLon(s, other, lat, lon); else DMS::DecodeLatLon(other, s, lat, lon); }
    catch (const GeographicErr&) { t2 = true; }
    if (t2) v.that(lat == 4321.5 && lon == -8765.25, "DecodeLatLon changed lat/lon although it threw");
    if (R.cls == dmsref::INVALID) v.that(t2, "DecodeLatLon accepted a malformed member");
  }
  return v;
}

void enum_e(vf::EnumCtx& c) {
  if (c.shard != 0) return;
  for (size_t i = 0; i < doc_examples().size(); ++i) { J r = J::obj(); r["doc"] = J::integer((long long)i); r["muts"] = J::arr(); if (!c.emit(r)) return; }
}

vf::Reg re({"C10.e", "documented LEGAL/ILLEGAL examples verbatim (enumerated), and 1-3 point mutations (insert/delete/replace/transpose/duplicate; digits, indicator symbols, NUL, high-bit bytes, whole UTF-8 symbols) of grammar-generated valid strings, classified by the reference acceptor written from DMS.hpp: INVALID => GeographicErr and outputs untouched, VALID => reference value; non-trivial: length >= 3",
            0.22, [] { return rc::gen::exec([] { return gen_e(); }); }, check_e, enum_e});

// ============================================================================================ C10.d
double any_double() {
  using namespace vf::g;
  switch (wpick({25, 15, 15, 10, 10, 10, 8, 7})) {
    case 0: return uni(-720, 720);
    case 1: return sgn() * loguni(1e-9, 1e9);
    case 2: return sgn() * loguni(1e-300, 1e300);
    case 3: return (double)irange(-100000, 100000);
    case 4: return ((double)irange(-100000, 100000) + 0.5) / std::pow(10.0, (double)irange(0, 6));
    case 5: return oneof<double>({0.0, -0.0, 1.0, -1.0, 0.1, 1e15, 9007199254740993.0, 1e22, 1e23});
    case 6: return oneof<double>({INFINITY, -INFINITY, std::nan("")});
    default: return ulps((double)irange(-1000, 1000), (int)irange(-3, 3));
  }
}
std::string rnd_ws(int maxn) {
  using namespace vf::g; std::string w; long long n = irange(0, maxn);
  for (long long i = 0; i < n; ++i) w += oneof<char>({' ', ' ', '\t', '\n', '\v', '\f', '\r'});
  return w;
}
std::string rnd_case(const std::string& s) {
  using namespace vf::g; std::string o = s;
  int m = (int)irange(0, 3);
  for (char& c : o) if (c >= 'a' && c <= 'z' && (m == 1 || (m == 2 && coin()) || (m == 3 && &c == &o[0]))) c = char(c - 'a' + 'A');
  return o;
}
std::string numeric_string() {
  using namespace vf::g;
  std::string s;
  int sg = wpick({60, 25, 15}); if (sg == 1) s += '-'; else if (sg == 2) s += '+';
  int form = wpick({40, 30, 10, 10, 10});
  auto digs = [&](int lo, int hi) { std::string d; long long n = irange(lo, hi); for (long long i = 0; i < n; ++i) d += char('0' + irange(0, 9)); return d; };
  if (form == 0) s += digs(1, 9);
  else if (form == 1) s += digs(1, 6) + "." + digs(0, 12);
  else if (form == 2) s += "." + digs(1, 8);
  else if (form == 3) s += digs(1, 20);
  else s += digs(1, 3) + "." + digs(1, 4);
  if (coin(1, 4)) { s += coin() ? 'e' : 'E'; int es = wpick({50, 25, 25}); if (es == 1) s += '-'; else if (es == 2) s += '+'; s += std::to_string(irange(0, coin(1, 8) ? 400 : 30)); }
  return s;
}
std::string mutate1(std::string s) {
  using namespace vf::g;
  static const std::string al = "0123456789.+-eE xX/,#nai\t";
  size_t n = s.size();
  switch (irange(0, 3)) {
    case 0: s.insert((size_t)irange(0, (long long)n), 1, al[(size_t)irange(0, (long long)al.size() - 1)]); break;
    case 1: if (n) s.erase((size_t)irange(0, (long long)n - 1), 1); break;
    case 2: if (n) s[(size_t)irange(0, (long long)n - 1)] = al[(size_t)irange(0, (long long)al.size() - 1)]; break;
    default: if (n >= 2) { size_t p = (size_t)irange(0, (long long)n - 2); std::swap(s[p], s[p + 1]); }
  }
  return s;
}
std::string line_text() {
  using namespace vf::g;
  static const std::string al = "abcXYZ019_.-  \t\t==##::\r\v";
  std::string s; long long n = irange(0, 24);
  for (long long i = 0; i < n; ++i) s += al[(size_t)irange(0, (long long)al.size() - 1)];
  return s;
}

J gen_d() {
  using namespace vf::g;
  J r = J::obj();
  int k = wpick({22, 14, 22, 10, 14, 8, 10});
  r["k"] = J::integer(k);
  switch (k) {
    case 0: r["x"] = J::num(any_double()); r["p"] = J::integer(irange(-1, 20)); r["n"] = J::integer(irange(-2147483647LL - 1, 2147483647LL)); r["b"] = J::integer(coin()); break;
    case 1: {   // inf / nan spellings and near misses
      std::string core = oneof<std::string>({"nan", "inf", "infinity", "1.#QNAN", "1.#SNAN", "1.#IND", "1.#R", "1.#INF", "na", "infi", "nanx", "in", "1.#", "infinit", "nan nan"});
      std::string sgs = oneof<std::string>({"", "", "+", "-"});
      r["s"] = J::str(rnd_ws(2) + sgs + rnd_case(core) + rnd_ws(2)); break;
    }
    case 2: { std::string s = numeric_string(); if (coin(1, 3)) s = mutate1(s); r["s"] = J::str(rnd_ws(1) + s + rnd_ws(1)); break; }
    case 3: { std::string s = numeric_string() + "/" + numeric_string(); if (coin(1, 3)) s = mutate1(s); r["s"] = J::str(s); break; }
    case 4: r["s"] = J::str(line_text()); r["eq"] = J::integer(oneof<int>({0, 0, '=', ':'})); r["cm"] = J::integer(oneof<int>({'#', '#', 0, ';'})); break;
    case 5: {
      std::string t; long long n = irange(0, 12); for (long long i = 0; i < n; ++i) t += oneof<char>({'A', 'B', 'S', 'N', 'W', 'E', '0', '1', '9', '-', '+', 'D', '\'', '"', ':', 'X', 'Z'});
      r["s"] = J::str(t); r["c"] = J::integer(coin(1, 6) ? 0 : coin(1, 3) ? irange(1, 255) : (long long)(unsigned char)oneof<char>({'a', 'b', 's', 'n', 'w', 'e', 'A', 'S', '0', '9', '-', 'd', 'D', ':', 'x'}));
      break;
    }
    default: {
      r["y"] = J::integer(irange(1, 3000)); r["m"] = J::integer(irange(1, 12)); r["dd"] = J::integer(coin(1, 3) ? irange(28, 31) : irange(1, 31));
      r["s"] = J::str(oneof<std::string>({"", "", "", "2010/01/01", "2010-", "-01", "2010-01-", "2010--01", "20x0", "2010-01-01-01", "2010-1x", "now "}));
      r["big"] = J::str(oneof<std::string>({"214749-01", "1-999999999", "2000000-01-01", "2010-01-999999999", "100000-01-01"}));
      r["word"] = J::str(rnd_case(oneof<std::string>({"false", "f", "nil", "no", "n", "off", "", "true", "t", "yes", "y", "on", "0", "1", "tru", "yess", "2", "offf", "ye", "o", "nul"})));
    }
  }
  return r;
}

template <class T, class F> bool throws_geo(F f, T& out) {
  try { out = f(); return false; } catch (const GeographicErr&) { return true; }
}
bool leap_greg(int y) { return (y % 4 == 0 && y % 100 != 0) || y % 400 == 0; }

Verdict check_d(const J& r) {
  Verdict v;
  long long k = r.geti("k");
  if (k == 0) {            // str -> val round trips
    double x = r.getd("x"); long long p = r.geti("p"); long long n = r.geti("n"); bool b = r.geti("b") != 0;
    if (p < -1 || p > 40 || n < INT_MIN || n > INT_MAX) { v.skip("outside the generated domain"); return v; }
    v.tag("str-val"); v.nontrivial = std::isfinite(x) && x != 0;
    std::string s = Utility::str(x, (int)p);
    double y = 0;
    if (throws_geo([&] { return Utility::val<double>(s); }, y)) { v.that(false, "val<double> rejects str output '" + s + "'"); return v; }
    if (std::isnan(x)) { v.tag("nan"); v.that(s == "nan" && std::isnan(y), "nan printed as '" + s + "'"); }
    else if (std::isinf(x)) { v.tag("inf"); v.that(s == (x > 0 ? "inf" : "-inf") && y == x, "inf printed as '" + s + "'"); }
    else if (p >= 0) {
      // fixed format with p digits: exact decimal rounding (half a unit of the last digit) + correctly rounded read
      v.le(fabsl((L)y - (L)x), 0.5L * powl(10.0L, -(int)p) + (L)ulp_of(x), "val(str(x,p)) - x");
      v.that(frac_digits(s) == (int)p, "str(x,p) does not have p fraction digits: '" + s + "'");
      v.that(std::signbit(y) == std::signbit(x), "sign lost by str/val");
    } else v.le(fabsl((L)y - (L)x), 0.5000001e-5L * fabsl((L)x) + 1e-320L, "val(str(x)) - x (default 6 significant digits)");
    int m = 0; std::string sn = Utility::str((int)n);
    v.that(!throws_geo([&] { return Utility::val<int>(sn); }, m) && m == (int)n, "val<int>(str(n)) != n for '" + sn + "'");
    bool bb = !b; std::string sb = Utility::str(b);
    v.that(sb == (b ? "true" : "false"), "str(bool) is not boolalpha: '" + sb + "'");
    v.that(!throws_geo([&] { return Utility::val<bool>(sb); }, bb) && bb == b, "val<bool>(str(b)) != b");
    return v;
  }
  const std::string& s = r.gets("s");
  if (s.size() > 200) { v.skip("string too long"); return v; }
  v.nontrivial = s.size() >= 3;
  if (k == 1 || k == 2) {  // val<double>, val<int>, nummatch against the reference acceptors
    v.tag(k == 1 ? "spellings" : "numeric");
    double want = 0, got = 0; c10ref::Acc a = c10ref::accept_float(s, want);
    std::string t = c10ref::trim(s), core = c10ref::lower(t);
    if (!core.empty() && (core[0] == '+' || core[0] == '-')) core = core.substr(1);
    bool msvariant = core.rfind("1.#", 0) == 0;        // 1.#INF, 1.#QNAN, ...: documented only as "variants thereof"
    bool thr = throws_geo([&] { return Utility::val<double>(s); }, got);
    if (msvariant) {
      v.tag("ms-variant");
      bool listed = core == "1.#inf" || core == "1.#qnan" || core == "1.#snan" || core == "1.#ind" || core == "1.#r";
      if (listed) v.that(!thr && (core == "1.#inf" ? std::isinf(got) && (got < 0) == (t[0] == '-') : std::isnan(got)), "Windows-style spelling '" + t + "' not recognised");
      else v.that(thr, "val<double> accepted '" + t + "'");
    } else if (a == c10ref::ACC) {
      v.tag("accept");
      v.that(!thr, "val<double> rejected '" + t + "'");
      if (!thr) v.that(std::isnan(want) ? std::isnan(got) : got == want && std::signbit(got) == std::signbit(want), "val<double>('" + t + "') = " + std::to_string(got));
    } else if (a == c10ref::REJ) { v.tag("reject"); v.that(thr, "val<double> accepted malformed '" + t + "' as " + std::to_string(got)); }
    else v.tag("underflow-unspecified");
    // nummatch: special value or 0; "White space is not allowed at the beginning or end"
    {
      double nm = Utility::nummatch<double>(t);
      bool special = a == c10ref::ACC && !std::isfinite(want);
      if (!msvariant) v.that(special ? (std::isnan(want) ? std::isnan(nm) : nm == want) : nm == 0, "nummatch('" + t + "') = " + std::to_string(nm));
      if (special && s != t) v.that(Utility::nummatch<double>(s) == 0, "nummatch ignores white space");
    }
    int iw = 0, ig = 0; c10ref::Acc ai = c10ref::accept_int(s, iw);
    bool ti = throws_geo([&] { return Utility::val<int>(s); }, ig);
    if (ai == c10ref::ACC) v.that(!ti && ig == iw, "val<int>('" + t + "')"); else v.that(ti, "val<int> accepted '" + t + "' as " + std::to_string(ig));
    std::string st = Utility::val<std::string>(s);
    v.that(st == t, "val<string> is not the trimmed string");
    return v;
  }
  if (k == 3) {            // fract
    v.tag("fract");
    size_t d = s.find('/');
    double want = 0, got = 0; bool ok, uns = false;
    if (d != std::string::npos && d >= 1 && d + 2 <= s.size()) {
      double a = 0, b = 0; c10ref::Acc ra = c10ref::accept_float(s.substr(0, d), a), rb = c10ref::accept_float(s.substr(d + 1), b);
      uns = ra == c10ref::UNS || rb == c10ref::UNS; ok = ra == c10ref::ACC && rb == c10ref::ACC; want = a / b; v.tag("fraction");
    } else { c10ref::Acc ra = c10ref::accept_float(s, want); uns = ra == c10ref::UNS; ok = ra == c10ref::ACC; v.tag("no-fraction"); }
    bool thr = throws_geo([&] { return Utility::fract<double>(s); }, got);
    if (uns) { v.tag("underflow-unspecified"); return v; }
    v.that(thr == !ok, ok ? "fract rejected '" + s + "'" : "fract accepted malformed '" + s + "' as " + std::to_string(got));
    if (ok && !thr) v.that(std::isnan(want) ? std::isnan(got) : got == want, "fract('" + s + "') = " + std::to_string(got));
    return v;
  }
  if (k == 4) {            // trim, ParseLine
    v.tag("parseline");
    long long eq = r.geti("eq"), cm = r.geti("cm");
    if (eq < 0 || eq > 127 || cm < 0 || cm > 127) { v.skip("outside the generated domain"); return v; }
    v.that(Utility::trim(s) == c10ref::trim(s), "trim('" + s + "')");
    std::string k1 = "junk", v1 = "junk", k2, v2;
    bool b1 = Utility::ParseLine(s, k1, v1, (char)eq, (char)cm), b2 = c10ref::parseline(s, k2, v2, (char)eq, (char)cm);
    v.tag(b2 ? (v2.empty() ? "key-only" : "key-value") : "no-key");
    v.that(b1 == b2 && k1 == k2 && v1 == v2, "ParseLine('" + s + "') -> (" + k1 + "|" + v1 + "), reference (" + k2 + "|" + v2 + ")");
    return v;
  }
  if (k == 5) {            // lookup
    v.tag("lookup");
    long long c = r.geti("c");
    if (c < 0 || c > 255 || s.find('\0') != std::string::npos) { v.skip("outside the generated domain"); return v; }
    char ch = (char)(unsigned char)c, up = (ch >= 'a' && ch <= 'z') ? char(ch - 'a' + 'A') : ch;
    int want = -1;
    if (ch) for (size_t i = 0; i < s.size(); ++i) if (s[i] == up) { want = (int)i; break; }
    if (!ch) v.tag("lookup-NUL");
    v.that(Utility::lookup(s.c_str(), ch) == want, "lookup(const char*) for character code " + std::to_string(c) + " in '" + s + "'");
    v.that(Utility::lookup(s, ch) == want, "lookup(string) for character code " + std::to_string(c) + " in '" + s + "'");
    return v;
  }
  // k == 6: dates, bool words
  {
    v.tag("date-bool");
    int y = (int)r.geti("y"), m = (int)r.geti("m"), d = (int)r.geti("dd");
    if (y < 1 || y > 9999 || m < 1 || m > 12 || d < 1 || d > 31) { v.skip("outside the generated domain"); return v; }
    const std::string& word = r.gets("word");
    {   // documented word list of val<bool>
      std::string lw = c10ref::lower(c10ref::trim(word)); bool got = false;
      bool isf = lw == "false" || lw == "f" || lw == "nil" || lw == "no" || lw == "n" || lw == "off" || lw == "" || lw == "0";
      bool ist = lw == "true" || lw == "t" || lw == "yes" || lw == "y" || lw == "on" || lw == "1";
      bool thr = throws_geo([&] { return Utility::val<bool>(" " + word + "\t"); }, got);
      v.that(thr == !(isf || ist), "val<bool>('" + word + "') " + (thr ? "rejected" : "accepted"));
      if (!thr && (isf || ist)) v.that(got == ist, "val<bool>('" + word + "') wrong value");
    }
    if (r.has("big")) {    // fields too large for the int arithmetic of day(): "can't be interpreted as a date" (fix 8c7b613)
      const std::string& big = r.gets("big"); double fy = 0;
      if (big.size() <= 40) {
        bool thr = throws_geo([&] { return Utility::fractionalyear<double>(big); }, fy);
        double y0 = std::strtod(big.c_str(), nullptr);
        bool badfield = big.find("999999999") != std::string::npos;      // month / day out of range: must be rejected
        if (badfield) v.that(thr, "fractionalyear('" + big + "') accepted");
        else if (!thr) v.that(fy >= y0 && fy <= y0 + 1, "fractionalyear('" + big + "') = " + std::to_string(fy));   // a huge year may be rejected or handled, never UB
      }
    }
    if (!s.empty()) {      // malformed date strings
      int y1 = -7, m1 = -7, d1 = -7; bool thr = false;
      if (s != "now ") { try { Utility::date(s, y1, m1, d1); } catch (const GeographicErr&) { thr = true; }
        v.that(thr, "date('" + s + "') accepted"); v.that(y1 == -7 && m1 == -7 && d1 == -7, "date changed outputs although it threw"); }
      double fy = 0, num = 0; bool isnum = c10ref::accept_float(s, num) == c10ref::ACC;   // "first read as an ordinary number"
      bool tf = throws_geo([&] { return Utility::fractionalyear<double>(s); }, fy);
      if (isnum) v.that(!tf && fy == num, "fractionalyear('" + s + "') of a plain number"); else v.that(tf, "fractionalyear('" + s + "') accepted");
      return v;
    }
    static const int mdays[] = {31, 28, 31, 30, 31, 30, 31, 31, 30, 31, 30, 31};
    bool greg = y > 1752;   // Gregorian throughout the year (cut-over 1752-09-14, documented in Utility.hpp)
    int ml = mdays[m - 1] + (m == 2 && (greg ? leap_greg(y) : y % 4 == 0) ? 1 : 0);
    bool valid = d <= ml && y != 1752;
    char buf[40]; std::snprintf(buf, sizeof buf, "%04d-%02d-%02d", y, m, d);
    int y1, m1, d1; Utility::date(std::string(buf), y1, m1, d1);
    v.that(y1 == y && m1 == m && d1 == d, std::string("date('") + buf + "') fields");
    if (y == 1752) { v.tag("cut-over-year"); return v; }
    int sd = 0; bool thr = throws_geo([&] { return Utility::day(y, m, d, true); }, sd);
    v.that(thr == !valid, std::string(buf) + (thr ? " rejected by day(check)" : " accepted by day(check)"));
    double fy = 0; bool thf = throws_geo([&] { return Utility::fractionalyear<double>(std::string(buf)); }, fy);
    v.that(thf == !valid, std::string("fractionalyear('") + buf + "')");
    if (valid && !thr) {
      v.tag("valid-date");
      int y2, m2, d2; Utility::date(sd, y2, m2, d2);
      v.that(y2 == y && m2 == m && d2 == d, "date(day(y,m,d)) != (y,m,d)");
      int doy = d; for (int i = 0; i < m - 1; ++i) doy += mdays[i] + (i == 1 && (greg ? leap_greg(y) : y % 4 == 0) ? 1 : 0);
      int ylen = 365 + ((greg ? leap_greg(y) : y % 4 == 0) ? 1 : 0);
      v.that(sd - Utility::day(y, 1, 1) == doy - 1, "day(y,m,d) - day(y,1,1) != day of year - 1");
      if (!thf) v.le(std::fabs(fy - (y + (doy - 1) / (double)ylen)), 4 * ulp_of((double)y), "fractionalyear(yyyy-mm-dd)");
      // day of week: 0001-01-01 is a Saturday and days are consecutive
      v.that(Utility::dow(y, m, d) == (sd + 5) % 7, "dow");
      std::snprintf(buf, sizeof buf, "%d.5", y); v.that(Utility::fractionalyear<double>(std::string(buf)) == y + 0.5, "fractionalyear(number)");
    } else v.tag("invalid-date");
  }
  return v;
}

vf::Reg rd({"C10.d", "Utility: str/val round trips (double at precision -1..20 incl. inf/nan, int, bool), inf/nan spellings and near misses for val/nummatch, numeric strings and mutations vs a reference acceptor (strtod on a checked syntax), fract, trim/ParseLine vs a model from the header text, lookup incl. NUL and lower case, date/day/fractionalyear; non-trivial: finite non-zero value or string length >= 3",
            0.14, [] { return rc::gen::exec([] { return gen_d(); }); }, check_d, nullptr});

// ============================================================================================ C10.f
J gen_f() {
  using namespace vf::g;
  J r = J::obj();
  double lat, lon;
  switch (wpick({40, 15, 15, 15, 10, 12})) {
    case 5: lat = sgn() * ((double)(8 * irange(0, 10)) + (coin() ? -1 : 1) * loguni(1e-9, 0.02));                 // a band edge AND a zone edge:
            lon = 6.0 * (double)irange(-30, 30) + sgn() * loguni(1e-9, 0.4); break;                                // 100 km blocks cut by a band boundary
    case 0: lat = uni(-90, 90); lon = uni(-180, 180); break;
    case 1: lat = gg::latitude(); lon = gg::angle(); break;
    case 2: lat = uni(-80, 84); lon = 6.0 * (double)irange(-30, 30) + sgn() * loguni(1e-12, 1.0); break;       // near zone edges
    case 3: lat = oneof<double>({-80, 0, 56, 64, 72, 84}) + sgn() * loguni(1e-12, 1.0); lon = uni(-10, 45); break; // band / UPS edges, Norway, Svalbard
    default: lat = sgn() * (90 - loguni(1e-9, 6.0)); lon = uni(-180, 180);                                         // polar
  }
  if (lat > 90) lat = 90; if (lat < -90) lat = -90;
  r["lat"] = J::num(lat); r["lon"] = J::num(lon);
  r["rep"] = J::integer(irange(0, 6));
  r["prec"] = J::integer(coin(1, 8) ? irange(-12, 16) : irange(-6, 10));
  r["lf"] = J::integer(coin(1, 3)); r["sep"] = J::integer(oneof<int>({0, 0, ':'}));
  r["abbrev"] = J::integer(coin(2, 3)); r["northp"] = J::integer(coin()); r["zonelast"] = J::integer(coin(1, 3));
  r["centerp"] = J::integer(coin(2, 3)); r["dz"] = J::integer(oneof<int>({-1, 1, 1, 0, 100}));
  return r;
}

bool near_zone_edge(double lat, double lon, double resdeg) {
  static const double le[] = {-80, 0, 56, 64, 72, 84};
  for (double e : le) if (std::fabs(lat - e) <= resdeg) return true;
  if (lat >= -80 - resdeg && lat < 84 + resdeg) {
    double c = std::cos(std::min(89.9, std::fabs(lat)) * M_PI / 180);
    (void)c;
    if (std::fabs(std::remainder(lon, 3.0)) <= resdeg) return true;
  }
  return false;
}

Verdict check_f(const J& r) {
  Verdict v;
  double lat = r.getd("lat"), lon = r.getd("lon");
  long long rep = r.geti("rep"), prec = r.geti("prec"), dz = r.geti("dz");
  bool lf = r.geti("lf"), abbrev = r.geti("abbrev"), northp = r.geti("northp"), zonelast = r.geti("zonelast"), centerp = r.geti("centerp");
  long long sp = r.geti("sep");
  if (!(std::fabs(lat) <= 90) || !std::isfinite(lon) || std::fabs(lon) > 1e6 || rep < 0 || rep > 6 || prec < -40 || prec > 40 || !(sp == 0 || sp == ':'))
    { v.skip("outside the documented domain"); return v; }
  char sep = (char)sp;
  GeoCoords p;
  try { p.Reset(lat, lon); } catch (const GeographicErr& e) { v.that(false, std::string("Reset(lat,lon) threw: ") + e.what()); return v; }
  static const char* rn[] = {"Geo", "DMS", "UTMUPS", "UTMUPS-northp", "MGRS", "AltUTMUPS", "AltMGRS"};
  v.tag(rn[rep]); v.tag(p.Zone() == 0 ? "ups" : "utm");
  double lonn = std::remainder(lon, 360.0);
  GeoCoords q;
  auto reread = [&](const std::string& s, bool cp, bool lfirst) -> bool {
    try { q.Reset(s, cp, lfirst); return true; }
    catch (const GeographicErr& e) { v.that(false, "Reset rejects the library's own representation '" + s + "': " + e.what()); return false; }
  };
  if (rep <= 1) {
    // documented resolution: Geo 10^-(5+prec) deg, prec in [-5,9]; DMS table of GeoCoords.hpp, prec in [-5,10]
    long long pc = std::max(-5LL, std::min(rep == 0 ? 9LL : 10LL, prec)) + 5;
    L res = rep == 0 ? powl(10.0L, -(int)pc) : pc < 2 ? powl(10.0L, -(int)pc) : pc < 4 ? powl(10.0L, -(int)(pc - 2)) / 60 : powl(10.0L, -(int)(pc - 4)) / 3600;
    std::string s;
    try { s = rep == 0 ? p.GeoRepresentation((int)prec, lf) : p.DMSRepresentation((int)prec, lf, sep); }
    catch (const GeographicErr& e) { v.that(false, std::string("representation threw: ") + e.what()); return v; }
    if (prec < -5 || prec > (rep == 0 ? 9 : 10)) v.tag("prec-clamped");
    // decimal degrees carry no hemisphere letters: the order is given by longfirst; DMS strings carry letters
    if (!reread(s, true, rep == 0 ? lf : (bool)northp)) return v;
    // same law as C10.a: max(half a unit of the last printed digit + 1 ulp, 4 ulp), ulp taken at the top of the range
    L ua = (L)ulp_of(90.0), uo = (L)ulp_of(180.0);
    v.le(fabsl((L)q.Latitude() - (L)lat), std::max(0.5L * res + ua, 4 * ua), "latitude re-read from Geo/DMS representation [deg]");
    v.le(fabsl(remainderl((L)q.Longitude() - (L)lonn, 360.0L)), std::max(0.5L * res + uo, 4 * uo), "longitude re-read from Geo/DMS representation [deg]");
    if (!near_zone_edge(lat, lonn, (double)res)) { v.that(q.Zone() == p.Zone(), "zone changed by the round trip through '" + s + "'"); v.that(q.Northp() == p.Northp(), "hemisphere changed by the round trip"); }
    else v.tag("near-zone-edge");
    v.nontrivial = lat != 0 || lon != 0;
    return v;
  }
  bool alt = rep >= 5;
  if (alt) {
    int z2;
    if (p.Zone() == 0 || dz == 100) z2 = UTMUPS::STANDARD;
    else { z2 = (int)((p.Zone() - 1 + dz + 60) % 60) + 1; }
    try { p.SetAltZone(z2); } catch (const GeographicErr&) { v.skip("alternate zone not available for this position"); return v; }
    v.tag(p.AltZone() == p.Zone() ? "alt-same" : "alt-other");
  }
  int zone = alt ? p.AltZone() : p.Zone();
  double E = alt ? p.AltEasting() : p.Easting(), N = alt ? p.AltNorthing() : p.Northing();
  bool mgrs = rep == 4 || rep == 6;
  if (!mgrs) {
    long long pc = std::max(-5LL, std::min(9LL, prec));
    L res = powl(10.0L, -(int)pc);
    std::string s; bool over = rep == 3 || (alt && northp != p.Northp() && dz != 0);
    bool np = over ? (bool)northp : p.Northp();
    try {
      s = rep == 2 ? p.UTMUPSRepresentation((int)prec, abbrev) : rep == 3 ? p.UTMUPSRepresentation(np, (int)prec, abbrev)
                   : over ? p.AltUTMUPSRepresentation(np, (int)prec, abbrev) : p.AltUTMUPSRepresentation((int)prec, abbrev);
    } catch (const GeographicErr& e) {
      // documented: the hemisphere override cannot change UPS n to UPS s
      v.that(over && zone == 0 && np != p.Northp(), std::string("UTMUPSRepresentation threw: ") + e.what());
      v.tag("ups-hemisphere-override-rejected"); return v;
    }
    v.that(!(over && zone == 0 && np != p.Northp()), "hemisphere override of a UPS position accepted");
    if (over) v.tag(np == p.Northp() ? "override-same" : "override-other");
    if (!abbrev) v.tag("long-hemisphere");
    if (zonelast) {   // "Easting Northing Zone" is the second documented token order
      std::istringstream is(s); std::string a, b, c; is >> a >> b >> c; s = b + " " + c + " " + a; v.tag("zone-last");
    }
    if (!reread(s, true, false)) return v;
    v.that(q.Zone() == zone, "zone " + std::to_string(q.Zone()) + " re-read from '" + s + "', expected " + std::to_string(zone));
    v.le(fabsl((L)q.Easting() - (L)E), 0.5L * res + (L)ulp_of(1e7), "easting re-read from UTM/UPS representation [m]");
    // hemisphere and northing: the re-read position is put back into the hemisphere of its latitude (FixHemisphere),
    // unless the rounded northing moved the point onto / across the equator
    bool eq = zone != 0 && std::fabs(lat) * 110000 <= (double)res * 1.1 + 1e-3;
    if (!eq) {
      v.that(q.Northp() == p.Northp(), "hemisphere re-read from '" + s + "'");
      v.le(fabsl((L)q.Northing() - (L)N), 0.5L * res + (L)ulp_of(2e7), "northing re-read from UTM/UPS representation [m]");
    } else v.tag("equator-within-resolution");
    // same position: metres -> degrees with generous factors (scale >= 0.9996, <= ~1.04 in neighbouring zones)
    if (!eq) {
      L tdeg = (0.75L * res + 1e-6L) / 110000.0L;
      v.le(fabsl((L)q.Latitude() - (L)lat), tdeg, "latitude of the re-read UTM/UPS position [deg]");
      L c = cosl((L)lat * M_PIl / 180);
      // (near a pole the longitude of a point closer to the axis than the resolution is not determined)
      if (c > 1e-6L) { L tl = tdeg / c; if (tl < 0.5L) v.le(fabsl(remainderl((L)q.Longitude() - (L)lonn, 360.0L)), tl, "longitude of the re-read UTM/UPS position [deg]"); }
    }
    v.nontrivial = true;
    return v;
  }
  // MGRS
  long long pc = std::max(-6LL, std::min(6LL, prec));
  std::string s;
  try { s = alt ? p.AltMGRSRepresentation((int)prec) : p.MGRSRepresentation((int)prec); }
  catch (const GeographicErr& e) {
    // a neighbouring (alternate) zone may put the point outside the MGRS easting range; in its own standard zone every
    // latitude/longitude has an MGRS string (UTM -80 <= lat < 84 in a zone at most 12 deg wide, UPS elsewhere)
    if (alt && p.AltZone() != p.Zone()) { v.skip("position outside the documented MGRS range in this alternate zone"); return v; }
    v.that(false, std::string("MGRSRepresentation threw for a position in its standard zone: ") + e.what()); return v;
  }
  v.tag("mgrs-prec" + std::to_string(pc));
  if (!reread(s, centerp, false)) return v;
  v.that(q.Zone() == zone, "zone re-read from '" + s + "'");
  v.that(q.Northp() == p.Northp(), "hemisphere re-read from '" + s + "'");
  if (pc > -6) {
    L unit = powl(10.0L, -(int)pc), slack = 1e-8L + (L)ulp_of(1e7);
    if (centerp) {
      v.le(fabsl((L)q.Easting() - (L)E), 0.5L * unit + slack, "easting re-read from MGRS (centre) [m]");
      v.le(fabsl((L)q.Northing() - (L)N), 0.5L * unit + slack, "northing re-read from MGRS (centre) [m]");
    } else {
      L de = (L)E - (L)q.Easting(), dn = (L)N - (L)q.Northing();
      v.that(de >= -slack && de <= unit + slack, "easting not inside the MGRS square of '" + s + "' (SW corner)");
      v.that(dn >= -slack && dn <= unit + slack, "northing not inside the MGRS square of '" + s + "' (SW corner)");
    }
  } else v.tag("grid-zone-only");
  v.nontrivial = true;
  return v;
}

vf::Reg rf({"C10.f", "positions (uniform, poles, zone/band edges, Norway/Svalbard) x every *Representation (Geo, DMS, UTMUPS both token orders and hemisphere override, MGRS centre/corner, AltUTMUPS/AltMGRS in neighbouring/standard zones) x precision -12..16 (clamped ranges included); re-read by Reset: same position within the documented resolution, same zone and hemisphere; non-trivial: position not (0,0)",
            0.09, [] { return rc::gen::exec([] { return gen_f(); }); }, check_f, nullptr});

// -------------------------------------------------------------------------------------------- C10.f.parse
// GeoCoords::Reset(string): "broken into space (or comma) separated pieces"; 2 pieces = latitude and longitude by the
// DecodeLatLon rules; "Internally longitudes are reduced to the range [-180, 180]" (GeoCoords.hpp).
J gen_fp() {
  using namespace vf::g;
  J r = J::obj();
  dmsgen::Opt oa, ob;
  oa.flag = coin() ? 1 : 0; oa.inrange = true; oa.special = false; oa.nows = true;
  ob.flag = coin() ? 2 : 0; ob.special = false; ob.nows = true; ob.maxdeg = coin(1, 4) ? 100000 : 720;
  r["a"] = dmsgen::gen_spec(oa); r["b"] = dmsgen::gen_spec(ob);
  r["lf"] = J::integer(coin(1, 3)); r["swap"] = J::integer(coin());
  auto sepg = [&](bool mid) { std::string w; long long n = irange(mid ? 1 : 0, 2); for (long long i = 0; i < n; ++i) w += oneof<char>({' ', ' ', ',', '\t', '\n', '\r', '\v', '\f'}); return w; };
  r["s0"] = J::str(sepg(false)); r["s1"] = J::str(sepg(true)); r["s2"] = J::str(sepg(false));
  return r;
}
Verdict check_fp(const J& r) {
  Verdict v;
  if (r.has("lit")) {   // fixed probe of the known finding C10-geocoords-lon: {"lit":"40 -275","elat":40,"elon":-275}
    GeoCoords p; double elat = r.getd("elat"), elon = r.getd("elon");
    try { p.Reset(r.gets("lit")); } catch (const GeographicErr& e) { v.that(false, std::string("Reset rejects the probe: ") + e.what()); return v; }
    v.that(p.Latitude() == elat && std::remainder(p.Longitude() - elon, 360.0) == 0, "probe position");
    if (!(std::fabs(p.Longitude()) <= 180)) {
      if (vf::known_on("C10-geocoords-lon")) v.known("C10-geocoords-lon", "GeoCoords::Reset(string) does not reduce the longitude to [-180,180]");
      else v.that(false, "GeoCoords::Reset(string) does not reduce the longitude to [-180,180]: " + std::to_string(p.Longitude()));
    }
    return v;
  }
  if (!r.has("a") || !r.has("b")) { v.skip("no spec"); return v; }
  dmsgen::Rendered A = dmsgen::render(r.at("a")), B = dmsgen::render(r.at("b"));
  if (!A.ok || !B.ok) { v.skip("spec is not a documented form"); return v; }
  auto tokok = [](const std::string& t) { for (char c : t) if (c == ',' || c10ref::isws(c)) return false; return !t.empty(); };
  auto sepok = [](const std::string& t) { for (char c : t) if (!(c == ',' || c10ref::isws(c))) return false; return t.size() <= 4; };
  const std::string &s0 = r.gets("s0"), &s1 = r.gets("s1"), &s2 = r.gets("s2");
  if (!tokok(A.s) || !tokok(B.s) || !sepok(s0) || !sepok(s1) || !sepok(s2) || s1.empty() || A.special || B.special || A.flag == 2 || B.flag == 1 || !(fabsl(A.value) <= 90) || !std::isfinite((double)B.value))
    { v.skip("not a latitude/longitude token pair"); return v; }
  bool lf = r.geti("lf"), swap = r.geti("swap");
  bool lonfirst = (A.flag == 0 && B.flag == 0) ? lf : swap;
  std::string s = s0 + (lonfirst ? B.s : A.s) + s1 + (lonfirst ? A.s : B.s) + s2;
  v.tag(lonfirst ? "lon-first" : "lat-first"); v.tag(A.flag || B.flag ? "by-letter" : "by-order");
  v.nontrivial = true;
  GeoCoords p;
  try { p.Reset(s, true, lf); }
  catch (const GeographicErr& e) { v.that(false, "Reset rejects the legal position '" + s + "': " + e.what()); return v; }
  v.le(fabsl((L)p.Latitude() - A.value), tol_dec(A.sumabs), "GeoCoords latitude from string [deg]");
  v.le(fabsl(remainderl((L)p.Longitude() - remainderl(B.value, 360.0L), 360.0L)), tol_dec(B.sumabs), "GeoCoords longitude from string (mod 360) [deg]");
  bool unnorm = fabsl(B.value) > 180 + tol_dec(B.sumabs);
  if (unnorm) v.tag("lon-outside-180");
  if (!(std::fabs(p.Longitude()) <= 180)) {
    const char* why = "GeoCoords::Reset(string) does not reduce the longitude to [-180,180] (documented in GeoCoords.hpp; Reset(lat,lon) does)";
    if (vf::known_on("C10-geocoords-lon")) v.known("C10-geocoords-lon", why); else v.that(false, std::string(why) + ": '" + s + "' gives " + std::to_string(p.Longitude()));
    return v;
  }
  // the position is usable: representations agree with a position set from numbers
  try {
    GeoCoords q(p.Latitude(), p.Longitude());
    v.that(q.Zone() == p.Zone() && q.Northp() == p.Northp(), "zone/hemisphere of the parsed position differ from Reset(lat,lon)");
    v.le(std::fabs(q.Easting() - p.Easting()) + std::fabs(q.Northing() - p.Northing()), 1e-6, "UTM/UPS coordinates of parsed position vs Reset(lat,lon) [m]");
  } catch (const GeographicErr& e) { v.that(false, std::string("Reset(lat,lon) of the parsed position threw: ") + e.what()); }
  return v;
}
vf::Reg rfp({"C10.h", "grammar-generated latitude and longitude tokens (letters or order, longfirst, longitudes beyond +-180 and +-360) joined by spaces/commas/tabs: GeoCoords::Reset(string) gives the generator's latitude, the longitude reduced to [-180,180], and the same UTM/UPS position as Reset(lat,lon); non-trivial: all",
             0.03, [] { return rc::gen::exec([] { return gen_fp(); }); }, check_fp, nullptr});

// ============================================================================================ C10.g
typedef int (*ToolFn)(int, const char* const[]);
struct ToolDef { const char* name; ToolFn fn; };
const ToolDef TOOLS[] = {{"GeoConvert", tool_GeoConvert_main}, {"GeodSolve", tool_GeodSolve_main}, {"RhumbSolve", tool_RhumbSolve_main},
                         {"CartConvert", tool_CartConvert_main}, {"ConicProj", tool_ConicProj_main}, {"TransverseMercatorProj", tool_TransverseMercatorProj_main},
                         {"GeodesicProj", tool_GeodesicProj_main}, {"Planimeter", tool_Planimeter_main}, {"IntersectTool", tool_IntersectTool_main}};
const int NTOOLS = 9;

struct ToolOut { int rc = -1; std::vector<std::string> lines; bool partial = false; bool io = true; };
ToolOut run_tool(int ti, const std::vector<std::string>& args, const std::vector<std::string>& lines) {
  ToolOut o;
  const char* tmp = std::getenv("VF_TMP");
  std::string in = std::string(tmp ? tmp : ".") + "/c10g-" + std::to_string((long)getpid()) + ".in";
  { std::ofstream f(in.c_str(), std::ios::binary); for (auto& l : lines) f << l << "\n"; if (!f.good()) { o.io = false; return o; } }
  std::vector<std::string> a; a.push_back(TOOLS[ti].name);
  for (auto& x : args) a.push_back(x);
  a.push_back("--input-file"); a.push_back(in);
  std::vector<const char*> argv; for (auto& x : a) argv.push_back(x.c_str());
  std::ostringstream cap;
  std::streambuf* old = std::cout.rdbuf(cap.rdbuf());
  try { o.rc = TOOLS[ti].fn((int)argv.size(), argv.data()); } catch (...) { std::cout.rdbuf(old); throw; }
  std::cout.rdbuf(old);
  std::string out = cap.str();
  size_t p = 0;
  while (p < out.size()) { size_t q = out.find('\n', p); if (q == std::string::npos) { o.lines.push_back(out.substr(p)); o.partial = true; break; } o.lines.push_back(out.substr(p, q - p)); p = q + 1; }
  return o;
}

// ---- tokens and lines (inside rc::gen::exec)
dmsgen::Rendered gtok(int flagkind, bool inrange, int maxdeg, bool sums) {
  dmsgen::Opt o; o.flag = flagkind; o.inrange = inrange; o.maxdeg = maxdeg; o.special = false; o.nows = true; o.sums = sums;
  return dmsgen::render(dmsgen::gen_spec(o));
}
std::string fmtd(double x, int p) { char b[64]; std::snprintf(b, sizeof b, "%.*f", p, x); return b; }
std::string bad_dms() {
  return vf::g::oneof<std::string>({"4d5\"4'", "4::5", "4:5:", ":4:5", "4d4.5'4\"", "-N20.5", "1.8e2d", "4:60", "4:59:60", "5d.", "5d70.0", "5d60", "x", "5N6", "N5S", "5..5", "--5", "5-", "'5", "7.0E1", "5\xc2", "1e3"});
}
std::string bad_real() { return vf::g::oneof<std::string>({"1.5x", "1e", "abc", "--1", "5d", "1.2.3", "0x10", "1,5", "5'", "+", "1e999"}); }
std::string good_real(double lo, double hi) {
  using namespace vf::g;
  double x = uni(lo, hi);
  switch (wpick({50, 20, 15, 15})) { case 0: return fmtd(x, (int)irange(0, 6)); case 1: return std::to_string((long long)x);
    case 2: { char b[64]; std::snprintf(b, sizeof b, "%.*e", (int)irange(0, 8), x); return b; } default: return (x >= 0 && coin() ? "+" : "") + fmtd(x, 3); }
}
struct Line { std::string t; bool good = true; std::string cls; };
// field kinds: P lat/lon pair, Z azimuth, Y second azimuth, R real, A arc (angle without hemisphere); lower case p,z,y: plain numbers in
// fixed, well separated ranges (IntersectTool: keeps the geometry non-degenerate, also under shrinking)
Line gen_line(const std::string& fields, bool lf, double pbad) {
  using namespace vf::g;
  Line L; std::vector<std::string> tk;
  int nP = 0;
  bool bad = u01() < pbad; int badfield = bad ? (int)irange(0, (long long)fields.size() + 2) : -1;
  for (size_t i = 0; i < fields.size(); ++i) {
    char k = fields[i]; bool b = (int)i == badfield;
    if (k == 'P') {
      if (b) {
        switch (irange(0, 3)) {
          case 0: tk.push_back(lf ? "10" : oneof<std::string>({"91", "N90:00:01", "90.0000001", "-100", "S91d"})); tk.push_back(lf ? "-91" : "10"); L.cls = "bad-lat-range"; break;
          case 1: tk.push_back("5N"); tk.push_back(coin() ? "6S" : "N6"); L.cls = "bad-two-latitudes"; break;
          case 2: tk.push_back("5E"); tk.push_back(coin() ? "6W" : "E6"); L.cls = "bad-two-longitudes"; break;
          default: { std::string g = gtok(0, true, 0, false).s, x = bad_dms(); if (coin()) { tk.push_back(x); tk.push_back(g); } else { tk.push_back(g); tk.push_back(x); } L.cls = "bad-dms-token"; }
        }
        L.good = false;
      } else {
        dmsgen::Rendered a = gtok(coin() ? 1 : 0, true, 0, false), o = gtok(coin() ? 2 : 0, false, 720, coin(1, 4));
        bool lonfirst = (a.flag == 0 && o.flag == 0) ? lf : coin();
        tk.push_back(lonfirst ? o.s : a.s); tk.push_back(lonfirst ? a.s : o.s);
      }
      ++nP;
    } else if (k == 'p') {
      static const double box[4][4] = {{10, 20, 0, 10}, {30, 40, 20, 30}, {30, 40, 0, 10}, {10, 20, 20, 30}};
      const double* bx = box[nP % 4]; ++nP;
      std::string la = fmtd(uni(bx[0], bx[1]), 4), lo = fmtd(uni(bx[2], bx[3]), 4);
      if (b) { la = coin() ? "95" : bad_dms(); L.good = false; L.cls = "bad-latlon"; }
      if (lf) { tk.push_back(lo); tk.push_back(la); } else { tk.push_back(la); tk.push_back(lo); }
    } else if (k == 'Z' || k == 'Y') {
      if (b) { tk.push_back(coin() ? oneof<std::string>({"10N", "S5", "1:30N"}) : bad_dms()); L.good = false; L.cls = "bad-azimuth"; }
      else tk.push_back(gtok(coin(1, 3) ? 2 : 0, false, 720, coin(1, 5)).s);
    } else if (k == 'z' || k == 'y') {
      if (b) { tk.push_back(coin() ? "10N" : bad_dms()); L.good = false; L.cls = "bad-azimuth"; }
      else tk.push_back(fmtd(k == 'z' ? uni(10, 80) : uni(100, 170), 3));
    } else if (k == 'A') {
      if (b) { tk.push_back(coin() ? oneof<std::string>({"5E", "W5", "5N"}) : bad_dms()); L.good = false; L.cls = "bad-arc"; }
      else tk.push_back(gtok(0, false, 400, coin(1, 5)).s);
    } else {   // R
      if (b) { tk.push_back(bad_real()); L.good = false; L.cls = "bad-real"; }
      else tk.push_back(good_real(-2e7, 2e7));
    }
  }
  if (bad && L.good) {   // structural damage
    L.good = false;
    switch (irange(0, 3)) {
      case 0: tk.clear(); L.cls = "bad-empty-line"; break;
      case 1: if (tk.size() > 1) { tk.pop_back(); L.cls = "bad-missing-token"; } else { tk.clear(); L.cls = "bad-empty-line"; } break;
      case 2: tk.push_back(coin() ? "7" : "extra"); L.cls = "bad-extra-token"; break;
      default: tk.clear(); tk.push_back(oneof<std::string>({" ", "\t", "  \t "})); L.cls = "bad-blank-line";
    }
  }
  if (L.good) L.cls = "good";
  for (size_t i = 0; i < tk.size(); ++i) { if (i) L.t += coin(1, 8) ? (coin() ? "\t" : "  ") : " "; L.t += tk[i]; }
  if (L.good && coin(1, 10)) L.t = " " + L.t + (coin() ? " " : "\t");
  return L;
}

Line gen_geoconvert_line(bool lf, double pbad) {
  using namespace vf::g;
  Line L;
  if (u01() < pbad) {
    L.good = false;
    switch (irange(0, 4)) {
      case 0: { L = gen_line("P", lf, 1.0); if (L.cls == "bad-missing-token") { L.t = "5 6 7 8"; L.cls = "bad-4-tokens"; } if (L.cls == "bad-extra-token") { L.t += " 9 10"; } return L; }
      case 1: L.t = oneof<std::string>({"61n 500000 5000000", "38x 444140 3684706", "38n abc 3684706", "38n 5e9 3684706", "500000 4000000 38", "38n 444140 -1e8", "0n 2000000 2000000x", "n 9e6 2000000"}); L.cls = "bad-utm"; return L;
      case 2: L.t = oneof<std::string>({"38SMB448", "38SMB44x8", "99XAB", "38IMB4488", "garbage", "38SMB44889", "61SMB", "38S M", "9999999998578", "3000000000A", "123SMB"}); if (L.t == "38S M") L.t = "38S,M,1,2"; L.cls = "bad-mgrs"; return L;
      case 3: L.t = ""; L.cls = "bad-empty-line"; return L;
      default: L.t = oneof<std::string>({"1 2 3 4", ", ,", "5,6,7,8,9"}); L.cls = "bad-token-count"; return L;
    }
  }
  switch (wpick({50, 25, 25})) {
    case 0: { L = gen_line("P", lf, 0.0); if (coin(1, 4)) { size_t p = L.t.find(' ', 1); if (p != std::string::npos && p + 1 < L.t.size()) L.t[p] = ','; } L.cls = "good-latlon"; return L; }
    case 1: {
      double lat = coin(1, 6) ? sgn() * uni(84.5, 90) : uni(-79.5, 83.5), lon = uni(-180, 180);
      int zone; bool np; double x, y; UTMUPS::Forward(lat, lon, zone, np, x, y);
      std::string z = (zone ? std::to_string(zone) : std::string()) + (coin(1, 4) ? (np ? "north" : "south") : (np ? "n" : "s"));
      int pr = (int)irange(0, 4);
      L.t = coin() ? z + " " + fmtd(x, pr) + " " + fmtd(y, pr) : fmtd(x, pr) + " " + fmtd(y, pr) + " " + z;
      L.cls = "good-utm"; return L;
    }
    default: {
      double lat = coin(1, 6) ? sgn() * uni(84.5, 90) : uni(-79.5, 83.5), lon = uni(-180, 180);
      GeoCoords p(lat, lon); L.t = p.MGRSRepresentation((int)irange(-5, 6));
      if (coin(1, 4)) for (char& c : L.t) if (c >= 'A' && c <= 'Z') c = char(c - 'A' + 'a');
      L.cls = "good-mgrs"; return L;
    }
  }
}

J gen_g() {
  using namespace vf::g;
  J r = J::obj();
  int ti = wpick({30, 20, 8, 7, 7, 7, 7, 7, 7});
  std::vector<std::string> args; std::vector<Line> lines;
  bool lf = coin(1, 4);
  long long nl = irange(1, 8);
  double pbad = oneof<double>({0.0, 0.0, 0.3, 0.3, 0.6});
  auto prec = [&](int lo, int hi) { if (coin(1, 2)) { args.push_back("-p"); args.push_back(std::to_string(irange(lo, hi))); } };
  auto dmsout = [&] { int c = (int)irange(0, 3); if (c == 1) args.push_back("-d"); else if (c == 2) args.push_back("-:"); };
  if (lf) args.push_back("-w");
  std::string fields;
  switch (ti) {
    case 0: {
      args.push_back(oneof<std::string>({"-g", "-d", "-:", "-u", "-m", "-c"}));
      prec(-8, 12); if (coin(1, 4)) args.push_back("-n"); if (coin(1, 4)) args.push_back("-l"); if (coin(1, 5)) args.push_back("-s");
      for (long long i = 0; i < nl; ++i) lines.push_back(gen_geoconvert_line(lf, pbad));
      break;
    }
    case 1: {
      int mode = wpick({50, 30, 20}); bool arc = coin(1, 4);
      if (arc) args.push_back("-a");
      if (mode == 1) { args.push_back("-i"); fields = "PP"; }
      else if (mode == 2) { args.push_back("-L"); Line l0 = gen_line("P", lf, 0); std::istringstream is(l0.t); std::string a, b; is >> a >> b; args.push_back(a); args.push_back(b); args.push_back(gtok(0, false, 360, false).s); fields = arc ? "A" : "R"; }
      else fields = arc ? "PZA" : "PZR";
      dmsout(); prec(-2, 12); if (coin(1, 3)) args.push_back("-f"); if (coin(1, 4)) args.push_back("-u"); if (coin(1, 4)) args.push_back("-b"); if (coin(1, 4)) args.push_back("-E");
      break;
    }
    case 2: {
      int mode = wpick({50, 30, 20});
      if (mode == 1) { args.push_back("-i"); fields = "PP"; }
      else if (mode == 2) { args.push_back("-L"); Line l0 = gen_line("P", lf, 0); std::istringstream is(l0.t); std::string a, b; is >> a >> b; args.push_back(a); args.push_back(b); args.push_back(gtok(0, false, 360, false).s); fields = "R"; }
      else fields = "PZR";
      dmsout(); prec(-2, 12); if (coin(1, 4)) args.push_back("-u"); if (coin(1, 4)) args.push_back("-E");
      break;
    }
    case 3: {
      bool rev = coin(1, 3); if (rev) args.push_back("-r");
      if (coin(1, 2)) { args.push_back("-l"); Line l0 = gen_line("P", lf, 0); std::istringstream is(l0.t); std::string a, b; is >> a >> b; args.push_back(a); args.push_back(b); args.push_back(good_real(-1000, 9000)); }
      fields = rev ? "RRR" : "PR"; prec(-2, 12); break;
    }
    case 4: {
      args.push_back(coin() ? "-c" : "-a");
      std::pair<std::string, std::string> sp = oneof<std::pair<std::string, std::string>>({{"40", "60"}, {"45", "45"}, {"-30", "-50"}, {"N20", "40N"}, {"10", "-10"}});
      args.push_back(sp.first); args.push_back(sp.second);
      if (coin()) { args.push_back("-l"); args.push_back(gtok(coin() ? 2 : 0, false, 360, false).s); }
      bool rev = coin(1, 3); if (rev) args.push_back("-r");
      fields = rev ? "RR" : "P"; prec(-2, 12); break;
    }
    case 5: {
      args.push_back(coin() ? "-t" : "-s");
      if (coin()) { args.push_back("-l"); args.push_back(gtok(coin() ? 2 : 0, false, 360, false).s); }
      bool rev = coin(1, 3); if (rev) args.push_back("-r");
      fields = rev ? "RR" : "P"; prec(-2, 12); break;
    }
    case 6: {
      args.push_back(oneof<std::string>({"-c", "-z", "-g"}));
      { Line l0 = gen_line("P", lf, 0); std::istringstream is(l0.t); std::string a, b; is >> a >> b; args.push_back(a); args.push_back(b); }
      bool rev = coin(1, 3); if (rev) args.push_back("-r");
      fields = rev ? "RR" : "P"; prec(-2, 12); break;
    }
    case 7: {
      if (coin(1, 4)) args.push_back("-s"); if (coin(1, 4)) args.push_back("-r"); if (coin(1, 4)) args.push_back("-l");
      int lt = (int)irange(0, 4); if (lt == 1) args.push_back("-R"); else if (lt == 2) args.push_back("-E"); else if (lt == 3) args.push_back("-Q");
      fields = "P"; prec(-2, 12); nl = irange(1, 12); pbad = oneof<double>({0.0, 0.15, 0.3}); break;
    }
    default: {
      int mode = (int)irange(0, 3);
      if (mode == 1) { args.push_back("-n"); fields = "pzy"; } else if (mode == 2) { args.push_back("-i"); fields = "pppp"; }
      else if (mode == 3) { args.push_back("-o"); fields = "pzpyRR"; } else fields = "pzpy";
      if (coin(1, 4)) args.push_back("-E"); prec(-2, 12); nl = irange(1, 4); break;
    }
  }
  if (ti != 0) for (long long i = 0; i < nl; ++i) lines.push_back(gen_line(fields, lf, pbad));
  r["tool"] = J::integer(ti);
  J a = J::arr(); for (auto& x : args) a.push(J::str(x)); r["args"] = a;
  J ls = J::arr(); for (auto& l : lines) { J e = J::obj(); e["t"] = J::str(l.t); e["g"] = J::integer(l.good); e["c"] = J::str(l.cls); ls.push(e); }
  r["lines"] = ls;
  return r;
}

Verdict check_g(const J& r) {
  Verdict v;
  long long ti = r.geti("tool");
  if (ti < 0 || ti >= NTOOLS || r.at("args").t != J::ARR || r.at("lines").t != J::ARR || r.at("lines").a.empty() || r.at("lines").a.size() > 64) { v.skip("outside the generated domain"); return v; }
  std::vector<std::string> args, lines; std::vector<bool> good;
  for (const J& a : r.at("args").a) { if (a.t != J::STR || a.s.rfind("--", 0) == 0 || a.s.find('\0') != std::string::npos) { v.skip("argument not generated by this sub-check"); return v; } args.push_back(a.s); }
  for (const J& l : r.at("lines").a) {
    const std::string& t = l.gets("t");
    if (t.find('\n') != std::string::npos || t.find('\0') != std::string::npos) { v.skip("line contains a line break"); return v; }
    lines.push_back(t); good.push_back(l.geti("g") != 0); v.tag(l.has("c") ? l.gets("c") : std::string(good.back() ? "good" : "bad"));
  }
  v.tag(TOOLS[ti].name);
  for (auto& a : args) if (a.size() == 2 && a[0] == '-' && !(a[1] >= '0' && a[1] <= '9')) v.tag(std::string(TOOLS[ti].name) + a);
  ToolOut o = run_tool((int)ti, args, lines);
  if (!o.io) { v.skip("cannot write the input file"); return v; }
  v.nontrivial = true;
  v.that(!o.partial, "output does not end with a line break");
  bool anybad = false; for (bool g : good) anybad = anybad || !g;
  if (ti == 7) {
    // Planimeter (man page): a polygon ends at a blank line, at a line that cannot be read as a vertex, or at the end of
    // input; one output line "n perimeter [area]" per polygon with n > 0 vertices; the exit status stays 0
    std::vector<long long> runs; long long cur = 0;
    for (bool g : good) { if (g) ++cur; else { if (cur) runs.push_back(cur); cur = 0; } }
    if (cur) runs.push_back(cur);
    v.that(o.rc == 0, "Planimeter exit status " + std::to_string(o.rc));
    v.that(o.lines.size() == runs.size(), "Planimeter printed " + std::to_string(o.lines.size()) + " lines for " + std::to_string(runs.size()) + " polygons");
    for (size_t i = 0; i < runs.size() && i < o.lines.size(); ++i)
      v.that(std::atoll(o.lines[i].c_str()) == runs[i] && o.lines[i].rfind("ERROR", 0) != 0, "Planimeter polygon " + std::to_string(i) + ": '" + o.lines[i] + "', expected " + std::to_string(runs[i]) + " vertices");
    return v;
  }
  v.that(o.lines.size() == lines.size(), std::string(TOOLS[ti].name) + " printed " + std::to_string(o.lines.size()) + " lines for " + std::to_string(lines.size()) + " input lines");
  for (size_t i = 0; i < lines.size() && i < o.lines.size(); ++i) {
    bool err = o.lines[i].rfind("ERROR", 0) == 0;
    if (good[i]) v.that(!err, "good line '" + lines[i] + "' answered by '" + o.lines[i] + "'");
    else v.that(err, "bad line '" + lines[i] + "' answered by '" + o.lines[i] + "'");
    if (!err) v.that(o.lines[i].find("ERROR") == std::string::npos && !o.lines[i].empty(), "output line '" + o.lines[i] + "'");
  }
  v.that((o.rc != 0) == anybad, "exit status " + std::to_string(o.rc) + (anybad ? " although a line was bad" : " although all lines were good"));
  return v;
}

vf::Reg rg({"C10.g", "GeoConvert, GeodSolve, RhumbSolve, CartConvert, ConicProj, TransverseMercatorProj, GeodesicProj, IntersectTool run in-process on 1-8 generated lines (good: grammar-generated coordinates, UTM/UPS triples, MGRS; bad: out-of-range, contradictory letters, malformed tokens, wrong token count, blank) with generated options: one output line per input line, ERROR <=> bad line, exit status != 0 <=> some bad line; Planimeter: one line per polygon with the vertex count; non-trivial: all",
            0.02, [] { return rc::gen::exec([] { return gen_g(); }); }, check_g, nullptr});

}  // namespace
VF_MAIN
