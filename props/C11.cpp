// C11 — polar stereographic, Lambert conformal conic (incl. Mercator / polar limits), Albers equal area
// (incl. cylindrical / azimuthal limits)   (DESIGN 3/C11)
//
// Oracle: ref/mp.{hpp,cpp} (R-MP): Snyder's closed forms (PS 21-33.., LCC 15-1..15-11, Albers 14-12..14-21,
// Mercator 7-7) in 50 digits, projection constants in 100 digits; origin of y on the parallel of minimum
// (azimuthal) scale, found for Albers by a 100-digit root solve.  No divided differences, no Newton
// inversion, none of the library's tau/tau' helpers.
//
// Sub-checks (tolerances: documented 10 nm "true distance", origin latitude 4.5e-14 deg, scale 7e-15, each x K = 2, scaled by a
// and by the local stretch of the map; calibrated laws where nothing is documented: Albers, |f| > 0.02 (positions) resp.
// |f| > 0.0034 (origin constants, f^2 law); conditioning terms: arc along the parallel, distance from the apex for k)
//   C11.a  Forward x, y, gamma, k vs closed form; poles that map to infinity / infinite scale: finite and "large"
//   C11.b  Reverse(Forward(p)), Reverse(rounded reference image of p) = p (true distance); gamma, k from Reverse; Forward(Reverse);
//          Reverse(Forward(pole)) at a finite apex; Reverse of far-away finite points stays in range
//   C11.c  k on the standard parallels = k1; OriginLatitude / CentralScale vs 100-digit oracle; SetScale (value, re-scaled
//          oracle, documented exceptions)
//   C11.d  magnification / rotation of the library map by 4th-order differences = k (1/k N-S for Albers), gamma; Albers:
//          shoelace area of the image of a geographic rectangle (96/192 samples per edge, Richardson) = ellipsoidal area
//   C11.e  constructor equivalence (degree / sin-cos bitwise, single = equal pair bitwise, swapped parallels, pair vs single at
//          (OriginLatitude, CentralScale)); static singletons = explicit constructions (bitwise)
//   C11.f  limits: LCC(0) = Mercator, LCC(+-90) = polar stereographic (closed form and PS class), Albers(0) = cylindrical,
//          Albers(+-90) = Lambert azimuthal
//   C11.g  hemisphere symmetry (x, -y, -gamma, k), bitwise unless the parallels are symmetric about the equator
//
// Sensitivity (scratch copy of /repo HEAD, VERIF_REPO=<copy>, `check.py C11 --tier quick`, seed 1, open findings enabled through
// VF_KNOWN; sub-checks with a confirmed VIOLATION):
//   LCC hpp   Dexp: drop sinh(t)/t                       a,b,c,d      Dsinh: "+ 1" dropped under the root     a,b,c,g
//             Dlog1p: 1+y -> 1+x                         a,b,c        Dasinh: x*hy+y*hx -> x*hx+y*hy          a,b,c,d,e,g
//   LCC cpp   Forward: "y *= _sign" removed              a,b,c,d,f,g  Init: "t *= tbm - tam" -> "t *= tbm"    a,b,c
//             Reverse: min(drho, _drhomax) removed       b  (only after the far-point test was added to C11.b)
//   Math.cpp  tauf numit 5 -> 1                          b
//   Albers    atanhxm1: half the terms                   a,b,c        DDatanhee1: k += 2 -> k += 1            a,b,c
//             tphif numit_ 5 -> 1                        b            Init Newton tolerance tol0_ -> 1e-4     a,b,c
//             SetScale: _k2 not updated                  c            Dsn: square dropped                     a,b,c,d,e,f
//   PS        SetScale: _k0 = k                          c            Forward: south sign                     a,b,c,d,f,g
//   fix reverts  F1 (Albers double _sign) a,b,c,d,f,g   F21 (tauf prolate) b   F22 (Albers polar flag) a,b,c,e   F23 (LCC SetScale) c
//                F25 (LCC Deatanhe) a,b,c   F26 (constructor exceptions) a,b,c,d   F42 (SetScale pole sign) c   F43 (Albers NaN at pole) a,c
//                F44 (LCC apex NaN) b
//   NOT caught:  Albers DDatanhee threshold 0.75 -> 0.001 (straight divided difference used instead of the series): no failure in
//                the quick tier even with the class pair-nearly-equal-near-pole; the loss only enters 1 - s of the origin Newton and
//                stays below the (calibrated, undocumented) Albers tolerances, and the extreme region (cos < 1e-15) is covered by
//                the open finding C11-albers-origin-nearpole
//                F4 (LCC Reverse swallows NaN through fmin): NaN inputs are outside this property's generator (C13)
#include "fw/harness.hpp"
#include "gen/geo.hpp"
#include "ref/mp.hpp"

#include <GeographicLib/AlbersEqualArea.hpp>
#include <GeographicLib/LambertConformalConic.hpp>
#include <GeographicLib/PolarStereographic.hpp>

#include <cfloat>
#include <memory>

using namespace GeographicLib;
using vf::J; using vf::Verdict;
namespace g = vf::g;
typedef long double L;

namespace {

const L EPS = 2.220446049250313e-16L;
const L A0 = 6378137.0L;
const double DEG = M_PI / 180;
enum { PS = 0, LCC = 1, ALB = 2 };
const char* PNAME[] = {"PS", "LCC", "Albers"};

// v.le with a defined behaviour for the corner cases (the calibration report cannot hold inf/NaN ratios):
// tol == 0 means exact equality, a NaN error is a plain failure, a non-finite tolerance means the oracle
// gave no bound for this relation (relation not evaluated)
void LE(Verdict& v, L err, L tol, const std::string& what) {
  if (std::getenv("VF_DEBUG")) std::fprintf(stderr, "  %-90s err=%.4Lg tol=%.4Lg\n", what.c_str(), err, tol);
  if (std::isnan((double)tol) || std::isinf((double)tol)) return;
  if (tol < 0) { v.that(false, what + ": negative tolerance (harness error)"); return; }
  if (std::isnan((double)err)) { v.that(false, what + ": NaN"); return; }
  if (tol == 0) { v.that(err == 0, what + ": not exactly equal"); return; }
  if (std::isinf((double)err)) { v.that(false, what + ": infinite error"); return; }
  v.le(err, tol, what.c_str());
}

bool known_on(const char* id) {
  if (vf::known_on(id)) return true;
  const char* e = std::getenv("VF_KNOWN");
  if (!e) return false;
  std::string s = std::string(",") + e + ",";
  return s.find(std::string(",") + id + ",") != std::string::npos;
}

// ---------------------------------------------------------------------------------- configuration
struct Cfg {
  int proj = LCC;      // PS / LCC / ALB
  int ctor = 0;        // 0 one parallel (degrees), 1 two parallels (degrees), 2 sines and cosines
  double a = 0, f = 0, k = 1;
  double lat1 = 0, lat2 = 0;              // ctor 0, 1   (PS: unused)
  double s1 = 0, c1 = 1, s2 = 0, c2 = 1;  // ctor 2
  bool northp = true;                     // PS
  std::string cls;
};

void put_cfg(J& r, const Cfg& c) {
  r["proj"] = J::integer(c.proj); r["ctor"] = J::integer(c.ctor);
  r["a"] = J::num(c.a); r["f"] = J::num(c.f); r["k"] = J::num(c.k);
  if (c.proj == PS) { r["northp"] = J::integer(c.northp); }
  else if (c.ctor == 2) { r["s1"] = J::num(c.s1); r["c1"] = J::num(c.c1); r["s2"] = J::num(c.s2); r["c2"] = J::num(c.c2); }
  else { r["lat1"] = J::num(c.lat1); r["lat2"] = J::num(c.ctor == 0 ? c.lat1 : c.lat2); }
  r["pc"] = J::str(c.cls);
}
bool get_cfg(const J& r, Cfg& c) {
  c.proj = (int)r.geti("proj"); c.ctor = (int)r.geti("ctor");
  c.a = r.getd("a"); c.f = r.getd("f"); c.k = r.getd("k");
  if (c.proj < 0 || c.proj > 2 || c.ctor < 0 || c.ctor > 2) return false;
  if (c.proj == PS) c.northp = r.geti("northp") != 0;
  else if (c.ctor == 2) { c.s1 = r.getd("s1"); c.c1 = r.getd("c1"); c.s2 = r.getd("s2"); c.c2 = r.getd("c2"); }
  else { c.lat1 = r.getd("lat1"); c.lat2 = c.ctor == 0 ? c.lat1 : r.getd("lat2"); }
  if (r.has("pc")) c.cls = r.gets("pc");
  // documented domain of the constructors
  if (!(std::isfinite(c.a) && c.a > 0 && std::isfinite(c.f) && c.f < 1 && std::isfinite(c.k) && c.k > 0)) return false;
  if (c.proj != PS && c.ctor != 2 && !(std::fabs(c.lat1) <= 90 && std::fabs(c.lat2) <= 90)) return false;
  if (c.proj != PS && c.ctor == 2) {
    if (!(std::fabs(c.s1) <= 1 && c.c1 >= 0 && c.c1 <= 1 && std::fabs(c.s2) <= 1 && c.c2 >= 0 && c.c2 <= 1)) return false;
    if (std::signbit(c.c1) || std::signbit(c.c2)) return false;
    if ((c.s1 == 0 && c.c1 == 0) || (c.s2 == 0 && c.c2 == 0)) return false;
  }
  return true;
}

// library object behind one interface
struct Lib {
  int proj; bool northp = true;
  std::unique_ptr<PolarStereographic> ps; std::unique_ptr<LambertConformalConic> lcc; std::unique_ptr<AlbersEqualArea> alb;
  void forward(double lon0, double lat, double lon, double& x, double& y, double& gam, double& k) const {
    if (proj == PS) ps->Forward(northp, lat, lon - 0.0 * lon0, x, y, gam, k);
    else if (proj == LCC) lcc->Forward(lon0, lat, lon, x, y, gam, k);
    else alb->Forward(lon0, lat, lon, x, y, gam, k);
  }
  void reverse(double lon0, double x, double y, double& lat, double& lon, double& gam, double& k) const {
    if (proj == PS) ps->Reverse(northp, x, y, lat, lon, gam, k);
    else if (proj == LCC) lcc->Reverse(lon0, x, y, lat, lon, gam, k);
    else alb->Reverse(lon0, x, y, lat, lon, gam, k);
  }
  double lat0() const { return proj == LCC ? lcc->OriginLatitude() : proj == ALB ? alb->OriginLatitude() : (northp ? 90 : -90); }
  double k0() const { return proj == LCC ? lcc->CentralScale() : proj == ALB ? alb->CentralScale() : ps->CentralScale(); }
  void set_scale(double lat, double k) { if (proj == PS) ps->SetScale(lat, k); else if (proj == LCC) lcc->SetScale(lat, k); else alb->SetScale(lat, k); }
};

// returns false if the constructor throws GeographicErr (documented for singular parameter sets)
bool make_lib(const Cfg& c, Lib& l) {
  l.proj = c.proj; l.northp = c.northp;
  try {
    if (c.proj == PS) l.ps.reset(new PolarStereographic(c.a, c.f, c.k));
    else if (c.proj == LCC) {
      if (c.ctor == 0) l.lcc.reset(new LambertConformalConic(c.a, c.f, c.lat1, c.k));
      else if (c.ctor == 1) l.lcc.reset(new LambertConformalConic(c.a, c.f, c.lat1, c.lat2, c.k));
      else l.lcc.reset(new LambertConformalConic(c.a, c.f, c.s1, c.c1, c.s2, c.c2, c.k));
    } else {
      if (c.ctor == 0) l.alb.reset(new AlbersEqualArea(c.a, c.f, c.lat1, c.k));
      else if (c.ctor == 1) l.alb.reset(new AlbersEqualArea(c.a, c.f, c.lat1, c.lat2, c.k));
      else l.alb.reset(new AlbersEqualArea(c.a, c.f, c.s1, c.c1, c.s2, c.c2, c.k));
    }
  } catch (const GeographicErr&) { return false; }
  return true;
}

// reference behind the same interface.  PS is taken with the pole as "origin".
struct Ref {
  int proj; Cfg c; std::unique_ptr<mpr::Conic> con; L psk0;
  explicit Ref(const Cfg& cc) : proj(cc.proj), c(cc), psk0(cc.k) {
    if (proj != PS) {
      mpr::Conic::Kind kd = proj == LCC ? mpr::Conic::LCC : mpr::Conic::ALBERS;
      if (c.ctor == 2) con.reset(new mpr::Conic(kd, c.a, c.f, c.s1, c.c1, c.s2, c.c2, c.k));
      else con.reset(new mpr::Conic(mpr::Conic::deg(kd, c.a, c.f, c.lat1, c.lat2, c.k)));
    }
  }
  bool valid() const { return proj == PS || con->valid(); }
  mpr::PO forward(double lat, L lam) const {
    if (proj == PS) return mpr::ps_forward(c.a, c.f, (double)psk0, c.northp, lat, lam);
    return con->forward(lat, lam);
  }
  L n() const { return proj == PS ? (c.northp ? 1 : -1) : con->n(); }
  L lat0() const { return proj == PS ? (c.northp ? 90 : -90) : con->lat0(); }
  L k0() const { return proj == PS ? psk0 : con->k0(); }
};

// ---------------------------------------------------------------------------------- generators
void gen_ell(double& a, double& f, std::string& cls) {
  a = gg::A_WGS84;
  switch (g::wpick({34, 8, 18, 10, 18, 12})) {
    case 0: { gg::Ell n = gg::named_ellipsoid(); a = n.a; f = n.f; cls = "named"; return; }
    case 1: f = 0; cls = "sphere"; break;
    case 2: f = g::sgn() * g::loguni(1e-12, 0.02); cls = "f-small"; break;
    case 3: f = g::oneof<double>({0.01, -0.01, 0.02, -0.02, 1 / 150.0, -1 / 150.0, 0.1, -0.1, 0.2, -0.2, 0.5, -0.5}); cls = "f-limit"; break;
    case 4: f = g::uni(0.02, 0.5); cls = "f-large"; break;
    default: f = -g::loguni(1e-3, 0.5); cls = "prolate";
  }
  if (!g::coin(3, 4)) a = g::loguni(1.0, 1e9);
}

// sine and cosine of a latitude given by its colatitude-cosine on a log scale (down to 1e-300)
void tiny_sc(double& s, double& c) {
  c = g::loguni(1e-300, 1.0); s = std::sqrt((1 - c) * (1 + c)); if (g::coin()) s = -s;
}

Cfg gen_cfg(int proj = -1) {
  Cfg c; std::string ec;
  c.proj = proj >= 0 ? proj : g::wpick({15, 45, 40});
  gen_ell(c.a, c.f, ec);
  c.k = g::coin(1, 3) ? g::oneof<double>({1.0, 0.9996, 0.994}) : g::loguni(1e-3, 1e3);
  if (c.proj == PS) { c.northp = g::coin(); c.cls = "ps"; return c; }
  switch (g::wpick({8, 3, 4, 5, 12, 12, 6, 6, 8, 4, 10, 14, 8, 2, 6})) {
    case 14: {   // two nearly equal parallels both close to (not at) a pole: 1 - sin(lat) = 1e-17 .. 1e-4, where a
                 // straight divided difference of atanh(e x)/e cancels and the library switches to series
      c.ctor = 1; double sg = g::sgn(), co = g::loguni(1e-6, 1.0);
      c.lat1 = sg * (90 - co); c.lat2 = sg * (90 - co * (1 + g::sgn() * g::loguni(1e-9, 0.3))); c.cls = "pair-nearly-equal-near-pole"; break;
    }
    case 13: {   // singular sets documented to throw: opposite poles; LCC: a pole with another parallel
      c.ctor = 1; double sg = g::sgn(); c.lat1 = sg * 90;
      c.lat2 = (c.proj == ALB || g::coin()) ? -sg * 90 : g::uni(-89, 89); if (g::coin()) std::swap(c.lat1, c.lat2);
      c.cls = "pair-singular"; break;
    }
    case 0: c.ctor = 0; c.lat1 = g::uni(-89.9, 89.9); c.cls = "single"; break;
    case 1: c.ctor = 0; c.lat1 = g::oneof<double>({0.0, -0.0}); c.cls = "single-equator"; break;
    case 2: c.ctor = 0; c.lat1 = g::oneof<double>({90.0, -90.0}); c.cls = "single-pole"; break;
    case 3: c.ctor = 0; c.lat1 = g::sgn() * (90 - g::loguni(1e-13, 1.0)); c.cls = "single-near-pole"; break;
    case 4: c.ctor = 1; c.lat1 = g::uni(-85, 85); c.lat2 = g::uni(-85, 85); c.cls = "pair-generic"; break;
    case 5: c.ctor = 1; c.lat1 = g::uni(-89, 89); c.lat2 = std::max(-90.0, std::min(90.0, c.lat1 + g::sgn() * g::loguni(1e-12, 1.0))); c.cls = "pair-nearly-equal"; break;
    case 6: c.ctor = 1; c.lat1 = g::uni(0, 88); c.lat2 = -c.lat1; if (g::coin()) std::swap(c.lat1, c.lat2); c.cls = "pair-symmetric"; break;
    case 7: c.ctor = 1; c.lat1 = g::uni(-88, 88); c.lat2 = -c.lat1 + g::sgn() * g::loguni(1e-12, 1e-2); c.cls = "pair-nearly-symmetric"; break;
    case 8: { c.ctor = 1; double sg = g::sgn(); c.lat1 = sg * (90 - (c.proj == LCC ? g::loguni(2e-4, 1.0) : g::loguni(1e-10, 1.0))); c.lat2 = sg * g::uni(0, 89);
              if (c.proj == ALB && g::coin(1, 4)) c.lat1 = sg * 90; if (g::coin()) std::swap(c.lat1, c.lat2); c.cls = "pair-one-near-pole"; break; }
    case 9: c.ctor = 1; c.lat1 = c.lat2 = g::oneof<double>({90.0, -90.0}); c.cls = "pair-both-at-pole"; break;
    case 10: c.ctor = 1; c.lat1 = g::uni(-85, -5); c.lat2 = g::uni(-85, -5); c.cls = "pair-southern"; break;
    case 11: {   // sines and cosines, cos down to 1e-300
      c.ctor = 2; tiny_sc(c.s1, c.c1);
      switch (g::wpick({3, 3, 2, 2})) {
        case 0: c.s2 = c.s1; c.c2 = c.c1; c.cls = "sincos-single"; break;
        case 1: { double d = 1 + g::sgn() * g::loguni(1e-12, 0.5); c.c2 = std::min(1.0, c.c1 * d); c.s2 = std::copysign(std::sqrt((1 - c.c2) * (1 + c.c2)), c.s1); c.cls = "sincos-nearly-equal"; break; }
        case 2: tiny_sc(c.s2, c.c2); c.s2 = std::copysign(c.s2, c.s1); c.cls = "sincos-same-hemisphere"; break;
        default: { double t = g::uni(-89, 89) * DEG; c.s2 = std::sin(t); c.c2 = std::cos(t); c.cls = "sincos-generic"; }
      }
      if (g::coin(1, 4)) { double r1 = g::uni(0.1, 1), r2 = g::uni(0.1, 1); c.s1 *= r1; c.c1 *= r1; c.s2 *= r2; c.c2 *= r2; c.cls += "-unnormalised"; }
      break;
    }
    default: {   // sines and cosines of ordinary latitudes (poles included)
      c.ctor = 2; double t1 = g::uni(-90, 90), t2 = g::coin(1, 3) ? t1 : g::uni(-90, 90);
      if (g::coin(1, 6)) t1 = t2 = g::oneof<double>({90.0, -90.0, 0.0});
      c.s1 = std::sin(t1 * DEG); c.c1 = std::fabs(t1) == 90 ? 0.0 : std::cos(t1 * DEG);
      c.s2 = std::sin(t2 * DEG); c.c2 = std::fabs(t2) == 90 ? 0.0 : std::cos(t2 * DEG);
      c.cls = "sincos-ordinary";
    }
  }
  return c;
}

// central meridian and 1..3 points (the 100-digit projection constants are computed once per record)
void gen_points(J& r, int npts = 3) {
  r["lon0"] = J::num(g::coin(1, 3) ? 0.0 : gg::angle());
  J pts = J::arr();
  for (int i = 0; i < npts; ++i) { J p = J::obj(); p["lat"] = J::num(gg::latitude()); p["lon"] = J::num(gg::angle()); pts.push(p); }
  r["pts"] = pts;
}

J gen_fwd(int proj = -1, int npts = 3) { J r = J::obj(); Cfg c = gen_cfg(proj); put_cfg(r, c); gen_points(r, npts); return r; }

// ---------------------------------------------------------------------------------- findings (see findings/C11-*.md)
// Eleven library defects were found while calibrating this property.  Eight are FIXED in /repo (tauf-prolate 433cb7a,
// albers-pole-first 3e30520, lcc-setscale-stale e4dc4ca, lcc-deatanhe-branch 8798dfe, ctor-pole-throw 99a5f50,
// lcc-setscale-pole-sign de53880, albers-pole-nan 1f44ac6, lcc-reverse-apex-nan 33c820c): their guards below are inert
// (no id is enabled any more; a recurrence is a plain FAIL; seeded/fix-reverts/F21..F26, F42..F44 re-introduce them).
// Three are OPEN and proposed as known findings (findings/C11-proposed-known.json): C11-lcc-reverse-k-nearpolar,
// C11-albers-origin-nearpole, C11-albers-reverse-overflow (the last one found by the far-point test added while
// strengthening C11.b against the _drhomax mutant).  A guard only acts when its id is enabled by the driver (known_findings.json) or by
// VF_KNOWN=id[,id] in the environment (development runs).
const char* F_POLE1 = "C11-albers-pole-first";   // Albers, first parallel a pole and the second not: wrong projection
const char* F_THROW = "C11-ctor-pole-throw";     // degree constructors accept singular pole combinations documented to throw
const char* F_DEAT = "C11-lcc-deatanhe-branch";   // LCC, f < 1 - sqrt 2, parallels in opposite hemispheres: wrong cone constant
bool lcc_deatanhe(const Cfg& c) {
  if (c.proj != LCC || c.ctor == 0 || !(c.f < 1 - std::sqrt(2.0))) return false;
  return c.ctor == 1 ? c.lat1 * c.lat2 < 0 : c.s1 * c.s2 < 0;
}
const char* F_TAUF = "C11-tauf-prolate";   // Math::tauf wrong for es < 0: PS / LCC Reverse wrong on prolate ellipsoids
const char* F_SETS = "C11-lcc-setscale-stale";      // LCC::SetScale leaves _nrho0/_drhomax unscaled
const char* F_ALB0 = "C11-albers-origin-nearpole";  // Albers: two distinct parallels, one within ~1e-15 rad of a pole: lat0 off
const char* F_SPOL = "C11-lcc-setscale-pole-sign";   // LCC::SetScale pole test ignores _sign
const char* F_APNAN = "C11-albers-pole-nan";         // Albers Forward NaN at the pole for a near-polar standard parallel
const char* F_APEX = "C11-lcc-reverse-apex-nan";     // LCC Reverse NaN at the apex
const char* F_AREV = "C11-albers-reverse-overflow";   // OPEN: Albers Reverse NaN for |x|,|y| > ~1e150
const char* F_REVK = "C11-lcc-reverse-k-nearpolar"; // LCC::Reverse returns k = 0 for an origin within 1e-15 rad of (but not at) a pole
bool albers_nearpole_pair(const Cfg& c) {
  if (c.proj != ALB || c.ctor == 0) return false;
  L c1, c2, s1, s2;
  if (c.ctor == 1) { c1 = (90 - fabsl((L)c.lat1)) * (L)DEG; c2 = (90 - fabsl((L)c.lat2)) * (L)DEG; s1 = c.lat1; s2 = c.lat2; }
  else { c1 = c.c1 / hypotl((L)c.s1, (L)c.c1); c2 = c.c2 / hypotl((L)c.s2, (L)c.c2); s1 = c.s1; s2 = c.s2; }
  if (c1 == c2 && (s1 < 0) == (s2 < 0)) return false;
  return std::min(c1, c2) < 1e-15L && std::min(c1, c2) > 0;
}
bool albers_one_pole(const Cfg& c) {   // either order (C11.e swaps the parallels)
  if (c.proj != ALB) return false;
  if (c.ctor == 1) return (std::fabs(c.lat1) == 90) != (std::fabs(c.lat2) == 90);
  if (c.ctor == 2) return (c.c1 == 0) != (c.c2 == 0);
  return false;
}
bool albers_pole_first(const Cfg& c) {
  if (c.proj != ALB) return false;
  if (c.ctor == 1) return std::fabs(c.lat1) == 90 && c.lat2 != c.lat1;
  if (c.ctor == 2) return c.c1 == 0 && c.c2 != 0;
  return false;
}

// ---------------------------------------------------------------------------------- classes, tolerances
// LambertConformalConic.hpp states its accuracy for two DISTINCT parallels only if dlat <= 160 deg and
// max(|lat1|,|lat2|) <= 90 - min(0.0002, 2.2e-6 (180 - dlat), 6e-8 dlat^2) deg (the implementation clamps the
// cosines at eps^2, so a parallel closer to the pole than that is moved).  Colatitudes are formed from the
// cosines so that 1e-300 is resolved.
// Two further restrictions of the same kind (nothing is documented there; both lose ~1e-11 relative on the
// unchanged tree and a calibrated law would be vacuous):
//  * LCC with |f| > 0.02 and two distinct parallels one of which is within 1 deg of a pole
//  * Albers with two parallels more than 160 deg apart (AlbersEqualArea.hpp states its origin-latitude accuracy
//    for dlat <= 160 deg only)
bool lcc_accuracy_domain(const Cfg& c) {
  if (c.proj == ALB && c.ctor != 0) {
    L l1 = c.ctor == 1 ? (L)c.lat1 : atan2l((L)c.s1, (L)c.c1) / (L)DEG, l2 = c.ctor == 1 ? (L)c.lat2 : atan2l((L)c.s2, (L)c.c2) / (L)DEG;
    return fabsl(l1 - l2) <= 160;
  }
  if (c.proj != LCC || c.ctor == 0) return true;
  L co1, co2, sg1, sg2;
  if (c.ctor == 1) { co1 = 90 - fabsl((L)c.lat1); co2 = 90 - fabsl((L)c.lat2); sg1 = c.lat1 < 0 ? -1 : 1; sg2 = c.lat2 < 0 ? -1 : 1; if (c.lat1 == c.lat2) return true; }
  else {
    co1 = atan2l((L)c.c1, fabsl((L)c.s1)) / (L)DEG; co2 = atan2l((L)c.c2, fabsl((L)c.s2)) / (L)DEG; sg1 = c.s1 < 0 ? -1 : 1; sg2 = c.s2 < 0 ? -1 : 1;
    if ((L)c.s1 * c.c2 == (L)c.s2 * c.c1 && sg1 == sg2) return true;     // same latitude
  }
  L dlat = sg1 == sg2 ? fabsl(co1 - co2) : (90 - co1) + (90 - co2);
  if (dlat > 160) return false;
  L lim = std::min<L>(0.0002L, std::min<L>(2.2e-6L * (180 - dlat), 6e-8L * dlat * dlat));
  if (std::fabs(c.f) > 0.02 && dlat > 0 && std::min(co1, co2) < 1) return false;
  return std::min(co1, co2) >= lim;
}

void tag_cfg(Verdict& v, const Cfg& c, const Ref& R) {
  v.tag(PNAME[c.proj]);
  if (!c.cls.empty()) v.tag("p:" + c.cls);
  double af = std::fabs(c.f);
  v.tag(c.f == 0 ? "f=0" : c.f < 0 ? (af <= 0.02 ? "prolate,|f|<=0.02" : "prolate,|f|>0.02") : af <= 0.02 ? "f<=0.02" : "f>0.02");
  if (c.proj != PS) {
    L n = fabsl(R.n()), nc2 = R.con->nc2();
    // Albers: n includes k^2; classify by the sine of the origin latitude instead
    L s0 = c.proj == ALB ? sqrtl(std::max<L>(0, 1 - nc2)) : n;
    v.tag(s0 < 1e-8L ? "cone:|n|<1e-8" : nc2 < 2e-8L ? "cone:n>1-1e-8" : "cone:generic");
    v.tag(R.lat0() > 0 ? "origin:north" : R.lat0() < 0 ? "origin:south" : "origin:equator");
    if (c.ctor != 0) {
      L d = c.ctor == 1 ? fabsl((L)c.lat1 - c.lat2) : fabsl(atan2l((L)c.s1, (L)c.c1) - atan2l((L)c.s2, (L)c.c2)) / (L)DEG;
      v.tag(d == 0 ? "dlat=0" : d < 1e-9L ? "dlat<1e-9" : d < 1e-6L ? "dlat<1e-6" : d < 1e-3L ? "dlat<1e-3" : d < 1 ? "dlat<1" : "dlat>=1");
    }
  }
}

// The documented figure ("about 10 nm") is used as it stands (x K = 2, scaled by a) for terrestrial
// flattenings |f| <= 0.02; for larger |f| a calibrated law applies (DESIGN 2), see FSCALE below.
// Albers: no accuracy figure is documented for the scale; calibrated round-off law (relative, x (1 + |ln k/k0|))
const L ALBK = 64 * 2.220446049250313e-16L;
const L ALBXY = 4;
L fscale(double f) { L af = fabsl((L)f); return af <= 0.02L ? 1 : 1 + 50 * (af - 0.02L); }

// local linear stretch of the map at a point: conformal k; Albers k east-west and 1/k north-south
L stretch(int proj, const mpr::PO& o) {
  if (!(o.k > 0) || !std::isfinite((double)o.k)) return std::numeric_limits<L>::quiet_NaN();
  return proj == ALB ? std::max(o.k, 1 / o.k) : o.k;
}

// tolerance of a projected position: "10 nm true distance" = 10 nm x (local stretch) on the map, plus the
// relative round-off of the distance from the origin and of the arc along the parallel (theta = n lam is
// formed in double).  10 nm / a0 = 7 eps.
// Two parallels: the cone constant n = sin(lat0) (Albers: k0^2 sin(lat0)) is only as good as the origin
// latitude, documented to 4.5e-14 deg.  With x = R lam sinc(n lam), y = (rho0 - rho) + R n lam^2/2 sinc^2(n lam/2),
// R = n rho ~ exp(n dpsi):  |d(x,y)/dn| <= R lam^2 + (r + R |lam|) (1 + |dpsi|) = arc |lam| + (r + arc)(1 + |ln(k/k0)|).
// Origin latitude 4.5e-14 deg / central scale 7e-15: the header figures hold on the unchanged tree for terrestrial
// flattenings (|f| <= 0.0034: max 2.2e-14 deg over near-pole pairs inside the stated domain) and grow like f^2
// beyond (2.3e-13 deg at |f| = 0.01, 7.3e-13 deg at 0.02); calibrated law 1.2 (f/0.0034)^2 >= 4 x those maxima / (2 x doc).
L fs0(double f) { L q = (L)f / 0.0034L; return std::max<L>(1, 1.2L * q * q) * (fabsl((L)f) > 0.02L ? fscale(f) : 1); }
L dn_of(const Cfg& c, L k0) { return c.ctor == 0 ? 4 * EPS : 2 * 4.5e-14L * (L)DEG * fs0(c.f) * (c.proj == ALB ? k0 * k0 : 1); }
L tol_xy(const Cfg& c, const mpr::PO& o, L st0 = 1) {
  L r = hypotl(o.x, o.y), st = stretch(c.proj, o);
  // Albers: nothing documented; round-off law with the same structure, 4 x the largest value seen (ALBXY)
  return (c.proj == ALB ? ALBXY : 1) * 2 * 10e-9L * (c.a / A0) * fscale(c.f) * (std::max<L>(std::max<L>(1, st), st0) + (r + o.arc) / c.a);
}
// st0: y is measured from the origin parallel, so the local stretch there (Albers: max(k0, 1/k0)) enters as well
L tol_xy(const Cfg& c, const mpr::PO& o, L lam_deg, L k0) {
  L t = tol_xy(c, o, c.proj == ALB ? std::max(k0, 1 / k0) : k0);
  if (c.proj == PS) return t;
  L r = hypotl(o.x, o.y), lk = (o.k > 0 && std::isfinite((double)o.k)) ? fabsl(logl(o.k / k0)) : 80;
  return t + (o.arc * fabsl(lam_deg) * (L)DEG + (r + o.arc) * (1 + lk)) * dn_of(c, k0);
}
// the same as a true distance on the ellipsoid (round trips)
L tol_true(const Cfg& c, const mpr::PO& o, L lam_deg, L k0) { L st = stretch(c.proj, o); return tol_xy(c, o, lam_deg, k0) / std::min<L>(c.proj == ALB ? 1 / st : st, st); }

struct Ctx { Cfg c; Lib lib; std::unique_ptr<Ref> R; double lon0 = 0; };

// common front end: documented domain, documented exceptions, accuracy domain, class tags.
// Returns false when the verdict is final (skip / pass / fail already recorded).
bool prepare(const J& r, Ctx& x, Verdict& v) {
  if (!get_cfg(r, x.c)) { v.skip("outside documented domain"); return false; }
  if (std::fabs(x.c.f) > 0.5 + 1e-12) { v.skip("beyond generated range of f"); return false; }
  if (r.has("lon0")) { x.lon0 = r.getd("lon0"); if (!std::isfinite(x.lon0) || std::fabs(x.lon0) > 1e6) { v.skip("outside documented domain"); return false; } }
  if (x.c.proj == PS) x.lon0 = 0;
  x.R.reset(new Ref(x.c));
  bool ok = make_lib(x.c, x.lib);
  if (!x.R->valid()) {
    // no closed-form solution: exactly the parameter sets the headers document as throwing
    v.tag("singular-parameters"); v.tag(PNAME[x.c.proj]);
    v.that(!ok, std::string(PNAME[x.c.proj]) + ": constructor accepted a singular parameter set that is documented to throw GeographicErr");
    if (v.failed() && known_on(F_THROW) && x.c.ctor == 1) v.known(F_THROW, v.msg);
    v.nontrivial = false;
    return false;
  }
  if (!ok) { v.that(false, std::string(PNAME[x.c.proj]) + ": constructor threw for an admissible parameter set"); return false; }
  if (!lcc_accuracy_domain(x.c)) { v.skip("parallels outside the domain for which the header states an accuracy"); return false; }
  if (!std::isfinite((double)x.R->k0()) || !(x.R->k0() > 0)) { v.skip("oracle refuses (non-finite reference constants)"); return false; }
  tag_cfg(v, x.c, *x.R);
  return true;
}
Verdict& finish(Verdict& v, const Ctx& x) {
  if (v.failed() && known_on(F_POLE1) && albers_pole_first(x.c)) v.known(F_POLE1, v.msg);
  if (v.failed() && known_on(F_DEAT) && lcc_deatanhe(x.c)) v.known(F_DEAT, v.msg);
  if (v.failed() && known_on(F_SETS) && x.c.proj == LCC && v.msg.find("after SetScale") != std::string::npos) v.known(F_SETS, v.msg);
  if (v.failed() && known_on(F_ALB0) && albers_nearpole_pair(x.c)) v.known(F_ALB0, v.msg);
  if (v.failed() && known_on(F_REVK) && x.c.proj == LCC && x.R && x.R->con && x.R->con->nc2() < 1e-28L && !(x.c.ctor == 2 ? (x.c.c1 == 0 && x.c.c2 == 0) : std::fabs(x.c.lat1) == 90) && v.msg.find("k vs reference") != std::string::npos) v.known(F_REVK, v.msg);
  if (v.failed() && known_on(F_TAUF) && x.c.f < 0 && x.c.proj != ALB && v.msg.find("Reverse") != std::string::npos) v.known(F_TAUF, v.msg);
  return v;
}

bool point_ok(const J& p, double& lat, double& lon) {
  lat = p.getd("lat"); lon = p.getd("lon");
  return std::fabs(lat) <= 90 && std::isfinite(lon) && std::fabs(lon) <= 1e6;
}
// PS: Forward is documented for lat in (-90,90] (north) / [-90,90) (south)
bool ps_lat_ok(const Cfg& c, double lat) { return c.proj != PS || (c.northp ? lat > -90 : lat < 90); }

// ---------------------------------------------------------------------------------- C11.a
Verdict check_a(const J& r) {
  Verdict v; Ctx x;
  if (!prepare(r, x, v)) return v;
  const Cfg& c = x.c; const Ref& R = *x.R;
  if (!r.has("pts") || r.at("pts").t != J::ARR) { v.skip("malformed record"); return v; }
  std::string pn = PNAME[c.proj];
  bool nt = false;
  for (const J& pj : r.at("pts").a) {
    double lat, lon;
    if (!point_ok(pj, lat, lon)) { v.skip("outside documented domain"); return v; }
    double X, Y, gam, k; x.lib.forward(x.lon0, lat, lon, X, Y, gam, k);
    bool at180; L lam = mpr::lamdiff(x.lon0, lon, &at180);
    mpr::PO o = R.forward(lat, lam);
    bool kundef = !(o.k > 0) || !std::isfinite((double)o.k);
    if (o.inf || (kundef && !o.inf && std::fabs(lat) == 90)) {
      // a pole that projects to infinity, or to a point where the scale is infinite (apex of a cone with
      // |n| < 1, pole line of Albers): the library evaluates these at colatitude eps^2, which is exact in
      // terms of true distance; documented: "large but finite"
      v.tag(o.inf ? "projects-to-infinity" : "pole-with-infinite-scale");
      v.that(std::isfinite(X) && std::isfinite(Y) && std::isfinite(gam) && !std::isnan(k), pn + " Forward at a pole: non-finite result");
      if (v.failed() && known_on(F_APNAN) && c.proj == ALB && v.msg.find("Forward at a pole") != std::string::npos) { v.known(F_APNAN, v.msg); return v; }
      if (o.inf && ps_lat_ok(c, lat)) {
        // "large": at least as far from the origin as the image of the parallel one degree from that pole
        mpr::PO o1 = R.forward(lat > 0 ? 89.0 : -89.0, lam);
        if (std::isfinite((double)o1.x) && std::isfinite((double)o1.y))
          v.that(std::hypot(X, Y) >= 0.999 * (double)hypotl(o1.x, o1.y), pn + " Forward of a point projecting to infinity: result not large");
      }
      continue;
    }
    if (!ps_lat_ok(c, lat)) continue;
    if (!std::isfinite((double)o.x) || !std::isfinite((double)o.y)) { v.skip("oracle refuses (non-finite reference)"); return v; }
    L ex = fabsl(X - o.x), ey = fabsl(Y - o.y);
    if (at180) { mpr::PO o2 = R.forward(lat, -lam); if (hypotl(X - o2.x, Y - o2.y) < hypotl(ex, ey)) { o = o2; ex = fabsl(X - o.x); ey = fabsl(Y - o.y); lam = -lam; } v.tag("lon-lon0=180"); }
    if (std::getenv("VF_DEBUG")) std::fprintf(stderr, "lib x=%.17g y=%.17g gam=%.17g k=%.17g | ref x=%.20Lg y=%.20Lg gam=%.20Lg k=%.20Lg arc=%.6Lg lam=%.20Lg n=%.20Lg lat0=%.20Lg k0=%.20Lg tol=%.3Lg\n", X, Y, gam, k, o.x, o.y, o.gamma, o.k, o.arc, lam, R.n(), R.lat0(), R.k0(), tol_xy(c, o, lam, R.k0()));
    L txy = tol_xy(c, o, lam, R.k0());
    LE(v, hypotl(ex, ey), txy, (pn + " Forward (x,y) vs Snyder closed form [m]"));
    // convergence: compare as angles (PS returns it normalised)
    L dg = c.proj == PS ? remainderl((L)gam - o.gamma, 360.0L) : (L)gam - o.gamma;
    if (at180) { L d2 = c.proj == PS ? remainderl((L)gam + o.gamma, 360.0L) : (L)gam + o.gamma; if (fabsl(d2) < fabsl(dg)) dg = d2; }
    LE(v, fabsl(dg), 2 * 9e-14L * fscale(c.f) + 4 * EPS * fabsl(o.gamma) + (c.proj == PS ? 0 : dn_of(c, R.k0()) * fabsl(lam)), (pn + " gamma vs n*lam [deg]"));
    if (!kundef) {
      // relative; far from the origin k = exp(n dpsi)-like, one ulp of the latitude changes it by n dpsi eps
      L lk = fabsl(logl(o.k / R.k0()));
      // k = n rho / (a m): a map error d changes it by d / rho; dn changes it by (1/|n| ... ) bounded through lk
      LE(v, fabsl(k / o.k - 1), (c.proj == ALB ? ALBK : 2 * 7e-15L) * fscale(c.f) * (1 + lk) + txy / o.rho + (c.proj == PS ? 0 : dn_of(c, R.k0()) * (1 + lk)), (pn + " k vs closed form (relative)"));
    }
    nt = nt || (lam != 0 && (L)lat != R.lat0());
  }
  v.nontrivial = nt;
  return finish(v, x);
}

// ---------------------------------------------------------------------------------- C11.b
// round trips: Reverse(Forward(p)) and Reverse(round(reference Forward(p))) return p (true distance on the
// ellipsoid), Forward(Reverse(x,y)) returns (x,y); gamma, k from Reverse = reference at p
Verdict check_b(const J& r) {
  Verdict v; Ctx x;
  if (!prepare(r, x, v)) return v;
  const Cfg& c = x.c; const Ref& R = *x.R;
  if (!r.has("pts") || r.at("pts").t != J::ARR) { v.skip("malformed record"); return v; }
  std::string pn = PNAME[c.proj];
  bool nt = false;
  for (const J& pj : r.at("pts").a) {
    double lat, lon;
    if (!point_ok(pj, lat, lon)) { v.skip("outside documented domain"); return v; }
    if (!ps_lat_ok(c, lat)) continue;
    bool at180; L lam = mpr::lamdiff(x.lon0, lon, &at180);
    mpr::PO o = R.forward(lat, lam);
    L st = stretch(c.proj, o);
    if (!o.inf && !(st > 0) && std::fabs(lat) == 90 && std::isfinite((double)o.x) && std::isfinite((double)o.y)) {
      // a pole with a finite image (apex of the cone, pole line of Albers): Reverse of the library's image returns that pole
      double X, Y, g0, k0, la, lo, g1, k1; x.lib.forward(x.lon0, lat, lon, X, Y, g0, k0);
      if (std::isfinite(X) && std::isfinite(Y)) {
        x.lib.reverse(x.lon0, X, Y, la, lo, g1, k1);
        // (Albers compresses the neighbourhood of the pole N-S by 1/k ~ colatitude / k0: whole ranges of latitude share the
        //  pole's double-precision image, so only the documented range of the result is asserted there)
        if (c.proj == LCC) v.that(std::fabs(la - lat) <= 1e-4 && std::fabs(lo) <= 180, pn + " Reverse(Forward(pole)): the pole is not returned (lat NaN or off)");
        else v.that(std::fabs(la) <= 90 && std::fabs(lo) <= 180, pn + " Reverse(Forward(pole)): lat/lon out of range (or NaN)");
        if (v.failed() && known_on(F_APEX) && c.proj == LCC) { v.known(F_APEX, v.msg); return v; }
        v.tag("pole-finite-image");
      }
      continue;
    }
    if (o.inf || !(st > 0) || !std::isfinite((double)o.x) || !std::isfinite((double)o.y)) { v.tag("pole-not-invertible"); continue; }
    // the image must be representable and the inverse unique: |theta| < pi (Albers with k > 1 wraps)
    L theta = fabsl(R.n() * lam) * (L)DEG;
    // within rounding of the cut (lon - lon0 = +-180, theta = +-pi) the returned longitude may fall on either side
    if (theta >= 3.1415926L || at180 || fabsl(lam) > 180 - 1e-9L) { v.tag("theta>=pi-or-on-the-cut"); continue; }
    // where the map stretches by more than 1e4 one ulp of x, y is metres on the ground: nothing to assert
    if (st > 1e4L || hypotl(o.x, o.y) > 1e12L * c.a) { v.tag("extreme-stretch"); continue; }
    mpr::Aux A = mpr::aux(c.f, lat);
    // the map is discontinuous across the cut: the point must be further from it (true distance) than the tolerance
    if (c.a * A.N * A.cphi * (180 - fabsl(lam)) * (L)DEG < 1000 * tol_true(c, o, lam, R.k0())) { v.tag("too-close-to-the-cut"); continue; }
    for (int pass = 0; pass < 2; ++pass) {
      double X, Y, g0, k0;
      if (pass == 0) x.lib.forward(x.lon0, lat, lon, X, Y, g0, k0); else { X = (double)o.x; Y = (double)o.y; }
      double la, lo, gam, k; x.lib.reverse(x.lon0, X, Y, la, lo, gam, k);
      const char* what = pass == 0 ? " Reverse(Forward(p))" : " Reverse(reference image of p)";
      v.that(std::fabs(la) <= 90 && std::fabs(lo) <= 180, pn + what + ": lat/lon out of range (or NaN)");
      if (v.failed()) return finish(v, x);
      L dphi = ((L)la - (L)lat) * (L)DEG, dlam = remainderl((L)lo - (L)lon, 360.0L) * (L)DEG;
      L ds = hypotl(A.M * c.a * dphi, A.N * c.a * A.cphi * dlam);
      // pass 1 adds the rounding of the reference image to double: half an ulp of x, y divided by the stretch
      L extra = pass == 0 ? 0 : EPS * (fabsl(o.x) + fabsl(o.y)) / std::min<L>(c.proj == ALB ? 1 / st : st, st);
      L ttrue = tol_true(c, o, lam, R.k0());
      LE(v, ds, ttrue + extra, (pn + what + " vs p, true distance [m]"));
      L dg = remainderl((L)gam - o.gamma, 360.0L);
      L illc = (ttrue + extra) / (c.a * std::max<L>(A.cphi, 1e-300L));     // angular uncertainty of the longitude [rad]
      if (illc > 1e-9L) { v.tag("gamma-k-ill-conditioned-near-pole"); }
      else LE(v, fabsl(dg), 4 * 9e-14L * fscale(c.f) * std::max<L>(1, st) + 8 * EPS * fabsl(o.gamma) + (ttrue + extra) / (c.a * std::max<L>(A.cphi, 1e-300L)) / (L)DEG * std::max<L>(1, fabsl(R.n())) + (c.proj == PS ? 0 : dn_of(c, R.k0()) * fabsl(lam)), (pn + what + ": gamma vs reference [deg]"));
      L lk = fabsl(logl(o.k / R.k0()));
      if (illc <= 1e-9L) LE(v, fabsl(k / o.k - 1), ((c.proj == ALB ? 2 * ALBK : 4 * 7e-15L) * fscale(c.f)) * (1 + lk) + (ttrue + extra) / c.a * (1 + fabsl(A.sphi) / std::max<L>(A.cphi, 1e-300L)) * 4 + 2 * tol_xy(c, o, lam, R.k0()) / o.rho + (c.proj == PS ? 0 : dn_of(c, R.k0()) * (1 + lk)), (pn + what + ": k vs reference (relative)"));
      // Forward(Reverse(x,y)) = (x,y)
      double X2, Y2, g2, k2; x.lib.forward(x.lon0, la, lo, X2, Y2, g2, k2);
      LE(v, hypotl((L)X2 - X, (L)Y2 - Y), 2 * tol_xy(c, o, lam, R.k0()), (pn + " Forward(Reverse(x,y)) vs (x,y) [m]"));
    }
    nt = nt || (lam != 0 && (L)lat != R.lat0());
  }
  // a point far outside any image (|x|, |y| up to 1e300, where x^2 overflows): Reverse still returns angles in
  // range, not NaN (LCC clamps drho at _drhomax; Albers documents "the nearest pole is returned")
  if (!r.at("pts").a.empty()) {
    double lat, lon; point_ok(r.at("pts").a[0], lat, lon);
    // (not beyond 1e300: for a cylindrical limit lon = x/(a k0) in degrees would itself overflow)
    static const double mags[] = {1e20, 1e100, 1e150, 1e200, 1e300};
    unsigned h = (unsigned)(std::fabs(lat) * 1e6) + (unsigned)(std::fabs(lon) * 1e3);
    double X = (std::signbit(lon) ? -1 : 1) * mags[h % 5], Y = (std::signbit(lat) ? -1 : 1) * mags[(h / 5) % 5];
    double la, lo, gam, k; x.lib.reverse(x.lon0, X, Y, la, lo, gam, k);
    v.that(std::fabs(la) <= 90 && std::fabs(lo) <= 180, pn + " Reverse of a far-away finite (x,y): lat/lon out of range (or NaN)");
    if (v.failed() && known_on(F_AREV) && c.proj == ALB && v.msg.find("far-away") != std::string::npos) v.known(F_AREV, v.msg);
    v.tag("far-point-reverse");
  }
  v.nontrivial = nt;
  return finish(v, x);
}

// ---------------------------------------------------------------------------------- C11.c
// scale on the standard parallels = k1; OriginLatitude / CentralScale vs oracle; SetScale
J gen_c() {
  J r = gen_fwd(-1, 1);
  r["slat"] = J::num(g::coin(1, 8) ? g::oneof<double>({90.0, -90.0, 0.0}) : gg::latitude());
  r["sk"] = J::num(g::coin(1, 3) ? 1.0 : g::loguni(1e-3, 1e3));
  return r;
}
Verdict check_c(const J& r) {
  Verdict v; Ctx x;
  if (!prepare(r, x, v)) return v;
  const Cfg& c = x.c; const Ref& R = *x.R;
  std::string pn = PNAME[c.proj];
  L krel = c.proj == ALB ? ALBK * fs0(c.f) : 2 * 7e-15L * fs0(c.f);
  // (1) scale on the standard parallels
  if (c.proj == PS) {
    double X, Y, g0, k; x.lib.ps->Forward(c.northp, c.northp ? 90 : -90, 0, X, Y, g0, k);
    v.that(k == c.k && x.lib.k0() == c.k, "PS: scale at the pole / CentralScale() != k0");
    v.that(X == 0 && Y == 0, "PS: pole not at the origin");
  } else {
    double lats[2]; int nl = 0;
    if (c.ctor != 2) { lats[nl++] = c.lat1; if (c.ctor == 1) lats[nl++] = c.lat2; }
    else { if (c.c1 >= 1e-3 * std::hypot(c.s1, c.c1)) lats[nl++] = std::atan2(c.s1, c.c1) / DEG; if (c.c2 >= 1e-3 * std::hypot(c.s2, c.c2)) lats[nl++] = std::atan2(c.s2, c.c2) / DEG; }
    for (int i = 0; i < nl; ++i) {
      mpr::PO o = R.forward(lats[i], 0);
      if (!(o.k > 0) || !std::isfinite((double)o.k) || o.inf) { v.tag("parallel-at-pole-k-undefined"); continue; }
      double X, Y, g0, k; x.lib.forward(x.lon0, lats[i], x.lon0, X, Y, g0, k);
      // the oracle's k on the parallel is k1 by construction (checked to 1e-17 in mp.cpp selftest)
      // k = n rho/(a m): a map error d changes it by d/rho (matters for a parallel next to the apex)
      LE(v, fabsl(k / (L)c.k - 1), krel + (c.ctor == 2 ? 4 * EPS : 0) + tol_xy(c, o, 0, R.k0()) / o.rho, (pn + ": scale on a standard parallel vs k1 (relative)"));
      v.tag("std-parallel-scale");
    }
    // (2) origin latitude and central scale
    bool lat0doc = c.proj == LCC || true;
    (void)lat0doc;
    LE(v, fabsl((L)x.lib.lat0() - R.lat0()), 2 * 4.5e-14L * fs0(c.f), (pn + ": OriginLatitude vs oracle [deg]"));
    LE(v, fabsl((L)x.lib.k0() / R.k0() - 1), krel, (pn + ": CentralScale vs oracle (relative)"));
  }
  // (3) SetScale
  double slat = r.getd("slat"), sk = r.getd("sk");
  if (!(std::fabs(slat) <= 90) || !(sk > 0) || !std::isfinite(sk)) return finish(v, x);
  bool should_throw;
  if (c.proj == PS) should_throw = !(slat > -90);
  else if (c.proj == ALB) should_throw = !(std::fabs(slat) < 90);
  else {
    bool polar_exact = c.ctor == 2 ? (c.c1 == 0 && c.c2 == 0) : (std::fabs(c.lat1) == 90 && std::fabs(c.lat2) == 90);
    should_throw = std::fabs(slat) == 90 && !(polar_exact && slat * R.n() > 0);
  }
  bool threw = false;
  try { x.lib.set_scale(slat, sk); } catch (const GeographicErr&) { threw = true; }
  v.tag(threw ? "setscale-throws" : "setscale");
  v.that(threw == should_throw, pn + ": SetScale " + (should_throw ? "did not throw at a latitude documented as invalid" : "threw at a valid latitude"));
  if (v.failed() && known_on(F_SPOL) && c.proj == LCC && std::fabs(slat) == 90 && R.n() < 0) v.known(F_SPOL, v.msg);
  if (threw || v.failed()) return finish(v, x);
  mpr::PO ob = R.forward(c.proj == PS && !c.northp ? -slat : slat, 0);   // PS::SetScale: "assuming northp = true"
  if (!(ob.k > 0) || !std::isfinite((double)ob.k)) return finish(v, x);
  if (ob.k / R.k0() > 1e12L) { v.tag("setscale-extreme"); return finish(v, x); }
  L newk0;
  if (c.proj == PS) { newk0 = mpr::ps_k0_for_scale(c.a, c.f, slat, sk); x.R->psk0 = newk0; }
  else { x.R->con->set_scale(slat, sk); if (!x.R->con->valid()) return finish(v, x); newk0 = x.R->con->k0(); }
  L lk = fabsl(logl(ob.k / R.k0()));
  // SetScale divides by the library's own k at slat, so the accuracy of that k (d/rho, see above) is inherited
  // (thorough tier: a SetScale latitude 3e-14 deg = 3 nm from the apex, where the position accuracy exceeds the distance
  // from the apex and the returned k is undetermined (-1.7e-8 was seen); 1/k is then unbounded.  The relation is only
  // asserted where the inherited error is < 10 %, and the conditioning term carries a factor 4: 1.5 x the old law seen)
  L kr2 = krel * 2 * (1 + lk) + 4 * tol_xy(c, ob, 0, R.k0()) / ob.rho;
  if (!(kr2 < 0.1L)) { v.tag("setscale-at-apex-ill-conditioned"); return finish(v, x); }
  LE(v, fabsl((L)x.lib.k0() / newk0 - 1), kr2, (pn + ": CentralScale after SetScale vs oracle (relative)"));
  if (c.proj != PS) LE(v, fabsl((L)x.lib.lat0() - x.R->lat0()), 2 * 4.5e-14L * fs0(c.f), (pn + ": OriginLatitude after SetScale [deg]"));
  { double X, Y, g0, k; double la = c.proj == PS && !c.northp ? -slat : slat;
    x.lib.forward(x.lon0, la, x.lon0, X, Y, g0, k);
    LE(v, fabsl(k / (L)sk - 1), kr2, (pn + ": scale at the SetScale latitude vs requested (relative)")); }
  // a point after SetScale against the re-scaled oracle
  if (r.has("pts") && r.at("pts").t == J::ARR && !r.at("pts").a.empty()) {
    double lat, lon;
    if (point_ok(r.at("pts").a[0], lat, lon) && ps_lat_ok(c, lat)) {
      bool at180; L lam = mpr::lamdiff(x.lon0, lon, &at180);
      mpr::PO o = x.R->forward(lat, lam);
      L st = stretch(c.proj, o);
      if (!o.inf && st > 0 && !at180 && std::isfinite((double)o.x) && std::isfinite((double)o.y)) {
        double X, Y, g0, k; x.lib.forward(x.lon0, lat, lon, X, Y, g0, k);
        // SetScale multiplies the scale by a rounded factor: relative error of all lengths
        LE(v, hypotl(X - o.x, Y - o.y), 2 * tol_xy(c, o, lam, x.R->k0()) + kr2 * (hypotl(o.x, o.y) + o.arc), (pn + ": Forward after SetScale vs re-scaled oracle [m]"));
      }
    }
  }
  return finish(v, x);
}

// ---------------------------------------------------------------------------------- C11.d
// gamma, k = rotation / magnification of the LIBRARY's map (4th-order central differences in long double);
// Albers: E-W stretch k, N-S stretch 1/k, and the image of a small geographic rectangle has the
// ellipsoidal area of the rectangle
J gen_d() {
  J r = gen_fwd(-1, 1);
  { // a point where finite differences are meaningful: away from the poles, |n lam| < pi (n <= max(1, k^2))
    double k = r.getd("k"), lon0 = std::remainder(r.getd("lon0"), 360.0);
    J p = J::obj(); p["lat"] = J::num(g::coin(1, 8) ? gg::latitude() : g::uni(-88, 88));
    p["lon"] = J::num(lon0 + g::uni(-170, 170) / std::max(1.0, k * k)); J pts = J::arr(); pts.push(p); r["pts"] = pts; }
  r["dlat"] = J::num(g::loguni(0.01, 2.0)); r["dlon"] = J::num(g::loguni(0.01, 2.0));
  return r;
}
Verdict check_d(const J& r) {
  Verdict v; Ctx x;
  if (!prepare(r, x, v)) return v;
  const Cfg& c = x.c; const Ref& R = *x.R;
  std::string pn = PNAME[c.proj];
  double lat, lon;
  if (!r.has("pts") || r.at("pts").t != J::ARR || r.at("pts").a.empty() || !point_ok(r.at("pts").a[0], lat, lon)) { v.skip("malformed record"); return v; }
  double dlat = r.getd("dlat"), dlon = r.getd("dlon");
  if (!(dlat >= 1e-3 && dlat <= 5 && dlon >= 1e-3 && dlon <= 5)) { v.skip("rectangle size outside generated range"); return v; }
  if (std::fabs(lon) > 1e4) lon = std::remainder(lon, 360.0);
  const double H = 0.01;    // degrees (latitude step); the longitude step keeps n * step <= 0.01 deg (Albers: n = k0^2 sin lat0 can be 1e6)
  const double HL = 0.01 / std::max(1.0, (double)fabsl(R.n()));
  bool at180; L lam = mpr::lamdiff(x.lon0, lon, &at180);
  if (std::fabs(lat) > 89 || fabsl(lam) > 179 - dlon) { v.skip("too close to a pole / the cut for finite differences"); return v; }
  mpr::PO o = R.forward(lat, lam);
  L st = stretch(c.proj, o);
  if (o.inf || !(st > 0) || st > 1e6L) { v.skip("scale undefined or extreme"); return v; }
  L theta = fabsl(R.n()) * (fabsl(lam) + dlon) * (L)DEG;
  if (theta > 3.0L) { v.skip("|theta| near or beyond pi (wrapped image)"); return v; }
  double X0, Y0, gam, k; x.lib.forward(x.lon0, lat, lon, X0, Y0, gam, k);
  auto F = [&](double la, double lo, L& X, L& Y) { double xx, yy, g0, k0; x.lib.forward(x.lon0, la, lo, xx, yy, g0, k0); X = (L)xx - X0; Y = (L)yy - Y0; };
  auto deriv = [&](bool inlat, L& dX, L& dY) {
    L xs[4], ys[4]; const int m[4] = {-2, -1, 1, 2};
    double hs[4];
    for (int i = 0; i < 4; ++i) { double la = inlat ? lat + m[i] * H : lat, lo = inlat ? lon : lon + m[i] * HL; F(la, lo, xs[i], ys[i]); hs[i] = inlat ? la - lat : lo - lon; }
    // the actual (rounded) steps are used
    L h1 = ((L)hs[2] - (L)hs[1]) / 2, h2 = ((L)hs[3] - (L)hs[0]) / 2;
    L d1x = (xs[2] - xs[1]) / (2 * h1), d2x = (xs[3] - xs[0]) / (2 * h2), d1y = (ys[2] - ys[1]) / (2 * h1), d2y = (ys[3] - ys[0]) / (2 * h2);
    L w = h2 * h2 / (h1 * h1);      // Richardson: error ~ h^2
    dX = (w * d1x - d2x) / (w - 1) / (L)DEG; dY = (w * d1y - d2y) / (w - 1) / (L)DEG;   // per radian
  };
  mpr::Aux A = mpr::aux(c.f, lat);
  L ex, ey, nx, ny; deriv(false, ex, ey); deriv(true, nx, ny);
  L kE = hypotl(ex, ey) / (c.a * A.N * A.cphi), kN = hypotl(nx, ny) / (c.a * A.M);
  // accuracy of the differences: truncation ~ (H rad)^4, noise ~ position accuracy / (H rad * a)
  L minstr = c.proj == ALB ? 1 / st : st;
  L fd = 1e-9L + 50 * tol_xy(c, o, lam, R.k0()) / (c.a * (HL * DEG) * std::min<L>(A.cphi * A.N, A.M) * minstr);
  if (fd > 1e-4L) { v.skip("finite differences too noisy here (step limited by the cone constant)"); return v; }
  LE(v, fabsl(kE / k - 1), fd, (pn + ": E-W magnification of the map vs returned k (relative)"));
  LE(v, fabsl(kN * (c.proj == ALB ? (L)k : 1 / (L)k) - 1), fd, (pn + (c.proj == ALB ? ": N-S magnification vs 1/k (relative)" : ": N-S magnification vs k (relative)")));
  L angE = atan2l(ey, ex) / (L)DEG, angN = atan2l(ny, nx) / (L)DEG;
  LE(v, fabsl(remainderl(angE - (L)gam, 360.0L)), fd / (L)DEG, (pn + ": direction of the image of a parallel vs gamma [deg]"));
  LE(v, fabsl(remainderl(angN - 90 - (L)gam, 360.0L)), fd / (L)DEG, (pn + ": direction of the image of a meridian vs gamma + 90 [deg]"));
  v.nontrivial = lam != 0;
  if (c.proj == ALB) {
    // local area factor from the returned k alone is k * (1/k) = 1 by documentation; measured:
    LE(v, fabsl(kE * kN - 1), 2 * fd, "Albers: local area factor (E-W x N-S magnification) - 1");
    // image area of the rectangle [lat, lat+dlat] x [lon, lon+dlon]
    double lat2 = lat + dlat, lon2 = lon + dlon;
    if (lat2 < 89.5) {
      auto poly_area = [&](int n) {
        std::vector<L> px, py;
        auto edge = [&](double la0, double lo0, double la1, double lo1) {
          for (int i = 0; i < n; ++i) { L t = (L)i / n; L X, Y; F((double)(la0 + t * ((L)la1 - la0)), (double)(lo0 + t * ((L)lo1 - lo0)), X, Y); px.push_back(X); py.push_back(Y); }
        };
        edge(lat, lon, lat, lon2); edge(lat, lon2, lat2, lon2); edge(lat2, lon2, lat2, lon); edge(lat2, lon, lat, lon);
        L s = 0; size_t m = px.size();
        for (size_t i = 0; i < m; ++i) { size_t j = (i + 1) % m; s += px[i] * py[j] - px[j] * py[i]; }
        return s / 2;
      };
      // the sample parameters are rounded to double: on the parallels this moves points ALONG the edge only
      // (no area error); on the meridians likewise.  Polygon-vs-arc error ~ 1/n^2: Richardson with n, 2n.
      const int n = 96;
      L A1 = poly_area(n), A2 = poly_area(2 * n), Ar = (4 * A2 - A1) / 3;
      L Aref = mpr::rect_area(c.a, c.f, lat, lat2, (L)lon2 - (L)lon);
      L per = 2 * c.a * ((L)dlat * (L)DEG * A.M + (L)dlon * (L)DEG * A.N * A.cphi) * std::max<L>(st, 1);
      LE(v, fabsl(Ar / Aref - 1), 1e-9L + 8 * tol_xy(c, o, lam, R.k0()) * per / fabsl(Aref), "Albers: area of the image of a geographic rectangle vs ellipsoidal area (relative)");
      v.tag("area-rectangle");
    }
  }
  return finish(v, x);
}

// ---------------------------------------------------------------------------------- C11.e
// constructor equivalence (library against itself) and the static singletons
bool same4(double x1, double y1, double g1, double k1, double x2, double y2, double g2, double k2) {
  auto eq = [](double p, double q) { return p == q || (std::isnan(p) && std::isnan(q)); };
  return eq(x1, x2) && eq(y1, y2) && eq(g1, g2) && eq(k1, k2);
}
Verdict check_e(const J& r) {
  Verdict v; Cfg c;
  if (!get_cfg(r, c) || std::fabs(c.f) > 0.5 + 1e-12) { v.skip("outside documented domain"); return v; }
  double lon0 = r.getd("lon0");
  if (!std::isfinite(lon0) || std::fabs(lon0) > 1e6 || !r.has("pts") || r.at("pts").t != J::ARR) { v.skip("outside documented domain"); return v; }
  std::vector<std::pair<double, double>> pts;
  for (const J& pj : r.at("pts").a) { double la, lo; if (!point_ok(pj, la, lo)) { v.skip("outside documented domain"); return v; } pts.push_back({la, lo}); }
  std::string pn = PNAME[c.proj];
  v.tag(pn); if (!c.cls.empty()) v.tag("p:" + c.cls);
  // (3) singletons == explicit constructions (bitwise)
  {
    const double a = Constants::WGS84_a(), f = Constants::WGS84_f();
    LambertConformalConic merc(a, f, 0.0, 1.0);
    AlbersEqualArea cea(a, f, 0.0, 1.0), cea2(a, f, 0.0, 1.0, 0.0, 1.0, 1.0), aen(a, f, 90.0, 1.0), aes(a, f, -90.0, 1.0), aen2(a, f, 1.0, 0.0, 1.0, 0.0, 1.0), aes2(a, f, -1.0, 0.0, -1.0, 0.0, 1.0);
    PolarStereographic ups(a, f, Constants::UPS_k0());
    for (auto& p : pts) {
      double x1, y1, g1, k1, x2, y2, g2, k2, la, lo, la2, lo2;
      LambertConformalConic::Mercator().Forward(lon0, p.first, p.second, x1, y1, g1, k1); merc.Forward(lon0, p.first, p.second, x2, y2, g2, k2);
      v.that(same4(x1, y1, g1, k1, x2, y2, g2, k2), "Mercator() != LambertConformalConic(WGS84, 0, 1) (Forward)");
      LambertConformalConic::Mercator().Reverse(lon0, x1, y1, la, lo, g1, k1); merc.Reverse(lon0, x1, y1, la2, lo2, g2, k2);
      v.that(same4(la, lo, g1, k1, la2, lo2, g2, k2), "Mercator() != LambertConformalConic(WGS84, 0, 1) (Reverse)");
      AlbersEqualArea::CylindricalEqualArea().Forward(lon0, p.first, p.second, x1, y1, g1, k1);
      cea.Forward(lon0, p.first, p.second, x2, y2, g2, k2); v.that(same4(x1, y1, g1, k1, x2, y2, g2, k2), "CylindricalEqualArea() != AlbersEqualArea(WGS84, 0, 1)");
      cea2.Forward(lon0, p.first, p.second, x2, y2, g2, k2); v.that(same4(x1, y1, g1, k1, x2, y2, g2, k2), "CylindricalEqualArea() != AlbersEqualArea(WGS84, 0,1,0,1, 1)");
      AlbersEqualArea::AzimuthalEqualAreaNorth().Forward(lon0, p.first, p.second, x1, y1, g1, k1);
      aen.Forward(lon0, p.first, p.second, x2, y2, g2, k2); v.that(same4(x1, y1, g1, k1, x2, y2, g2, k2), "AzimuthalEqualAreaNorth() != AlbersEqualArea(WGS84, 90, 1)");
      aen2.Forward(lon0, p.first, p.second, x2, y2, g2, k2); v.that(same4(x1, y1, g1, k1, x2, y2, g2, k2), "AzimuthalEqualAreaNorth() != AlbersEqualArea(WGS84, 1,0,1,0, 1)");
      AlbersEqualArea::AzimuthalEqualAreaSouth().Forward(lon0, p.first, p.second, x1, y1, g1, k1);
      aes.Forward(lon0, p.first, p.second, x2, y2, g2, k2); v.that(same4(x1, y1, g1, k1, x2, y2, g2, k2), "AzimuthalEqualAreaSouth() != AlbersEqualArea(WGS84, -90, 1)");
      aes2.Forward(lon0, p.first, p.second, x2, y2, g2, k2); v.that(same4(x1, y1, g1, k1, x2, y2, g2, k2), "AzimuthalEqualAreaSouth() != AlbersEqualArea(WGS84, -1,0,-1,0, 1)");
      for (int nth = 0; nth < 2; ++nth) {
        if (!(nth ? p.first > -90 : p.first < 90)) continue;
        PolarStereographic::UPS().Forward(nth, p.first, p.second, x1, y1, g1, k1); ups.Forward(nth, p.first, p.second, x2, y2, g2, k2);
        v.that(same4(x1, y1, g1, k1, x2, y2, g2, k2), "UPS() != PolarStereographic(WGS84, UPS_k0)");
      }
    }
    v.that(PolarStereographic::UPS().CentralScale() == Constants::UPS_k0() && LambertConformalConic::Mercator().OriginLatitude() == 0 &&
           AlbersEqualArea::CylindricalEqualArea().OriginLatitude() == 0 && AlbersEqualArea::AzimuthalEqualAreaNorth().OriginLatitude() == 90 &&
           AlbersEqualArea::AzimuthalEqualAreaSouth().OriginLatitude() == -90, "inspectors of the static singletons");
  }
  if (c.proj == PS) return v;
  if (!lcc_accuracy_domain(c)) { v.tag("lcc-outside-accuracy-domain"); return v; }
  Lib A; if (!make_lib(c, A)) { v.tag("constructor-rejects"); return v; }
  Ctx cx; cx.c = c;
  auto cmp_exact = [&](const Lib& B, const char* what) {
    v.that(A.lat0() == B.lat0() && A.k0() == B.k0(), pn + ": " + what + ": OriginLatitude / CentralScale differ");
    for (auto& p : pts) {
      double x1, y1, g1, k1, x2, y2, g2, k2;
      A.forward(lon0, p.first, p.second, x1, y1, g1, k1); B.forward(lon0, p.first, p.second, x2, y2, g2, k2);
      v.that(same4(x1, y1, g1, k1, x2, y2, g2, k2), pn + ": " + what + ": Forward differs");
      double la1, lo1, la2, lo2; A.reverse(lon0, x1, y1, la1, lo1, g1, k1); B.reverse(lon0, x1, y1, la2, lo2, g2, k2);
      v.that(same4(la1, lo1, g1, k1, la2, lo2, g2, k2), pn + ": " + what + ": Reverse differs");
    }
  };
  if (c.ctor != 2) {
    // (1) degree form == sin/cos form with the library's own sincosd (identical arguments reach Init)
    Cfg q = c; q.ctor = 2; Math::sincosd(c.lat1, q.s1, q.c1); Math::sincosd(c.ctor == 0 ? c.lat1 : c.lat2, q.s2, q.c2);
    Lib B; if (make_lib(q, B)) { cmp_exact(B, "degree vs sin/cos constructor"); v.tag("deg-vs-sincos"); }
    else v.that(albers_pole_first(q) || (c.proj == LCC && (q.c1 == 0 || q.c2 == 0)), pn + ": sin/cos constructor rejects what the degree constructor accepts");
    if (c.ctor == 0) { Cfg p2 = c; p2.ctor = 1; p2.lat2 = c.lat1; Lib B2; if (make_lib(p2, B2)) { cmp_exact(B2, "one parallel vs two equal parallels"); v.tag("single-vs-equal-pair"); } else v.that(false, pn + ": two equal parallels rejected"); }
    if (c.ctor == 1) { Cfg p2 = c; std::swap(p2.lat1, p2.lat2); Lib B2; if (make_lib(p2, B2)) {
        // the two parallels in either order describe the same projection
        v.tag("swapped-parallels");
        LE(v, fabsl((L)A.lat0() - B2.lat0()), 2 * 4.5e-14L * fs0(c.f), (pn + ": parallels swapped: OriginLatitude [deg]"));
        LE(v, fabsl((L)A.k0() / B2.k0() - 1), (c.proj == ALB ? ALBK : 2 * 7e-15L) * fs0(c.f), (pn + ": parallels swapped: CentralScale (relative)"));
      } }
  }
  // (2) two parallels == one parallel at OriginLatitude() with CentralScale()
  if (c.ctor != 0 && std::isfinite(A.k0()) && A.k0() > 0 && std::fabs(A.lat0()) <= 90) {
    Cfg s1 = c; s1.ctor = 0; s1.lat1 = s1.lat2 = A.lat0(); s1.k = A.k0();
    Lib B; if (!make_lib(s1, B)) { v.that(false, pn + ": one-parallel constructor rejects OriginLatitude/CentralScale of a valid projection"); { if (v.failed() && known_on(F_POLE1) && albers_one_pole(c)) v.known(F_POLE1, v.msg); return finish(v, cx); } }
    v.tag("pair-vs-single(lat0,k0)");
    mpr::Aux A0x = mpr::aux(c.f, A.lat0());
    for (auto& p : pts) {
      double x1, y1, g1, k1, x2, y2, g2, k2;
      A.forward(lon0, p.first, p.second, x1, y1, g1, k1); B.forward(lon0, p.first, p.second, x2, y2, g2, k2);
      if (!std::isfinite(x1) || !std::isfinite(y1) || !(k1 > 0) || std::fabs(p.first) > 89.9) continue;   // k next to a pole: see C11.a
      // OriginLatitude() is rounded to a double (degrees): the origin moves by up to half an ulp along the
      // meridian and the cone constant changes by cos(lat0) ulp, which rotates every point about the apex
      L ul = (std::nextafter(std::fabs(A.lat0()), 1e9) - std::fabs(A.lat0())) * (L)DEG;
      L lamr = fabsl(mpr::lamdiff(lon0, p.second, nullptr)) * (L)DEG;
      L r1 = hypotl((L)x1, (L)y1), st = c.proj == ALB ? std::max<L>(k1, 1 / (L)k1) : (L)k1;
      // |d psi| between the point and the origin, from the returned scales (k ~ exp(-n dpsi) m0/m): bounded by the log of the scale ratio + 40
      L tol = 4 * 10e-9L * (c.a / A0) * fscale(c.f) * (std::max<L>(1, st) + r1 * (1 + lamr) / c.a)
            + ul * (A0x.M * c.a * A.k0() + (r1 + c.a * A.k0()) * (1 + lamr) * (2 + fabsl(logl((L)k1 / A.k0()))) * 4);
      LE(v, hypotl((L)x1 - x2, (L)y1 - y2), tol, (pn + ": two parallels vs one parallel at (OriginLatitude, CentralScale): Forward (x,y) [m]"));
      LE(v, fabsl((L)k1 / k2 - 1), 8 * 7e-15L * fscale(c.f) * (c.proj == ALB ? 8 : 1) * (2 + fabsl(logl((L)k1 / A.k0()))) + ul * 4 * (2 + fabsl(logl((L)k1 / A.k0()))), (pn + ": two parallels vs one parallel: k (relative)"));
    }
  }
  { if (v.failed() && known_on(F_POLE1) && albers_one_pole(c)) v.known(F_POLE1, v.msg); return finish(v, cx); }
}

// ---------------------------------------------------------------------------------- C11.f
// limits: LCC(0) = Mercator, LCC(+-90) = polar stereographic, Albers(0) = cylindrical equal area,
// Albers(+-90) = Lambert azimuthal equal area, each against its own closed form (and the PS class)
J gen_f() {
  J r = J::obj(); double a, f; std::string ec; gen_ell(a, f, ec);
  r["kind"] = J::integer(g::irange(0, 3)); r["south"] = J::integer(g::coin());
  r["a"] = J::num(a); r["f"] = J::num(f); r["k"] = J::num(g::coin(1, 3) ? 1.0 : g::loguni(1e-3, 1e3));
  gen_points(r, 3); return r;
}
Verdict check_f(const J& r) {
  Verdict v; int kind = (int)r.geti("kind"); bool south = r.geti("south") != 0;
  double a = r.getd("a"), f = r.getd("f"), k0 = r.getd("k"), lon0 = r.getd("lon0");
  if (kind < 0 || kind > 3 || !(std::isfinite(a) && a > 0 && std::isfinite(f) && f < 1 && std::fabs(f) <= 0.5 + 1e-12 && std::isfinite(k0) && k0 > 0) || !std::isfinite(lon0) || std::fabs(lon0) > 1e6 ||
      !r.has("pts") || r.at("pts").t != J::ARR) { v.skip("outside documented domain"); return v; }
  static const char* KN[] = {"LCC(0)=Mercator", "LCC(+-90)=PS", "Albers(0)=cylindrical", "Albers(+-90)=azimuthal"};
  v.tag(KN[kind]); v.tag(std::fabs(f) <= 0.02 ? "|f|<=0.02" : "|f|>0.02");
  Cfg c; c.a = a; c.f = f; c.k = k0; c.ctor = 0; c.proj = kind < 2 ? LCC : ALB;
  c.lat1 = c.lat2 = (kind == 0 || kind == 2) ? (south ? -0.0 : 0.0) : (south ? -90.0 : 90.0);
  Lib lib; if (!make_lib(c, lib)) { v.that(false, "constructor threw at a documented limit"); return v; }
  v.that(lib.lat0() == c.lat1 || (lib.lat0() == 0 && c.lat1 == 0), "OriginLatitude at the limit");
  LE(v, fabsl((L)lib.k0() / k0 - 1), 4 * EPS, "CentralScale at the limit (relative)");
  PolarStereographic ps(a, f, k0);
  for (const J& pj : r.at("pts").a) {
    double lat, lon; if (!point_ok(pj, lat, lon)) { v.skip("outside documented domain"); return v; }
    bool at180; L lam = mpr::lamdiff(lon0, lon, &at180);
    double X, Y, gam, k; lib.forward(lon0, lat, lon, X, Y, gam, k);
    mpr::PO o; o.inf = 0; o.arc = 0;
    mpr::Aux A = mpr::aux(f, lat);
    L lamr = lam * (L)DEG;
    if (kind == 0) o = mpr::mercator_forward(a, f, k0, lat, lam);
    else if (kind == 1) o = mpr::ps_forward(a, f, k0, !south, lat, lam);
    else if (kind == 2) {      // Snyder 10-1.., cylindrical equal area with standard parallel 0 and scale k0: x = a k0 lam, y = a q / (2 k0)
      o.x = a * k0 * lamr; o.y = a * A.q / (2 * k0); o.gamma = 0; o.k = k0 / A.m; o.arc = fabsl(o.x); o.rho = std::numeric_limits<L>::infinity();
      if (A.cphi == 0) o.k = std::numeric_limits<L>::quiet_NaN();
    } else {                   // Snyder 24-23 ff.: Lambert azimuthal equal area, polar aspect, rho = a sqrt(qp -+ q) / k0,
      // theta = k0^2 lam; qp -+ q cancels near the pole, so it is evaluated by the 50-digit conic in its polar form
      static thread_local std::unique_ptr<mpr::Conic> az; static thread_local double za = 0, zf = 2, zk = 0; static thread_local bool zs = false;
      if (!az || za != a || zf != f || zk != k0 || zs != south) { az.reset(new mpr::Conic(mpr::Conic::deg(mpr::Conic::ALBERS, a, f, south ? -90 : 90, south ? -90 : 90, k0))); za = a; zf = f; zk = k0; zs = south; }
      o = az->forward(lat, lam);
    }
    bool kundef = !(o.k > 0) || !std::isfinite((double)o.k);
    if (o.inf || (kundef && std::fabs(lat) == 90)) { v.tag("pole-infinite"); v.that(std::isfinite(X) && std::isfinite(Y), "non-finite result at a pole"); continue; }
    if (at180 && kind != 0 && kind != 2) {   // sign of +-180 ambiguous
      if (fabsl(X + o.x) < fabsl(X - o.x)) { o.x = -o.x; o.gamma = -o.gamma; }
    } else if (at180) { if (fabsl(X + o.x) < fabsl(X - o.x)) o.x = -o.x; }
    LE(v, hypotl(X - o.x, Y - o.y), tol_xy(c, o, c.proj == ALB ? std::max<L>(k0, 1 / (L)k0) : (L)k0), (std::string(KN[kind]) + ": Forward (x,y) vs closed form of the limit [m]"));
    { L dg = fabsl(remainderl((L)gam - o.gamma, 360.0L)); if (at180) dg = std::min(dg, fabsl(remainderl((L)gam + o.gamma, 360.0L)));
      LE(v, dg, 2 * 9e-14L * fscale(f) + 4 * EPS * fabsl(o.gamma), (std::string(KN[kind]) + ": gamma [deg]")); }
    if (!kundef) LE(v, fabsl(k / o.k - 1), (c.proj == ALB ? ALBK : 2 * 7e-15L) * fscale(f) * (1 + fabsl(logl(o.k / k0))) + tol_xy(c, o) / o.rho, (std::string(KN[kind]) + ": k (relative)"));
    if (kind == 1 && (south ? lat < 90 : lat > -90)) {
      // the library's own polar stereographic class
      double X2, Y2, g2, k2; ps.Forward(!south, lat, (double)lam, X2, Y2, g2, k2);
      LE(v, hypotl((L)X - X2, (L)Y - Y2), 2 * tol_xy(c, o), "LCC(+-90) vs PolarStereographic class: Forward (x,y) [m]");
      LE(v, fabsl((L)k / k2 - 1), 4 * 7e-15L * fscale(f) * (1 + fabsl(logl(o.k / k0))), "LCC(+-90) vs PolarStereographic class: k (relative)");
    }
  }
  return v;
}

// ---------------------------------------------------------------------------------- C11.g
// hemisphere symmetry (library against itself): parallels (-p1,-p2) at (-lat, lon) = (x, -y, -gamma, k)
Verdict check_g(const J& r) {
  Verdict v; Cfg c;
  if (!get_cfg(r, c) || std::fabs(c.f) > 0.5 + 1e-12) { v.skip("outside documented domain"); return v; }
  double lon0 = r.getd("lon0");
  if (!std::isfinite(lon0) || std::fabs(lon0) > 1e6 || !r.has("pts") || r.at("pts").t != J::ARR) { v.skip("outside documented domain"); return v; }
  if (c.proj == PS) lon0 = 0;
  Cfg m = c; m.lat1 = -c.lat1; m.lat2 = -c.lat2; m.s1 = -c.s1; m.s2 = -c.s2; m.northp = !c.northp;
  Lib A, B; bool okA = make_lib(c, A), okB = make_lib(m, B);
  v.tag(PNAME[c.proj]); if (!c.cls.empty()) v.tag("p:" + c.cls);
  v.that(okA == okB, std::string(PNAME[c.proj]) + ": constructor accepts a parameter set but rejects its mirror image");
  if (!okA || !okB) { v.nontrivial = false; return v; }
  Ctx cx; cx.c = c;
  if (!lcc_accuracy_domain(c)) { v.tag("outside-accuracy-domain"); v.nontrivial = false; return v; }
  bool symmetric = c.proj != PS && (c.ctor == 2 ? (c.s1 == -c.s2 && c.c1 == c.c2) : (c.ctor == 1 ? c.lat1 == -c.lat2 : c.lat1 == 0));
  if (!(A.lat0() == 0 && B.lat0() == 0)) v.that(A.lat0() == -B.lat0(), "OriginLatitude of the mirrored projection is not the negative");
  LE(v, fabsl((L)A.k0() / B.k0() - 1), symmetric ? 1e-12L : 0, "CentralScale of the mirrored projection (relative)");
  std::string pn = PNAME[c.proj];
  for (const J& pj : r.at("pts").a) {
    double lat, lon; if (!point_ok(pj, lat, lon)) { v.skip("outside documented domain"); return v; }
    if (!ps_lat_ok(c, lat)) continue;
    double x1, y1, g1, k1, x2, y2, g2, k2;
    A.forward(lon0, lat, lon, x1, y1, g1, k1); B.forward(lon0, -lat, lon, x2, y2, g2, k2);
    // the implementation reduces both to the same internal (northern) problem, so the images agree to the last
    // bit unless the parallels are symmetric about the equator (then the two are ordered differently)
    L sc = symmetric ? 1e-12L : 0;
    LE(v, fabsl((L)x1 - x2), sc * (fabsl((L)x1) + fabsl((L)y1)), (pn + ": mirror image: x"));
    LE(v, fabsl((L)y1 + y2), sc * (fabsl((L)x1) + fabsl((L)y1)), (pn + ": mirror image: y + y'"));
    LE(v, fabsl(c.proj == PS ? remainderl((L)g1 + g2, 360.0L) : (L)g1 + g2), sc * fabsl((L)g1), (pn + ": mirror image: gamma + gamma'"));
    if (!(symmetric && std::fabs(lat) > 89.9)) LE(v, fabsl((L)k1 - k2), sc * fabsl((L)k1), (pn + ": mirror image: k"));
    // and back
    if (std::isfinite(x1) && std::isfinite(y1)) {
      double la1, lo1, la2, lo2; A.reverse(lon0, x1, y1, la1, lo1, g1, k1); B.reverse(lon0, x1, -y1, la2, lo2, g2, k2);
      if (std::isnan(la1) && std::isnan(la2)) { v.tag("reverse-nan-both"); continue; }   // reported by C11.b (apex)
      LE(v, fabsl((L)la1 + la2), symmetric ? 1e-9L : 0, (pn + ": mirror image: Reverse lat"));
      LE(v, fabsl(remainderl((L)lo1 - lo2, 360.0L)), symmetric ? 1e-9L : 0, (pn + ": mirror image: Reverse lon"));
      if (!(symmetric && std::fabs(lat) > 89.9)) LE(v, fabsl((L)k1 - k2), symmetric ? 1e-9L * fabsl((L)k1) : 0, (pn + ": mirror image: Reverse k"));
    }
  }
  return finish(v, cx);
}

vf::Reg ra({"C11.a", "generated (projection PS/LCC/Albers; ellipsoid incl. sphere, prolate, f to 0.5; k log-uniform 1e-3..1e3; parallels: single, pairs generic / nearly equal to 1e-12 deg / symmetric / near pole / at pole / southern, sin-cos form with cos to 1e-300, singular sets documented to throw; 3 points: lat incl. poles, lon, lon0): Forward x,y,gamma,k vs 50-digit Snyder closed forms; non-trivial: lat not the origin parallel and lon != lon0; distinct by record hash", 0.26,
            [] { return rc::gen::exec([] { return gen_fwd(); }); }, check_a, nullptr});
vf::Reg rb({"C11.b", "same generator, 2 points: Reverse(Forward(p)) and Reverse(rounded reference image of p) return p (true distance), gamma and k from Reverse vs reference, Forward(Reverse(x,y)) = (x,y); non-trivial as C11.a", 0.22,
            [] { return rc::gen::exec([] { return gen_fwd(-1, 2); }); }, check_b, nullptr});
vf::Reg rcc({"C11.c", "same configurations + SetScale(lat,k): scale on the standard parallels = k1, OriginLatitude/CentralScale vs 100-digit oracle, SetScale vs re-scaled oracle and documented exceptions", 0.12,
             [] { return rc::gen::exec([] { return gen_c(); }); }, check_c, nullptr});
vf::Reg rd({"C11.d", "same configurations, one point away from poles and the cut, rectangle 0.01..2 deg: magnification and rotation of the library map by 4th-order differences = k (and 1/k for Albers), gamma; Albers area of the image of a geographic rectangle (shoelace, 96/192 samples per edge + Richardson) = ellipsoidal area", 0.10,
            [] { return rc::gen::exec([] { return gen_d(); }); }, check_d, nullptr});
vf::Reg re({"C11.e", "same configurations, 2 points: degree vs sin/cos constructor (bitwise), one parallel vs two equal parallels (bitwise), swapped parallels, two parallels vs one parallel at (OriginLatitude, CentralScale), static singletons vs explicit constructions (bitwise)", 0.12,
            [] { return rc::gen::exec([] { return gen_fwd(-1, 2); }); }, check_e, nullptr});
vf::Reg rf({"C11.f", "limits on generated ellipsoids/scales/points: LCC(0) vs Mercator closed form, LCC(+-90) vs polar stereographic closed form and the PolarStereographic class, Albers(0) vs cylindrical equal area, Albers(+-90) vs Lambert azimuthal equal area", 0.08,
            [] { return rc::gen::exec([] { return gen_f(); }); }, check_f, nullptr});
vf::Reg rg({"C11.g", "same configurations and their mirror images (-p1,-p2), 3 points: (x,-y,-gamma,k) at -lat, OriginLatitude, CentralScale, Reverse", 0.10,
            [] { return rc::gen::exec([] { return gen_fwd(); }); }, check_g, nullptr});

}  // namespace

VF_MAIN
