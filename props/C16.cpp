// C16 — angle arithmetic and exact-summation primitives (DESIGN 3/C16)
//
// Code under test: Math::{AngNormalize, AngDiff, AngRound, LatFix, sincosd, sincosde, sind, cosd, tand,
// atan2d, atand, eatanhe, taupf, tauf, sum}<float|double|long double> (all three are instantiated in
// Math.cpp because the framework's Config.h sets GEOGRAPHICLIB_HAVE_LONG_DOUBLE) and the header
// template Accumulator<float|double|long double>.
//
// Oracles (ref/rat.hpp): exact rationals (cpp_rational) for everything that is documented as
// exact; 50-digit binary floats after an EXACT rational argument reduction for the transcendental
// values; for the 2^32 float enumeration a long double reference (exact fmodl reduction of the
// float, sinl/cosl/atanl: reference error < 4e-19 relative = 1e-11 float ulp).
//
// Sub-checks: C16.a AngNormalize | C16.b AngDiff | C16.c sind/cosd/tand/sincosd accuracy, exact values,
// signed zeros | C16.c.sym parity/periodicity/quarter turns, bit-exact | C16.c.de sincosde | C16.d atan2d,
// atand | C16.e LatFix, AngRound | C16.f eatanhe, taupf, tauf | C16.g Math::sum | C16.h Accumulator
// histories | C16.f32 enumeration of the 32-bit floats (quick: stratified, thorough: all 2^32).
//
// DEFECTS found by C16.f (see findings/): C16-tauf-prolate (tauf used 1 - es^2 for es < 0; repaired in /repo
// 433cb7a, no guard here any more) and C16-tauf-noconv (5 Newton steps not enough for es > 0.99 / es < -3,
// silent; open).  Cases of the latter region whose tauf relations fail are reported with
// v.known("C16-tauf-noconv") when that id is enabled by known_findings.json.
//
// SENSITIVITY (scratch copy of /repo with one deliberate break each, `VERIF_REPO=/tmp/mutC16
// python3 check.py C16 --tier quick`, seed 1; "n" = cases evaluated by the sub-check, summed over the 16
// shards, when the shards stopped at their first failure):
//   break                                                        caught by (n)
//   M1  sind: drop `if (r == 0) r = copysign(r, x)`               C16.c signed zero; C16.f32
//   M2  sincosd: case 1U `cosx = -s` -> `cosx = s`                C16.c (accuracy, 1e16 ulp), C16.c.sym, C16.f32
//   M3  AngDiff: second `sum` removed                             C16.b "d is not the nearest number to d+e" (692)
//   M4  AngRound: z = 1/16 -> 1/8                                 C16.e (60), C16.f32 (2.0e5)
//   M5  tauf: numit 5 -> 1                                        C16.f round trip in the class 0 <= es <= 0.99 (56);
//       numit 5 -> 2, 5 -> 3 (run with the findings enabled)     C16.f, 0 <= es <= 0.99, < 200 cases per shard
//   M6a Accumulator::Add: `_t += u` -> `_t = u`                   C16.h value vs exact sum (119)
//   M6b Accumulator::Add: two-sum order changed                   C16.h value vs exact sum (108)
//   M7  sincosd: 30-degree special case removed                   C16.c "not correctly rounded at a multiple of 30" (1357)
//   M8  Math::sum: error term `-(up+vpp)` -> `-up`                C16.g (49), C16.b (68), C16.h (108)
//   M9  atan2d: case 2 `qd - ang` -> `qd + ang`                   C16.d (111), C16.f32 atand (2.6e5)
//   M10 AngNormalize: +-180 sign fix removed                      C16.a sign rule (2.0e4), C16.f32 (4.9e5)
//   M11 eatanhe: sign of the es < 0 branch flipped                C16.f eatanhe vs 50 digits (45)
//   M12 cosd: `return T(0) + r` -> `return r`                     C16.c "cos returned -0" (1441), C16.f32 (3.7e5)
//   M13 sincosde: correction t ignored                            C16.c.de (36)
//   M14 LatFix: `>` -> `>=`                                       C16.e (691), C16.f32 (1.4e6)
//   M15 Accumulator::operator*=(T): fma error dropped (`y*_t`)    C16.h value vs exact sum (262)
//   M16 Accumulator::remainder: remainder -> fmod                 C16.h range [-y/2,y/2] (752)
//   M17 AngDiff: `copysign(d, ... : -e)` -> `: e`                 C16.b "d + e outside [-180,180]" (1070)
//   M19 sind: 45-degree special case removed                      C16.c correctly rounded (1538), C16.c.sym (3.5e4)
//   M24 AngDiff: `remainder(-x, 360)` -> `-x`                     C16.b range (955)
//   M26 atan2d: `copysign(hd, y) - ang` -> `hd - ang`             C16.d sign of the result (166)
//   M27 sincosde: default case `cosx = s` -> `cosx = -s`          C16.c.de (136)
//   NOT caught: M22 `#define GEOGRAPHICLIB_VOLATILE` empty — with g++ -O2 -fno-fast-math on x86-64 (SSE, no
//   excess precision) the generated arithmetic is unchanged, i.e. an equivalent mutant for this build.
//   F21 (reverse patch seeded/fix-reverts/F21-433cb7a.diff)
//       tauf: `e2m = es < 0 ? 1 + sq(es) : 1 - sq(es)` -> `1 - sq(es)`   C16.f round trip / backward error, class es < 0, every shard
//       (run with C16-tauf-noconv enabled)                          within 2..23 cases; shrunk: tauf(taupf(0,-1),-1) = NaN
//
#include "fw/harness.hpp"
#include "ref/rat.hpp"

#include <GeographicLib/Accumulator.hpp>
#include <GeographicLib/Math.hpp>

using namespace GeographicLib;
using vf::J; using vf::Verdict;
namespace g = vf::g;
typedef long double L;
using ref::M; using ref::Q; using ref::Z; using ref::toM; using ref::toQ; using ref::ulp_err;

namespace {

// ------------------------------------------------------------------------------------------------
// Tolerances.  Math.hpp gives no figure for these functions; the property says "a couple of units in
// the last place" / "round-off" / "high relative accuracy".  All values are in ulps of the result type
// (subnormal spacing included).  Calibration on the unchanged tree: 6 seeds of the quick tier (6.4e6
// cases each), 1.6e7-case single sub-check runs, and the complete float enumeration.
const L TOL_SINCOS = 4;       // "couple of ulp" (2) x K = 2.  Max seen 1.60 ulp (float, double, long double alike);
                              // bound: 1 ulp for d*degree (product + constant) + < 1 ulp libm, x2 at a binade edge
const L TOL_TAND = 12;        // s/c: max seen 3.0 ulp, 4x margin
const L TOL_ATAN = 9;         // max seen 2.23 ulp (atan2d), 1.65 ulp (atand), 4x margin.  Results within 64 min()
                              // of zero get +32: atan2 in radians is rounded to the subnormal grid first and
                              // that error is multiplied by 180/pi (max seen 29.2 of the 41 allowed)
const L TOL_F32_SINCOS = 2.5; // all 2^32 floats: max sind 1.621, cosd 1.578, atand 1.824, tand 3.008 ulp (sincosd = sind/cosd)
const L TOL_F32_TAND = 5;     //   (exhaustive, so the margin only covers another libm)
const L TOL_F32_ATAND = 2.5;
const L TOL_EATANHE = 10;     // x (1 + amplification of the rounding of es*x in atanh); max seen 0.31 of this
const L TOL_TAUPF = 26;       // x conditioning (see chk_tau); max seen 0.40 of this for es >= 0, 0.07 for es < 0
const L TOL_TAUF = 16;        // x conditioning; max seen 0.25 of this for 0 <= es <= 0.99
const L TOL_TAU_RT = 24;      // x conditioning; max seen 0.37 of this for 0 <= es <= 0.99, 0.17 for -3 <= es < 0
const L TOL_DE = 4;           // as TOL_SINCOS, plus the documented angle rounding of sincosde (see chk_de); max 0.5
const L ACC_C = 1;            // Accumulator: |value - exact| <= ACC_C (n+2) eps^2 sum|terms| after n operations
                              // (each Add/multiply loses at most about one ulp of the low word); max seen 0.09

template <class T> struct Ty;
template <> struct Ty<float> { static const char* name() { return "float"; } };
template <> struct Ty<double> { static const char* name() { return "double"; } };
template <> struct Ty<L> { static const char* name() { return "long double"; } };

template <class F> Verdict by_type(long long ty, F f) {
  switch (ty) {
    case 0: return f(float(0));
    case 1: return f(double(0));
    case 2: return f(L(0));
    default: { Verdict v; v.skip("unknown type index"); return v; }
  }
}

template <class T> bool same_bits(T a, T b) {
  if (std::isnan(a) || std::isnan(b)) return std::isnan(a) && std::isnan(b);
  return a == b && std::signbit(a) == std::signbit(b);
}
template <class T> T step(T x, int k) {
  const T inf = std::numeric_limits<T>::infinity();
  for (; k > 0; --k) x = std::nextafter(x, inf);
  for (; k < 0; ++k) x = std::nextafter(x, -inf);
  return x;
}
template <class T> int exp_denorm() { return std::numeric_limits<T>::min_exponent - std::numeric_limits<T>::digits; }
template <class T> int exp_max() { return std::numeric_limits<T>::max_exponent - 1; }
template <class T> L clampT(L x) {   // round to T, never to infinity
  T y = (T)x;
  if (std::isinf(y) && std::isfinite(x)) y = std::copysign(std::numeric_limits<T>::max(), y);
  return (L)y;
}
const char* magclass(L ax) {
  return ax == 0 ? "zero" : ax < 1e-5L ? "tiny" : ax <= 360 ? "principal" : ax <= 1e7L ? "large" : "huge";
}

// ================================================================================================
// generators (all randomness through vf::g; values are returned as long double but representable in T)
template <class T> L rnd_exp(int e) {   // random full-precision value of T in [2^e, 2^(e+1)]
  L m = 1 + (L)g::u01() + ldexpl((L)g::u01(), -53);
  return clampT<T>(ldexpl(m, e));
}
template <class T> L g_special() {
  typedef std::numeric_limits<T> NL;
  switch (g::irange(0, 15)) {
    case 0: return 0.0L; case 1: return -0.0L; case 2: return 180; case 3: return -180;
    case 4: return 90; case 5: return -90; case 6: return 360; case 7: return 45; case 8: return 30;
    case 9: return (L)NL::denorm_min() * g::sgn(); case 10: return (L)NL::min() * g::sgn();
    case 11: return (L)NL::max() * g::sgn(); case 12: return 0.0625L * g::sgn();
    case 13: return (L)NL::infinity() * g::sgn(); case 14: return (L)NL::quiet_NaN();
    default: return (L)NL::epsilon() * g::sgn();
  }
}
// any angle-like argument of type T: whole exponent range, cardinal values +- ulps, huge exact multiples
template <class T> L g_angle() {
  typedef std::numeric_limits<T> NL;
  switch (g::wpick({18, 14, 8, 10, 10, 12, 10, 6, 12})) {
    case 0: return clampT<T>((L)g::uni(-180, 180) + ldexpl((L)g::u01(), -46));
    case 1: { T c = T(15 * g::irange(0, 48)); return g::sgn() * (L)step<T>(c, (int)g::irange(-3, 3)); }
    case 2: {   // large multiples of 15 (exact: 15 k < 2^digits)
      int bits = (int)g::irange(1, std::min(NL::digits - 4, 58));
      long long k = g::irange(0, (1LL << bits) - 1);
      T c = (T)(15.0L * (L)k);
      return g::sgn() * (L)step<T>(c, (int)g::irange(-2, 2));
    }
    case 3: {   // 45 m 2^j: huge exact multiples of 45
      int bits = (int)g::irange(1, std::min(NL::digits - 6, 56));
      long long m = g::irange(0, (1LL << bits) - 1);
      int j = (int)g::irange(0, exp_max<T>() - bits - 6);
      T c = (T)ldexpl(45.0L * (L)m, j);
      return g::sgn() * (L)step<T>(c, (int)g::irange(-2, 2));
    }
    case 4: return g::sgn() * rnd_exp<T>((int)g::irange(exp_denorm<T>(), -17));
    case 5: return g::sgn() * rnd_exp<T>((int)g::irange(exp_denorm<T>(), exp_max<T>()));
    case 6: return clampT<T>((L)g::uni(-180, 180) + 360.0L * (L)g::irange(-1000000, 1000000));
    case 7: return g_special<T>();
    default: {
      L c = (L)g::oneof<int>({0, 30, 45, 60, 90, 120, 135, 180, 270, 360});
      return g::sgn() * clampT<T>(c + g::sgn() * rnd_exp<L>((int)g::irange(-70, 0)));
    }
  }
}
int g_type() { return g::wpick({25, 50, 25}); }
template <class F> L gen_by_type(int ty, F f) {
  switch (ty) { case 0: return f(float(0)); case 1: return f(double(0)); default: return f(L(0)); }
}
#define GEN_T(ty, expr) gen_by_type(ty, [&](auto z_) -> L { typedef decltype(z_) T; (void)z_; return (expr); })

// ================================================================================================
// C16.a  AngNormalize
template <class T> Verdict chk_norm(L xl) {
  Verdict v; T x = (T)xl; v.tag(Ty<T>::name());
  T y = Math::AngNormalize(x);
  if (std::isnan(x)) { v.that(std::isnan(y), "AngNormalize(NaN) is not NaN"); v.nontrivial = false; v.tag("nan"); return v; }
  if (std::isinf(x)) { v.tag("inf"); v.nontrivial = false; return v; }   // nothing documented
  v.tag(magclass(fabsl((L)x)));
  v.that(std::isfinite(y) && std::fabs(y) <= T(180), "AngNormalize(x) outside [-180,180]");
  if (v.failed()) return v;
  Q k = (toQ(x) - toQ(y)) / 360;
  v.that(ref::is_integer(k), "AngNormalize(x) is not congruent to x modulo 360");
  // congruence + range determine the result except for the sign at 0 and 180, which is documented
  if (y == 0 || std::fabs(y) == T(180)) {
    v.tag(y == 0 ? "result0" : "result180");
    v.that(std::signbit(y) == std::signbit(x), "AngNormalize: result +-0 or +-180 does not carry the sign of x");
  }
  return v;
}
Verdict check_a(const J& r) { L x = r.getl("x"); return by_type(r.geti("T"), [&](auto z) { return chk_norm<decltype(z)>(x); }); }

// ================================================================================================
// C16.b  AngDiff
template <class T> Verdict chk_diff(L xl, L yl) {
  Verdict v; T x = (T)xl, y = (T)yl; v.tag(Ty<T>::name());
  T e = T(7); T d = Math::AngDiff(x, y, e); T d1 = Math::AngDiff(x, y);
  if (std::isnan(x) || std::isnan(y)) { v.that(std::isnan(d), "AngDiff with a NaN argument is not NaN"); v.nontrivial = false; v.tag("nan"); return v; }
  if (std::isinf(x) || std::isinf(y)) { v.tag("inf"); v.nontrivial = false; return v; }
  v.that(same_bits(d, d1), "AngDiff(x,y) differs from AngDiff(x,y,e)");
  v.that(std::isfinite(d) && std::isfinite(e) && std::fabs(d) <= T(180), "AngDiff: d outside [-180,180]");
  if (v.failed()) return v;
  Q z = toQ(y) - toQ(x), qd = toQ(d), qe = toQ(e), de = qd + qe;
  v.that(ref::is_integer(Q((z - de) / 360)), "AngDiff: d + e is not exactly y - x modulo 360");
  v.that(ref::absQ(de) <= 180, "AngDiff: d + e outside [-180,180]");
  // d is the nearest representable number to z = d + e
  if (e > 0) v.that(qe * 2 <= toQ(step<T>(d, 1)) - qd, "AngDiff: d is not the nearest representable number to d + e");
  if (e < 0) v.that(-qe * 2 <= qd - toQ(step<T>(d, -1)), "AngDiff: d is not the nearest representable number to d + e");
  if (std::is_same<T, double>::value) v.that(std::fabs(e) <= std::ldexp(T(1), -26), "AngDiff: |e| > 2^-26");
  // sign at z = +-0, +-180 is that of y - x
  if (de == 0 || ref::absQ(de) == 180) {
    v.tag(de == 0 ? "z=0" : "z=180");
    bool neg = z != 0 ? z < 0 : std::signbit(T(y - x));
    v.that(std::signbit(d) == neg, "AngDiff: sign of d = +-0 / +-180 is not the sign of y - x");
  } else v.tag(e != 0 ? "e!=0" : "e=0");
  v.tag(magclass(std::max(fabsl((L)x), fabsl((L)y))));
  return v;
}
Verdict check_b(const J& r) { L x = r.getl("x"), y = r.getl("y"); return by_type(r.geti("T"), [&](auto z) { return chk_diff<decltype(z)>(x, y); }); }

template <class T> void gen_pair(L& x, L& y) {
  x = g_angle<T>();
  switch (g::wpick({30, 15, 15, 10, 5, 5, 20})) {
    case 0: y = g_angle<T>(); break;
    case 1: y = clampT<T>(x + g::sgn() * rnd_exp<L>((int)g::irange(-70, 3))); break;
    case 2: y = (L)step<T>((T)(x + g::sgn() * 180), (int)g::irange(-3, 3)); break;
    case 3: y = (L)step<T>((T)(x + 360.0L * (L)g::irange(-5, 5)), (int)g::irange(-2, 2)); break;
    case 4: y = x; break;
    case 5: y = -x; break;
    default: {   // two cardinal values +- ulps
      x = g::sgn() * (L)step<T>(T(15 * g::irange(0, 48)), (int)g::irange(-2, 2));
      y = g::sgn() * (L)step<T>(T(15 * g::irange(0, 48)), (int)g::irange(-2, 2));
    }
  }
  if (std::isnan(y) && !std::isnan(x) && g::coin(9, 10)) y = x;
}

// ================================================================================================
// C16.c  sind cosd tand sincosd vs the exact-reduction reference
template <class T> Verdict chk_trig(L xl) {
  typedef std::numeric_limits<T> NL;
  Verdict v; T x = (T)xl; v.tag(Ty<T>::name());
  T s, c; Math::sincosd(x, s, c);
  T s1 = Math::sind(x), c1 = Math::cosd(x), t1 = Math::tand(x);
  if (std::isnan(x)) {
    v.that(std::isnan(s) && std::isnan(c) && std::isnan(s1) && std::isnan(c1) && std::isnan(t1), "NaN argument does not give NaN");
    v.nontrivial = false; v.tag("nan"); return v;
  }
  if (std::isinf(x)) { v.tag("inf"); v.nontrivial = false; return v; }
  ref::TrigRef R = ref::trig_deg(toQ(x));
  v.tag(magclass(fabsl((L)x)));
  v.tag(R.special ? "mult30/45" : R.octant == 0 || R.octant == 4 ? "oct-sin" : R.octant == 2 ? "oct-negsin" : "oct-cos");
  L es = ulp_err<T>(s, R.s), ec = ulp_err<T>(c, R.c), es1 = ulp_err<T>(s1, R.s), ec1 = ulp_err<T>(c1, R.c);
  v.le(es, TOL_SINCOS, "sincosd: sin [ulp]");
  v.le(ec, TOL_SINCOS, "sincosd: cos [ulp]");
  v.le(es1, TOL_SINCOS, "sind [ulp]");
  v.le(ec1, TOL_SINCOS, "cosd [ulp]");
  if (R.czero) {
    v.tag("tan-pole");
    v.that(std::isfinite(t1) && std::fabs(t1) >= 1 / NL::epsilon(), "tand(odd multiple of 90) is not a large finite value");
  } else
    v.le(ulp_err<T>(t1, M(R.s / R.c)), TOL_TAND, "tand [ulp]");
  if (R.special) {   // 0, +-1/2, +-sqrt(1/2), +-sqrt(3)/2, +-1 correctly rounded
    v.that(es <= 0.5L && ec <= 0.5L, "sincosd not correctly rounded at a multiple of 30 or 45 degrees");
    v.that(es1 <= 0.5L, "sind not correctly rounded at a multiple of 30 or 45 degrees");
    v.that(ec1 <= 0.5L, "cosd not correctly rounded at a multiple of 30 or 45 degrees");
    if (ref::is_integer(Q(R.r / 45)) && !R.czero)
      v.that(ulp_err<T>(t1, M(R.s / R.c)) == 0, "tand(multiple of 45) is not exactly 0 or +-1");
  }
  // signed zeros (Math.hpp: sind, cosd, sincosd)
  if (R.szero) {
    v.that(s == 0 && std::signbit(s) == std::signbit(x), "sincosd: sin(k 180) is not a zero with the sign of x");
    v.that(s1 == 0 && std::signbit(s1) == std::signbit(x), "sind(k 180) is not a zero with the sign of x");
  }
  if (R.czero) v.that(c == 0 && c1 == 0, "cos(odd multiple of 90) is not 0");
  v.that(!(c == 0 && std::signbit(c)) && !(c1 == 0 && std::signbit(c1)), "cos returned -0");
  if (!R.szero) {   // -0 only for -0 / negative multiples of 180, apart from the underflow of a negative value
    if (s == 0 && std::signbit(s)) v.that(R.s < 0, "sincosd: sin is -0 for an argument that is not a multiple of 180");
    if (s1 == 0 && std::signbit(s1)) v.that(R.s < 0, "sind is -0 for an argument that is not a multiple of 180");
  }
  return v;
}
Verdict check_c(const J& r) { L x = r.getl("x"); return by_type(r.geti("T"), [&](auto z) { return chk_trig<decltype(z)>(x); }); }

// C16.c.sym  parity, periodicity and quarter-turn identities, bit-exact (no reference needed)
template <class T> Verdict chk_sym(L xl, long long m, bool refl) {
  Verdict v; T x = (T)xl; v.tag(Ty<T>::name());
  if (!std::isfinite(x)) { v.skip("non-finite argument"); return v; }
  T s, c; Math::sincosd(x, s, c);
  T s1 = Math::sind(x), c1 = Math::cosd(x), t1 = Math::tand(x);
  // odd / even
  T sn, cn; Math::sincosd(T(-x), sn, cn);
  v.that(same_bits(sn, T(-s)) && same_bits(cn, c), "sincosd(-x) is not (-sin x, cos x)");
  v.that(same_bits(Math::sind(T(-x)), T(-s1)), "sind(-x) != -sind(x)");
  v.that(same_bits(Math::cosd(T(-x)), c1), "cosd(-x) != cosd(x)");
  v.that(same_bits(Math::tand(T(-x)), T(-t1)), "tand(-x) != -tand(x)");
  // x2 = 90 m + x  or  90 m - x, only when exactly representable
  if (m > (1LL << 62) / 90 || m < -(1LL << 62) / 90) { v.skip("multiple out of range"); return v; }
  T x2 = (T)((L)(90 * m) + (refl ? -(L)x : (L)x));
  Q want = Q(90 * m) + (refl ? Q(-toQ(x)) : toQ(x));
  if (!std::isfinite(x2) || toQ(x2) != want) { v.skip("90 m +- x is not representable"); return v; }
  v.tag(refl ? "reflect" : (m % 4 == 0 ? "period" : "quarter-turn"));
  v.nontrivial = m != 0 || refl;
  // expected values from the values at x: angle = +-x + 90 m
  T bs = refl ? T(-s) : s, bc = c, bs1 = refl ? T(-s1) : s1, bc1 = c1;
  int q = (int)(((m % 4) + 4) % 4);
  T ws, wc, ws1, wc1;
  switch (q) {
    case 0: ws = bs; wc = bc; ws1 = bs1; wc1 = bc1; break;
    case 1: ws = bc; wc = -bs; ws1 = bc1; wc1 = -bs1; break;
    case 2: ws = -bs; wc = -bc; ws1 = -bs1; wc1 = -bc1; break;
    default: ws = -bc; wc = bs; ws1 = -bc1; wc1 = bs1; break;
  }
  T s2, c2; Math::sincosd(x2, s2, c2);
  // values must agree exactly; the sign of a zero follows its own documented rule (checked in C16.c)
  v.that(s2 == ws && c2 == wc, "sincosd(90 m +- x) is not the exact quarter-turn image of sincosd(x)");
  v.that(Math::sind(x2) == ws1, "sind(90 m +- x) differs from the value implied by sind/cosd(x)");
  v.that(Math::cosd(x2) == wc1, "cosd(90 m +- x) differs from the value implied by sind/cosd(x)");
  if (q % 2 == 0 && !(c == 0)) v.that(Math::tand(x2) == (refl ? T(-t1) : t1), "tand(180 k +- x) != +-tand(x)");
  return v;
}
Verdict check_csym(const J& r) {
  L x = r.getl("x"); long long m = r.geti("m"); bool refl = r.geti("refl") != 0;
  return by_type(r.geti("T"), [&](auto z) { return chk_sym<decltype(z)>(x, m, refl); });
}

// C16.c.de  sincosde(x, t) = sincos(x + t), x in [-180,180], t a small correction
template <class T> Verdict chk_de(L xl, L tl) {
  typedef std::numeric_limits<T> NL;
  namespace mp = boost::multiprecision;
  Verdict v; T x = (T)xl, t = (T)tl; v.tag(Ty<T>::name());
  if (!std::isfinite(x) || !std::isfinite(t) || !(std::fabs(x) <= T(180)) || !(std::fabs(t) <= T(1) / 64)) {
    v.skip("outside the documented domain (x in [-180,180], t small)"); return v;
  }
  T s, c; Math::sincosde(x, t, s, c);
  ref::TrigRef R = ref::trig_deg(Q(toQ(x) + toQ(t)));
  // The reduced angle d = (x - 90 q) + t is rounded to T and then coarsened by AngRound (documented):
  // angle error <= ulp(d)/2 + 2^-(digits+4) degrees; its effect on sin is |cos| times that, and vice versa.
  Q u = R.r; while (u > 45) u -= 90;                       // reduced angle in (-45,45]
  M ua = ref::QtoM(ref::absQ(u));
  M dang = ref::ulp_at<T>(ua) / 2 + mp::ldexp(M(1), -(NL::digits + 4));
  M drad = dang * ref::pi50() / 180;
  M es = mp::abs(toM(s) - R.s), ec = mp::abs(toM(c) - R.c);
  M ts = M(TOL_DE) * ref::ulp_at<T>(R.s) + drad * mp::abs(R.c);
  M tc = M(TOL_DE) * ref::ulp_at<T>(R.c) + drad * mp::abs(R.s);
  v.le(M(es / ts).template convert_to<L>(), 1, "sincosde: sin(x+t) [tolerance units]");
  v.le(M(ec / tc).template convert_to<L>(), 1, "sincosde: cos(x+t) [tolerance units]");
  v.that(std::fabs(s) <= 1 && std::fabs(c) <= 1, "sincosde: |sin| or |cos| > 1");
  v.tag(t == 0 ? "t=0" : ua < M(1) / 16 ? "coarsened" : "regular");
  v.nontrivial = t != 0;
  return v;
}
Verdict check_cde(const J& r) { L x = r.getl("x"), t = r.getl("t"); return by_type(r.geti("T"), [&](auto z) { return chk_de<decltype(z)>(x, t); }); }

template <class T> void gen_de(L& x, L& t) {
  switch (g::wpick({40, 40, 20})) {
    case 0: x = clampT<T>((L)g::uni(-180, 180) + ldexpl((L)g::u01(), -46)); break;
    case 1: x = g::sgn() * (L)step<T>(T(15 * g::irange(0, 12)), (int)g::irange(-3, 3)); if (fabsl(x) > 180) x = copysignl(180, x); break;
    default: x = g::sgn() * rnd_exp<T>((int)g::irange(-80, -3));
  }
  switch (g::wpick({10, 60, 30})) {
    case 0: t = 0; break;
    case 1: t = g::sgn() * rnd_exp<T>((int)g::irange(-90, -7)); break;
    default: t = g::sgn() * (L)std::numeric_limits<T>::epsilon() * (L)fabsl(x) * (L)g::uni(0, 1); t = (L)(T)t;   // like the error term of AngDiff
  }
}

// ================================================================================================
// C16.d  atan2d, atand
template <class T> Verdict chk_atan2(L yl, L xl) {
  typedef std::numeric_limits<T> NL;
  Verdict v; T y = (T)yl, x = (T)xl; v.tag(Ty<T>::name());
  T a = Math::atan2d(y, x);
  if (std::isnan(x) || std::isnan(y)) { v.that(std::isnan(a), "atan2d with a NaN argument is not NaN"); v.nontrivial = false; v.tag("nan"); return v; }
  v.that(std::isfinite(a) && std::fabs(a) <= T(180), "atan2d outside [-180,180]");
  v.that(std::signbit(a) == std::signbit(y), "atan2d(y,x) does not have the sign of y");
  if (v.failed()) return v;
  bool negx = std::signbit(x);
  T sy = std::signbit(y) ? T(-1) : T(1);
  if (y == 0) {   // on the x axis (C atan2 rules, Math.hpp: atan2d(+-0,-1) = +-180)
    v.tag("axis-x");
    v.that(same_bits(a, T(sy * (negx ? T(180) : T(0)))), "atan2d(+-0, x) is not +-0 (x >= 0) / +-180 (x <= -0)");
  } else if (std::isinf(y) && std::isinf(x)) {
    v.tag("inf-inf");
    v.le(ulp_err<T>(a, M(sy * (negx ? 135 : 45))), TOL_ATAN, "atan2d(+-inf, +-inf) vs +-45 / +-135 [ulp]");
  } else if (x == 0 || std::isinf(y)) {
    v.tag("axis-y");
    v.that(same_bits(a, T(sy * 90)), "atan2d(y, +-0) or atan2d(+-inf, x) is not +-90");
  } else if (std::isinf(x)) {
    v.tag("axis-x");
    v.that(same_bits(a, T(sy * (negx ? T(180) : T(0)))), "atan2d(y, +-inf) is not +-0 / +-180");
  } else {
    M rf = ref::atan2_deg(toM(y), toM(x));
    L err = ulp_err<T>(a, rf);
    // atan2 (radians) is formed first: when it is subnormal its rounding error (1/2 denorm_min) is
    // multiplied by 180/pi = 57.3, i.e. up to 29 subnormal spacings of the result
    L slack = boost::multiprecision::abs(rf) < M(64) * M(NL::min()) ? 32 : 0;
    v.le(err, TOL_ATAN + slack, slack > 0 ? "atan2d vs 50-digit atan2, result near the subnormal range [ulp]" : "atan2d vs 50-digit atan2 [ulp]");
    L r = fabsl((L)y) / fabsl((L)x);
    v.tag(slack > 0 ? "underflow" : std::fabs(y) == std::fabs(x) ? "diagonal" : negx ? (r > 1 ? "oct-2/3" : "oct-1") : (r > 1 ? "oct-2/3" : "oct-0"));
  }
  if (x == 1) {   // atand(y) = atan(y) in degrees
    T b = Math::atand(y);
    v.tag("atand");
    if (y == 0) v.that(same_bits(b, y), "atand(+-0) is not +-0");
    else if (std::isinf(y)) v.that(same_bits(b, T(sy * 90)), "atand(+-inf) is not +-90");
    else {
      M rf = ref::atan2_deg(toM(y), M(1));
      L slack = boost::multiprecision::abs(rf) < M(64) * M(NL::min()) ? 32 : 0;
      v.le(ulp_err<T>(b, rf), TOL_ATAN + slack, "atand vs 50-digit atan [ulp]");
      v.that(std::signbit(b) == std::signbit(y) && std::fabs(b) <= T(90), "atand: sign or range");
    }
  }
  return v;
}
Verdict check_d(const J& r) { L x = r.getl("x"), y = r.getl("y"); return by_type(r.geti("T"), [&](auto z) { return chk_atan2<decltype(z)>(y, x); }); }

template <class T> L g_real() {   // any real of T, log-uniform over the whole exponent range
  typedef std::numeric_limits<T> NL;
  switch (g::wpick({40, 35, 10, 15})) {
    case 0: return g::sgn() * rnd_exp<T>((int)g::irange(exp_denorm<T>(), exp_max<T>()));
    case 1: return g::sgn() * rnd_exp<T>((int)g::irange(-12, 12));
    case 2: return g::oneof<L>({0.0L, -0.0L, (L)NL::infinity(), -(L)NL::infinity(), 1.0L, -1.0L, (L)NL::max(), (L)NL::denorm_min(), (L)NL::min(), (L)NL::quiet_NaN()});
    default: return (L)g::sgn() * (L)g::irange(0, 4);
  }
}
template <class T> void gen_atan(L& y, L& x) {
  switch (g::wpick({35, 20, 15, 15, 15})) {
    case 0: y = g_real<T>(); x = g_real<T>(); break;
    case 1: {   // near a diagonal: |y| = |x| +- ulps
      x = g::sgn() * rnd_exp<T>((int)g::irange(-30, 30));
      y = g::sgn() * (L)step<T>((T)fabsl(x), (int)g::irange(-3, 3)); break;
    }
    case 2: {   // near an axis: ratio tiny
      x = g::sgn() * rnd_exp<T>((int)g::irange(-20, 20));
      y = g::sgn() * clampT<T>(fabsl(x) * ldexpl(1 + (L)g::u01(), -(int)g::irange(1, 120)));
      if (g::coin()) std::swap(x, y); break;
    }
    case 3: y = g_real<T>(); x = 1; break;   // atand
    default: {  // generic direction, moderate magnitudes
      L a = (L)g::uni(-M_PI, M_PI), s = rnd_exp<T>((int)g::irange(-40, 40));
      y = clampT<T>(s * sinl(a)); x = clampT<T>(s * cosl(a));
    }
  }
}

// ================================================================================================
// C16.e  LatFix, AngRound
template <class T> Verdict chk_round(L xl, L x2l) {
  typedef std::numeric_limits<T> NL;
  Verdict v; T x = (T)xl, x2 = (T)x2l; v.tag(Ty<T>::name());
  T lf = Math::LatFix(x);
  if (std::fabs(x) <= T(90)) v.that(same_bits(lf, x), "LatFix(x) != x for |x| <= 90");
  else v.that(std::isnan(lf), "LatFix(x) is not NaN for |x| > 90 or NaN");
  T r = Math::AngRound(x);
  if (std::isnan(x)) { v.that(std::isnan(r), "AngRound(NaN) is not NaN"); v.nontrivial = false; v.tag("nan"); return v; }
  v.that(std::signbit(r) == std::signbit(x), "AngRound does not keep the sign (incl. -0)");
  if (std::fabs(x) >= T(1) / 16) {
    v.tag(std::fabs(x) <= T(90) ? "identity" : "identity>90");
    v.that(same_bits(r, x), "AngRound(x) != x for |x| >= 1/16");
  } else {
    // nearest multiple of the gap 1/16 - nextafter(1/16,0) = 2^-(digits+4)  (2^-57 for double)
    L sc = ldexpl(1, NL::digits + 4), q = fabsl((L)x) * sc, rq = fabsl((L)r) * sc;
    v.tag(q < 0.5L ? "to-zero" : q < 4 ? "few-gaps" : "coarsened");
    v.that(rq == floorl(rq), "AngRound(x), |x| < 1/16, is not a multiple of 2^-(digits+4)");
    v.that(fabsl(rq - q) <= 0.5L, "AngRound(x) is not the multiple of 2^-(digits+4) nearest to x");
  }
  if (!std::isnan(x2)) {
    T r2 = Math::AngRound(x2);
    if (x <= x2) v.that(r <= r2, "AngRound is not monotone"); else v.that(r2 <= r, "AngRound is not monotone");
  }
  return v;
}
Verdict check_e(const J& r) { L x = r.getl("x"), x2 = r.getl("x2"); return by_type(r.geti("T"), [&](auto z) { return chk_round<decltype(z)>(x, x2); }); }

template <class T> void gen_round(L& x, L& x2) {
  typedef std::numeric_limits<T> NL;
  switch (g::wpick({20, 25, 20, 15, 10, 10})) {
    case 0: x = g_angle<T>(); break;
    case 1: x = g::sgn() * rnd_exp<T>((int)g::irange(-NL::digits - 12, -4)); break;            // around the gap ... 1/16
    case 2: {   // multiples of half a gap +- ulps (ties of the rounding)
      L gap = ldexpl(1, -(NL::digits + 4));
      x = g::sgn() * (L)step<T>((T)(gap / 2 * (L)g::irange(0, 64)), (int)g::irange(-2, 2)); break;
    }
    case 3: x = g::sgn() * (L)step<T>((T)ldexpl(1, -(int)g::irange(3, 8)), (int)g::irange(-4, 4)); break;   // 1/8 .. 1/256 +- ulps
    case 4: x = g::sgn() * (L)step<T>(T(90), (int)g::irange(-3, 3)); break;
    default: x = g::sgn() * rnd_exp<T>((int)g::irange(exp_denorm<T>(), -NL::digits - 4));
  }
  x2 = g::coin(1, 3) ? (L)step<T>((T)x, (int)g::irange(-4, 4)) : g::coin() ? clampT<T>(x * (1 + (L)g::uni(-1e-3, 1e-3))) : g_angle<T>();
}

// ================================================================================================
// C16.f  eatanhe, taupf, tauf
template <class T> Verdict chk_tau(L taul, L esl) {
  typedef std::numeric_limits<T> NL;
  namespace mp = boost::multiprecision;
  Verdict v; T tau = (T)taul, es = (T)esl; v.tag(Ty<T>::name());
  if (!std::isfinite(es) || !(es < 1) || !(es > -1000)) { v.skip("eccentricity outside (-1000, 1)"); return v; }
  if (std::isnan(tau)) {
    v.that(std::isnan(Math::taupf(tau, es)) && std::isnan(Math::tauf(tau, es)), "taupf/tauf(NaN) is not NaN");
    v.nontrivial = false; v.tag("nan"); return v;
  }
  if (std::isinf(tau)) {
    v.nontrivial = false; v.tag("inf");
    v.that(same_bits(Math::taupf(tau, es), tau), "taupf(+-inf) is not +-inf");
    if (!same_bits(Math::tauf(tau, es), tau)) {
      // findings/C16-tauf-noconv.md: float, es <= -67: exp(eatanhe(1,es)) underflows to 0 and inf*0 = NaN
      if (es < T(-3) && !v.failed() && vf::known_on("C16-tauf-noconv")) { v.known("C16-tauf-noconv", "tauf(+-inf) is NaN for extreme prolate es"); return v; }
      v.that(false, "tauf(+-inf) is not +-inf");
    }
    return v;
  }
  M mes = toM(es), e2m = 1 - mes * mes;
  // conditioning: e2m small (es -> 1) makes tau' = e2m tau (1 + ...) a cancelling difference and makes
  // the result ill-conditioned in es itself (d ln tau'/d ln es = 2 es^2/e2m); for es < 0 the exponent
  // |es| atan|es| enters through sinh, amplifying its rounding error by its own magnitude
  M etamax = mp::abs(ref::eatanhe_ref(M(1) - M(NL::epsilon()), mes));
  L cond = M(1 + (es > 0 ? M(1 / e2m) : M(0)) + etamax).template convert_to<L>();
  // taupf forms products of size |tau| cosh(eta): keep them below the largest number
  if (mp::abs(toM(tau)) * (2 + mp::exp(etamax)) > toM(NL::max()) / 2) { v.skip("|tau| cosh(e atanh e) near the overflow threshold"); return v; }
  v.tag(es == 0 ? "es=0" : es > 0 ? (es < T(0.2) ? "oblate-small" : es < T(0.9) ? "oblate" : "oblate-extreme")
                                  : (es > T(-0.2) ? "prolate-small" : es > T(-2) ? "prolate" : "prolate-extreme"));
  L at = fabsl((L)tau);
  v.tag(at == 0 ? "tau=0" : at < 1e-8L ? "tau-tiny" : at < 70 ? "tau-mid" : at < 1e9L ? "tau-large" : "tau-huge");
  // eatanhe at x = sin(phi)
  T x = tau / std::hypot(T(1), tau);
  {
    T ea = Math::eatanhe(x, es);
    M rf = ref::eatanhe_ref(toM(x), mes);
    // rounding of the product es*x is amplified by 1/(1 - (es x)^2) in atanh
    M exx = mes * toM(x);
    L amp = es > 0 ? M(mp::abs(exx) / ((1 - exx * exx) * std::max(M(mp::abs(ref::atanh50(exx))), M(NL::min())))).template convert_to<L>() : 0;
    v.le(ulp_err<T>(ea, rf), TOL_EATANHE * (1 + amp), "eatanhe vs 50-digit e atanh(e x) [ulp]");
  }
  // taupf vs closed form
  T tp = Math::taupf(tau, es);
  M rtp = ref::taupf_ref(toM(tau), mes);
  if (mp::abs(rtp) > toM(NL::max())) { v.tag("taupf-overflow"); v.nontrivial = false; return v; }   // tau' > max (es < 0, tau near max)
  v.le(ulp_err<T>(tp, rtp), TOL_TAUPF * cond, "taupf vs 50-digit closed form [ulp x conditioning]");
  v.that(tau == 0 ? tp == 0 : std::signbit(tp) == std::signbit(tau), "taupf: tan(chi) does not have the sign of tan(phi)");
  // round trip and tauf on its own.  For tauf the same number is treated as tau' and the backward
  // error through the reference map is converted to ulps of the result with a numerical derivative
  // of the reference.
  T tb = Math::tauf(tp, es);
  L rt = ulp_err<T>(tb, toM(tau)), bk = 0; bool bkdef = false, bkbad = false;
  T t = Math::tauf(tau, es);
  if (std::isfinite(t) && t != 0) {
    M mt = toM(t), h = mt * M("1e-16");
    M f0 = ref::taupf_ref(mt, mes), f1 = ref::taupf_ref(M(mt + h), mes);
    M der = (f1 - f0) / h;
    M errt = mp::abs(f0 - toM(tau)) / (mp::abs(der) * ref::ulp_at<T>(mt));
    bk = errt > M(1e30L) ? 1e30L : errt.template convert_to<L>(); bkdef = true;
  } else
    bkbad = !(tau == 0 ? t == 0 : (std::isinf(t) && at > 1));   // (the sign of tauf(+-0) is not documented)
  bool tauf_bad = !(rt <= TOL_TAU_RT * cond) || (bkdef && !(bk <= TOL_TAUF * cond)) || bkbad;
  if (tauf_bad && !v.failed()) {
    // (findings/C16-tauf-prolate.md, tauf used 1 - es^2 for es < 0, was repaired in /repo 433cb7a: no guard;
    //  the reverse patch seeded/fix-reverts/F21-433cb7a.diff must make this sub-check fail)
    // findings/C16-tauf-noconv.md: 5 Newton steps do not converge for es close to 1 (float > 0.99, double > 0.999)
    // nor for es < -3 (b/a > 3.2), and the failure is silent
    if ((es > T(0.99) || es < T(-3)) && vf::known_on("C16-tauf-noconv")) { v.known("C16-tauf-noconv", "tauf does not converge within 5 iterations for es > 0.99 or es < -3"); return v; }
  }
  v.le(rt, TOL_TAU_RT * cond, es < 0 ? "tauf(taupf(tau)) vs tau, es < 0 [ulp x conditioning]" : es > T(0.99) ? "tauf(taupf(tau)) vs tau, es > 0.99 [ulp x conditioning]" : "tauf(taupf(tau)) vs tau, 0 <= es <= 0.99 [ulp x conditioning]");
  if (bkdef) v.le(bk, TOL_TAUF * cond, es < 0 ? "tauf: taupf_ref(tauf(tau')) vs tau', es < 0 [ulp of tau x conditioning]" : es > T(0.99) ? "tauf: taupf_ref(tauf(tau')) vs tau', es > 0.99 [ulp of tau x conditioning]" : "tauf: taupf_ref(tauf(tau')) vs tau', 0 <= es <= 0.99 [ulp of tau x conditioning]");
  v.that(!bkbad, "tauf: zero/non-finite result for a finite non-zero argument");
  return v;
}
Verdict check_f(const J& r) { L tau = r.getl("tau"), es = r.getl("es"); return by_type(r.geti("T"), [&](auto z) { return chk_tau<decltype(z)>(tau, es); }); }

template <class T> void gen_tau(L& tau, L& es) {
  typedef std::numeric_limits<T> NL;
  switch (g::wpick({25, 25, 15, 10, 10, 15})) {
    case 0: tau = g::sgn() * rnd_exp<T>((int)g::irange(-12, 12)); break;
    case 1: tau = clampT<T>(tanl((L)g::uni(-M_PI / 2, M_PI / 2))); break;
    case 2: tau = g::sgn() * rnd_exp<T>((int)g::irange(exp_denorm<T>() / 2, exp_max<T>() / 2 - 2)); break;
    case 3: tau = g::sgn() * clampT<T>(70 + (L)g::uni(-1, 1)); break;                       // start-guess switch of tauf
    case 4: tau = g::sgn() * clampT<T>(2 / sqrtl((L)NL::epsilon()) * (L)g::uni(0.5, 2)); break;   // taumax of tauf
    default: tau = g::oneof<L>({0.0L, -0.0L, 1.0L, -1.0L, (L)NL::infinity(), -(L)NL::infinity(), (L)NL::quiet_NaN(), (L)NL::max() / 8, (L)NL::min()});
  }
  switch (g::wpick({25, 25, 15, 15, 10, 10})) {
    case 0: es = 0.08181919084262149L; break;                                               // WGS84
    case 1: { L f = (L)g::sgn() * (L)g::loguni(1e-12, 0.2), e2 = f * (2 - f); es = copysignl(sqrtl(fabsl(e2)), e2); break; }
    case 2: { L ba = (L)g::loguni(0.01, 1); es = sqrtl(1 - ba * ba); break; }               // b/a down to 0.01
    case 3: { L ba = (L)g::loguni(1, 100); es = -sqrtl(ba * ba - 1); break; }               // prolate up to b/a = 100
    case 4: es = (L)g::uni(-1, 1); break;
    default: es = g::oneof<L>({0.0L, 0.5L, -0.5L, 0.99L, -3.0L, 0.9999L});
  }
  es = (L)(T)es; if (!(es < 1)) es = (L)step<T>(T(1), -1);
}

// ================================================================================================
// C16.g  Math::sum
template <class T> Verdict chk_sum(L ul, L vl) {
  Verdict v; T a = (T)ul, b = (T)vl; v.tag(Ty<T>::name());
  if (!std::isfinite(a) || !std::isfinite(b)) { v.skip("non-finite summand"); return v; }
  Q ex = toQ(a) + toQ(b);
  if (ref::absQ(ex) > toQ(std::numeric_limits<T>::max())) { v.skip("u + v overflows"); return v; }
  T t = T(7); T s = Math::sum(a, b, t);
  volatile T hw = a; hw = hw + b;          // the machine's rounded sum
  v.that(std::isfinite(s) && std::isfinite(t), "sum: non-finite result without overflow");
  if (v.failed()) return v;
  v.that(s == T(hw), "sum: s is not the rounded sum u + v");
  v.that(toQ(s) + toQ(t) == ex, "sum: s + t is not exactly u + v");
  // t may alias an argument (documented)
  T u2 = a; T s2 = Math::sum(u2, b, u2);
  v.that(same_bits(s2, s) && same_bits(u2, t), "sum: aliasing t with u changes the result");
  v.tag(t == 0 ? "exact" : "inexact");
  if (ex == 0) v.tag("cancel-to-0");
  else if (a != 0 && b != 0 && std::fabs(s) < std::fabs(a) / 1024) v.tag("cancelling");
  v.nontrivial = a != 0 && b != 0;
  return v;
}
Verdict check_g(const J& r) { L u = r.getl("u"), w = r.getl("v"); return by_type(r.geti("T"), [&](auto z) { return chk_sum<decltype(z)>(u, w); }); }

template <class T> void gen_sum(L& u, L& w) {
  typedef std::numeric_limits<T> NL;
  int e = (int)g::irange(exp_denorm<T>(), exp_max<T>() - 1);
  u = g::sgn() * rnd_exp<T>(e);
  switch (g::wpick({25, 25, 20, 10, 10, 10})) {
    case 0: w = g::sgn() * rnd_exp<T>((int)g::irange(exp_denorm<T>(), exp_max<T>() - 1)); break;
    case 1: w = g::sgn() * rnd_exp<T>(std::max(exp_denorm<T>(), std::min(exp_max<T>() - 1, e + (int)g::irange(-NL::digits - 3, NL::digits + 3)))); break;   // overlapping bits
    case 2: w = -(L)step<T>((T)u, (int)g::irange(-8, 8)); break;                                // near cancellation
    case 3: w = -u * (1 + ldexpl((L)g::uni(-1, 1), -(int)g::irange(1, NL::digits))); w = clampT<T>(w); break;
    case 4: {   // half-ulp ties
      w = g::sgn() * ldexpl(1, std::max(exp_denorm<T>(), e - NL::digits)) * (L)g::irange(0, 3); w = clampT<T>(w); break;
    }
    default: w = g::oneof<L>({0.0L, -0.0L, 1.0L, (L)NL::denorm_min(), (L)NL::min(), (L)NL::epsilon()});
  }
  if (g::coin()) std::swap(u, w);
}

// ================================================================================================
// C16.h  Accumulator: operation sequences against the exact rational value
// record: {"T":ty, "init":v, "ops":[{"op":"add|sub|neg|muli|mulr|rem|sumq|set|cmp", "v":value | "n":int}, ...]}
template <class T> Verdict chk_acc(const J& rec) {
  typedef std::numeric_limits<T> NL;
  namespace mp = boost::multiprecision;
  Verdict v; v.tag(Ty<T>::name());
  if (!rec.has("ops") || rec.at("ops").t != J::ARR) { v.skip("malformed record"); return v; }
  const std::vector<J>& ops = rec.at("ops").a;
  // modelled range: no overflow and no underflow of the error terms
  const int E = std::is_same<T, float>::value ? 40 : 300, EP = std::is_same<T, float>::value ? 20 : 100;
  const L vmax = ldexpl(1, E), vmin = ldexpl(1, -E);
  auto in_range = [&](T y) { return std::isfinite(y) && (y == 0 || (fabsl((L)y) <= vmax && fabsl((L)y) >= vmin)); };
  T init = (T)rec.getl("init");
  if (!in_range(init)) { v.skip("value outside the modelled magnitude range"); return v; }
  const M eps1 = toM(NL::epsilon()), eps2 = eps1 * eps1;          // epsilon, epsilon^2
  const M uf = toM(NL::denorm_min()) * 16;
  const M Smaxm = mp::ldexp(M(1), 2 * E + 2 * EP);

  Accumulator<T> a(init);
  Q V = toQ(init); M S = mp::abs(toM(init));   // exact value; sum of magnitudes (for the tolerance only)
  L P = 1;                       // product of the real multipliers since the last assignment
  int nmul = 0;                  // number of real multiplications: each adds a rounding error of the product to the low word
  int nops = 0, cancels = 0, nmut = 0;
  auto tolM = [&]() { return M(M(ACC_C * (nops + 2)) * eps2 * S + uf * (nops + 2)); };
  // value held = leading part + what is left after removing it, three times (each removal is an
  // Add of the exact negative; after *= the two words are not normalised, so one step is not enough)
  auto observe = [&](T& hi) -> Q {
    hi = a(); Accumulator<T> b(a); Q val = toQ(hi); T h = hi;
    for (int i = 0; i < 3 && h != 0; ++i) { b += T(-h); h = b(); val += toQ(h); }
    return val;
  };
  auto check_value = [&](const char* what) {
    T hi; Q val = observe(hi);
    M tq = tolM();
    L ratio = M(mp::abs(ref::QtoM(Q(val - V))) / tq).template convert_to<L>();
    v.le(ratio, 1, what);
    // The reported value is the leading word only.  The two words are not renormalised after a
    // cancellation (Accumulator.hpp, comment in Add), so the leading word is only as good as a
    // working-precision sum: |low word| <= sum of the rounding errors <= eps/2 sum|terms|; bound used:
    // 1 ulp + 2 epsilon sum|terms|.  (Not more is documented.)
    M mv = ref::QtoM(V);
    M bound = ref::ulp_at<T>(mv) + 2 * eps1 * S + tq;
    v.le(M(mp::abs(toM(hi) - mv) / bound).template convert_to<L>(), 1, "Accumulator(): leading word vs exact sum [1 ulp + 2 eps sum|terms|]");
  };
  for (const J& op : ops) {
    if (op.t != J::OBJ || !op.has("op")) { v.skip("malformed op"); return v; }
    const std::string& o = op.gets("op");
    T y = op.has("v") ? (T)op.getl("v") : T(0);
    if (!in_range(y)) { v.skip("value outside the modelled magnitude range"); return v; }
    ++nops;
    bool mut = true;
    if (o == "add" || o == "sub") {
      Q Vold = V, qy = toQ(y);
      if (o == "add") { a += y; V += qy; } else { a -= y; V -= qy; }
      S += mp::abs(toM(y));
      Q big = std::max(ref::absQ(Vold), ref::absQ(qy));
      if (big != 0 && ref::absQ(V) * Q(Z(1) << 40) < big) ++cancels;
    } else if (o == "neg") {
      a *= -1; V = -V;
    } else if (o == "muli") {
      long long n = op.geti("n"), an = n < 0 ? -n : n;
      if (an > 16 || (an & (an - 1)) != 0) { v.skip("operator*=(int) is documented for +-powers of two only"); return v; }
      a *= (int)n; V *= Q(n); S *= M(an);
    } else if (o == "mulr") {
      if (y == 0) { v.skip("multiplier 0 not modelled"); return v; }
      a *= y; V *= toQ(y); S *= mp::abs(toM(y)); P *= fabsl((L)y); ++nmul;
      if (!(P <= ldexpl(1, EP) && P >= ldexpl(1, -EP))) { v.skip("product of multipliers outside the modelled range"); return v; }
    } else if (o == "rem") {
      if (y == 0) { v.skip("modulus 0"); return v; }
      Q qy = toQ(y), Vb = V;
      a.remainder(y);
      T hi; Q val = observe(hi);
      // which representative the library took is its choice: remove the nearest integer multiple of y
      Q kq = (V - val) / qy;
      Z k = ref::floorQ(Q(kq + Q(1, 2)));
      V = V - Q(k) * qy;
      // documented range [-y/2, y/2]; the reduction acts on the leading word only and the words are
      // not renormalised after a cancellation, so the low word (at most epsilon sum|terms|) can carry
      // the value beyond the boundary by that much (e.g. 8e27 - 200 - 8e27(1+eps), remainder 360)
      (void)Vb;
      // (each real multiplication leaves up to eps |product| in the low word as well: seed 2 found a sequence of four
      //  multiplications of 9e21 followed by remainder(360) whose low word was 1.3 x eps sum|terms|)
      M lim = mp::abs(toM(y)) * (M(1) / 2 + eps1) + S * eps1 * (1 + nmul) + tolM();
      v.that(mp::abs(toM(hi)) <= lim, "Accumulator::remainder(y): result outside [-y/2, y/2] (+ low word)");
      v.tag("rem");
    } else if (o == "set") {
      a = y; V = toQ(y); S = mp::abs(toM(y)); P = 1;
    } else if (o == "sumq") {
      mut = false;
      T h0 = a(); T r = a(y); T h1 = a();
      v.that(same_bits(h0, h1), "Accumulator::operator()(y) changed the accumulator");
      M ex = ref::QtoM(Q(V + toQ(y)));
      M Sq = S + mp::abs(toM(y));                                // tolerance for this query only
      M bound = ref::ulp_at<T>(ex) + 2 * eps1 * Sq + M(ACC_C * (nops + 2)) * eps2 * Sq + uf * (nops + 2);
      v.le(M(mp::abs(toM(r) - ex) / bound).template convert_to<L>(), 1, "Accumulator(y): sum + y [1 ulp + 2 eps sum|terms|]");
    } else if (o == "cmp") {
      mut = false;
      T hi = a();
      v.that((a == y) == (hi == y) && (a != y) == (hi != y) && (a < y) == (hi < y) && (a <= y) == (hi <= y) &&
             (a > y) == (hi > y) && (a >= y) == (hi >= y), "Accumulator comparison operators disagree with operator()()");
      // and with the exact value whenever that is clearly (2 ulp + 4 eps sum|terms|) different from y
      M mv = ref::QtoM(V), my = toM(y);
      if (mp::abs(mv - my) > 2 * ref::ulp_at<T>(my) + 2 * ref::ulp_at<T>(mv) + 4 * eps1 * S + tolM()) {
        bool lt = mv < my;
        v.that((a < y) == lt && (a <= y) == lt && (a > y) == !lt && (a >= y) == !lt && !(a == y) && (a != y),
               "Accumulator comparison operators disagree with the exact sum");
      }
    } else { v.skip("unknown op"); return v; }
    if (S > Smaxm) { v.skip("sum of magnitudes outside the modelled range"); return v; }
    if (mut) { ++nmut; check_value("Accumulator value (high + low word) vs exact rational sum [(n+2) C eps^2 sum|terms|]"); }
    if (v.failed()) return v;
  }
  if (nmut == 0) check_value("Accumulator value (high + low word) vs exact rational sum [(n+2) C eps^2 sum|terms|]");
  v.nontrivial = cancels >= 1;
  v.tag(cancels >= 1 ? "cancellation>40bit" : "no-cancellation");
  v.tag(ops.size() <= 4 ? "len<=4" : ops.size() <= 16 ? "len<=16" : "len>16");
  return v;
}
Verdict check_h(const J& r) { return by_type(r.geti("T"), [&](auto z) { return chk_acc<decltype(z)>(r); }); }

template <class T> J gen_acc(int ty) {
  const int E = std::is_same<T, float>::value ? 36 : 280;
  J r = J::obj(); r["T"] = J::integer(ty);
  std::vector<L> hist;
  L run = 0;
  auto val = [&]() -> L {
    L x;
    switch (g::wpick({25, 15, 20, 15, 15, 10})) {
      case 0: x = g::sgn() * rnd_exp<T>((int)g::irange(-E, E)); break;             // wildly different exponents
      case 1: x = g::sgn() * rnd_exp<T>((int)g::irange(-4, 10)); break;
      case 2: x = -(L)(T)run; break;                                                // cancel the running sum
      case 3: x = -(L)step<T>((T)run, (int)g::irange(-4, 4)); break;
      case 4: x = hist.empty() ? 1.0L : -hist[(size_t)g::irange(0, (long long)hist.size() - 1)]; break;
      default: x = (L)g::sgn() * (L)g::irange(0, 8);
    }
    if (x != 0 && !(fabsl(x) <= ldexpl(1, E) && fabsl(x) >= ldexpl(1, -E))) x = 1;
    hist.push_back(x);
    return x;
  };
  L init = g::coin(1, 3) ? 0.0L : val();
  r["init"] = J::numl(init); run = init;
  int n = (int)g::sized(1, 40);
  if (g::coin(1, 4)) n = (int)g::irange(1, 6);
  J ops = J::arr();
  for (int i = 0; i < n; ++i) {
    J op = J::obj();
    switch (g::wpick({40, 15, 4, 4, 5, 5, 10, 3, 14})) {
      case 0: { L y = val(); op["op"] = J::str("add"); op["v"] = J::numl(y); run += y; break; }
      case 1: { L y = -val(); op["op"] = J::str("sub"); op["v"] = J::numl(y); run -= y; break; }
      case 2: op["op"] = J::str("neg"); run = -run; break;
      case 3: { long long k = g::oneof<long long>({-1, 2, -2, 4, -4, 8, 1, 0}); op["op"] = J::str("muli"); op["n"] = J::integer(k); run *= (L)k; break; }
      case 4: { L y = g::coin(1, 4) ? (L)g::oneof<L>({1.5L, 3.0L, 0.75L, -0.1L, 10.0L}) : g::sgn() * rnd_exp<T>((int)g::irange(-6, 6)); y = (L)(T)y;
                op["op"] = J::str("mulr"); op["v"] = J::numl(y); run *= y; break; }
      case 5: { L y = g::coin() ? 360.0L : g::sgn() * rnd_exp<T>((int)g::irange(-3, 12)); op["op"] = J::str("rem"); op["v"] = J::numl(y); run = remainderl(run, y); break; }
      case 6: { L y = val(); hist.pop_back(); op["op"] = J::str("sumq"); op["v"] = J::numl(y); break; }
      case 7: { L y = val(); op["op"] = J::str("set"); op["v"] = J::numl(y); run = y; break; }
      default: { L y = g::coin() ? (L)(T)run : g::coin() ? (L)step<T>((T)run, (int)g::irange(-2, 2)) : val(); if (!hist.empty() && g::coin(1, 8)) hist.pop_back();
                 if (y != 0 && !(fabsl(y) <= ldexpl(1, E) && fabsl(y) >= ldexpl(1, -E))) y = 0;
                 op["op"] = J::str("cmp"); op["v"] = J::numl(y); }
    }
    ops.push(op);
  }
  r["ops"] = ops;
  return r;
}

// ================================================================================================
// C16.f32  every 32-bit float through the one-argument functions (long double reference)
const L DEG_L = 0.0174532925199432957692369076848861271344L;   // pi/180
const L RAD_L = 57.295779513082320876798154814105170332405L;    // 180/pi

inline L ulpf_err(float got, L rf) {
  if (!std::isfinite(got)) return 1e30L;
  int e = rf == 0 ? -126 : std::max(ilogbl(rf), -126);
  return fabsl((L)got - rf) / ldexpl(1, e - 23);
}
struct LdTrig { L s, c; bool szero, czero, special; };
// exact reduction of a float in long double: fmodl is exact, and for r > 45 the float r has its last
// bit >= 2^-18, so r - 90 k is exact in the 64-bit significand
inline LdTrig ld_trig(float xf) {
  LdTrig R; L r = fmodl(fabsl((L)xf), 360.0L), u, s, c; int oct;
  if (r <= 45) { oct = 0; u = r; } else if (r <= 135) { oct = 1; u = r - 90; } else if (r <= 225) { oct = 2; u = r - 180; }
  else if (r <= 315) { oct = 3; u = r - 270; } else { oct = 0; u = r - 360; }
  L au = fabsl(u);
  R.special = true;
  if (au == 0) { s = 0; c = 1; }
  else if (au == 30) { s = 0.5L; c = sqrtl(3.0L) / 2; }
  else if (au == 45) { s = c = sqrtl(0.5L); }
  else { R.special = false; L ur = au * DEG_L; s = sinl(ur); c = cosl(ur); }
  if (u < 0) s = -s;
  switch (oct) {
    case 0: R.s = s; R.c = c; break;
    case 1: R.s = c; R.c = -s; break;
    case 2: R.s = -s; R.c = -c; break;
    default: R.s = -c; R.c = s; break;
  }
  R.szero = r == 0 || r == 180; R.czero = r == 90 || r == 270;
  if (R.szero) R.s = 0;
  if (R.czero) R.c = 0;
  if (xf < 0) R.s = -R.s;   // odd / even
  return R;
}
inline float bits2f(uint32_t b) { float f; std::memcpy(&f, &b, 4); return f; }
inline uint32_t f2bits(float f) { uint32_t b; std::memcpy(&b, &f, 4); return b; }

Verdict check_f32(const J& rec) {
  Verdict v;
  long long bl = rec.geti("b");
  if (bl < 0 || bl > 0xffffffffLL) { v.skip("not a 32-bit pattern"); return v; }
  float x = bits2f((uint32_t)bl);
  float nrm = Math::AngNormalize(x), rnd = Math::AngRound(x), lf = Math::LatFix(x);
  float s, c; Math::sincosd(x, s, c);
  float s1 = Math::sind(x), c1 = Math::cosd(x), t1 = Math::tand(x), at = Math::atand(x);
  if (std::isnan(x)) {
    v.tag("nan");
    v.that(std::isnan(nrm) && std::isnan(rnd) && std::isnan(lf) && std::isnan(s) && std::isnan(c) && std::isnan(s1) &&
           std::isnan(c1) && std::isnan(t1) && std::isnan(at), "NaN argument does not give NaN");
    return v;
  }
  L xl = x, ax = fabsl(xl);
  if (std::isinf(x)) {
    v.tag("inf");
    v.that(std::isnan(lf), "LatFix(+-inf) is not NaN");
    v.that(same_bits(rnd, x), "AngRound(+-inf) is not +-inf");
    v.that(same_bits(at, std::copysign(90.0f, x)), "atand(+-inf) is not +-90");
    return v;
  }
  v.tag(ax == 0 ? "zero" : ax < 0x1p-126L ? "subnormal" : ax < 0x1p-20L ? "<2^-20" : ax < 1 ? "<1" : ax <= 360 ? "<=360" : ax < 0x1p24L ? "<2^24" : "integer>=2^24");
  // LatFix
  if (ax <= 90) v.that(same_bits(lf, x), "LatFix<float>(x) != x for |x| <= 90"); else v.that(std::isnan(lf), "LatFix<float>(x) is not NaN for |x| > 90");
  // AngNormalize: the unique value congruent to x in [-180,180] with the documented sign at 0/180
  {
    L r = fmodl(ax, 360.0L); if (r > 180) r -= 360;
    L y = (r == 0 || r == 180) ? copysignl(r, xl) : (x < 0 ? -r : r);
    float yf = (float)y;
    if ((L)yf != y) { v.skip("reference remainder not representable (oracle)"); return v; }
    v.that(same_bits(nrm, yf), "AngNormalize<float>(x) is not x reduced to [-180,180] with the sign rule");
  }
  // AngRound
  v.that(std::signbit(rnd) == std::signbit(x), "AngRound<float> does not keep the sign");
  if (ax >= 0.0625L) v.that(same_bits(rnd, x), "AngRound<float>(x) != x for |x| >= 1/16");
  else {
    L q = ax * 0x1p28L, rq = fabsl((L)rnd) * 0x1p28L;
    v.that(rq == floorl(rq) && fabsl(rq - q) <= 0.5L, "AngRound<float>(x) is not the nearest multiple of 2^-28");
  }
  // sind cosd sincosd tand
  LdTrig R = ld_trig(x);
  if (bl % 257 == 0) {   // self-validation of the long double reference against the 50-digit one (1 pattern in 257)
    ref::TrigRef R50 = ref::trig_deg(toQ(x));
    M at50 = x == 0 ? M(0) : ref::atan2_deg(toM(x), M(1));
    namespace mp = boost::multiprecision;
    if (mp::abs(toM(R.s) - R50.s) > ref::ulp_at<float>(R50.s) * M(1e-6L) || mp::abs(toM(R.c) - R50.c) > ref::ulp_at<float>(R50.c) * M(1e-6L) ||
        boost::multiprecision::abs(toM(atanl(xl) * RAD_L) - at50) > boost::multiprecision::abs(at50) * M(1e-17L) ||
        R.szero != R50.szero || R.czero != R50.czero || R.special != R50.special) {
      v.skip("long double reference disagrees with the 50-digit reference (oracle)"); return v;
    }
    v.tag("ref-validated");
  }
  L es = ulpf_err(s, R.s), ec = ulpf_err(c, R.c), es1 = ulpf_err(s1, R.s), ec1 = ulpf_err(c1, R.c);
  v.le(es, TOL_F32_SINCOS, "sincosd<float>: sin [ulp]");
  v.le(ec, TOL_F32_SINCOS, "sincosd<float>: cos [ulp]");
  v.le(es1, TOL_F32_SINCOS, "sind<float> [ulp]");
  v.le(ec1, TOL_F32_SINCOS, "cosd<float> [ulp]");
  if (R.czero) v.that(std::isfinite(t1) && std::fabs(t1) >= 1 / std::numeric_limits<float>::epsilon(), "tand<float>(odd multiple of 90) is not a large finite value");
  else v.le(ulpf_err(t1, R.s / R.c), TOL_F32_TAND, "tand<float> [ulp]");
  if (R.special) {
    v.tag("mult30/45");
    float ws = (float)R.s, wc = (float)R.c;
    v.that(s == ws && c == wc && s1 == ws && c1 == wc, "sind/cosd/sincosd<float> not correctly rounded at a multiple of 30 or 45 degrees");
  }
  if (R.szero) v.that(s == 0 && s1 == 0 && std::signbit(s) == std::signbit(x) && std::signbit(s1) == std::signbit(x), "sin<float>(k 180) is not a zero with the sign of x");
  if (R.czero) v.that(c == 0 && c1 == 0, "cos<float>(odd multiple of 90) is not 0");
  v.that(!(c == 0 && std::signbit(c)) && !(c1 == 0 && std::signbit(c1)), "cos<float> returned -0");
  if (!R.szero && ((s == 0 && std::signbit(s)) || (s1 == 0 && std::signbit(s1)))) v.that(R.s < 0, "sin<float> is -0 for an argument that is not a multiple of 180");
  // odd / even, bit-exact
  {
    float sn, cn; Math::sincosd(-x, sn, cn);
    v.that(same_bits(sn, -s) && same_bits(cn, c) && same_bits(Math::sind(-x), -s1) && same_bits(Math::cosd(-x), c1) &&
           same_bits(Math::tand(-x), -t1), "sind/cosd/tand/sincosd<float>: parity not bit-exact");
  }
  // atand
  if (x == 0) v.that(same_bits(at, x), "atand<float>(+-0) is not +-0");
  else {
    v.le(ulpf_err(at, atanl(xl) * RAD_L), TOL_F32_ATAND, "atand<float> [ulp]");
    v.that(std::signbit(at) == std::signbit(x) && std::fabs(at) <= 90.0f, "atand<float>: sign or range");
  }
  return v;
}

void enum_f32(vf::EnumCtx& c) {
  auto emit = [&](uint32_t b) { J r = J::obj(); r["b"] = J::integer((long long)b); return c.emit(r); };
  const uint64_t N = uint64_t(1) << 32;
  if (c.thorough) {
    uint64_t lo = N * (uint64_t)c.shard / (uint64_t)c.nshards, hi = N * (uint64_t)(c.shard + 1) / (uint64_t)c.nshards;
    for (uint64_t b = lo; b < hi; ++b) if (!emit((uint32_t)b)) return;
    c.exhaustive = true;
    return;
  }
  // quick: stratified sample; a pattern always belongs to the same shard, so duplicates between strata
  // are removed by a per-shard set
  std::unordered_set<uint32_t> seen;
  bool stop = false;
  auto visit = [&](uint32_t b) {
    if (stop || (int)(vf::mix(b, 0x5eed) % (uint64_t)c.nshards) != c.shard) return;
    if (!seen.insert(b).second) return;
    if (!emit(b)) stop = true;
  };
  auto around = [&](float f, int w) {   // f and -f, +- w ulps
    uint32_t b = f2bits(std::fabs(f));
    for (int k = -w; k <= w; ++k) {
      long long bb = (long long)b + k;
      if (bb < 0 || bb > 0x7fffffffLL) continue;
      visit((uint32_t)bb); visit((uint32_t)bb | 0x80000000u);
    }
  };
  for (uint64_t b = c.seed % 4099; b < N && !stop; b += 4099) visit((uint32_t)b);          // every 4099-th float
  for (int k = 0; k <= 1000 && !stop; ++k) around(15.0f * (float)k, 64);                   // multiples of 15 degrees
  for (int j = 0; j <= 110 && !stop; ++j) { around(std::ldexp(45.0f, j), 64); around(std::ldexp(135.0f, j), 64); }   // huge multiples
  for (int e = -149; e <= 127 && !stop; ++e) around(std::ldexp(1.0f, e), 64);              // powers of two (incl. 1/16)
  for (uint32_t b = 0; b < (1u << 23) && !stop; b += 1021) { visit(b); visit(b | 0x80000000u); }   // subnormals
  for (uint32_t b = 0; b < 4096 && !stop; ++b) { visit(b); visit(b | 0x80000000u); visit((1u << 23) - 1 - b); visit(((1u << 23) - 1 - b) | 0x80000000u); }
  around(std::numeric_limits<float>::max(), 64);
  for (uint32_t b : {0x7f800000u, 0xff800000u, 0x7fc00000u, 0xffc00000u, 0x7f800001u, 0x7fffffffu, 0xffffffffu}) visit(b);
}

// ================================================================================================
#define REC_T J r = J::obj(); int ty = g_type(); r["T"] = J::integer(ty)

vf::Reg ra({"C16.a", "AngNormalize<float|double|long double>: angles over the whole exponent range, cardinal values +- ulps, huge exact multiples; exact congruence mod 360 in rationals, range, sign rule; non-trivial: finite argument", 0.10,
            [] { return rc::gen::exec([] { REC_T; r["x"] = J::numl(GEN_T(ty, g_angle<T>())); return r; }); }, check_a, nullptr});
vf::Reg rb({"C16.b", "AngDiff: pairs (independent, y = x + small, y = x +- 180 +- ulps, y = x + 360k, cardinal pairs); d + e == y - x mod 360 exactly, d nearest to d + e, range, sign rule; non-trivial: finite arguments", 0.12,
            [] { return rc::gen::exec([] { REC_T; L x = 0, y = 0; GEN_T(ty, (gen_pair<T>(x, y), 0.0L)); r["x"] = J::numl(x); r["y"] = J::numl(y); return r; }); }, check_b, nullptr});
vf::Reg rc_({"C16.c", "sind/cosd/tand/sincosd vs 50-digit values after exact rational reduction; correctly rounded at multiples of 30/45; signed zeros; non-trivial: finite argument", 0.20,
             [] { return rc::gen::exec([] { REC_T; r["x"] = J::numl(GEN_T(ty, g_angle<T>())); return r; }); }, check_c, nullptr});
vf::Reg rcs({"C16.c.sym", "parity, periodicity and quarter-turn/reflection identities bit-exact: x on a lattice 2^l, x2 = 90 m +- x exactly representable; non-trivial: m != 0 or reflection", 0.12,
             [] { return rc::gen::exec([] {
                REC_T;
                int p = ty == 0 ? 24 : ty == 1 ? 53 : 64;
                int l = (int)g::irange(10 - p, 1);
                long long jmax = (1LL << std::min(p - 2, 61)) - 1;
                L x = g::coin(1, 12) ? GEN_T(ty, g_angle<T>())
                                    : g::sgn() * ldexpl((L)g::irange(0, g::coin() ? jmax : (long long)std::min<L>((L)jmax, ldexpl(720, -l))), l);
                long long mmax = (long long)std::min<L>(ldexpl(1, p - 2 + l) / 90, 1e15L);
                long long m = g::coin(1, 8) ? 0 : g::coin() ? g::irange(-8, 8) : g::irange(-mmax, mmax);
                r["x"] = J::numl(x); r["m"] = J::integer(m); r["refl"] = J::integer(g::coin(1, 3));
                return r; }); }, check_csym, nullptr});
vf::Reg rcd({"C16.c.de", "sincosde(x,t): x in [-180,180] (uniform, cardinal +- ulps, tiny), t tiny or like an AngDiff error term; vs 50-digit sincos(x+t) with the documented AngRound coarsening; non-trivial: t != 0", 0.08,
             [] { return rc::gen::exec([] { REC_T; L x = 0, t = 0; GEN_T(ty, (gen_de<T>(x, t), 0.0L)); r["x"] = J::numl(x); r["t"] = J::numl(t); return r; }); }, check_cde, nullptr});
vf::Reg rd({"C16.d", "atan2d/atand: pairs over the whole exponent range, near diagonals and axes, zeros and infinities; vs 50-digit atan2; exact on the axes; range and sign; non-trivial: no NaN", 0.12,
            [] { return rc::gen::exec([] { REC_T; L x = 0, y = 0; GEN_T(ty, (gen_atan<T>(y, x), 0.0L)); r["y"] = J::numl(y); r["x"] = J::numl(x); return r; }); }, check_d, nullptr});
vf::Reg re({"C16.e", "LatFix and AngRound: values around the gap 2^-(digits+4), ties, 1/16 +- ulps, 90 +- ulps, whole range; pairs for monotonicity; non-trivial: not NaN", 0.08,
            [] { return rc::gen::exec([] { REC_T; L x = 0, x2 = 0; GEN_T(ty, (gen_round<T>(x, x2), 0.0L)); r["x"] = J::numl(x); r["x2"] = J::numl(x2); return r; }); }, check_e, nullptr});
vf::Reg rf({"C16.f", "eatanhe/taupf/tauf: tau over the whole range (incl. 70 and 2/sqrt(eps) switches), es from f in +-[1e-12,0.2], b/a in [0.01,100]; vs 50-digit closed form, round trip, backward error of tauf; failing tauf relations with es > 0.99 or es < -3 are the listed finding C16-tauf-noconv; non-trivial: finite tau", 0.06,
            [] { return rc::gen::exec([] { REC_T; L tau = 0, es = 0; GEN_T(ty, (gen_tau<T>(tau, es), 0.0L)); r["tau"] = J::numl(tau); r["es"] = J::numl(es); return r; }); }, check_f, nullptr});
vf::Reg rg({"C16.g", "Math::sum: pairs with overlapping bits, near cancellation, half-ulp ties, subnormals; s == rounded sum, s + t == u + v exactly (rationals); non-trivial: both summands non-zero", 0.06,
            [] { return rc::gen::exec([] { REC_T; L u = 0, w = 0; GEN_T(ty, (gen_sum<T>(u, w), 0.0L)); r["u"] = J::numl(u); r["v"] = J::numl(w); return r; }); }, check_g, nullptr});
vf::Reg rh({"C16.h", "Accumulator<float|double|long double>: operation lists {add, sub, neg, *=int, *=real, remainder, Sum(y), =, comparisons} with wildly different exponents and near-cancelling runs vs the exact rational sum; non-trivial: >= 1 cancellation of > 40 bits", 0.06,
            [] { return rc::gen::exec([] { int ty = g::wpick({35, 50, 15}); return ty == 0 ? gen_acc<float>(0) : ty == 1 ? gen_acc<double>(1) : gen_acc<L>(2); }); }, check_h, nullptr});
vf::Reg rx({"C16.f32", "enumeration of 32-bit floats through AngNormalize, AngRound, LatFix, sind, cosd, tand, sincosd, atand <float>: thorough = all 2^32 patterns; quick = every 4099-th pattern (offset = seed mod 4099), +-64 ulps around k 15 deg (k <= 1000), 45 2^j, powers of two, subnormal strata, specials; every pattern counts once", 0.0,
            nullptr, check_f32, enum_f32});

}  // namespace

VF_MAIN
