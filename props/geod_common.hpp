// shared by C02, C03, C12, C08, C17: library wrappers, documented tolerances, point-pair generator
#pragma once
#include "fw/harness.hpp"
#include "gen/geo.hpp"
#include "ref/ode.hpp"
#include "ref/tol.hpp"

#include <GeographicLib/Geodesic.hpp>
#include <GeographicLib/GeodesicExact.hpp>
#include <GeographicLib/GeodesicLine.hpp>
#include <GeographicLib/GeodesicLineExact.hpp>

namespace gc {
using namespace GeographicLib;
using vf::J; using vf::Verdict;
typedef long double L;

struct Inv { double a12, s12, azi1, azi2, m12, M12, M21, S12; };
struct Dir { double a12, lat2, lon2, azi2, s12, m12, M12, M21, S12; };

// solver: 0 series, 1 exact, 2 Geodesic(exact=true)
inline bool solver_exact(int s) { return s != 0; }
inline Inv lib_inverse(int solver, double a, double f, double lat1, double lon1, double lat2, double lon2) {
  Inv o; o.s12 = o.azi1 = o.azi2 = o.m12 = o.M12 = o.M21 = o.S12 = Math::NaN();
  switch (solver) {
    case 0: { Geodesic g(a, f); o.a12 = g.GenInverse(lat1, lon1, lat2, lon2, Geodesic::ALL, o.s12, o.azi1, o.azi2, o.m12, o.M12, o.M21, o.S12); break; }
    case 1: { GeodesicExact g(a, f); o.a12 = g.GenInverse(lat1, lon1, lat2, lon2, GeodesicExact::ALL, o.s12, o.azi1, o.azi2, o.m12, o.M12, o.M21, o.S12); break; }
    default: { Geodesic g(a, f, true); o.a12 = g.GenInverse(lat1, lon1, lat2, lon2, Geodesic::ALL, o.s12, o.azi1, o.azi2, o.m12, o.M12, o.M21, o.S12); break; }
  }
  return o;
}
inline Dir lib_direct(int solver, double a, double f, double lat1, double lon1, double azi1, bool arcmode, double len, bool unroll = false) {
  Dir o; unsigned m = Geodesic::ALL | (unroll ? Geodesic::LONG_UNROLL : 0u);
  o.lat2 = o.lon2 = o.azi2 = o.s12 = o.m12 = o.M12 = o.M21 = o.S12 = Math::NaN();
  switch (solver) {
    case 0: { Geodesic g(a, f); o.a12 = g.GenDirect(lat1, lon1, azi1, arcmode, len, m, o.lat2, o.lon2, o.azi2, o.s12, o.m12, o.M12, o.M21, o.S12); break; }
    case 1: { GeodesicExact g(a, f); o.a12 = g.GenDirect(lat1, lon1, azi1, arcmode, len, m, o.lat2, o.lon2, o.azi2, o.s12, o.m12, o.M12, o.M21, o.S12); break; }
    default: { Geodesic g(a, f, true); o.a12 = g.GenDirect(lat1, lon1, azi1, arcmode, len, m, o.lat2, o.lon2, o.azi2, o.s12, o.m12, o.M12, o.M21, o.S12); break; }
  }
  return o;
}

inline L doc_tol(int solver, double a, double f) {
  return solver_exact(solver) ? tol::geod_exact_doc(a, f) : tol::geod_series_doc(a, f);
}
// K x documented accuracy.  K = 2 where the documentation gives a figure for the flattening (|f| <= 0.5 covers the
// series table and the middle of the b/a table of GeodesicExact.hpp).  That table is labelled "approximate maximum
// error": thorough-tier searches (2.4e6 cases) found round-off 2.3x (b/a = 79, s12 of a zero-length arc = 0.9 mm on a
// 5e8 m ellipsoid) and 2.1x (b/a = 0.01) the tabulated figure, so K = 4 beyond |f| = 0.5 and K = 8 where b/a is
// outside [1/8, 8].  Genuine algorithmic failures are orders of magnitude larger than any of these.
inline L kfac(double f) {
  double ba = 1 - f, r = ba > 1 ? ba : 1 / ba;
  return r > 8 ? 8 : std::fabs(f) > 0.5 ? 4 : 2;
}
inline L kdoc(int solver, double a, double f) { return kfac(f) * doc_tol(solver, a, f); }
inline bool in_domain(int solver, double a, double f) {
  if (!(a > 0) || !std::isfinite(a) || !std::isfinite(f)) return false;
  if (solver_exact(solver)) return (1 - f) >= 0.01 && (1 - f) <= 100;
  return std::fabs(f) <= 0.2;
}
inline std::string fclass(double f) {
  double af = std::fabs(f);
  return af == 0 ? "f=0" : af < 1e-6 ? "f<1e-6" : af <= 0.0034 ? "f<=wgs84" : af <= 0.02 ? "f<=0.02" : af <= 0.2 ? "f<=0.2" : "f>0.2";
}

// ------------------------------------------------------------------ point pairs (DESIGN 1.5)
// returns lat1, lon1, lat2, lon2 and a class tag; singular sets over-weighted
struct Pair { double lat1, lon1, lat2, lon2; std::string kind; };
inline Pair pointpair(double a, double f) {
  using namespace vf;
  Pair p; p.lon1 = gg::angle();
  double lon12;
  switch (g::wpick({25, 10, 10, 8, 8, 22, 9, 8})) {
    case 0: p.kind = "generic"; p.lat1 = gg::latitude(); p.lat2 = gg::latitude(); lon12 = gg::angle180(); break;
    case 1: {   // nearly coincident: offset by a tiny vector
      p.kind = "near-coincident"; p.lat1 = gg::latitude();
      double d = g::loguni(1e-9, 10.0) / 111e3 * (6378137.0 / a);   // degrees for ~1e-9..10 m
      p.lat2 = p.lat1 + g::sgn() * d * g::u01(); if (p.lat2 > 90) p.lat2 = 90; if (p.lat2 < -90) p.lat2 = -90;
      lon12 = g::sgn() * d * g::u01() / std::max(1e-6, std::cos(p.lat1 * M_PI / 180));
      if (g::coin(1, 6)) { p.lat2 = p.lat1; lon12 = 0; p.kind = "coincident"; }
      break;
    }
    case 2: p.kind = "meridional"; p.lat1 = gg::latitude(); p.lat2 = gg::latitude();
            lon12 = g::oneof<double>({0, 180, -180}); if (g::coin(1, 3)) lon12 = g::ulps(lon12, (int)g::irange(-2, 2)); if (std::fabs(lon12) > 180) lon12 = 180; break;
    case 3: p.kind = "equatorial"; p.lat1 = g::coin() ? 0.0 : g::coin() ? gg::tiny_lat() : g::sgn() * g::loguni(1e-300, 1e-8); p.lat2 = g::coin() ? 0.0 : g::coin(1, 3) ? p.lat1 * g::oneof<double>({1, -1, 0.5, 2}) : g::coin() ? gg::tiny_lat() : g::sgn() * g::loguni(1e-300, 1e-8);
            lon12 = g::coin() ? gg::angle180() : g::sgn() * (180 - g::loguni(1e-12, 10.0)); break;
    case 4: p.kind = "polar"; p.lat1 = g::sgn() * 90; p.lat2 = g::coin() ? gg::latitude() : g::sgn() * (90 - (g::coin() ? 0 : g::loguni(1e-14, 1))); lon12 = gg::angle180();
            if (g::coin()) std::swap(p.lat1, p.lat2); break;
    case 5: {   // nearly antipodal: astroid region, scaled as in the theory (x,y of order 1)
      p.kind = "antipodal"; p.lat1 = g::coin(1, 4) ? g::sgn() * g::loguni(1e-10, 1) : gg::latitude();
      double beta1 = std::atan((1 - f) * std::tan(p.lat1 * M_PI / 180));
      double cb = std::cos(beta1);
      double fa = std::max(std::fabs(f), 1e-9);
      double x, y;
      switch (g::wpick({30, 20, 20, 15, 15})) {
        case 0: x = g::uni(-3, 3); y = g::uni(-3, 3); break;
        case 1: { double t = g::uni(0, M_PI / 2); double c = std::cos(t), s = std::sin(t); x = g::sgn() * c * c * c; y = g::sgn() * s * s * s; break; }   // on the astroid
        case 2: x = g::sgn() * g::loguni(1e-8, 3); y = g::sgn() * g::loguni(1e-8, 3); break;
        case 3: x = g::sgn() * (1 + g::sgn() * g::loguni(1e-9, 0.5)); y = g::coin() ? 0.0 : g::sgn() * g::loguni(1e-12, 1e-3); break;   // near the cusp
        default: x = g::coin() ? 0.0 : g::sgn() * g::loguni(1e-12, 1e-3); y = g::uni(-2, 2); break;   // near the cut
      }
      lon12 = 180 - x * fa * cb * 180;            // lam12 = pi - x f cos(beta1) pi
      double dbeta = y * fa * cb * cb * 180;      // beta2 = -beta1 + y f cos^2(beta1) pi  (degrees)
      double beta2 = -beta1 * 180 / M_PI + dbeta;
      if (beta2 > 90) beta2 = 90; if (beta2 < -90) beta2 = -90;
      p.lat2 = std::atan(std::tan(beta2 * M_PI / 180) / (1 - f)) * 180 / M_PI;
      if (lon12 > 180) lon12 = 360 - lon12;
      if (g::coin()) lon12 = -lon12;
      break;
    }
    case 6: p.kind = "lat1=-lat2"; p.lat1 = gg::latitude(); p.lat2 = -p.lat1;
            // also a few ulps off the exact symmetry (roundoff can then reverse the ordering of |beta1|, |beta2|)
            if (g::coin(1, 3)) { p.lat2 = g::ulps(-p.lat1, (int)g::irange(-3, 3)); if (std::fabs(p.lat2) > 90) p.lat2 = -p.lat1; }
            switch (g::wpick({3, 3, 2})) {
              case 0: lon12 = g::sgn() * 180.0; break;
              case 1: lon12 = g::sgn() * (180 - g::loguni(1e-13, 20.0)); break;
              default: lon12 = gg::angle180();
            }
            break;
    default: p.kind = "same-lat"; p.lat1 = gg::latitude(); p.lat2 = p.lat1; lon12 = gg::angle180(); break;
  }
  if (!(std::fabs(lon12) <= 180)) lon12 = std::remainder(lon12, 360.0);
  p.lon2 = p.lon1 + lon12;
  // keep lon2 - lon1 an exact representation of lon12 where possible: small lon1
  if (g::coin(2, 3)) { p.lon1 = std::round(p.lon1 * 64) / 64; if (std::fabs(p.lon1) > 1e5) p.lon1 = std::remainder(p.lon1, 360.0); p.lon2 = p.lon1 + lon12; }
  if (g::coin(1, 5)) p.lon2 += 360.0 * (double)g::irange(-3, 3);
  return p;
}

inline void put_pair(J& r, const Pair& p) {
  r["lat1"] = J::num(p.lat1); r["lon1"] = J::num(p.lon1); r["lat2"] = J::num(p.lat2); r["lon2"] = J::num(p.lon2);
  r["kind"] = J::str(p.kind);
}

// exact longitude difference reduced to [-180,180] in long double (inputs are doubles)
inline L lon12_of(double lon1, double lon2) {
  L d = remainderl((L)lon2 - (L)lon1, 360.0L);
  return d;
}

}  // namespace gc
