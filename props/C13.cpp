// C13 — error contract, NaN propagation, memory safety (DESIGN 3/C13).  Flavour "san" (ASan+UBSan).
//
// Sub-checks (all driven by api/registry.hpp, one record = one call):
//   C13.a constructors: every CTOR|THROWS row, valid grid => constructs; one parameter replaced by a
//         non-finite / out-of-range value (lists by parameter name, below) => GeographicErr.  Non-throwing
//         constructors (GeodesicLine, LocalCartesian, CassiniSoldner, AuxAngle, default constructors in
//         poisoned storage) => no exception, Init() false for the default ones.
//   C13.b NaN contract, decided executably: base point in general position, argument i probed with 8
//         stratified valid values; outputs that changed must be NaN (markers for MARK rows) when
//         argument i is NaN, outputs that never changed keep their base bits; no exception.
//   C13.c throw safety: ATOMIC|THROWS rows with out-of-range numbers / malformed strings: only
//         GeographicErr or bad_alloc escapes, and then every output still holds its sentinel.
//   C13.d special-value sweep: every row x every real argument x SPECIALS (enumerated) and random
//         pairs (generated): no sanitizer report, no exception from rows without THROWS, termination
//         (a hang stalls the shard's progress counter; check.py kills it and reports the record).
//
// Isolation: C13.a, C13.c (numeric rows) and C13.d run each call in a worker process forked from the
// harness (requests/outputs on pipes, stderr to a file; a fork per call costs 25 ms under ASan, a
// request 20 us).  UBSan/ASan abort the worker only; the parent parses the report, takes
// the reporting function from frame #0 and matches it against KNOWN_SITES: a listed site is reported as
// v.known(id) when vf::known_on(id) (one id per reporting function), anything else FAILs with the
// report text.  The worker dies with its parent (PR_SET_PDEATHSIG) so a hang is handled by check.py.
//
// MUTATION TABLE (fix-reverts of /verif/seeded/fix-reverts and deliberate breaks; scratch copy /tmp/mutC13).
// Each break applied to a scratch copy of /repo and run with VERIF_REPO=<scratch> at the quick budget
// (only the unit named; findings then listed enabled through their ids).
//   break                                                                  unit that caught it            result
//   F3 revert  (Utility::lookup matches NUL)                                 fuzz c13_mgrs, c13_gars         caught (NUL string accepted with a value), 38 s
//   F4 revert  (LCC::Reverse fmin/fmax swallow NaN)                          C13.b                           caught, 77 s
//   F5 revert  (Carlson RF/RD/RJ loop forever on inf)                        C13.d                           caught as hang: shard stalls, check.py recovers the record
//                                                                                                            (EllipticFunction::F(sn,cn=-inf,dn)); every hanging shard costs 3 x 120 s of replays
//   F6 revert  (readcoeffs Csize overflow, N = 2^30)                         fuzz c13_coeffs, c13_magnetic   caught, 47 s
//   F8 revert  (DMS::Decode 4th ':' component, OOB write)                    C13.c (row DMS::Decode)         caught (UBSan index out of bounds; record recovered from the crashed shard)
//   F1, F2 reverts (Albers hemisphere sign, Georef lon=180)                  -                               not C13 properties (C11/C18): not caught, as expected
//   PolarStereographic ctor: k0 validation removed                           C13.a                           caught, 43 s
//   TransverseMercator ctor: !(isfinite(k0) && k0 > 0) -> k0 <= 0            C13.a                           caught (k0 = NaN accepted), 58 s
//   GARS::Forward: isnan -> "INVALID" branch dropped                         C13.b                           first run NOT caught: the cast of NaN was reported inside GARS::Forward, a
//                                                                                                            function then listed for lon = +-inf; known sites now also match the class of
//                                                                                                            special argument (args_match) -> caught
//   UTMUPS::Forward: x assigned before CheckCoords                           C13.c                           caught (output modified although the call threw), 44 s
//   MGRS::Reverse: len - p < 2 -> < 1 (parser off-by-one)                    fuzz c13_mgrs                   caught (ASan), 26 s
//   OSGB::GridReference: char grid[] two bytes shorter                       C13.d                           caught (ASan stack-buffer-overflow)
//   Geoid ctor: "file has the wrong length" check dropped                    fuzz c13_geoid                  NOT caught: equivalent for this oracle (short files end in stream
//                                                                                                            exceptions that rawval/CacheArea convert to GeographicErr; no UB, no foreign exception)
//   Geoid ctor: "raster size too small" check dropped                        fuzz c13_geoid                  caught (timeouts on negative/huge sizes)
//   Geoid::CacheArea: xs1 = min(_width - iw1 + 1, _xsize)                    fuzz c13_geoid                  first run NOT caught (no cache area across lon 0); CacheArea arguments now come
//                                                                                                            from a table with wrap-around cases -> caught
//   PolarStereographic::Forward: LatFix(lat) removed                         C13.b                           NOT caught: changes the answer for |lat| > 90 only; no NaN, throw or UB involved,
//                                                                                                            outside the stated property
//
// CALIBRATION: unchanged tree, VERIF_SEED 1, 2, 3 (+ earlier 7, 11 on the pbt unit): no failure outside the listed ids.
#include "fw/harness.hpp"
#include "api/registry.hpp"

#include <cfloat>
#include <climits>
#include <new>
#include <poll.h>
#include <signal.h>
#include <sys/prctl.h>
#include <sys/wait.h>

using namespace GeographicLib;
using vf::J; using vf::Verdict;

namespace {

const double NaN = std::numeric_limits<double>::quiet_NaN();
const double INF = std::numeric_limits<double>::infinity();

// ------------------------------------------------------------------------------------ special values
const std::vector<double>& specials() {
  static const std::vector<double> v = [] {
    std::vector<double> s = {NaN};
    auto pm = [&s](double x) { s.push_back(x); s.push_back(-x); };
    pm(INF); pm(0.0); pm(std::numeric_limits<double>::denorm_min()); pm(DBL_MIN); pm(DBL_MAX); pm(1e300); pm(1e-300);
    pm(90); pm(180); pm(360);
    pm(std::nextafter(90.0, 0.0)); pm(std::nextafter(90.0, INF)); pm(std::nextafter(180.0, 0.0)); pm(std::nextafter(180.0, INF));
    // values around the integer conversion limits (casts that precede a range check)
    pm(2147483647.0); pm(2147483648.0); pm(2147483649.0); pm(4294967296.0); pm(9.3e18); pm(1e10);
    return s;
  }();
  return v;
}

// ------------------------------------------------------------------------------------ records <-> calls
const double SENT_D = 0x1.a5a5a5a5a5a5ap+321;
const int SENT_I = -7777;
std::string sent_s(int k) { return "~sentinel" + std::to_string(k) + "~"; }

void sentinels(api::Call& c, bool bpol) {
  for (int k = 0; k < 20; ++k) c.d[k] = SENT_D + k * 0x1p+300;
  for (int k = 0; k < 6; ++k) c.i[k] = SENT_I - k;
  for (int k = 0; k < 4; ++k) c.b[k] = bpol;
  for (int k = 0; k < 4; ++k) c.so[k] = sent_s(k);
}
bool biteq(double x, double y) { return std::memcmp(&x, &y, 8) == 0 || (std::isnan(x) && std::isnan(y)); }

// fills the inputs of c from rec; returns false if the record does not fit the row
bool load(const api::Row& r, const J& rec, api::Call& c) {
  if (!rec.has("a") || !rec.has("n")) return false;
  const J& a = rec.at("a"); const J& n = rec.at("n");
  if (a.a.size() != r.args.size() || n.a.size() != r.iargs.size()) return false;
  for (size_t k = 0; k < r.args.size(); ++k) c.a[k] = a.a[k].asd();
  for (size_t k = 0; k < r.iargs.size(); ++k) {
    double v = n.a[k].asd(); if (!(v >= (double)LLONG_MIN / 2 && v <= (double)LLONG_MAX / 2)) return false;
    c.n[k] = (long long)v;
  }
  if (r.flags & api::STR) { if (!rec.has("s")) return false; c.s = rec.gets("s"); }
  return true;
}
bool ints_valid(const api::Row& r, const api::Call& c) {
  for (size_t k = 0; k < r.iargs.size(); ++k) if (c.n[k] < r.iargs[k].lo || c.n[k] > r.iargs[k].hi) return false;
  return true;
}
bool reals_in_range(const api::Row& r, const api::Call& c) {
  for (size_t k = 0; k < r.args.size(); ++k) if (!(c.a[k] >= r.args[k].lo && c.a[k] <= r.args[k].hi)) return false;
  return true;
}
int row_index(const std::string& name) {
  const auto& R = api::rows();
  for (size_t k = 0; k < R.size(); ++k) if (name == R[k].name) return (int)k;
  return -1;
}

// generator pieces (inside rc::gen::exec)
J gen_base(const api::Row& r) {
  J rec = J::obj(); rec["row"] = J::str(r.name);
  J a = J::arr(); for (auto& g : r.args) a.push(J::num(vf::g::uni(g.lo, g.hi)));
  J n = J::arr(); for (auto& g : r.iargs) n.push(J::integer(vf::g::irange(g.lo, g.hi)));
  rec["a"] = a; rec["n"] = n;
  return rec;
}
J fixed_base(const api::Row& r) {   // deterministic valid point (enumerations)
  J rec = J::obj(); rec["row"] = J::str(r.name);
  J a = J::arr(); for (size_t k = 0; k < r.args.size(); ++k) a.push(J::num(r.args[k].lo + (0.37 + 0.11 * (k % 3)) * (r.args[k].hi - r.args[k].lo)));
  J n = J::arr(); for (auto& g : r.iargs) n.push(J::integer(g.hi - g.lo >= 255 ? 127 : (g.lo + g.hi + 1) / 2));
  rec["a"] = a; rec["n"] = n;
  return rec;
}
std::vector<int> rows_with(unsigned all, unsigned none, bool need_real) {
  std::vector<int> v; const auto& R = api::rows();
  for (size_t k = 0; k < R.size(); ++k)
    if ((R[k].flags & all) == all && !(R[k].flags & none) && (!need_real || !R[k].args.empty())) v.push_back((int)k);
  return v;
}

// ------------------------------------------------------------------------------------ outcomes
enum St { RET = 0, GEOERR = 1, BADALLOC = 2, OTHEREXC = 3, UNKEXC = 4, DIED = 5, SETUP = 6 };
struct Outcome { int st = RET; std::string what, report; };

Outcome call_inproc(const api::Row& r, api::Call& c) {
  Outcome o;
  try { r.fn(c); }
  catch (const GeographicErr& e) { o.st = GEOERR; o.what = e.what(); }
  catch (const std::bad_alloc&) { o.st = BADALLOC; o.what = "std::bad_alloc"; }
  catch (const std::exception& e) { o.st = OTHEREXC; o.what = e.what(); }
  catch (...) { o.st = UNKEXC; o.what = "non-std exception"; }
  return o;
}

void put_all(int fd, const std::string& s) { size_t p = 0; while (p < s.size()) { ssize_t n = ::write(fd, s.data() + p, s.size() - p); if (n <= 0) break; p += (size_t)n; } }
void ser_str(std::string& b, const std::string& s) { uint32_t n = (uint32_t)s.size(); b.append((const char*)&n, 4); b += s; }
bool de_str(const std::string& b, size_t& p, std::string& s) {
  if (p + 4 > b.size()) return false; uint32_t n; std::memcpy(&n, b.data() + p, 4); p += 4;
  if (p + n > b.size()) return false; s.assign(b, p, n); p += n; return true;
}

// Worker process: forked once from the harness (after api::objs() exists), executes one call per
// request and answers on a pipe; its stderr goes to a file.  A sanitizer report or crash kills only the
// worker: the parent sees EOF, collects the report and starts a new worker for the next call.  The
// worker dies with its parent (PR_SET_PDEATHSIG), so a hanging call stalls the shard's progress
// counter and is handled by check.py.
bool read_all(int fd, void* p, size_t n) { char* q = (char*)p; while (n) { ssize_t k = ::read(fd, q, n); if (k <= 0) { if (k < 0 && errno == EINTR) continue; return false; } q += k; n -= (size_t)k; } return true; }
bool write_all(int fd, const void* p, size_t n) { const char* q = (const char*)p; while (n) { ssize_t k = ::write(fd, q, n); if (k <= 0) { if (k < 0 && errno == EINTR) continue; return false; } q += k; n -= (size_t)k; } return true; }
bool send_msg(int fd, const std::string& b) { uint32_t n = (uint32_t)b.size(); return write_all(fd, &n, 4) && write_all(fd, b.data(), b.size()); }
bool recv_msg(int fd, std::string& b) { uint32_t n; if (!read_all(fd, &n, 4) || n > (64u << 20)) return false; b.resize(n); return n == 0 || read_all(fd, &b[0], n); }

struct Worker {
  pid_t pid = -1; int to = -1, from = -1; std::string errpath;
  void serve(int in, int out) {
    std::string req;
    while (recv_msg(in, req)) {
      size_t p = 0; uint32_t row; api::Call c;
      if (req.size() < 4 + sizeof c.a + sizeof c.n + sizeof c.d + sizeof c.i + sizeof c.b) _exit(97);
      std::memcpy(&row, req.data(), 4); p = 4;
      std::memcpy(c.a, req.data() + p, sizeof c.a); p += sizeof c.a;
      std::memcpy(c.n, req.data() + p, sizeof c.n); p += sizeof c.n;
      std::memcpy(c.d, req.data() + p, sizeof c.d); p += sizeof c.d;
      std::memcpy(c.i, req.data() + p, sizeof c.i); p += sizeof c.i;
      std::memcpy(c.b, req.data() + p, sizeof c.b); p += sizeof c.b;
      de_str(req, p, c.s); for (int k = 0; k < 4; ++k) de_str(req, p, c.so[k]);
      if (row >= api::rows().size()) _exit(97);
      Outcome oc = call_inproc(api::rows()[row], c);
      std::string b; b += char(oc.st); ser_str(b, oc.what);
      b.append((const char*)c.d, sizeof c.d); b.append((const char*)c.i, sizeof c.i); b.append((const char*)c.b, sizeof c.b);
      for (int k = 0; k < 4; ++k) ser_str(b, c.so[k]);
      if (!send_msg(out, b)) _exit(96);
    }
    _exit(0);
  }
  bool start() {
    api::objs();   // shared objects are built once, before the fork
    int a[2], b[2];
    if (pipe(a) != 0) return false;
    if (pipe(b) != 0) { close(a[0]); close(a[1]); return false; }
    const char* t = std::getenv("VF_TMP");
    errpath = std::string(t ? t : ".") + "/c13-worker-" + std::to_string((long)getpid()) + ".err";
    std::fflush(stdout); std::fflush(stderr);
    pid = fork();
    if (pid < 0) { close(a[0]); close(a[1]); close(b[0]); close(b[1]); return false; }
    if (pid == 0) {
      prctl(PR_SET_PDEATHSIG, SIGKILL);
      if (getppid() == 1) _exit(98);
      int fd = ::open(errpath.c_str(), O_WRONLY | O_CREAT | O_TRUNC, 0644);
      if (fd >= 0) { dup2(fd, 2); close(fd); }
      close(a[1]); close(b[0]);
      serve(a[0], b[1]);
    }
    close(a[0]); close(b[1]); to = a[1]; from = b[0];
    return true;
  }
  void reap(Outcome& o) {
    if (to >= 0) close(to); if (from >= 0) close(from); to = from = -1;
    int status = 0; while (waitpid(pid, &status, 0) < 0 && errno == EINTR) {}
    pid = -1;
    try { o.report = vf::slurp(errpath); } catch (...) {}
    if (o.report.size() > (1u << 20)) o.report.resize(1u << 20);
    char b[96];
    if (WIFSIGNALED(status)) std::snprintf(b, sizeof b, "worker killed by signal %d", WTERMSIG(status));
    else std::snprintf(b, sizeof b, "worker exited with status %d", WIFEXITED(status) ? WEXITSTATUS(status) : -1);
    o.st = DIED; o.what = b;
  }
};
Worker& worker() { static Worker w; return w; }

// run the call in the worker process; outputs are copied back into c
Outcome call_isolated(const api::Row& r, api::Call& c) {
  Outcome o;
  Worker& w = worker();
  signal(SIGPIPE, SIG_IGN);
  if (w.pid < 0 && !w.start()) { o.st = SETUP; o.what = "cannot start worker"; return o; }
  uint32_t row = (uint32_t)(&r - &api::rows()[0]);
  std::string b; b.append((const char*)&row, 4);
  b.append((const char*)c.a, sizeof c.a); b.append((const char*)c.n, sizeof c.n); b.append((const char*)c.d, sizeof c.d);
  b.append((const char*)c.i, sizeof c.i); b.append((const char*)c.b, sizeof c.b);
  ser_str(b, c.s); for (int k = 0; k < 4; ++k) ser_str(b, c.so[k]);
  std::string rep;
  if (!send_msg(w.to, b) || !recv_msg(w.from, rep)) { w.reap(o); return o; }
  size_t p = 1; std::string so[4];
  if (rep.size() >= 1 && de_str(rep, p, o.what) && p + sizeof c.d + sizeof c.i + sizeof c.b <= rep.size()) {
    o.st = (unsigned char)rep[0];
    std::memcpy(c.d, rep.data() + p, sizeof c.d); p += sizeof c.d;
    std::memcpy(c.i, rep.data() + p, sizeof c.i); p += sizeof c.i;
    std::memcpy(c.b, rep.data() + p, sizeof c.b); p += sizeof c.b;
    for (int k = 0; k < 4; ++k) if (de_str(rep, p, so[k])) c.so[k] = so[k];
  } else { o.st = SETUP; o.what = "malformed reply"; }
  return o;
}

// ------------------------------------------------------------------------------------ sanitizer reports
struct Site { std::string kind, func, loc, line1; };
// frame line: "    #0 0x55d in NAME(args) /path/file.cpp:12:3"  -> NAME (qualified, without arguments)
std::string frame_func(const std::string& ln) {
  size_t p = ln.find(" in "); if (p == std::string::npos) return "";
  std::string f = ln.substr(p + 4);
  size_t q = f.find('('); if (q != std::string::npos) f = f.substr(0, q);
  q = f.find(" /"); if (q != std::string::npos) f = f.substr(0, q);
  while (!f.empty() && f.back() == ' ') f.pop_back();
  return f;
}
std::string basename_loc(const std::string& path) {   // "/repo/src/MGRS.cpp:298:18" -> "MGRS.cpp:298"
  size_t s = path.rfind('/'); std::string b = s == std::string::npos ? path : path.substr(s + 1);
  size_t c1 = b.find(':'); if (c1 == std::string::npos) return b;
  size_t c2 = b.find(':', c1 + 1); return c2 == std::string::npos ? b : b.substr(0, c2);
}
Site parse_report(const std::string& rep) {
  Site s;
  std::vector<std::string> lines; { size_t p = 0; while (p <= rep.size()) { size_t q = rep.find('\n', p); if (q == std::string::npos) q = rep.size(); lines.push_back(rep.substr(p, q - p)); p = q + 1; } }
  for (size_t k = 0; k < lines.size(); ++k) {
    const std::string& ln = lines[k];
    size_t p = ln.find("runtime error: ");
    if (p != std::string::npos) {
      s.kind = ln.find("is outside the range of representable values") != std::string::npos ? "float-cast-overflow" : "ubsan";
      s.line1 = ln.substr(p + 15); s.loc = basename_loc(ln.substr(0, p > 2 ? p - 2 : 0));
      for (size_t j = k + 1; j < lines.size() && j < k + 4; ++j) if (lines[j].find("#0 ") != std::string::npos) { s.func = frame_func(lines[j]); break; }
      return s;
    }
    p = ln.find("ERROR: AddressSanitizer: ");
    if (p != std::string::npos) {
      s.kind = "asan"; s.line1 = ln.substr(p + 25, 80);
      for (size_t j = k + 1; j < lines.size(); ++j) {
        if (lines[j].find(" #") == std::string::npos) { if (!s.func.empty() || j > k + 40) break; else continue; }
        std::string f = frame_func(lines[j]);
        if (s.func.empty()) s.func = f;
        if (f.find("GeographicLib::") != std::string::npos) { s.func = f; size_t sp = lines[j].rfind(' '); if (sp != std::string::npos) s.loc = basename_loc(lines[j].substr(sp + 1)); break; }
      }
      return s;
    }
  }
  return s;
}

// Known float-cast-overflow call sites still present in /repo (findings/C13-float-cast.md): one id per
// reporting function.  A site is matched on the UBSan check kind *and* the function of frame #0.
// kinds: 'f' float-cast-overflow only, 'u' any UBSan check (the cast and the signed overflow that follows it).
// args: the classes of special argument values that belong to the listed finding (N = NaN, I = +-inf,
// H = finite with |x| >= 2^31).  A report is the listed finding only if the call has such an argument and
// no special argument of another class: e.g. GARS::Forward is listed for lon = +-inf only, so the same cast
// reached with lat = NaN (a dropped isnan -> "INVALID" branch) is a new failure, not the known one.
struct KnownSite { const char* func; char kinds; const char* args; };
const KnownSite KNOWN_SITES[] = {
    {"GeographicLib::MGRS::CheckCoords", 'f', "IH"},   {"GeographicLib::MGRS::LatitudeBand", 'u', "NIH"}, {"GeographicLib::MGRS::Forward", 'f', "IHn"},
    {"GeographicLib::OSGB::CheckCoords", 'f', "IHn"},  {"GeographicLib::Geoid::CacheArea", 'f', "NIHO"},
    {"GeographicLib::MagneticModel::FieldGeocentric", 'f', "NIH"}, {"GeographicLib::MagneticModel::Circle", 'f', "NIH"},
    {"GeographicLib::Intersect::AllInt0", 'f', "NIH"},
    // fixed in /repo since (their guards are gone, a regression is a violation): DMS::Encode 3c2d690,
    // UTMUPS::StandardZone 6071024, Georef/Geohash/GARS::Forward c48799b, Geoid::height 791e8b4,
    // MGRS::Forward with a NaN northing da0f5b4 (a huge/infinite northing still reaches the LatitudeBand cast
    // inlined into MGRS::Forward(int,bool,real,real,int,std::string&))
    {nullptr, 0, nullptr}};
// classes of special argument values: N NaN, I +-inf, H finite with |x| >= 2^31 - 1024 (the cast operand may
// be the argument plus a small offset), O a latitude-kind argument outside [-90, 90] (LatFix turns it into NaN;
// only looked at for sites that list it).  Upper case in KnownSite::args: the class can trigger the site;
// lower case: it may be present in another argument without triggering (OSGB lets a NaN coordinate through).
bool args_match(const KnownSite& k, const api::Row& r, const api::Call& c) {
  bool any = false;
  for (size_t j = 0; j < r.args.size(); ++j) {
    double x = c.a[j];
    char cls = std::isnan(x) ? 'N' : std::isinf(x) ? 'I' : std::fabs(x) >= 2147483648.0 - 1024 ? 'H' : (r.args[j].kind == api::LAT && std::fabs(x) > 90) ? 'O' : 0;
    if (!cls) continue;
    if (std::strchr(k.args, cls)) { any = true; continue; }
    if (cls == 'O' || std::strchr(k.args, std::tolower(cls))) continue;
    return false;
  }
  return any;
}
std::string site_id(const std::string& func) {   // GeographicLib::MGRS::CheckCoords -> F9-MGRS-CheckCoords
  std::string f = func; const std::string ns = "GeographicLib::";
  if (f.rfind(ns, 0) == 0) f = f.substr(ns.size());
  std::string id = "F9-"; for (size_t k = 0; k < f.size(); ++k) { if (f[k] == ':' && k + 1 < f.size() && f[k + 1] == ':') { id += '-'; ++k; } else id += f[k]; }
  return id;
}
// a listed finding: KNOWN when enabled for this run (known_findings.json), else the case fails normally
bool known_case(Verdict& v, const std::string& id, const std::string& why) {
  v.tag("known:" + id);
  if (!vf::known_on(id)) return false;
  v.known(id, why); return true;
}

std::string strip_digits(const std::string& s) { std::string o; for (char ch : s) if (!(ch >= '0' && ch <= '9')) o += ch; return o; }

// classifies an outcome that ended in the child's death; returns true if the verdict is final
void died_verdict(Verdict& v, const Outcome& o, const std::string& where, const api::Row& row, const api::Call& call) {
  Site s = parse_report(o.report);
  if (s.kind == "float-cast-overflow" || s.kind == "ubsan")
    for (const KnownSite* k = KNOWN_SITES; k->func; ++k)
      if (s.func == k->func && (s.kind == "float-cast-overflow" || k->kinds == 'u') && args_match(*k, row, call)) {
        if (known_case(v, site_id(s.func), s.kind + " in " + s.func + " (" + s.loc + "): " + s.line1 + " <- " + where)) return;
        break;
      }
  const char* log = std::getenv("C13_SITELOG");
  if (log) { FILE* f = std::fopen(log, "a"); if (f) { std::fprintf(f, "%s\t%s\t%s\t%s\t%s\n", s.kind.c_str(), s.func.c_str(), s.loc.c_str(), s.line1.c_str(), where.c_str()); std::fclose(f); } }
  std::string head = s.kind.empty() ? o.report.substr(0, 400) : (s.kind + " in " + s.func + " (" + s.loc + "): " + s.line1);
  v.that(false, where + ": " + o.what + "; " + head);
}

std::string describe(const api::Row& r, const api::Call& c) {
  std::string s = std::string(r.name) + "(";
  char b[64];
  for (size_t k = 0; k < r.args.size(); ++k) { std::snprintf(b, sizeof b, "%s%s=%.17g", k ? ", " : "", r.args[k].name, c.a[k]); s += b; }
  for (size_t k = 0; k < r.iargs.size(); ++k) { std::snprintf(b, sizeof b, "%s%s=%lld", (k || !r.args.empty()) ? ", " : "", r.iargs[k].name, c.n[k]); s += b; }
  if (r.flags & api::STR) { s += " s="; J::esc(s, c.s); }
  return s + ")";
}

// Intersect::All enumerates (2 ceil(maxdist/d3) + 1)^2 cells by design: a huge finite maxdist is an
// expensive request (hours for 1e10 m), not a hang.  Such calls are not made.
bool too_expensive(const api::Row& r, const api::Call& c) {
  return std::string(r.name) == "Intersect::All" && std::isfinite(c.a[6]) && std::fabs(c.a[6]) > 1e8 && std::fabs(c.a[6]) < 1e17;
}

// =====================================================================================================
// C13.a constructors
std::vector<double> bad_values(const api::Row& r, const std::string& nm) {
  const double big = DBL_MAX;
  std::string row = r.name;
  if (nm == "a" || nm == "b") return {NaN, INF, -INF, 0.0, -0.0, -1.0, -6.4e6, -big};
  if (nm == "f") {
    std::vector<double> v = {NaN, INF, -INF, 1.0, 1.5, 1e300};
    if (row.find("TransverseMercatorExact") != std::string::npos || row.find(",exact)") != std::string::npos) { v.push_back(0.0); v.push_back(-0.01); }   // "a, f, or k0 is not positive"
    return v;
  }
  if (nm == "k0" || nm == "k1" || nm == "k") return {NaN, INF, -INF, 0.0, -0.0, -1.0, -big};
  if (nm.rfind("stdlat", 0) == 0) {
    std::vector<double> v = {NaN, INF, -INF, std::nextafter(90.0, INF), -std::nextafter(90.0, INF), 90.001, -91.0, 1e300, -big};
    // documented invalid *combinations* of the two-parallel constructors: LambertConformalConic "if either stdlat1 or
    // stdlat2 is a pole and stdlat1 is not equal stdlat2", AlbersEqualArea "if stdlat1 and stdlat2 are opposite poles"
    // (check_ctor sets the other parallel accordingly); repaired defect 99a5f50 accepted them with NaN constants
    if (row.find("stdlat1,stdlat2") != std::string::npos) { v.push_back(90.0); v.push_back(-90.0); }
    return v;
  }
  if (nm.rfind("coslat", 0) == 0) return {NaN, -0.1, -1.0, 2.0, INF, -INF};
  if (nm.rfind("sinlat", 0) == 0) return {NaN, 2.0, -2.0, INF, -INF};
  // EllipticFunction::Reset deliberately accepts NaN ("needed for GeodesicExact", EllipticFunction.cpp:223): only the range is demanded
  if (nm == "k2" || nm == "alpha2") return {std::nextafter(1.0, 2.0), 2.0, INF};
  if (nm == "kp2" || nm == "alphap2") return {-0.1, -INF};
  if (nm == "GM") return {NaN, INF, -INF};
  if (nm == "omega") return {NaN, INF, -INF, 1e200};
  if (nm == "J2") return {NaN};
  return {};
}

Verdict check_ctor(const J& rec) {
  Verdict v;
  const api::Row* r = api::find(rec.gets("row"));
  api::Call c;
  if (!r || !(r->flags & api::CTOR) || (r->flags & api::STR) || !load(*r, rec, c)) { v.skip("not a constructor row"); return v; }
  if (!ints_valid(*r, c) || !reals_in_range(*r, c)) { v.skip("base outside the valid grid"); return v; }
  long long i = rec.geti("i"), bi = rec.geti("bad");
  bool throwing = r->flags & api::THROWS;
  v.tag(r->name);
  sentinels(c, false);
  if (i < 0) {   // valid grid
    Outcome o = call_isolated(*r, c);
    if (o.st == DIED) { died_verdict(v, o, "valid parameters " + describe(*r, c), *r, c); return v; }
    v.that(o.st == RET, "valid parameters rejected: " + describe(*r, c) + ": " + o.what);
    if (std::string(r->name) == "default constructors") {
      v.that(!c.b[0] && !c.b[1] && !c.b[2] && !c.b[3], "default-constructed object reports Init() = true");
      v.that(std::isnan(c.d[0]) && std::isnan(c.d[1]) && std::isnan(c.d[2]) && std::isnan(c.d[3]) && std::isnan(c.d[4]) && std::isnan(c.d[6]),
             "default-constructed object returns a non-NaN value");
    }
    v.tag("valid");
    return v;
  }
  if ((size_t)i >= r->args.size()) { v.skip("argument index out of range"); return v; }
  if (throwing) {
    std::vector<double> bad = bad_values(*r, r->args[(size_t)i].name);
    if (bad.empty() || bi < 0) { v.skip("no documented invalid values for this parameter"); return v; }
    c.a[i] = bad[(size_t)bi % bad.size()];
    if (std::fabs(c.a[i]) == 90) {      // pole combination (see bad_values): the other parallel
      std::string nm = r->args[(size_t)i].name; const char* on = nm == "stdlat1" ? "stdlat2" : "stdlat1";
      for (size_t j = 0; j < r->args.size(); ++j) if (std::string(r->args[j].name) == on) {
        if (std::string(r->name).find("Albers") != std::string::npos) c.a[j] = -c.a[i];          // opposite poles
        else if (std::fabs(c.a[j]) == 90 && c.a[j] == c.a[i]) c.a[j] = 0.5 * c.a[i];             // LCC: any unequal parallel
      }
      v.tag("pole-combination");
    }
    Outcome o = call_isolated(*r, c);
    if (o.st == DIED) { died_verdict(v, o, describe(*r, c), *r, c); return v; }
    v.that(o.st == GEOERR, std::string("invalid parameter accepted or wrong exception (") + (o.st == RET ? "returned" : o.what) + "): " + describe(*r, c));
    v.tag("rejected");
  } else {       // documented exceptions: never throw, whatever the argument
    c.a[i] = specials()[(size_t)(bi < 0 ? 0 : bi) % specials().size()];
    Outcome o = call_isolated(*r, c);
    if (o.st == DIED) { died_verdict(v, o, describe(*r, c), *r, c); return v; }
    v.that(o.st == RET, "non-validating constructor threw: " + describe(*r, c) + ": " + o.what);
    v.tag("nothrow-ctor");
  }
  return v;
}

void enum_ctor(vf::EnumCtx& ctx) {
  long long idx = 0;
  for (int k : rows_with(api::CTOR, api::STR, false)) {
    const api::Row& r = api::rows()[(size_t)k];
    J base = fixed_base(r);
    auto emit = [&](long long i, long long bad) {
      if (idx++ % ctx.nshards != ctx.shard) return true;
      J rec = base; rec["i"] = J::integer(i); rec["bad"] = J::integer(bad); return ctx.emit(rec);
    };
    if (!emit(-1, -1)) return;
    for (size_t i = 0; i < r.args.size(); ++i) {
      size_t nb = (r.flags & api::THROWS) ? bad_values(r, r.args[i].name).size() : specials().size();
      for (size_t b = 0; b < nb; ++b) if (!emit((long long)i, (long long)b)) return;
    }
  }
}
J gen_ctor() {
  static const std::vector<int> rows = rows_with(api::CTOR, api::STR, false);
  const api::Row& r = api::rows()[(size_t)vf::g::oneofv(rows)];
  J rec = gen_base(r);
  if (r.args.empty() || vf::g::coin(1, 3)) { rec["i"] = J::integer(-1); rec["bad"] = J::integer(-1); }
  else { rec["i"] = J::integer(vf::g::irange(0, (long long)r.args.size() - 1)); rec["bad"] = J::integer(vf::g::irange(0, 63)); }
  return rec;
}

// =====================================================================================================
// C13.b NaN contract
bool is_marker(const std::string& s) { return s == "INVALID" || s == "invalid"; }

Verdict check_nan(const J& rec) {
  Verdict v;
  const api::Row* r = api::find(rec.gets("row"));
  api::Call base;
  if (!r || !(r->flags & api::NANC) || r->args.empty() || !load(*r, rec, base)) { v.skip("not a NaN-contract row"); return v; }
  long long i = rec.geti("i");
  const J& pr = rec.at("probes");
  if (i < 0 || (size_t)i >= r->args.size() || pr.a.size() != 8) { v.skip("malformed record"); return v; }
  if (!ints_valid(*r, base) || !reals_in_range(*r, base)) { v.skip("base point outside the valid range"); return v; }
  const api::Arg& ai = r->args[(size_t)i];
  api::objs();
  sentinels(base, false);
  api::Call in = base;
  Outcome ob = call_inproc(*r, base);
  if (ob.st != RET) {
    if (r->flags & api::THROWS) { v.skip("base point rejected by validation"); return v; }
    v.that(false, "exception at a valid point " + describe(*r, in) + ": " + ob.what); return v;
  }
  bool chd[20] = {false}, chi[6] = {false}, chs[4] = {false};
  int nprobe = 0;
  for (int k = 0; k < 8; ++k) {
    double p = pr.a[(size_t)k].asd();
    if (!(p >= ai.lo && p <= ai.hi)) { v.skip("probe outside the valid range"); return v; }
    api::Call c = in; c.a[i] = p;
    Outcome o = call_inproc(*r, c);
    if (o.st != RET) {
      if (r->flags & api::THROWS) continue;
      v.that(false, "exception at a valid point " + describe(*r, c) + ": " + o.what); return v;
    }
    ++nprobe;
    for (int j = 0; j < r->nd; ++j) if (!biteq(c.d[j], base.d[j])) chd[j] = true;
    for (int j = 0; j < r->ni; ++j) if (c.i[j] != base.i[j]) chi[j] = true;
    for (int j = 0; j < r->ns; ++j) if (c.so[j] != base.so[j]) chs[j] = true;
  }
  if (nprobe < 4) { v.skip("too few probes accepted"); return v; }
  api::Call cn = in; cn.a[i] = NaN;
  Outcome on = call_isolated(*r, cn);   // the NaN call may reach a listed float-cast site: worker process
  v.tag(r->name);
  if (on.st == SETUP) { v.skip("worker unavailable"); return v; }
  if (on.st == DIED) { died_verdict(v, on, std::string(ai.name) + " = NaN in " + describe(*r, cn), *r, cn); return v; }
  if (on.st != RET) { v.that(false, "exception for NaN argument " + std::string(ai.name) + " of " + describe(*r, cn) + ": " + on.what); return v; }
  int ndep = 0;
  char b[200];
  // listed findings of the NaN contract (findings/C13-nan-contract.md)
  std::string rn = r->name;
  auto listed = [&](int j) -> std::string {
    (void)j;
    if (rn == "Intersect::Next") return "F12-Intersect-Next-NaN";
    // fixed in /repo since: F11 RG NaN 05cbde4 + 73e834b, F13 Authalic diff e1d3ad6 (no guard: a regression fails)
    return "";
  };
  for (int j = 0; j < r->nd; ++j) {
    if (std::isnan(base.d[j])) continue;                 // nothing to decide for an output that is NaN at the base point
    if (chd[j]) {
      ++ndep;
      if (!std::isnan(cn.d[j])) {
        std::snprintf(b, sizeof b, "output d[%d] depends on %s but is %.17g (not NaN) for %s = NaN: ", j, ai.name, cn.d[j], ai.name);
        std::string id = listed(j);
        if (!id.empty() && known_case(v, id, b + describe(*r, in))) return v;
        v.that(false, b + describe(*r, in));
      }
    } else if (!biteq(cn.d[j], base.d[j])) {
      // An output that no probe moved must not turn into a different *number*.  Turning into NaN is
      // tolerated and counted: the library documents "NaNs are returned as appropriate", and 0 x NaN
      // reaches mathematically independent outputs (x of a Mercator/cylindrical conic with n = 0 for
      // lat = NaN, polygon area under a NaN longitude shift, UPS coordinates when the zone is INVALID).
      if (std::isnan(cn.d[j])) { v.tag("independent-output-became-NaN"); continue; }
      std::snprintf(b, sizeof b, "output d[%d] does not depend on %s (8 probes) but changed from %.17g to %.17g for %s = NaN: ", j, ai.name, base.d[j], cn.d[j], ai.name);
      std::string id = listed(j);
      if (!id.empty() && known_case(v, id, b + describe(*r, in))) return v;
      v.that(false, b + describe(*r, in));
    }
  }
  if (r->flags & api::MARK) {
    for (int j = 0; j < r->ni; ++j) if (chi[j]) { ++ndep; if (cn.i[j] != UTMUPS::INVALID) { std::snprintf(b, sizeof b, "int output i[%d] depends on %s but is %d (not INVALID) for NaN: ", j, ai.name, cn.i[j]); v.that(false, b + describe(*r, in)); } }
    for (int j = 0; j < r->ns; ++j) {
      if (is_marker(cn.so[j])) { if (chs[j]) ++ndep; continue; }     // the documented answer to a NaN coordinate
      if (chs[j]) { ++ndep; v.that(false, "string output depends on " + std::string(ai.name) + " but is '" + cn.so[j] + "' (not the INVALID marker) for NaN: " + describe(*r, in)); }
      else if (cn.so[j] != base.so[j]) v.that(false, "string output does not depend on " + std::string(ai.name) + " but changed to '" + cn.so[j] + "' for NaN: " + describe(*r, in));
    }
  }
  v.nontrivial = ndep > 0;
  v.tag(ndep ? "dependent-outputs" : "no-dependent-output");
  return v;
}

J gen_nan() {
  static const std::vector<int> rows = rows_with(api::NANC, 0, true);
  const api::Row& r = api::rows()[(size_t)vf::g::oneofv(rows)];
  J rec = gen_base(r);
  long long i = vf::g::irange(0, (long long)r.args.size() - 1);
  rec["i"] = J::integer(i);
  const api::Arg& g = r.args[(size_t)i];
  J p = J::arr();
  for (int k = 0; k < 8; ++k) { double w = (g.hi - g.lo) / 8; p.push(J::num(vf::g::uni(g.lo + k * w, g.lo + (k + 1) * w))); }   // stratified
  rec["probes"] = p;
  return rec;
}

// =====================================================================================================
// C13.c throw safety
const std::vector<std::string>& seeds_for(const std::string& row) {
  static const std::map<std::string, std::vector<std::string>> m = {
      {"UTMUPS::DecodeZone", {"31n", "1S", "60north", "ups", "n", "s", "0n", "38south", "inv", "61n", "-1s", "31", "3x1n"}},
      {"MGRS::Reverse", {"38SMB4484", "38SMB", "38S", "YYF1800018000", "ZAB12", "31NAA6602100000", "INVALID", "33TWN1234567890", "ABA", "4QFJ12345678", "A", "61CAA", "00AAA", "33IWN12", "38SMB123"}},
      {"MGRS::Decode", {"38SMB4484", "38SMB", "YYF1800018000", "INVALID", "33TWN1234567890", "A", "38S", "", "38SMB1"}},
      {"DMS::Decode", {"40d26'47\"N", "-74:0:21.5", "1d2'3\"", "40:26:47S", "-0d0'0.5\"W", "1e3", "nan", "inf", "070:00:45W", "30.5E", "1:2:3:4", "4d5\"4'", "+-1", "N", "1d60'"}},
      {"DMS::DecodeAngle", {"12d30'", "-5.5", "1:2:3", "5N", "1e400"}},
      {"DMS::DecodeAzimuth", {"35E", "-10", "22d30'W", "10N", "1000"}},
      {"DMS::DecodeLatLon", {"40N 74W", "74W 40N", "-33.3 18.4", "5d 6d", "91 0", "40N 50N", "40W 50E", "1 nan"}},
      {"Geohash::Reverse", {"ezs42", "u4pruydqqvj", "0", "zzzzzzzzzzzzzzzzzz", "invalid", "ezsa2", "", "zzzzzzzzzzzzzzzzzzz"}},
      {"GARS::Reverse", {"006AG39", "361HN", "001AA", "INVALID", "180QZ48", "721AA", "000AA", "001IA", "006AG50", "006AG3"}},
      {"Georef::Reverse", {"GJPJ3217", "MKPG1200", "AAAA", "INVALID", "GJPJ34241716", "GJ", "GJP", "IJPJ", "GJPJ6000", "GJPJ123"}},
      {"OSGB::GridReference(string)", {"TQ3080", "SU387148", "NN166712", "INVALID", "TQ 30 80", "HP", "TI1234", "T", "TQ308", "ZZ99"}},
      {"Utility::date(string)", {"2012-10-23", "2012-10", "2012", "2012-13-01", "2012-02-30", "12-1-1", "2012/10/23", "x"}},
      {"Utility::fractionalyear<double>", {"2012-10-23", "2020.5", "2012-10", "1e400", "-2000", "2012-0-1"}},
      {"Utility::val<double>", {"1.5", "-3e10", "nan", "inf", "0x10", " 12 ", "1/2", "1e400", "--1", "", "+INFINITY", "1.#INF"}},
      {"Utility::val<int>", {"12", "-5", "2147483648", "1.5", "", "0x7", "12 13"}},
      {"Utility::val<bool>", {"true", "0", "false", "1", "2", "TRUE", "t", ""}},
      {"Utility::fract<double>", {"1/298.257", "-3/4", "1/0", "/2", "1/", "1/2/3", "5"}},
      {"GeoCoords(string)", {"33TWN12", "40:26:47N 74:0:21W", "31n 448251 5411932", "38SMB4484", "-33.3 18.4", "n 2000000 2000000", "1 2 3 4", "", "91 0", "31x 1 1"}},
      {"Geoid(name)", {"syngeoid", "nonexistent", "", "synmag", "../syngeoid"}},
      {"MagneticModel(name)", {"synmag", "missing", "", "syngrav"}},
      {"GravityModel(name)", {"syngrav", "missing", "", "synmag"}},
  };
  static const std::vector<std::string> dflt = {"", "x", "1", "a=b # c", "  key   value  "};
  auto it = m.find(row); return it == m.end() ? dflt : it->second;
}

std::string mutate(std::string s) {
  static const char raw[] = "0123456789abcdefABCDEFNSEWnsewZIO:'\"d.-+/ \t,#=\0\x80\xff\xb0\xc2";
  static const std::string cls(raw, sizeof raw - 1);
  int nm = (int)vf::g::irange(0, 3);
  for (int k = 0; k < nm; ++k) {
    size_t pos = s.empty() ? 0 : (size_t)vf::g::irange(0, (long long)s.size() - 1);
    char ch = cls[(size_t)vf::g::irange(0, (long long)cls.size() - 1)];
    switch (vf::g::irange(0, 6)) {
      case 0: if (!s.empty()) s[pos] = ch; break;
      case 1: if (!s.empty()) s.erase(pos, 1); break;
      case 2: s.insert(pos, 1, ch); break;
      case 3: s = s.substr(0, pos); break;
      case 4: if (!s.empty()) s.insert(pos, s.substr(pos, (size_t)vf::g::irange(1, 4))); break;
      case 5: if (!s.empty()) s[pos] = (char)(std::isupper((unsigned char)s[pos]) ? std::tolower((unsigned char)s[pos]) : std::toupper((unsigned char)s[pos])); break;
      default: s += std::string((size_t)vf::g::irange(1, 12), ch);
    }
  }
  return s;
}

double bad_real(const api::Arg& g) {
  switch (vf::g::wpick({30, 25, 25, 20})) {
    case 0: return specials()[(size_t)vf::g::irange(0, (long long)specials().size() - 1)];
    case 1: { double w = g.hi - g.lo; return vf::g::coin() ? g.hi + w * vf::g::loguni(1e-9, 1e6) : g.lo - w * vf::g::loguni(1e-9, 1e6); }   // outside the valid range
    case 2: switch (g.kind) {
        case api::LAT: return vf::g::sgn() * vf::g::oneof<double>({90.0000001, 91, 100, 1e5, 89.99999, 90});
        case api::LON: case api::AZI: case api::ANG: return vf::g::sgn() * vf::g::oneof<double>({180, 360, 540, 1e5, 1e15, 179.9999999});
        case api::XY: return vf::g::oneof<double>({-1, 0, 1e5 - 1e-3, 9e5, 1e6, 1e7, 2e7, 1e9, -1e5, 5e5, 8e5 + 1e-3, 99999, 900001, 9600000, 1800000, 3200000});
        default: return vf::g::sgn() * vf::g::loguni(1e-3, 1e12);
      }
    default: return vf::g::uni(g.lo, g.hi);
  }
}
long long bad_int(const api::IArg& g) {
  switch (vf::g::wpick({40, 30, 30})) {
    case 0: return vf::g::irange(g.lo - 5, g.hi + 5);
    case 1: return vf::g::oneof<long long>({INT_MIN, INT_MAX, -1, 0, 61, 100, -100, 12, 1000000});
    default: return vf::g::irange(g.lo, g.hi);
  }
}

J gen_throw() {
  static const std::vector<int> rows = rows_with(api::ATOMIC | api::THROWS, 0, false);
  const api::Row& r = api::rows()[(size_t)vf::g::oneofv(rows)];
  J rec = gen_base(r);
  // bools stay bools; enumerations and sizes may leave their range only where the library documents validation
  for (size_t k = 0; k < r.args.size(); ++k) if (vf::g::coin(1, 2)) rec["a"].a[k] = J::num(bad_real(r.args[k]));
  for (size_t k = 0; k < r.iargs.size(); ++k) {
    const api::IArg& g = r.iargs[k];
    bool isbool = g.lo == 0 && g.hi == 1;
    if (!isbool && vf::g::coin(1, 2)) rec["n"].a[k] = J::integer(bad_int(g));
  }
  if (r.flags & api::STR) rec["s"] = J::str(mutate(vf::g::oneofv(seeds_for(r.name))));
  rec["bpol"] = J::integer(vf::g::coin());
  return rec;
}

Verdict check_throw(const J& rec) {
  Verdict v;
  const api::Row* r = api::find(rec.gets("row"));
  api::Call c;
  if (!r || (r->flags & (api::ATOMIC | api::THROWS)) != (api::ATOMIC | api::THROWS) || !load(*r, rec, c)) { v.skip("not an atomic validating row"); return v; }
  for (size_t k = 0; k < r->iargs.size(); ++k) {
    const api::IArg& g = r->iargs[k];
    if (g.lo == 0 && g.hi == 1 && (c.n[k] < 0 || c.n[k] > 1)) { v.skip("bool argument out of range"); return v; }
    if (c.n[k] < INT_MIN || c.n[k] > INT_MAX) { v.skip("int argument out of range"); return v; }
  }
  if (c.s.size() > 4096) { v.skip("string too long"); return v; }
  bool bpol = rec.geti("bpol") != 0;
  api::objs();
  sentinels(c, bpol);
  api::Call ref = c;
  Outcome o = (r->flags & api::STR) ? call_inproc(*r, c) : call_isolated(*r, c);
  v.tag(r->name);
  if (o.st == DIED) { died_verdict(v, o, describe(*r, ref), *r, ref); return v; }
  if (o.st == SETUP) { v.skip("fork failed"); return v; }
  if (o.st == RET) { v.tag("accepted"); v.nontrivial = false; return v; }
  v.that(o.st == GEOERR || o.st == BADALLOC, "exception of another type escaped from " + describe(*r, ref) + ": " + o.what);
  char b[160];
  for (int j = 0; j < r->nd; ++j) if (std::memcmp(&c.d[j], &ref.d[j], 8) != 0) { std::snprintf(b, sizeof b, "output d[%d] modified (now %.17g) although the call threw '", j, c.d[j]); v.that(false, b + o.what + "': " + describe(*r, ref)); }
  for (int j = 0; j < r->ni; ++j) if (c.i[j] != ref.i[j]) { std::snprintf(b, sizeof b, "int output i[%d] modified (now %d) although the call threw '", j, c.i[j]); v.that(false, b + o.what + "': " + describe(*r, ref)); }
  for (int j = 0; j < r->nb; ++j) if (c.b[j] != ref.b[j]) { std::snprintf(b, sizeof b, "bool output b[%d] modified although the call threw '", j); v.that(false, b + o.what + "': " + describe(*r, ref)); }
  for (int j = 0; j < r->ns; ++j) if (c.so[j] != ref.so[j]) v.that(false, "string output modified (now '" + c.so[j] + "') although the call threw '" + o.what + "': " + describe(*r, ref));
  v.tag("threw:" + strip_digits(o.what).substr(0, 28));
  return v;
}

// =====================================================================================================
// C13.d special-value sweep
Verdict check_sweep(const J& rec) {
  Verdict v;
  vf::cur().set("C13.d", rec);      // the enumeration path of the harness only records every 1024th case
  const api::Row* r = api::find(rec.gets("row"));
  api::Call c;
  if (!r || (r->flags & api::STR) || !load(*r, rec, c)) { v.skip("not a numeric row"); return v; }
  if (!ints_valid(*r, c)) { v.skip("integer argument outside its documented range"); return v; }
  if (too_expensive(*r, c)) { v.skip("cost grows with maxdist^2"); return v; }
  sentinels(c, false);
  api::Call in = c;
  Outcome o = call_isolated(*r, c);
  v.tag(r->name);
  if (o.st == SETUP) { v.skip("fork failed"); return v; }
  if (o.st == DIED) { died_verdict(v, o, describe(*r, in), *r, in); return v; }
  if (o.st == RET) { v.tag("returned"); return v; }
  if (o.st == GEOERR || o.st == BADALLOC) {
    v.that((r->flags & api::THROWS) != 0, "exception from a function that is not documented to validate: " + describe(*r, in) + ": " + o.what);
    v.tag("rejected");
    return v;
  }
  v.that(false, "exception of another type from " + describe(*r, in) + ": " + o.what);
  return v;
}

void enum_sweep(vf::EnumCtx& ctx) {
  long long idx = 0;
  const auto& R = api::rows();
  const auto& S = specials();
  for (size_t k = 0; k < R.size(); ++k) {
    const api::Row& r = R[k];
    if ((r.flags & api::STR) || r.args.empty()) continue;
    // quick tier: the heavy rows get every other special value per shard rotation (all positions, all rows)
    J base = fixed_base(r);
    for (size_t i = 0; i < r.args.size(); ++i)
      for (size_t s = 0; s < S.size(); ++s) {
        if (idx++ % ctx.nshards != ctx.shard) continue;
        J rec = base; rec["a"].a[i] = J::num(S[s]);
        if (!ctx.emit(rec)) return;
      }
  }
  ctx.exhaustive = false;   // the single-argument sweep is complete, the pair space is sampled
}
J gen_sweep() {
  static const std::vector<int> rows = [] { std::vector<int> v; const auto& R = api::rows(); for (size_t k = 0; k < R.size(); ++k) if (!(R[k].flags & api::STR) && !R[k].args.empty()) v.push_back((int)k); return v; }();
  const api::Row& r = api::rows()[(size_t)vf::g::oneofv(rows)];
  J rec = gen_base(r);
  const auto& S = specials();
  int npos = r.args.size() >= 2 ? (int)vf::g::wpick({0, 15, 70, 15}) : 1;
  for (int k = 0; k < npos; ++k) {
    size_t i = (size_t)vf::g::irange(0, (long long)r.args.size() - 1);
    rec["a"].a[i] = J::num(S[(size_t)vf::g::irange(0, (long long)S.size() - 1)]);
  }
  return rec;
}

const char* RULE_A = "every constructor row x {valid grid, each parameter x documented invalid values (by parameter name) / special values for non-validating constructors} enumerated + random valid bases; non-trivial: every case (constructed or rejected)";
const char* RULE_B = "random NANC row, base point uniform in the row's valid ranges, argument i, 8 stratified valid probes, then argument i = NaN; non-trivial: at least one output depends on argument i";
const char* RULE_C = "random ATOMIC|THROWS row with out-of-range numbers/ints or mutated seed strings, outputs pre-filled with sentinels; non-trivial: the call threw (class = exception text without digits)";
const char* RULE_D = "every numeric row x every real argument x 47 special values (enumerated, complete in both tiers) + random rows with 1-3 special values on a random valid base; each call in a forked child; non-trivial: every executed case";

// development aid: with C13_SITELOG=<file> every failing message is appended to the file (calibrate runs)
template <Verdict (*F)(const J&)> Verdict logged(const J& rec) {
  Verdict v = F(rec);
  const char* log = std::getenv("C13_SITELOG");
  if (log && v.st == Verdict::FAIL) { FILE* f = std::fopen(log, "a"); if (f) { std::fprintf(f, "FAIL\t%s\n", v.msg.c_str()); std::fclose(f); } }
  return v;
}

vf::Reg ra({"C13.a", RULE_A, 0.04, [] { return rc::gen::exec([] { return gen_ctor(); }); }, logged<check_ctor>, enum_ctor});
vf::Reg rb({"C13.b", RULE_B, 0.50, [] { return rc::gen::exec([] { return gen_nan(); }); }, logged<check_nan>, nullptr});
vf::Reg rc_({"C13.c", RULE_C, 0.30, [] { return rc::gen::exec([] { return gen_throw(); }); }, logged<check_throw>, nullptr});
vf::Reg rd({"C13.d", RULE_D, 0.16, [] { return rc::gen::exec([] { return gen_sweep(); }); }, logged<check_sweep>, enum_sweep});

}  // namespace

VF_MAIN
